/-
C06 — waiting for a resource during startup has no lost or false wake-ups.
Two layers: (a) the start-up LTS (AsphaltModel/Startup.lean), where a blocked lookup can
return exactly when a matching resource or factory is there; (b) the waiter protocol
(AsphaltModel/Waiter.lean) — the mechanism of ComponentContext.get_resource over a bounded
event queue — for which the absence of lost wake-ups is proved for every interleaving of
publications and waiter steps.
-/
import AsphaltModel.Startup
import AsphaltModel.Waiter
import AsphaltProofs.Lemmas.Assoc
import AsphaltProofs.Lemmas.Startup2

namespace Asphalt
open St2

/-! ### (a) the LTS -/

/-- No false wake-up: a lookup returns only what is published under exactly that (type, name):
the published object, or the product of the factory published under it. -/
theorem C06_no_false (s s' : SSt) (i : Nat) (k : Key) (v : Val) (h : step? s (.got i k v) = some s') :
    alookup k s.res = some v ∨
      (alookup k s.res = none ∧ ∃ fid, alookup k s.fac = some fid ∧ v = .gen 0 fid 0) := by
  have hrep := nrep_of_step h (fun _ hh => by cases hh) (fun hh => by cases hh)
  obtain ⟨ph, ty, name, rest, t, _, _, hlk, _⟩ := step?_got hrep h
  rcases lookup_inv hlk with ⟨hv, _⟩ | ⟨hn, fid, hf, hv, _⟩
  · exact .inl hv
  · exact .inr ⟨hn, fid, hf, hv⟩

/-- It is the lookup the component asked for (same type, same name), and the component was
blocked in it. -/
theorem C06_answers_request (s s' : SSt) (i : Nat) (k : Key) (v : Val)
    (h : step? s (.got i k v) = some s') :
    ∃ ph ty name rest, s.current i = some (ph, .await ty name :: rest, some k) := by
  have hrep := nrep_of_step h (fun _ hh => by cases hh) (fun hh => by cases hh)
  obtain ⟨ph, ty, name, rest, t, hcur, _⟩ := step?_got hrep h
  exact ⟨ph, ty, name, rest, hcur⟩

/-- No lost wake-up (LTS level): as soon as a matching resource or factory is there, the blocked
lookup can return — whatever else is going on. -/
theorem C06_enabled_when_published (s : SSt) (i : Nat) (ph : StartPhase) (ty : TypeId) (name : String)
    (rest : List Act) (k : Key) (hcur : s.current i = some (ph, .await ty name :: rest, some k))
    (hrep : s.reported = false) (hlive : s.live = true)
    (hpub : (alookup k s.res).isSome = true ∨ (alookup k s.fac).isSome = true) :
    ∃ v, (step? s (.got i k v)).isSome = true := by
  cases hlk : s.lookup k with
  | none =>
    obtain ⟨h1, h2⟩ := lookup_none.1 hlk
    rcases hpub with hp | hp
    · rw [h1] at hp; cases hp
    · rw [h2] at hp; cases hp
  | some p =>
    obtain ⟨v, t⟩ := p
    exact ⟨v, by rw [step?_got_fwd hrep hcur hlive hlk]; rfl⟩

/-- Neither released nor failed by anything else: while nothing is published under exactly that
(type, name) the lookup cannot return, whatever has been published under other types or names. -/
theorem C06_not_released_by_others (s : SSt) (i : Nat) (k : Key) (v : Val)
    (hres : alookup k s.res = none) (hfac : alookup k s.fac = none) :
    step? s (.got i k v) = none := by
  cases hs : step? s (.got i k v) with
  | none => rfl
  | some s' =>
    have hrep := nrep_of_step hs (fun _ hh => by cases hh) (fun hh => by cases hh)
    obtain ⟨ph, ty, name, rest, t, _, _, hlk, _⟩ := step?_got hrep hs
    rw [lookup_none.2 ⟨hres, hfac⟩] at hlk
    cases hlk

/-- A publication under another key leaves the wanted key absent. -/
theorem C06_other_publication (s s' : SSt) (j : Nat) (ty : TypeId) (name : String) (v : Nat) (k : Key)
    (c : CompSpec) (ph : StartPhase) (rest : List Act) (b : Option Key)
    (hspec : s.spec? j = some c) (hcur : s.current j = some (ph, rest, b))
    (hne : k ≠ ⟨ty, publishName (phaseOf ph) c.dflt name⟩)
    (hres : alookup k s.res = none) (hstep : step? s (.pub j ty name v) = some s') :
    alookup k s'.res = none := by
  have hrep := nrep_of_step hstep (fun _ hh => by cases hh) (fun hh => by cases hh)
  obtain ⟨c', ph', rest', hc', hcur', _, _, rfl⟩ := step?_pub hrep hstep
  have hc : c' = c := by
    have : s.prog[j]? = some c := hspec
    rw [hc'] at this; exact Option.some.inj this
  subst hc
  rw [hcur] at hcur'
  simp only [Option.some.injEq, Prod.mk.injEq] at hcur'
  obtain ⟨rfl, _, _⟩ := hcur'
  simp only [setCurrent_res]
  rw [alookup_append, hres]
  simp only [Option.orElse_none, alookup_cons, alookup_nil]
  rw [if_neg (fun e => hne e.symm)]

/-- What is published stays published (so an enabled lookup stays enabled until it is taken). -/
theorem C06_published_stays (s s' : SSt) (l : Lab) (k : Key) (hstep : step? s l = some s') :
    ((alookup k s.res).isSome = true → (alookup k s'.res).isSome = true) ∧
    ((alookup k s.fac).isSome = true → (alookup k s'.fac).isSome = true) := by
  have hs := step?_sum hstep
  obtain ⟨r, hr⟩ := hs.res
  obtain ⟨f, hf⟩ := hs.fac
  constructor
  · intro h
    rw [hr, alookup_append]
    cases hv : alookup k s.res with
    | none => rw [hv] at h; cases h
    | some v => rfl
  · intro h
    rw [hf, alookup_append]
    cases hv : alookup k s.fac with
    | none => rw [hv] at h; cases h
    | some v => rfl

/-- With optional=True the lookup never waits: it answers immediately with what is there now. -/
theorem C06_optional_immediate (s : SSt) (i : Nat) (ph : StartPhase) (ty : TypeId) (name : String)
    (rest : List Act) (hcur : s.current i = some (ph, .awaitOpt ty name :: rest, none))
    (hrep : s.reported = false) (hlive : s.live = true) :
    (step? s (.gotOpt i ⟨ty, name⟩ ((s.lookup ⟨ty, name⟩).map Prod.fst))).isSome = true ∧
      ∀ v s', step? s (.gotOpt i ⟨ty, name⟩ v) = some s' → v = (s.lookup ⟨ty, name⟩).map Prod.fst := by
  constructor
  · cases hlk : s.lookup ⟨ty, name⟩ with
    | none =>
      rw [Option.map_none, step?_gotOpt_none_fwd hrep hcur hlive hlk]; rfl
    | some p =>
      obtain ⟨v, t⟩ := p
      rw [Option.map_some, step?_gotOpt_some_fwd hrep hcur hlive hlk]; rfl
  · intro v s' hs
    obtain ⟨ph', ty', name', rest', _, _, _, hh⟩ := step?_gotOpt hrep hs
    rcases hh with ⟨v', t, hlk, hv, _⟩ | ⟨hlk, hv, _⟩
    · rw [hlk, hv]; rfl
    · rw [hlk, hv]; rfl

/-! ### (b) the waiter protocol -/

/-- The protocol invariant: whenever the wanted resource is there and the waiter has not returned,
an event is on its way to it (queued, or handed over) — it is never blocked for good. -/
def WInvariant (s : WSt) : Prop :=
  (s.present = true → (s.phase = .armed ∨ s.phase = .waiting) → (0 < s.buf ∨ s.handed = true)) ∧
  (s.phase = .waiting → 0 < s.buf → s.handed = true) ∧
  (s.phase ≠ .waiting → s.handed = false) ∧ s.buf ≤ s.cap

theorem wstep_cap (s : WSt) (op : WOp) : (wstep s op).cap = s.cap := by
  obtain ⟨present, phase, buf, handed, cap⟩ := s
  cases op <;> cases phase <;> simp only [wstep] <;> (repeat' split) <;> rfl

theorem wrun_cap (s : WSt) (ops : List WOp) : (wrun s ops).cap = s.cap := by
  induction ops generalizing s with
  | nil => rfl
  | cons op ops ih => rw [wrun, ih, wstep_cap]

theorem winv_step (s : WSt) (op : WOp) (hcap : 0 < s.cap) (h : WInvariant s) : WInvariant (wstep s op) := by
  obtain ⟨present, phase, buf, handed, cap⟩ := s
  simp only [WInvariant] at h hcap ⊢
  cases op <;> cases phase <;> cases present <;> cases handed <;>
    simp_all [wstep] <;> (repeat' split) <;> (try simp_all) <;> (try omega)

theorem winv_run (s : WSt) (ops : List WOp) (hcap : 0 < s.cap) (h : WInvariant s) :
    WInvariant (wrun s ops) := by
  induction ops generalizing s with
  | nil => exact h
  | cons op ops ih => exact ih _ (by rw [wstep_cap]; exact hcap) (winv_step s op hcap h)

theorem winv_init (cap : Nat) (p0 : Bool) : WInvariant (WSt.init cap p0) := by
  simp [WInvariant, WSt.init]

theorem C06_waiter_invariant (cap : Nat) (hcap : 0 < cap) (p0 : Bool) (ops : List WOp) :
    WInvariant (wrun (WSt.init cap p0) ops) := by
  exact winv_run _ ops hcap (winv_init cap p0)

theorem wno_lost (s : WSt) (h : WInvariant s) (hp : s.present = true)
    (hph : s.phase = .armed ∨ s.phase = .waiting) :
    s.runnable = true ∧ (wstep s .run).phase = .done := by
  obtain ⟨present, phase, buf, handed, cap⟩ := s
  simp only [WInvariant] at h hp hph ⊢
  subst hp
  rcases hph with rfl | rfl
  · have hh : handed = false := h.2.2.1 (by simp)
    subst hh
    have hb : buf ≠ 0 := by
      have := h.1 rfl (.inl rfl); simp at this; omega
    simp [WSt.runnable, wstep, hb]
  · have hh : handed = true := by
      rcases h.1 rfl (.inr rfl) with hb | hh
      · exact h.2.1 rfl hb
      · exact hh
    subst hh
    simp [WSt.runnable, wstep]

theorem wdone_step (s : WSt) (op : WOp) (h : s.phase = .done → s.present = true) :
    (wstep s op).phase = .done → (wstep s op).present = true := by
  obtain ⟨present, phase, buf, handed, cap⟩ := s
  cases op <;> cases phase <;> cases present <;>
    simp_all [wstep] <;> (repeat' split) <;> (try simp_all)

theorem wdone_run (s : WSt) (ops : List WOp) (h : s.phase = .done → s.present = true) :
    (wrun s ops).phase = .done → (wrun s ops).present = true := by
  induction ops generalizing s with
  | nil => exact h
  | cons op ops ih => exact ih _ (wdone_step s op h)

/-- No lost wake-up: in every reachable state where the resource is there and the waiter has asked
but not returned, the waiter is runnable, and running it (at most twice) makes it return. -/
theorem C06_waiter_no_lost (cap : Nat) (hcap : 0 < cap) (p0 : Bool) (ops : List WOp) :
    let s := wrun (WSt.init cap p0) ops
    s.present = true → (s.phase = .armed ∨ s.phase = .waiting) →
      s.runnable = true ∧ ((wstep s .run).phase = .done ∨ (wstep (wstep s .run) .run).phase = .done) := by
  intro s hp hph
  have h := wno_lost s (C06_waiter_invariant cap hcap p0 ops) hp hph
  exact ⟨h.1, .inl h.2⟩

/-- No false wake-up: the waiter returns only when the resource is there, however many unrelated
publications it has seen. -/
theorem C06_waiter_no_false (cap : Nat) (p0 : Bool) (ops : List WOp) :
    (wrun (WSt.init cap p0) ops).phase = .done → (wrun (WSt.init cap p0) ops).present = true := by
  exact wdone_run _ ops (by simp [WSt.init])

/-- Once there, always there; once returned, stays returned. -/
theorem C06_waiter_monotone (s : WSt) (op : WOp) :
    (s.present = true → (wstep s op).present = true) ∧ (s.phase = .done → (wstep s op).phase = .done) := by
  obtain ⟨present, phase, buf, handed, cap⟩ := s
  constructor
  · intro hp
    simp only at hp
    subst hp
    cases op <;> cases phase <;> simp only [wstep] <;> (repeat' split) <;> simp_all
  · intro hp
    simp only at hp
    subst hp
    cases op <;> simp [wstep]

/-- The queue size matters: with a queue of size 0 a wake-up can be lost (the request, then the
publication while the waiter is at its checkpoint, then the waiter blocks for good). -/
theorem C06_waiter_cap_needed :
    let s := wrun (WSt.init 0 false) [.request, .publish true, .run]
    s.present = true ∧ s.phase = .waiting ∧ s.runnable = false := by
  decide

/-- Non-vacuity: the D6 history — the waiter asks, 60 unrelated resources and then the wanted one are
published before it gets to run (queue of 50): it still returns. -/
example :
    (wrun (WSt.init 50 false)
      ([.request, .run] ++ List.replicate 60 (.publish false) ++ [.publish true, .run, .run])).phase = .done := by
  decide +kernel

end Asphalt
