/-
C14 — component configuration is a layered deep merge that fully determines the tree.
Property theorems only. The model is `initTree` / `initChildren` / `normaliseChild` /
`publishName` in `AsphaltModel/Config.lean`.
-/
import AsphaltModel.Config
import AsphaltProofs.Lemmas.Assoc
import AsphaltProofs.Lemmas.Config
import AsphaltProofs.Props.C17

namespace Asphalt

/-- Inversion of a successful `_init_component`: the component is constructed with the
configuration minus `type`/`components`, from the class its type resolves to, and its
children are built from the hard-coded `add_component` calls deep-merged with — and
overridden by — the external `components` section. -/
theorem C14_root_inv (env : InitEnv) (fuel : Nat) (path : String) (config : Dict) (dflt : String)
    (t : CompTree) (h : initTree env (fuel + 1) path config dflt = .ok t) :
    ∃ ty cid cdef kids,
      alookup "type" (aerase "components" config) = some ty ∧
      resolveType env path ty = .ok cid ∧ env.classes cid = some cdef ∧ cdef.ctorFails = false ∧
      initChildren env fuel path (mergeOpt (some cdef.children) (componentsOf config)) = .ok kids ∧
      t = .node path cid (aerase "type" (aerase "components" config)) dflt kids := by
  rw [initTree] at h
  cases h1 : alookup "type" (aerase "components" config) with
  | none => simp only [h1, bind, Except.bind, throw, throwThe, MonadExceptOf.throw] at h; cases h
  | some ty =>
    cases h2 : resolveType env path ty with
    | error x => simp only [h1, h2, bind, Except.bind, pure, Except.pure] at h; cases h
    | ok cid =>
      cases h3 : env.classes cid with
      | none =>
        simp only [h1, h2, h3, bind, Except.bind, pure, Except.pure, throw, throwThe,
          MonadExceptOf.throw] at h
        cases h
      | some cdef =>
        cases h4 : cdef.ctorFails with
        | true =>
          simp only [h1, h2, h3, h4, bind, Except.bind, pure, Except.pure, throw, throwThe,
            MonadExceptOf.throw, if_true] at h
          cases h
        | false =>
          cases h5 : initChildren env fuel path
              (mergeOpt (some cdef.children) (componentsOf config)) with
          | error x =>
            simp only [h1, h2, h3, h4, h5, bind, Except.bind, pure, Except.pure] at h
            cases h
          | ok kids =>
            simp only [h1, h2, h3, h4, h5, bind, Except.bind, pure, Except.pure] at h
            refine ⟨ty, cid, cdef, kids, rfl, h2, h3, h4, h5, ?_⟩
            cases h
            rfl

/-- Inversion for the children loop: children are created in the order of the merged
dictionary, each from its normalised configuration, with the default resource name taken
from the part of the alias after the first `/`. -/
theorem C14_children_inv (env : InitEnv) (fuel : Nat) (path alias : String) (c : Cfg)
    (rest : Dict) (kids : List CompTree)
    (h : initChildren env fuel path ((alias, c) :: rest) = .ok kids) :
    ∃ d t ts,
      normaliseChild (childPath path alias) alias c = .ok d ∧
      initTree env fuel (childPath path alias) d ((afterSlash alias).getD "default") = .ok t ∧
      initChildren env fuel path rest = .ok ts ∧ kids = t :: ts := by
  rw [initChildren] at h
  cases h1 : normaliseChild (childPath path alias) alias c with
  | error x => simp only [h1, bind, Except.bind] at h; cases h
  | ok d =>
    cases h2 : initTree env fuel (childPath path alias) d ((afterSlash alias).getD "default") with
    | error x => simp only [h1, h2, bind, Except.bind] at h; cases h
    | ok t =>
      cases h3 : initChildren env fuel path rest with
      | error x => simp only [h1, h2, h3, bind, Except.bind] at h; cases h
      | ok ts =>
        simp only [h1, h2, h3, bind, Except.bind, pure, Except.pure] at h
        cases h
        exact ⟨d, t, ts, rfl, h2, rfl, rfl⟩

/-- Per alias, the child configuration is: dict/dict → recursive merge, else external, else
hard-coded (via C17_lookup). -/
theorem C14_child_config (hard ext : Dict) (hext : NoDupKeys ext) (alias : String) :
    alookup alias (mergeOpt (some hard) (some ext)) =
      mergedValue (alookup alias hard) (alookup alias ext) := by
  exact C17_lookup hard ext hext alias

/-- Components that appear only in the external configuration are created too, after the
hard-coded ones. -/
theorem C14_child_order (hard ext : Dict) (hext : NoDupKeys ext) :
    akeys (mergeOpt (some hard) (some ext)) =
      akeys hard ++ (akeys ext).filter (fun k => decide (k ∉ akeys hard)) := by
  exact C17_keys hard ext hext

/-- No external section (or `None`): exactly the hard-coded children. -/
theorem C14_no_external (hard : Dict) : mergeOpt (some hard) none = hard := by
  exact C17_none_right (some hard)

/-- A child given as `None` gets the type named by its alias (up to the first `/`). -/
theorem C14_type_from_alias_none (p alias : String) :
    normaliseChild p alias (.atom .none) = .ok [("type", .atom (.str (beforeSlash alias)))] := by
  rfl

/-- A child dictionary without `type` gets the type named by its alias. -/
theorem C14_type_from_alias (p alias : String) (d : Dict) (h : alookup "type" d = none) :
    normaliseChild p alias (.dict d) = .ok (d ++ [("type", .atom (.str (beforeSlash alias)))]) := by
  have hk : "type" ∉ akeys d := (alookup_none_iff _ _).mp h
  have hl : alookup "type" (d ++ [("type", Cfg.atom (.str alias))]) = some (.atom (.str alias)) := by
    rw [alookup_append, h]; rfl
  simp only [normaliseChild, acontains, h, Option.isSome_none, Bool.false_eq_true, if_false, hl,
    ainsert_append_singleton _ _ _ _ hk]

/-- A class object given as type is used as it is. -/
theorem C14_type_class (p alias : String) (d : Dict) (n : Nat)
    (h : alookup "type" d = some (.atom (.cls n))) :
    normaliseChild p alias (.dict d) = .ok d := by
  simp only [normaliseChild, acontains, h, Option.isSome_some, if_true]

/-- The tree depends on the spelling of a type only through what it resolves to. -/
theorem C14_type_equiv (env : InitEnv) (fuel : Nat) (path : String) (config : Dict) (dflt : String)
    (ty1 ty2 : Cfg) (h : resolveType env path ty1 = resolveType env path ty2) :
    initTree env fuel path (ainsert "type" ty1 config) dflt =
      initTree env fuel path (ainsert "type" ty2 config) dflt := by
  cases fuel with
  | zero => rw [initTree, initTree]
  | succ fuel =>
    rw [initTree, initTree]
    simp only [componentsOf_ainsert_type, alookup_type_erase_components_ainsert,
      aerase_aerase_ainsert "type" "components" _ _ (by decide), pure_bind, h]

/-- An alias `kind/name` selects type `kind` and default resource name `name`. -/
theorem C14_alias_split (kind nm : String) (h : '/' ∉ kind.toList) :
    beforeSlash (kind ++ "/" ++ nm) = kind ∧ afterSlash (kind ++ "/" ++ nm) = some nm := by
  have hl : (kind ++ "/" ++ nm).toList = kind.toList ++ '/' :: nm.toList := by
    rw [String.toList_append, String.toList_append, List.append_assoc]; rfl
  constructor
  · rw [beforeSlash, hl, takeWhile_append_of_not_mem _ _ _ h, String.ofList_toList]
  · rw [afterSlash, hl, dropWhile_append_of_not_mem _ _ _ h]
    show some (String.ofList nm.toList) = some nm
    rw [String.ofList_toList]

theorem C14_alias_plain (a : String) (h : '/' ∉ a.toList) :
    beforeSlash a = a ∧ afterSlash a = none := by
  constructor
  · rw [beforeSlash, takeWhile_of_not_mem _ _ h, String.ofList_toList]
  · rw [afterSlash, dropWhile_of_not_mem _ _ h]

/-- `default` is remapped to the alias name in `start()` … -/
theorem C14_publish_start_default (dflt : String) :
    publishName .starting dflt "default" = dflt := by
  simp only [publishName, and_self, if_true]

/-- … but not in `prepare()` … -/
theorem C14_publish_prepare (dflt n : String) : publishName .preparing dflt n = n := by
  simp only [publishName, reduceCtorEq, and_false, if_false]

/-- … and never for explicitly named resources. -/
theorem C14_publish_explicit (ph : CompPhase) (dflt n : String) (h : n ≠ "default") :
    publishName ph dflt n = n := by
  simp only [publishName, h, false_and, if_false]

/-- Non-vacuity: a root with one hard-coded child `db/main` (kwargs a=1, opts={x:1}) whose
external section overrides `a`, extends `opts` and adds a config-only child `ep2`. -/
example :
    let env : InitEnv := {
      classes := fun n => if n = 0 then some { children := [("db/main", .dict [("type", .atom (.cls 1)), ("a", .atom (.other "1")), ("opts", .dict [("x", .atom (.other "1"))])])] }
                 else if n ≤ 2 then some { children := [] } else none,
      resolveStr := fun s => if s = "ep2" then some 2 else none }
    initTree env 8 "" [("type", .atom (.cls 0)),
        ("components", .dict [("db/main", .dict [("a", .atom (.other "2")), ("opts", .dict [("y", .atom .none)])]),
                              ("ep2", .atom .none)])] "default"
    = .ok (.node "" 0 [] "default"
        [.node "db/main" 1 [("a", .atom (.other "2")), ("opts", .dict [("x", .atom (.other "1")), ("y", .atom .none)])] "main" [],
         .node "ep2" 2 [] "default" []]) := by
  have h1 : afterSlash "db/main" = some "main" := by decide
  have h2 : afterSlash "ep2" = none := by decide
  have h3 : beforeSlash "ep2" = "ep2" := by decide
  have h4 : childPath "" "db/main" = "db/main" := by decide
  have h5 : childPath "" "ep2" = "ep2" := by decide
  simp [initTree, initChildren, componentsOf, mergeOpt, merge, mergeVal, alookup, ainsert, aerase,
    resolveType, normaliseChild, acontains, h1, h2, h3, h4, h5,
    bind, Except.bind, pure, Except.pure]

end Asphalt
