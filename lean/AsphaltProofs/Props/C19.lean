/-
C19 — @inject is equivalent to explicit lookups in the current context.
The model receives the already-resolved dependencies (`Dep`: parameter name, type, resource
name, optional); resolving annotations is Python's and exercised by the correspondence.
-/
import AsphaltModel.Context
import AsphaltProofs.Lemmas.Assoc
import AsphaltProofs.Lemmas.Kernel2
import AsphaltProofs.Lemmas.Kernel2

namespace Asphalt
open K2

/-- The explicit lookups an injected call stands for. -/
def lookupOps (c : CtxId) (t : TaskId) (isAsync : Bool) (deps : List Dep) : List Op :=
  deps.map fun d => if isAsync then Op.get t c d.key d.optional else Op.getNowait c d.key d.optional

/-- Running the explicit lookups is the same fold as `resolveDeps`. -/
theorem run_lookupOps (c : CtxId) (t : TaskId) (isAsync : Bool) (deps : List Dep) :
    ∀ (w : World) (x : Ctx), w.ctx? c = some x → (resolveDeps c isAsync t x deps).2.2 = true →
      (run w (lookupOps c t isAsync deps)).1 = w.setCtx c (resolveDeps c isAsync t x deps).1 := by
  induction deps with
  | nil =>
    intro w x hx _
    simp [lookupOps, run, resolveDeps, World.setCtx_self w c x hx]
  | cons d ds ih =>
    intro w x hx hok
    have hstep : (step w (if isAsync then Op.get t c d.key d.optional
        else Op.getNowait c d.key d.optional)).1 = w.setCtx c (depLookup c isAsync t x d).1 := by
      cases isAsync <;> simp [step, onCtx_some _ _ _ _ hx, depLookup]
    have hrun : (run w (lookupOps c t isAsync (d :: ds))).1 =
        (run (w.setCtx c (depLookup c isAsync t x d).1) (lookupOps c t isAsync ds)).1 := by
      simp only [lookupOps, List.map_cons, run]
      rw [← hstep]
    rw [hrun]
    rw [resolveDeps_cons] at hok ⊢
    split at hok
    · rename_i v evs hl
      rw [ih _ _ (World.ctx?_setCtx_same _ _ _) hok, World.setCtx_setCtx]
    · rename_i hl
      rw [ih _ _ (World.ctx?_setCtx_same _ _ _) hok, World.setCtx_setCtx]
    · simp at hok

/-- Equivalence on the state: when every dependency resolves, calling the injected function
leaves the world exactly as the explicit lookups (sync API for plain functions, async API
for coroutine functions) in parameter order would — including factories triggered and
events logged. -/
theorem C19_equiv_world (w : World) (t : TaskId) (c : CtxId) (x : Ctx) (isAsync : Bool)
    (deps : List Dep) (hc : w.curOf t = some c) (hx : w.ctx? c = some x)
    (hok : (resolveDeps c isAsync t x deps).2.2 = true) :
    (step w (.inject t isAsync deps false)).1 = (run w (lookupOps c t isAsync deps)).1 := by
  have hstep : (step w (.inject t isAsync deps false)).1 =
      w.setCtx c (resolveDeps c isAsync t x deps).1 := by
    simp [step, hc, hx]
  rw [hstep, run_lookupOps c t isAsync deps w x hx hok]

/-- The function body runs exactly when every dependency resolved. -/
theorem C19_called_iff (w : World) (t : TaskId) (c : CtxId) (x : Ctx) (isAsync : Bool)
    (deps : List Dep) (hc : w.curOf t = some c) (hx : w.ctx? c = some x) :
    (∃ pre, (step w (.inject t isAsync deps false)).2 = pre ++ [.called]) ↔
      (resolveDeps c isAsync t x deps).2.2 = true := by
  have hnc := resolveDeps_no_called c isAsync t deps x
  rcases hr : resolveDeps c isAsync t x deps with ⟨x', os, ok⟩
  rw [hr] at hnc
  cases ok with
  | true => simp [step, hc, hx, hr]
  | false =>
    simp only [step, hc, hx, hr, Bool.false_eq_true, if_false, iff_false]
    rintro ⟨pre, hpre⟩
    have hmem : Out.called ∈ pre ++ [Out.called] := by simp
    rw [← hpre] at hmem
    exact hnc (List.mem_filter.mp hmem).1

/-- What a parameter receives is what the lookup returns: first dependency spelled out for the
sync API … -/
theorem C19_binds_lookup_result (cid : CtxId) (t : TaskId) (x : Ctx) (d : Dep) (ds : List Dep)
    (v : Val) (evs : List Out) (h : (ctxGetNowait cid x d.key d.optional).2 = .val v :: evs) :
    (resolveDeps cid false t x (d :: ds)).2.1.head? = some (.arg d.param (some v)) := by
  rw [resolveDeps_cons]
  simp only [depLookup, Bool.false_eq_true, if_false, h]
  rfl

/-- … an `Optional[T]` / `T | None` parameter receives None when nothing matches, and the call
goes on … -/
theorem C19_optional_none (cid : CtxId) (t : TaskId) (x : Ctx) (d : Dep) (ds : List Dep)
    (isAsync : Bool) (hs : x.state.usable = true) (hopt : d.optional = true)
    (hr : alookup d.key x.res = none) (hf : alookup d.key x.fac = none) :
    resolveDeps cid isAsync t x (d :: ds) =
      ((resolveDeps cid isAsync t x ds).1, .arg d.param none :: (resolveDeps cid isAsync t x ds).2.1,
       (resolveDeps cid isAsync t x ds).2.2) := by
  have hl : depLookup cid isAsync t x d = (x, [.none]) := by
    unfold depLookup ctxGet ctxGetNowait
    simp [hs, hr, hf, hopt]
  rw [resolveDeps_cons, hl]

/-- … whereas a missing non-optional resource raises ResourceNotFound before the body runs. -/
theorem C19_missing (cid : CtxId) (t : TaskId) (x : Ctx) (d : Dep) (ds : List Dep)
    (isAsync : Bool) (hs : x.state.usable = true) (hopt : d.optional = false)
    (hr : alookup d.key x.res = none) (hf : alookup d.key x.fac = none) :
    resolveDeps cid isAsync t x (d :: ds) = (x, [.notFound], false) := by
  have hl : depLookup cid isAsync t x d = (x, [.notFound]) := by
    unfold depLookup ctxGet ctxGetNowait
    simp [hs, hr, hf, hopt]
  rw [resolveDeps_cons, hl]

/-- Without a current context the call fails with NoCurrentContext and changes nothing. -/
theorem C19_no_current (w : World) (t : TaskId) (isAsync : Bool) (deps : List Dep)
    (hc : w.curOf t = none) :
    step w (.inject t isAsync deps false) = (w, [.noCurrent]) := by
  simp [step, hc]

/-- Decoration-time rejection: a marker on a positional-only parameter … -/
theorem C19_reject_posonly (ps : List Param) (p : Param) (n : String) (hp : p ∈ ps)
    (hm : p.dflt = .marker n) (hk : p.kind = .posOnly) : decorate ps = none := by
  induction ps with
  | nil => cases hp
  | cons q ps ih =>
    rcases List.mem_cons.mp hp with rfl | hp'
    · simp [decorate, hm, hk]
    · have := ih hp'
      unfold decorate
      split <;> simp_all

/-- … on an unannotated parameter … -/
theorem C19_reject_unannotated (ps : List Param) (p : Param) (n : String) (hp : p ∈ ps)
    (hm : p.dflt = .marker n) (ha : p.annotated = false) : decorate ps = none := by
  induction ps with
  | nil => cases hp
  | cons q ps ih =>
    rcases List.mem_cons.mp hp with rfl | hp'
    · simp [decorate, hm, ha]
    · have := ih hp'
      unfold decorate
      split <;> simp_all

/-- … or `resource` without the parentheses. -/
theorem C19_reject_uncalled (ps : List Param) (p : Param) (hp : p ∈ ps)
    (hm : p.dflt = .uncalled) : decorate ps = none := by
  induction ps with
  | nil => cases hp
  | cons q ps ih =>
    rcases List.mem_cons.mp hp with rfl | hp'
    · simp [decorate, hm]
    · have := ih hp'
      unfold decorate
      split <;> simp_all

/-- Otherwise the decorator accepts, and injects exactly the marked parameters in signature order. -/
theorem C19_accept (ps : List Param)
    (h : ∀ p ∈ ps, p.dflt ≠ .uncalled ∧ ∀ n, p.dflt = .marker n → p.kind ≠ .posOnly ∧ p.annotated = true) :
    decorate ps = some ((ps.filter fun p => match p.dflt with | .marker _ => true | _ => false).map Param.name) := by
  induction ps with
  | nil => simp [decorate]
  | cons q ps ih =>
    have ih' := ih (fun p hp => h p (List.mem_cons_of_mem _ hp))
    have hq := h q List.mem_cons_self
    unfold decorate
    cases hd : q.dflt with
    | marker n =>
      have := hq.2 n hd
      simp [hd, this.1, this.2, ih']
    | uncalled => exact absurd hd hq.1
    | noDefault => simp [hd, ih']
    | value => simp [hd, ih']

/-- Non-vacuity: one ordinary, one keyword-only and two injected parameters (one optional and
missing). -/
example :
    let a1 : AddArgs := ⟨[0], 0, "default", some 1, none, false, none, false⟩
    let deps : List Dep := [⟨"r0", ⟨0, "default"⟩, false⟩, ⟨"r1", ⟨1, "x"⟩, true⟩]
    let ops : List Op := [.new 0 1 none, .enter 0 1, .add 1 a1, .inject 0 false deps false]
    ((run World.empty ops).2.getLast?.map fun o => o.length) = some 3 := by
  have hv : validName "default" = true := by decide
  simp [run, step, onCtx, World.ctx?, World.setCtx, World.curOf, World.setCur, World.empty,
    alookup, ainsert, freshCtx, ctxAdd, addTypes, storeAll, acontains, hv, CState.usable,
    resolveDeps, ctxGetNowait]

end Asphalt
