/-
C08 (continued) — service tasks started while the owner is already being torn down.
`Setup.late cb sp`: teardown callback `cb` of the owner starts service task `sp` when it runs
(`tstep?`, case `cbRun`): the task is running from then on and its finalizer is registered on top of
whatever is still to run. Property theorems only.
-/
import AsphaltModel.Tasks
import AsphaltProofs.Lemmas.Assoc
import AsphaltProofs.Lemmas.Tasks
import AsphaltProofs.Lemmas.TasksLate
import AsphaltProofs.Props.C08

namespace Asphalt

open Tk

set_option linter.unusedVariables false

/-- Until the callback that starts it has run, a late task does not exist: it has no status. -/
theorem C08_late_not_before (prog : List Setup) (hd : DistinctIds prog) (cb : Nat) (sp : TaskSpec)
    (hl : Setup.late cb sp ∈ prog) : (TSt.init prog).statusOf sp.tid = none :=
  init_statusOf_late prog hd.1 cb sp hl

/-- When its callback runs, the task is started and its finalizer goes on top of everything that is
still to run … -/
theorem C08_late_started (prog : List Setup) (hd : DistinctIds prog) (s s' : TSt) (h : TReach prog s)
    (hc : s.crashed = []) (cb : Nat) (sp : TaskSpec) (hl : Setup.late cb sp ∈ prog)
    (hstep : tstep? s (.cbRun cb) = some s') :
    (∃ st, s'.statusOf sp.tid = some st) ∧
      (s.statusOf sp.tid = none → (∀ e, s'.statusOf sp.tid ≠ some (.closed e)) → Item.fin sp.tid ∈ s'.stack) := by
  obtain ⟨ls, hex⟩ := h
  have hfr := reach_frame prog ls s hex hc
  have hla : alookup cb s.lates = some sp.tid := by
    rw [hfr.2.2]; exact init_lates_lookup prog hd.2.2 cb sp hl
  have hsome : s'.statusOf sp.tid ≠ none := cbRun_late_status s s' cb sp.tid hstep hc hla
  have hc' : s'.crashed = [] := tstep_crashed_keep s s' _ hstep hc (by intros; simp)
  have hinv' := reach_inv prog _ s' (exec_snoc _ _ _ _ _ hex hstep) hc'
  refine ⟨?_, ?_⟩
  · cases hst : s'.statusOf sp.tid with
    | none => exact absurd hst hsome
    | some st => exact ⟨st, rfl⟩
  · intro _ hncl
    apply Classical.byContradiction
    intro hns
    obtain ⟨⟨e, he⟩, _⟩ := hinv'.gone_st sp.tid hsome hns
    exact hncl e he

/-- … so teardown does not proceed to any other callback of the owner - all of them were registered
earlier - until that task and its context have completely finished: whenever a callback runs, every
late task started so far is closed. -/
theorem C08_late_before_earlier (prog : List Setup) (hd : DistinctIds prog) (s s' : TSt) (h : TReach prog s)
    (hc : s.crashed = []) (id cb : Nat) (sp : TaskSpec) (hl : Setup.late cb sp ∈ prog)
    (hst : s.statusOf sp.tid ≠ none) (hstep : tstep? s (.cbRun id) = some s') :
    ∃ e, s.statusOf sp.tid = some (.closed e) := by
  obtain ⟨ls, hex⟩ := h
  have hinv := reach_inv prog ls s hex hc
  have hinv2 := reach_inv2 prog hd.1 hd.2.1 ls s hex hc
  obtain ⟨s1, n, hcore, _⟩ := tstep_core _ _ _ hstep hc (by intros; simp)
  obtain ⟨hexi, hw, r, rest, hstk⟩ := core_cbRun_stack _ _ _ hcore
  obtain ⟨popped, hpop⟩ := hinv2.cb_top _ _ _ id r rest hstk
  have hgone : Item.fin sp.tid ∉ s.stack := fun hmem =>
    init_stack_no_late_fin prog hd.1 cb sp hl (hpop ▸ List.mem_append_right _ hmem)
  exact (hinv.gone_st sp.tid hst hgone).1

/-- No late task is still running once the block has been left. -/
theorem C08_late_none_left (prog : List Setup) (hd : DistinctIds prog) (s s' : TSt) (h : TReach prog s)
    (hc : s.crashed = []) (hstep : tstep? s .blockLeft = some s') (cb : Nat) (sp : TaskSpec)
    (hl : Setup.late cb sp ∈ prog) (hst : s.statusOf sp.tid ≠ none) :
    ∃ e, s.statusOf sp.tid = some (.closed e) := by
  obtain ⟨ls, hex⟩ := h
  have hinv := reach_inv prog ls s hex hc
  obtain ⟨s1, n, hcore, _⟩ := tstep_core _ _ _ hstep hc (by intros; simp)
  cases hcore with
  | blockLeft hexi hstk hw hl =>
  exact (hinv.gone_st sp.tid hst (by rw [hstk]; simp)).1

/-- `start_service_task` returning inside a teardown callback is observed only for a task that has
been started by a callback that ran. -/
theorem C08_late_observed (prog : List Setup) (hd : DistinctIds prog) (s s' : TSt) (h : TReach prog s)
    (hc : s.crashed = []) (tid : Nat) (hstep : tstep? s (.lateStarted tid) = some s') :
    ∃ cb sp, Setup.late cb sp ∈ prog ∧ sp.tid = tid ∧ TLab.cbRun cb ∈ s.hist := by
  obtain ⟨ls, hex⟩ := h
  obtain ⟨s1, n, hcore, _⟩ := tstep_core _ _ _ hstep hc (by intros; simp)
  cases hcore with
  | lateStarted _ hexi hst hla =>
  exact reach_late_ran prog hd.1 hd.2.1 ls s hex hc tid hst hla

/-- A late task sees everything the set-up program added to the owner. -/
theorem C08_late_snapshot (prog : List Setup) (hd : DistinctIds prog) (cb : Nat) (sp : TaskSpec)
    (hl : Setup.late cb sp ∈ prog) : alookup sp.tid (snapshots prog []) = some (resOf prog) := by
  simpa using snapshots_late prog hd.1 cb sp hl []

/-- Non-vacuity: callback 2 starts task 9 (cancelled at teardown, one tick of clean-up) while the owner
is torn down; callback 1, registered earlier, runs only after task 9 and its context have finished. The
same run with callback 1 before `taskClosed 9` is rejected. -/
example :
    let prog : List Setup := [.res 4, .reg 1 none, .reg 2 none, .late 2 ⟨9, .cancel, .untilStopped 1⟩]
    (match taccept (TSt.init prog) [.exitBegin, .cbRun 2, .taskSaw 9 [4], .lateStarted 9, .cancelSeen 9,
        .cleanupTick 9, .taskEnded 9 none, .taskClosed 9, .cbRun 1, .blockLeft, .outcome []] 0 with
     | .ok s => s.reported
     | .error _ => false) = true ∧
    (match taccept (TSt.init prog) [.exitBegin, .cbRun 2, .taskSaw 9 [4], .lateStarted 9, .cancelSeen 9,
        .cleanupTick 9, .taskEnded 9 none, .cbRun 1, .taskClosed 9, .blockLeft, .outcome []] 0 with
     | .ok s => s.reported
     | .error _ => false) = false := by
  decide

end Asphalt
