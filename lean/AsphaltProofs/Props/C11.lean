/-
C11 — every (instance, signal attribute) pair is an independent channel.
-/
import AsphaltModel.Signal
import AsphaltProofs.Lemmas.Assoc
import AsphaltProofs.Lemmas.Signal

namespace Asphalt
open Sig

/-- Accessing a Signal attribute on an instance always yields the same bound signal for that
instance and attribute (a second access changes nothing). -/
theorem C11_same (w : SigWorld) (i : InstId) (a : String) (k k' : ClsId) :
    let w1 := (sstep w (.access i a k)).1
    sstep w1 (.access i a k') = (w1, (sstep w (.access i a k)).2) := by
  intro w1
  cases h : w.chans.find? (fun c => c.inst == i && c.attr == a) with
  | some c =>
    have e1 : sstep w (.access i a k) = (w, [.chan c.id]) := sstep_access_found k h
    have : w1 = w := by show (sstep w (.access i a k)).1 = w; rw [e1]
    rw [this, e1]
    exact sstep_access_found k' h
  | none =>
    have e1 := sstep_access_new k h
    have hw1 : w1 = withChan w i a k := by show (sstep w (.access i a k)).1 = _; rw [e1]
    rw [hw1, e1]
    have : (withChan w i a k).chans.find? (fun c => c.inst == i && c.attr == a) =
        some ⟨w.chans.length, i, a, k, []⟩ := by
      show (w.chans ++ [_]).find? _ = _
      rw [List.find?_append, h]
      simp
    exact sstep_access_found k' this

/-- The bound signal carries that instance, that attribute's name and (when first bound) the
declared event class. -/
theorem C11_carries (w : SigWorld) (i : InstId) (a : String) (k : ClsId) :
    ∃ c ch, (sstep w (.access i a k)).2 = [.chan c] ∧
      ch ∈ (sstep w (.access i a k)).1.chans ∧ ch.id = c ∧ ch.inst = i ∧ ch.attr = a ∧
      ((w.chans.find? fun x => x.inst == i && x.attr == a) = none → ch.evCls = k ∧ ch.subs = []) := by
  cases h : w.chans.find? (fun c => c.inst == i && c.attr == a) with
  | some c =>
    rw [sstep_access_found k h]
    have hp := List.find?_some h
    simp only [Bool.and_eq_true, beq_iff_eq] at hp
    exact ⟨c.id, c, rfl, List.mem_of_find?_eq_some h, rfl, hp.1, hp.2, fun hn => by cases hn⟩
  | none =>
    rw [sstep_access_new k h]
    refine ⟨w.chans.length, ⟨w.chans.length, i, a, k, []⟩, rfl, ?_, rfl, rfl, rfl, fun _ => ⟨rfl, rfl⟩⟩
    show _ ∈ w.chans ++ [_]
    simp

/-- Different attributes or different instances never share a bound signal: channel ids and
(instance, attribute) keys are both unique in every reachable world. -/
theorem C11_distinct (ps : List (ClsId × ClsId)) (w : SigWorld) (hr : SReachable ps w)
    (c1 c2 : Chan) (h1 : c1 ∈ w.chans) (h2 : c2 ∈ w.chans) :
    (c1.id = c2.id → c1 = c2) ∧ (c1.inst = c2.inst → c1.attr = c2.attr → c1 = c2) := by
  have hw := (Inv.of_reachable hr).1.1
  exact ⟨hw.idInj c1 h1 c2 h2, hw.keyInj c1 h1 c2 h2⟩

/-- Hence two accesses with different keys return different channels. -/
theorem C11_distinct_access (ps : List (ClsId × ClsId)) (w : SigWorld) (hr : SReachable ps w)
    (i i' : InstId) (a a' : String) (k k' : ClsId) (c c' : ChanId) (hne : i ≠ i' ∨ a ≠ a')
    (h1 : (sstep w (.access i a k)).2 = [.chan c])
    (h2 : (sstep (sstep w (.access i a k)).1 (.access i' a' k')).2 = [.chan c']) : c ≠ c' := by
  intro hcc
  have hr1 : SReachable ps (sstep w (.access i a k)).1 := SReachable.step w _ hr
  have hr2 := SReachable.step _ (.access i' a' k') hr1
  have hw2 := (Inv.of_reachable hr2).1.1
  obtain ⟨d, ch, e1, m1, id1, in1, at1, _⟩ := C11_carries w i a k
  obtain ⟨d', ch', e2, m2, id2, in2, at2, _⟩ := C11_carries (sstep w (.access i a k)).1 i' a' k'
  rw [h1] at e1
  rw [h2] at e2
  have hd : c = d := by simpa using e1
  have hd' : c' = d' := by simpa using e2
  have m1' := access_chans_mono _ i' a' k' m1
  have : ch = ch' := hw2.idInj ch m1' ch' m2 (by rw [id1, id2, ← hd, ← hd', hcc])
  subst this
  rcases hne with h | h
  · exact h (in1.symm.trans in2)
  · exact h (at1.symm.trans at2)

/-- An event dispatched on one channel is delivered only to that channel's subscribers: every
stream that is not subscribed to it is left exactly as it was. -/
theorem C11_isolated (ps : List (ClsId × ClsId)) (w : SigWorld) (hr : SReachable ps w)
    (c : ChanId) (ch : Chan) (cls : ClsId) (n : Nat) (s : StreamId)
    (hc : w.chan? c = some ch) (hs : s ∉ ch.subs) :
    (sstep w (.dispatch (some c) cls n)).1.stream? s = w.stream? s := by
  have hi := Inv.of_reachable hr
  rcases Bool.eq_false_or_eq_true (isSubCls w.parents 16 cls ch.evCls) with hcls | hcls
  · rw [sstep_dispatch_ok n hc hcls]
    exact hi.dispatch_stream? (chan?_some_mem hc) cls n s hs
  · have : sstep w (.dispatch (some c) cls n) = (w, [.typeError]) := by
      simp only [sstep, hc, hcls, Bool.not_false, if_true]
    rw [this]

/-- Subscribers of a channel are exactly the open streams that listed it. -/
theorem C11_subscribers (ps : List (ClsId × ClsId)) (w : SigWorld) (hr : SReachable ps w)
    (ch : Chan) (hch : ch ∈ w.chans) (s : StreamId) :
    s ∈ ch.subs ↔ ∃ st, st ∈ w.streams ∧ st.id = s ∧ st.opened = true ∧ ch.id ∈ st.chans := by
  exact (Inv.of_reachable hr).1.1.subsIff ch hch s

/-- An event of the wrong class is rejected with TypeError and nothing changes. -/
theorem C11_type (w : SigWorld) (c : ChanId) (ch : Chan) (cls : ClsId) (n : Nat)
    (hc : w.chan? c = some ch) (hcls : isSubCls w.parents 16 cls ch.evCls = false) :
    sstep w (.dispatch (some c) cls n) = (w, [.typeError]) := by
  simp only [sstep, hc, hcls, Bool.not_false, if_true]

/-- Using a signal through the class instead of an instance raises UnboundSignal, whatever the
operation, and nothing changes. -/
theorem C11_unbound (w : SigWorld) (cls : ClsId) (n : Nat) (s : StreamId) (chans : List ChanId)
    (f : Filter) (cap : Nat) (once : Bool) :
    sstep w .accessClass = (w, [.unbound]) ∧ sstep w (.dispatch none cls n) = (w, [.unbound]) ∧
      sstep w (.subscribe s chans f cap once true) = (w, [.unbound]) := by
  refine ⟨rfl, rfl, ?_⟩
  simp only [sstep, if_true]

/-- Non-vacuity (finding D4): two signals on one instance, a subscriber on each; an event on the
first reaches only the first subscriber, and the second signal accepts its own class. -/
example :
    let ops : List SOp := [.access 0 "sa" 0, .access 0 "sb" 1, .subscribe 0 [0] .all 5 false false,
                           .subscribe 1 [1] .all 5 false false, .dispatch (some 0) 0 1,
                           .dispatch (some 1) 1 1, .dispatch (some 1) 0 1]
    let r := srun (SigWorld.empty []) ops
    (r.1.streams.map fun st => st.buf.map Ev.seq) = [[0], [1]] ∧
      r.2.getLast? = some [.typeError] := by
  decide

end Asphalt
