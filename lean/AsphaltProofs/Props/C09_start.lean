/-
C09 (continued) — tasks that never get as far as `task_status.started()`.
`BgBeh.failsBeforeStarted e`: a task started with `start_task` raises Exception `e` while it is still
starting. The exception handler is consulted as for any exception, but whatever it says the exception
does not escape into the factory's task group: it is the caller of `start_task` that gets an error
(label `startFailed`), and the handle leaves the handle set like that of any finished task.
(A start that is abandoned by its caller needs no clause of its own: the half-started task is
cancelled with its caller, which is `cancelReq` followed by `cancelSeen`.) Property theorems only.
-/
import AsphaltModel.Factory
import AsphaltProofs.Lemmas.Assoc
import AsphaltProofs.Lemmas.Factory
import AsphaltProofs.Props.C09

namespace Asphalt

open Fc

/-- The failure of a task that has not started yet never takes the factory down: neither when it
ends … -/
theorem C09_start_failure_contained (s s' : FSt) (x e : Nat) (hsf : s.startFailure x = true)
    (hstep : fstep? s (.taskEnded x (some e)) = some s') : s'.crashed = s.crashed := by
  obtain ⟨sp, e0, hsp, hb⟩ := spec_of_startFailure s x hsf
  exact (fstep_taskEnded_startFailure s s' x e0 (some e) sp hsp hb hstep).1

/-- … nor when the handler has been consulted, whatever its verdict. -/
theorem C09_start_failure_handler (s s' : FSt) (x e : Nat) (hsf : s.startFailure x = true)
    (hstep : fstep? s (.handlerCalled x e) = some s') :
    s'.crashed = s.crashed ∧ s'.statusOf x = some .ended := by
  obtain ⟨truthy, _, _, hend, ht, _⟩ := fstep_handlerCalled s s' x e hstep
  exact ⟨ht (by rw [hsf, Bool.or_true]), hend⟩

/-- The caller of `start_task` learns of the failure only for a task that did fail while starting, and
by then the task is finished and its handle is gone from the handle set. -/
theorem C09_start_failed (specs : List BgSpec) (hd : Handler) (snap : List Nat) (s s' : FSt)
    (h : FReach specs hd snap s) (x : Nat) (hstep : fstep? s (.startFailed x) = some s') :
    s.startFailure x = true ∧ s.statusOf x = some .ended ∧ x ∉ s.live ∧ x ∈ s.spawned := by
  obtain ⟨ls, hex⟩ := h
  have hinv := reach_inv specs hd snap ls s hex
  obtain ⟨hsf, hst⟩ := fstep_startFailed s s' x hstep
  refine ⟨hsf, hst, ?_, hinv.dom x (by rw [hst]; simp)⟩
  intro hl
  exact ((hinv.handles x).1 hl).2 hst

/-- A task of that kind ends in one way only: with its exception, while it is running. -/
theorem C09_start_failure_only (s s' : FSt) (x : Nat) (exc : Option Nat) (e : Nat) (sp : BgSpec)
    (hsp : s.spec? x = some sp) (hb : sp.beh = .failsBeforeStarted e) (hst : s.statusOf x = some .running)
    (hc : s.crashed = []) (hstep : fstep? s (.taskEnded x exc) = some s') : exc = some e := by
  rcases (fstep_taskEnded_startFailure s s' x e exc sp hsp hb hstep).2 with ⟨_, he⟩ | ⟨_, h1 | h1⟩
  · exact he
  · rw [hst] at h1; exact absurd h1 (by simp)
  · exact absurd hc h1

/-- Non-vacuity: task 1 fails before started() (falsy handler: consulted, then the caller of start_task
gets the error), task 2 runs on; the handle set is [2] afterwards and nothing reaches the owner. The same
run with a crash reported to the owner is rejected. -/
example :
    let specs : List BgSpec := [⟨1, .failsBeforeStarted 2⟩, ⟨2, .endsAfter 3 none⟩]
    let tr : List FLab := [.spawn 1, .taskBegan 1 true [], .spawn 2, .taskBegan 2 true [], .taskEnded 1 (some 2),
      .handlerCalled 1 2, .startFailed 1, .observed [2], .exitBegin, .taskEnded 2 none, .blockLeft]
    (match faccept (FSt.init specs (.returns false) []) (tr ++ [.outcome []]) 0 with
     | .ok s => s.reported && s.crashed.isEmpty
     | .error _ => false) = true ∧
    (match faccept (FSt.init specs (.returns false) []) (tr ++ [.outcome [2]]) 0 with
     | .ok s => s.reported
     | .error _ => false) = false := by
  decide

end Asphalt
