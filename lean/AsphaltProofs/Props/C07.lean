/-
C07 — a failing or stalling component aborts startup cleanly with a precise error.
Over the start-up LTS (AsphaltModel/Startup.lean). Hypothesis of the statement kept explicit:
exactly one component fails, with an Exception (`step?` accepts a `failed` label only while no
outcome has been decided).
-/
import AsphaltModel.Startup
import AsphaltProofs.Lemmas.Assoc
import AsphaltProofs.Lemmas.Startup2

namespace Asphalt
open St2

/-- States reachable by some run of the program. -/
def SReach7 (prog : List CompSpec) (to : Bool) (s : SSt) : Prop :=
  ∃ ls, Exec (SSt.init prog to) ls s

/-- The error names the phase, the component and its class, with the original exception as cause. -/
theorem C07_error (s s' : SSt) (i e : Nat) (h : step? s (.failed i e) = some s') :
    ∃ c ph rest, s.spec? i = some c ∧ s.current i = some (ph, .fail e :: rest, none) ∧
      s.result = none ∧ s'.result = some (.raised (.componentStart ph i c.cls e)) := by
  have hrep := nrep_of_step h (fun _ hh => by cases hh) (fun hh => by cases hh)
  obtain ⟨c, ph, rest, hc, hcur, hr, rfl⟩ := step?_failed hrep h
  exact ⟨c, ph, rest, hc, hcur, hr, by simp⟩

theorem C07_error_creating (s s' : SSt) (i : Nat) (h : step? s (.ctorFailed i) = some s') :
    ∃ c, s.spec? i = some c ∧ s'.result = some (.raised (.componentStart .creating i c.cls 0)) := by
  have hrep := nrep_of_step h (fun _ hh => by cases hh) (fun hh => by cases hh)
  obtain ⟨c, hc, _, _, _, rfl⟩ := step?_ctorFailed hrep h
  exact ⟨c, hc, rfl⟩

/-- Once decided, the outcome never changes … -/
theorem C07_outcome_final (s s' : SSt) (l : Lab) (r : StartResult) (hr : s.result = some r)
    (h : step? s l = some s') : s'.result = some r := by
  exact (step?_sum h).result r hr

/-- … and what start_component raises is exactly that error. -/
theorem C07_raises_decided (s s' : SSt) (e : StartErr) (h : step? s (.raised e) = some s') :
    s.result = some (.raised e) ∧ s'.reported = true := by
  have hrep := nrep_of_step h (fun _ hh => by cases hh) (fun hh => by cases hh)
  obtain ⟨hr, _, rfl⟩ := step?_raised hrep h
  exact ⟨hr, rfl⟩

/-- No part of the component tree is still running when start_component raises: every component
that was inside a prepare()/start() has finished it or has been stopped. -/
theorem C07_all_stopped (s s' : SSt) (e : StartErr) (h : step? s (.raised e) = some s') (i : Nat)
    (hi : i < s.prog.length) : s.current i = none := by
  have hrep := nrep_of_step h (fun _ hh => by cases hh) (fun hh => by cases hh)
  obtain ⟨_, hall, _⟩ := step?_raised hrep h
  rw [List.all_eq_true] at hall
  have := hall i (List.mem_range.2 hi)
  simpa using this

/-- Nothing begins to run once start_component has raised (or returned): only the teardown of the
surrounding context is left. -/
theorem C07_quiescent (s s' : SSt) (l : Lab) (hrep : s.reported = true) (h : step? s l = some s') :
    (∃ id, l = .tdRun id) ∨ l = .instantOver := by
  rcases step?_reported hrep h with ⟨id, _, hl, _⟩ | ⟨hl, _⟩
  · exact .inl ⟨id, hl⟩
  · exact .inr hl

/-- After the virtual instant of the failure has passed, no start-up work happens at all: components
can only observe their cancellation, and the error surfaces. -/
theorem C07_after_instant (s s' : SSt) (l : Lab) (hres : s.result.isSome = true) (hg : s.grace = false)
    (hrep : s.reported = false) (h : step? s l = some s') :
    (∃ i, l = .cancelSeen i) ∨ (∃ e, l = .raised e) ∨ l = .instantOver := by
  have hlive : s.live = false := by
    cases hr : s.result with
    | none => simp [hr] at hres
    | some r => simp [SSt.live, hr, hg]
  have hnone : s.result ≠ none := by
    intro hr; simp [hr] at hres
  cases l with
  | construct i => obtain ⟨c, _, hr, _⟩ := step?_construct hrep h; exact (hnone hr).elim
  | ctorFailed i => obtain ⟨c, _, hr, _⟩ := step?_ctorFailed hrep h; exact (hnone hr).elim
  | prepBegin i =>
    obtain ⟨c, n, acts, _, _, _, hl, _⟩ := step?_prepBegin hrep h; rw [hlive] at hl; cases hl
  | prepEnd i => obtain ⟨n, _, hl, _⟩ := step?_prepEnd hrep h; rw [hlive] at hl; cases hl
  | startBegin i =>
    obtain ⟨c, n, acts, _, _, _, hl, _⟩ := step?_startBegin hrep h; rw [hlive] at hl; cases hl
  | startEnd i => obtain ⟨n, _, hl, _⟩ := step?_startEnd hrep h; rw [hlive] at hl; cases hl
  | pub i ty name v => obtain ⟨c, ph, rest, _, _, hl, _⟩ := step?_pub hrep h; rw [hlive] at hl; cases hl
  | pubFac i ty name v => obtain ⟨c, ph, rest, _, _, hl, _⟩ := step?_pubFac hrep h; rw [hlive] at hl; cases hl
  | req i k => obtain ⟨ph, ty, name, rest, _, hl, _⟩ := step?_req hrep h; rw [hlive] at hl; cases hl
  | got i k v => obtain ⟨ph, ty, name, rest, t, _, hl, _⟩ := step?_got hrep h; rw [hlive] at hl; cases hl
  | gotOpt i k v => obtain ⟨ph, ty, name, rest, _, hl, _⟩ := step?_gotOpt hrep h; rw [hlive] at hl; cases hl
  | tick i => obtain ⟨ph, d, rest, _, hl, _⟩ := step?_tick hrep h; rw [hlive] at hl; cases hl
  | regTd i id => obtain ⟨ph, rest, _, hl, _⟩ := step?_regTd hrep h; rw [hlive] at hl; cases hl
  | failed i e => obtain ⟨c, ph, rest, _, _, hr, _⟩ := step?_failed hrep h; exact (hnone hr).elim
  | cancelSeen i => exact .inl ⟨i, rfl⟩
  | timeoutFired => obtain ⟨_, hr, _⟩ := step?_timeoutFired hrep h; exact (hnone hr).elim
  | returned => obtain ⟨hr, _⟩ := step?_returned hrep h; exact (hnone hr).elim
  | raised e => exact .inr (.inl ⟨e, rfl⟩)
  | tdRun id => exact (step?_tdRun hrep h).elim
  | instantOver => exact .inr (.inr rfl)

/-- The start() of none of the failing component's ancestors is ever run. -/
theorem C07_ancestors (prog : List CompSpec) (to : Bool) (s : SSt) (h : SReach7 prog to s)
    (hwf : wfProg prog = true) (i e a : Nat) (hf : Lab.failed i e ∈ s.hist) (ha : Desc prog i a) :
    Lab.startBegin a ∉ s.hist := by
  have _ := hwf   -- not needed: a component among its own descendants could not begin start() either
  obtain ⟨ls, hls⟩ := h
  exact reach_ancestors (reach_of_exec hls Reach.init) hf ha

/-- start_component does not return after a failure. -/
theorem C07_no_return_after_failure (prog : List CompSpec) (to : Bool) (s : SSt) (h : SReach7 prog to s)
    (i e : Nat) (hf : Lab.failed i e ∈ s.hist) : Lab.returned ∉ s.hist := by
  obtain ⟨ls, hls⟩ := h
  exact reach_no_return (reach_of_exec hls Reach.init) hf

/-- The time-out fires only while the start-up has not finished, and then TimeoutError is the outcome. -/
theorem C07_timeout (s s' : SSt) (h : step? s .timeoutFired = some s') :
    s.hasTimeout = true ∧ s.result = none ∧ s.subtreeDone s.fuel 0 = false ∧
      s'.result = some (.raised .timeout) := by
  have hrep := nrep_of_step h (fun _ hh => by cases hh) (fun hh => by cases hh)
  obtain ⟨hto, hr, _, hsd, rfl⟩ := step?_timeoutFired hrep h
  exact ⟨hto, hr, hsd, rfl⟩

/-- A start-up that finishes in time is never affected by the time-out. -/
theorem C07_in_time (s : SSt) (h : s.subtreeDone s.fuel 0 = true ∨ s.result.isSome = true) :
    step? s .timeoutFired = none := by
  cases hs : step? s .timeoutFired with
  | none => rfl
  | some s' =>
    have hrep := nrep_of_step hs (fun _ hh => by cases hh) (fun hh => by cases hh)
    obtain ⟨_, hr, _, hsd, _⟩ := step?_timeoutFired hrep hs
    rcases h with h | h
    · rw [hsd] at h; cases h
    · rw [hr] at h; cases h

/-- What was registered before the failure stays owned by the surrounding context: failure,
time-out and cancellation do not touch its teardown stack or its resources … -/
theorem C07_registered_stays (s s' : SSt) (l : Lab) (h : step? s l = some s')
    (hl : (∃ i e, l = .failed i e) ∨ l = .timeoutFired ∨ (∃ i, l = .cancelSeen i) ∨ (∃ e, l = .raised e) ∨
          l = .instantOver ∨ (∃ i, l = .ctorFailed i)) :
    s'.tds = s.tds ∧ s'.res = s.res ∧ s'.fac = s.fac := by
  rcases hl with ⟨i, e, rfl⟩ | rfl | ⟨i, rfl⟩ | ⟨e, rfl⟩ | rfl | ⟨i, rfl⟩
  · have hrep := nrep_of_step h (fun _ hh => by cases hh) (fun hh => by cases hh)
    obtain ⟨c, ph, rest, _, _, _, rfl⟩ := step?_failed hrep h
    simp
  · have hrep := nrep_of_step h (fun _ hh => by cases hh) (fun hh => by cases hh)
    obtain ⟨_, _, _, _, rfl⟩ := step?_timeoutFired hrep h
    simp
  · have hrep := nrep_of_step h (fun _ hh => by cases hh) (fun hh => by cases hh)
    obtain ⟨ph, rest, b, _, _, rfl⟩ := step?_cancelSeen hrep h
    simp
  · have hrep := nrep_of_step h (fun _ hh => by cases hh) (fun hh => by cases hh)
    obtain ⟨_, _, rfl⟩ := step?_raised hrep h
    simp
  · cases hrep : s.reported with
    | true =>
      rcases step?_reported hrep h with ⟨id, _, hl, _⟩ | ⟨_, rfl⟩
      · cases hl
      · simp
    | false =>
      obtain ⟨_, rfl⟩ := step?_instantOver hrep h
      simp
  · have hrep := nrep_of_step h (fun _ hh => by cases hh) (fun hh => by cases hh)
    obtain ⟨c, _, _, _, _, rfl⟩ := step?_ctorFailed hrep h
    simp

/-- … and is torn down in reverse order of registration when that context is left. -/
theorem C07_cleanup_order (s s' : SSt) (ls : List Lab) (hrep : s.reported = true) (h : Exec s ls s') :
    (ls.filterMap fun l => match l with | .tdRun id => some id | _ => none) ++ s'.tds = s.tds := by
  induction h with
  | nil s => simp
  | cons s s1 s2 l ls hstep _ ih =>
    rcases step?_reported hrep hstep with ⟨id, rest, rfl, htds, rfl⟩ | ⟨rfl, rfl⟩
    · have := ih hrep
      simp only [List.filterMap_cons, List.cons_append, htds]
      simp only at this
      rw [this]
    · have := ih hrep
      simpa using this

/-- Non-vacuity: a grandchild fails in prepare() while its uncle is blocked on a lookup and its
sibling is in the middle of start(). -/
example :
    let prog : List CompSpec := [
      ⟨"", none, 0, false, "default", none, some [], [1, 4]⟩,
      ⟨"a", some 0, 1, false, "default", none, some [], [2, 3]⟩,
      ⟨"a.x", some 1, 2, false, "default", some [.tick 1, .fail 2], none, []⟩,
      ⟨"a.y", some 1, 3, false, "default", none, some [.regTd 9, .tick 5], []⟩,
      ⟨"u", some 0, 4, false, "default", none, some [.await 1 "never"], []⟩]
    let tr : List Lab := [.construct 0, .construct 1, .construct 2, .construct 3, .construct 4,
      .prepBegin 2, .startBegin 3, .regTd 3 9, .startBegin 4, .req 4 ⟨1, "never"⟩, .tick 2, .failed 2 2,
      .cancelSeen 3, .cancelSeen 4, .raised (.componentStart .preparing 2 2 2), .tdRun 9]
    (match accept (SSt.init prog true) tr 0 with
     | .ok s => s.reported && s.tds.isEmpty
     | .error _ => false) = true := by
  decide

end Asphalt
