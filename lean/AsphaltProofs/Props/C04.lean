/-
C04 — factory-generated resources are per-context singletons of the requesting context.
-/
import AsphaltModel.Context
import AsphaltProofs.Lemmas.Assoc
import AsphaltProofs.Lemmas.Kernel2

namespace Asphalt
open K2

/-- Well-formedness of a factory table: an entry sits under its own name and one of its own
types, a factory is registered under all of its types, and factory ids identify factories. -/
def FacWF (fac : List (Key × Factory)) : Prop :=
  (∀ k f, alookup k fac = some f → f.name = k.name ∧ k.ty ∈ f.types ∧
      ∀ t ∈ f.types, alookup ⟨t, f.name⟩ fac = some f) ∧
  (∀ k k' f f', alookup k fac = some f → alookup k' fac = some f' → f.fid = f'.fid → f = f')

/-- Once a factory has generated in a context, every one of its pairs is taken there (by the
generated object or by a resource that was there before), so it is never asked again. -/
def GenDone (x : Ctx) : Prop :=
  ∀ k f, alookup k x.fac = some f → 1 ≤ countOf f.fid x.genCount → (alookup k x.res).isSome = true

theorem C04_facwf (w : World) (hr : Reachable w) (c : CtxId) (x : Ctx) (hx : w.ctx? c = some x) :
    FacWF x.fac := by
  exact (reachable_winv hr c x hx).facwf

/-- The factory is called successfully at most once per (context, factory): in every context
of every reachable world, every factory has completed at most one generation. -/
theorem C04_once (w : World) (hr : Reachable w) (c : CtxId) (x : Ctx) (hx : w.ctx? c = some x)
    (fid : Nat) : countOf fid x.genCount ≤ 1 := by
  exact (reachable_winv hr c x hx).once fid

/-- Asking the synchronous API for a resource whose factory is asynchronous raises
AsyncResourceError and registers nothing. -/
theorem C04_async_via_sync (cid : CtxId) (x : Ctx) (k : Key) (f : Factory) (opt : Bool)
    (hs : x.state.usable = true) (hmiss : alookup k x.res = none) (hf : alookup k x.fac = some f)
    (ha : f.isAsync = true) :
    ctxGetNowait cid x k opt = (x, [.asyncError]) := by
  unfold ctxGetNowait
  simp [hs, hmiss, hf, ha]

/-- A successful generation through the sync API stores the object, flagged as generated,
under every one of the factory's types that was not already taken, and returns it. -/
theorem C04_generates_all_types (cid : CtxId) (x : Ctx) (k : Key) (f : Factory) (opt : Bool)
    (hs : x.state.usable = true) (hmiss : alookup k x.res = none) (hf : alookup k x.fac = some f)
    (hsync : f.isAsync = false) (hok : f.failFirst ≤ countOf f.fid x.callCount) :
    let v := Val.gen cid f.fid (countOf f.fid x.callCount)
    let free := f.types.filter fun t => !acontains ⟨t, f.name⟩ x.res
    (ctxGetNowait cid x k opt).2.head? = some (.val v) ∧
    ∀ t ∈ free, alookup ⟨t, f.name⟩ (ctxGetNowait cid x k opt).1.res =
      some ⟨v, free, f.name, f.desc, true⟩ := by
  intro v free
  have hc : ¬ countOf f.fid x.callCount < f.failFirst := by omega
  rw [ctxGetNowait_gen cid x k opt f hs hmiss hf hsync, if_neg hc]
  refine ⟨rfl, ?_⟩
  intro t ht
  obtain ⟨_, _, _, _, e⟩ := storeGenerated_fields cid (bumpCall x f) f v
  show alookup ⟨t, f.name⟩ (storeGenerated cid (bumpCall x f) f v).1.res = _
  rw [e, alookup_storeAll]
  exact if_pos ⟨rfl, ht⟩

/-- Whichever API triggered it: the async API stores the same way (ungated factories complete
within the step). -/
theorem C04_generates_all_types_async (cid : CtxId) (x : Ctx) (t : TaskId) (k : Key) (f : Factory)
    (opt : Bool) (hs : x.state.usable = true) (hmiss : alookup k x.res = none)
    (hf : alookup k x.fac = some f) (hnp : x.pending.find? (fun p => p.fid = f.fid) = none)
    (hung : (f.isAsync && f.gated) = false) (hok : f.failFirst ≤ countOf f.fid x.callCount) :
    let v := Val.gen cid f.fid (countOf f.fid x.callCount)
    let free := f.types.filter fun t => !acontains ⟨t, f.name⟩ x.res
    ∀ ty ∈ free, alookup ⟨ty, f.name⟩ (ctxGet cid x t k opt).1.res =
      some ⟨v, free, f.name, f.desc, true⟩ := by
  intro v free
  have hc : ¬ countOf f.fid x.callCount < f.failFirst := by omega
  rw [ctxGet_gen cid x t k opt f hs hmiss hf hnp hung, if_neg hc]
  intro ty hty
  obtain ⟨_, _, _, _, e⟩ := storeGenerated_fields cid (bumpCall x f) f v
  show alookup ⟨ty, f.name⟩ (storeGenerated cid (bumpCall x f) f v).1.res = _
  rw [e, alookup_storeAll]
  exact if_pos ⟨rfl, hty⟩

/-- The generated object is not inherited: a context created afterwards holds no generated
resource at all … -/
theorem C04_not_inherited (px : Ctx) (p : Option CtxId) (k : Key) (cont : Container)
    (h : alookup k (freshCtx p (some px)).res = some cont) : cont.generated = false := by
  have hm := alookup_mem _ _ _ h
  simp only [freshCtx, List.mem_filter] at hm
  simpa using hm.2

/-- … but it does inherit the factory, so its own first lookup generates its own object. -/
theorem C04_child_has_factory (px : Ctx) (p : Option CtxId) :
    (freshCtx p (some px)).fac = px.fac ∧ (freshCtx p (some px)).genCount = [] ∧
      (freshCtx p (some px)).callCount = [] := by
  exact ⟨rfl, rfl, rfl⟩

/-- Objects generated in different contexts are different objects. -/
theorem C04_distinct_objects (c c' fid fid' n n' : Nat) (h : c ≠ c') :
    Val.gen c fid n ≠ Val.gen c' fid' n' := by
  intro e
  injection e with e1
  exact h e1

/-- Racing lookups: while a generation of a factory is in flight in a context, a further lookup
through that factory neither calls it again nor stores anything — it waits. -/
theorem C04_race_waits (cid : CtxId) (x : Ctx) (t : TaskId) (k : Key) (f : Factory) (opt : Bool)
    (p : Pending) (hs : x.state.usable = true) (hmiss : alookup k x.res = none)
    (hf : alookup k x.fac = some f) (hp : x.pending.find? (fun q => q.fid = f.fid) = some p) :
    (ctxGet cid x t k opt).2 = [.blocked] ∧ (ctxGet cid x t k opt).1.res = x.res ∧
      (ctxGet cid x t k opt).1.callCount = x.callCount ∧
      (ctxGet cid x t k opt).1.genCount = x.genCount := by
  unfold ctxGet
  simp [hs, hmiss, hf, hp]

/-- Generation happens in the requesting context only (C02_frame spelled out for lookups). -/
theorem C04_scoped (w : World) (c d : CtxId) (k : Key) (opt : Bool) (hne : c ≠ d) :
    (step w (.getNowait c k opt)).1.ctx? d = w.ctx? d := by
  exact onCtx_ctx?_other w c d _ hne

/-- Non-vacuity (findings D1/D2): an async gated factory, two racing lookups, then a child. -/
example :
    let fac : FacArgs := ⟨[0, 1], "default", 3, none, true, true, 0, false⟩
    let ops : List Op := [.new 0 1 none, .enter 0 1, .addFactory 1 fac,
                          .get 0 1 ⟨0, "default"⟩ false, .get 1 1 ⟨1, "default"⟩ false,
                          .genFinish 1 3 none, .new 0 2 none]
    let w := (run World.empty ops).1
    ((w.ctx? 1).map (fun x => (countOf 3 x.genCount, countOf 3 x.callCount, x.res.length)),
     (w.ctx? 2).map (fun x => x.res.length)) = (some (1, 1, 2), some 0) := by
  have hv : validName "default" = true := by decide
  simp [run, step, onCtx, World.ctx?, World.setCtx, World.curOf, World.setCur, World.empty,
    alookup, ainsert, freshCtx, ctxAddFactory, storeFac, acontains, hv, CState.usable,
    ctxGet, ctxGenFinish, storeGenerated, storeAll, resumeWaiters, wakeOrder, countOf,
    registeredVal]

end Asphalt
