/-
C01, continued — cancellation and *synchronous* teardown callbacks.

A synchronous callback has no checkpoint: a cancellation cannot interrupt it, and one that arrives
while it runs (the callback cancels the enclosing scope itself, or another task did so just before)
shows only in what runs afterwards. Model: `Cb.underCancel`, `effStack`, `midStack` / `midEff`
in `AsphaltModel/Context.lean` (the case `isAsync = false` of each). Property theorems only;
the harness generates these cases as `cancelAt` = a synchronous, directly registered callback
(evidence: `exit:scope_cancelled_by_a_synchronous_callback`).
-/
import AsphaltModel.Context
import AsphaltProofs.Props.C01
import AsphaltProofs.Props.C01_mid
import AsphaltProofs.Lemmas.Mid
import AsphaltProofs.Lemmas.Sync

namespace Asphalt

/-- Cancellation changes nothing about a teardown all of whose callbacks - registered before or during
the teardown - are synchronous: however the block ended, the stack behaves as registered. -/
theorem C01_sync_cancel_unaffected (be : BlockEnd) (st : List Cb)
    (h : ∀ cb ∈ allCbs st, cb.isAsync = false) : effStack be st = st := by
  exact Sy.effStack_of_sync be st h

/-- … and so does a cancellation that arrives in the middle of it. -/
theorem C01_sync_midcancel_unaffected (be : BlockEnd) (k : Nat) (st : List Cb)
    (h : ∀ cb ∈ allCbs st, cb.isAsync = false) : midEff be k st = st := by
  exact Sy.midEff_of_sync be k st h

/-- Hence, for the caller: leaving such a context while the scope gets cancelled is leaving it. -/
theorem C01_sync_midcancel_exit (w : World) (t : TaskId) (c : CtxId) (be : BlockEnd) (k : Nat) (x : Ctx)
    (hx : w.ctx? c = some x) (h : ∀ cb ∈ allCbs x.tds, cb.isAsync = false) :
    step w (.exitMid t c be k) = step w (.exit t c be) := by
  exact Sy.step_exitMid_of_sync w t c be k x hx h

/-- A synchronous callback during which the scope is cancelled ends as written: what was above it on
the stack ran as registered, then it runs with its own body and its own outcome (not the
cancellation). -/
theorem C01_sync_midcancel_as_written (k : Nat) (above below : List Cb) (p : Bool) (body : List BodyOp)
    (regs : List Cb) (r : Option Exc) (hab : ∀ cb ∈ above, cb.id ≠ k) :
    ∃ rest, runOrder (midStack k (above ++ Cb.mk k p false body regs r :: below)) =
      runOrder above ++ Cb.mk k p false body (regs.map Cb.underCancel) r :: rest := by
  exact ⟨_, Sy.runOrder_midStack_sync k above below p body regs r hab⟩

/-- In a cancelled scope a directly registered synchronous callback still runs as written (body,
outcome, argument); only what it registers is subject to the same rule again. -/
theorem C01_sync_survives_cancel (st : List Cb) (cb : Cb) (hm : cb ∈ st) (hs : cb.isAsync = false) :
    ∃ cb' ∈ st.map Cb.underCancel, cb'.id = cb.id ∧ cb'.passExc = cb.passExc ∧ cb'.isAsync = false ∧
      cb'.body = cb.body ∧ cb'.raises = cb.raises ∧
      cb'.registers = cb.registers.map Cb.underCancel := by
  exact Sy.sync_survives st cb hm hs

/-- If no asynchronous callback is left when a synchronous callback cancels the scope - neither among
what it registers nor below it on the stack - the caller does not see the cancellation at all: the
teardown collects exactly what it would have collected without it. -/
theorem C01_sync_midcancel_invisible (cid : CtxId) (cur : Option CtxId) (be : BlockEnd) (k : Nat)
    (above below : List Cb) (p : Bool) (body : List BodyOp) (regs : List Cb) (r : Option Exc) (x : Ctx)
    (hab : ∀ cb ∈ above, cb.id ≠ k) (hbe : be.isCancel = false)
    (hr : ∀ cb ∈ allCbs regs, cb.isAsync = false) (hb : ∀ cb ∈ allCbs below, cb.isAsync = false) :
    runTeardown cid cur be (midEff be k (above ++ Cb.mk k p false body regs r :: below)) x =
      runTeardown cid cur be (above ++ Cb.mk k p false body regs r :: below) x := by
  rw [Sy.midEff_sync_invisible be k above below p body regs r hab hbe hr hb]

/-- Non-vacuity: the synchronous #2 cancels the scope; the asynchronous #3 above it ran as registered, #2
ends with its own exception, the asynchronous #1 below it is invoked and cancelled. -/
example :
    let c1 := Cb.mk 1 false true [] [] none
    let c2 := Cb.mk 2 true false [.current] [] (some (.exn 0))
    let c3 := Cb.mk 3 false true [] [] none
    (runOrder (midStack 2 [c3, c2, c1])).map (fun c => (c.id, c.raises)) =
      [(3, none), (2, some (.exn 0)), (1, some .cancelled)] := by
  intro c1 c2 c3
  rw [Sy.example_run]
  rfl

end Asphalt
