/-
C01 — context teardown runs every callback exactly once, LIFO, one at a time.
Property theorems only. Model: `runTeardown` and the `exit` case of `step` in
`AsphaltModel/Context.lean`. A callback is a finite program (`Cb`): body operations, then
registrations of further callbacks, then an optional raise; the theorems quantify over all
stacks of such programs (any number, any nesting of registrations-during-teardown, any
subset raising any exception class, sync or async, with or without pass_exception) and
over all ways the block ended.

A block left by cancellation is modelled by `effStack` (Context.lean): the teardown runs in a
cancelled scope, so the awaitable of an asynchronous callback is cancelled at its first
checkpoint; the theorems below hold for the effective stack of every way of leaving the
block, and `C01_cancel_*` state what cancellation changes and what it does not.

Cancellation arriving in the middle of a teardown that began for another reason: C01_mid.lean.
Not modelled: shielded callbacks, callbacks that work before their first checkpoint.
-/
import AsphaltModel.Context
import AsphaltProofs.Lemmas.Assoc
import AsphaltProofs.Lemmas.Teardown
import AsphaltProofs.Lemmas.Cancel

namespace Asphalt

/-- The order in which the callbacks of a stack (top first) run: the top callback, then
what it registered (last registered first), then the rest of the stack. -/
def runOrder : List Cb → List Cb
  | [] => []
  | cb :: stack =>
    match cb with
    | .mk id p a b regs r => .mk id p a b regs r :: runOrder (regs.reverse ++ stack)
termination_by st => stackSize st
decreasing_by
  simp only [List.unattach_reverse, List.unattach_attach, stackSize_cons, stackSize_append,
    stackSize_reverse, Cb.size_mk]
  omega

/-- All callbacks of a forest, i.e. everything registered before or during the teardown. -/
def allCbs : List Cb → List Cb
  | [] => []
  | cb :: rest =>
    match cb with
    | .mk id p a b regs r => .mk id p a b regs r :: (allCbs regs ++ allCbs rest)

def startsOf : List Out → List (Nat × Option (Option Exc))
  | [] => []
  | .tdStart i a :: rest => (i, a) :: startsOf rest
  | _ :: rest => startsOf rest

def endsOf : List Out → List (Nat × Option Exc)
  | [] => []
  | .tdEnd i r :: rest => (i, r) :: endsOf rest
  | _ :: rest => endsOf rest

/-- A trace in which every callback's start is followed by its own end (with at most its
own body output in between) before anything else happens. -/
def bracketed : List Out → Bool
  | [] => true
  | .tdStart i _ :: .tdEnd j _ :: rest => i == j && bracketed rest
  | .tdStart i _ :: .body _ :: .tdEnd j _ :: rest => i == j && bracketed rest
  | _ => false

/-! ### helpers (unfolding of the definitions above) -/

theorem runOrder_nil : runOrder [] = [] := by
  rw [runOrder]

theorem runOrder_cons (id : Nat) (p a : Bool) (b : List BodyOp) (regs : List Cb) (r : Option Exc)
    (stack : List Cb) :
    runOrder (Cb.mk id p a b regs r :: stack) =
      Cb.mk id p a b regs r :: runOrder (regs.reverse ++ stack) := by
  rw [runOrder]

theorem allCbs_nil : allCbs [] = [] := by
  rw [allCbs]

theorem allCbs_cons (id : Nat) (p a : Bool) (b : List BodyOp) (regs : List Cb) (r : Option Exc)
    (rest : List Cb) :
    allCbs (Cb.mk id p a b regs r :: rest) = Cb.mk id p a b regs r :: (allCbs regs ++ allCbs rest) := by
  rw [allCbs]

theorem allCbs_append (l₁ l₂ : List Cb) : allCbs (l₁ ++ l₂) = allCbs l₁ ++ allCbs l₂ := by
  induction l₁ with
  | nil => rw [allCbs_nil, List.nil_append, List.nil_append]
  | cons c l ih =>
    obtain ⟨id, p, a, b, regs, r⟩ := c
    rw [List.cons_append, allCbs_cons, allCbs_cons, ih, List.cons_append, List.append_assoc]

theorem allCbs_reverse_perm (l : List Cb) : (allCbs l.reverse).Perm (allCbs l) := by
  induction l with
  | nil => exact List.Perm.refl _
  | cons c l ih =>
    have h : allCbs (c :: l) = allCbs [c] ++ allCbs l := by
      rw [← allCbs_append, List.singleton_append]
    rw [List.reverse_cons, allCbs_append, h]
    exact (List.perm_append_comm).trans (List.Perm.append_left _ ih)

theorem startsOf_frame (i : Nat) (arg : Option (Option Exc)) (bo : List Out) (r : Option Exc)
    (tr : List Out) :
    startsOf (.tdStart i arg :: (if bo.isEmpty then [] else [.body bo]) ++ .tdEnd i r :: tr) =
      (i, arg) :: startsOf tr := by
  split <;> simp [startsOf]

theorem endsOf_frame (i : Nat) (arg : Option (Option Exc)) (bo : List Out) (r : Option Exc)
    (tr : List Out) :
    endsOf (.tdStart i arg :: (if bo.isEmpty then [] else [.body bo]) ++ .tdEnd i r :: tr) =
      (i, r) :: endsOf tr := by
  split <;> simp [endsOf]

theorem bracketed_frame (i : Nat) (arg : Option (Option Exc)) (bo : List Out) (r : Option Exc)
    (tr : List Out) :
    bracketed (.tdStart i arg :: (if bo.isEmpty then [] else [.body bo]) ++ .tdEnd i r :: tr) =
      bracketed tr := by
  split <;> simp [bracketed]

/-- `runOrder` follows the recursion of `runTeardown` (Lemmas/Cancel.lean). -/
theorem runOrder_runsLike : Cn.RunsLike runOrder := ⟨runOrder_nil, runOrder_cons⟩

/-! ### the properties -/

/-- Exactly once: the callbacks that run are, as a multiset, exactly the callbacks
registered before or during the teardown. -/
theorem C01_exactly_once (st : List Cb) : (runOrder st).Perm (allCbs st) := by
  induction st using stack_induction with
  | nil => rw [runOrder_nil, allCbs_nil]
  | cons id p a b regs r stack ih =>
    rw [runOrder_cons, allCbs_cons]
    rw [allCbs_append] at ih
    exact List.Perm.cons _ (ih.trans (List.Perm.append_right _ (allCbs_reverse_perm regs)))

/-- Strict LIFO with pass_exception: the sequence of callback invocations is `runOrder`, and
each one receives the block's exception iff it was registered with pass_exception. -/
theorem C01_lifo_and_argument (cid : CtxId) (cur : Option CtxId) (be : BlockEnd) (st : List Cb) (x : Ctx) :
    startsOf (runTeardown cid cur be st x).2.1 =
      (runOrder st).map fun cb => (cb.id, if cb.passExc then some be.exc else none) := by
  induction st using stack_induction generalizing x with
  | nil => rw [runTeardown_nil, runOrder_nil]; rfl
  | cons id p a b regs r stack ih =>
    rw [runTeardown_cons, runOrder_cons, List.map_cons, ← ih]
    exact startsOf_frame _ _ _ _ _

/-- Every callback runs to completion, whether it raises or not … -/
theorem C01_all_finish (cid : CtxId) (cur : Option CtxId) (be : BlockEnd) (st : List Cb) (x : Ctx) :
    endsOf (runTeardown cid cur be st x).2.1 = (runOrder st).map fun cb => (cb.id, cb.raises) := by
  induction st using stack_induction generalizing x with
  | nil => rw [runTeardown_nil, runOrder_nil]; rfl
  | cons id p a b regs r stack ih =>
    rw [runTeardown_cons, runOrder_cons, List.map_cons, ← ih]
    exact endsOf_frame _ _ _ _ _

/-- … one at a time. -/
theorem C01_one_at_a_time (cid : CtxId) (cur : Option CtxId) (be : BlockEnd) (st : List Cb) (x : Ctx) :
    bracketed (runTeardown cid cur be st x).2.1 = true := by
  induction st using stack_induction generalizing x with
  | nil => rw [runTeardown_nil]; rfl
  | cons id p a b regs r stack ih =>
    rw [runTeardown_cons]
    exact (bracketed_frame _ _ _ _ _).trans (ih _)

/-- Every exception raised by a callback (of any class) is collected, in order; a raising
callback never prevents the remaining ones from running (C01_all_finish). -/
theorem C01_all_collected (cid : CtxId) (cur : Option CtxId) (be : BlockEnd) (st : List Cb) (x : Ctx) :
    (runTeardown cid cur be st x).2.2 = (runOrder st).filterMap Cb.raises := by
  induction st using stack_induction generalizing x with
  | nil => rw [runTeardown_nil, runOrder_nil]; rfl
  | cons id p a b regs r stack ih =>
    rw [runTeardown_cons, runOrder_cons]
    cases r with
    | none => rw [List.filterMap_cons_none (by rfl), ← ih]
    | some e => rw [List.filterMap_cons_some (by rfl), ← ih]

/-- Teardown does not change the lifecycle state, the parent, the open children or the
reset token of the context (bodies only add resources / factories). -/
theorem C01_frame (cid : CtxId) (cur : Option CtxId) (be : BlockEnd) (st : List Cb) (x : Ctx) :
    let x' := (runTeardown cid cur be st x).1
    x'.state = x.state ∧ x'.parent = x.parent ∧ x'.children = x.children ∧ x'.token = x.token ∧
      x'.tds = x.tds := by
  exact runTeardown_frame cid cur be st x

/-- All registration routes land on the same stack: `add_resource(teardown_callback=)` … -/
theorem C01_route_add (cid : CtxId) (x : Ctx) (a : AddArgs) (cb : Cb) (e : REvent)
    (htd : a.td = some cb) (h : (ctxAdd cid x a).2 = [.ok, .ev cid e]) :
    (ctxAdd cid x a).1.tds = cb :: x.tds := by
  unfold ctxAdd at h ⊢
  simp only [htd] at h ⊢
  repeat' split
  all_goals simp_all

/-- … and `add_teardown_callback` (also what `context_teardown` and service tasks use). -/
theorem C01_route_direct (w : World) (c : CtxId) (x : Ctx) (cb : Cb)
    (hx : w.ctx? c = some x) (hs : x.state.usable = true) :
    ((step w (.addTeardown c cb true)).1.ctx? c).map Ctx.tds = some (cb :: x.tds) := by
  simp only [step, onCtx, hx, hs, ctx?_setCtx_same]
  simp

/-- Leaving the block: the outputs are the teardown trace, then the context reports itself
closed, then the outcome. If any callback raised: one group with exactly the collected
exceptions, whatever the block's own outcome was. -/
theorem C01_outcome_group (w : World) (t : TaskId) (c : CtxId) (be : BlockEnd) (x : Ctx)
    (hx : w.ctx? c = some x) (hs : x.state = .opened)
    (hne : (runTeardown c (w.curOf t) be (effStack be x.tds) { x with state := .closing, tds := [] }).2.2 ≠ []) :
    (step w (.exit t c be)).2 =
      (runTeardown c (w.curOf t) be (effStack be x.tds) { x with state := .closing, tds := [] }).2.1 ++
        [.closed, .exitGroup (runTeardown c (w.curOf t) be (effStack be x.tds) { x with state := .closing, tds := [] }).2.2] := by
  rw [step_exit w t c be x hx hs]
  have hne' : (runTeardown c (w.curOf t) be (effStack be x.tds) { x with state := .closing, tds := [] }).2.2.isEmpty = false := by
    cases h : (runTeardown c (w.curOf t) be (effStack be x.tds) { x with state := .closing, tds := [] }).2.2 with
    | nil => exact absurd h hne
    | cons e es => rfl
  simp only [exitOutcome, hne', Bool.not_false, if_true]

/-- If no callback raised and no child context is still open, the caller observes the
block's own outcome: a normal exit … -/
theorem C01_outcome_normal (w : World) (t : TaskId) (c : CtxId) (x : Ctx)
    (hx : w.ctx? c = some x) (hs : x.state = .opened) (hch : x.children = [])
    (hnone : (runTeardown c (w.curOf t) .ret x.tds { x with state := .closing, tds := [] }).2.2 = []) :
    (step w (.exit t c .ret)).2 =
      (runTeardown c (w.curOf t) .ret x.tds { x with state := .closing, tds := [] }).2.1 ++ [.closed, .exitNormal] := by
  rw [step_exit w t c .ret x hx hs, effStack_of_not_cancel .ret x.tds rfl, hnone, hch]
  rfl

/-- … or the exception that ended the block, as itself (not wrapped in a group) when it is an
ordinary `Exception`, for root and non-root contexts alike. -/
theorem C01_outcome_own (w : World) (t : TaskId) (c : CtxId) (n : Nat) (x : Ctx)
    (hx : w.ctx? c = some x) (hs : x.state = .opened) (hch : x.children = [])
    (hnone : (runTeardown c (w.curOf t) (.raised (.exn n)) x.tds { x with state := .closing, tds := [] }).2.2 = []) :
    (step w (.exit t c (.raised (.exn n)))).2 =
      (runTeardown c (w.curOf t) (.raised (.exn n)) x.tds { x with state := .closing, tds := [] }).2.1 ++
        [.closed, .exitOwn (.exn n) false] := by
  rw [step_exit w t c _ x hx hs, effStack_of_not_cancel (.raised (.exn n)) x.tds rfl, hnone, hch]
  simp [exitOutcome]

/-- … or, after a cancellation, the cancellation itself. -/
theorem C01_outcome_cancelled (w : World) (t : TaskId) (c : CtxId) (x : Ctx)
    (hx : w.ctx? c = some x) (hs : x.state = .opened) (hch : x.children = [])
    (hnone : (runTeardown c (w.curOf t) (.raised .cancelled) (effStack (.raised .cancelled) x.tds)
      { x with state := .closing, tds := [] }).2.2 = []) :
    (step w (.exit t c (.raised .cancelled))).2 =
      (runTeardown c (w.curOf t) (.raised .cancelled) (effStack (.raised .cancelled) x.tds)
          { x with state := .closing, tds := [] }).2.1 ++
        [.closed, .exitOwn .cancelled x.parent.isNone] := by
  rw [step_exit w t c _ x hx hs, hnone, hch]
  simp [exitOutcome]

/-! ### cancellation -/

/-- Unless the block was cancelled, the stack runs as registered. -/
theorem C01_cancel_only (be : BlockEnd) (st : List Cb) (h : be ≠ .raised .cancelled) :
    effStack be st = st :=
  effStack_of_not_cancel be st (Cn.isCancel_eq_false be h)

/-- Under cancellation every registered callback is still there, in the same order, with the
same identity and the same pass_exception flag: synchronous ones unchanged (what they register
is subject to the same rule), asynchronous ones reduced to "invoked, cancelled". -/
theorem C01_cancel_shape (st : List Cb) :
    effStack (.raised .cancelled) st = st.map Cb.underCancel ∧
      (∀ id p body regs r, (Cb.mk id p false body regs r).underCancel =
          Cb.mk id p false body (regs.map Cb.underCancel) r) ∧
      (∀ id p body regs r, (Cb.mk id p true body regs r).underCancel =
          Cb.mk id p true [] [] (some .cancelled)) :=
  ⟨Cn.effStack_cancelled st, underCancel_sync, underCancel_async⟩

/-- Hence, also under cancellation, every callback registered on the context before the block
was left is invoked (exactly once, by `C01_exactly_once`; in LIFO order with the cancellation
exception as its argument, by `C01_lifo_and_argument`) … -/
theorem C01_cancel_all_invoked (be : BlockEnd) (st : List Cb) :
    ∀ cb ∈ st, ∃ cb' ∈ runOrder (effStack be st), cb'.id = cb.id ∧ cb'.passExc = cb.passExc ∧
      cb'.isAsync = cb.isAsync :=
  fun cb hm => runOrder_runsLike.effStack_invoked be st cb hm

/-- … the directly registered ones keep their relative (LIFO) order … -/
theorem C01_cancel_lifo (be : BlockEnd) (st : List Cb) :
    (st.map Cb.id).Sublist ((runOrder (effStack be st)).map Cb.id) :=
  runOrder_runsLike.effStack_sublist be st

/-- … and the cancellation of every asynchronous one is collected like any other exception. -/
theorem C01_cancel_collected (cid : CtxId) (cur : Option CtxId) (st : List Cb) (x : Ctx) (cb : Cb) (hm : cb ∈ st)
    (ha : cb.isAsync = true) :
    Exc.cancelled ∈ (runTeardown cid cur (.raised .cancelled) (effStack (.raised .cancelled) st) x).2.2 :=
  Cn.cancelled_collected cid cur st x cb hm ha

/-- Afterwards the context is closed and its callback stack is empty — even if teardown raised. -/
theorem C01_closed_afterwards (w : World) (t : TaskId) (c : CtxId) (be : BlockEnd) (x : Ctx)
    (hx : w.ctx? c = some x) (hs : x.state = .opened) :
    ∃ x', (step w (.exit t c be)).1.ctx? c = some x' ∧ x'.state = .closed ∧ x'.tds = [] := by
  rw [step_exit w t c be x hx hs]
  obtain ⟨x', h1, h2, h3⟩ := ctx?_removeChild _ x.parent c c _
    ((ctx?_setCur _ t (x.token.getD none) c).trans (ctx?_setCtx_same w c _))
  refine ⟨x', h1, h2, ?_⟩
  rw [h3]
  exact (runTeardown_frame c (w.curOf t) be (effStack be x.tds) _).2.2.2.2

/-- Non-vacuity (probe p5 of DESIGN.md, observed identically on both back-ends): four
callbacks, #2 raises an Exception, #3 registers #31 which raises a BaseException, the block
ended with an exception; run order 4, 3, 31, 2, 1 and both exceptions collected in order. -/
example :
    let c1 := Cb.mk 1 false false [] [] none
    let c2 := Cb.mk 2 true true [] [] (some (.exn 1))
    let c31 := Cb.mk 31 false false [] [] (some (.base 0))
    let c3 := Cb.mk 3 true false [] [c31] none
    let c4 := Cb.mk 4 false true [] [] none
    (runOrder [c4, c3, c2, c1]).map Cb.id = [4, 3, 31, 2, 1] ∧
      (runOrder [c4, c3, c2, c1]).filterMap Cb.raises = [.base 0, .exn 1] := by
  intro c1 c2 c31 c3 c4
  have h : runOrder [c4, c3, c2, c1] = [c4, c3, c31, c2, c1] := by
    simp only [c1, c2, c31, c3, c4, runOrder_cons, runOrder_nil, List.reverse_nil,
      List.reverse_cons, List.nil_append, List.cons_append]
  rw [h]
  exact ⟨rfl, rfl⟩

/-- Non-vacuity for cancellation (experiment /tmp/exp/cancel2.py "mix", identical on both
back-ends): the same four callbacks when the block is cancelled: the async #4 and #2 are
invoked and cancelled, the sync #3 still registers #31; run order 4, 3, 31, 2, 1, exceptions
collected: Cancelled, the BaseException of #31, Cancelled. -/
example :
    let c1 := Cb.mk 1 false false [] [] none
    let c2 := Cb.mk 2 true true [] [] (some (.exn 1))
    let c31 := Cb.mk 31 false false [] [] (some (.base 0))
    let c3 := Cb.mk 3 true false [] [c31] none
    let c4 := Cb.mk 4 false true [] [] none
    (runOrder (effStack (.raised .cancelled) [c4, c3, c2, c1])).map Cb.id = [4, 3, 31, 2, 1] ∧
      (runOrder (effStack (.raised .cancelled) [c4, c3, c2, c1])).filterMap Cb.raises =
        [.cancelled, .base 0, .cancelled] := by
  intro c1 c2 c31 c3 c4
  have he : effStack (.raised .cancelled) [c4, c3, c2, c1] =
      [Cb.mk 4 false true [] [] (some .cancelled), Cb.mk 3 true false [] [c31] none,
       Cb.mk 2 true true [] [] (some .cancelled), c1] := by
    simp only [c1, c2, c31, c3, c4, Cn.effStack_cancelled, List.map_cons, List.map_nil,
      underCancel_sync, underCancel_async]
  have h : runOrder (effStack (.raised .cancelled) [c4, c3, c2, c1]) =
      [Cb.mk 4 false true [] [] (some .cancelled), Cb.mk 3 true false [] [c31] none, c31,
       Cb.mk 2 true true [] [] (some .cancelled), c1] := by
    rw [he]
    simp only [c1, c31, runOrder_cons, runOrder_nil, List.reverse_nil,
      List.reverse_cons, List.nil_append, List.cons_append]
  rw [h]
  exact ⟨rfl, rfl⟩

end Asphalt
