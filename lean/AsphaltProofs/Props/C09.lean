/-
C09 — task factories: inherited context, exact handle set, teardown waits, errors kept.
Over the task-factory LTS (AsphaltModel/Factory.lean).
-/
import AsphaltModel.Factory
import AsphaltProofs.Lemmas.Assoc
import AsphaltProofs.Lemmas.Factory

namespace Asphalt

open Fc

def FReach (specs : List BgSpec) (hd : Handler) (snap : List Nat) (s : FSt) : Prop :=
  ∃ ls, FExec (FSt.init specs hd snap) ls s

/-- At every point the live handle set is exactly the spawned tasks that have not finished. -/
theorem C09_handles (specs : List BgSpec) (hd : Handler) (snap : List Nat) (s : FSt)
    (h : FReach specs hd snap s) (x : Nat) :
    x ∈ s.live ↔ (x ∈ s.spawned ∧ s.statusOf x ≠ some .ended) := by
  obtain ⟨ls, hex⟩ := h
  exact (reach_inv specs hd snap ls s hex).handles x

/-- (Corollary) every live handle is a spawned task that has not finished. -/
theorem C09_handles_sound (specs : List BgSpec) (hd : Handler) (snap : List Nat) (s : FSt)
    (h : FReach specs hd snap s) (x : Nat) :
    x ∈ s.live → (x ∈ s.spawned ∧ s.statusOf x ≠ some .ended) :=
  (C09_handles specs hd snap s h x).1

/-- Regression: a task that has finished cannot end again, even after a crash — the second
`taskEnded 1 (some 3)` (label 5) is rejected. (An earlier guard of the `failsWhenCancelled` arm accepted
it and put the task back to `raisedPending 3` while it was no longer live.) -/
theorem ended_task_cannot_end_again :
    (match faccept (FSt.init [⟨1, .failsWhenCancelled 3⟩] (.returns false) [])
        [.spawn 1, .cancelReq 1, .cancelSeen 1, .taskEnded 1 (some 3), .handlerCalled 1 3,
          .taskEnded 1 (some 3)] 0 with
     | .ok _ => none
     | .error e => some e) = some (5, FLab.taskEnded 1 (some 3)) := by
  decide

/-- … and that is what all_task_handles() returns. -/
theorem C09_observed (s s' : FSt) (hs : List Nat) (hstep : fstep? s (.observed hs) = some s') :
    hs = sortNat s.live ∧ s' = { s with hist := s.hist ++ [.observed hs] } := by
  exact fstep_observed s s' hs hstep

/-- Every task runs in a fresh context inheriting from the factory's own context — whoever spawned
it — and sees the snapshot taken when the factory was started. -/
theorem C09_parent (s s' : FSt) (x : Nat) (ok : Bool) (saw : List Nat)
    (hstep : fstep? s (.taskBegan x ok saw) = some s') : ok = true ∧ saw = s.snap := by
  exact fstep_taskBegan s s' x ok saw hstep

/-- cancel() ends only that task: nothing about any other task changes. -/
theorem C09_cancel_local (s s' : FSt) (x y : Nat) (hne : y ≠ x) (hstep : fstep? s (.cancelReq x) = some s') :
    s'.statusOf y = s.statusOf y ∧ s'.live = s.live ∧ s'.crashed = s.crashed := by
  rcases fstep_cancelReq s s' x hstep with h | h
  · subst h
    refine ⟨?_, rfl, rfl⟩
    show (s.setStatus x .cancelAsked).statusOf y = _
    rw [statusOf_setStatus]
    exact if_neg (fun e => hne e.symm)
  · subst h
    exact ⟨rfl, rfl, rfl⟩

/-- A task observes cancellation only if its own handle was cancelled (no crash): in particular
tearing down the owning context never cancels a task. -/
theorem C09_cancel_only_requested (specs : List BgSpec) (hd : Handler) (snap : List Nat) (s s' : FSt)
    (h : FReach specs hd snap s) (hc : s.crashed = []) (x : Nat)
    (hstep : fstep? s (.cancelSeen x) = some s') : FLab.cancelReq x ∈ s.hist := by
  obtain ⟨ls, hex⟩ := h
  rcases fstep_cancelSeen s s' x hstep with hst | hne
  · exact (reach_inv specs hd snap ls s hex).asked x hst
  · exact absurd hc hne

/-- wait_finished() returns only once its task has ended. -/
theorem C09_wait (s s' : FSt) (x : Nat) (hstep : fstep? s (.waitReturned x) = some s') :
    s.statusOf x = some .ended := by
  exact fstep_waitReturned s s' x hstep

/-- Tearing down the owning context waits for all running tasks: the block is left only when no
handle is live. -/
theorem C09_teardown_waits (s s' : FSt) (hc : s.crashed = []) (hstep : fstep? s .blockLeft = some s') :
    s.exiting = true ∧ s.live = [] := by
  rcases fstep_blockLeft s s' hstep with h | hne
  · exact h
  · exact absurd hc hne

/-- An Exception escaping a task is passed to the handler exactly once … -/
theorem C09_handler_once (specs : List BgSpec) (hd : Handler) (snap : List Nat) (s : FSt)
    (h : FReach specs hd snap s) (x : Nat) :
    (s.hist.filter fun l => match l with | .handlerCalled y _ => y == x | _ => false).length ≤ 1 := by
  obtain ⟨ls, hex⟩ := h
  have h1 := ((reach_inv specs hd snap ls s hex).once x).1
  have hf : (fun l : FLab => match l with | .handlerCalled y _ => y == x | _ => false) = isHC x := by
    funext l
    cases l <;> rfl
  rw [hf]; exact h1

/-- … and is swallowed only if the handler returns a truthy value; otherwise it propagates.
(For a task that fails before it has started see C09_start.lean: its exception goes to the caller of
`start_task` whatever the handler says.) -/
theorem C09_handler_verdict (s s' : FSt) (x e : Nat) (hsf : s.startFailure x = false)
    (hstep : fstep? s (.handlerCalled x e) = some s') :
    ∃ truthy, s.handler = .returns truthy ∧ s.statusOf x = some (.raisedPending e) ∧
      (truthy = true → s'.crashed = s.crashed) ∧ (truthy = false → s'.crashed = s.crashed ++ [e]) := by
  obtain ⟨truthy, hh, hst, _, ht, hf⟩ := fstep_handlerCalled s s' x e hstep
  rw [hsf, Bool.or_false] at ht hf
  exact ⟨truthy, hh, hst, ht, hf⟩

/-- Without a handler the exception propagates at once (unless the task had not started yet:
C09_start.lean). -/
theorem C09_no_handler (s s' : FSt) (x e : Nat) (hh : s.handler = .absent) (hsf : s.startFailure x = false)
    (hstep : fstep? s (.taskEnded x (some e)) = some s') : s'.crashed = s.crashed ++ [e] := by
  exact fstep_taskEnded_absent s s' x e hh hsf hstep

/-- The exception of a task that had been cancelled through its handle (raised by its clean-up)
is an exception like any other: it goes to the handler, or propagates at once if there is none —
it is never lost. -/
theorem C09_cancelled_exception (s s' : FSt) (x e : Nat) (hst : s.statusOf x = some .cancelled)
    (hstep : fstep? s (.taskEnded x (some e)) = some s') :
    (s.handler = .absent ∧ s'.crashed = s.crashed ++ [e]) ∨
      (∃ t, s.handler = .returns t ∧ s'.statusOf x = some (.raisedPending e)) := by
  -- the conclusion holds for a task ending with an exception in any status (Fc.fstep_taskEnded_some),
  -- except for one that is still running and fails before it has started; `hst` excludes that
  -- (with `hst` the step can only be the `failsWhenCancelled` one).
  exact fstep_taskEnded_some s s' x e (Or.inr (by rw [hst]; simp)) hstep

/-- What propagates out of the owning root context is exactly what was not swallowed. -/
theorem C09_outcome (s s' : FSt) (leaves : List Nat) (hstep : fstep? s (.outcome leaves) = some s') :
    sortNat leaves = sortNat s.crashed ∧ s.left = true := by
  exact fstep_outcome s s' leaves hstep

/-- Non-vacuity: two tasks, one raising (falsy handler), one still running when the owner is torn down. -/
example :
    let specs : List BgSpec := [⟨1, .endsAfter 1 (some 2)⟩, ⟨2, .endsAfter 9 none⟩]
    let tr : List FLab := [.spawn 1, .taskBegan 1 true [5], .spawn 2, .taskBegan 2 true [5], .observed [1, 2],
      .taskEnded 1 (some 2), .handlerCalled 1 2, .cancelSeen 2, .taskEnded 2 none, .blockLeft, .outcome [2]]
    (match faccept (FSt.init specs (.returns false) [5]) tr 0 with
     | .ok s => s.reported
     | .error _ => false) = true := by
  decide

/-- Non-vacuity: a task that is cancelled through its handle and whose clean-up then raises; the
handler is consulted, returns a falsy value, and the exception reaches the caller. -/
example :
    let specs : List BgSpec := [⟨1, .failsWhenCancelled 3⟩]
    let tr : List FLab := [.spawn 1, .taskBegan 1 true [], .cancelReq 1, .cancelSeen 1, .taskEnded 1 (some 3),
      .handlerCalled 1 3, .exitBegin, .blockLeft, .outcome [3]]
    (match faccept (FSt.init specs (.returns false) []) tr 0 with
     | .ok s => s.reported
     | .error _ => false) = true := by
  decide

end Asphalt
