/-
C13 — lookups awaited by teardown callbacks (`BodyOp.get`): while the context is being torn down
`await get_resource()` is still allowed and it is the ordinary lookup. (What it returns: Props/C04_body.lean.)
-/
import AsphaltModel.Context
import AsphaltProofs.Lemmas.Assoc
import AsphaltProofs.Lemmas.Kernel
import AsphaltProofs.Lemmas.Kernel2
import AsphaltProofs.Lemmas.GetNow

namespace Asphalt

/-- Where it does not suspend, the lookup awaited by a teardown callback is `Context.get_resource`
as any task would see it. -/
theorem C13_body_get_is_get (cid : CtxId) (x : Ctx) (t : TaskId) (k : Key) (opt : Bool)
    (h : (ctxGetNow cid x k opt).2 ≠ [.blocked]) :
    ctxGetNow cid x k opt = ctxGet cid x t k opt := by
  rcases ctxGetNow_cases cid x k opt with ⟨e, _⟩ | e
  · rw [e] at h; exact absurd rfl h
  · exact e t

/-- … and it suspends exactly where that one does. -/
theorem C13_body_get_blocks_iff (cid : CtxId) (x : Ctx) (t : TaskId) (k : Key) (opt : Bool) :
    (ctxGetNow cid x k opt).2 = [.blocked] ↔ (ctxGet cid x t k opt).2 = [.blocked] := by
  rcases ctxGetNow_cases cid x k opt with ⟨e, hb⟩ | e
  · rw [e]; exact ⟨fun _ => hb t, fun _ => rfl⟩
  · rw [e t]

/-- During teardown (state `closing`) an awaited lookup made by a callback is never refused. -/
theorem C13_closing_get_allowed (cid : CtxId) (cur : Option CtxId) (x : Ctx) (hs : x.state = .closing)
    (ty : TypeId) (name : String) (opt : Bool) (s : CState) :
    (runBodyOp cid cur x (.get ty name opt)).2 ≠ [.runtimeError s] := by
  have hu : x.state.usable = true := by rw [hs]; rfl
  show (ctxGetNow cid x ⟨ty, name⟩ opt).2 ≠ [.runtimeError s]
  exact ctxGetNow_transfer2 (fun r => r.2 ≠ [.runtimeError s]) cid x ⟨ty, name⟩ opt (by simp)
    (fun t => K2.ctxGet_usable_not_refused cid x t _ opt hu s)

/-- Non-vacuity: an asynchronous factory, a generation inside the block, and an asynchronous teardown callback
that awaits the same resource: it gets the object generated before (`g1.3.0`), the factory ran once. -/
example :
    let fac : FacArgs := ⟨[0], "a", 3, none, true, false, 0, false⟩
    let cb := Cb.mk 1 false true [.get 0 "a" false] [] none
    let ops : List Op := [.new 0 1 none, .enter 0 1, .addFactory 1 fac, .get 0 1 ⟨0, "a"⟩ false,
                          .addTeardown 1 cb true, .exit 0 1 .ret]
    ∃ o, (run World.empty ops).2.getLast? = some o ∧ Out.body [.val (.gen 1 3 0)] ∈ o := by
  have hv : validName "a" = true := by decide
  refine ⟨[.tdStart 1 none, .body [.val (.gen 1 3 0)], .tdEnd 1 none, .closed, .exitNormal], ?_, by simp⟩
  simp [run, step, onCtx, World.ctx?, World.setCtx, World.curOf, World.setCur, World.empty,
    alookup, ainsert, freshCtx, ctxAddFactory, storeFac, acontains, hv, CState.usable,
    ctxGet, callFactory, storeGenerated, storeAll, countOf, registeredVal, effStack, BlockEnd.isCancel,
    runTeardown, runBody, runBodyOp, ctxGetNow, removeChild]

end Asphalt
