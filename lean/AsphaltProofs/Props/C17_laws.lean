/-
C17, continued — laws of the right-biased deep merge that callers lean on without saying so:
merging a configuration into itself or merging the same overrides twice changes nothing (re-running a
deployment step, a component whose defaults are its configuration), an empty side is neutral at every depth
(the "nothing merged with nothing" cases of the harness), and the override side always wins where it is no
mapping. Model: `merge` / `mergeVal` in `AsphaltModel/Config.lean`. Property theorems only.

`DeepWF` is what a Python dict is at every level: no key twice (`NoDupKeys`), recursively.
-/
import AsphaltModel.Config
import AsphaltProofs.Props.C17
import AsphaltProofs.Lemmas.MergeLaws

namespace Asphalt

mutual
/-- Every mapping inside the value, at every depth, has pairwise distinct keys. -/
def Cfg.DeepWF : Cfg → Prop
  | .atom _ => True
  | .dict kvs => NoDupKeys kvs ∧ DictDeepWF kvs
/-- … for the values of an association list. -/
def DictDeepWF : List (String × Cfg) → Prop
  | [] => True
  | (_, v) :: rest => v.DeepWF ∧ DictDeepWF rest
end

/-- A dictionary as Python has them, at every level. -/
def Dict.DeepWF (d : Dict) : Prop := NoDupKeys d ∧ DictDeepWF d

/-! ### helpers that mention `DeepWF` (they cannot live in `Lemmas/MergeLaws.lean`, which this file's
definitions come after); everything generic is in `Lemmas/MergeLaws.lean` -/
namespace ML2

theorem cfg_dict (x : Dict) : Cfg.DeepWF (.dict x) ↔ Dict.DeepWF x := by
  rw [Cfg.DeepWF, Dict.DeepWF]

theorem dictDeepWF_iff (l : List (String × Cfg)) : DictDeepWF l ↔ ∀ p ∈ l, p.2.DeepWF := by
  induction l with
  | nil => simp [DictDeepWF]
  | cons p l ih =>
    obtain ⟨k, v⟩ := p
    rw [DictDeepWF, ih]
    simp

/-- A dictionary found under a key of a deeply well-formed dictionary is deeply well-formed. -/
theorem sub (a : Dict) (ha : Dict.DeepWF a) (k : String) (x : Dict)
    (h : alookup k a = some (.dict x)) : Dict.DeepWF x :=
  (cfg_dict x).mp (((dictDeepWF_iff a).mp ha.2) _ (ML.mem_of_alookup k _ a h))

theorem idem_fuel (n : Nat) : ∀ a : Dict, sizeOf a < n → Dict.DeepWF a → merge a a = a := by
  induction n with
  | zero => intro a h; omega
  | succ n ih =>
    intro a hn ha
    apply ML.merge_self_of a ha.1
    intro k x h
    have := ML.sizeOf_dict_lt_of_alookup k x a h
    exact ih x (by omega) (sub a ha k x h)

theorem absorb_fuel (n : Nat) : ∀ a b : Dict, sizeOf b < n → Dict.DeepWF a → Dict.DeepWF b →
    merge (merge a b) b = merge a b := by
  induction n with
  | zero => intro a b h; omega
  | succ n ih =>
    intro a b hn ha hb
    apply ML.merge_again_of a b ha.1 hb.1
    · intro k y h
      exact idem_fuel _ y (Nat.lt_succ_self _) (sub b hb k y h)
    · intro k x y hx hy
      have := ML.sizeOf_dict_lt_of_alookup k y b hy
      exact ih x y (by omega) (sub a ha k x hx) (sub b hb k y hy)

theorem deep_fuel (n : Nat) : ∀ a b : Dict, sizeOf b < n → Dict.DeepWF a → Dict.DeepWF b →
    Dict.DeepWF (merge a b) := by
  induction n with
  | zero => intro a b h; omega
  | succ n ih =>
    intro a b hn ha hb
    refine ⟨C17_wf a b ha.1 hb.1, (dictDeepWF_iff _).mpr ?_⟩
    apply ML.merge_forall_of Cfg.DeepWF a b ha.1 hb.1 ((dictDeepWF_iff a).mp ha.2)
      ((dictDeepWF_iff b).mp hb.2)
    intro k x y hx hy
    have := ML.sizeOf_dict_lt_of_alookup k y b hy
    exact (cfg_dict _).mpr (ih x y (by omega) (sub a ha k x hx) (sub b hb k y hy))

end ML2

/-- An empty original is neutral (the result is a copy of the overrides). -/
theorem C17_empty_left (b : Dict) (hb : NoDupKeys b) : merge [] b = b := by
  exact ML.merge_nil_left b hb

/-- An empty override is neutral. -/
theorem C17_empty_right (a : Dict) : merge a [] = a := by
  exact merge_nil a

/-- Merging a configuration into itself changes nothing, at any depth. -/
theorem C17_idempotent (a : Dict) (ha : Dict.DeepWF a) : merge a a = a := by
  exact ML2.idem_fuel _ a (Nat.lt_succ_self _) ha

/-- Applying the same overrides a second time changes nothing. -/
theorem C17_absorb (a b : Dict) (ha : Dict.DeepWF a) (hb : Dict.DeepWF b) :
    merge (merge a b) b = merge a b := by
  exact ML2.absorb_fuel _ a b (Nat.lt_succ_self _) ha hb

/-- Where the override is no mapping it wins, whatever the original had. -/
theorem C17_scalar_override_wins (a b : Dict) (hb : NoDupKeys b) (k : String) (x : Atom)
    (h : alookup k b = some (.atom x)) : alookup k (merge a b) = some (.atom x) := by
  rw [C17_lookup a b hb k, h, ML.mergedValue_atom_right]

/-- Where only one side has the key, the value is that side's, untouched. -/
theorem C17_one_sided (a b : Dict) (hb : NoDupKeys b) (k : String) :
    (alookup k b = none → alookup k (merge a b) = alookup k a) ∧
    (alookup k a = none → alookup k (merge a b) = alookup k b) := by
  refine ⟨fun h => ?_, fun h => ?_⟩
  · rw [C17_lookup a b hb k, h, ML.mergedValue_none_right]
  · rw [C17_lookup a b hb k, h, ML.mergedValue_none_left]

/-- The merge of two well-formed dictionaries is well-formed at every depth. -/
theorem C17_deep_wf (a b : Dict) (ha : Dict.DeepWF a) (hb : Dict.DeepWF b) : Dict.DeepWF (merge a b) := by
  exact ML2.deep_fuel _ a b (Nat.lt_succ_self _) ha hb

/-- Non-vacuity: a nested configuration that meets `DeepWF`; merged into itself it is unchanged. -/
example :
    let a : Dict := [("x", .dict [("p", .atom (.other "1")), ("q", .dict [])]), ("y", .atom .none)]
    Dict.DeepWF a ∧ merge a a = a := by
  intro a
  have ha : Dict.DeepWF a := by
    simp [a, Dict.DeepWF, DictDeepWF, Cfg.DeepWF, NoDupKeys, akeys]
  exact ⟨ha, C17_idempotent a ha⟩

end Asphalt
