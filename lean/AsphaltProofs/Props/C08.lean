/-
C08 — service tasks are stopped at teardown before anything they may depend on.
Over the service-task LTS (AsphaltModel/Tasks.lean). `TSt.init prog` is the state after the
set-up program `prog` (registrations of teardown callbacks and resources, starts of service
tasks, in order); runs (`TExec`) range over every interleaving of task progress with the
owner's teardown. Hypothesis of the statement kept explicit: no task crashed (`crashed = []`);
a crash cancels the teardown itself, which the statement excludes.
-/
import AsphaltModel.Tasks
import AsphaltProofs.Lemmas.Assoc
import AsphaltProofs.Lemmas.Tasks
import AsphaltProofs.Lemmas.TasksLate

namespace Asphalt

open Tk

set_option linter.unusedVariables false

def TReach (prog : List Setup) (s : TSt) : Prop := ∃ ls, TExec (TSt.init prog) ls s

/-- In the set-up program, callback `id` was registered before task `tid` was started. -/
def RegisteredBefore (prog : List Setup) (id tid : Nat) : Prop :=
  ∃ pre r mid sp post, prog = pre ++ [.reg id r] ++ mid ++ [.start sp] ++ post ∧ sp.tid = tid

/-- Task ids (of the tasks started by the set-up program and of the late ones, together) and callback
ids of a set-up program are pairwise distinct, and each callback starts at most one late task. -/
def DistinctIds (prog : List Setup) : Prop :=
  (prog.filterMap fun s => match s with
    | .start sp => some sp.tid | .late _ sp => some sp.tid | _ => none).Nodup ∧
  (prog.filterMap fun s => match s with | .reg id _ => some id | _ => none).Nodup ∧
  (prog.filterMap fun s => match s with | .late cb _ => some cb | _ => none).Nodup

/-- Teardown does not proceed to a callback registered before a task was started until that
task and its context have completely finished. -/
theorem C08_before_earlier (prog : List Setup) (hd : DistinctIds prog) (s s' : TSt) (h : TReach prog s)
    (hc : s.crashed = []) (id tid : Nat) (hb : RegisteredBefore prog id tid)
    (hstep : tstep? s (.cbRun id) = some s') :
    ∃ e, s.statusOf tid = some (.closed e) := by
  obtain ⟨ls, hex⟩ := h
  have hinv := reach_inv prog ls s hex hc
  have hinv2 := reach_inv2 prog hd.1 hd.2.1 ls s hex hc
  have hnd := init_stack_nodup prog hd.1 hd.2.1
  obtain ⟨s1, n, hcore, _⟩ := tstep_core _ _ _ hstep hc (by intros; simp)
  obtain ⟨hexi, hw, r', rest, hstk⟩ := core_cbRun_stack _ _ _ hcore
  obtain ⟨pre, r, mid, sp, post, hprog, htid⟩ := hb
  have hI : (TSt.init prog).stack =
      ((TSt.init post).stack ++ Item.fin tid :: (TSt.init mid).stack) ++
        Item.cb id r :: (TSt.init pre).stack := by
    rw [hprog, init_stack_append, init_stack_append, init_stack_append, init_stack_append,
      init_stack_reg, init_stack_start, htid]
    simp only [List.append_assoc, List.cons_append, List.nil_append]
  obtain ⟨popped, hpop⟩ := hinv2.cb_top _ _ _ id r' rest hstk
  rw [hstk] at hpop
  have hr : r' = r :=
    init_stack_cb_unique prog hd.2.1 id r' r (by rw [← hpop]; simp) (by rw [hI]; simp)
  subst hr
  have hsplit := nodup_split_unique _ _ _ _ _ (hpop ▸ hnd) (hpop.trans hI)
  have hgone : Item.fin tid ∉ s.stack := by
    rw [hstk]
    intro hmem
    have hmem' : Item.fin tid ∈ rest := by simpa using hmem
    have hp : Item.fin tid ∈ popped := by rw [hsplit.1]; simp
    have hdis := (List.nodup_append.mp (hpop ▸ hnd)).2.2
    exact hdis _ hp _ (List.mem_cons_of_mem _ hmem') rfl
  exact (hinv.gone tid (by rw [hI]; simp) hgone).1

/-- No service task is still running once the block of its owning context has been left. -/
theorem C08_none_left (prog : List Setup) (hd : DistinctIds prog) (s s' : TSt) (h : TReach prog s)
    (hc : s.crashed = []) (hstep : tstep? s .blockLeft = some s') (sp : TaskSpec)
    (hsp : Setup.start sp ∈ prog) : ∃ e, s.statusOf sp.tid = some (.closed e) := by
  obtain ⟨ls, hex⟩ := h
  have hinv := reach_inv prog ls s hex hc
  obtain ⟨s1, n, hcore, _⟩ := tstep_core _ _ _ hstep hc (by intros; simp)
  cases hcore with
  | blockLeft hexi hstk hw hl =>
  exact (hinv.gone sp.tid (init_stack_mem_fin prog sp hsp) (by rw [hstk]; simp)).1

/-- A task observes cancellation at teardown only if its teardown action is "cancel" or a callable
that raised — never for teardown_action=None or a callable that succeeded. -/
theorem C08_cancel_only_when_told (prog : List Setup) (hd : DistinctIds prog) (s s' : TSt)
    (h : TReach prog s) (hc : s.crashed = []) (tid : Nat) (hstep : tstep? s (.cancelSeen tid) = some s') :
    ∃ sp, s.spec? tid = some sp ∧ (sp.action = .cancel ∨ sp.action = .callable true) := by
  obtain ⟨ls, hex⟩ := h
  have hinv := reach_inv prog ls s hex hc
  obtain ⟨s1, n, hcore, _⟩ := tstep_core _ _ _ hstep hc (by intros; simp)
  cases hcore with
  | cancelSeen _ sp c hsp hst => exact hinv.asked tid hst

/-- The teardown callable is invoked at most once per task, and only for tasks that have one. -/
theorem C08_action_once (prog : List Setup) (s : TSt) (h : TReach prog s) (hc : s.crashed = []) (tid : Nat) :
    s.hist.count (.actionCalled tid) ≤ 1 ∧
      (TLab.actionCalled tid ∈ s.hist → ∃ sp r, s.spec? tid = some sp ∧ sp.action = .callable r) := by
  obtain ⟨ls, hex⟩ := h
  have hinv := reach_inv prog ls s hex hc
  exact ⟨hinv.count tid, fun hm => (hinv.called_acted tid hm).2⟩

/-- … and by the time the block is left it has been invoked for every task that has one. -/
theorem C08_action_called (prog : List Setup) (hd : DistinctIds prog) (s s' : TSt) (h : TReach prog s)
    (hc : s.crashed = []) (hstep : tstep? s .blockLeft = some s') (sp : TaskSpec) (r : Bool)
    (hsp : Setup.start sp ∈ prog) (ha : sp.action = .callable r) : TLab.actionCalled sp.tid ∈ s.hist := by
  obtain ⟨ls, hex⟩ := h
  have hinv := reach_inv prog ls s hex hc
  have hfr := reach_frame prog ls s hex hc
  obtain ⟨s1, n, hcore, _⟩ := tstep_core _ _ _ hstep hc (by intros; simp)
  cases hcore with
  | blockLeft hexi hstk hw hl =>
  have hact := (hinv.gone sp.tid (init_stack_mem_fin prog sp hsp) (by rw [hstk]; simp)).2
  have hspec : s.spec? sp.tid = some sp := by
    have := init_spec prog hd.1 sp hsp
    unfold TSt.spec? at this ⊢
    rw [hfr.1]; exact this
  exact hinv.acted_called sp.tid sp r hact hspec ha

/-- A service task's context snapshots the resources present in the owner when it was started. -/
theorem C08_snapshot (prog : List Setup) (s s' : TSt) (h : TReach prog s) (tid : Nat) (vals : List Nat)
    (hc : s.crashed = []) (hstep : tstep? s (.taskSaw tid vals) = some s') :
    alookup tid (snapshots prog []) = some vals := by
  obtain ⟨ls, hex⟩ := h
  have hfr := reach_frame prog ls s hex hc
  obtain ⟨s1, n, hcore, _⟩ := tstep_core _ _ _ hstep hc (by intros; simp)
  cases hcore with
  | taskSaw _ _ hv => rw [← hfr.2.1]; exact hv

/-- An exception escaping a service task takes the application down instead of vanishing: it is
among the exceptions the caller sees. -/
theorem C08_crash_surfaces (s s' : TSt) (leaves : List Nat) (hstep : tstep? s (.outcome leaves) = some s')
    (e : Nat) (he : e ∈ s.crashed) : e ∈ leaves := by
  have hne : s.crashed ≠ [] := by intro h0; rw [h0] at he; simp at he
  have hall := tstep_outcome_crashed s s' leaves hne hstep
  rw [List.all_eq_true] at hall
  simpa using hall e he

/-- Every way a task can end with an exception — by itself, or from its clean-up while it is being
cancelled at teardown — records that exception as escaped (and `C08_crash_surfaces` then hands it
to the caller). -/
theorem C08_exception_recorded (s s' : TSt) (tid e : Nat) (hc : s.crashed = [])
    (hstep : tstep? s (.taskEnded tid (some e)) = some s') : e ∈ s'.crashed :=
  tstep_taskEnded_exc s s' tid e hc hstep

/-- Without a crash the caller sees exactly the exceptions raised by the teardown callbacks. -/
theorem C08_outcome_exact (s s' : TSt) (leaves : List Nat) (hc : s.crashed = [])
    (hstep : tstep? s (.outcome leaves) = some s') : leaves = s.excs ∧ s.left = true := by
  obtain ⟨s1, n, hcore, _⟩ := tstep_core _ _ _ hstep hc (by intros; simp)
  cases hcore with
  | outcome _ hl hv => exact ⟨hv, hl⟩

/-- The owner's callbacks run in reverse order of registration (C01), finalizers included: the
stack is only ever popped from the top.

CORRECTED STATEMENT: the original `C08_stack_suffix` had no `DistinctIds` hypothesis and is false
without it (two service tasks with the same id: popping the finalizer of the first also removes
the finalizer of the second from the middle of the stack, see `stack_suffix_counterexample`).

RESTATED for set-up programs with `Setup.late` entries: a teardown callback that starts a service task
pushes that task's finalizer, so the stack is a suffix `rest` of the initial one with at most one
item on top of it, the finalizer of a late task whose callback has run. -/
theorem C08_stack_suffix (prog : List Setup) (hd : DistinctIds prog) (s : TSt) (h : TReach prog s)
    (hc : s.crashed = []) :
    ∃ popped lateFins rest, popped ++ rest = (TSt.init prog).stack ∧ s.stack = lateFins ++ rest ∧
      lateFins.length ≤ 1 ∧
      ∀ i, i ∈ lateFins → ∃ cb sp, Setup.late cb sp ∈ prog ∧ i = .fin sp.tid ∧
        TLab.cbRun cb ∈ s.hist := by
  obtain ⟨ls, hex⟩ := h
  exact reach_shape prog hd.1 hd.2.1 ls s hex hc

/-- The original form of `C08_stack_suffix`, for set-up programs in which no teardown callback starts
a service task. -/
theorem C08_stack_suffix_no_late (prog : List Setup) (hd : DistinctIds prog)
    (hnl : ∀ cb sp, Setup.late cb sp ∉ prog) (s : TSt) (h : TReach prog s) (hc : s.crashed = []) :
    ∃ popped, popped ++ s.stack = (TSt.init prog).stack := by
  obtain ⟨popped, lateFins, rest, hp, hs, _, hlf⟩ := C08_stack_suffix prog hd s h hc
  cases lateFins with
  | nil => exact ⟨popped, by rw [hs]; exact hp⟩
  | cons i _ =>
    obtain ⟨cb, sp, hl, _⟩ := hlf i List.mem_cons_self
    exact absurd hl (hnl cb sp)

/-- The original statement of `C08_stack_suffix` (now `C08_stack_suffix_no_late`) without `DistinctIds` is
refuted by the set-up program
`[start 1, reg 5, start 1]` and the run `exitBegin, taskEnded 1, taskClosed 1`: the stack goes from
`[fin 1, cb 5, fin 1]` to `[cb 5]`. -/
theorem stack_suffix_counterexample :
    ¬ ∀ (prog : List Setup) (s : TSt), TReach prog s → s.crashed = [] →
      ∃ popped, popped ++ s.stack = (TSt.init prog).stack := by
  intro hall
  let prog : List Setup := [.start ⟨1, .none_, .endsAfter 0 none⟩, .reg 5 none,
    .start ⟨1, .none_, .endsAfter 0 none⟩]
  let tr : List TLab := [.exitBegin, .taskEnded 1 none, .taskClosed 1]
  have hrun : (match taccept (TSt.init prog) tr 0 with
      | .ok s => decide (s.stack = [Item.cb 5 none] ∧ s.crashed = [])
      | .error _ => false) = true := by decide
  cases hacc : taccept (TSt.init prog) tr 0 with
  | error p => rw [hacc] at hrun; exact absurd hrun (by simp)
  | ok s =>
    have hst : s.stack = [Item.cb 5 none] ∧ s.crashed = [] := by
      rw [hacc] at hrun
      simpa using hrun
    obtain ⟨popped, hp⟩ := hall prog s ⟨tr, taccept_exec tr _ s 0 hacc⟩ hst.2
    rw [hst.1] at hp
    have hI : (TSt.init prog).stack = [Item.fin 1, Item.cb 5 none, Item.fin 1] := by decide
    rw [hI] at hp
    have hlast := congrArg List.getLast? hp
    simp at hlast

/-- Non-vacuity: stack [cb 1, task t (callable that raises, needs two clean-up ticks), cb 2]. -/
example :
    let prog : List Setup := [.reg 1 none, .start ⟨7, .callable true, .untilStopped 2⟩, .reg 2 none]
    let tr : List TLab := [.taskSaw 7 [], .exitBegin, .cbRun 2, .actionCalled 7, .cancelSeen 7, .cleanupTick 7,
      .cleanupTick 7, .taskEnded 7 none, .taskClosed 7, .cbRun 1, .blockLeft, .outcome []]
    (match taccept (TSt.init prog) tr 0 with
     | .ok s => s.reported
     | .error _ => false) = true ∧
    (match taccept (TSt.init prog) [.taskSaw 7 [], .exitBegin, .cbRun 2, .actionCalled 7, .cbRun 1] 0 with
     | .ok _ => false
     | .error p => p.1 == 4) = true := by
  decide

/-- Non-vacuity for a task whose clean-up raises while it is being cancelled at teardown: the
exception reaches the caller; an outcome without it is rejected. -/
example :
    let prog : List Setup := [.reg 1 none, .start ⟨7, .cancel, .failsWhenCancelled 1 3⟩]
    (match taccept (TSt.init prog) [.taskSaw 7 [], .exitBegin, .cancelSeen 7, .cleanupTick 7, .taskEnded 7 (some 3),
        .taskClosed 7, .cbRun 1, .blockLeft, .outcome [3]] 0 with
     | .ok s => s.reported
     | .error _ => false) = true ∧
    (match taccept (TSt.init prog) [.taskSaw 7 [], .exitBegin, .cancelSeen 7, .cleanupTick 7, .taskEnded 7 (some 3),
        .taskClosed 7, .cbRun 1, .blockLeft, .outcome []] 0 with
     | .ok _ => false
     | .error p => p.1 == 8) = true := by
  decide

end Asphalt
