/-
C16 — `asphalt run`: documented configuration precedence and deterministic service
selection. Property theorems only. The model is `AsphaltModel/Config.lean`
(`loadConfig`, `splitServices`, `selectService`, `serviceName`, `finalConfig`,
`extractRunArgs`, `cliConfig`, `splitKey`, `setPath`).
-/
import AsphaltModel.Config
import AsphaltProofs.Lemmas.Assoc
import AsphaltProofs.Lemmas.Config
import AsphaltProofs.Props.C17

namespace Asphalt

/-! ### The service-selection ladder, as a decision table -/

theorem C16_no_services (s : Option String) : selectService [] s = .error .noServices := by
  rfl

theorem C16_named (services : Dict) (n : String) (h : services ≠ []) :
    selectService services (some n) =
      match alookup n services with
      | some c => .ok c
      | none => .error .serviceNotFound := by
  cases services with
  | nil => exact absurd rfl h
  | cons p l => rfl

theorem C16_only (n : String) (c : Cfg) : selectService [(n, c)] none = .ok c := by
  rfl

theorem C16_default (services : Dict) (h : 2 ≤ services.length) :
    selectService services none =
      match alookup "default" services with
      | some c => .ok c
      | none => .error .ambiguous := by
  match services, h with
  | _ :: _ :: _, _ => rfl

/-- `--service` beats `ASPHALT_SERVICE`. -/
theorem C16_option_over_env (o : String) (e : Option String) (h : o ≠ "") :
    serviceName (some o) e = some o := by
  simp only [serviceName, truthyName_some o h, Option.orElse_some]

/-- Without (or with an empty) `--service` the environment variable decides. -/
theorem C16_env_fallback (e : Option String) :
    serviceName none e = truthyName e ∧ serviceName (some "") e = truthyName e := by
  constructor <;> rfl

/-! ### Precedence: later file > earlier file, `--set` > files, service section > top level -/

/-- Folding the files: the value of a key is the fold of the per-key merge rule. -/
theorem C16_files_lookup (files : List Dict) (acc : Dict) (hf : ∀ f ∈ files, NoDupKeys f)
    (k : String) :
    alookup k (files.foldl merge acc) =
      files.foldl (fun o f => mergedValue o (alookup k f)) (alookup k acc) := by
  induction files generalizing acc with
  | nil => rfl
  | cons f fs ih =>
    rw [List.foldl_cons, List.foldl_cons, ih _ (fun g hg => hf g (List.mem_cons_of_mem _ hg)),
      C17_lookup _ _ (hf f List.mem_cons_self)]

/-- A non-dictionary value in the last file wins over everything before it. -/
theorem C16_later_file_wins (files : List Dict) (last : Dict)
    (hf : ∀ f ∈ files, NoDupKeys f) (hl : NoDupKeys last) (k : String) (a : Atom)
    (h : alookup k last = some (.atom a)) :
    alookup k ((files ++ [last]).foldl merge []) = some (.atom a) := by
  have _ := hf
  rw [List.foldl_append, List.foldl_cons, List.foldl_nil, C17_lookup _ _ hl, h,
    mergedValue_atom_right]

/-- A key absent from the last file keeps what the earlier files gave it. -/
theorem C16_later_file_absent (files : List Dict) (last : Dict)
    (hf : ∀ f ∈ files, NoDupKeys f) (hl : NoDupKeys last) (k : String)
    (h : alookup k last = none) :
    alookup k ((files ++ [last]).foldl merge []) = alookup k (files.foldl merge []) := by
  have _ := hf
  rw [List.foldl_append, List.foldl_cons, List.foldl_nil, C17_lookup _ _ hl, h,
    mergedValue_none_right]

/-- After a successful `--set path=v` the path holds `v` (whatever the files said). -/
theorem C16_set_get (ks : List String) (v : Cfg) (d d' : Dict) (hks : ks ≠ [])
    (h : setPath ks v d = .ok d') : getPath ks (.dict d') = some v := by
  induction ks generalizing d d' with
  | nil => exact absurd rfl hks
  | cons k ks ih =>
    cases ks with
    | nil =>
      rw [setPath] at h
      cases h
      rw [getPath, alookup_ainsert_same]
      rfl
    | cons k2 ks =>
      obtain ⟨sub, sub', _, hs, rfl⟩ := setPath_cons_cons_ok k k2 ks v d d' h
      rw [getPath, alookup_ainsert_same]
      exact ih sub sub' (List.cons_ne_nil _ _) hs

/-- `--set` touches only the top-level key its path starts with. -/
theorem C16_set_frame (ks : List String) (v : Cfg) (d d' : Dict)
    (h : setPath ks v d = .ok d') (k : String) (hk : ks.head? ≠ some k) :
    alookup k d' = alookup k d := by
  match ks, h, hk with
  | [], h, _ => rw [setPath] at h; cases h; rfl
  | [k1], h, hk =>
    rw [setPath] at h; cases h
    exact alookup_ainsert_other _ _ _ _ (fun e => hk (by rw [e]; rfl))
  | k1 :: k2 :: ks, h, hk =>
    obtain ⟨sub, sub', _, _, rfl⟩ := setPath_cons_cons_ok k1 k2 ks v d d' h
    exact alookup_ainsert_other _ _ _ _ (fun e => hk (by rw [e]; rfl))

/-- `--set` fails exactly when it has to descend into a non-mapping — stated one level deep:
the first key holds an atom and the path goes on. -/
theorem C16_set_not_mapping (k k2 : String) (ks : List String) (v : Cfg) (d : Dict) (a : Atom)
    (h : alookup k d = some (.atom a)) :
    setPath (k :: k2 :: ks) v d = .error .notMapping := by
  rw [setPath, h]

/-- The selected service's section is merged over the top-level keys. -/
theorem C16_service_lookup (config svc final : Dict) (hs : NoDupKeys svc)
    (h : finalConfig config (.dict svc) = .ok final) (k : String) :
    alookup k final = mergedValue (alookup k config) (alookup k svc) := by
  cases h
  exact C17_lookup _ _ hs k

/-- A top-level `component` without a `services` section becomes the only service,
`default`. -/
theorem C16_component_is_default_service (config : Dict) (comp : Cfg)
    (hs : alookup "services" config = none)
    (hc : alookup "component" (aerase "services" config) = some comp) :
    splitServices config =
      .ok (aerase "component" (aerase "services" config),
           [("default", .dict [("component", comp)])]) := by
  unfold splitServices
  rw [hs]
  simp only [bind, Except.bind, pure, Except.pure, hc]
  rfl

/-- The whole command is the composition of the five stages; in particular an error in any
stage yields no `RunArgs` (nothing is started). -/
theorem C16_pipeline (files : List Dict) (sets : List (String × Option Cfg))
    (o e : Option String) (r : RunArgs) (h : cliConfig files sets o e = .ok r) :
    ∃ cfg top services svc final,
      loadConfig files sets = .ok cfg ∧ splitServices cfg = .ok (top, services) ∧
      selectService services (serviceName o e) = .ok svc ∧ finalConfig top svc = .ok final ∧
      extractRunArgs final = .ok r := by
  unfold cliConfig at h
  cases h1 : loadConfig files sets with
  | error x => rw [h1] at h; cases h
  | ok cfg =>
    rw [h1] at h
    cases h2 : splitServices cfg with
    | error x => simp only [bind, Except.bind, h2] at h; cases h
    | ok ts =>
      obtain ⟨top, services⟩ := ts
      cases h3 : selectService services (serviceName o e) with
      | error x => simp only [bind, Except.bind, h2, h3] at h; cases h
      | ok svc =>
        cases h4 : finalConfig top svc with
        | error x => simp only [bind, Except.bind, h2, h3, h4] at h; cases h
        | ok final =>
          simp only [bind, Except.bind, h2, h3, h4] at h
          exact ⟨cfg, top, services, svc, final, rfl, h2, h3, h4, h⟩

theorem C16_error_starts_nothing (files : List Dict) (sets : List (String × Option Cfg))
    (o e : Option String) (err : CliErr) (h : cliConfig files sets o e = .error err) :
    (cliConfig files sets o e).toOption = none := by
  rw [h]; rfl

/-- What `run_application` receives: the type and the remaining keys of the `component`
section of the final configuration. -/
theorem C16_extract (config comp : Dict) (ty : Cfg) (r : RunArgs)
    (hc : alookup "component" config = some (.dict comp)) (ht : alookup "type" comp = some ty)
    (h : extractRunArgs config = .ok r) :
    r.type = ty ∧ r.component = aerase "type" comp := by
  unfold extractRunArgs at h
  rw [hc] at h
  simp only [bind, Except.bind, pure, Except.pure, ht] at h
  cases h
  exact ⟨rfl, rfl⟩

/-! ### Key splitting: dots separate keys unless escaped with a backslash -/

/-- Escape the dots of one key part. -/
def escapePart (p : List Char) : List Char :=
  p.flatMap fun c => if c = '.' then ['\\', '.'] else [c]

/-- Join parts with dots. -/
def joinParts : List (List Char) → List Char
  | [] => []
  | [p] => p
  | p :: q :: ps => p ++ '.' :: joinParts (q :: ps)

/-- Round trip: splitting the dot-joined, dot-escaped parts gives the parts back
(for parts that contain no backslash themselves). -/
theorem C16_split_roundtrip (ps : List (List Char)) (hne : ps ≠ [])
    (hb : ∀ p ∈ ps, '\\' ∉ p) :
    splitKey (String.ofList (joinParts (ps.map escapePart))) = ps.map String.ofList := by
  refine splitKey_join_esc escapePart joinParts rfl (fun _ => rfl) ?_ (fun _ => rfl)
    (fun _ _ _ => rfl) ps hne hb
  intro c p hc
  simp only [escapePart, List.flatMap_cons, if_neg hc, List.cons_append, List.nil_append]

/-- Non-vacuity / sanity: nested key, escaped dot, plain key. -/
example : splitKey "component.a\\.b.c" = ["component", "a.b", "c"] := by decide
example : splitKey "logging" = ["logging"] := by decide
/-- … and empty segments are segments (a doubled, leading or trailing dot addresses the key `""`): covered by the round
trip above, whose parts may be empty. -/
example : splitKey "logging.loggers..level" = ["logging", "loggers", "", "level"] := by decide
example : splitKey ".a." = ["", "a", ""] := by decide

example :
    (cliConfig
      [[("services", .dict [("web", .dict [("component", .dict [("type", .atom (.str "w"))])]),
                            ("default", .dict [("component", .dict [("type", .atom (.str "d")), ("x", .atom (.other "1"))])])]),
        ("logging", .atom (.other "1"))]]
      [("services.default.component.x", some (.atom (.other "2")))] none (some "")).toOption.map
        (fun r => (r.type, r.component))
      = some (.atom (.str "d"), [("x", .atom (.other "2"))]) := by
  have hk : splitKey "services.default.component.x" =
      ["services", "default", "component", "x"] := by decide
  simp [cliConfig, loadConfig, applySets, applySet, hk, setPath, merge, mergeVal, alookup, ainsert,
    splitServices, aerase, selectService, serviceName, truthyName, finalConfig, extractRunArgs,
    Except.toOption, bind, Except.bind, pure, Except.pure]

/-- The files are merged strictly from left to right: one more file is merged over the result of all the earlier ones
(never the other way round - merging is not associative, `C17_not_associative`). -/
theorem C16_files_left_to_right (files : List Dict) (last : Dict) (sets : List (String × Option Cfg)) :
    loadConfig (files ++ [last]) sets = applySets (merge (files.foldl merge []) last) sets := by
  simp [loadConfig, List.foldl_append]

end Asphalt
