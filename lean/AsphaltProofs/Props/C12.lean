/-
C12 — current_context() follows strict per-task stack discipline.
`World.cur` maps every task to the value of its `_current_context` variable; `enter`
stores the previous value in the context's reset token, `exit` restores it.
-/
import AsphaltModel.Context
import AsphaltProofs.Lemmas.Assoc
import AsphaltProofs.Lemmas.Kernel2
import AsphaltProofs.Lemmas.Teardown

namespace Asphalt
open K2

/-- The task on whose current-context variable an operation may act. -/
def curTask : Op → Option TaskId
  | .enter t _ => some t
  | .exit t _ _ => some t
  | .exitMid t _ _ _ => some t
  | .spawn _ t' => some t'
  | _ => none

/-- Inside `async with Context()` the current context is that context. -/
theorem C12_enter (w : World) (t : TaskId) (c : CtxId) (x : Ctx)
    (hx : w.ctx? c = some x) (hs : x.state = .inactive) :
    (step w (.enter t c)).1.curOf t = some c ∧
      ((step w (.enter t c)).1.ctx? c).map Ctx.token = some (some (w.curOf t)) := by
  obtain ⟨w2, hu, he⟩ := step_enter_eq w t c x hx hs
  obtain ⟨ch, hch⟩ := step_enter_ctx w t c x hx hs
  refine ⟨?_, ?_⟩
  · rw [he]; exact World.curOf_setCur_same _ _ _
  · rw [hch]; rfl

/-- On leaving the block — by any route, teardown raising or not — the current context is again
what the reset token recorded at entry. -/
theorem C12_exit (w : World) (t : TaskId) (c : CtxId) (be : BlockEnd) (x : Ctx)
    (hx : w.ctx? c = some x) (hs : x.state = .opened) :
    (step w (.exit t c be)).1.curOf t = x.token.getD none := by
  obtain ⟨w2, hu, he⟩ := step_exit_eq w t c be x hx hs
  rw [he, World.curOf_congr hu.cur]
  exact World.curOf_setCur_same _ _ _

/-- … also when the scope is cancelled while the teardown is running. -/
theorem C12_exit_mid (w : World) (t : TaskId) (c : CtxId) (be : BlockEnd) (k : Nat) (x : Ctx)
    (hx : w.ctx? c = some x) (hs : x.state = .opened) :
    (step w (.exitMid t c be k)).1.curOf t = x.token.getD none := by
  obtain ⟨w2, hu, he⟩ := step_exitMid_eq w t c be k x hx hs
  rw [he, World.curOf_congr hu.cur]
  exact World.curOf_setCur_same _ _ _

/-- `current_context()` reports the variable (NoCurrentContext if there is none). -/
theorem C12_current (w : World) (t : TaskId) :
    (step w (.current t)).2 = [match w.curOf t with | some c => .cur (some c) | none => .noCurrent] ∧
      (step w (.current t)).1 = w := by
  simp only [step]
  split <;> simp_all

/-- Tasks do not disturb each other: an operation leaves the current context of every task
other than the one it acts on unchanged. -/
theorem C12_noninterference (w : World) (op : Op) (t : TaskId) (h : curTask op ≠ some t) :
    (step w op).1.curOf t = w.curOf t := by
  rcases step_cur w op with h' | ⟨t', c, rfl, h'⟩ | ⟨t', c, be, v, rfl, h'⟩ |
      ⟨t', c, be, k, v, rfl, h'⟩ | ⟨t', t'', rfl, h'⟩
  · exact World.curOf_congr h' t
  · have hne : t' ≠ t := fun e => h (by simp [curTask, e])
    simp only [World.curOf, h', alookup_ainsert_other _ _ _ _ hne]
  · have hne : t' ≠ t := fun e => h (by simp [curTask, e])
    simp only [World.curOf, h', alookup_ainsert_other _ _ _ _ hne]
  · have hne : t' ≠ t := fun e => h (by simp [curTask, e])
    simp only [World.curOf, h', alookup_ainsert_other _ _ _ _ hne]
  · have hne : t'' ≠ t := fun e => h (by simp [curTask, e])
    simp only [World.curOf, h', alookup_ainsert_other _ _ _ _ hne]

/-- The reset token of a context is written only when that context is entered. -/
theorem C12_token_stable (w : World) (op : Op) (c : CtxId) (x : Ctx) (hx : w.ctx? c = some x)
    (hop : ∀ t, op ≠ .enter t c) (hnew : ∀ t p, op ≠ .new t c p) :
    ((step w op).1.ctx? c).map Ctx.token = some x.token := by
  by_cases hex : ∃ t be, op = .exit t c be ∧ x.state = .opened
  · obtain ⟨t, be, rfl, hs⟩ := hex
    obtain ⟨ch, hch⟩ := step_exit_ctx w t c be x hx hs
    rw [hch]
    simp only [Option.map_some, (exitedCtx_token c (w.curOf t) be x).1]
  by_cases hex' : ∃ t be k, op = .exitMid t c be k ∧ x.state = .opened
  · obtain ⟨t, be, k, rfl, hs⟩ := hex'
    obtain ⟨ch, hch⟩ := step_exitMid_ctx w t c be k x hx hs
    rw [hch]
    simp only [Option.map_some, (exitedMidCtx_token c (w.curOf t) be k x).1]
  · obtain ⟨y, hy, _, _, htok⟩ := step_ctx_other w op c x hx
      (fun t e => absurd e (hop t)) (fun t be e hs => hex ⟨t, be, e, hs⟩)
      (fun t be k e hs => hex' ⟨t, be, k, e, hs⟩)
    rw [hy, Option.map_some, htok]

/-- A context stays open until it is left (or until one of the operations below is an exit of it). -/
theorem C12_open_stable (w : World) (op : Op) (c : CtxId) (x : Ctx) (hx : w.ctx? c = some x)
    (hs : x.state = .opened) (hop : ∀ t be, op ≠ .exit t c be)
    (hop' : ∀ t be k, op ≠ .exitMid t c be k) :
    ((step w op).1.ctx? c).map Ctx.state = some .opened := by
  obtain ⟨y, hy, _, hst, _⟩ := step_ctx_other w op c x hx
    (fun t _ => by rw [hs]; simp) (fun t be e => absurd e (hop t be))
    (fun t be k e => absurd e (hop' t be k))
  rw [hy, Option.map_some, hst, hs]

/-- Restoration over any history: enter `c`, let *other* tasks do anything at all (entering and
leaving their own contexts, failing teardowns, …) except leaving `c` itself, then leave `c`:
the task's current context is what it was before entry. -/
theorem C12_restore (w : World) (t : TaskId) (c : CtxId) (x : Ctx) (ops : List Op) (be : BlockEnd)
    (hx : w.ctx? c = some x) (hs : x.state = .inactive)
    (hops : ∀ op ∈ ops, curTask op ≠ some t ∧ (∀ t' be', op ≠ .exit t' c be') ∧
                         (∀ t' be' k, op ≠ .exitMid t' c be' k) ∧
                         (∀ t', op ≠ .enter t' c) ∧ (∀ t' p, op ≠ .new t' c p)) :
    let w1 := (step w (.enter t c)).1
    let w2 := (run w1 ops).1
    (step w2 (.exit t c be)).1.curOf t = w.curOf t := by
  intro w1 w2
  obtain ⟨ch, hch⟩ := step_enter_ctx w t c x hx hs
  obtain ⟨y, hy, hst, htok⟩ := run_open_stable c (some (w.curOf t)) ops w1
    (fun op ho => ⟨(hops op ho).2.1, (hops op ho).2.2.1⟩) ⟨_, hch, rfl, rfl⟩
  rw [C12_exit w2 t c be y hy hst, htok]
  rfl

/-- … also when the scope is cancelled while the teardown of `c` is running. -/
theorem C12_restore_mid (w : World) (t : TaskId) (c : CtxId) (x : Ctx) (ops : List Op) (be : BlockEnd)
    (k : Nat) (hx : w.ctx? c = some x) (hs : x.state = .inactive)
    (hops : ∀ op ∈ ops, curTask op ≠ some t ∧ (∀ t' be', op ≠ .exit t' c be') ∧
                         (∀ t' be' k, op ≠ .exitMid t' c be' k) ∧
                         (∀ t', op ≠ .enter t' c) ∧ (∀ t' p, op ≠ .new t' c p)) :
    let w1 := (step w (.enter t c)).1
    let w2 := (run w1 ops).1
    (step w2 (.exitMid t c be k)).1.curOf t = w.curOf t := by
  intro w1 w2
  obtain ⟨ch, hch⟩ := step_enter_ctx w t c x hx hs
  obtain ⟨y, hy, hst, htok⟩ := run_open_stable c (some (w.curOf t)) ops w1
    (fun op ho => ⟨(hops op ho).2.1, (hops op ho).2.2.1⟩) ⟨_, hch, rfl, rfl⟩
  rw [C12_exit_mid w2 t c be k y hy hst, htok]
  rfl

/-- Nested blocks of one task restore level by level (two levels spelled out). -/
theorem C12_nested (w : World) (t : TaskId) (c d : CtxId) (x y : Ctx) (be be' : BlockEnd)
    (hx : w.ctx? c = some x) (hy : w.ctx? d = some y) (hne : c ≠ d)
    (hs : x.state = .inactive) (hs' : y.state = .inactive) :
    let w1 := (step w (.enter t c)).1
    let w2 := (step w1 (.enter t d)).1
    let w3 := (step w2 (.exit t d be)).1
    let w4 := (step w3 (.exit t c be')).1
    w2.curOf t = some d ∧ w3.curOf t = some c ∧ w4.curOf t = w.curOf t := by
  intro w1 w2 w3 w4
  have hdc : d ≠ c := fun e => hne e.symm
  -- after entering c
  obtain ⟨ch1, hc1⟩ := step_enter_ctx w t c x hx hs
  have hcur1 : w1.curOf t = some c := (C12_enter w t c x hx hs).1
  obtain ⟨y1, hd1, _, hds1, _⟩ := step_ctx_other w (.enter t c) d y hy
    (fun t' e => by cases e; exact absurd rfl hne) (fun t' be e => by cases e)
    (fun t' be k e => by cases e)
  have hds1' : y1.state = .inactive := hds1.trans hs'
  -- after entering d
  obtain ⟨ch2, hd2⟩ := step_enter_ctx w1 t d y1 hd1 hds1'
  have hcur2 : w2.curOf t = some d := (C12_enter w1 t d y1 hd1 hds1').1
  obtain ⟨x2, hc2, _, hcs2, hct2⟩ := step_ctx_other w1 (.enter t d) c _ hc1
    (fun t' e => by cases e; exact absurd rfl hne) (fun t' be e => by cases e)
    (fun t' be k e => by cases e)
  -- after leaving d
  have hcur3 : w3.curOf t = some c := by
    rw [C12_exit w2 t d be _ hd2 rfl]
    simp [enteredCtx, hcur1]
  obtain ⟨x3, hc3, _, hcs3, hct3⟩ := step_ctx_other w2 (.exit t d be) c x2 hc2
    (fun t' e => by cases e) (fun t' be e => by cases e; exact absurd rfl hne)
    (fun t' be k e => by cases e)
  -- after leaving c
  have hcur4 : w4.curOf t = w.curOf t := by
    rw [C12_exit w3 t c be' x3 hc3 (hcs3.trans hcs2), hct3, hct2]
    rfl
  exact ⟨hcur2, hcur3, hcur4⟩

/-- … also when each of the two teardowns is interrupted by a cancellation. -/
theorem C12_nested_mid (w : World) (t : TaskId) (c d : CtxId) (x y : Ctx) (be be' : BlockEnd)
    (k k' : Nat)
    (hx : w.ctx? c = some x) (hy : w.ctx? d = some y) (hne : c ≠ d)
    (hs : x.state = .inactive) (hs' : y.state = .inactive) :
    let w1 := (step w (.enter t c)).1
    let w2 := (step w1 (.enter t d)).1
    let w3 := (step w2 (.exitMid t d be k)).1
    let w4 := (step w3 (.exitMid t c be' k')).1
    w2.curOf t = some d ∧ w3.curOf t = some c ∧ w4.curOf t = w.curOf t := by
  intro w1 w2 w3 w4
  have hdc : d ≠ c := fun e => hne e.symm
  -- after entering c
  obtain ⟨ch1, hc1⟩ := step_enter_ctx w t c x hx hs
  have hcur1 : w1.curOf t = some c := (C12_enter w t c x hx hs).1
  obtain ⟨y1, hd1, _, hds1, _⟩ := step_ctx_other w (.enter t c) d y hy
    (fun t' e => by cases e; exact absurd rfl hne) (fun t' be e => by cases e)
    (fun t' be k e => by cases e)
  have hds1' : y1.state = .inactive := hds1.trans hs'
  -- after entering d
  obtain ⟨ch2, hd2⟩ := step_enter_ctx w1 t d y1 hd1 hds1'
  have hcur2 : w2.curOf t = some d := (C12_enter w1 t d y1 hd1 hds1').1
  obtain ⟨x2, hc2, _, hcs2, hct2⟩ := step_ctx_other w1 (.enter t d) c _ hc1
    (fun t' e => by cases e; exact absurd rfl hne) (fun t' be e => by cases e)
    (fun t' be k e => by cases e)
  -- after leaving d
  have hcur3 : w3.curOf t = some c := by
    rw [C12_exit_mid w2 t d be k _ hd2 rfl]
    simp [enteredCtx, hcur1]
  obtain ⟨x3, hc3, _, hcs3, hct3⟩ := step_ctx_other w2 (.exitMid t d be k) c x2 hc2
    (fun t' e => by cases e) (fun t' be e => by cases e)
    (fun t' be k e => by cases e; exact absurd rfl hne)
  -- after leaving c
  have hcur4 : w4.curOf t = w.curOf t := by
    rw [C12_exit_mid w3 t c be' k' x3 hc3 (hcs3.trans hcs2), hct3, hct2]
    rfl
  exact ⟨hcur2, hcur3, hcur4⟩

/-- A newly created context takes the context current at its creation as its parent. -/
theorem C12_parent_default (w : World) (t : TaskId) (c : CtxId) (hfresh : w.ctx? c = none) :
    ((step w (.new t c none)).1.ctx? c).map Ctx.parent = some (w.curOf t) := by
  simp [step, hfresh, freshCtx]

/-- A task inherits the context that was current where it was spawned. -/
theorem C12_inherit (w : World) (t t' : TaskId) :
    (step w (.spawn t t')).1.curOf t' = w.curOf t := by
  simp [step]

/-- Inside a teardown callback `current_context()` is whatever is current for the task that is leaving the block — the context being torn down itself in disciplined use — and the callback's body cannot change it. -/
theorem C12_current_in_teardown (cid : CtxId) (cur : Option CtxId) (x : Ctx) :
    runBodyOp cid cur x .current = (x, [.cur cur]) := rfl

theorem C12_current_in_teardown_disciplined (w : World) (t : TaskId) (c : CtxId) (x : Ctx) (hx : w.ctx? c = some x)
    (hs : x.state = .opened) (hcur : w.curOf t = some c) (be : BlockEnd) :
    (step w (.exit t c be)).2 = (runTeardown c (some c) be (effStack be x.tds) { x with state := .closing, tds := [] }).2.1 ++ [.closed, exitOutcome be x.parent.isNone x.children (runTeardown c (some c) be (effStack be x.tds) { x with state := .closing, tds := [] }).2.2] := by
  rw [step_exit w t c be x hx hs, hcur]

theorem C12_current_in_teardown_disciplined_mid (w : World) (t : TaskId) (c : CtxId) (x : Ctx) (hx : w.ctx? c = some x)
    (hs : x.state = .opened) (hcur : w.curOf t = some c) (be : BlockEnd) (k : Nat) :
    (step w (.exitMid t c be k)).2 = (runTeardown c (some c) be (midEff be k x.tds) { x with state := .closing, tds := [] }).2.1 ++ [.closed, exitOutcome be x.parent.isNone x.children (runTeardown c (some c) be (midEff be k x.tds) { x with state := .closing, tds := [] }).2.2] := by
  rw [step_exitMid w t c be k x hx hs, hcur]

/-- Non-vacuity: two tasks alternating enter/exit on their own stacks. -/
example :
    let ops : List Op := [.new 0 1 none, .enter 0 1, .spawn 0 1, .new 1 2 none, .new 0 3 none,
                          .enter 1 2, .enter 0 3, .exit 1 2 (.raised (.exn 0)), .current 0, .current 1,
                          .exit 0 3 .ret, .current 0]
    let w := (run World.empty ops).1
    (w.curOf 0, w.curOf 1) = (some 1, some 1) := by
  simp [run, step, World.ctx?, World.setCtx, World.curOf, World.setCur, World.empty,
    alookup, ainsert, freshCtx, removeChild]

end Asphalt
