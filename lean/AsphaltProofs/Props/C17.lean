/-
C17 — merge_config is a pure, right-biased deep merge.

Property theorems only (helper lemmas live in `Lemmas/`). `merge` is the model of
`merge_config` on two dictionaries; `mergeOpt` adds the `None` handling.
Well-formedness hypothesis: the override dictionary has no duplicate keys (true of every
Python `dict`; `NoDupKeys` is preserved by `merge`, see `C17_wf`).
-/
import AsphaltModel.Config
import AsphaltProofs.Lemmas.Assoc

namespace Asphalt

/-- The documented result for one key. -/
def mergedValue (va vb : Option Cfg) : Option Cfg :=
  match va, vb with
  | some (.dict x), some (.dict y) => some (.dict (merge x y))
  | _, some v => some v
  | some v, none => some v
  | none, none => none

theorem merge_nil (a : Dict) : merge a [] = a := by rw [merge]

theorem merge_cons (a : Dict) (k : String) (v : Cfg) (rest : Dict) :
    merge a ((k, v) :: rest) = merge (ainsert k (mergeVal (alookup k a) v) a) rest := by
  rw [merge]

theorem mergeVal_spec (o : Option Cfg) (v : Cfg) :
    some (mergeVal o v) = mergedValue o (some v) := by
  cases o with
  | none => rw [mergeVal]; rfl; intro x y h; cases h
  | some c =>
    cases c with
    | atom a => rw [mergeVal]; rfl; intro x y h; cases h
    | dict x =>
      cases v with
      | atom b => rw [mergeVal]; rfl; intro x y _ h; cases h
      | dict y => rw [mergeVal]; rfl

/-- Every key resolves to: the recursive merge when both sides hold dictionaries, else
the override's value when it has one, else the original's. -/
theorem C17_lookup (a b : Dict) (hb : NoDupKeys b) (k : String) :
    alookup k (merge a b) = mergedValue (alookup k a) (alookup k b) := by
  induction b generalizing a with
  | nil =>
    rw [merge_nil]
    cases h : alookup k a with
    | none => rfl
    | some v => cases v <;> rfl
  | cons p rest ih =>
    obtain ⟨k', v⟩ := p
    have hnd : (k' ∉ akeys rest) ∧ NoDupKeys rest := by
      simpa [NoDupKeys, akeys] using hb
    rw [merge_cons, ih _ hnd.2]
    by_cases hk : k' = k
    · subst hk
      have hnone : alookup k' rest = none := (alookup_none_iff _ _).mpr hnd.1
      rw [alookup_ainsert_same, hnone, alookup_cons, if_pos rfl, ← mergeVal_spec]
      cases mergeVal (alookup k' a) v <;> rfl
    · rw [alookup_ainsert_other _ _ _ _ hk, alookup_cons, if_neg hk]

/-- The result has every key of either input, the original's first (in their order), then
the override's new keys (in their order): Python's `dict` insertion order. -/
theorem C17_keys (a b : Dict) (hb : NoDupKeys b) :
    akeys (merge a b) = akeys a ++ (akeys b).filter (fun k => decide (k ∉ akeys a)) := by
  induction b generalizing a with
  | nil => rw [merge_nil]; simp [akeys]
  | cons p rest ih =>
    obtain ⟨k', v⟩ := p
    have hnd : (k' ∉ akeys rest) ∧ NoDupKeys rest := by
      simpa [NoDupKeys, akeys] using hb
    rw [merge_cons, ih _ hnd.2]
    have hcons : akeys ((k', v) :: rest) = k' :: akeys rest := rfl
    by_cases hmem : k' ∈ akeys a
    · rw [akeys_ainsert_mem _ _ _ hmem, hcons, List.filter_cons]
      have hd : decide (k' ∉ akeys a) = false := by simpa using hmem
      rw [hd]; rfl
    · rw [akeys_ainsert_not_mem _ _ _ hmem, hcons, List.filter_cons]
      have hd : decide (k' ∉ akeys a) = true := by simpa using hmem
      rw [hd]
      simp only [if_true, List.append_assoc, List.cons_append, List.nil_append]
      congr 2
      apply List.filter_congr
      intro x hx
      have hxk : x ≠ k' := fun e => hnd.1 (e ▸ hx)
      simp [hxk]

theorem C17_mem_keys (a b : Dict) (hb : NoDupKeys b) (k : String) :
    k ∈ akeys (merge a b) ↔ k ∈ akeys a ∨ k ∈ akeys b := by
  rw [C17_keys a b hb]
  simp only [List.mem_append, List.mem_filter, decide_eq_true_eq]
  constructor
  · rintro (h | h)
    · exact Or.inl h
    · exact Or.inr h.1
  · rintro (h | h)
    · exact Or.inl h
    · by_cases hk : k ∈ akeys a
      · exact Or.inl hk
      · exact Or.inr ⟨h, hk⟩

/-- Merging keeps dictionaries well formed. -/
theorem C17_wf (a b : Dict) (ha : NoDupKeys a) (hb : NoDupKeys b) : NoDupKeys (merge a b) := by
  unfold NoDupKeys
  rw [C17_keys a b hb]
  refine List.nodup_append.mpr ⟨ha, ?_, ?_⟩
  · exact List.Nodup.sublist (List.filter_sublist) hb
  · intro x hx y hy
    simp only [List.mem_filter, decide_eq_true_eq] at hy
    intro e
    exact hy.2 (e ▸ hx)

/-- `None` (or an empty dictionary) as overrides: a copy of the original. -/
theorem C17_none_right (a : Option Dict) : mergeOpt a none = a.getD [] := by
  simp [mergeOpt, merge_nil]

/-- `None` (or an empty dictionary) as original: a copy of the overrides. -/
theorem C17_none_left (b : Dict) (hb : NoDupKeys b) : mergeOpt none (some b) = b := by
  simp only [mergeOpt, Option.getD_none, Option.getD_some]
  suffices h : ∀ (a : Dict), (∀ k ∈ akeys b, k ∉ akeys a) → merge a b = a ++ b by
    simpa using h [] (by simp [akeys])
  induction b with
  | nil => intro a _; rw [merge_nil]; simp
  | cons p rest ih =>
    obtain ⟨k', v⟩ := p
    intro a hdis
    have hnd : (k' ∉ akeys rest) ∧ NoDupKeys rest := by
      simpa [NoDupKeys, akeys] using hb
    have hk' : k' ∉ akeys a := hdis k' (by simp [akeys])
    have hl : alookup k' a = none := (alookup_none_iff _ _).mpr hk'
    have hins : ainsert k' v a = a ++ [(k', v)] := by
      clear hdis hl ih
      induction a with
      | nil => rfl
      | cons q a iha =>
        obtain ⟨k'', v''⟩ := q
        simp only [akeys, List.map_cons, List.mem_cons, not_or] at hk'
        have : ¬ k'' = k' := fun e => hk'.1 e.symm
        simp only [ainsert, this, if_false, List.cons_append]
        congr 1
        exact iha (by simpa [akeys] using hk'.2)
    have hmv : mergeVal none v = v := by
      have := mergeVal_spec none v
      simpa [mergedValue] using this
    rw [merge_cons, hl, hmv, hins, ih hnd.2]
    · simp
    · intro k hk
      simp only [akeys, List.map_append, List.map_cons, List.map_nil, List.mem_append,
        List.mem_singleton, not_or]
      refine ⟨?_, ?_⟩
      · have := hdis k (by simp only [akeys, List.map_cons, List.mem_cons]; exact Or.inr hk)
        simpa [akeys] using this
      · intro e; exact hnd.1 (e ▸ hk)

/-- `mergeOpt` on two dictionaries is `merge`. -/
theorem C17_some (a b : Dict) : mergeOpt (some a) (some b) = merge a b := rfl

/-- Dotted keys are ordinary keys: the statement `C17_lookup` holds for every key string,
and a dotted key never reaches inside a nested dictionary. -/
theorem C17_dotted_plain (a b : Dict) (hb : NoDupKeys b) :
    alookup "x.y" (merge a b) = mergedValue (alookup "x.y" a) (alookup "x.y" b) :=
  C17_lookup a b hb "x.y"

/-- Non-vacuity: nested dict/dict merge, dict-vs-scalar both ways, a dotted key, new keys. -/
example :
    merge
      [("a", .dict [("x", .atom (.other "1")), ("y", .atom (.other "2"))]),
       ("b", .atom (.other "3")), ("c", .dict [("z", .atom .none)])]
      [("a", .dict [("y", .atom (.other "9")), ("w", .atom (.str "q"))]),
       ("b", .dict []), ("c", .atom (.other "4")), ("a.x", .atom (.other "5"))]
    = [("a", .dict [("x", .atom (.other "1")), ("y", .atom (.other "9")), ("w", .atom (.str "q"))]),
       ("b", .dict []), ("c", .atom (.other "4")), ("a.x", .atom (.other "5"))] := by
  simp [merge, mergeVal, alookup, ainsert]

/-- Deep merging is **not associative**: a value that is no mapping between two mappings wipes out what the first one
held (which is why configuration files are merged strictly left to right, see `C16_files_left_to_right`). Here
`{k: {p: 1}}`, `{k: null}`, `{k: {s: 3}}`: in order the result is `{k: {s: 3}}`, grouped from the right `p` comes back. -/
theorem C17_not_associative :
    ∃ a b c : Dict, merge (merge a b) c = [("k", .dict [("s", .atom (.other "3"))])] ∧
      merge a (merge b c) = [("k", .dict [("p", .atom (.other "1")), ("s", .atom (.other "3"))])] := by
  refine ⟨[("k", .dict [("p", .atom (.other "1"))])], [("k", .atom .none)], [("k", .dict [("s", .atom (.other "3"))])], ?_, ?_⟩
  · simp [merge, mergeVal, alookup, ainsert]
  · simp [merge, mergeVal, alookup, ainsert]

end Asphalt
