/-
C13, continued — several children of one parent.

A context keeps a record of the child contexts that were entered from it and are still open
(`Ctx.children`); leaving it while the record is not empty is reported (`C13_children_reported`).
What the record says when children come and go in any order: entering adds the child
(`C13_child_registered`), leaving removes *that* child and nothing else - so what counts when the
parent is left is whether any child is still open, not what the last child to move did.
Model: `removeChild` and the `enter` / `exit` cases of `step` in `AsphaltModel/Context.lean`.
Harness: the `matrix:open-sibling:*` cases of C13 (children entered by different tasks, every order).
Property theorems only.
-/
import AsphaltModel.Context
import AsphaltProofs.Props.C13
import AsphaltProofs.Lemmas.Siblings

namespace Asphalt

/-- Leaving a child removes that child - and nothing else - from its parent's record, however the
child's block ended and whatever its teardown did. -/
theorem C13_sibling_exit_removes_only_itself (w : World) (t : TaskId) (c p : CtxId) (be : BlockEnd)
    (x px : Ctx) (hx : w.ctx? c = some x) (hs : x.state = .opened) (hp : x.parent = some p)
    (hne : p ≠ c) (hpx : w.ctx? p = some px) :
    ((step w (.exit t c be)).1.ctx? p).map Ctx.children = some (px.children.filter (· ≠ c)) := by
  rw [Sib.step_exit_parent w t c p be x px hx hs hp hne hpx]
  rfl

/-- … also when the scope was cancelled while the child's teardown was running. -/
theorem C13_sibling_exit_removes_only_itself_mid (w : World) (t : TaskId) (c p : CtxId) (be : BlockEnd)
    (k : Nat) (x px : Ctx) (hx : w.ctx? c = some x) (hs : x.state = .opened) (hp : x.parent = some p)
    (hne : p ≠ c) (hpx : w.ctx? p = some px) :
    ((step w (.exitMid t c be k)).1.ctx? p).map Ctx.children = some (px.children.filter (· ≠ c)) := by
  rw [Sib.step_exitMid_parent w t c p be k x px hx hs hp hne hpx]
  rfl

/-- A sibling that is still open stays on the record, and the parent is otherwise as it was. -/
theorem C13_sibling_stays (w : World) (t : TaskId) (c p d : CtxId) (be : BlockEnd)
    (x px : Ctx) (hx : w.ctx? c = some x) (hs : x.state = .opened) (hp : x.parent = some p)
    (hne : p ≠ c) (hpx : w.ctx? p = some px) (hd : d ∈ px.children) (hdc : d ≠ c) :
    ∃ px', (step w (.exit t c be)).1.ctx? p = some px' ∧ d ∈ px'.children ∧ px'.state = px.state ∧
      px'.tds = px.tds ∧ px'.parent = px.parent := by
  exact ⟨_, Sib.step_exit_parent w t c p be x px hx hs hp hne hpx, Sib.mem_filter_ne hd hdc,
    rfl, rfl, rfl⟩

/-- Hence the C13-p history: two children `c` and `d` of the (non-root) parent `p`, `d` still open; `c` is
left - in whatever way - and then `p` is left normally by its own task: that is reported, exactly as
if `c` had never existed. -/
theorem C13_sibling_open_reported (w : World) (t t' : TaskId) (c p d : CtxId) (be : BlockEnd)
    (x px : Ctx) (hx : w.ctx? c = some x) (hs : x.state = .opened) (hp : x.parent = some p)
    (hne : p ≠ c) (hpx : w.ctx? p = some px) (hps : px.state = .opened) (hptd : px.tds = [])
    (hd : d ∈ px.children) (hdc : d ≠ c) :
    (step (step w (.exit t c be)).1 (.exit t' p .ret)).2.getLast? = some .corruption := by
  exact Sib.open_reported w t t' c p d be x px hx hs hp hne hpx hps hptd hd hdc

/-- … and when all children have been left, in whatever order, leaving the parent is not reported:
the record of a parent whose only children were `c` and `d` is empty after both have been left. -/
theorem C13_siblings_all_left (w : World) (t t' : TaskId) (c p d : CtxId) (be be' : BlockEnd)
    (x y px : Ctx) (hx : w.ctx? c = some x) (hs : x.state = .opened) (hp : x.parent = some p)
    (hy : w.ctx? d = some y) (hys : y.state = .opened) (hyp : y.parent = some p)
    (hne : p ≠ c) (hne' : p ≠ d) (hcd : c ≠ d) (hpx : w.ctx? p = some px)
    (hch : ∀ e ∈ px.children, e = c ∨ e = d) :
    ((step (step w (.exit t c be)).1 (.exit t' d be')).1.ctx? p).map Ctx.children = some [] := by
  exact Sib.all_left w t t' c p d be be' x y px hx hs hp hy hys hyp hne hne' hcd hpx hch

/-- Non-vacuity (harness case `matrix:open-sibling:ab:a`): root 1, parent 2, children 3 and 4 entered by
tasks 1 and 2; 4 is left, then 2 is left while 3 is still open: reported. -/
example :
    let ops : List Op := [.new 0 1 none, .enter 0 1, .new 0 2 none, .enter 0 2,
      .new 1 3 (some 2), .new 2 4 (some 2), .enter 1 3, .enter 2 4, .exit 2 4 .ret]
    let w := ops.foldl (fun w op => (step w op).1) World.empty
    (step w (.exit 0 2 .ret)).2.getLast? = some .corruption := by
  simp [step, World.ctx?, World.setCtx, World.setCur, World.curOf, World.empty,
    alookup, ainsert, freshCtx, effStack, BlockEnd.isCancel, runTeardown, removeChild]

end Asphalt
