/-
C10 — events reach exactly the active subscribers, exactly once, in dispatch order.
Refinement of the queue state of every stream to its ghost history (`offered`, `accepted`,
`lost`, `taken`, `delivered`) over the model in AsphaltModel/Signal.lean. Every operation
of that model is atomic, so quantifying over all reachable worlds (`SReachable`) is
quantifying over all interleavings of subscribing, dispatching, consuming and leaving.
-/
import AsphaltModel.Signal
import AsphaltProofs.Lemmas.Assoc
import AsphaltProofs.Lemmas.Signal

namespace Asphalt
open Sig

/-- Between steps no consumer holds an undelivered hand-over. -/
theorem C10_settled (ps : List (ClsId × ClsId)) (w : SigWorld) (hr : SReachable ps w)
    (st : Stream) (hst : st ∈ w.streams) : st.handed = none := by
  exact (Inv.of_reachable hr).2 st hst

/-- What the consumer has taken out, followed by what is still queued, is exactly what was
accepted (offered and not overflowed), in order — while the stream is open; afterwards what
was taken is a prefix of it. -/
theorem C10_queue (ps : List (ClsId × ClsId)) (w : SigWorld) (hr : SReachable ps w)
    (st : Stream) (hst : st ∈ w.streams) :
    (st.opened = true → st.taken ++ st.buf = st.accepted) ∧ st.taken <+: st.accepted := by
  have h := (Inv.of_reachable hr).1.1.st st hst
  exact ⟨h.queue, h.pre⟩

/-- The queue never holds more than its size. -/
theorem C10_bounded (ps : List (ClsId × ClsId)) (w : SigWorld) (hr : SReachable ps w)
    (st : Stream) (hst : st ∈ w.streams) : st.buf.length ≤ st.cap := by
  exact ((Inv.of_reachable hr).1.1.st st hst).bounded

/-- Every offered event is either accepted or lost, never both, order kept. -/
theorem C10_accepted_or_lost (ps : List (ClsId × ClsId)) (w : SigWorld) (hr : SReachable ps w)
    (st : Stream) (hst : st ∈ w.streams) :
    (st.accepted ++ st.lost).Perm st.offered ∧ st.accepted.Sublist st.offered ∧
      st.lost.Sublist st.offered := by
  have h := (Inv.of_reachable hr).1.1.st st hst
  exact ⟨h.perm, h.accSub, h.lostSub⟩

/-- What is yielded to the consumer's code is exactly the part of what it took out that passes
its filter. -/
theorem C10_deliver (ps : List (ClsId × ClsId)) (w : SigWorld) (hr : SReachable ps w)
    (st : Stream) (hst : st ∈ w.streams) :
    st.delivered = st.taken.filter st.filter.pass := by
  have hi := Inv.of_reachable hr
  have h := (hi.1.1.st st hst).deliv
  rw [hi.2 st hst] at h
  simpa using h

/-- Exactly once, in dispatch order: the sequence numbers offered to (hence delivered by) a
stream are strictly increasing. -/
theorem C10_once_in_order (ps : List (ClsId × ClsId)) (w : SigWorld) (hr : SReachable ps w)
    (st : Stream) (hst : st ∈ w.streams) :
    (st.offered.map Ev.seq).Pairwise (· < ·) ∧ (st.delivered.map Ev.seq).Pairwise (· < ·) := by
  have hi := Inv.of_reachable hr
  have h := hi.1.1.st st hst
  have hs := h.offered_sorted hi.1.1.logSeq
  exact ⟨hs, List.Pairwise.sublist ((h.delivered_sublist (hi.2 st hst)).map Ev.seq) hs⟩

/-- Offered = dispatched on one of the stream's signals between entering and leaving it. -/
theorem C10_offered_exact (ps : List (ClsId × ClsId)) (w : SigWorld) (hr : SReachable ps w)
    (st : Stream) (hst : st ∈ w.streams) :
    st.offered = w.log.filter fun e =>
      st.chans.contains e.chan && decide (st.subAt ≤ e.seq) &&
        (match st.leftAt with | none => true | some n => decide (e.seq < n)) := by
  exact ((Inv.of_reachable hr).1.1.st st hst).offered

/-- Every dispatched event is stamped with the dispatching instance and the attribute name. -/
theorem C10_stamp (ps : List (ClsId × ClsId)) (w : SigWorld) (hr : SReachable ps w)
    (e : Ev) (he : e ∈ w.log) :
    ∃ ch, ch ∈ w.chans ∧ ch.id = e.chan ∧ e.source = ch.inst ∧ e.topic = ch.attr := by
  exact (Inv.of_reachable hr).1.1.stamp e he

/-- When a subscriber's queue is full, only that subscriber loses only that event, and a
warning is issued. -/
theorem C10_overflow (st : Stream) (e : Ev) (hw : st.waiting = false) (hfull : st.cap ≤ st.buf.length) :
    offer st e = ({ st with offered := st.offered ++ [e], lost := st.lost ++ [e] }, [.warn st.id]) := by
  exact offer_full e hw hfull

/-- A waiting consumer is handed the event directly; otherwise it is queued while there is room. -/
theorem C10_accept (st : Stream) (e : Ev) (h : st.waiting = true ∨ st.buf.length < st.cap) :
    (offer st e).2 = [] ∧ (offer st e).1.accepted = st.accepted ++ [e] ∧ (offer st e).1.lost = st.lost := by
  rcases offer_cases st e with ⟨_, heq⟩ | ⟨_, _, heq⟩ | ⟨hw, hr, _⟩
  · rw [heq]; exact ⟨rfl, rfl, rfl⟩
  · rw [heq]; exact ⟨rfl, rfl, rfl⟩
  · rcases h with h | h
    · rw [hw] at h; cases h
    · exact absurd h (Nat.not_lt.mpr hr)

/-- Subscribers are served independently: what a dispatch does to one stream depends only on
that stream's own state — a full, slow, finished or gone subscriber affects nobody else. -/
theorem C10_independent (e : Ev) (subs : List StreamId) (w : SigWorld) (s : StreamId)
    (hnd : subs.Nodup) (hids : (w.streams.map Stream.id).Nodup) :
    (dispatchTo e subs w).1.stream? s =
      if s ∈ subs then (w.stream? s).map fun st => (offer st e).1 else w.stream? s := by
  exact dispatchTo_stream? e subs w s hnd hids

/-- `dispatch` never raises because of any subscriber's state: on a bound signal with an event
of the right class it always succeeds. -/
theorem C10_total (w : SigWorld) (c : ChanId) (ch : Chan) (cls : ClsId) (n : Nat)
    (hc : w.chan? c = some ch) (hcls : isSubCls w.parents 16 cls ch.evCls = true) :
    ∃ rest, (sstep w (.dispatch (some c) cls n)).2 = .ok :: rest ∧
      ∀ o ∈ rest, (∃ s, o = .warn s) ∨ (∃ s ev, o = .got s ev) ∨ (∃ s, o = .left s) := by
  rw [sstep_dispatch_ok n hc hcls]
  refine ⟨_, rfl, ?_⟩
  intro o ho
  rcases List.mem_append.mp ho with ho | ho
  · exact Or.inl (burst_out ch cls n w o ho)
  · rcases settleAll_out _ _ o ho with h | h
    · exact Or.inr (Or.inl h)
    · exact Or.inr (Or.inr h)

/-- One warning per lost event. -/
theorem C10_warnings (ps : List (ClsId × ClsId)) (w : SigWorld) (hr : SReachable ps w) :
    w.warnings = (w.streams.map fun st => st.lost.length).sum := by
  exact (Inv.of_reachable hr).1.1.warn

/-- wait_event returns at most one event, and is gone from every subscriber list afterwards. -/
theorem C10_wait_once (ps : List (ClsId × ClsId)) (w : SigWorld) (hr : SReachable ps w)
    (st : Stream) (hst : st ∈ w.streams) (ho : st.once = true) :
    st.delivered.length ≤ 1 ∧ (st.delivered ≠ [] → st.opened = false) := by
  have hi := Inv.of_reachable hr
  exact ⟨(hi.1.1.st st hst).onceLen ho, hi.1.2 st hst ho⟩

/-- A stream that was left is in no subscriber list. -/
theorem C10_left_unsubscribed (ps : List (ClsId × ClsId)) (w : SigWorld) (hr : SReachable ps w)
    (st : Stream) (hst : st ∈ w.streams) (hc : st.opened = false) (ch : Chan) (hch : ch ∈ w.chans) :
    st.id ∉ ch.subs := by
  have hw := (Inv.of_reachable hr).1.1
  intro hmem
  obtain ⟨x, hx, hid, hop, _⟩ := (hw.subsIff ch hch st.id).mp hmem
  have : x = st := mem_unique_id hw.sidNodup hx hst hid
  subst this
  rw [hc] at hop; cases hop

/-- Non-vacuity: two streams on one channel (queue sizes 2 and 1), one consumer waiting and one
not, three dispatches: the waiting one is handed the first event directly and queues the other
two; the other one queues the first and loses the second and third (two warnings). -/
example :
    let ops : List SOp := [.access 0 "sa" 0, .subscribe 0 [0] .all 2 false false,
                           .subscribe 1 [0] .all 1 false false, .pull 0,
                           .dispatch (some 0) 0 1, .dispatch (some 0) 0 1, .dispatch (some 0) 0 1]
    let w := (srun (SigWorld.empty []) ops).1
    (w.streams.map fun st => (st.lost.map Ev.seq, st.delivered.map Ev.seq, st.buf.map Ev.seq)) =
      [([], [0], [1, 2]), ([1, 2], [], [0])] ∧ w.warnings = 2 := by
  decide

end Asphalt
