/-
C05 (continued) — "because siblings start concurrently, every acyclic pattern of siblings waiting
for each other's resources completes".

Formal content: *acyclic* is taken as "some schedule completes" (there is a run of the LTS in
which start_component returns). The theorem says that then no schedule can get stuck: from
every state reachable without an outcome some start-up label is enabled. Together with the
bound on the length of outcome-free runs, every maximal fault-free run returns.
-/
import AsphaltModel.Startup
import AsphaltProofs.Lemmas.Assoc
import AsphaltProofs.Lemmas.Startup
import AsphaltProofs.Lemmas.Deadlock

namespace Asphalt
open St Dl

/-- Labels that are progress of the start-up itself (not faults, cancellation, or teardown). -/
def IsProgress : Lab → Prop
  | .timeoutFired => False
  | .cancelSeen _ => False
  | .instantOver => False
  | .tdRun _ => False
  | .failed _ _ => False
  | .ctorFailed _ => False
  | .raised _ => False
  | _ => True

/-- Number of labels a component's script can produce (a waiting lookup produces two). -/
def actsBudget : List Act → Nat
  | [] => 0
  | .await _ _ :: rest => 2 + actsBudget rest
  | _ :: rest => 1 + actsBudget rest

def phaseBudget : Option (List Act) → Nat
  | none => 0
  | some acts => 2 + actsBudget acts

def progBudget (prog : List CompSpec) : Nat :=
  (prog.map fun c => 1 + phaseBudget c.prepare + phaseBudget c.start).sum + 1

/-- The (type, name) pairs a phase publishes under, after the alias rule. -/
def phaseKeys (ph : StartPhase) (dflt : String) : Option (List Act) → List Key
  | none => []
  | some acts => acts.filterMap fun a => match a with
    | .publish ty name _ => some ⟨ty, publishName (phaseOf ph) dflt name⟩
    | .publishFactory ty name _ => some ⟨ty, publishName (phaseOf ph) dflt name⟩
    | _ => none

def publishedKeys (prog : List CompSpec) : List Key :=
  prog.flatMap fun c => phaseKeys .preparing c.dflt c.prepare ++ phaseKeys .starting c.dflt c.start

/-! ### bridges to the copies of these definitions used in `AsphaltProofs.Lemmas.Deadlock` -/

theorem isProgress_of_progLab {l : Lab} (h : progLab l = true) : IsProgress l := by
  cases l <;> first | trivial | cases h

theorem actsBudget_eq (acts : List Act) : actsBudget acts = actsB acts := by
  induction acts with
  | nil => rfl
  | cons a rest ih => cases a <;> simp [actsBudget, actsB, ih]

theorem phaseBudget_eq (sc : Option (List Act)) : phaseBudget sc = phaseB sc := by
  cases sc with
  | none => rfl
  | some acts => simp [phaseBudget, phaseB, actsBudget_eq]

theorem progBudget_eq (prog : List CompSpec) : progBudget prog = progB prog := by
  simp [progBudget, progB, phaseBudget_eq]

theorem phaseKeys_prep_eq (c : CompSpec) : phaseKeys .preparing c.dflt c.prepare = phaseKeys' c true := by
  unfold phaseKeys phaseKeys' scriptAt
  cases c.prepare with
  | none => rfl
  | some acts =>
    simp only [if_true]
    congr 1

theorem phaseKeys_start_eq (c : CompSpec) : phaseKeys .starting c.dflt c.start = phaseKeys' c false := by
  unfold phaseKeys phaseKeys' scriptAt
  cases c.start with
  | none => rfl
  | some acts =>
    simp only [Bool.false_eq_true, if_false]
    congr 1

theorem publishedKeys_eq (prog : List CompSpec) : publishedKeys prog = pubKeys prog := by
  simp [publishedKeys, pubKeys, phaseKeys_prep_eq, phaseKeys_start_eq]

/-- No deadlock: if some schedule lets start_component return, then every state reachable
without an outcome (in particular: without a failure or a time-out) has an enabled start-up
label — whatever schedule led there. (Publications competing for one (type, name) — a conflict,
not a waiting pattern — are excluded: they make the outcome depend on the schedule.) -/
theorem C05_no_deadlock (prog : List CompSpec) (to : Bool) (hwf : wfProg prog = true)
    (hkeys : (publishedKeys prog).Nodup)      -- no two publications compete for one (type, name)
    (hcomplete : ∃ ls₀ s₀, Exec (SSt.init prog to) ls₀ s₀ ∧ s₀.result = some .returned)
    (ls : List Lab) (s : SSt) (h : Exec (SSt.init prog to) ls s) (hres : s.result = none) :
    ∃ l s', IsProgress l ∧ step? s l = some s' := by
  have _ := hwf   -- well-formedness of the tree is not needed for this argument
  have hu : KeyUniq prog := keyUniq_of_nodup (by rw [← publishedKeys_eq]; exact hkeys)
  obtain ⟨l, s', hl, hs⟩ := no_deadlock_core hu hcomplete h hres
  exact ⟨l, s', isProgress_of_progLab hl, hs⟩

/-- Outcome-free runs are bounded by the size of the program. -/
theorem C05_bounded (prog : List CompSpec) (to : Bool) (ls : List Lab) (s : SSt)
    (h : Exec (SSt.init prog to) ls s) (hres : s.result = none) : ls.length ≤ progBudget prog := by
  have := bounded_core h hres
  rw [progBudget_eq]
  omega

end Asphalt
