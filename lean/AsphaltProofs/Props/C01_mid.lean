/-
C01 (continued) — cancellation that arrives while the teardown is already running.
Property theorems only. Model: `midStack`, `midEff` and the `exitMid` case of `step` in
`AsphaltModel/Context.lean`: the block was left normally or by an exception, and the scope around
it is cancelled during the directly registered callback `k`. What was popped before `k` has run as
registered; `k` does its work and - being asynchronous - ends with the cancellation; everything
still to run (what `k` registered, the rest of the stack) runs in the cancelled scope, i.e. like
the stack of a block that was left by cancellation (`Cb.underCancel`, C01_cancel_shape).

The statements of C01.lean about `runTeardown` (exactly once, LIFO and argument, one at a time,
all collected, frame) are for *every* stack, hence also for `midEff be k st`; the theorems below
say what the stack is and that no callback is lost.
-/
import AsphaltProofs.Props.C01
import AsphaltProofs.Lemmas.Mid

namespace Asphalt

/-- The shape of the stack: everything above callback `k` is untouched, `k` keeps its body and
registers what it registered (those callbacks then run in the cancelled scope), ends with the
cancellation if it is asynchronous and as written if not, and everything below runs in the
cancelled scope. -/
theorem C01_midcancel_shape (k : Nat) (above below : List Cb) (p a : Bool) (body : List BodyOp)
    (regs : List Cb) (r : Option Exc) (hab : ∀ cb ∈ above, cb.id ≠ k) :
    midStack k (above ++ Cb.mk k p a body regs r :: below) =
      above ++ Cb.mk k p a body (regs.map Cb.underCancel) (if a then some .cancelled else r) ::
        below.map Cb.underCancel := by
  exact Mid.midStack_append_hit k above below p a body regs r hab

/-- No directly registered callback `k`: the cancellation never arrives, nothing changes. -/
theorem C01_midcancel_absent (k : Nat) (st : List Cb) (h : ∀ cb ∈ st, cb.id ≠ k) :
    midStack k st = st := by
  exact Mid.midStack_absent k st h

/-- A block that was itself left by cancellation is cancelled throughout: `exitMid` is `exit`. -/
theorem C01_midcancel_of_cancelled (w : World) (t : TaskId) (c : CtxId) (k : Nat) :
    step w (.exitMid t c (.raised .cancelled) k) = step w (.exit t c (.raised .cancelled)) := by
  rw [step_exitMid_exitWith, step_exit_exitWith, Mid.midEff_cancelled]

/-- … and so is an `exitMid` whose callback is not on the stack. -/
theorem C01_midcancel_absent_exit (w : World) (t : TaskId) (c : CtxId) (be : BlockEnd) (k : Nat) (x : Ctx)
    (hx : w.ctx? c = some x) (h : ∀ cb ∈ x.tds, cb.id ≠ k) :
    step w (.exitMid t c be k) = step w (.exit t c be) := by
  simp only [step, hx, Mid.midEff_absent be k x.tds h]

/-- Whenever the cancellation arrives, every callback registered on the context before the block
was left is still invoked (exactly once by `C01_exactly_once`, with the argument of
`C01_lifo_and_argument`: the exception that ended the block, not the cancellation) … -/
theorem C01_midcancel_all_invoked (be : BlockEnd) (k : Nat) (st : List Cb) :
    ∀ cb ∈ st, ∃ cb' ∈ runOrder (midEff be k st), cb'.id = cb.id ∧ cb'.passExc = cb.passExc ∧
      cb'.isAsync = cb.isAsync := by
  intro cb hm
  obtain ⟨cb', hm', h⟩ := Mid.midEff_counterpart be k st cb hm
  exact ⟨cb', runOrder_runsLike.mem _ _ hm', h⟩

/-- … the directly registered ones in their LIFO order … -/
theorem C01_midcancel_lifo (be : BlockEnd) (k : Nat) (st : List Cb) :
    (st.map Cb.id).Sublist ((runOrder (midEff be k st)).map Cb.id) := by
  have h := runOrder_runsLike.sublist_ids [] (midEff be k st)
  rw [Mid.midEff_map_id, List.nil_append] at h
  exact h

/-- … what ran before the cancellation arrived ran exactly as registered, including everything it
registered during the teardown … -/
theorem C01_midcancel_before (k : Nat) (above below : List Cb) (c : Cb)
    (hab : ∀ cb ∈ above, cb.id ≠ k) (hk : c.id = k) :
    ∃ rest, runOrder (midStack k (above ++ c :: below)) = runOrder above ++ rest ∧
      (rest.head?.map Cb.id) = some k := by
  obtain ⟨id, p, a, body, regs, r⟩ := c
  change id = k at hk
  subst hk
  rw [Mid.midStack_append_hit id above below p a body regs r hab, Mid.runOrder_append, runOrder_cons]
  exact ⟨_, rfl, rfl⟩

/-- … and the cancellation of the callback during which it arrived is collected like any other
exception (so is that of every asynchronous callback after it, by `C01_cancel_collected`'s
argument; `C01_all_collected` gives the complete list). -/
theorem C01_midcancel_collected (cid : CtxId) (cur : Option CtxId) (be : BlockEnd) (k : Nat) (st : List Cb)
    (x : Ctx) (cb : Cb) (hm : cb ∈ st) (hk : cb.id = k) (ha : cb.isAsync = true) :
    Exc.cancelled ∈ (runTeardown cid cur be (midEff be k st) x).2.2 := by
  obtain ⟨c', hm', hr⟩ := Mid.midEff_cancelled_mem be k st cb hm hk ha
  exact Cn.raises_collected cid cur be _ x c' .cancelled hm' hr

/-- Leaving the block: the outputs are the teardown trace of that stack, then the context reports
itself closed, then the outcome - the same rule as for `exit` (`C01_outcome_group`). -/
theorem C01_midcancel_outcome_group (w : World) (t : TaskId) (c : CtxId) (be : BlockEnd) (k : Nat) (x : Ctx)
    (hx : w.ctx? c = some x) (hs : x.state = .opened)
    (hne : (runTeardown c (w.curOf t) be (midEff be k x.tds) { x with state := .closing, tds := [] }).2.2 ≠ []) :
    (step w (.exitMid t c be k)).2 =
      (runTeardown c (w.curOf t) be (midEff be k x.tds) { x with state := .closing, tds := [] }).2.1 ++
        [.closed, .exitGroup (runTeardown c (w.curOf t) be (midEff be k x.tds) { x with state := .closing, tds := [] }).2.2] := by
  rw [step_exitMid w t c be k x hx hs]
  have hne' : (runTeardown c (w.curOf t) be (midEff be k x.tds) { x with state := .closing, tds := [] }).2.2.isEmpty = false := by
    cases h : (runTeardown c (w.curOf t) be (midEff be k x.tds) { x with state := .closing, tds := [] }).2.2 with
    | nil => exact absurd h hne
    | cons e es => rfl
  simp only [exitOutcome, hne', Bool.not_false, if_true]

/-- Hence: if the cancellation arrives during an asynchronous callback of the context, the caller
sees one exception group, and the cancellation is in it - whatever the block's own outcome was. -/
theorem C01_midcancel_surfaces (w : World) (t : TaskId) (c : CtxId) (be : BlockEnd) (k : Nat) (x : Ctx) (cb : Cb)
    (hx : w.ctx? c = some x) (hs : x.state = .opened) (hm : cb ∈ x.tds) (hk : cb.id = k)
    (ha : cb.isAsync = true) :
    ∃ excs, (step w (.exitMid t c be k)).2.getLast? = some (.exitGroup excs) ∧ Exc.cancelled ∈ excs := by
  have hc := C01_midcancel_collected c (w.curOf t) be k x.tds { x with state := .closing, tds := [] }
    cb hm hk ha
  refine ⟨_, ?_, hc⟩
  rw [C01_midcancel_outcome_group w t c be k x hx hs (fun h => by rw [h] at hc; cases hc)]
  exact Mid.getLast?_exit_outputs _ _

/-- Afterwards the context is closed and its callback stack is empty. -/
theorem C01_midcancel_closed_afterwards (w : World) (t : TaskId) (c : CtxId) (be : BlockEnd) (k : Nat) (x : Ctx)
    (hx : w.ctx? c = some x) (hs : x.state = .opened) :
    ∃ x', (step w (.exitMid t c be k)).1.ctx? c = some x' ∧ x'.state = .closed ∧ x'.tds = [] := by
  rw [step_exitMid w t c be k x hx hs]
  obtain ⟨x', h1, h2, h3⟩ := ctx?_removeChild _ x.parent c c _
    ((ctx?_setCur _ t (x.token.getD none) c).trans (ctx?_setCtx_same w c _))
  refine ⟨x', h1, h2, ?_⟩
  rw [h3]
  exact (runTeardown_frame c (w.curOf t) be (midEff be k x.tds) _).2.2.2.2

/-- Non-vacuity (observed identically on both back-ends, harness case "mid"): five callbacks, the
block ended with an exception, the scope is cancelled during the asynchronous #3, which has
registered the asynchronous #31: #5 and #4 run as registered (#4 raises), #3 does its work and ends
cancelled, #31 and #2 are invoked and cancelled, the synchronous #1 runs as usual. -/
example :
    let c1 := Cb.mk 1 false false [] [] none
    let c2 := Cb.mk 2 true true [] [] (some (.exn 1))
    let c31 := Cb.mk 31 false true [] [] none
    let c3 := Cb.mk 3 true true [.current] [c31] none
    let c4 := Cb.mk 4 false true [] [] (some (.exn 0))
    let c5 := Cb.mk 5 false false [] [] none
    (runOrder (midEff (.raised (.exn 2)) 3 [c5, c4, c3, c2, c1])).map Cb.id = [5, 4, 3, 31, 2, 1] ∧
      (runOrder (midEff (.raised (.exn 2)) 3 [c5, c4, c3, c2, c1])).filterMap Cb.raises =
        [.exn 0, .cancelled, .cancelled, .cancelled] ∧
      (runOrder (midEff (.raised (.exn 2)) 3 [c5, c4, c3, c2, c1])).map Cb.body =
        [[], [], [.current], [], [], []] := by
  intro c1 c2 c31 c3 c4 c5
  have he : midEff (.raised (.exn 2)) 3 [c5, c4, c3, c2, c1] =
      [c5, c4, Cb.mk 3 true true [.current] [Cb.mk 31 false true [] [] (some .cancelled)] (some .cancelled),
       Cb.mk 2 true true [] [] (some .cancelled), c1] := by
    rw [Mid.midEff_of_not_cancel _ _ _ rfl]
    simp only [c1, c2, c31, c3, c4, c5]
    rw [Mid.midStack_cons_miss 3 _ _ (by decide), Mid.midStack_cons_miss 3 _ _ (by decide),
      Mid.midStack_cons_hit]
    simp only [List.map_cons, List.map_nil, underCancel_sync, underCancel_async, if_true]
  have h : runOrder (midEff (.raised (.exn 2)) 3 [c5, c4, c3, c2, c1]) =
      [c5, c4, Cb.mk 3 true true [.current] [Cb.mk 31 false true [] [] (some .cancelled)] (some .cancelled),
       Cb.mk 31 false true [] [] (some .cancelled), Cb.mk 2 true true [] [] (some .cancelled), c1] := by
    rw [he]
    simp only [c1, c4, c5, runOrder_cons, runOrder_nil, List.reverse_nil,
      List.reverse_cons, List.nil_append, List.cons_append]
  rw [h]
  exact ⟨rfl, rfl, rfl⟩

end Asphalt
