/-
C06 / C04 (continued) — a factory registered for several types, looked up during start-up: the product is
generated once and stored under every pair of that factory that is still free (`SSt.genKeys`,
`SSt.lookup` in AsphaltModel/Startup.lean). Property theorems only.
-/
import AsphaltModel.Startup
import AsphaltProofs.Lemmas.Assoc
import AsphaltProofs.Lemmas.Startup
import AsphaltProofs.Lemmas.Startup2

namespace Asphalt

/-- A lookup served by a factory returns that factory's product and stores it under the requested pair … -/
theorem C06_multi_answers (s s' : SSt) (k : Key) (v : Val) (fid : Nat) (hres : alookup k s.res = none)
    (hfac : alookup k s.fac = some fid) (h : s.lookup k = some (v, s')) :
    v = .gen 0 fid 0 ∧ alookup k s'.res = some (.gen 0 fid 0) := by
  rcases St2.lookup_inv h with ⟨hv, _⟩ | ⟨_, fid', hf, hv, rfl⟩
  · rw [hres] at hv; cases hv
  · rw [hfac] at hf; cases hf
    refine ⟨hv, ?_⟩
    show alookup k (s.res ++ _) = _
    rw [St.alookup_gen_res, hres]
    simp only [if_pos (St.alookup_mem_pair hfac)]

/-- … and under every other pair the same factory was registered for, unless that pair is taken already:
one object for all the free types of the factory (C04_generates_all_types at the level of start-up). -/
theorem C06_multi_all_types (s s' : SSt) (k k' : Key) (v : Val) (fid : Nat) (hres : alookup k s.res = none)
    (hfac : alookup k s.fac = some fid) (hfac' : (k', fid) ∈ s.fac) (hfree : alookup k' s.res = none)
    (h : s.lookup k = some (v, s')) : alookup k' s'.res = some (.gen 0 fid 0) := by
  rcases St2.lookup_inv h with ⟨hv, _⟩ | ⟨_, fid', hf, _, rfl⟩
  · rw [hres] at hv; cases hv
  · rw [hfac] at hf; cases hf
    show alookup k' (s.res ++ _) = _
    rw [St.alookup_gen_res, hfree]
    simp only [if_pos hfac']

/-- Nothing that was registered is replaced, and nothing is stored under a pair of another factory. -/
theorem C06_multi_frame (s s' : SSt) (k k' : Key) (v : Val) (h : s.lookup k = some (v, s')) :
    (∀ w, alookup k' s.res = some w → alookup k' s'.res = some w) ∧
      (alookup k' s.res = none → (∀ fid, alookup k s.fac = some fid → (k', fid) ∉ s.fac) → alookup k' s'.res = none) ∧
      s'.fac = s.fac := by
  rcases St2.lookup_inv h with ⟨_, rfl⟩ | ⟨_, fid, hf, _, rfl⟩
  · exact ⟨fun _ hw => hw, fun hn _ => hn, rfl⟩
  · refine ⟨?_, ?_, rfl⟩
    · intro w hw
      show alookup k' (s.res ++ _) = _
      rw [St.alookup_gen_res, hw]
    · intro hn hno
      show alookup k' (s.res ++ _) = _
      rw [St.alookup_gen_res, hn]
      simp only [if_neg (hno fid hf)]

/-- Non-vacuity: a factory for (0,"n") and (1,"n"), with (1,"n") free: asking for (0,"n") fills both; with
(1,"n") taken by a resource it is left alone. -/
example :
    let s0 : SSt := { (SSt.init [] false) with fac := [(⟨0, "n"⟩, 7), (⟨1, "n"⟩, 7), (⟨2, "m"⟩, 8)] }
    let s1 : SSt := { s0 with res := [(⟨1, "n"⟩, .static 3)] }
    ((s0.lookup ⟨0, "n"⟩).map (fun r => r.2.res)) =
        some [(⟨0, "n"⟩, .gen 0 7 0), (⟨1, "n"⟩, .gen 0 7 0)] ∧
      ((s1.lookup ⟨0, "n"⟩).map (fun r => r.2.res)) =
        some [(⟨1, "n"⟩, .static 3), (⟨0, "n"⟩, .gen 0 7 0)] := by
  decide

end Asphalt
