/-
C15 — run_application: every ending tears down the root context and exits as documented.
`exitOf` is the decision table of `_run_application_async` + `sys.exit`; the teardown is the
kernel's (`runApp` runs the root context's life through `step`), so the C01 theorems apply.
-/
import AsphaltModel.Runner
import AsphaltProofs.Lemmas.Assoc
import AsphaltProofs.Lemmas.Teardown
import AsphaltProofs.Lemmas.Runner
import AsphaltProofs.Props.C01

namespace Asphalt

open Rn

/-! ### helpers (need `startsOf` / `endsOf` / `runOrder` of C01) -/

theorem startsOf_append (a b : List Out) : startsOf (a ++ b) = startsOf a ++ startsOf b := by
  induction a with
  | nil => rfl
  | cons o a ih => cases o <;> simp [startsOf, ih]

theorem endsOf_append (a b : List Out) : endsOf (a ++ b) = endsOf a ++ endsOf b := by
  induction a with
  | nil => rfl
  | cons o a ih => cases o <;> simp [endsOf, ih]

theorem startsOf_closed_outcome (be : BlockEnd) (r : Bool) (ch : List CtxId) (excs : List Exc) :
    startsOf [.closed, exitOutcome be r ch excs] = [] := by
  unfold exitOutcome
  repeat' split
  all_goals simp [startsOf]

theorem endsOf_closed_outcome (be : BlockEnd) (r : Bool) (ch : List CtxId) (excs : List Exc) :
    endsOf [.closed, exitOutcome be r ch excs] = [] := by
  unfold exitOutcome
  repeat' split
  all_goals simp [endsOf]

/-- Callbacks that register nothing run in stack order. -/
theorem runOrder_lateCbs (l : List (Nat × Bool)) (stack : List Cb) :
    runOrder (l.map lateCb ++ stack) = l.map lateCb ++ runOrder stack := by
  induction l with
  | nil => rfl
  | cons q l ih =>
    rw [List.map_cons, List.cons_append, lateCb, runOrder_cons, List.reverse_nil, List.nil_append, ih]
    rfl

/-- A stack of registered callbacks: each is followed by what it registers, last first. -/
theorem runOrder_regCbs (l : List RegSpec) :
    runOrder (l.map regCb) = l.flatMap fun r => regCb r :: (r.late.map lateCb).reverse := by
  induction l with
  | nil => exact runOrder_nil
  | cons r l ih =>
    rw [List.map_cons, List.flatMap_cons, regCb, runOrder_cons, ← List.map_reverse,
      runOrder_lateCbs, ih, List.map_reverse]
    rfl

/-- The run of the stack of `runApp`. -/
theorem runOrder_regs (regs : List RegSpec) :
    runOrder (regs.map regCb).reverse = expectedCbs regs := by
  rw [← List.map_reverse, runOrder_regCbs]
  rfl

theorem runApp_starts (c : RunCase) :
    startsOf (runApp c).1 =
      (expectedOrder c.regs).map fun r => (r.1, if r.2 then some (blockEndOf c.ending).exc else none) := by
  obtain ⟨x, excs, h⟩ := runApp_trace c
  rw [h, startsOf_append, startsOf_closed_outcome, List.append_nil, C01_lifo_and_argument,
    runOrder_regs, ← expectedCbs_key, List.map_map]
  rfl

theorem runApp_ends (c : RunCase) :
    endsOf (runApp c).1 = (expectedOrder c.regs).map (fun r => (r.1, none)) := by
  obtain ⟨x, excs, h⟩ := runApp_trace c
  rw [h, endsOf_append, endsOf_closed_outcome, List.append_nil, C01_all_finish,
    runOrder_regs, ← expectedCbs_key, List.map_map]
  apply List.map_congr_left
  intro cb hcb
  rw [expectedCbs_raises c.regs cb hcb]
  rfl

/-- Status 0 — run() returning None or 0, or a termination signal after start-up of a non-CLI
application — is a plain return. -/
theorem C15_exit_zero :
    exitOf (.cliReturn .none_) = .returned ∧ exitOf (.cliReturn (.int 0)) = .returned ∧
      exitOf .signalAfterStartup = .returned := by
  refine ⟨rfl, ?_, rfl⟩
  simp [exitOf, exitOfRunRes]

/-- A CLI result n in 1..127 is SystemExit(n). -/
theorem C15_exit_code (n : Int) (h1 : 1 ≤ n) (h2 : n ≤ 127) :
    exitOf (.cliReturn (.int n)) = .systemExit n.toNat := by
  have h0 : n ≠ 0 := by omega
  simp [exitOf, exitOfRunRes, h0, h2]
  omega

/-- An out-of-range or non-int run() result is SystemExit(1). -/
theorem C15_exit_invalid (n : Int) (h : n < 0 ∨ 127 < n) :
    exitOf (.cliReturn (.int n)) = .systemExit 1 ∧ exitOf (.cliReturn .other) = .systemExit 1 := by
  refine ⟨?_, rfl⟩
  have h0 : n ≠ 0 := by omega
  have h3 : ¬ (0 ≤ n ∧ n ≤ 127) := by omega
  simp [exitOf, exitOfRunRes, h0, h3]

/-- Start-up failure, start-up time-out and a signal during start-up are SystemExit(1). -/
theorem C15_exit_startup :
    exitOf .startupFail = .systemExit 1 ∧ exitOf .startupTimeout = .systemExit 1 ∧
      exitOf .signalDuringStartup = .systemExit 1 := by
  exact ⟨rfl, rfl, rfl⟩

/-- A crash after start-up propagates the original exception. -/
theorem C15_exit_crash (e : Nat) :
    exitOf (.cliRaise e) = .propagated e ∧ exitOf (.crashAfterStartup e) = .propagated e := by
  exact ⟨rfl, rfl⟩

/-- However the application ends, every teardown callback registered on the root context —
before or during the teardown — runs, in reverse order of registration (`expectedOrder`), each
receiving the block's exception iff it asked for it. -/
theorem C15_teardown (c : RunCase) :
    startsOf (runApp c).1 =
      (expectedOrder c.regs).map fun r => (r.1, if r.2 then some (blockEndOf c.ending).exc else none) := by
  exact runApp_starts c

/-- Exactly once each. -/
theorem C15_teardown_once (c : RunCase) :
    ((startsOf (runApp c).1).map Prod.fst).Perm
      (c.regs.flatMap fun r => r.id :: r.late.map Prod.fst) := by
  rw [runApp_starts, List.map_map]
  exact expectedOrder_ids_perm c.regs

/-- Every one of them runs to completion, and the root context reports itself closed, before
the exit is produced. -/
theorem C15_teardown_complete (c : RunCase) :
    endsOf (runApp c).1 = (expectedOrder c.regs).map (fun r => (r.1, none)) ∧ Out.closed ∈ (runApp c).1 := by
  refine ⟨runApp_ends c, ?_⟩
  obtain ⟨x, excs, h⟩ := runApp_trace c
  rw [h]
  simp

/-- The exit is the documented one, whatever was registered. -/
theorem C15_exit_independent (c : RunCase) : (runApp c).2 = exitOf c.ending := by
  rfl

/-- Non-vacuity: three callbacks, the second registering two more while it runs, run() raising. -/
example :
    let c : RunCase := ⟨[⟨1, true, []⟩, ⟨2, false, [(21, true), (22, false)]⟩, ⟨3, true, []⟩], .cliRaise 4⟩
    startsOf (runApp c).1 =
        [(3, some (some (.exn 4))), (2, none), (22, none), (21, some (some (.exn 4))), (1, some (some (.exn 4)))] ∧
      (runApp c).2 = .propagated 4 := by
  intro c
  refine ⟨?_, rfl⟩
  rw [C15_teardown]
  rfl

end Asphalt
