/-
C18 — resource_added announces every publication exactly once, on the right context.
`Ctx.events` is the ghost log of everything dispatched on a context's `resource_added`
signal; the `.ev c e` outputs of a step are what a listener on context `c` receives.
-/
import AsphaltModel.Context
import AsphaltProofs.Lemmas.Assoc
import AsphaltProofs.Lemmas.Scope
import AsphaltProofs.Props.C02

namespace Asphalt

/-- Events announced to listeners of context `c` by a list of outputs (including those
produced inside teardown callback bodies and by resumed lookups). -/
def evsOf (c : CtxId) : List Out → List REvent
  | [] => []
  | .ev c' e :: rest => if c' = c then e :: evsOf c rest else evsOf c rest
  | _ :: rest => evsOf c rest

/-- A non-event output contributes nothing. -/
theorem evsOf_cons_nonev (c : CtxId) (o : Out) (rest : List Out) (h : ∀ c' e, o ≠ .ev c' e) :
    evsOf c (o :: rest) = evsOf c rest := by
  cases o <;> first | rfl | exact absurd rfl (h _ _)

theorem evsOf_cons_ev (c c' : CtxId) (e : REvent) (rest : List Out) :
    evsOf c (.ev c' e :: rest) = if c' = c then e :: evsOf c rest else evsOf c rest := rfl

/-- For outputs of the lookup shape the log grows by exactly the events announced, at most one. -/
theorem LookupShape.log_sound {cid : CtxId} {x : Ctx} {r : Ctx × List Out}
    (h : LookupShape cid x r) :
    r.1.events = x.events ++ evsOf cid r.2 ∧ (evsOf cid r.2).length ≤ 1 := by
  rcases h with ⟨o, ho, h2, h1⟩ | ⟨o, e, ho, h2, h1⟩
  · rw [h2, h1, evsOf_cons_nonev cid o [] ho]; simp [evsOf]
  · rw [h2, h1, evsOf_cons_nonev cid o _ ho, evsOf_cons_ev, if_pos rfl]; simp [evsOf]

/-- `add_resource`: exactly one event on success — carrying the registered types, the name,
the description, and `is_factory = False` — and none otherwise. -/
theorem C18_add (cid : CtxId) (x : Ctx) (a : AddArgs) :
    ((ctxAdd cid x a).2 = [.ok, .ev cid ⟨addTypes a, a.name, a.desc, false⟩] ∧
      (ctxAdd cid x a).1.events = x.events ++ [⟨addTypes a, a.name, a.desc, false⟩]) ∨
    ((ctxAdd cid x a).1.events = x.events ∧ ∀ c e, Out.ev c e ∉ (ctxAdd cid x a).2) := by
  rcases ctxAdd_cases cid x a with ⟨o, ho, hne⟩ | ⟨v, _, ho⟩
  · right; rw [ho]
    exact ⟨rfl, fun c e hm => hne c e (List.mem_singleton.mp hm).symm⟩
  · left; rw [ho]; exact ⟨rfl, rfl⟩

/-- `add_resource_factory`: likewise, with `is_factory = True`. -/
theorem C18_add_factory (cid : CtxId) (x : Ctx) (a : FacArgs) :
    ((ctxAddFactory cid x a).2 = [.ok, .ev cid ⟨a.types, a.name, a.desc, true⟩] ∧
      (ctxAddFactory cid x a).1.events = x.events ++ [⟨a.types, a.name, a.desc, true⟩]) ∨
    ((ctxAddFactory cid x a).1.events = x.events ∧ ∀ c e, Out.ev c e ∉ (ctxAddFactory cid x a).2) := by
  rcases ctxAddFactory_cases cid x a with ⟨o, ho, hne⟩ | h
  · right; rw [ho]
    exact ⟨rfl, fun c e hm => hne c e (List.mem_singleton.mp hm).symm⟩
  · exact .inl h

/-- A lookup that merely returns an already existing resource dispatches nothing. -/
theorem C18_lookup_silent (cid : CtxId) (x : Ctx) (t : TaskId) (k : Key) (cont : Container)
    (opt : Bool) (hk : alookup k x.res = some cont) :
    (ctxGetNowait cid x k opt).1.events = x.events ∧ (ctxGet cid x t k opt).1.events = x.events ∧
      evsOf cid (ctxGetNowait cid x k opt).2 = [] ∧ evsOf cid (ctxGet cid x t k opt).2 = [] := by
  unfold ctxGetNowait ctxGet
  simp only [hk]
  split <;> exact ⟨rfl, rfl, rfl, rfl⟩

/-- A lookup through the sync API dispatches at most one event, and exactly the one for the
generated resource (types = the factory's types still free, the factory's name and
description, `is_factory = False`) when it generates. -/
theorem C18_generation (cid : CtxId) (x : Ctx) (k : Key) (opt : Bool) :
    (ctxGetNowait cid x k opt).1.events = x.events ++ evsOf cid (ctxGetNowait cid x k opt).2 ∧
      (evsOf cid (ctxGetNowait cid x k opt).2).length ≤ 1 := by
  exact (ctxGetNowait_shape cid x k opt).log_sound

/-- The log and the listener agree for every context-level operation of the async API too. -/
theorem C18_log_sound_get (cid : CtxId) (x : Ctx) (t : TaskId) (k : Key) (opt : Bool) :
    (ctxGet cid x t k opt).1.events = x.events ++ evsOf cid (ctxGet cid x t k opt).2 := by
  exact (ctxGet_shape cid x t k opt).log_sound.1

/-- The first generation's event carries exactly the types it was stored under. -/
theorem C18_generated_event (cid : CtxId) (x : Ctx) (f : Factory) (v : Val) :
    let free := f.types.filter fun t => !acontains ⟨t, f.name⟩ x.res
    (free ≠ [] → (storeGenerated cid x f v).2 = [.ev cid ⟨free, f.name, f.desc, false⟩] ∧
        (storeGenerated cid x f v).1.events = x.events ++ [⟨free, f.name, f.desc, false⟩]) ∧
    (free = [] → (storeGenerated cid x f v).2 = [] ∧ (storeGenerated cid x f v).1.events = x.events) := by
  intro free
  rcases storeGenerated_cases cid x f v with ⟨h0, h1, h2⟩ | ⟨h0, h1, h2⟩
  · exact ⟨fun hne => absurd h0 hne, fun _ => ⟨h1, h2⟩⟩
  · exact ⟨fun _ => ⟨h1, h2⟩, fun he => absurd he h0⟩

/-- On no other context: an operation leaves the event log of every context it does not work on
untouched (C02_frame on the `events` component). -/
theorem C18_elsewhere (w : World) (op : Op) (c : CtxId) (hc : opCtx w op ≠ some c) :
    ((step w op).1.ctx? c).map Ctx.events = (w.ctx? c).map Ctx.events := by
  have := congrArg (Option.map (fun p : _ × _ × List REvent × _ => p.2.2.1)) (C02_frame w op c hc)
  simpa [Option.map_map, Function.comp_def, Ctx.content] using this

/-- Events are announced only to the listeners of the context the operation works on. -/
theorem C18_outputs_local (w : World) (c d : CtxId) (a : AddArgs) (hne : c ≠ d) :
    evsOf d (step w (.add c a)).2 = [] := by
  simp only [step, onCtx]
  split
  · rfl
  · rename_i x hx
    rcases ctxAdd_cases c x a with ⟨o, ho, hne'⟩ | ⟨v, _, ho⟩
    · rw [ho]; exact evsOf_cons_nonev d o [] hne'
    · rw [ho]; simp [evsOf, hne]

/-- Non-vacuity: parent / child / sibling with one successful add, one conflicting add and one
generation in the child. -/
example :
    let a1 : AddArgs := ⟨[0], 0, "default", some 1, none, false, none, false⟩
    let fac : FacArgs := ⟨[1], "default", 3, none, false, false, 0, false⟩
    let ops : List Op := [.new 0 1 none, .enter 0 1, .addFactory 1 fac, .new 0 2 none, .new 0 3 none,
                          .enter 0 2, .add 2 a1, .add 2 a1, .getNowait 2 ⟨1, "default"⟩ false,
                          .getNowait 2 ⟨1, "default"⟩ false]
    let w := (run World.empty ops).1
    ((w.ctx? 1).map (fun x => x.events.length), (w.ctx? 2).map (fun x => x.events.length),
     (w.ctx? 3).map (fun x => x.events.length)) = (some 1, some 2, some 0) := by
  simp [run, step, onCtx, World.ctx?, World.setCtx, World.setCur, World.curOf, World.empty,
    alookup, ainsert, freshCtx, ctxAddFactory, ctxAdd, ctxGetNowait, callFactory, storeGenerated,
    storeAll, storeFac, addTypes, countOf, acontains, validName, isWordChar, CState.usable]

end Asphalt
