/-
C12 — the context of a service task / factory task, in the model's vocabulary: the new task is spawned by `t`
(`spawn`: it inherits `t`'s current context), creates a context of its own (`new … none`: the parent is what is
current for the creating task) and enters it.
-/
import AsphaltModel.Context
import AsphaltProofs.Lemmas.Assoc
import AsphaltProofs.Lemmas.Kernel

namespace Asphalt

private theorem curOf_setCur_same' (w : World) (t : TaskId) (v : Option CtxId) :
    (w.setCur t v).curOf t = v := by
  simp only [World.curOf, World.setCur, alookup_ainsert_same, Option.getD_some]

private theorem curOf_setCur_other' (w : World) (t t' : TaskId) (v : Option CtxId) (h : t' ≠ t) :
    (w.setCur t' v).curOf t = w.curOf t := by
  simp only [World.curOf, World.setCur, alookup_ainsert_other _ _ _ _ h]

/-- Entering an inactive context whose parent is not itself. -/
private theorem enter_fresh (w : World) (t : TaskId) (c : CtxId) (x : Ctx)
    (hx : w.ctx? c = some x) (hs : x.state = .inactive) (hp : x.parent ≠ some c) :
    (step w (.enter t c)).1.curOf t = some c ∧
      (step w (.enter t c)).1.ctx? c = some { x with state := .opened, token := some (w.curOf t) } ∧
      ∀ t'', t ≠ t'' → (step w (.enter t c)).1.curOf t'' = w.curOf t'' := by
  have hstep : ∃ w2 : World, (step w (.enter t c)).1 = w2.setCur t (some c) ∧
      w2.ctx? c = some { x with state := .opened, token := some (w.curOf t) } ∧
      ∀ t'', w2.curOf t'' = w.curOf t'' := by
    simp only [step, hx, hs, ne_eq, not_true_eq_false, if_false]
    cases hpar : x.parent with
    | none => exact ⟨_, rfl, World.ctx?_setCtx_same _ _ _, fun _ => rfl⟩
    | some p =>
      have hpc : p ≠ c := fun e => hp (by rw [hpar, e])
      simp only []
      split
      · exact ⟨_, rfl, World.ctx?_setCtx_same _ _ _, fun _ => rfl⟩
      · refine ⟨_, rfl, ?_, fun _ => rfl⟩
        rw [World.ctx?_setCtx_other _ _ _ _ hpc]
        exact World.ctx?_setCtx_same _ _ _
  obtain ⟨w2, he, hc, hcur⟩ := hstep
  rw [he]
  refine ⟨curOf_setCur_same' _ _ _, ?_, fun t'' hne => ?_⟩
  · rw [World.ctx?_setCur]; exact hc
  · rw [curOf_setCur_other' _ _ _ _ hne]; exact hcur t''

/-- The task's current context is then its own new context, whose parent is the context that was current for `t`
where the task was started; what is current for `t` has not changed. -/
theorem C12_task_own_context (w : World) (t t' : TaskId) (c : CtxId) (hne : t ≠ t')
    (hfresh : w.ctx? c = none) (hp : w.curOf t ≠ some c) :
    let w1 := (step w (.spawn t t')).1
    let w2 := (step w1 (.new t' c none)).1
    let w3 := (step w2 (.enter t' c)).1
    w3.curOf t' = some c ∧ (w3.ctx? c).map Ctx.parent = some (w.curOf t) ∧
      (w3.ctx? c).map Ctx.state = some .opened ∧ w3.curOf t = w.curOf t := by
  intro w1 w2 w3
  have h1c : w1.ctx? c = none := hfresh
  have h1cur : w1.curOf t' = w.curOf t := curOf_setCur_same' _ _ _
  have h1t : w1.curOf t = w.curOf t := curOf_setCur_other' _ _ _ _ hne.symm
  have h2 : w2 = w1.setCtx c (freshCtx (w.curOf t) ((w.curOf t).bind w1.ctx?)) := by
    simp only [w2, step, h1c, h1cur]
  have h2c : w2.ctx? c = some (freshCtx (w.curOf t) ((w.curOf t).bind w1.ctx?)) := by
    rw [h2]; exact World.ctx?_setCtx_same _ _ _
  have h2t : w2.curOf t = w.curOf t := by rw [h2]; exact h1t
  obtain ⟨ha, hb, hc⟩ := enter_fresh w2 t' c _ h2c rfl hp
  refine ⟨ha, ?_, ?_, ?_⟩
  · rw [hb]; rfl
  · rw [hb]; rfl
  · rw [hc t hne.symm]; exact h2t

/-- … and with an explicit parent (`Context(ctx)`, what `start_service_task` on another context than the current one
does) the parent is that context, whatever is current. -/
theorem C12_task_explicit_parent (w : World) (t' : TaskId) (c p : CtxId) (hfresh : w.ctx? c = none) (hpc : p ≠ c) :
    let w2 := (step w (.new t' c (some p))).1
    let w3 := (step w2 (.enter t' c)).1
    w3.curOf t' = some c ∧ (w3.ctx? c).map Ctx.parent = some (some p) := by
  intro w2 w3
  have h2 : w2 = w.setCtx c (freshCtx (some p) (w.ctx? p)) := by
    simp only [w2, step, hfresh, Option.bind_some]
  have h2c : w2.ctx? c = some (freshCtx (some p) (w.ctx? p)) := by
    rw [h2]; exact World.ctx?_setCtx_same _ _ _
  obtain ⟨ha, hb, _⟩ := enter_fresh w2 t' c _ h2c rfl (fun e => hpc (Option.some.inj e))
  exact ⟨ha, by rw [hb]; rfl⟩

/-- Non-vacuity: task 0 inside context 1 starts task 1, which runs in its own context 2 - a child of 1. -/
example :
    let ops : List Op := [.new 0 1 none, .enter 0 1, .spawn 0 1, .new 1 2 none, .enter 1 2, .current 1, .parentOf 2, .current 0]
    (run World.empty ops).2.drop 5 = [[.cur (some 2)], [.parent (some 1)], [.cur (some 1)]] := by
  rfl

end Asphalt
