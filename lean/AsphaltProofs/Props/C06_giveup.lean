/-
C06, continued — a wait that its caller gives up (`AsphaltModel/WaiterGiveUp.lean`) leaves nothing behind:
the component is unsubscribed, a later request starts afresh, and the guarantees of the protocol (no lost,
no false wake-up) hold in every state the extended machine can reach - any interleaving of requests,
publications, waiter steps and give-ups. Harness: three ticks in ten of the start-up scripts are such waits
(evidence `bounded_wait_given_up`); the tie is through those runs only (partial, like the Waiter model's).
Property theorems only.
-/
import AsphaltModel.WaiterGiveUp
import AsphaltProofs.Props.C06

namespace Asphalt

theorem wstep2_cap (s : WSt) (op : WOp2) : (wstep2 s op).cap = s.cap := by
  cases op with
  | base op => exact wstep_cap s op
  | giveUp =>
    obtain ⟨present, phase, buf, handed, cap⟩ := s
    cases phase <;> rfl

theorem winv_step2 (s : WSt) (op : WOp2) (hcap : 0 < s.cap) (h : WInvariant s) : WInvariant (wstep2 s op) := by
  cases op with
  | base op => exact winv_step s op hcap h
  | giveUp =>
    obtain ⟨present, phase, buf, handed, cap⟩ := s
    simp only [WInvariant] at h hcap ⊢
    cases phase <;> simp_all [wstep2]

theorem winv_run2 (s : WSt) (ops : List WOp2) (hcap : 0 < s.cap) (h : WInvariant s) :
    WInvariant (wrun2 s ops) := by
  induction ops generalizing s with
  | nil => exact h
  | cons op ops ih => exact ih _ (by rw [wstep2_cap]; exact hcap) (winv_step2 s op hcap h)

/-- The protocol invariant holds in every state reachable with give-ups. -/
theorem C06_giveup_invariant (cap : Nat) (hcap : 0 < cap) (p0 : Bool) (ops : List WOp2) :
    WInvariant (wrun2 (WSt.init cap p0) ops) :=
  winv_run2 _ ops hcap (winv_init cap p0)

/-- Giving a wait up puts the component back where it was before it asked: not subscribed, nothing queued,
nothing handed over - a fresh waiter in a context that has what it has. -/
theorem C06_giveup_fresh (s : WSt) (h : s.phase = .armed ∨ s.phase = .waiting) :
    wstep2 s .giveUp = WSt.init s.cap s.present := by
  obtain ⟨present, phase, buf, handed, cap⟩ := s
  rcases h with h | h <;> simp only at h <;> subst h <;> rfl

/-- … so whatever happens afterwards is what would have happened to a component that asks for the first
time: the history before the give-up is forgotten. -/
theorem C06_giveup_forgets (s : WSt) (h : s.phase = .armed ∨ s.phase = .waiting) (ops : List WOp2) :
    wrun2 s (.giveUp :: ops) = wrun2 (WSt.init s.cap s.present) ops := by
  rw [wrun2, C06_giveup_fresh s h]

/-- A component that is not waiting has nothing to give up. -/
theorem C06_giveup_noop (s : WSt) (h : s.phase = .idle ∨ s.phase = .done) : wstep2 s .giveUp = s := by
  obtain ⟨present, phase, buf, handed, cap⟩ := s
  rcases h with h | h <;> simp only at h <;> subst h <;> rfl

/-- After a give-up, publications reach the table and nothing else: the component is not subscribed, nothing
is queued for it, and the publisher is not affected by the stream that was closed. -/
theorem C06_giveup_publish (s : WSt) (h : s.phase = .armed ∨ s.phase = .waiting) (m : Bool) :
    wstep2 (wstep2 s .giveUp) (.base (.publish m)) = WSt.init s.cap (s.present || m) := by
  rw [C06_giveup_fresh s h]
  rfl

/-- No lost wake-up, with give-ups: in every reachable state where the resource is there and the waiter has
asked (again) but not returned, the waiter is runnable and running it makes it return. -/
theorem C06_giveup_no_lost (cap : Nat) (hcap : 0 < cap) (p0 : Bool) (ops : List WOp2) :
    let s := wrun2 (WSt.init cap p0) ops
    s.present = true → (s.phase = .armed ∨ s.phase = .waiting) →
      s.runnable = true ∧ (wstep2 s (.base .run)).phase = .done := by
  intro s hp hph
  exact wno_lost s (C06_giveup_invariant cap hcap p0 ops) hp hph

theorem wdone_step2 (s : WSt) (op : WOp2) (h : s.phase = .done → s.present = true) :
    (wstep2 s op).phase = .done → (wstep2 s op).present = true := by
  obtain ⟨present, phase, buf, handed, cap⟩ := s
  cases op with
  | base op =>
    cases op <;> cases phase <;> cases present <;> simp_all [wstep2, wstep] <;> (repeat' split) <;> simp_all
  | giveUp => cases phase <;> simp_all [wstep2]

/-- No false wake-up, with give-ups: the waiter returns only when the resource is there. -/
theorem C06_giveup_no_false (cap : Nat) (p0 : Bool) (ops : List WOp2) :
    (wrun2 (WSt.init cap p0) ops).phase = .done → (wrun2 (WSt.init cap p0) ops).present = true := by
  suffices h : ∀ (s : WSt), (s.phase = .done → s.present = true) →
      (wrun2 s ops).phase = .done → (wrun2 s ops).present = true from h _ (by simp [WSt.init])
  induction ops with
  | nil => intro s h; exact h
  | cons op ops ih => intro s h; exact ih _ (wdone_step2 s op h)

/-- Non-vacuity (the C06-p history): the component asks, gives up while blocked, a resource it does not want
is published, it asks again, the wanted one is published while it is at its checkpoint: it returns. -/
example :
    let ops : List WOp2 := [.base .request, .base .run, .giveUp, .base (.publish false), .base .request,
      .base (.publish true), .base .run]
    (wrun2 (WSt.init 50 false) [.base .request, .base .run]).phase = .waiting ∧
      (wrun2 (WSt.init 50 false) ops).phase = .done := by
  decide

end Asphalt
