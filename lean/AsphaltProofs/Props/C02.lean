/-
C02 — resources are scoped to the context tree: snapshot down, nothing up or sideways.
-/
import AsphaltModel.Context
import AsphaltProofs.Lemmas.Assoc
import AsphaltProofs.Lemmas.Scope

namespace Asphalt

/-- The context whose tables, event log and teardown stack an operation may modify
(`new` creates it; `inject` works on the caller's current context). -/
def opCtx (w : World) : Op → Option CtxId
  | .new _ c _ => some c
  | .enter _ c => some c
  | .exit _ c _ => some c
  | .exitMid _ c _ _ => some c
  | .add c _ => some c
  | .addFactory c _ => some c
  | .getNowait c _ _ => some c
  | .get _ c _ _ => some c
  | .genFinish c _ _ => some c
  | .cancelGet c _ _ => some c
  | .addTeardown c _ _ => some c
  | .inject t _ _ _ => w.curOf t
  | _ => none

/-- What is visible through a context, and what it will do at teardown. -/
def Ctx.content (x : Ctx) : List (Key × Container) × List (Key × Factory) × List REvent × List Cb :=
  (x.res, x.fac, x.events, x.tds)

/-- A new context starts with exactly the static (non-generated) resources and the resource
factories of its parent — the explicit one, else the creating task's current context — as
they are at that moment; a root context starts empty. -/
theorem C02_snapshot (w : World) (t : TaskId) (c : CtxId) (parent : Option CtxId)
    (hfresh : w.ctx? c = none) :
    let p := match parent with | some p => some p | none => w.curOf t
    ∃ x, (step w (.new t c parent)).1.ctx? c = some x ∧ x.parent = p ∧ x.state = .inactive ∧
      x.res = (match p.bind w.ctx? with
               | some px => px.res.filter (fun kc => !kc.2.generated) | none => []) ∧
      x.fac = (match p.bind w.ctx? with | some px => px.fac | none => []) := by
  simp only [step, hfresh]
  exact ⟨_, ctx?_setCtx_same _ _ _, rfl, rfl, rfl, rfl⟩

/-- Frame: an operation changes the content of no context other than the one it works on —
nothing added to a context ever becomes visible in its parent, its children (created
before), its siblings or unrelated contexts, and nothing added to a parent after a child
was created shows up in the child. -/
theorem C02_frame (w : World) (op : Op) (c : CtxId) (hc : opCtx w op ≠ some c) :
    ((step w op).1.ctx? c).map Ctx.content = (w.ctx? c).map Ctx.content := by
  have hco : ∀ {o o' : Option Ctx}, ChildrenOnly o o' → o'.map Ctx.content = o.map Ctx.content :=
    fun h => h.map_eq Ctx.content (fun _ _ => rfl)
  cases op with
  | new t c' parent => rw [step_new_frame w t c' parent c (fun e => hc (by rw [opCtx, e]))]
  | enter t c' => exact hco (step_enter_frame w t c' c (fun e => hc (by rw [opCtx, e])))
  | exit t c' be => exact hco (step_exit_frame w t c' be c (fun e => hc (by rw [opCtx, e])))
  | exitMid t c' be k => exact hco (step_exitMid_frame w t c' be k c (fun e => hc (by rw [opCtx, e])))
  | add c' a => rw [step, onCtx_frame w c c' _ (fun e => hc (by rw [opCtx, e]))]
  | addFactory c' a => rw [step, onCtx_frame w c c' _ (fun e => hc (by rw [opCtx, e]))]
  | getNowait c' k opt => rw [step, onCtx_frame w c c' _ (fun e => hc (by rw [opCtx, e]))]
  | get t c' k opt => rw [step, onCtx_frame w c c' _ (fun e => hc (by rw [opCtx, e]))]
  | genFinish c' fid next => rw [step, onCtx_frame w c c' _ (fun e => hc (by rw [opCtx, e]))]
  | cancelGet c' lid next => rw [step, onCtx_frame w c c' _ (fun e => hc (by rw [opCtx, e]))]
  | getAll c' ty => simp only [step]; split <;> rfl
  | addTeardown c' cb callable => rw [step, onCtx_frame w c c' _ (fun e => hc (by rw [opCtx, e]))]
  | current t => simp only [step]; split <;> rfl
  | parentOf c' => simp only [step]; split <;> rfl
  | spawn t t' => rfl
  | stateOf c' => simp only [step]; split <;> rfl
  | inject t isAsync deps badUnion => rw [step_inject_frame w t isAsync deps badUnion c hc]
  | decorate ps => simp only [step]; split <;> rfl

/-- Hence over any history: the content of `c` is untouched by all operations that work on
other contexts. -/
theorem C02_frame_run (w : World) (ops : List Op) (c : CtxId)
    (hc : ∀ op ∈ ops, ∀ w', opCtx w' op ≠ some c) :
    ((run w ops).1.ctx? c).map Ctx.content = (w.ctx? c).map Ctx.content := by
  induction ops generalizing w with
  | nil => rfl
  | cons op ops ih =>
    rw [run]
    show ((run (step w op).1 ops).1.ctx? c).map Ctx.content = _
    rw [ih _ (fun op' h' => hc op' (List.mem_cons_of_mem _ h'))]
    exact C02_frame w op c (hc op List.mem_cons_self w)

/-- The snapshot is by value: a resource present in the parent when the child was created is
visible in the child under the same pair (the parent's table being functional, see
C03_functional) … -/
theorem C02_inherits_static (px : Ctx) (p : CtxId) (k : Key) (cont : Container)
    (hnd : NoDupKeys px.res) (hk : alookup k px.res = some cont) (hg : cont.generated = false) :
    alookup k (freshCtx (some p) (some px)).res = some cont := by
  have _ := hnd  -- not needed: the first match survives the filter
  exact alookup_filter_some _ k cont px.res hk (by simp [hg])

/-- … and a pair absent from the parent is absent from the new child. -/
theorem C02_inherits_nothing_else (px : Ctx) (p : CtxId) (k : Key)
    (hk : alookup k px.res = none) :
    alookup k (freshCtx (some p) (some px)).res = none := by
  exact alookup_filter_none _ k px.res hk

/-- Well-formedness of a resource table: every entry sits under its own name and one of its own
types, and a container is registered under all of its types. -/
def ResWF (res : List (Key × Container)) : Prop :=
  ∀ k cont, alookup k res = some cont →
    cont.name = k.name ∧ k.ty ∈ cont.types ∧
      ∀ t ∈ cont.types, alookup ⟨t, cont.name⟩ res = some cont

theorem C02_reswf (w : World) (hr : Reachable w) (c : CtxId) (x : Ctx) (hx : w.ctx? c = some x) :
    ResWF x.res := by
  exact (WorldOK_reachable w hr c x hx).2

/-- All lookup paths agree on the visible set: `get_resources(type)` lists exactly the pairs of
that type which `get_resource_nowait` / `get_resource` answer from the table. -/
theorem C02_get_all_agrees (x : Ctx) (hnd : NoDupKeys x.res) (hwf : ResWF x.res) (ty : TypeId)
    (n : String) (v : Val) :
    alookup n (ctxGetAll x ty) = some v ↔
      ∃ cont, alookup ⟨ty, n⟩ x.res = some cont ∧ cont.val = v := by
  exact getAll_agrees x ⟨hnd, hwf⟩ ty n v

/-- Non-vacuity: a three-level tree with a factory added to the middle context: visible in the
leaf created afterwards, not in the root, not in the leaf created before. -/
example :
    let fac : FacArgs := ⟨[0], "default", 3, none, false, false, 0, false⟩
    let ops : List Op := [.new 0 1 none, .enter 0 1, .new 0 2 none, .enter 0 2,
                          .new 0 3 none, .addFactory 2 fac, .new 0 4 none]
    let w := (run World.empty ops).1
    ((w.ctx? 1).map (fun x => x.fac.length), (w.ctx? 3).map (fun x => x.fac.length),
     (w.ctx? 4).map (fun x => x.fac.length)) = (some 0, some 0, some 1) := by
  simp [run, step, onCtx, World.ctx?, World.setCtx, World.setCur, World.curOf, World.empty,
    alookup, ainsert, freshCtx, ctxAddFactory, storeFac, acontains, validName, isWordChar]

end Asphalt
