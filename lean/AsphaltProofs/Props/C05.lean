/-
C05 — component trees start in order: construct all, prepare, children, then start.
Theorems over every run of the start-up LTS (AsphaltModel/Startup.lean): `Exec (SSt.init …)`
ranges over all label sequences the system accepts, i.e. over every interleaving the event
loop may choose. `s.hist` is the ghost list of the labels so far, so "label ∈ s.hist" in a
hypothesis `step? s l = some s'` means "happened strictly before l".
-/
import AsphaltModel.Startup
import AsphaltProofs.Lemmas.Assoc
import AsphaltProofs.Lemmas.Startup

namespace Asphalt
open St

/-- States reachable by some run of the program. -/
def SReach (prog : List CompSpec) (to : Bool) (s : SSt) : Prop :=
  ∃ ls, Exec (SSt.init prog to) ls s

/-- Reachable states satisfy the bundled invariant of Lemmas/Startup.lean. -/
theorem SReach.inv {prog : List CompSpec} {to : Bool} {s : SSt} (h : SReach prog to s) :
    Inv prog to s := by
  obtain ⟨ls, h⟩ := h
  exact inv_of_exec h

/-- The ghost history is the run. -/
theorem C05_hist (prog : List CompSpec) (to : Bool) (ls : List Lab) (s : SSt)
    (h : Exec (SSt.init prog to) ls s) : s.hist = ls ∧ s.prog = prog := by
  refine ⟨?_, (inv_of_exec h).prog_eq⟩
  have := exec_hist h
  simpa [SSt.init] using this

/-- Constructors run one after the other in pre-order (= index order), before anything else:
the construct labels of any run are 0, 1, 2, … and no prepare()/start() begins before the
whole hierarchy has been instantiated. -/
theorem C05_construct_first (s s' : SSt) (i : Nat) :
    (step? s (.construct i) = some s' → i = s.constructed ∧ s'.constructed = i + 1) ∧
    (step? s (.prepBegin i) = some s' → s.allConstructed = true) ∧
    (step? s (.startBegin i) = some s' → s.allConstructed = true) := by
  refine ⟨fun h => ?_, fun h => ?_, fun h => ?_⟩
  · obtain ⟨c, _, _, _, hi, _, rfl⟩ := step?_construct h
    exact ⟨hi, by simp [hi]⟩
  · obtain ⟨c, n, acts, _, _, _, _, _, hall, _⟩ := step?_prepBegin h
    exact hall
  · obtain ⟨c, n, acts, _, _, _, _, _, hall, _⟩ := step?_startBegin h
    exact hall

theorem C05_construct_order (prog : List CompSpec) (to : Bool) (s : SSt) (h : SReach prog to s) :
    (s.hist.filterMap fun l => match l with | .construct i => some i | _ => none) =
      List.range s.constructed ∧ s.constructed ≤ prog.length := by
  have hi := h.inv
  exact ⟨hi.ctor, hi.ctor_le⟩

/-- prepare() of a component completes before any of its children begin (prepare or start). -/
theorem C05_prepare_first (prog : List CompSpec) (to : Bool) (s s' : SSt) (h : SReach prog to s)
    (i p : Nat) (c pc : CompSpec) (hc : prog[i]? = some c) (hp : c.parent = some p)
    (hpc : prog[p]? = some pc) (hprep : pc.prepare ≠ none)
    (hstep : step? s (.prepBegin i) = some s' ∨ step? s (.startBegin i) = some s') :
    Lab.prepEnd p ∈ s.hist := by
  have hi := h.inv
  have hreach : s.reached s.fuel i = true := by
    rcases hstep with hs | hs
    · obtain ⟨_, _, _, _, _, _, _, _, _, _, hr, _⟩ := step?_prepBegin hs
      exact hr
    · obtain ⟨_, _, _, _, _, _, _, _, _, _, _, hr, _⟩ := step?_startBegin hs
      exact hr
  unfold SSt.fuel at hreach
  obtain ⟨c', hc', hpar⟩ := reached_succ.mp hreach
  rw [hi.prog_eq, hc] at hc'
  cases hc'
  rcases hpar with hnone | ⟨p', hp', hpf, _⟩
  · rw [hp] at hnone; cases hnone
  · rw [hp] at hp'
    cases hp'
    obtain ⟨pc', hpc', _, hd⟩ := prepFinished_iff.mp hpf
    rw [hi.prog_eq, hpc] at hpc'
    cases hpc'
    rcases hd with hd | hd
    · exact absurd hd hprep
    · exact (hi.prep p).end_mem_iff.mpr hd

/-- A component's own prepare() has returned before its start() is called. -/
theorem C05_own_prepare_first (prog : List CompSpec) (to : Bool) (s s' : SSt) (h : SReach prog to s)
    (i : Nat) (c : CompSpec) (hc : prog[i]? = some c) (hprep : c.prepare ≠ none)
    (hstep : step? s (.startBegin i) = some s') : Lab.prepEnd i ∈ s.hist := by
  have hi := h.inv
  obtain ⟨_, _, _, _, _, _, _, _, _, _, hpf, _⟩ := step?_startBegin hstep
  obtain ⟨c', hc', _, hd⟩ := prepFinished_iff.mp hpf
  rw [hi.prog_eq, hc] at hc'
  cases hc'
  rcases hd with hd | hd
  · exact absurd hd hprep
  · exact (hi.prep i).end_mem_iff.mpr hd

/-- start() of a component is called only after start() (and prepare()) of every descendant has
returned. -/
theorem C05_start_last (prog : List CompSpec) (to : Bool) (s s' : SSt) (h : SReach prog to s)
    (hwf : wfProg prog = true) (i d : Nat) (dc : CompSpec) (hd : Desc prog d i) (hdc : prog[d]? = some dc)
    (hstep : step? s (.startBegin i) = some s') :
    (dc.start ≠ none → Lab.startEnd d ∈ s.hist) ∧ (dc.prepare ≠ none → Lab.prepEnd d ∈ s.hist) := by
  have _ := hwf  -- not needed: `Desc` already follows the children lists
  have hi := h.inv
  obtain ⟨c, n, acts, _, hc, _, _, _, _, _, _, _, hall, _⟩ := step?_startBegin hstep
  rw [List.all_eq_true] at hall
  obtain ⟨f', hsd⟩ := subtreeDone_desc hi.prog_eq hd s.fuel c (by rw [← hi.prog_eq]; exact hc) hall
  obtain ⟨hpf, hsf⟩ := subtreeDone_fin hsd
  constructor
  · intro hne
    obtain ⟨c', hc', _, hdone⟩ := startFinished_iff.mp hsf
    rw [hi.prog_eq, hdc] at hc'
    cases hc'
    rcases hdone with hdone | hdone
    · exact absurd hdone hne
    · exact (hi.start d).end_mem_iff.mpr hdone
  · intro hne
    obtain ⟨c', hc', _, hdone⟩ := prepFinished_iff.mp hpf
    rw [hi.prog_eq, hdc] at hc'
    cases hc'
    rcases hdone with hdone | hdone
    · exact absurd hdone hne
    · exact (hi.prep d).end_mem_iff.mpr hdone

/-- Each of the four method events of a component happens at most once in any run. -/
theorem C05_at_most_once (prog : List CompSpec) (to : Bool) (s : SSt) (h : SReach prog to s) (i : Nat) :
    s.hist.count (.prepBegin i) ≤ 1 ∧ s.hist.count (.prepEnd i) ≤ 1 ∧
      s.hist.count (.startBegin i) ≤ 1 ∧ s.hist.count (.startEnd i) ≤ 1 := by
  have hi := h.inv
  exact ⟨(hi.prep i).begin_le, (hi.prep i).end_le, (hi.start i).begin_le, (hi.start i).end_le⟩

/-- Begin before end, and the actions of a phase only between them. -/
theorem C05_bracketed (prog : List CompSpec) (to : Bool) (s s' : SSt) (h : SReach prog to s) (i : Nat) :
    (step? s (.prepEnd i) = some s' → Lab.prepBegin i ∈ s.hist) ∧
    (step? s (.startEnd i) = some s' → Lab.startBegin i ∈ s.hist) := by
  have hi := h.inv
  constructor
  · intro hs
    obtain ⟨n, _, hn, _, hrun, _⟩ := step?_prepEnd hs
    refine (hi.prep i).begin_mem_iff.mpr ?_
    rw [prepL_of_getElem? hn, hrun]
    simp
  · intro hs
    obtain ⟨n, _, hn, _, hrun, _⟩ := step?_startEnd hs
    refine (hi.start i).begin_mem_iff.mpr ?_
    rw [startL_of_getElem? hn, hrun]
    simp

/-- start_component returns only after the whole tree has finished: in particular after the
root's start() has returned, and every overridden prepare()/start() has run exactly once. -/
theorem C05_return_last (prog : List CompSpec) (to : Bool) (s s' : SSt) (h : SReach prog to s)
    (hwf : wfProg prog = true) (hstep : step? s .returned = some s') (i : Nat) (c : CompSpec)
    (hc : prog[i]? = some c) :
    (c.prepare ≠ none → s.hist.count (.prepBegin i) = 1 ∧ s.hist.count (.prepEnd i) = 1) ∧
    (c.start ≠ none → s.hist.count (.startBegin i) = 1 ∧ s.hist.count (.startEnd i) = 1) := by
  have hi := h.inv
  obtain ⟨_, _, _, hroot, _⟩ := step?_returned hstep
  have hlt : i < prog.length := (List.getElem?_eq_some_iff.mp hc).1
  have hsd : ∃ f', s.subtreeDone f' i = true := by
    rcases wf_desc_root hwf hlt with rfl | hd
    · exact ⟨_, hroot⟩
    · exact subtreeDone_desc_self hi.prog_eq hd hroot
  obtain ⟨f', hsd⟩ := hsd
  obtain ⟨hpf, hsf⟩ := subtreeDone_fin hsd
  constructor
  · intro hne
    obtain ⟨c', hc', _, hdone⟩ := prepFinished_iff.mp hpf
    rw [hi.prog_eq, hc] at hc'
    cases hc'
    rcases hdone with hdone | hdone
    · exact absurd hdone hne
    · exact (hi.prep i).count_of_done hdone
  · intro hne
    obtain ⟨c', hc', _, hdone⟩ := startFinished_iff.mp hsf
    rw [hi.prog_eq, hc] at hc'
    cases hc'
    rcases hdone with hdone | hdone
    · exact absurd hdone hne
    · exact (hi.start i).count_of_done hdone

/-- After start_component has returned (or raised) no start-up work happens any more: the only
things left are the teardown callbacks of the surrounding context. -/
theorem C05_nothing_after_return (s s' : SSt) (l : Lab) (hrep : s.reported = true)
    (hstep : step? s l = some s') : (∃ id, l = .tdRun id) ∨ l = .instantOver := by
  cases Step.of_step? hstep
  case tdRun => exact .inl ⟨_, rfl⟩
  case instantOver => exact .inr rfl
  all_goals simp_all

/-- Ownership: what components publish lands in the surrounding context, under the name the
alias rule gives (C14), and stays there … -/
theorem C05_publish_lands (s s' : SSt) (i : Nat) (ty : TypeId) (name : String) (v : Nat)
    (hstep : step? s (.pub i ty name v) = some s') :
    ∃ c ph, s.spec? i = some c ∧ (∃ rest b, s.current i = some (ph, rest, b)) ∧
      alookup ⟨ty, publishName (phaseOf ph) c.dflt name⟩ s'.res = some (.static v) := by
  obtain ⟨c, ph, rest, _, hc, hcur, _, hfree, rfl⟩ := step?_pub hstep
  refine ⟨c, ph, hc, ⟨_, _, hcur⟩, ?_⟩
  have hnone : alookup (⟨ty, publishName (phaseOf ph) c.dflt name⟩ : Key) s.res = none := by
    simpa [acontains] using hfree
  simp [alookup_append, hnone, alookup_cons]

theorem C05_resources_stay (s s' : SSt) (l : Lab) (k : Key) (v : Val)
    (hk : alookup k s.res = some v) (hstep : step? s l = some s') : alookup k s'.res = some v := by
  obtain ⟨ext, he⟩ := step?_res hstep
  rw [he, alookup_append, hk]
  rfl

/-- … and teardown callbacks registered by components are on the surrounding context's stack
in registration order, and run last-registered-first when that context is left. -/
theorem C05_teardown_owned (prog : List CompSpec) (to : Bool) (s : SSt) (h : SReach prog to s)
    (hrep : s.reported = false) :
    s.tds = (s.hist.filterMap fun l => match l with | .regTd _ id => some id | _ => none).reverse := by
  exact h.inv.tds hrep

theorem C05_teardown_lifo (s s' : SSt) (id : Nat) (hstep : step? s (.tdRun id) = some s') :
    s.reported = true ∧ s.tds = id :: s'.tds := by
  obtain ⟨hr, rest, ht, rfl⟩ := step?_tdRun hstep
  exact ⟨hr, ht⟩

/-- Non-vacuity: the shape of docs/userguide/snippets/components1.py plus a grandchild that waits
for an uncle's resource: this run is accepted and returns. -/
example :
    let prog : List CompSpec := [
      ⟨"", none, 0, false, "default", none, some [], [1, 3]⟩,
      ⟨"a", some 0, 1, false, "default", some [.tick 1], some [], [2]⟩,
      ⟨"a.g", some 1, 2, false, "default", none, some [.await 0 "r"], []⟩,
      ⟨"b", some 0, 3, false, "default", none, some [.tick 2, .publish 0 "r" 7], []⟩]
    let tr : List Lab := [.construct 0, .construct 1, .construct 2, .construct 3,
      .prepBegin 1, .startBegin 3, .tick 1, .prepEnd 1, .startBegin 2, .req 2 ⟨0, "r"⟩,
      .tick 3, .pub 3 0 "r" 7, .startEnd 3, .got 2 ⟨0, "r"⟩ (.static 7), .startEnd 2,
      .startBegin 1, .startEnd 1, .startBegin 0, .startEnd 0, .returned]
    (match accept (SSt.init prog true) tr 0 with
     | .ok s => s.result == some .returned
     | .error _ => false) = true := by
  decide

end Asphalt
