/-
C04 — lookups awaited by teardown callbacks (`BodyOp.get`) return what the context already holds without calling
a factory again; a first generation made there is stored like any other.
-/
import AsphaltModel.Context
import AsphaltProofs.Lemmas.Assoc
import AsphaltProofs.Lemmas.Kernel
import AsphaltProofs.Lemmas.Kernel2
import AsphaltProofs.Lemmas.GetNow

namespace Asphalt

/-- C04 inside teardown: what the context holds under the key (generated earlier, say) is what the callback
gets; no factory is called and nothing changes. -/
theorem C04_body_get_existing (cid : CtxId) (cur : Option CtxId) (x : Ctx) (ty : TypeId) (name : String)
    (opt : Bool) (cont : Container) (hs : x.state.usable = true)
    (h : alookup ⟨ty, name⟩ x.res = some cont) :
    runBodyOp cid cur x (.get ty name opt) = (x, [.val cont.val]) := by
  show ctxGetNow cid x ⟨ty, name⟩ opt = _
  unfold ctxGetNow
  simp [hs, h]

/-- C04 inside teardown: a first generation made by a callback's awaited lookup (an asynchronous factory that
does not suspend, or a synchronous one) stores the object under the requested key, so that a second lookup of
either kind in the same teardown returns the same object without another call. -/
theorem C04_body_get_then_same (cid : CtxId) (cur : Option CtxId) (x : Ctx) (ty : TypeId) (name : String)
    (opt opt' : Bool) (f : Factory) (hs : x.state.usable = true)
    (hmiss : alookup ⟨ty, name⟩ x.res = none) (hf : alookup ⟨ty, name⟩ x.fac = some f)
    (hname : f.name = name) (hty : ty ∈ f.types)
    (hnp : x.pending.find? (fun p => p.fid = f.fid) = none) (hng : (f.isAsync && f.gated) = false)
    (hok : f.failFirst ≤ countOf f.fid x.callCount) :
    let v := Val.gen cid f.fid (countOf f.fid x.callCount)
    let x' := (runBodyOp cid cur x (.get ty name opt)).1
    (runBodyOp cid cur x (.get ty name opt)).2.head? = some (.val v) ∧
    runBodyOp cid cur x' (.get ty name opt') = (x', [.val v]) ∧
    (f.isAsync = false → runBodyOp cid cur x' (.getNowait ty name opt') = (x', [.val v])) := by
  intro v x'
  obtain ⟨h1, h2, cont, h3, h4⟩ := K2.ctxGetNow_generates cid x ty name opt f hs hmiss hf hname hty hnp hng hok
  have hs' : x'.state.usable = true := by
    show (ctxGetNow cid x ⟨ty, name⟩ opt).1.state.usable = true
    rw [h2]; exact hs
  have h3' : alookup ⟨ty, name⟩ x'.res = some cont := h3
  refine ⟨h1, ?_, fun _ => ?_⟩
  · rw [C04_body_get_existing cid cur x' ty name opt' cont hs' h3', h4]
  · show ctxGetNowait cid x' ⟨ty, name⟩ opt' = _
    unfold ctxGetNowait
    simp [hs', h3', h4, v]

/-- Non-vacuity of `C04_body_get_then_same`: a context being torn down that holds an asynchronous factory for
`(0, "a")` which has not been called yet meets every hypothesis. -/
example :
    let f : Factory := ⟨3, [0], "a", none, true, false, 0⟩
    let x : Ctx := { parent := none, state := .closing, res := [], fac := [(⟨0, "a"⟩, f)], tds := [], children := [],
                     token := none, events := [], pending := [], genCount := [], callCount := [] }
    x.state.usable = true ∧ alookup ⟨0, "a"⟩ x.res = none ∧ alookup ⟨0, "a"⟩ x.fac = some f ∧ f.name = "a" ∧
      0 ∈ f.types ∧ x.pending.find? (fun p => p.fid = f.fid) = none ∧ (f.isAsync && f.gated) = false ∧
      f.failFirst ≤ countOf f.fid x.callCount := by
  simp [CState.usable, alookup, countOf]

end Asphalt
