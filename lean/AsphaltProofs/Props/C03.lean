/-
C03 — one resource per (type, name) per context; failed adds change nothing.
-/
import AsphaltModel.Context
import AsphaltProofs.Lemmas.Assoc
import AsphaltProofs.Lemmas.Kernel

namespace Asphalt

/-- The resource and factory tables of every context of every reachable world are
functional: each (type, name) pair occurs at most once. -/
theorem C03_functional (w : World) (hr : Reachable w) (c : CtxId) (x : Ctx)
    (hx : w.ctx? c = some x) : NoDupKeys x.res ∧ NoDupKeys x.fac := by
  exact reachable_functional w hr c x hx

/-- Nothing is ever replaced or removed: a resource registered under a pair stays registered
under it, as the same container, across every operation (in any world, reachable or not). -/
theorem C03_stable (w : World) (c : CtxId) (x : Ctx) (k : Key) (cont : Container) (op : Op)
    (hx : w.ctx? c = some x) (hk : alookup k x.res = some cont) :
    ∃ x', (step w op).1.ctx? c = some x' ∧ alookup k x'.res = some cont := by
  obtain ⟨x', hx', hkeep⟩ := step_some w op c x hx
  exact ⟨x', hx', hkeep.res k cont hk⟩

/-- Likewise for factories. -/
theorem C03_stable_factory (w : World) (c : CtxId) (x : Ctx) (k : Key) (f : Factory) (op : Op)
    (hx : w.ctx? c = some x) (hk : alookup k x.fac = some f) :
    ∃ x', (step w op).1.ctx? c = some x' ∧ alookup k x'.fac = some f := by
  obtain ⟨x', hx', hkeep⟩ := step_some w op c x hx
  exact ⟨x', hx', hkeep.fac k f hk⟩

/-- A registered pair is answered from the table, with the same object, by both lookup APIs,
as long as the context is usable. -/
theorem C03_lookup_registered (cid : CtxId) (x : Ctx) (t : TaskId) (k : Key) (cont : Container)
    (opt : Bool) (hs : x.state.usable = true) (hk : alookup k x.res = some cont) :
    ctxGetNowait cid x k opt = (x, [.val cont.val]) ∧ ctxGet cid x t k opt = (x, [.val cont.val]) := by
  constructor
  · unfold ctxGetNowait
    simp only [hs, hk, Bool.not_true, Bool.false_eq_true, if_false]
  · unfold ctxGet
    simp only [hs, hk, Bool.not_true, Bool.false_eq_true, if_false]

/-- Adding under a pair that is already taken — by any one of several types — raises
ResourceConflict (for otherwise valid arguments). -/
theorem C03_conflict (cid : CtxId) (x : Ctx) (a : AddArgs) (v : Nat) (ty : TypeId)
    (hs : x.state.usable = true) (hv : a.val = some v) (hn : validName a.name = true)
    (hbt : a.badType = false) (htd : a.tdNotCallable = false)
    (hty : ty ∈ addTypes a) (htaken : acontains ⟨ty, a.name⟩ x.res = true) :
    ctxAdd cid x a = (x, [.conflict]) := by
  have hany : (addTypes a).any (fun t => acontains ⟨t, a.name⟩ x.res) = true :=
    List.any_eq_true.mpr ⟨ty, hty, htaken⟩
  unfold ctxAdd
  simp only [hs, hv, hn, hbt, htd, hany, Bool.not_true, Bool.and_false, Bool.false_eq_true,
    if_false, if_true]

/-- Likewise a second factory for a pair. -/
theorem C03_conflict_factory (cid : CtxId) (x : Ctx) (a : FacArgs) (ty : TypeId)
    (hs : x.state = .opened) (hn : validName a.name = true) (hne : a.types ≠ [])
    (hnone : a.noneInTypes = false) (hty : ty ∈ a.types)
    (htaken : acontains ⟨ty, a.name⟩ x.fac = true) :
    ctxAddFactory cid x a = (x, [.conflict]) := by
  have hany : a.types.any (fun t => acontains ⟨t, a.name⟩ x.fac) = true :=
    List.any_eq_true.mpr ⟨ty, hty, htaken⟩
  have hne' : a.types.isEmpty = false := by
    cases h : a.types with
    | nil => exact absurd h hne
    | cons _ _ => rfl
  unfold ctxAddFactory
  simp only [hs, hn, hne', hnone, hany, ne_eq, not_true_eq_false, Bool.not_true,
    Bool.false_eq_true, if_false, if_true]

/-- An `add_resource` call either succeeds (answers `ok` and exactly one event) or leaves the
context unchanged — whatever made it fail: wrong state, invalid type, `None` value, invalid
name, invalid teardown callback, conflict on any of the types. Nothing registered, no
teardown callback scheduled, no event logged. -/
theorem C03_failed_add_noop (cid : CtxId) (x : Ctx) (a : AddArgs) :
    (∃ e, (ctxAdd cid x a).2 = [.ok, .ev cid e]) ∨
    ((ctxAdd cid x a).1 = x ∧ ∃ o, (ctxAdd cid x a).2 = [o] ∧
      (o = .runtimeError x.state ∨ o = .typeError ∨ o = .valueError ∨ o = .conflict)) := by
  unfold ctxAdd
  dsimp only
  repeat' split
  all_goals simp

theorem C03_failed_add_factory_noop (cid : CtxId) (x : Ctx) (a : FacArgs) :
    (∃ e, (ctxAddFactory cid x a).2 = [.ok, .ev cid e]) ∨
    ((ctxAddFactory cid x a).1 = x ∧ ∃ o, (ctxAddFactory cid x a).2 = [o] ∧
      (o = .runtimeError x.state ∨ o = .typeError ∨ o = .valueError ∨ o = .conflict ∨ o = .badOp)) := by
  unfold ctxAddFactory
  dsimp only
  repeat' split
  all_goals simp

/-- World level: a failing add leaves the whole world unchanged. -/
theorem C03_failed_add_world (w : World) (c : CtxId) (x : Ctx) (a : AddArgs)
    (hx : w.ctx? c = some x) :
    (∃ e, (step w (.add c a)).2 = [.ok, .ev c e]) ∨ (step w (.add c a)).1 = w := by
  simp only [step, onCtx, hx]
  rcases C03_failed_add_noop c x a with ⟨e, he⟩ | ⟨h1, _⟩
  · exact Or.inl ⟨e, he⟩
  · right
    rw [h1]
    exact World.setCtx_self w c x hx

/-- A successful add registers the value under every requested type. -/
theorem C03_add_registers (cid : CtxId) (x : Ctx) (a : AddArgs) (e : REvent)
    (h : (ctxAdd cid x a).2 = [.ok, .ev cid e]) (ty : TypeId) (hty : ty ∈ addTypes a) :
    ∃ v, a.val = some v ∧
      alookup ⟨ty, a.name⟩ (ctxAdd cid x a).1.res =
        some ⟨.static v, addTypes a, a.name, a.desc, false⟩ := by
  obtain ⟨v, hv, hres⟩ := ctxAdd_ok_inv cid x a e h
  refine ⟨v, hv, ?_⟩
  rw [hres, alookup_storeAll, if_pos ⟨rfl, hty⟩]

/-- Generation never replaces: a multi-type factory generating into a context that already
holds one of its types leaves that pair alone (instance of C03_stable, spelled out for the
sync API). -/
theorem C03_generation_keeps_existing (cid : CtxId) (x : Ctx) (k k' : Key) (cont : Container)
    (opt : Bool) (hk : alookup k' x.res = some cont) :
    alookup k' (ctxGetNowait cid x k opt).1.res = some cont := by
  exact (ctxGetNowait_ext cid x k opt).res k' cont hk

/-- Non-vacuity (finding D3): static (B,n); factory [A,B]; generation via (A,n) keeps (B,n). -/
example :
    let addB : AddArgs := ⟨[1], 1, "n", some 7, none, false, none, false⟩
    let fac : FacArgs := ⟨[0, 1], "n", 3, none, false, false, 0, false⟩
    let ops : List Op := [.new 0 1 none, .enter 0 1, .add 1 addB, .addFactory 1 fac,
                          .getNowait 1 ⟨0, "n"⟩ false, .getNowait 1 ⟨1, "n"⟩ false]
    ((run World.empty ops).1.ctx? 1).map (fun x => (alookup ⟨1, "n"⟩ x.res).map (·.val)) =
      some (some (.static 7)) := by
  simp [run, step, onCtx, World.ctx?, World.setCtx, World.setCur, World.curOf, World.empty,
    alookup, ainsert, freshCtx, ctxAdd, ctxAddFactory, ctxGetNowait, CState.usable, validName,
    addTypes, storeAll, storeFac, acontains, callFactory, storeGenerated, countOf, isWordChar]

end Asphalt
