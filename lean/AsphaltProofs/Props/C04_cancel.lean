/-
C04 / C06 (continued) — a suspended lookup is given up by its caller (`Op.cancelGet`,
`ctxCancelGet` in AsphaltModel/Context.lean): if it is the lookup that was running the factory the
generation is abandoned and the lookups that waited for it look again; if it only waited, it leaves
the queue. Property theorems only: no lookup is left waiting for a generation that no longer exists,
nothing is stored, nothing else changes.
-/
import AsphaltModel.Context
import AsphaltProofs.Lemmas.Assoc
import AsphaltProofs.Lemmas.Kernel
import AsphaltProofs.Lemmas.Kernel2
import AsphaltProofs.Lemmas.CancelGet
import AsphaltProofs.Props.C18

namespace Asphalt
open K2

/-- Every lookup that was waiting for the abandoned generation is accounted for afterwards: it has
returned (a `task` output carries its answer), or it is again the runner of / a waiter for a
generation that is in flight. No wake-up is lost. -/
theorem C04_cancel_no_lost_waiter (cid : CtxId) (x : Ctx) (lid : TaskId) (next : Option TaskId) (p : Pending)
    (hp : x.pending.find? (fun q => q.task = lid) = some p) (w : TaskId × Key × Bool) (hw : w ∈ p.waiters) :
    (∃ o, Out.task w.1 o ∈ (ctxCancelGet cid x lid next).2) ∨
      (∃ q ∈ (ctxCancelGet cid x lid next).1.pending, q.task = w.1 ∨ ∃ w' ∈ q.waiters, w'.1 = w.1) := by
  rw [CG.ctxCancelGet_runner cid x lid next p hp]
  rcases CG.resumeWaiters_accounted cid (wakeOrder next p.waiters) (dropGen x p.fid) w
      ((CG.mem_wakeOrder next p.waiters w).mpr hw) with ⟨o, ho⟩ | h
  · exact .inl ⟨o, List.mem_cons_of_mem _ ho⟩
  · exact .inr h

/-- The abandoned generation is gone: the cancelled lookup is neither the runner of nor a waiter for
any generation afterwards, provided lookup labels are unique. -/
theorem C04_cancel_removes (cid : CtxId) (x : Ctx) (lid : TaskId) (next : Option TaskId) (p : Pending)
    (hp : x.pending.find? (fun q => q.task = lid) = some p)
    (huniq : ∀ q ∈ x.pending, (q.task = lid → q.fid = p.fid) ∧ ∀ w ∈ q.waiters, w.1 ≠ lid) :
    ∀ q ∈ (ctxCancelGet cid x lid next).1.pending, q.task ≠ lid ∧ ∀ w ∈ q.waiters, w.1 ≠ lid := by
  rw [CG.ctxCancelGet_runner cid x lid next p hp]
  have hpm : p ∈ x.pending := List.mem_of_find?_eq_some hp
  apply CG.resumeWaiters_clean cid (wakeOrder next p.waiters) lid (dropGen x p.fid)
  · intro w hw
    exact (huniq p hpm).2 w ((CG.mem_wakeOrder next p.waiters w).mp hw)
  · intro q hq
    have hq' := List.mem_filter.mp hq
    have hne : q.fid ≠ p.fid := by simpa using hq'.2
    exact ⟨fun e => hne ((huniq q hq'.1).1 e), (huniq q hq'.1).2⟩

/-- The cancelled call ends with the cancellation, whatever its role was. -/
theorem C04_cancel_answer (cid : CtxId) (x : Ctx) (lid : TaskId) (next : Option TaskId)
    (h : (ctxCancelGet cid x lid next).2 ≠ [.badOp]) :
    Out.task lid [.raisedExc .cancelled] ∈ (ctxCancelGet cid x lid next).2 := by
  cases hp : x.pending.find? (fun q => q.task = lid) with
  | some p => rw [CG.ctxCancelGet_runner cid x lid next p hp]; exact List.mem_cons_self
  | none =>
    rw [CG.ctxCancelGet_waiter cid x lid next hp] at h ⊢
    split
    · exact List.mem_cons_self
    · rename_i hn; rw [if_neg hn] at h; exact absurd rfl h

/-- Giving up a lookup that only waited changes nothing but the queue it waited in: no other lookup
is affected, nothing is stored, no factory is called. -/
theorem C04_cancel_waiter_only (cid : CtxId) (x : Ctx) (lid : TaskId) (next : Option TaskId)
    (hnp : x.pending.find? (fun q => q.task = lid) = none) :
    (ctxCancelGet cid x lid next).1.res = x.res ∧ (ctxCancelGet cid x lid next).1.fac = x.fac ∧
      (ctxCancelGet cid x lid next).1.callCount = x.callCount ∧
      (ctxCancelGet cid x lid next).1.genCount = x.genCount ∧
      (ctxCancelGet cid x lid next).1.pending.map (·.fid) = x.pending.map (·.fid) ∧
      (ctxCancelGet cid x lid next).1.pending.map (·.task) = x.pending.map (·.task) := by
  rw [CG.ctxCancelGet_waiter cid x lid next hnp]
  split
  · refine ⟨rfl, rfl, rfl, rfl, ?_, ?_⟩ <;> simp [dropWaiter, List.map_map, Function.comp_def]
  · exact ⟨rfl, rfl, rfl, rfl, rfl, rfl⟩

/-- Whatever is registered stays registered under the same container (C03_stable for this operation):
an abandoned generation stores nothing of its own, and the lookups that look again never replace. -/
theorem C04_cancel_keeps_existing (cid : CtxId) (x : Ctx) (lid : TaskId) (next : Option TaskId) (k : Key)
    (cont : Container) (hk : alookup k x.res = some cont) :
    alookup k (ctxCancelGet cid x lid next).1.res = some cont := by
  exact (ctxCancelGet_ext cid x lid next).res k cont hk

/-- The factories of the context are untouched. -/
theorem C04_cancel_fac (cid : CtxId) (x : Ctx) (lid : TaskId) (next : Option TaskId) :
    (ctxCancelGet cid x lid next).1.fac = x.fac := by
  exact CG.ctxCancelGet_fac cid x lid next

/-- The log and the listener agree (C18): the events of the step are exactly those of the lookups that
looked again.

CORRECTED STATEMENT. As first written the right-hand side was `evsOf cid (ctxCancelGet cid x lid next).2`.
`evsOf` reads the top level of the output list only, and a resumed lookup reports inside its `.task t o`
output, so that is `[]` for every `x` (`CG.ctxCancelGet_evsOf`) while the log can grow: in an open context
with no resources, `fac = [(⟨1,"b"⟩, ⟨5,[1],"b",none,false,false,0⟩)]` (an ungated factory) and
`pending = [⟨3, 7, ⟨0,"a"⟩, false, [(8, ⟨1,"b"⟩, false)]⟩]`, `ctxCancelGet 1 x 7 none` resumes lookup 8, which
generates: outputs `[.task 7 [.raisedExc .cancelled], .task 8 [.val (.gen 1 5 0), .ev 1 e]]`, log `[e]`.
The events of the lookups that looked again are read off the answers spliced in place (`CG.unnest`). The
statement as first written holds when the waiters wait through gated factories: `C04_cancel_log_sound_gated`. -/
theorem C04_cancel_log_sound (cid : CtxId) (x : Ctx) (lid : TaskId) (next : Option TaskId) :
    (ctxCancelGet cid x lid next).1.events =
      x.events ++ evsOf cid (CG.unnest (ctxCancelGet cid x lid next).2) := by
  exact CG.ctxCancelGet_log cid x lid next

/-- The statement of `C04_cancel_log_sound` as first written, under the hypothesis that makes it true: the
lookups that waited for the abandoned generation look up through gated asynchronous factories (the only
way to become a waiter: `ctxGet` suspends on gated asynchronous factories only, and factory ids identify
factories). They then suspend again or are answered from the table; nothing is dispatched. -/
theorem C04_cancel_log_sound_gated (cid : CtxId) (x : Ctx) (lid : TaskId) (next : Option TaskId)
    (hgated : ∀ p, x.pending.find? (fun q => q.task = lid) = some p → ∀ w ∈ p.waiters, ∀ f,
      alookup w.2.1 x.fac = some f → (f.isAsync && f.gated) = true) :
    (ctxCancelGet cid x lid next).1.events = x.events ++ evsOf cid (ctxCancelGet cid x lid next).2 := by
  rw [CG.ctxCancelGet_evsOf, List.append_nil]
  cases hp : x.pending.find? (fun q => q.task = lid) with
  | some p =>
    rw [CG.ctxCancelGet_runner cid x lid next p hp]
    exact CG.resumeWaiters_events_gated cid (wakeOrder next p.waiters) (dropGen x p.fid)
      (fun w hw f hf => hgated p hp w ((CG.mem_wakeOrder next p.waiters w).mp hw) f hf)
  | none =>
    rw [CG.ctxCancelGet_waiter cid x lid next hp]
    split <;> rfl

/-- Other contexts are not affected (C02_frame for this operation). -/
theorem C04_cancel_scoped (w : World) (c d : CtxId) (lid : TaskId) (next : Option TaskId) (hne : c ≠ d) :
    (step w (.cancelGet c lid next)).1.ctx? d = w.ctx? d := by
  exact onCtx_ctx?_other w c d _ hne

/-- Non-vacuity (the history of seeded defects C04-h / C05-h / C06-h): a suspended factory, lookup 7 runs
it, lookups 8 and 9 wait; 7 is given up: 8 runs the factory again (the second call), 9 waits for that;
the generation then finishes and both get the one object of that generation. -/
example :
    let fac : FacArgs := ⟨[0, 1], "default", 3, none, true, true, 0, false⟩
    let ops : List Op := [.new 0 1 none, .enter 0 1, .addFactory 1 fac,
                          .get 7 1 ⟨0, "default"⟩ false, .get 8 1 ⟨1, "default"⟩ false, .get 9 1 ⟨0, "default"⟩ false,
                          .cancelGet 1 7 none]
    let r := run World.empty ops
    (r.2.getLast?,
     (r.1.ctx? 1).map (fun x => (x.pending.map (fun p => (p.fid, p.task, p.waiters.map (·.1))), countOf 3 x.callCount,
        x.res.length))) =
      (some [.task 7 [.raisedExc .cancelled]], some ([(3, 8, [9])], 2, 0)) := by
  have hv : validName "default" = true := by decide
  simp [run, step, onCtx, World.ctx?, World.setCtx, World.curOf, World.setCur, World.empty,
    alookup, ainsert, freshCtx, ctxAddFactory, storeFac, acontains, hv, CState.usable,
    ctxGet, ctxCancelGet, resumeWaiters, wakeOrder, countOf]

end Asphalt
