/-
C13 — context lifecycle: usable only from entry to the end of teardown, entered once.
The state × operation matrix, stated outright over the kernel model (`step`,
`ctxAdd`, `ctxAddFactory`, `ctxGetNowait`, `ctxGet` in AsphaltModel/Context.lean).
-/
import AsphaltModel.Context
import AsphaltProofs.Lemmas.Assoc
import AsphaltProofs.Lemmas.Kernel

namespace Asphalt

/-- Before entry and after closing, `add_resource` raises RuntimeError and changes nothing. -/
theorem C13_guard_add (w : World) (c : CtxId) (x : Ctx) (a : AddArgs)
    (hx : w.ctx? c = some x) (hs : x.state = .inactive ∨ x.state = .closed) :
    step w (.add c a) = (w, [.runtimeError x.state]) := by
  have h : ctxAdd c x a = (x, [.runtimeError x.state]) := by
    unfold ctxAdd
    rcases hs with h | h <;> simp [h, CState.usable]
  simp only [step, onCtx, hx, h, World.setCtx_self w c x hx]

theorem C13_guard_get_nowait (w : World) (c : CtxId) (x : Ctx) (k : Key) (opt : Bool)
    (hx : w.ctx? c = some x) (hs : x.state = .inactive ∨ x.state = .closed) :
    step w (.getNowait c k opt) = (w, [.runtimeError x.state]) := by
  have h : ctxGetNowait c x k opt = (x, [.runtimeError x.state]) := by
    unfold ctxGetNowait
    rcases hs with h | h <;> simp [h, CState.usable]
  simp only [step, onCtx, hx, h, World.setCtx_self w c x hx]

theorem C13_guard_get (w : World) (t : TaskId) (c : CtxId) (x : Ctx) (k : Key) (opt : Bool)
    (hx : w.ctx? c = some x) (hs : x.state = .inactive ∨ x.state = .closed) :
    step w (.get t c k opt) = (w, [.runtimeError x.state]) := by
  have h : ctxGet c x t k opt = (x, [.runtimeError x.state]) := by
    unfold ctxGet
    rcases hs with h | h <;> simp [h, CState.usable]
  simp only [step, onCtx, hx, h, World.setCtx_self w c x hx]

theorem C13_guard_teardown_callback (w : World) (c : CtxId) (x : Ctx) (cb : Cb) (callable : Bool)
    (hx : w.ctx? c = some x) (hs : x.state = .inactive ∨ x.state = .closed) :
    step w (.addTeardown c cb callable) = (w, [.runtimeError x.state]) := by
  have h : x.state.usable = false := by
    rcases hs with h | h <;> simp [h, CState.usable]
  simp [step, onCtx, hx, h, World.setCtx_self w c x hx]

/-- `add_resource_factory` is refused in every state but `open` — also during teardown. -/
theorem C13_guard_add_factory (w : World) (c : CtxId) (x : Ctx) (a : FacArgs)
    (hx : w.ctx? c = some x) (hs : x.state ≠ .opened) :
    step w (.addFactory c a) = (w, [.runtimeError x.state]) := by
  have h : ctxAddFactory c x a = (x, [.runtimeError x.state]) := by
    unfold ctxAddFactory
    simp [hs]
  simp only [step, onCtx, hx, h, World.setCtx_self w c x hx]

/-- During teardown the other four operations are still allowed: none of them answers with a
lifecycle error. -/
theorem C13_closing_allowed (cid : CtxId) (x : Ctx) (hs : x.state = .closing) (s : CState) :
    (∀ a, (ctxAdd cid x a).2 ≠ [.runtimeError s]) ∧
    (∀ k opt, (ctxGetNowait cid x k opt).2 ≠ [.runtimeError s]) ∧
    (∀ t k opt, (ctxGet cid x t k opt).2 ≠ [.runtimeError s]) := by
  have hu : x.state.usable = true := by simp [hs, CState.usable]
  refine ⟨fun a => ?_, fun k opt => ?_, fun t k opt => ?_⟩
  · unfold ctxAdd
    dsimp only
    repeat' split
    all_goals simp_all
  · unfold ctxGetNowait
    dsimp only
    repeat' split
    all_goals simp_all
  · unfold ctxGet registeredVal
    dsimp only
    repeat' split
    all_goals simp_all

/-- A context can be entered only once: re-entry while open, closing or closed raises
RuntimeError and changes nothing. -/
theorem C13_enter_once (w : World) (t : TaskId) (c : CtxId) (x : Ctx)
    (hx : w.ctx? c = some x) (hs : x.state ≠ .inactive) :
    step w (.enter t c) = (w, [.runtimeError x.state]) := by
  simp only [step, hx, hs, ne_eq, not_false_eq_true, if_true]

/-- Entering an inactive context opens it (and `closed` stays false). -/
theorem C13_enter_opens (w : World) (t : TaskId) (c : CtxId) (x : Ctx)
    (hx : w.ctx? c = some x) (hs : x.state = .inactive) :
    ∃ x', (step w (.enter t c)).1.ctx? c = some x' ∧ x'.state = .opened ∧
      closedFlag x'.state = false ∧ (step w (.enter t c)).2 = [.ok] := by
  simp only [step, hx, hs, ne_eq, not_true_eq_false, if_false, World.ctx?_setCur, and_true]
  cases hp : x.parent with
  | none => exact ⟨_, World.ctx?_setCtx_same _ _ _, rfl, rfl⟩
  | some p =>
    dsimp only
    split
    · exact ⟨_, World.ctx?_setCtx_same _ _ _, rfl, rfl⟩
    · next px hpx =>
      by_cases hc : p = c
      · subst hc
        rw [World.ctx?_setCtx_same] at hpx
        cases hpx
        exact ⟨_, World.ctx?_setCtx_same _ _ _, rfl, rfl⟩
      · rw [World.ctx?_setCtx_other _ _ _ _ hc]
        exact ⟨_, World.ctx?_setCtx_same _ _ _, rfl, rfl⟩

/-- `closed` is false until teardown begins and true from then on. -/
theorem C13_closed_flag (s : CState) :
    closedFlag s = true ↔ (s = .closing ∨ s = .closed) := by
  cases s <;> simp [closedFlag]

/-- While the teardown callbacks run the context is `closing` (bodies never change the state). -/
theorem C13_state_during_teardown (cid : CtxId) (cur : Option CtxId) (be : BlockEnd) (st : List Cb) (x : Ctx) :
    (runTeardown cid cur be st x).1.state = x.state := by
  exact (runTeardown_ext cid cur be st x).state

/-- … also on the stack of a teardown that is interrupted by a cancellation. -/
theorem C13_state_during_teardown_mid (cid : CtxId) (cur : Option CtxId) (be : BlockEnd) (k : Nat)
    (st : List Cb) (x : Ctx) :
    (runTeardown cid cur be (midEff be k st) x).1.state = x.state :=
  C13_state_during_teardown cid cur be (midEff be k st) x

/-- After the block has been left the context is closed, even if teardown raised. -/
theorem C13_closed_after_exit (w : World) (t : TaskId) (c : CtxId) (be : BlockEnd) (x : Ctx)
    (hx : w.ctx? c = some x) (hs : x.state = .opened) :
    ((step w (.exit t c be)).1.ctx? c).map Ctx.state = some .closed := by
  simp only [step, hx, hs, ne_eq, not_true_eq_false, if_false]
  unfold removeChild
  split
  · simp only [World.ctx?_setCur, World.ctx?_setCtx_same, Option.map_some]
  · next p hp =>
    split
    · simp only [World.ctx?_setCur, World.ctx?_setCtx_same, Option.map_some]
    · next px hpx =>
      by_cases hc : p = c
      · subst hc
        rw [World.ctx?_setCur, World.ctx?_setCtx_same] at hpx
        cases hpx
        simp only [World.ctx?_setCtx_same, Option.map_some]
      · simp only [World.ctx?_setCtx_other _ _ _ _ hc, World.ctx?_setCur,
          World.ctx?_setCtx_same, Option.map_some]

/-- … also when the scope was cancelled while the teardown was running. -/
theorem C13_closed_after_exit_mid (w : World) (t : TaskId) (c : CtxId) (be : BlockEnd) (k : Nat)
    (x : Ctx) (hx : w.ctx? c = some x) (hs : x.state = .opened) :
    ((step w (.exitMid t c be k)).1.ctx? c).map Ctx.state = some .closed := by
  simp only [step, hx, hs, ne_eq, not_true_eq_false, if_false]
  unfold removeChild
  split
  · simp only [World.ctx?_setCur, World.ctx?_setCtx_same, Option.map_some]
  · next p hp =>
    split
    · simp only [World.ctx?_setCur, World.ctx?_setCtx_same, Option.map_some]
    · next px hpx =>
      by_cases hc : p = c
      · subst hc
        rw [World.ctx?_setCur, World.ctx?_setCtx_same] at hpx
        cases hpx
        simp only [World.ctx?_setCtx_same, Option.map_some]
      · simp only [World.ctx?_setCtx_other _ _ _ _ hc, World.ctx?_setCur,
          World.ctx?_setCtx_same, Option.map_some]

/-- Leaving a context while a child context entered from it is still open is reported as an
error (when teardown itself raised nothing; for a root context the block must have ended
normally — an exception of the block propagates through the root's task group first). -/
theorem C13_children_reported (w : World) (t : TaskId) (c : CtxId) (be : BlockEnd) (x : Ctx)
    (hx : w.ctx? c = some x) (hs : x.state = .opened) (hch : x.children ≠ [])
    (hnone : (runTeardown c (w.curOf t) be (effStack be x.tds) { x with state := .closing, tds := [] }).2.2 = [])
    (hroot : be = .ret ∨ x.parent ≠ none) :
    (step w (.exit t c be)).2.getLast? = some .corruption := by
  have hch2 : (runTeardown c (w.curOf t) be (effStack be x.tds) { x with state := .closing, tds := [] }).1.children
      = x.children := (runTeardown_ext c (w.curOf t) be (effStack be x.tds) _).children
  simp only [step, hx, hs, ne_eq, not_true_eq_false, if_false]
  rw [List.getLast?_append]
  simp only [hnone, hch2, List.isEmpty_nil, Bool.not_true, Bool.false_eq_true, if_false,
    List.getLast?_cons_cons, List.getLast?_singleton, Option.some_or]
  have hne : x.children.isEmpty = false := by
    cases hc : x.children with
    | nil => exact absurd hc hch
    | cons a l => rfl
  rcases hroot with h | h
  · subst h
    simp [hne]
  · cases be with
    | ret => simp [hne]
    | raised e =>
      have : x.parent.isNone = false := by
        cases hp : x.parent with
        | none => exact absurd hp h
        | some p => rfl
      simp [hne, this]

/-- … also when the scope was cancelled while the teardown was running. -/
theorem C13_children_reported_mid (w : World) (t : TaskId) (c : CtxId) (be : BlockEnd) (k : Nat)
    (x : Ctx) (hx : w.ctx? c = some x) (hs : x.state = .opened) (hch : x.children ≠ [])
    (hnone : (runTeardown c (w.curOf t) be (midEff be k x.tds) { x with state := .closing, tds := [] }).2.2 = [])
    (hroot : be = .ret ∨ x.parent ≠ none) :
    (step w (.exitMid t c be k)).2.getLast? = some .corruption := by
  have hch2 : (runTeardown c (w.curOf t) be (midEff be k x.tds) { x with state := .closing, tds := [] }).1.children
      = x.children := (runTeardown_ext c (w.curOf t) be (midEff be k x.tds) _).children
  simp only [step, hx, hs, ne_eq, not_true_eq_false, if_false]
  rw [List.getLast?_append]
  simp only [hnone, hch2, List.isEmpty_nil, Bool.not_true, Bool.false_eq_true, if_false,
    List.getLast?_cons_cons, List.getLast?_singleton, Option.some_or]
  have hne : x.children.isEmpty = false := by
    cases hc : x.children with
    | nil => exact absurd hc hch
    | cons a l => rfl
  rcases hroot with h | h
  · subst h
    simp [hne]
  · cases be with
    | ret => simp [hne]
    | raised e =>
      have : x.parent.isNone = false := by
        cases hp : x.parent with
        | none => exact absurd hp h
        | some p => rfl
      simp [hne, this]

/-- Entering a child registers it with its parent; leaving it removes it again. -/
theorem C13_child_registered (w : World) (t : TaskId) (c p : CtxId) (x px : Ctx)
    (hx : w.ctx? c = some x) (hs : x.state = .inactive) (hp : x.parent = some p) (hne : p ≠ c)
    (hpx : w.ctx? p = some px) :
    ((step w (.enter t c)).1.ctx? p).map Ctx.children = some (px.children ++ [c]) := by
  simp only [step, hx, hs, ne_eq, not_true_eq_false, if_false, hp, World.ctx?_setCur]
  rw [World.ctx?_setCtx_other _ _ _ _ hne.symm, hpx]
  dsimp only
  rw [World.ctx?_setCtx_same]
  rfl

/-- Non-vacuity: a context that was entered, left with a failing teardown callback, and is then
asked for a resource. -/
example :
    let cb := Cb.mk 1 false false [] [] (some (.exn 0))
    let ops : List Op := [.new 0 1 none, .enter 0 1, .addTeardown 1 cb true,
                          .exit 0 1 .ret, .getNowait 1 ⟨0, "default"⟩ false, .stateOf 1]
    ((run World.empty ops).2.map fun o => o.length) = [1, 1, 1, 4, 1, 1] := by
  simp [run, step, onCtx, World.ctx?, World.setCtx, World.setCur, World.curOf, World.empty,
    alookup, ainsert, freshCtx, effStack, BlockEnd.isCancel, runTeardown, runBody, removeChild, ctxGetNowait, CState.usable]

/-- `Context.closed` is true from the beginning of teardown: whatever a teardown callback's body does, and after any
number of callbacks, the flag a callback reads is true. -/
theorem C13_closed_flag_in_callback (cid : CtxId) (cur : Option CtxId) (x : Ctx) (hs : x.state = .closing) (op : BodyOp) :
    closedFlag x.state = true ∧ closedFlag (runBodyOp cid cur x op).1.state = true := by
  rw [(runBodyOp_ext cid cur x op).state, hs]
  exact ⟨rfl, rfl⟩

theorem C13_closed_flag_during_teardown (cid : CtxId) (cur : Option CtxId) (be : BlockEnd) (st : List Cb) (x : Ctx)
    (hs : x.state = .closing) :
    closedFlag (runTeardown cid cur be st x).1.state = true := by
  rw [C13_state_during_teardown, hs]
  rfl

end Asphalt
