/-
`ctxGetNow` (the lookup awaited by a teardown callback) is `ctxGet` wherever that one does not suspend;
where it does, it answers `blocked` and leaves the context as it is. Every property of `ctxGet` that also
holds of "nothing happened" transfers (`ctxGetNow_transfer`).
-/
import AsphaltModel.Context
import AsphaltProofs.Lemmas.Assoc

namespace Asphalt

/-- `ctxGetNow` refuses to suspend (context unchanged), or is the ordinary lookup of any task. -/
theorem ctxGetNow_cases (cid : CtxId) (x : Ctx) (k : Key) (opt : Bool) :
    (ctxGetNow cid x k opt = (x, [.blocked]) ∧ ∀ t, (ctxGet cid x t k opt).2 = [.blocked]) ∨
    (∀ t, ctxGetNow cid x k opt = ctxGet cid x t k opt) := by
  unfold ctxGetNow ctxGet
  cases x.state.usable with
  | false => right; intro t; rfl
  | true =>
    cases alookup k x.res with
    | some cont => right; intro t; rfl
    | none =>
      cases alookup k x.fac with
      | none => right; intro t; rfl
      | some f =>
        cases hp : x.pending.find? (fun p => p.fid = f.fid) with
        | some p => left; simp [hp]
        | none =>
          cases hg : (f.isAsync && f.gated) with
          | true => left; simp [hp, hg]
          | false => right; intro t; simp [hp, hg]

/-- A property of the resulting context that holds after `ctxGet` and of the unchanged context holds after
`ctxGetNow`. -/
theorem ctxGetNow_transfer (P : Ctx → Prop) (cid : CtxId) (x : Ctx) (k : Key) (opt : Bool)
    (h0 : P x) (h1 : ∀ t, P (ctxGet cid x t k opt).1) : P (ctxGetNow cid x k opt).1 := by
  rcases ctxGetNow_cases cid x k opt with ⟨e, _⟩ | e
  · rw [e]; exact h0
  · rw [e 0]; exact h1 0

/-- The same for properties of the whole answer. -/
theorem ctxGetNow_transfer2 (P : Ctx × List Out → Prop) (cid : CtxId) (x : Ctx) (k : Key) (opt : Bool)
    (h0 : P (x, [.blocked])) (h1 : ∀ t, P (ctxGet cid x t k opt)) : P (ctxGetNow cid x k opt) := by
  rcases ctxGetNow_cases cid x k opt with ⟨e, _⟩ | e
  · rw [e]; exact h0
  · rw [e 0]; exact h1 0

end Asphalt
