/- Helper lemmas about insertion-ordered association lists. -/
import AsphaltModel.Basic

namespace Asphalt

variable {κ α : Type} [DecidableEq κ]

@[simp] theorem alookup_nil (k : κ) : alookup k ([] : List (κ × α)) = none := rfl

theorem alookup_cons (k k' : κ) (v : α) (l : List (κ × α)) :
    alookup k ((k', v) :: l) = if k' = k then some v else alookup k l := rfl

theorem alookup_none_iff (k : κ) (l : List (κ × α)) :
    alookup k l = none ↔ k ∉ akeys l := by
  induction l with
  | nil => simp [akeys]
  | cons p l ih =>
    obtain ⟨k', v⟩ := p
    simp only [alookup_cons, akeys, List.map_cons, List.mem_cons, not_or]
    by_cases h : k' = k
    · simp [h]
    · simp only [h, if_false]
      constructor
      · intro hn; exact ⟨fun e => h e.symm, by simpa [akeys] using ih.mp hn⟩
      · intro hn; exact ih.mpr (by simpa [akeys] using hn.2)

theorem alookup_isSome_iff (k : κ) (l : List (κ × α)) :
    (alookup k l).isSome ↔ k ∈ akeys l := by
  have h := alookup_none_iff k l
  cases hk : alookup k l with
  | none => simp [hk] at h; simpa using h
  | some v =>
    simp only [hk] at h
    simp only [Option.isSome_some, true_iff]
    exact Classical.not_not.mp (fun hn => by simpa using h.mpr hn)

theorem alookup_ainsert_same (k : κ) (v : α) (l : List (κ × α)) :
    alookup k (ainsert k v l) = some v := by
  induction l with
  | nil => simp [ainsert, alookup_cons]
  | cons p l ih =>
    obtain ⟨k', v'⟩ := p
    by_cases h : k' = k
    · simp [ainsert, h, alookup_cons]
    · simp [ainsert, h, alookup_cons, ih]

theorem alookup_ainsert_other (k k' : κ) (v : α) (l : List (κ × α)) (h : k' ≠ k) :
    alookup k (ainsert k' v l) = alookup k l := by
  induction l with
  | nil => simp [ainsert, alookup_cons, h]
  | cons p l ih =>
    obtain ⟨k'', v''⟩ := p
    by_cases h2 : k'' = k'
    · subst h2; simp [ainsert, alookup_cons, h]
    · by_cases h3 : k'' = k
      · subst h3; simp [ainsert, h2, alookup_cons]
      · simp [ainsert, h2, alookup_cons, h3, ih]

theorem akeys_ainsert_mem (k : κ) (v : α) (l : List (κ × α)) (h : k ∈ akeys l) :
    akeys (ainsert k v l) = akeys l := by
  induction l with
  | nil => simp [akeys] at h
  | cons p l ih =>
    obtain ⟨k', v'⟩ := p
    by_cases h2 : k' = k
    · simp [ainsert, h2, akeys]
    · have : k ∈ akeys l := by
        simp only [akeys, List.map_cons, List.mem_cons] at h
        rcases h with h | h
        · exact absurd h.symm h2
        · simpa [akeys] using h
      simp only [ainsert, h2, if_false, akeys, List.map_cons]
      congr 1
      simpa [akeys] using ih this

theorem akeys_ainsert_not_mem (k : κ) (v : α) (l : List (κ × α)) (h : k ∉ akeys l) :
    akeys (ainsert k v l) = akeys l ++ [k] := by
  induction l with
  | nil => simp [ainsert, akeys]
  | cons p l ih =>
    obtain ⟨k', v'⟩ := p
    simp only [akeys, List.map_cons, List.mem_cons, not_or] at h
    have h2 : ¬ k' = k := fun e => h.1 e.symm
    simp only [ainsert, h2, if_false, akeys, List.map_cons, List.cons_append]
    congr 1
    simpa [akeys] using ih (by simpa [akeys] using h.2)

theorem alookup_aerase_other (k k' : κ) (l : List (κ × α)) (h : k' ≠ k) :
    alookup k (aerase k' l) = alookup k l := by
  induction l with
  | nil => simp [aerase]
  | cons p l ih =>
    obtain ⟨k'', v''⟩ := p
    by_cases h2 : k'' = k'
    · subst h2; simp [aerase, alookup_cons, h]
    · by_cases h3 : k'' = k
      · subst h3; simp [aerase, h2, alookup_cons]
      · simp [aerase, h2, alookup_cons, h3, ih]

theorem alookup_aerase_same (k : κ) (l : List (κ × α)) (h : NoDupKeys l) :
    alookup k (aerase k l) = none := by
  induction l with
  | nil => simp [aerase]
  | cons p l ih =>
    obtain ⟨k', v'⟩ := p
    have hnd : (k' ∉ akeys l) ∧ NoDupKeys l := by
      simpa [NoDupKeys, akeys] using h
    by_cases h2 : k' = k
    · subst h2
      simp only [aerase, if_true]
      exact (alookup_none_iff _ _).mpr hnd.1
    · simp [aerase, h2, alookup_cons, ih hnd.2]

theorem alookup_append (k : κ) (l₁ l₂ : List (κ × α)) :
    alookup k (l₁ ++ l₂) = (alookup k l₁).orElse fun _ => alookup k l₂ := by
  induction l₁ with
  | nil => simp
  | cons p l ih =>
    obtain ⟨k', v'⟩ := p
    by_cases h : k' = k
    · simp [alookup_cons, h]
    · simp [alookup_cons, h, ih]

theorem ainsert_cons (k k' : κ) (v v' : α) (l : List (κ × α)) :
    ainsert k v ((k', v') :: l) = if k' = k then (k', v) :: l else (k', v') :: ainsert k v l := rfl

theorem aerase_cons (k k' : κ) (v' : α) (l : List (κ × α)) :
    aerase k ((k', v') :: l) = if k' = k then l else (k', v') :: aerase k l := rfl

/-- Assigning a key and then deleting it is the same as just deleting it. -/
theorem aerase_ainsert_same (k : κ) (v : α) (l : List (κ × α)) :
    aerase k (ainsert k v l) = aerase k l := by
  induction l with
  | nil => simp only [ainsert, aerase, if_true]
  | cons p l ih =>
    obtain ⟨k', v'⟩ := p
    by_cases h : k' = k
    · rw [ainsert_cons, if_pos h, aerase_cons, if_pos h, aerase_cons, if_pos h]
    · rw [ainsert_cons, if_neg h, aerase_cons, if_neg h, aerase_cons, if_neg h, ih]

/-- The same with the deletion of another key in between. -/
theorem aerase_aerase_ainsert (k k' : κ) (v : α) (l : List (κ × α)) (hne : k ≠ k') :
    aerase k (aerase k' (ainsert k v l)) = aerase k (aerase k' l) := by
  induction l with
  | nil => simp only [ainsert, aerase, hne, if_true, if_false]
  | cons p l ih =>
    obtain ⟨k'', v''⟩ := p
    by_cases h : k'' = k
    · have h' : ¬ k'' = k' := fun e => hne (h.symm.trans e)
      rw [ainsert_cons, if_pos h, aerase_cons, if_neg h', aerase_cons, if_pos h,
        aerase_cons, if_neg h', aerase_cons, if_pos h]
    · by_cases h2 : k'' = k'
      · rw [ainsert_cons, if_neg h, aerase_cons, if_pos h2, aerase_cons, if_pos h2,
          aerase_ainsert_same]
      · rw [ainsert_cons, if_neg h, aerase_cons, if_neg h2, aerase_cons, if_neg h,
          aerase_cons, if_neg h2, aerase_cons, if_neg h, ih]

/-- Re-assigning the key that was just appended at the end replaces it there. -/
theorem ainsert_append_singleton (k : κ) (v v' : α) (l : List (κ × α)) (h : k ∉ akeys l) :
    ainsert k v (l ++ [(k, v')]) = l ++ [(k, v)] := by
  induction l with
  | nil => simp only [List.nil_append, ainsert, if_true]
  | cons p l ih =>
    obtain ⟨k', w⟩ := p
    have hk : ¬ k' = k := fun e => h (e ▸ List.mem_cons_self)
    have hl : k ∉ akeys l := fun hm => h (List.mem_cons_of_mem _ hm)
    rw [List.cons_append, ainsert_cons, if_neg hk, ih hl, List.cons_append]

end Asphalt
