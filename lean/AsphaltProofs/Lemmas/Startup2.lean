/- Helper lemmas about the start-up LTS (AsphaltModel/Startup.lean): inversion of `step?` per
label, frame properties, monotonicity of the per-component run states, reachability invariants. -/
import AsphaltModel.Startup
import AsphaltProofs.Lemmas.Assoc

namespace Asphalt
namespace St2

/-! ### setNode / setCurrent / current -/

@[simp] theorem node?_def (s : SSt) (i : Nat) : s.node? i = s.nodes[i]? := rfl
@[simp] theorem spec?_def (s : SSt) (i : Nat) : s.spec? i = s.prog[i]? := rfl

theorem setCurrent_nodes_some (s : SSt) (i : Nat) (ph : StartPhase) (r : Run) (n : NodeSt)
    (h : s.nodes[i]? = some n) :
    (s.setCurrent i ph r).nodes =
      s.nodes.set i (if ph = .preparing then { n with prep := r } else { n with start := r }) := by
  unfold SSt.setCurrent
  simp only [node?_def, h]
  split <;> rfl

theorem setCurrent_nodes_none (s : SSt) (i : Nat) (ph : StartPhase) (r : Run)
    (h : s.nodes[i]? = none) : (s.setCurrent i ph r).nodes = s.nodes := by
  unfold SSt.setCurrent
  simp only [node?_def, h]

theorem setCurrent_eq (s : SSt) (i : Nat) (ph : StartPhase) (r : Run) :
    s.setCurrent i ph r = { s with nodes := (s.setCurrent i ph r).nodes } := by
  unfold SSt.setCurrent
  split
  · split <;> rfl
  · rfl

@[simp] theorem setCurrent_prog (s : SSt) (i ph r) : (s.setCurrent i ph r).prog = s.prog := by
  rw [setCurrent_eq]
@[simp] theorem setCurrent_hasTimeout (s : SSt) (i ph r) : (s.setCurrent i ph r).hasTimeout = s.hasTimeout := by
  rw [setCurrent_eq]
@[simp] theorem setCurrent_constructed (s : SSt) (i ph r) : (s.setCurrent i ph r).constructed = s.constructed := by
  rw [setCurrent_eq]
@[simp] theorem setCurrent_res (s : SSt) (i ph r) : (s.setCurrent i ph r).res = s.res := by
  rw [setCurrent_eq]
@[simp] theorem setCurrent_fac (s : SSt) (i ph r) : (s.setCurrent i ph r).fac = s.fac := by
  rw [setCurrent_eq]
@[simp] theorem setCurrent_tds (s : SSt) (i ph r) : (s.setCurrent i ph r).tds = s.tds := by
  rw [setCurrent_eq]
@[simp] theorem setCurrent_result (s : SSt) (i ph r) : (s.setCurrent i ph r).result = s.result := by
  rw [setCurrent_eq]
@[simp] theorem setCurrent_grace (s : SSt) (i ph r) : (s.setCurrent i ph r).grace = s.grace := by
  rw [setCurrent_eq]
@[simp] theorem setCurrent_reported (s : SSt) (i ph r) : (s.setCurrent i ph r).reported = s.reported := by
  rw [setCurrent_eq]
@[simp] theorem setCurrent_hist (s : SSt) (i ph r) : (s.setCurrent i ph r).hist = s.hist := by
  rw [setCurrent_eq]

/-! ### Inversion of `step?`, one lemma per label -/

/-- Unfold `step?` in `h` for a concrete label, outside the `reported` branch. -/
macro "nr_unfold " h:ident hrep:ident : tactic =>
  `(tactic| (unfold step? at $h:ident
             rw [if_neg (c := SSt.reported _ = true) (by rw [$hrep:ident]; exact Bool.false_ne_true)] at $h:ident
             simp only [spec?_def, node?_def] at $h:ident))

theorem step?_reported {s s' : SSt} {l : Lab} (hrep : s.reported = true) (h : step? s l = some s') :
    (∃ id rest, l = .tdRun id ∧ s.tds = id :: rest ∧ s' = { s with tds := rest, hist := s.hist ++ [l] }) ∨
    (l = .instantOver ∧ s' = { s with grace := false, hist := s.hist ++ [l] }) := by
  unfold step? at h
  rw [if_pos (c := s.reported = true) hrep] at h
  split at h
  · split at h
    · split at h
      · rename_i t rest hts heq
        subst heq
        exact .inl ⟨_, _, rfl, hts, (Option.some.inj h).symm⟩
      · cases h
    · cases h
  · exact .inr ⟨rfl, (Option.some.inj h).symm⟩
  · cases h

theorem step?_construct {s s' : SSt} {i : Nat} (hrep : s.reported = false)
    (h : step? s (.construct i) = some s') :
    ∃ c, s.prog[i]? = some c ∧ s.result = none ∧ i = s.constructed ∧ c.ctorFails = false ∧
      s' = { s with constructed := s.constructed + 1, hist := s.hist ++ [.construct i] } := by
  nr_unfold h hrep
  split at h
  · split at h
    · rename_i c hc hcond
      simp only [Bool.and_eq_true, Bool.not_eq_true', beq_iff_eq, Option.isNone_iff_eq_none] at hcond
      exact ⟨c, hc, hcond.1.1, hcond.1.2, hcond.2, (Option.some.inj h).symm⟩
    · cases h
  · cases h

theorem step?_ctorFailed {s s' : SSt} {i : Nat} (hrep : s.reported = false)
    (h : step? s (.ctorFailed i) = some s') :
    ∃ c, s.prog[i]? = some c ∧ s.result = none ∧ i = s.constructed ∧ c.ctorFails = true ∧
      s' = { s with result := some (.raised (.componentStart .creating i c.cls 0)),
                    hist := s.hist ++ [.ctorFailed i] } := by
  nr_unfold h hrep
  split at h
  · split at h
    · rename_i c hc hcond
      simp only [Bool.and_eq_true, beq_iff_eq, Option.isNone_iff_eq_none] at hcond
      exact ⟨c, hc, hcond.1.1, hcond.1.2, hcond.2, (Option.some.inj h).symm⟩
    · cases h
  · cases h

theorem step?_prepBegin {s s' : SSt} {i : Nat} (hrep : s.reported = false)
    (h : step? s (.prepBegin i) = some s') :
    ∃ c n acts, s.prog[i]? = some c ∧ s.nodes[i]? = some n ∧ c.prepare = some acts ∧ s.live = true ∧
      s.allConstructed = true ∧ n.prep = .notBegun ∧ s.reached s.fuel i = true ∧
      s' = { s.setNode i { n with prep := .running acts none } with hist := s.hist ++ [.prepBegin i] } := by
  nr_unfold h hrep
  split at h
  · split at h
    · split at h
      · rename_i _ _ c n hc hn _ acts hacts hcond
        simp only [Bool.and_eq_true, beq_iff_eq] at hcond
        exact ⟨c, n, acts, hc, hn, hacts, hcond.1.1.1, hcond.1.1.2, hcond.1.2, hcond.2,
          (Option.some.inj h).symm⟩
      · cases h
    · cases h
  · cases h

theorem step?_prepEnd {s s' : SSt} {i : Nat} (hrep : s.reported = false)
    (h : step? s (.prepEnd i) = some s') :
    ∃ n, s.nodes[i]? = some n ∧ s.live = true ∧ n.prep = .running [] none ∧
      s' = { s.setNode i { n with prep := .done } with hist := s.hist ++ [.prepEnd i] } := by
  nr_unfold h hrep
  split at h
  · split at h
    · rename_i _ n hn hcond
      simp only [Bool.and_eq_true, beq_iff_eq] at hcond
      exact ⟨n, hn, hcond.1, hcond.2, (Option.some.inj h).symm⟩
    · cases h
  · cases h

theorem step?_startBegin {s s' : SSt} {i : Nat} (hrep : s.reported = false)
    (h : step? s (.startBegin i) = some s') :
    ∃ c n acts, s.prog[i]? = some c ∧ s.nodes[i]? = some n ∧ c.start = some acts ∧ s.live = true ∧
      s.allConstructed = true ∧ n.start = .notBegun ∧ s.prepFinished i = true ∧
      s.reached s.fuel i = true ∧ c.children.all (fun ch => s.subtreeDone s.fuel ch) = true ∧
      s' = { s.setNode i { n with start := .running acts none } with hist := s.hist ++ [.startBegin i] } := by
  nr_unfold h hrep
  split at h
  · split at h
    · split at h
      · rename_i _ _ c n hc hn _ acts hacts hcond
        simp only [Bool.and_eq_true, beq_iff_eq] at hcond
        exact ⟨c, n, acts, hc, hn, hacts, hcond.1.1.1.1.1, hcond.1.1.1.1.2, hcond.1.1.1.2, hcond.1.1.2,
          hcond.1.2, hcond.2, (Option.some.inj h).symm⟩
      · cases h
    · cases h
  · cases h

theorem step?_startEnd {s s' : SSt} {i : Nat} (hrep : s.reported = false)
    (h : step? s (.startEnd i) = some s') :
    ∃ n, s.nodes[i]? = some n ∧ s.live = true ∧ n.start = .running [] none ∧
      s' = { s.setNode i { n with start := .done } with hist := s.hist ++ [.startEnd i] } := by
  nr_unfold h hrep
  split at h
  · split at h
    · rename_i _ n hn hcond
      simp only [Bool.and_eq_true, beq_iff_eq] at hcond
      exact ⟨n, hn, hcond.1, hcond.2, (Option.some.inj h).symm⟩
    · cases h
  · cases h

theorem step?_pub {s s' : SSt} {i : Nat} {ty : TypeId} {name : String} {v : Nat} (hrep : s.reported = false)
    (h : step? s (.pub i ty name v) = some s') :
    ∃ c ph rest, s.prog[i]? = some c ∧ s.current i = some (ph, .publish ty name v :: rest, none) ∧
      s.live = true ∧ acontains (⟨ty, publishName (phaseOf ph) c.dflt name⟩ : Key) s.res = false ∧
      s' = { SSt.setCurrent { s with res := s.res ++ [(⟨ty, publishName (phaseOf ph) c.dflt name⟩, Val.static v)] }
                i ph (.running rest none) with hist := s.hist ++ [.pub i ty name v] } := by
  nr_unfold h hrep
  split at h
  · split at h
    · rename_i _ _ c ph ty' name' v' rest hc hcur hcond
      simp only [Bool.and_eq_true, beq_iff_eq, Bool.not_eq_true'] at hcond
      obtain ⟨⟨⟨⟨hl, rfl⟩, rfl⟩, rfl⟩, hk⟩ := hcond
      exact ⟨c, ph, rest, hc, hcur, hl, hk, (Option.some.inj h).symm⟩
    · cases h
  · cases h

theorem step?_pubFac {s s' : SSt} {i : Nat} {ty : TypeId} {name : String} {fid : Nat} (hrep : s.reported = false)
    (h : step? s (.pubFac i ty name fid) = some s') :
    ∃ c ph rest, s.prog[i]? = some c ∧ s.current i = some (ph, .publishFactory ty name fid :: rest, none) ∧
      s.live = true ∧ acontains (⟨ty, publishName (phaseOf ph) c.dflt name⟩ : Key) s.fac = false ∧
      s' = { SSt.setCurrent { s with fac := s.fac ++ [(⟨ty, publishName (phaseOf ph) c.dflt name⟩, fid)] }
                i ph (.running rest none) with hist := s.hist ++ [.pubFac i ty name fid] } := by
  nr_unfold h hrep
  split at h
  · split at h
    · rename_i _ _ c ph ty' name' v' rest hc hcur hcond
      simp only [Bool.and_eq_true, beq_iff_eq, Bool.not_eq_true'] at hcond
      obtain ⟨⟨⟨⟨hl, rfl⟩, rfl⟩, rfl⟩, hk⟩ := hcond
      exact ⟨c, ph, rest, hc, hcur, hl, hk, (Option.some.inj h).symm⟩
    · cases h
  · cases h

theorem step?_req {s s' : SSt} {i : Nat} {k : Key} (hrep : s.reported = false)
    (h : step? s (.req i k) = some s') :
    ∃ ph ty name rest, s.current i = some (ph, .await ty name :: rest, none) ∧ s.live = true ∧
      k = ⟨ty, name⟩ ∧
      s' = { s.setCurrent i ph (.running (.await ty name :: rest) (some k)) with hist := s.hist ++ [.req i k] } := by
  nr_unfold h hrep
  split at h
  · split at h
    · rename_i _ ph ty name rest hcur hcond
      simp only [Bool.and_eq_true, beq_iff_eq] at hcond
      exact ⟨ph, ty, name, rest, hcur, hcond.1, hcond.2, (Option.some.inj h).symm⟩
    · cases h
  · cases h

theorem step?_got {s s' : SSt} {i : Nat} {k : Key} {v : Val} (hrep : s.reported = false)
    (h : step? s (.got i k v) = some s') :
    ∃ ph ty name rest t, s.current i = some (ph, .await ty name :: rest, some k) ∧ s.live = true ∧
      s.lookup k = some (v, t) ∧
      s' = { t.setCurrent i ph (.running rest none) with hist := s.hist ++ [.got i k v] } := by
  nr_unfold h hrep
  split at h
  · split at h
    · split at h
      · split at h
        · rename_i _ ph ty name rest k' hcur hcond _ v' t hlk hv
          simp only [Bool.and_eq_true, beq_iff_eq] at hcond hv
          obtain ⟨hl, rfl⟩ := hcond
          subst hv
          exact ⟨ph, ty, name, rest, t, hcur, hl, hlk, (Option.some.inj h).symm⟩
        · cases h
      · cases h
    · cases h
  · cases h

theorem step?_gotOpt {s s' : SSt} {i : Nat} {k : Key} {v : Option Val} (hrep : s.reported = false)
    (h : step? s (.gotOpt i k v) = some s') :
    ∃ ph ty name rest, s.current i = some (ph, .awaitOpt ty name :: rest, none) ∧ s.live = true ∧
      k = ⟨ty, name⟩ ∧
      ((∃ v' t, s.lookup k = some (v', t) ∧ v = some v' ∧
          s' = { t.setCurrent i ph (.running rest none) with hist := s.hist ++ [.gotOpt i k v] }) ∨
       (s.lookup k = none ∧ v = none ∧
          s' = { s.setCurrent i ph (.running rest none) with hist := s.hist ++ [.gotOpt i k v] })) := by
  nr_unfold h hrep
  split at h
  · split at h
    · rename_i _ ph ty name rest hcur hcond
      simp only [Bool.and_eq_true, beq_iff_eq] at hcond
      refine ⟨ph, ty, name, rest, hcur, hcond.1, hcond.2, ?_⟩
      split at h
      · split at h
        · rename_i _ v' t hlk hv
          simp only [beq_iff_eq] at hv
          exact .inl ⟨v', t, hlk, hv, (Option.some.inj h).symm⟩
        · cases h
      · split at h
        · rename_i _ hlk hv
          simp only [beq_iff_eq] at hv
          exact .inr ⟨hlk, hv, (Option.some.inj h).symm⟩
        · cases h
    · cases h
  · cases h

theorem step?_tick {s s' : SSt} {i : Nat} (hrep : s.reported = false)
    (h : step? s (.tick i) = some s') :
    ∃ ph d rest, s.current i = some (ph, .tick d :: rest, none) ∧ s.live = true ∧
      s' = { s.setCurrent i ph (.running rest none) with hist := s.hist ++ [.tick i] } := by
  nr_unfold h hrep
  split at h
  · split at h
    · rename_i _ ph d rest hcur hcond
      exact ⟨ph, d, rest, hcur, hcond, (Option.some.inj h).symm⟩
    · cases h
  · cases h

theorem step?_regTd {s s' : SSt} {i id : Nat} (hrep : s.reported = false)
    (h : step? s (.regTd i id) = some s') :
    ∃ ph rest, s.current i = some (ph, .regTd id :: rest, none) ∧ s.live = true ∧
      s' = { SSt.setCurrent { s with tds := id :: s.tds } i ph (.running rest none) with
                hist := s.hist ++ [.regTd i id] } := by
  nr_unfold h hrep
  split at h
  · split at h
    · rename_i _ ph id' rest hcur hcond
      simp only [Bool.and_eq_true, beq_iff_eq] at hcond
      obtain ⟨hl, rfl⟩ := hcond
      exact ⟨ph, rest, hcur, hl, (Option.some.inj h).symm⟩
    · cases h
  · cases h

theorem step?_failed {s s' : SSt} {i e : Nat} (hrep : s.reported = false)
    (h : step? s (.failed i e) = some s') :
    ∃ c ph rest, s.prog[i]? = some c ∧ s.current i = some (ph, .fail e :: rest, none) ∧ s.result = none ∧
      s' = { SSt.setCurrent { s with result := some (.raised (.componentStart ph i c.cls e)), grace := true }
                i ph .cancelled with hist := s.hist ++ [.failed i e] } := by
  nr_unfold h hrep
  split at h
  · split at h
    · rename_i _ _ c ph e' rest hc hcur hcond
      simp only [Bool.and_eq_true, beq_iff_eq, Option.isNone_iff_eq_none] at hcond
      obtain ⟨hr, rfl⟩ := hcond
      exact ⟨c, ph, rest, hc, hcur, hr, (Option.some.inj h).symm⟩
    · cases h
  · cases h

theorem step?_cancelSeen {s s' : SSt} {i : Nat} (hrep : s.reported = false)
    (h : step? s (.cancelSeen i) = some s') :
    ∃ ph rest b, s.current i = some (ph, rest, b) ∧ s.result.isSome = true ∧
      s' = { s.setCurrent i ph .cancelled with hist := s.hist ++ [.cancelSeen i] } := by
  nr_unfold h hrep
  split at h
  · split at h
    · rename_i _ ph rest b hcur hcond
      exact ⟨ph, rest, b, hcur, hcond, (Option.some.inj h).symm⟩
    · cases h
  · cases h

theorem step?_timeoutFired {s s' : SSt} (hrep : s.reported = false)
    (h : step? s .timeoutFired = some s') :
    s.hasTimeout = true ∧ s.result = none ∧ s.allConstructed = true ∧ s.subtreeDone s.fuel 0 = false ∧
      s' = { s with result := some (.raised .timeout), grace := true, hist := s.hist ++ [.timeoutFired] } := by
  nr_unfold h hrep
  split at h
  · rename_i hcond
    simp only [Bool.and_eq_true, Bool.not_eq_true', Option.isNone_iff_eq_none] at hcond
    exact ⟨hcond.1.1.1, hcond.1.1.2, hcond.1.2, hcond.2, (Option.some.inj h).symm⟩
  · cases h

theorem step?_returned {s s' : SSt} (hrep : s.reported = false)
    (h : step? s .returned = some s') :
    s.result = none ∧ s.allConstructed = true ∧ s.subtreeDone s.fuel 0 = true ∧
      s' = { s with result := some .returned, reported := true, hist := s.hist ++ [.returned] } := by
  nr_unfold h hrep
  split at h
  · rename_i hcond
    simp only [Bool.and_eq_true, Option.isNone_iff_eq_none] at hcond
    exact ⟨hcond.1.1, hcond.1.2, hcond.2, (Option.some.inj h).symm⟩
  · cases h

theorem step?_raised {s s' : SSt} {e : StartErr} (hrep : s.reported = false)
    (h : step? s (.raised e) = some s') :
    s.result = some (.raised e) ∧
      (List.range s.prog.length).all (fun i => (s.current i).isNone) = true ∧
      s' = { s with reported := true, hist := s.hist ++ [.raised e] } := by
  nr_unfold h hrep
  split at h
  · rename_i hcond
    simp only [Bool.and_eq_true, beq_iff_eq] at hcond
    exact ⟨hcond.1, hcond.2, (Option.some.inj h).symm⟩
  · cases h

theorem step?_tdRun {s s' : SSt} {id : Nat} (hrep : s.reported = false)
    (h : step? s (.tdRun id) = some s') : False := by
  nr_unfold h hrep
  cases h

theorem step?_instantOver {s s' : SSt} (hrep : s.reported = false)
    (h : step? s .instantOver = some s') :
    s.result.isSome = true ∧ s' = { s with grace := false, hist := s.hist ++ [.instantOver] } := by
  nr_unfold h hrep
  split at h
  · rename_i hcond
    exact ⟨hcond, (Option.some.inj h).symm⟩
  · cases h

/-! ### `current`, `lookup` -/

theorem current_some {s : SSt} {i : Nat} {ph : StartPhase} {rest : List Act} {b : Option Key}
    (h : s.current i = some (ph, rest, b)) :
    ∃ n, s.nodes[i]? = some n ∧
      ((ph = .preparing ∧ n.prep = .running rest b) ∨ (ph = .starting ∧ n.start = .running rest b)) := by
  unfold SSt.current at h
  simp only [node?_def] at h
  split at h
  · rename_i r b' st hn
    simp only [Option.some.injEq, Prod.mk.injEq] at h
    obtain ⟨rfl, rfl, rfl⟩ := h
    exact ⟨_, hn, .inl ⟨rfl, rfl⟩⟩
  · rename_i pr r b' _ hn
    simp only [Option.some.injEq, Prod.mk.injEq] at h
    obtain ⟨rfl, rfl, rfl⟩ := h
    exact ⟨_, hn, .inr ⟨rfl, rfl⟩⟩
  · cases h

theorem current_congr {s t : SSt} (h : t.nodes = s.nodes) (i : Nat) : t.current i = s.current i := by
  unfold SSt.current
  simp only [node?_def, h]

theorem lookup_inv {s t : SSt} {k : Key} {v : Val} (h : s.lookup k = some (v, t)) :
    (alookup k s.res = some v ∧ t = s) ∨
    (alookup k s.res = none ∧ ∃ fid, alookup k s.fac = some fid ∧ v = .gen 0 fid 0 ∧
      t = { s with res := s.res ++ (s.genKeys fid).map (fun k' => (k', .gen 0 fid 0)) }) := by
  unfold SSt.lookup at h
  split at h
  · rename_i v' hv
    simp only [Option.some.injEq, Prod.mk.injEq] at h
    obtain ⟨rfl, rfl⟩ := h
    exact .inl ⟨hv, rfl⟩
  · rename_i hv
    split at h
    · rename_i fid hf
      simp only [Option.some.injEq, Prod.mk.injEq] at h
      obtain ⟨rfl, rfl⟩ := h
      exact .inr ⟨hv, fid, hf, rfl, rfl⟩
    · cases h

theorem lookup_none {s : SSt} {k : Key} :
    s.lookup k = none ↔ alookup k s.res = none ∧ alookup k s.fac = none := by
  unfold SSt.lookup
  split
  · rename_i v hv; simp [hv]
  · rename_i hv
    split
    · rename_i fid hf; simp [hf]
    · rename_i hf; simp [hv, hf]

/-- A successful lookup changes nothing but (possibly) `res`, which grows at the end. -/
theorem lookup_frame {s t : SSt} {k : Key} {v : Val} (h : s.lookup k = some (v, t)) :
    ∃ r, t = { s with res := s.res ++ r } := by
  rcases lookup_inv h with ⟨_, rfl⟩ | ⟨_, fid, _, _, rfl⟩
  · exact ⟨[], by simp⟩
  · exact ⟨_, rfl⟩

/-! ### Enabledness (forward direction) of the lookups -/

theorem step?_got_fwd {s t : SSt} {i : Nat} {k : Key} {v : Val} {ph : StartPhase} {ty : TypeId}
    {name : String} {rest : List Act} (hrep : s.reported = false)
    (hcur : s.current i = some (ph, .await ty name :: rest, some k)) (hlive : s.live = true)
    (hlk : s.lookup k = some (v, t)) :
    step? s (.got i k v) =
      some { t.setCurrent i ph (.running rest none) with hist := s.hist ++ [.got i k v] } := by
  unfold step?
  rw [if_neg (c := s.reported = true) (by rw [hrep]; exact Bool.false_ne_true)]
  simp only [hcur, hlive, hlk, beq_self_eq_true, Bool.and_self, ↓reduceIte]

theorem step?_gotOpt_some_fwd {s t : SSt} {i : Nat} {v : Val} {ph : StartPhase} {ty : TypeId}
    {name : String} {rest : List Act} (hrep : s.reported = false)
    (hcur : s.current i = some (ph, .awaitOpt ty name :: rest, none)) (hlive : s.live = true)
    (hlk : s.lookup ⟨ty, name⟩ = some (v, t)) :
    step? s (.gotOpt i ⟨ty, name⟩ (some v)) =
      some { t.setCurrent i ph (.running rest none) with hist := s.hist ++ [.gotOpt i ⟨ty, name⟩ (some v)] } := by
  unfold step?
  rw [if_neg (c := s.reported = true) (by rw [hrep]; exact Bool.false_ne_true)]
  simp only [hcur, hlive, hlk, beq_self_eq_true, Bool.and_self, ↓reduceIte]

theorem step?_gotOpt_none_fwd {s : SSt} {i : Nat} {ph : StartPhase} {ty : TypeId}
    {name : String} {rest : List Act} (hrep : s.reported = false)
    (hcur : s.current i = some (ph, .awaitOpt ty name :: rest, none)) (hlive : s.live = true)
    (hlk : s.lookup ⟨ty, name⟩ = none) :
    step? s (.gotOpt i ⟨ty, name⟩ none) =
      some { s.setCurrent i ph (.running rest none) with hist := s.hist ++ [.gotOpt i ⟨ty, name⟩ none] } := by
  unfold step?
  rw [if_neg (c := s.reported = true) (by rw [hrep]; exact Bool.false_ne_true)]
  simp only [hcur, hlive, hlk, beq_self_eq_true, Bool.and_self, ↓reduceIte]

/-! ### Monotonicity of the run states -/

/-- How the run state of one phase of a component can change in one step: not at all, or from
`notBegun` (only if the phase has a body), or from `running`. In particular `done` and `cancelled`
are final. -/
def RunMono (body : Option (List Act)) (r r' : Run) : Prop :=
  r' = r ∨ (r = .notBegun ∧ body.isSome = true) ∨ (∃ rest b, r = .running rest b)

def NodeMono (c : CompSpec) (n n' : NodeSt) : Prop :=
  RunMono c.prepare n.prep n'.prep ∧ RunMono c.start n.start n'.start

theorem NodeMono.refl (c : CompSpec) (n : NodeSt) : NodeMono c n n := ⟨.inl rfl, .inl rfl⟩

/-- At most one node changes, monotonically. -/
def NodesRel (prog : List CompSpec) (ns ns' : List NodeSt) : Prop :=
  ns' = ns ∨ ∃ i n n', ns[i]? = some n ∧ ns' = ns.set i n' ∧ ∀ c, prog[i]? = some c → NodeMono c n n'

theorem setCurrent_rel {s u : SSt} (prog : List CompSpec) {i : Nat} {ph : StartPhase} {rest : List Act}
    {b : Option Key} (r : Run) (hu : u.nodes = s.nodes) (hcur : s.current i = some (ph, rest, b)) :
    NodesRel prog s.nodes (u.setCurrent i ph r).nodes := by
  obtain ⟨n, hn, hph⟩ := current_some hcur
  rw [setCurrent_nodes_some u i ph r n (by rw [hu]; exact hn), hu]
  refine .inr ⟨i, n, _, hn, rfl, fun c _ => ?_⟩
  rcases hph with ⟨rfl, hp⟩ | ⟨rfl, hp⟩
  · simp only [↓reduceIte]
    exact ⟨.inr (.inr ⟨_, _, hp⟩), .inl rfl⟩
  · simp only [reduceCtorEq, ↓reduceIte]
    exact ⟨.inl rfl, .inr (.inr ⟨_, _, hp⟩)⟩

/-! ### What every step preserves -/

structure StepSum (s : SSt) (l : Lab) (s' : SSt) : Prop where
  prog : s'.prog = s.prog
  hasTimeout : s'.hasTimeout = s.hasTimeout
  hist : s'.hist = s.hist ++ [l]
  res : ∃ r, s'.res = s.res ++ r
  fac : ∃ f, s'.fac = s.fac ++ f
  result : ∀ r, s.result = some r → s'.result = some r
  nodes : NodesRel s.prog s.nodes s'.nodes

theorem nodesRel_setNode (prog : List CompSpec) (ns : List NodeSt) (i : Nat) (n n' : NodeSt)
    (hn : ns[i]? = some n) (h : ∀ c, prog[i]? = some c → NodeMono c n n') :
    NodesRel prog ns (ns.set i n') := .inr ⟨i, n, n', hn, rfl, h⟩

theorem step?_sum {s s' : SSt} {l : Lab} (h : step? s l = some s') : StepSum s l s' := by
  by_cases hrep : s.reported = true
  · rcases step?_reported hrep h with ⟨id, rest, rfl, _, rfl⟩ | ⟨rfl, rfl⟩
    · exact ⟨rfl, rfl, rfl, ⟨[], by simp⟩, ⟨[], by simp⟩, fun r hr => hr, .inl rfl⟩
    · exact ⟨rfl, rfl, rfl, ⟨[], by simp⟩, ⟨[], by simp⟩, fun r hr => hr, .inl rfl⟩
  · have hrep : s.reported = false := by simpa using hrep
    cases l with
    | construct i =>
      obtain ⟨c, _, _, _, _, rfl⟩ := step?_construct hrep h
      exact ⟨rfl, rfl, rfl, ⟨[], by simp⟩, ⟨[], by simp⟩, fun r hr => hr, .inl rfl⟩
    | ctorFailed i =>
      obtain ⟨c, _, hr, _, _, rfl⟩ := step?_ctorFailed hrep h
      exact ⟨rfl, rfl, rfl, ⟨[], by simp⟩, ⟨[], by simp⟩, fun r hr' => by simp [hr] at hr', .inl rfl⟩
    | prepBegin i =>
      obtain ⟨c, n, acts, hc, hn, hacts, _, _, hnb, _, rfl⟩ := step?_prepBegin hrep h
      refine ⟨rfl, rfl, rfl, ⟨[], by simp [SSt.setNode]⟩, ⟨[], by simp [SSt.setNode]⟩, fun r hr => hr, ?_⟩
      refine nodesRel_setNode _ _ _ _ _ hn fun c' hc' => ?_
      rw [hc] at hc'; cases hc'
      exact ⟨.inr (.inl ⟨hnb, by simp [hacts]⟩), .inl rfl⟩
    | prepEnd i =>
      obtain ⟨n, hn, _, hp, rfl⟩ := step?_prepEnd hrep h
      refine ⟨rfl, rfl, rfl, ⟨[], by simp [SSt.setNode]⟩, ⟨[], by simp [SSt.setNode]⟩, fun r hr => hr, ?_⟩
      exact nodesRel_setNode _ _ _ _ _ hn fun c' _ => ⟨.inr (.inr ⟨_, _, hp⟩), .inl rfl⟩
    | startBegin i =>
      obtain ⟨c, n, acts, hc, hn, hacts, _, _, hnb, _, _, _, rfl⟩ := step?_startBegin hrep h
      refine ⟨rfl, rfl, rfl, ⟨[], by simp [SSt.setNode]⟩, ⟨[], by simp [SSt.setNode]⟩, fun r hr => hr, ?_⟩
      refine nodesRel_setNode _ _ _ _ _ hn fun c' hc' => ?_
      rw [hc] at hc'; cases hc'
      exact ⟨.inl rfl, .inr (.inl ⟨hnb, by simp [hacts]⟩)⟩
    | startEnd i =>
      obtain ⟨n, hn, _, hp, rfl⟩ := step?_startEnd hrep h
      refine ⟨rfl, rfl, rfl, ⟨[], by simp [SSt.setNode]⟩, ⟨[], by simp [SSt.setNode]⟩, fun r hr => hr, ?_⟩
      exact nodesRel_setNode _ _ _ _ _ hn fun c' _ => ⟨.inl rfl, .inr (.inr ⟨_, _, hp⟩)⟩
    | pub i ty name v =>
      obtain ⟨c, ph, rest, _, hcur, _, _, rfl⟩ := step?_pub hrep h
      exact ⟨by simp, by simp, rfl, ⟨_, by simp; rfl⟩, ⟨[], by simp⟩, fun r hr => by simpa using hr,
        setCurrent_rel _ _ rfl hcur⟩
    | pubFac i ty name fid =>
      obtain ⟨c, ph, rest, _, hcur, _, _, rfl⟩ := step?_pubFac hrep h
      exact ⟨by simp, by simp, rfl, ⟨[], by simp⟩, ⟨_, by simp; rfl⟩, fun r hr => by simpa using hr,
        setCurrent_rel _ _ rfl hcur⟩
    | req i k =>
      obtain ⟨ph, ty, name, rest, hcur, _, _, rfl⟩ := step?_req hrep h
      exact ⟨by simp, by simp, rfl, ⟨[], by simp⟩, ⟨[], by simp⟩, fun r hr => by simpa using hr,
        setCurrent_rel _ _ rfl hcur⟩
    | got i k v =>
      obtain ⟨ph, ty, name, rest, t, hcur, _, hlk, rfl⟩ := step?_got hrep h
      obtain ⟨r, rfl⟩ := lookup_frame hlk
      exact ⟨by simp, by simp, rfl, ⟨r, by simp⟩, ⟨[], by simp⟩, fun r hr => by simpa using hr,
        setCurrent_rel _ _ rfl hcur⟩
    | gotOpt i k v =>
      obtain ⟨ph, ty, name, rest, hcur, _, _, hh⟩ := step?_gotOpt hrep h
      rcases hh with ⟨v', t, hlk, _, rfl⟩ | ⟨_, _, rfl⟩
      · obtain ⟨r, rfl⟩ := lookup_frame hlk
        exact ⟨by simp, by simp, rfl, ⟨r, by simp⟩, ⟨[], by simp⟩, fun r hr => by simpa using hr,
          setCurrent_rel _ _ rfl hcur⟩
      · exact ⟨by simp, by simp, rfl, ⟨[], by simp⟩, ⟨[], by simp⟩, fun r hr => by simpa using hr,
          setCurrent_rel _ _ rfl hcur⟩
    | tick i =>
      obtain ⟨ph, d, rest, hcur, _, rfl⟩ := step?_tick hrep h
      exact ⟨by simp, by simp, rfl, ⟨[], by simp⟩, ⟨[], by simp⟩, fun r hr => by simpa using hr,
        setCurrent_rel _ _ rfl hcur⟩
    | regTd i id =>
      obtain ⟨ph, rest, hcur, _, rfl⟩ := step?_regTd hrep h
      exact ⟨by simp, by simp, rfl, ⟨[], by simp⟩, ⟨[], by simp⟩, fun r hr => by simpa using hr,
        setCurrent_rel _ _ rfl hcur⟩
    | failed i e =>
      obtain ⟨c, ph, rest, _, hcur, hr, rfl⟩ := step?_failed hrep h
      exact ⟨by simp, by simp, rfl, ⟨[], by simp⟩, ⟨[], by simp⟩, fun r hr' => by simp [hr] at hr',
        setCurrent_rel _ _ rfl hcur⟩
    | cancelSeen i =>
      obtain ⟨ph, rest, b, hcur, _, rfl⟩ := step?_cancelSeen hrep h
      exact ⟨by simp, by simp, rfl, ⟨[], by simp⟩, ⟨[], by simp⟩, fun r hr => by simpa using hr,
        setCurrent_rel _ _ rfl hcur⟩
    | timeoutFired =>
      obtain ⟨_, hr, _, _, rfl⟩ := step?_timeoutFired hrep h
      exact ⟨rfl, rfl, rfl, ⟨[], by simp⟩, ⟨[], by simp⟩, fun r hr' => by simp [hr] at hr', .inl rfl⟩
    | returned =>
      obtain ⟨hr, _, _, rfl⟩ := step?_returned hrep h
      exact ⟨rfl, rfl, rfl, ⟨[], by simp⟩, ⟨[], by simp⟩, fun r hr' => by simp [hr] at hr', .inl rfl⟩
    | raised e =>
      obtain ⟨_, _, rfl⟩ := step?_raised hrep h
      exact ⟨rfl, rfl, rfl, ⟨[], by simp⟩, ⟨[], by simp⟩, fun r hr => hr, .inl rfl⟩
    | tdRun id => exact (step?_tdRun hrep h).elim
    | instantOver =>
      obtain ⟨_, rfl⟩ := step?_instantOver hrep h
      exact ⟨rfl, rfl, rfl, ⟨[], by simp⟩, ⟨[], by simp⟩, fun r hr => hr, .inl rfl⟩

theorem nrep_of_step {s s' : SSt} {l : Lab} (h : step? s l = some s') (h1 : ∀ id, l ≠ .tdRun id)
    (h2 : l ≠ .instantOver) : s.reported = false := by
  cases hrep : s.reported with
  | false => rfl
  | true =>
    rcases step?_reported hrep h with ⟨id, _, hl, _⟩ | ⟨hl, _⟩
    · exact (h1 id hl).elim
    · exact (h2 hl).elim

/-! ### Node-wise consequences of `NodesRel` -/

theorem nodesRel_fwd {prog : List CompSpec} {ns ns' : List NodeSt} (h : NodesRel prog ns ns') {d : Nat}
    {c : CompSpec} {n : NodeSt} (hc : prog[d]? = some c) (hn : ns[d]? = some n) :
    ∃ n', ns'[d]? = some n' ∧ NodeMono c n n' := by
  rcases h with rfl | ⟨i, n0, n1, hi, rfl, hm⟩
  · exact ⟨n, hn, NodeMono.refl c n⟩
  · by_cases hd : i = d
    · subst hd
      rw [hi] at hn; cases hn
      have hlt : i < ns.length := by
        rcases List.getElem?_eq_some_iff.1 hi with ⟨hlt, _⟩; exact hlt
      exact ⟨n1, by rw [List.getElem?_set_self hlt], hm c hc⟩
    · exact ⟨n, by rw [List.getElem?_set_ne hd]; exact hn, NodeMono.refl c n⟩

theorem nodesRel_bwd {prog : List CompSpec} {ns ns' : List NodeSt} (h : NodesRel prog ns ns') {d : Nat}
    {c : CompSpec} {n' : NodeSt} (hc : prog[d]? = some c) (hn : ns'[d]? = some n') :
    ∃ n, ns[d]? = some n ∧ NodeMono c n n' := by
  have hlen : ns'.length = ns.length := by
    rcases h with rfl | ⟨i, n0, n1, hi, rfl, hm⟩
    · rfl
    · simp
  have hlt : d < ns.length := by
    rcases List.getElem?_eq_some_iff.1 hn with ⟨hlt, _⟩; rw [hlen] at hlt; exact hlt
  obtain ⟨n'', hn'', hm⟩ := nodesRel_fwd h hc (List.getElem?_eq_getElem hlt)
  rw [hn] at hn''; cases hn''
  exact ⟨_, List.getElem?_eq_getElem hlt, hm⟩

theorem nodesRel_ne {prog : List CompSpec} {ns ns' : List NodeSt} (h : NodesRel prog ns ns') :
    ns'.length = ns.length := by
  rcases h with rfl | ⟨i, n0, n1, hi, rfl, hm⟩
  · rfl
  · simp

/-! ### Finished components and subtrees -/

theorem prepFinished_iff (s : SSt) (d : Nat) :
    s.prepFinished d = true ↔
      ∃ c n, s.prog[d]? = some c ∧ s.nodes[d]? = some n ∧ (c.prepare = none ∨ n.prep = .done) := by
  cases hc : s.prog[d]? <;> cases hn : s.nodes[d]? <;>
    simp [SSt.prepFinished, hc, hn, Option.isNone_iff_eq_none]

theorem startFinished_iff (s : SSt) (d : Nat) :
    s.startFinished d = true ↔
      ∃ c n, s.prog[d]? = some c ∧ s.nodes[d]? = some n ∧ (c.start = none ∨ n.start = .done) := by
  cases hc : s.prog[d]? <;> cases hn : s.nodes[d]? <;>
    simp [SSt.startFinished, hc, hn, Option.isNone_iff_eq_none]

/-- Component `d` has nothing left to run: both phases are absent or have returned. -/
def Finished (s : SSt) (d : Nat) : Prop := s.prepFinished d = true ∧ s.startFinished d = true

theorem fin_iff (s : SSt) (d : Nat) :
    Finished s d ↔ ∃ c n, s.prog[d]? = some c ∧ s.nodes[d]? = some n ∧
      (c.prepare = none ∨ n.prep = .done) ∧ (c.start = none ∨ n.start = .done) := by
  unfold Finished
  rw [prepFinished_iff, startFinished_iff]
  constructor
  · rintro ⟨⟨c, n, hc, hn, hp⟩, ⟨c', n', hc', hn', hs⟩⟩
    rw [hc] at hc'; cases hc'
    rw [hn] at hn'; cases hn'
    exact ⟨c, n, hc, hn, hp, hs⟩
  · rintro ⟨c, n, hc, hn, hp, hs⟩
    exact ⟨⟨c, n, hc, hn, hp⟩, ⟨c, n, hc, hn, hs⟩⟩

theorem runMono_done {body : Option (List Act)} {r' : Run} (h : RunMono body .done r') : r' = .done := by
  rcases h with h | ⟨h, _⟩ | ⟨_, _, h⟩
  · exact h
  · cases h
  · cases h

theorem runMono_cancelled {body : Option (List Act)} {r' : Run} (h : RunMono body .cancelled r') :
    r' = .cancelled := by
  rcases h with h | ⟨h, _⟩ | ⟨_, _, h⟩
  · exact h
  · cases h
  · cases h

theorem runMono_none {r r' : Run} (h : RunMono none r r') (hr : r = .notBegun) : r' = .notBegun := by
  subst hr
  rcases h with h | ⟨_, h⟩ | ⟨_, _, h⟩
  · exact h
  · cases h
  · cases h

/-- A finished component stays finished. -/
theorem fin_step {s s' : SSt} {l : Lab} (h : step? s l = some s') {d : Nat} (hf : Finished s d) : Finished s' d := by
  have hs := step?_sum h
  rw [fin_iff] at hf ⊢
  obtain ⟨c, n, hc, hn, hp, hst⟩ := hf
  obtain ⟨n', hn', hm1, hm2⟩ := nodesRel_fwd hs.nodes hc hn
  refine ⟨c, n', by rw [hs.prog]; exact hc, hn', ?_, ?_⟩
  · rcases hp with hp | hp
    · exact .inl hp
    · rw [hp] at hm1; exact .inr (runMono_done hm1)
  · rcases hst with hp | hp
    · exact .inl hp
    · rw [hp] at hm2; exact .inr (runMono_done hm2)

theorem subtreeDone_succ {s : SSt} {f i : Nat} (h : s.subtreeDone (f + 1) i = true) :
    ∃ c, s.prog[i]? = some c ∧ s.prepFinished i = true ∧
      (∀ ch ∈ c.children, s.subtreeDone f ch = true) ∧ s.startFinished i = true := by
  unfold SSt.subtreeDone at h
  simp only [spec?_def] at h
  split at h
  · cases h
  · rename_i c hc
    simp only [Bool.and_eq_true, List.all_eq_true] at h
    exact ⟨c, hc, h.1.1, h.1.2, h.2⟩

theorem subtreeDone_fin {s : SSt} {f i : Nat} (h : s.subtreeDone f i = true) : Finished s i := by
  cases f with
  | zero => simp [SSt.subtreeDone] at h
  | succ f =>
    obtain ⟨c, _, hp, _, hs⟩ := subtreeDone_succ h
    exact ⟨hp, hs⟩

/-- A proper descendant of `a` is a child of `a` or a proper descendant of a child. -/
theorem desc_child_or {prog : List CompSpec} {d a : Nat} (h : Desc prog d a) :
    ∃ c, prog[a]? = some c ∧ ∃ ch, ch ∈ c.children ∧ (d = ch ∨ Desc prog d ch) := by
  induction h with
  | child a d c hc hd => exact ⟨c, hc, d, hd, .inl rfl⟩
  | trans a m d _ hdm ih1 _ =>
    obtain ⟨c, hc, ch, hch, hm⟩ := ih1
    refine ⟨c, hc, ch, hch, .inr ?_⟩
    rcases hm with rfl | hm
    · exact hdm
    · exact Desc.trans _ _ _ hm hdm

/-- If the subtree of `a` is done, so is the subtree of every descendant. -/
theorem subtreeDone_desc {s : SSt} {d a : Nat} (h : Desc s.prog d a) :
    ∀ f, s.subtreeDone f a = true → ∃ f', s.subtreeDone f' d = true := by
  induction h with
  | child a d c hc hd =>
    intro f hf
    cases f with
    | zero => simp [SSt.subtreeDone] at hf
    | succ f =>
      obtain ⟨c', hc', _, hch, _⟩ := subtreeDone_succ hf
      rw [hc] at hc'; cases hc'
      exact ⟨f, hch d hd⟩
  | trans a m d _ _ ih1 ih2 =>
    intro f hf
    obtain ⟨f1, h1⟩ := ih1 f hf
    exact ih2 f1 h1

/-! ### Reachability (peeling the last label) and the invariant -/

/-- States reachable from the initial state, defined by adding labels at the end. -/
inductive Reach (prog : List CompSpec) (to : Bool) : SSt → Prop
  | init : Reach prog to (SSt.init prog to)
  | step (s s' : SSt) (l : Lab) : Reach prog to s → step? s l = some s' → Reach prog to s'

theorem reach_of_exec {prog : List CompSpec} {to : Bool} {s s' : SSt} {ls : List Lab}
    (h : Exec s ls s') (hr : Reach prog to s) : Reach prog to s' := by
  induction h with
  | nil s => exact hr
  | cons s s1 s2 l ls hstep _ ih => exact ih (Reach.step s s1 l hr hstep)

theorem exec_snoc {s s' s'' : SSt} {ls : List Lab} {l : Lab} (h : Exec s ls s')
    (hstep : step? s' l = some s'') : Exec s (ls ++ [l]) s'' := by
  induction h with
  | nil s => exact Exec.cons _ _ _ _ _ hstep (Exec.nil _)
  | cons s s1 s2 l' ls hs _ ih => exact Exec.cons _ _ _ _ _ hs (ih hstep)

theorem exec_of_reach {prog : List CompSpec} {to : Bool} {s : SSt} (h : Reach prog to s) :
    ∃ ls, Exec (SSt.init prog to) ls s := by
  induction h with
  | init => exact ⟨[], Exec.nil _⟩
  | step s s' l _ hstep ih =>
    obtain ⟨ls, hls⟩ := ih
    exact ⟨ls ++ [l], exec_snoc hls hstep⟩

structure Inv (prog : List CompSpec) (s : SSt) : Prop where
  hprog : s.prog = prog
  len : s.nodes.length = prog.length
  /-- a phase without a body is never begun -/
  nobody : ∀ (i : Nat) (c : CompSpec) (n : NodeSt), prog[i]? = some c → s.nodes[i]? = some n →
    (c.prepare = none → n.prep = .notBegun) ∧ (c.start = none → n.start = .notBegun)
  /-- the phase that failed stays cancelled -/
  failedCancelled : ∀ (i e : Nat), Lab.failed i e ∈ s.hist →
    ∃ (c : CompSpec) (n : NodeSt), prog[i]? = some c ∧ s.nodes[i]? = some n ∧ (n.prep = .cancelled ∨ n.start = .cancelled)
  /-- when start() of `a` has begun, all its proper descendants are finished -/
  startedDescFin : ∀ a, Lab.startBegin a ∈ s.hist → ∀ d, Desc prog d a → Finished s d
  failedRaised : ∀ i e, Lab.failed i e ∈ s.hist → ∃ err, s.result = some (.raised err)
  returnedResult : Lab.returned ∈ s.hist → s.result = some .returned

theorem inv_init (prog : List CompSpec) (to : Bool) : Inv prog (SSt.init prog to) := by
  refine ⟨rfl, by simp [SSt.init], ?_, ?_, ?_, ?_, ?_⟩
  · intro i c n _ hn
    simp only [SSt.init, List.getElem?_map] at hn
    cases hp : prog[i]? with
    | none => simp [hp] at hn
    | some c' =>
      simp only [hp, Option.map_some, Option.some.injEq] at hn
      subst hn
      exact ⟨fun _ => rfl, fun _ => rfl⟩
  · intro i e h; simp [SSt.init] at h
  · intro a h; simp [SSt.init] at h
  · intro i e h; simp [SSt.init] at h
  · intro h; simp [SSt.init] at h

theorem setCurrent_get {s u : SSt} {i : Nat} {ph : StartPhase} {rest : List Act} {b : Option Key} (r : Run)
    (hu : u.nodes = s.nodes) (hcur : s.current i = some (ph, rest, b)) :
    ∃ n', (u.setCurrent i ph r).nodes[i]? = some n' ∧ (n'.prep = r ∨ n'.start = r) := by
  obtain ⟨n, hn, hph⟩ := current_some hcur
  have hlt : i < s.nodes.length := by
    rcases List.getElem?_eq_some_iff.1 hn with ⟨hlt, _⟩; exact hlt
  rw [setCurrent_nodes_some u i ph r n (by rw [hu]; exact hn), hu, List.getElem?_set_self hlt]
  refine ⟨_, rfl, ?_⟩
  rcases hph with ⟨rfl, _⟩ | ⟨rfl, _⟩
  · exact .inl (by simp)
  · exact .inr (by simp)

theorem fin_congr {s s' : SSt} {d : Nat} (hp : s'.prog = s.prog) (hn : s'.nodes[d]? = s.nodes[d]?)
    (h : Finished s d) : Finished s' d := by
  rw [fin_iff] at h ⊢
  rw [hp, hn]; exact h

theorem inv_step {prog : List CompSpec} {s s' : SSt} {l : Lab} (hi : Inv prog s)
    (h : step? s l = some s') : Inv prog s' := by
  have hs := step?_sum h
  have hprog : s.prog = prog := hi.hprog
  subst hprog
  refine ⟨hs.prog, by rw [nodesRel_ne hs.nodes]; exact hi.len, ?_, ?_, ?_, ?_, ?_⟩
  · -- nobody
    intro i c n' hc hn'
    obtain ⟨n, hn, hm1, hm2⟩ := nodesRel_bwd hs.nodes hc hn'
    obtain ⟨g1, g2⟩ := hi.nobody i c n hc hn
    constructor
    · intro hb; rw [hb] at hm1; exact runMono_none hm1 (g1 hb)
    · intro hb; rw [hb] at hm2; exact runMono_none hm2 (g2 hb)
  · -- failedCancelled
    intro i e hm
    rw [hs.hist] at hm
    rcases List.mem_append.1 hm with hold | hnew
    · obtain ⟨c, n, hc, hn, hcn⟩ := hi.failedCancelled i e hold
      obtain ⟨n', hn', hm1, hm2⟩ := nodesRel_fwd hs.nodes hc hn
      refine ⟨c, n', hc, hn', ?_⟩
      rcases hcn with hp | hp
      · rw [hp] at hm1; exact .inl (runMono_cancelled hm1)
      · rw [hp] at hm2; exact .inr (runMono_cancelled hm2)
    · have hl : l = .failed i e := (List.mem_singleton.1 hnew).symm
      subst hl
      have hrep := nrep_of_step h (fun _ hh => by cases hh) (fun hh => by cases hh)
      obtain ⟨c, ph, rest, hc, hcur, _, rfl⟩ := step?_failed hrep h
      obtain ⟨n', hn', hcn⟩ := setCurrent_get (u := { s with result := _, grace := true }) .cancelled rfl hcur
      exact ⟨c, n', hc, hn', hcn⟩
  · -- startedDescFin
    intro a hm d hd
    rw [hs.hist] at hm
    rcases List.mem_append.1 hm with hold | hnew
    · exact fin_step h (hi.startedDescFin a hold d hd)
    · have hl : l = .startBegin a := (List.mem_singleton.1 hnew).symm
      subst hl
      have hrep := nrep_of_step h (fun _ hh => by cases hh) (fun hh => by cases hh)
      obtain ⟨c, n, acts, hc, hn, hacts, _, _, hnb, _, _, hall, rfl⟩ := step?_startBegin hrep h
      obtain ⟨c', hc', ch, hch, hdch⟩ := desc_child_or hd
      rw [hc] at hc'; cases hc'
      have hchd : s.subtreeDone s.fuel ch = true := by
        rw [List.all_eq_true] at hall; exact hall ch hch
      have hfin : Finished s d := by
        rcases hdch with rfl | hdch
        · exact subtreeDone_fin hchd
        · obtain ⟨f', hf'⟩ := subtreeDone_desc hdch _ hchd
          exact subtreeDone_fin hf'
      have hne : a ≠ d := by
        rintro rfl
        rw [fin_iff] at hfin
        obtain ⟨c', n', hc', hn', _, hst⟩ := hfin
        rw [hc] at hc'; cases hc'
        rw [hn] at hn'; cases hn'
        rcases hst with hst | hst
        · rw [hacts] at hst; cases hst
        · rw [hnb] at hst; cases hst
      exact fin_congr (s := s) rfl (List.getElem?_set_ne hne) hfin
  · -- failedRaised
    intro i e hm
    rw [hs.hist] at hm
    rcases List.mem_append.1 hm with hold | hnew
    · obtain ⟨err, herr⟩ := hi.failedRaised i e hold
      exact ⟨err, hs.result _ herr⟩
    · have hl : l = .failed i e := (List.mem_singleton.1 hnew).symm
      subst hl
      have hrep := nrep_of_step h (fun _ hh => by cases hh) (fun hh => by cases hh)
      obtain ⟨c, ph, rest, hc, hcur, _, rfl⟩ := step?_failed hrep h
      exact ⟨.componentStart ph i c.cls e, by simp⟩
  · -- returnedResult
    intro hm
    rw [hs.hist] at hm
    rcases List.mem_append.1 hm with hold | hnew
    · exact hs.result _ (hi.returnedResult hold)
    · have hl : l = .returned := (List.mem_singleton.1 hnew).symm
      subst hl
      have hrep := nrep_of_step h (fun _ hh => by cases hh) (fun hh => by cases hh)
      obtain ⟨_, _, _, rfl⟩ := step?_returned hrep h
      rfl

theorem inv_of_reach {prog : List CompSpec} {to : Bool} {s : SSt} (h : Reach prog to s) : Inv prog s := by
  induction h with
  | init => exact inv_init prog to
  | step s s' l _ hstep ih => exact inv_step ih hstep

/-- The start() of no ancestor of a failed component has ever begun. -/
theorem reach_ancestors {prog : List CompSpec} {to : Bool} {s : SSt} (h : Reach prog to s) {i e a : Nat}
    (hf : Lab.failed i e ∈ s.hist) (ha : Desc prog i a) : Lab.startBegin a ∉ s.hist := by
  intro hsb
  have hi := inv_of_reach h
  obtain ⟨c, n, hc, hn, hcn⟩ := hi.failedCancelled i e hf
  have hfin := hi.startedDescFin a hsb i ha
  rw [fin_iff, hi.hprog] at hfin
  obtain ⟨c', n', hc', hn', hp, hst⟩ := hfin
  rw [hc] at hc'; cases hc'
  rw [hn] at hn'; cases hn'
  obtain ⟨g1, g2⟩ := hi.nobody i c n hc hn
  rcases hcn with hx | hx
  · rcases hp with hp | hp
    · rw [g1 hp] at hx; cases hx
    · rw [hp] at hx; cases hx
  · rcases hst with hp | hp
    · rw [g2 hp] at hx; cases hx
    · rw [hp] at hx; cases hx

theorem reach_no_return {prog : List CompSpec} {to : Bool} {s : SSt} (h : Reach prog to s) {i e : Nat}
    (hf : Lab.failed i e ∈ s.hist) : Lab.returned ∉ s.hist := by
  intro hr
  have hi := inv_of_reach h
  obtain ⟨err, herr⟩ := hi.failedRaised i e hf
  rw [hi.returnedResult hr] at herr
  cases herr

end St2
end Asphalt
