/- Helper lemmas for C02 / C18: association lists under `filter`, `storeAll`, the per-operation
effect on the resource table, the frame of `step`. -/
import AsphaltModel.Context
import AsphaltProofs.Lemmas.Assoc
import AsphaltProofs.Lemmas.ExitWith
import AsphaltProofs.Lemmas.GetNow

namespace Asphalt

/-! ### association lists -/

section assoc
variable {κ α : Type} [DecidableEq κ]

theorem alookup_mem (k : κ) (v : α) (l : List (κ × α)) (h : alookup k l = some v) : (k, v) ∈ l := by
  induction l with
  | nil => simp at h
  | cons p l ih =>
    obtain ⟨k', v'⟩ := p
    rw [alookup_cons] at h
    by_cases hk : k' = k
    · rw [if_pos hk] at h
      cases h; subst hk; exact List.mem_cons_self
    · rw [if_neg hk] at h
      exact List.mem_cons_of_mem _ (ih h)

omit [DecidableEq κ] in
theorem mem_akeys_of_mem (k : κ) (v : α) (l : List (κ × α)) (h : (k, v) ∈ l) : k ∈ akeys l :=
  List.mem_map.mpr ⟨(k, v), h, rfl⟩

omit [DecidableEq κ] in
theorem NoDupKeys_cons (k : κ) (v : α) (l : List (κ × α)) :
    NoDupKeys ((k, v) :: l) ↔ k ∉ akeys l ∧ NoDupKeys l := by
  simp [NoDupKeys, akeys]

theorem alookup_of_mem (k : κ) (v : α) (l : List (κ × α)) (hnd : NoDupKeys l) (h : (k, v) ∈ l) :
    alookup k l = some v := by
  induction l with
  | nil => simp at h
  | cons p l ih =>
    obtain ⟨k', v'⟩ := p
    rw [NoDupKeys_cons] at hnd
    rw [alookup_cons]
    rcases List.mem_cons.mp h with h | h
    · cases h; rw [if_pos rfl]
    · have : k' ≠ k := fun e => hnd.1 (e ▸ mem_akeys_of_mem k v l h)
      rw [if_neg this]; exact ih hnd.2 h

theorem NoDupKeys_ainsert (k : κ) (v : α) (l : List (κ × α)) (h : NoDupKeys l) :
    NoDupKeys (ainsert k v l) := by
  unfold NoDupKeys at *
  by_cases hk : k ∈ akeys l
  · rw [akeys_ainsert_mem k v l hk]; exact h
  · rw [akeys_ainsert_not_mem k v l hk]
    rw [List.nodup_append]
    refine ⟨h, by simp, ?_⟩
    intro a ha b hb
    rw [List.mem_singleton] at hb
    subst hb
    exact fun e => hk (e ▸ ha)

omit [DecidableEq κ] in
theorem NoDupKeys_filter (p : κ × α → Bool) (l : List (κ × α)) (h : NoDupKeys l) :
    NoDupKeys (l.filter p) := by
  unfold NoDupKeys akeys at *
  exact List.Nodup.sublist (List.Sublist.map _ List.filter_sublist) h

theorem alookup_filter_none (p : κ × α → Bool) (k : κ) (l : List (κ × α))
    (h : alookup k l = none) : alookup k (l.filter p) = none := by
  rw [alookup_none_iff] at *
  intro hm
  apply h
  unfold akeys at *
  obtain ⟨a, ha, rfl⟩ := List.mem_map.mp hm
  exact List.mem_map.mpr ⟨a, (List.mem_filter.mp ha).1, rfl⟩

theorem alookup_filter_some (p : κ × α → Bool) (k : κ) (v : α) (l : List (κ × α))
    (h : alookup k l = some v) (hp : p (k, v) = true) : alookup k (l.filter p) = some v := by
  induction l with
  | nil => simp at h
  | cons q l ih =>
    obtain ⟨k', v'⟩ := q
    rw [alookup_cons] at h
    by_cases hk : k' = k
    · rw [if_pos hk] at h
      cases h; subst hk
      rw [List.filter_cons_of_pos hp, alookup_cons, if_pos rfl]
    · rw [if_neg hk] at h
      by_cases hq : p (k', v') = true
      · rw [List.filter_cons_of_pos hq, alookup_cons, if_neg hk]; exact ih h
      · rw [List.filter_cons_of_neg hq]; exact ih h

/-- Under `NoDupKeys`, whatever a filtered table answers, the table answers, and the entry
passes the filter. -/
theorem alookup_filter_inv (p : κ × α → Bool) (k : κ) (v : α) (l : List (κ × α))
    (hnd : NoDupKeys l) (h : alookup k (l.filter p) = some v) :
    alookup k l = some v ∧ p (k, v) = true := by
  have hm := List.mem_filter.mp (alookup_mem k v _ h)
  exact ⟨alookup_of_mem k v l hnd hm.1, hm.2⟩

end assoc

/-! ### the resource table -/

theorem alookup_storeAll (cont : Container) (name : String) (ts : List TypeId)
    (r : List (Key × Container)) (k : Key) :
    alookup k (storeAll cont name ts r) =
      if k.name = name ∧ k.ty ∈ ts then some cont else alookup k r := by
  induction ts generalizing r with
  | nil => simp [storeAll]
  | cons t ts ih =>
    rw [storeAll, ih]
    by_cases hk : k.name = name ∧ k.ty ∈ ts
    · have : k.name = name ∧ k.ty ∈ t :: ts := ⟨hk.1, List.mem_cons_of_mem _ hk.2⟩
      rw [if_pos hk, if_pos this]
    · rw [if_neg hk]
      by_cases hkt : (⟨t, name⟩ : Key) = k
      · subst hkt
        rw [alookup_ainsert_same, if_pos ⟨rfl, List.mem_cons_self⟩]
      · rw [alookup_ainsert_other _ _ _ _ hkt]
        have : ¬ (k.name = name ∧ k.ty ∈ t :: ts) := by
          rintro ⟨h1, h2⟩
          rcases List.mem_cons.mp h2 with h2 | h2
          · apply hkt; cases k; simp_all
          · exact hk ⟨h1, h2⟩
        rw [if_neg this]

theorem NoDupKeys_storeAll (cont : Container) (name : String) (ts : List TypeId)
    (r : List (Key × Container)) (h : NoDupKeys r) : NoDupKeys (storeAll cont name ts r) := by
  induction ts generalizing r with
  | nil => exact h
  | cons t ts ih => rw [storeAll]; exact ih _ (NoDupKeys_ainsert _ _ _ h)

/-- Invariant of a resource table: keys are unique, every entry sits under its own name and one
of its own types, and a container is registered under all of its types. (The second component
is `ResWF` of C02.) -/
def ResOK (res : List (Key × Container)) : Prop :=
  NoDupKeys res ∧
  ∀ k cont, alookup k res = some cont →
    cont.name = k.name ∧ k.ty ∈ cont.types ∧
      ∀ t ∈ cont.types, alookup ⟨t, cont.name⟩ res = some cont

theorem ResOK_nil : ResOK [] := ⟨by simp [NoDupKeys, akeys], by simp⟩

theorem ResOK_storeAll (cont : Container) (r : List (Key × Container)) (h : ResOK r)
    (hfree : ∀ t ∈ cont.types, alookup ⟨t, cont.name⟩ r = none) :
    ResOK (storeAll cont cont.name cont.types r) := by
  refine ⟨NoDupKeys_storeAll _ _ _ _ h.1, ?_⟩
  intro k c' hk
  rw [alookup_storeAll] at hk
  by_cases hc : k.name = cont.name ∧ k.ty ∈ cont.types
  · rw [if_pos hc] at hk
    cases hk
    refine ⟨hc.1.symm, hc.2, ?_⟩
    intro t ht
    rw [alookup_storeAll, if_pos ⟨rfl, ht⟩]
  · rw [if_neg hc] at hk
    obtain ⟨h1, h2, h3⟩ := h.2 k c' hk
    refine ⟨h1, h2, ?_⟩
    intro t ht
    rw [alookup_storeAll]
    by_cases hc2 : (⟨t, c'.name⟩ : Key).name = cont.name ∧ (⟨t, c'.name⟩ : Key).ty ∈ cont.types
    · exfalso
      have := h3 t ht
      simp only at hc2
      rw [hc2.1, hfree t hc2.2] at this
      cases this
    · rw [if_neg hc2]; exact h3 t ht

theorem ResOK_filter (r : List (Key × Container)) (h : ResOK r) :
    ResOK (r.filter (fun kc => !kc.2.generated)) := by
  refine ⟨NoDupKeys_filter _ _ h.1, ?_⟩
  intro k cont hk
  obtain ⟨hk', hp⟩ := alookup_filter_inv _ k cont r h.1 hk
  obtain ⟨h1, h2, h3⟩ := h.2 k cont hk'
  exact ⟨h1, h2, fun t ht => alookup_filter_some _ _ _ _ (h3 t ht) hp⟩

/-! ### per-operation effect on the resource table -/

theorem any_acontains_false {ts : List TypeId} {name : String} {r : List (Key × Container)}
    (h : ¬ (ts.any (fun t => acontains ⟨t, name⟩ r)) = true) :
    ∀ t ∈ ts, alookup ⟨t, name⟩ r = none := by
  intro t ht
  cases hl : alookup (⟨t, name⟩ : Key) r with
  | none => rfl
  | some c =>
    exfalso; apply h
    exact List.any_eq_true.mpr ⟨t, ht, by simp [acontains, hl]⟩

/-- `add_resource` either refuses (context unchanged, a single non-event output) or stores one
new container under all of its (previously free) types and announces it. -/
theorem ctxAdd_cases (cid : CtxId) (x : Ctx) (a : AddArgs) :
    (∃ o, ctxAdd cid x a = (x, [o]) ∧ ∀ c e, o ≠ .ev c e) ∨
    (∃ v, (∀ t ∈ addTypes a, alookup ⟨t, a.name⟩ x.res = none) ∧
      ctxAdd cid x a =
        ({ x with res := storeAll ⟨.static v, addTypes a, a.name, a.desc, false⟩ a.name (addTypes a) x.res,
                  tds := (match a.td with | some cb => cb :: x.tds | none => x.tds),
                  events := x.events ++ [⟨addTypes a, a.name, a.desc, false⟩] },
         [.ok, .ev cid ⟨addTypes a, a.name, a.desc, false⟩])) := by
  unfold ctxAdd
  dsimp only
  split
  · exact .inl ⟨_, rfl, by intros; simp⟩
  split
  · exact .inl ⟨_, rfl, by intros; simp⟩
  split
  · exact .inl ⟨_, rfl, by intros; simp⟩
  split
  · exact .inl ⟨_, rfl, by intros; simp⟩
  split
  · exact .inl ⟨_, rfl, by intros; simp⟩
  split
  · exact .inl ⟨_, rfl, by intros; simp⟩
  · exact .inr ⟨_, any_acontains_false ‹_›, rfl⟩

theorem ctxAdd_resOK (cid : CtxId) (x : Ctx) (a : AddArgs) (h : ResOK x.res) :
    ResOK (ctxAdd cid x a).1.res := by
  rcases ctxAdd_cases cid x a with ⟨o, ho, _⟩ | ⟨v, hfree, ho⟩
  · rw [ho]; exact h
  · rw [ho]
    exact ResOK_storeAll ⟨_, addTypes a, a.name, _, _⟩ x.res h hfree

theorem ctxAddFactory_res (cid : CtxId) (x : Ctx) (a : FacArgs) :
    (ctxAddFactory cid x a).1.res = x.res := by
  unfold ctxAddFactory
  repeat' split
  all_goals rfl

theorem callFactory_res (cid : CtxId) (x : Ctx) (f : Factory) :
    (callFactory cid x f).1.res = x.res := by
  unfold callFactory
  dsimp only
  split <;> rfl

theorem storeGenerated_resOK (cid : CtxId) (x : Ctx) (f : Factory) (v : Val) (h : ResOK x.res) :
    ResOK (storeGenerated cid x f v).1.res := by
  have key : ResOK (storeAll ⟨v, f.types.filter (fun t => !acontains ⟨t, f.name⟩ x.res), f.name,
      f.desc, true⟩ f.name (f.types.filter (fun t => !acontains ⟨t, f.name⟩ x.res)) x.res) := by
    apply ResOK_storeAll ⟨v, _, f.name, f.desc, true⟩ x.res h
    intro t ht
    have := (List.mem_filter.mp ht).2
    cases hl : alookup (⟨t, f.name⟩ : Key) x.res with
    | none => rfl
    | some c => simp [acontains, hl] at this
  unfold storeGenerated
  dsimp only
  split <;> exact key

theorem ctxGetNowait_resOK (cid : CtxId) (x : Ctx) (k : Key) (opt : Bool) (h : ResOK x.res) :
    ResOK (ctxGetNowait cid x k opt).1.res := by
  unfold ctxGetNowait
  split
  · exact h
  split
  · exact h
  split
  · split
    · exact h
    · have hc := callFactory_res cid x ‹Factory›
      split
      · rename_i x' heq; rw [heq] at hc
        have hc' : x'.res = x.res := hc
        rw [hc']; exact h
      · rename_i x' v heq; rw [heq] at hc
        have hc' : x'.res = x.res := hc
        exact storeGenerated_resOK _ _ _ _ (by rw [hc']; exact h)
  · exact h

theorem ctxGet_resOK (cid : CtxId) (x : Ctx) (t : TaskId) (k : Key) (opt : Bool) (h : ResOK x.res) :
    ResOK (ctxGet cid x t k opt).1.res := by
  unfold ctxGet
  split
  · exact h
  split
  · exact h
  split
  · split
    · exact h
    · split
      · exact h
      · have hc := callFactory_res cid x ‹Factory›
        split
        · rename_i x' heq; rw [heq] at hc
          have hc' : x'.res = x.res := hc
          rw [hc']; exact h
        · rename_i x' v heq; rw [heq] at hc
          have hc' : x'.res = x.res := hc
          exact storeGenerated_resOK _ _ _ _ (by rw [hc']; exact h)
  · exact h

theorem resumeWaiters_resOK (cid : CtxId) (x : Ctx) (ws : List (TaskId × Key × Bool))
    (h : ResOK x.res) : ResOK (resumeWaiters cid x ws).1.res := by
  induction ws generalizing x with
  | nil => exact h
  | cons w ws ih =>
    obtain ⟨t, k, opt⟩ := w
    rw [resumeWaiters]
    exact ih _ (ctxGet_resOK cid x t k opt h)

theorem ctxGenFinish_resOK (cid : CtxId) (x : Ctx) (fid : Nat) (next : Option TaskId)
    (h : ResOK x.res) : ResOK (ctxGenFinish cid x fid next).1.res := by
  unfold ctxGenFinish
  split
  · exact h
  dsimp only
  split
  · exact h
  split
  · exact resumeWaiters_resOK _ _ _ h
  · exact resumeWaiters_resOK _ _ _ (storeGenerated_resOK _ _ _ _ h)

theorem ctxCancelGet_resOK (cid : CtxId) (x : Ctx) (lid : TaskId) (next : Option TaskId)
    (h : ResOK x.res) : ResOK (ctxCancelGet cid x lid next).1.res := by
  unfold ctxCancelGet
  split
  · exact resumeWaiters_resOK _ _ _ h
  · split
    · exact h
    · exact h

theorem ctxGetNow_resOK (cid : CtxId) (x : Ctx) (k : Key) (opt : Bool) (h : ResOK x.res) :
    ResOK (ctxGetNow cid x k opt).1.res :=
  ctxGetNow_transfer (fun y => ResOK y.res) cid x k opt h (fun t => ctxGet_resOK cid x t k opt h)

theorem runBodyOp_resOK (cid : CtxId) (cur : Option CtxId) (x : Ctx) (op : BodyOp) (h : ResOK x.res) :
    ResOK (runBodyOp cid cur x op).1.res := by
  cases op with
  | add types name v => exact ctxAdd_resOK _ _ _ h
  | addFactory types name fid => rw [runBodyOp, ctxAddFactory_res]; exact h
  | getNowait ty name opt => exact ctxGetNowait_resOK _ _ _ _ h
  | get ty name opt => exact ctxGetNow_resOK _ _ _ _ h
  | current => exact h

theorem runBody_resOK (cid : CtxId) (cur : Option CtxId) (x : Ctx) (ops : List BodyOp) (h : ResOK x.res) :
    ResOK (runBody cid cur x ops).1.res := by
  induction ops generalizing x with
  | nil => exact h
  | cons op ops ih =>
    rw [runBody]
    exact ih _ (runBodyOp_resOK cid cur x op h)

theorem runTeardown_resOK (cid : CtxId) (cur : Option CtxId) (be : BlockEnd) (st : List Cb) (x : Ctx) (h : ResOK x.res) :
    ResOK (runTeardown cid cur be st x).1.res := by
  fun_induction runTeardown cid cur be st x with
  | case1 x => exact h
  | case2 stack x id passExc isAsync body regs raises x' bodyOut hb stack' x'' tr excs hr ih =>
    have hx' : ResOK x'.res := by
      have := runBody_resOK cid cur x body h
      rw [hb] at this; exact this
    have ih' := ih hx'
    simp only [stack', List.unattach_reverse, List.unattach_attach] at hr ih'
    rw [hr] at ih'
    dsimp only
    rw [hr]
    exact ih'

theorem resolveDeps_resOK (cid : CtxId) (isAsync : Bool) (t : TaskId) (x : Ctx) (ds : List Dep)
    (h : ResOK x.res) : ResOK (resolveDeps cid isAsync t x ds).1.res := by
  induction ds generalizing x with
  | nil => exact h
  | cons d ds ih =>
    rw [resolveDeps]
    have hx : ResOK (if isAsync = true then ctxGet cid x t d.key d.optional
        else ctxGetNowait cid x d.key d.optional).1.res := by
      split
      · exact ctxGet_resOK _ _ _ _ _ h
      · exact ctxGetNowait_resOK _ _ _ _ h
    generalize (if isAsync = true then ctxGet cid x t d.key d.optional
        else ctxGetNowait cid x d.key d.optional) = p at hx
    obtain ⟨x', o⟩ := p
    dsimp only
    split
    · exact ih _ hx
    · exact ih _ hx
    · exact hx

/-! ### worlds -/

theorem ctx?_setCtx_same (w : World) (c : CtxId) (x : Ctx) : (w.setCtx c x).ctx? c = some x :=
  alookup_ainsert_same _ _ _

theorem ctx?_setCtx_other (w : World) (c c' : CtxId) (x : Ctx) (h : c' ≠ c) :
    (w.setCtx c' x).ctx? c = w.ctx? c :=
  alookup_ainsert_other _ _ _ _ h

theorem ctx?_setCur (w : World) (t : TaskId) (v : Option CtxId) (c : CtxId) :
    (w.setCur t v).ctx? c = w.ctx? c := rfl

/-- Every resource table of the world satisfies the invariant. -/
def WorldOK (w : World) : Prop := ∀ c x, w.ctx? c = some x → ResOK x.res

theorem WorldOK_empty : WorldOK World.empty := by
  intro c x h; simp [World.ctx?, World.empty] at h

theorem WorldOK_setCtx (w : World) (c : CtxId) (x : Ctx) (hw : WorldOK w) (hx : ResOK x.res) :
    WorldOK (w.setCtx c x) := by
  intro c' y hy
  by_cases h : c = c'
  · subst h; rw [ctx?_setCtx_same] at hy; cases hy; exact hx
  · rw [ctx?_setCtx_other _ _ _ _ h] at hy; exact hw c' y hy

theorem WorldOK_setCur (w : World) (t : TaskId) (v : Option CtxId) (hw : WorldOK w) :
    WorldOK (w.setCur t v) := hw

theorem WorldOK_onCtx (w : World) (c : CtxId) (f : Ctx → Ctx × List Out) (hw : WorldOK w)
    (hf : ∀ x, ResOK x.res → ResOK (f x).1.res) : WorldOK (onCtx w c f).1 := by
  unfold onCtx
  split
  · exact hw
  · rename_i x hx
    exact WorldOK_setCtx _ _ _ hw (hf x (hw c x hx))

theorem WorldOK_removeChild (w : World) (p : Option CtxId) (c : CtxId) (hw : WorldOK w) :
    WorldOK (removeChild w p c) := by
  unfold removeChild
  split
  · exact hw
  · split
    · exact hw
    · rename_i p' _ px hpx
      exact WorldOK_setCtx _ _ _ hw (hw p' px hpx)

theorem freshCtx_resOK (p : Option CtxId) (o : Option Ctx) (h : ∀ px, o = some px → ResOK px.res) :
    ResOK (freshCtx p o).res := by
  cases o with
  | none => exact ResOK_nil
  | some px => exact ResOK_filter _ (h px rfl)

theorem WorldOK_exitWith (w : World) (t : TaskId) (c : CtxId) (be : BlockEnd)
    (stk : List Cb → List Cb) (hw : WorldOK w) : WorldOK (exitWith w t c be stk).1 := by
  simp only [exitWith]
  split
  · exact hw
  · rename_i x hx
    split
    · exact hw
    · have ht := runTeardown_resOK c (w.curOf t) be (stk x.tds) { x with state := .closing, tds := [] } (hw c x hx)
      generalize runTeardown c (w.curOf t) be (stk x.tds) { x with state := .closing, tds := [] } = r at ht
      obtain ⟨x2, tr, excs⟩ := r
      dsimp only
      apply WorldOK_removeChild
      apply WorldOK_setCur
      exact WorldOK_setCtx _ _ _ hw ht

theorem WorldOK_step (w : World) (op : Op) (hw : WorldOK w) : WorldOK (step w op).1 := by
  cases op with
  | new t c parent =>
    simp only [step]
    split
    · exact hw
    · apply WorldOK_setCtx _ _ _ hw
      apply freshCtx_resOK
      intro px hpx
      obtain ⟨p', _, hp'⟩ := Option.bind_eq_some_iff.mp hpx
      exact hw p' px hp'
  | enter t c =>
    simp only [step]
    split
    · exact hw
    · rename_i x hx
      split
      · exact hw
      · apply WorldOK_setCur
        have h1 : WorldOK (w.setCtx c { x with state := .opened, token := some (w.curOf t) }) :=
          WorldOK_setCtx _ _ _ hw (hw c x hx)
        split
        · exact h1
        · split
          · exact h1
          · rename_i p hp _ px hpx
            exact WorldOK_setCtx _ _ _ h1 (h1 p px hpx)
  | exit t c be => rw [step_exit_exitWith]; exact WorldOK_exitWith w t c be _ hw
  | exitMid t c be k => rw [step_exitMid_exitWith]; exact WorldOK_exitWith w t c be _ hw
  | add c a => exact WorldOK_onCtx _ _ _ hw (fun x hx => ctxAdd_resOK _ _ _ hx)
  | addFactory c a =>
    exact WorldOK_onCtx _ _ _ hw (fun x hx => by
      show ResOK (ctxAddFactory c x a).1.res
      rw [ctxAddFactory_res]; exact hx)
  | getNowait c k opt => exact WorldOK_onCtx _ _ _ hw (fun x hx => ctxGetNowait_resOK _ _ _ _ hx)
  | get t c k opt => exact WorldOK_onCtx _ _ _ hw (fun x hx => ctxGet_resOK _ _ _ _ _ hx)
  | genFinish c fid next => exact WorldOK_onCtx _ _ _ hw (fun x hx => ctxGenFinish_resOK _ _ _ _ hx)
  | cancelGet c lid next => exact WorldOK_onCtx _ _ _ hw (fun x hx => ctxCancelGet_resOK _ _ _ _ hx)
  | getAll c ty => simp only [step]; split <;> exact hw
  | addTeardown c cb callable =>
    have hf : ∀ x : Ctx, ResOK x.res → ResOK ((if !x.state.usable then (x, [.runtimeError x.state])
        else if !callable then (x, [.typeError])
        else ({ x with tds := cb :: x.tds }, [.ok]) : Ctx × List Out)).1.res := by
      intro x hx
      split
      · exact hx
      · split
        · exact hx
        · exact hx
    exact WorldOK_onCtx _ _ _ hw hf
  | current t => simp only [step]; split <;> exact hw
  | parentOf c => simp only [step]; split <;> exact hw
  | spawn t t' => exact hw
  | stateOf c => simp only [step]; split <;> exact hw
  | inject t isAsync deps badUnion =>
    simp only [step]
    split
    · exact hw
    · split
      · exact hw
      · split
        · exact hw
        · rename_i _ c hc _ x hx
          exact WorldOK_setCtx _ _ _ hw (resolveDeps_resOK c isAsync t x deps (hw c x hx))
  | decorate ps => simp only [step]; split <;> exact hw

theorem WorldOK_reachable (w : World) (hr : Reachable w) : WorldOK w := by
  induction hr with
  | init => exact WorldOK_empty
  | step w op _ ih => exact WorldOK_step w op ih

/-! ### frame -/

/-- The entry of a context is unchanged except possibly for its `children` field. -/
def ChildrenOnly (o o' : Option Ctx) : Prop :=
  o' = o ∨ ∃ x ch, o = some x ∧ o' = some { x with children := ch }

theorem ChildrenOnly.map_eq {β : Type} (g : Ctx → β) (hg : ∀ x ch, g { x with children := ch } = g x)
    {o o' : Option Ctx} (h : ChildrenOnly o o') : o'.map g = o.map g := by
  rcases h with h | ⟨x, ch, h1, h2⟩
  · rw [h]
  · rw [h1, h2]; simp [hg]

theorem setChildren_frame (w : World) (p c : CtxId) (px : Ctx) (ch : List CtxId)
    (hp : w.ctx? p = some px) :
    ChildrenOnly (w.ctx? c) ((w.setCtx p { px with children := ch }).ctx? c) := by
  by_cases h : p = c
  · subst h; exact .inr ⟨px, ch, hp, ctx?_setCtx_same _ _ _⟩
  · exact .inl (ctx?_setCtx_other _ _ _ _ h)

theorem onCtx_frame (w : World) (c c' : CtxId) (f : Ctx → Ctx × List Out) (h : c' ≠ c) :
    (onCtx w c' f).1.ctx? c = w.ctx? c := by
  unfold onCtx
  split
  · rfl
  · exact ctx?_setCtx_other _ _ _ _ h

theorem removeChild_frame (w : World) (p : Option CtxId) (c' c : CtxId) :
    ChildrenOnly (w.ctx? c) ((removeChild w p c').ctx? c) := by
  unfold removeChild
  split
  · exact .inl rfl
  · split
    · exact .inl rfl
    · exact setChildren_frame _ _ _ _ _ ‹_›

theorem step_new_frame (w : World) (t : TaskId) (c' : CtxId) (parent : Option CtxId) (c : CtxId)
    (h : c' ≠ c) : (step w (.new t c' parent)).1.ctx? c = w.ctx? c := by
  simp only [step]
  split
  · rfl
  · exact ctx?_setCtx_other _ _ _ _ h

theorem step_enter_frame (w : World) (t : TaskId) (c' c : CtxId) (h : c' ≠ c) :
    ChildrenOnly (w.ctx? c) ((step w (.enter t c')).1.ctx? c) := by
  simp only [step]
  split
  · exact .inl rfl
  · rename_i x hx
    split
    · exact .inl rfl
    · rw [ctx?_setCur]
      have h1 : (w.setCtx c' { x with state := .opened, token := some (w.curOf t) }).ctx? c = w.ctx? c :=
        ctx?_setCtx_other _ _ _ _ h
      split
      · exact .inl h1
      · split
        · exact .inl h1
        · rw [← h1]; exact setChildren_frame _ _ _ _ _ ‹_›

theorem exitWith_frame (w : World) (t : TaskId) (c' : CtxId) (be : BlockEnd)
    (stk : List Cb → List Cb) (c : CtxId)
    (h : c' ≠ c) : ChildrenOnly (w.ctx? c) ((exitWith w t c' be stk).1.ctx? c) := by
  simp only [exitWith]
  split
  · exact .inl rfl
  · rename_i x hx
    split
    · exact .inl rfl
    · generalize runTeardown c' (w.curOf t) be (stk x.tds) { x with state := .closing, tds := [] } = r
      obtain ⟨x2, tr, excs⟩ := r
      dsimp only
      have h1 : (((w.setCtx c' { x2 with state := .closed }).setCur t (x.token.getD none))).ctx? c
          = w.ctx? c := ctx?_setCtx_other _ _ _ _ h
      rw [← h1]
      exact removeChild_frame _ _ _ _

theorem step_exit_frame (w : World) (t : TaskId) (c' : CtxId) (be : BlockEnd) (c : CtxId)
    (h : c' ≠ c) : ChildrenOnly (w.ctx? c) ((step w (.exit t c' be)).1.ctx? c) := by
  rw [step_exit_exitWith]; exact exitWith_frame w t c' be _ c h

theorem step_exitMid_frame (w : World) (t : TaskId) (c' : CtxId) (be : BlockEnd) (k : Nat)
    (c : CtxId) (h : c' ≠ c) :
    ChildrenOnly (w.ctx? c) ((step w (.exitMid t c' be k)).1.ctx? c) := by
  rw [step_exitMid_exitWith]; exact exitWith_frame w t c' be _ c h

theorem step_inject_frame (w : World) (t : TaskId) (isAsync : Bool) (deps : List Dep)
    (badUnion : Bool) (c : CtxId) (h : w.curOf t ≠ some c) :
    (step w (.inject t isAsync deps badUnion)).1.ctx? c = w.ctx? c := by
  simp only [step]
  split
  · rfl
  · split
    · rfl
    · split
      · rfl
      · rename_i _ c' hc' _ x hx
        exact ctx?_setCtx_other _ _ _ _ (fun e => h (by rw [hc', e]))

/-! ### get_resources -/

/-- One step of the `get_resources` fold. -/
def getAllStep (ty : TypeId) (acc : List (String × Val)) (kc : Key × Container) : List (String × Val) :=
  if kc.2.types.contains ty then ainsert kc.2.name kc.2.val acc else acc

theorem ctxGetAll_eq (x : Ctx) (ty : TypeId) : ctxGetAll x ty = x.res.foldl (getAllStep ty) [] := rfl

theorem getAll_fold_none (ty : TypeId) (n : String) (l : List (Key × Container))
    (acc : List (String × Val))
    (h : ∀ kc ∈ l, ty ∈ kc.2.types → kc.2.name ≠ n) :
    alookup n (l.foldl (getAllStep ty) acc) = alookup n acc := by
  induction l generalizing acc with
  | nil => rfl
  | cons kc l ih =>
    rw [List.foldl_cons, ih _ (fun kc' hkc' => h kc' (List.mem_cons_of_mem _ hkc'))]
    unfold getAllStep
    split
    · rename_i hc
      exact alookup_ainsert_other _ _ _ _ (h kc List.mem_cons_self (by simpa using hc))
    · rfl

theorem getAll_fold_some (ty : TypeId) (n : String) (v : Val) (l : List (Key × Container))
    (acc : List (String × Val))
    (hall : ∀ kc ∈ l, ty ∈ kc.2.types → kc.2.name = n → kc.2.val = v)
    (hex : ∃ kc ∈ l, ty ∈ kc.2.types ∧ kc.2.name = n) :
    alookup n (l.foldl (getAllStep ty) acc) = some v := by
  induction l generalizing acc with
  | nil => obtain ⟨kc, hkc, _⟩ := hex; cases hkc
  | cons kc l ih =>
    rw [List.foldl_cons]
    have hall' : ∀ kc' ∈ l, ty ∈ kc'.2.types → kc'.2.name = n → kc'.2.val = v :=
      fun kc' hkc' => hall kc' (List.mem_cons_of_mem _ hkc')
    by_cases hl : ∃ kc' ∈ l, ty ∈ kc'.2.types ∧ kc'.2.name = n
    · exact ih _ hall' hl
    · have hno : ∀ kc' ∈ l, ty ∈ kc'.2.types → kc'.2.name ≠ n :=
        fun kc' hkc' ht hn => hl ⟨kc', hkc', ht, hn⟩
      rw [getAll_fold_none ty n l _ hno]
      obtain ⟨kc0, hkc0, ht0, hn0⟩ := hex
      rcases List.mem_cons.mp hkc0 with e | hm
      · subst e
        unfold getAllStep
        rw [if_pos (by simpa using ht0), hn0, alookup_ainsert_same,
          hall kc0 List.mem_cons_self ht0 hn0]
      · exact absurd hn0 (hno kc0 hm ht0)

theorem getAll_agrees (x : Ctx) (h : ResOK x.res) (ty : TypeId) (n : String) (v : Val) :
    alookup n (ctxGetAll x ty) = some v ↔
      ∃ cont, alookup ⟨ty, n⟩ x.res = some cont ∧ cont.val = v := by
  rw [ctxGetAll_eq]
  have hmem : ∀ kc ∈ x.res, ty ∈ kc.2.types → kc.2.name = n →
      alookup ⟨ty, n⟩ x.res = some kc.2 := by
    intro kc hkc ht hn
    obtain ⟨k, cont⟩ := kc
    have := (h.2 k cont (alookup_of_mem k cont _ h.1 hkc)).2.2 ty ht
    rw [← hn]; exact this
  cases hl : alookup (⟨ty, n⟩ : Key) x.res with
  | none =>
    rw [getAll_fold_none ty n x.res [] (fun kc hkc ht hn => by
      have := hmem kc hkc ht hn; rw [hl] at this; cases this)]
    simp
  | some cont =>
    obtain ⟨h1, h2, _⟩ := h.2 _ cont hl
    rw [getAll_fold_some ty n cont.val x.res []
      (fun kc hkc ht hn => by
        have := hmem kc hkc ht hn; rw [hl] at this; cases this; rfl)
      ⟨(⟨ty, n⟩, cont), alookup_mem _ _ _ hl, h2, h1⟩]
    constructor
    · intro e; cases e; exact ⟨cont, rfl, rfl⟩
    · rintro ⟨cont', e, hv⟩; cases e; rw [hv]

/-! ### events -/

theorem ctxAddFactory_cases (cid : CtxId) (x : Ctx) (a : FacArgs) :
    (∃ o, ctxAddFactory cid x a = (x, [o]) ∧ ∀ c e, o ≠ .ev c e) ∨
    ((ctxAddFactory cid x a).2 = [.ok, .ev cid ⟨a.types, a.name, a.desc, true⟩] ∧
      (ctxAddFactory cid x a).1.events = x.events ++ [⟨a.types, a.name, a.desc, true⟩]) := by
  unfold ctxAddFactory
  dsimp only
  split
  · exact .inl ⟨_, rfl, by intros; simp⟩
  split
  · exact .inl ⟨_, rfl, by intros; simp⟩
  split
  · exact .inl ⟨_, rfl, by intros; simp⟩
  split
  · exact .inl ⟨_, rfl, by intros; simp⟩
  split
  · exact .inl ⟨_, rfl, by intros; simp⟩
  split
  · exact .inl ⟨_, rfl, by intros; simp⟩
  · exact .inr ⟨rfl, rfl⟩

theorem callFactory_events (cid : CtxId) (x : Ctx) (f : Factory) :
    (callFactory cid x f).1.events = x.events := by
  unfold callFactory
  dsimp only
  split <;> rfl

theorem storeGenerated_cases (cid : CtxId) (x : Ctx) (f : Factory) (v : Val) :
    (f.types.filter (fun t => !acontains ⟨t, f.name⟩ x.res) = [] ∧
      (storeGenerated cid x f v).2 = [] ∧ (storeGenerated cid x f v).1.events = x.events) ∨
    (f.types.filter (fun t => !acontains ⟨t, f.name⟩ x.res) ≠ [] ∧
      (storeGenerated cid x f v).2 =
        [.ev cid ⟨f.types.filter (fun t => !acontains ⟨t, f.name⟩ x.res), f.name, f.desc, false⟩] ∧
      (storeGenerated cid x f v).1.events =
        x.events ++ [⟨f.types.filter (fun t => !acontains ⟨t, f.name⟩ x.res), f.name, f.desc, false⟩]) := by
  unfold storeGenerated
  dsimp only
  split
  · rename_i h; exact .inl ⟨List.isEmpty_iff.mp h, rfl, rfl⟩
  · rename_i h; exact .inr ⟨fun e => h (List.isEmpty_iff.mpr e), rfl, rfl⟩

/-- Shape of the outputs of a lookup: one non-event output, followed by at most one event, which is
then also the one appended to the log. -/
def LookupShape (cid : CtxId) (x : Ctx) (r : Ctx × List Out) : Prop :=
  (∃ o, (∀ c e, o ≠ .ev c e) ∧ r.2 = [o] ∧ r.1.events = x.events) ∨
  (∃ o e, (∀ c e, o ≠ .ev c e) ∧ r.2 = [o, .ev cid e] ∧ r.1.events = x.events ++ [e])

theorem registeredVal_ne_ev (x : Ctx) (k : Key) (c : CtxId) (e : REvent) :
    registeredVal x k ≠ .ev c e := by
  unfold registeredVal
  split <;> simp

theorem ctxGetNowait_shape (cid : CtxId) (x : Ctx) (k : Key) (opt : Bool) :
    LookupShape cid x (ctxGetNowait cid x k opt) := by
  unfold ctxGetNowait
  split
  · exact .inl ⟨_, by intros; simp, rfl, rfl⟩
  split
  · exact .inl ⟨_, by intros; simp, rfl, rfl⟩
  split
  · split
    · exact .inl ⟨_, by intros; simp, rfl, rfl⟩
    · have hc := callFactory_events cid x ‹Factory›
      split
      · rename_i x' heq; rw [heq] at hc
        exact .inl ⟨_, by intros; simp, rfl, hc⟩
      · rename_i x' v heq; rw [heq] at hc
        have hc' : x'.events = x.events := hc
        have hs := storeGenerated_cases cid x' ‹Factory› v
        generalize storeGenerated cid x' ‹Factory› v = r at hs
        obtain ⟨x'', evs⟩ := r
        dsimp only at hs ⊢
        rcases hs with ⟨_, h1, h2⟩ | ⟨_, h1, h2⟩
        · exact .inl ⟨.val v, by intros; simp, by rw [h1], by rw [h2, hc']⟩
        · exact .inr ⟨.val v, _, by intros; simp, by rw [h1], by rw [h2, hc']⟩
  · exact .inl ⟨_, by intros; split <;> simp, rfl, rfl⟩

theorem ctxGet_shape (cid : CtxId) (x : Ctx) (t : TaskId) (k : Key) (opt : Bool) :
    LookupShape cid x (ctxGet cid x t k opt) := by
  unfold ctxGet
  split
  · exact .inl ⟨_, by intros; simp, rfl, rfl⟩
  split
  · exact .inl ⟨_, by intros; simp, rfl, rfl⟩
  split
  · split
    · exact .inl ⟨_, by intros; simp, rfl, rfl⟩
    · split
      · exact .inl ⟨_, by intros; simp, rfl, rfl⟩
      · have hc := callFactory_events cid x ‹Factory›
        split
        · rename_i x' heq; rw [heq] at hc
          exact .inl ⟨_, by intros; simp, rfl, hc⟩
        · rename_i x' v heq; rw [heq] at hc
          have hc' : x'.events = x.events := hc
          have hs := storeGenerated_cases cid x' ‹Factory› v
          generalize storeGenerated cid x' ‹Factory› v = r at hs
          obtain ⟨x'', evs⟩ := r
          dsimp only at hs ⊢
          rcases hs with ⟨_, h1, h2⟩ | ⟨_, h1, h2⟩
          · exact .inl ⟨_, registeredVal_ne_ev x'' k, by rw [h1], by rw [h2, hc']⟩
          · exact .inr ⟨_, _, registeredVal_ne_ev x'' k, by rw [h1], by rw [h2, hc']⟩
  · exact .inl ⟨_, by intros; split <;> simp, rfl, rfl⟩

end Asphalt
