/- Helper lemmas for Props/C17_laws.lean (algebraic laws of the deep merge). -/
import AsphaltProofs.Props.C17

namespace Asphalt
namespace ML

/-! ### association lists: membership, lookup, extensionality -/

theorem nodup_cons {κ α : Type} (k : κ) (v : α) (l : List (κ × α)) :
    NoDupKeys ((k, v) :: l) ↔ k ∉ akeys l ∧ NoDupKeys l := by
  simp [NoDupKeys, akeys]

theorem mem_of_alookup {κ α : Type} [DecidableEq κ] (k : κ) (v : α) (l : List (κ × α))
    (h : alookup k l = some v) : (k, v) ∈ l := by
  induction l with
  | nil => simp at h
  | cons p l ih =>
    obtain ⟨k', v'⟩ := p
    rw [alookup_cons] at h
    by_cases hk : k' = k
    · rw [if_pos hk] at h
      cases h
      subst hk
      exact List.mem_cons_self
    · rw [if_neg hk] at h
      exact List.mem_cons_of_mem _ (ih h)

theorem mem_akeys_of_mem {κ α : Type} (k : κ) (v : α) (l : List (κ × α)) (h : (k, v) ∈ l) :
    k ∈ akeys l := by
  unfold akeys
  exact List.mem_map.mpr ⟨(k, v), h, rfl⟩

theorem alookup_of_mem {κ α : Type} [DecidableEq κ] (k : κ) (v : α) (l : List (κ × α))
    (hnd : NoDupKeys l) (h : (k, v) ∈ l) : alookup k l = some v := by
  induction l with
  | nil => cases h
  | cons p l ih =>
    obtain ⟨k', v'⟩ := p
    have hn := (nodup_cons k' v' l).mp hnd
    rw [alookup_cons]
    rcases List.mem_cons.mp h with e | hm
    · cases e
      rw [if_pos rfl]
    · have hk : ¬ k' = k := fun e => hn.1 (e ▸ mem_akeys_of_mem k v l hm)
      rw [if_neg hk]
      exact ih hn.2 hm

/-- Two well-formed association lists with the same keys in the same order and the same value under
every key are the same list. -/
theorem assoc_ext {κ α : Type} [DecidableEq κ] (l₁ l₂ : List (κ × α))
    (hk : akeys l₁ = akeys l₂) (h₁ : NoDupKeys l₁)
    (hl : ∀ k ∈ akeys l₁, alookup k l₁ = alookup k l₂) : l₁ = l₂ := by
  induction l₁ generalizing l₂ with
  | nil =>
    cases l₂ with
    | nil => rfl
    | cons q l₂ => simp [akeys] at hk
  | cons p l₁ ih =>
    cases l₂ with
    | nil => simp [akeys] at hk
    | cons q l₂ =>
      obtain ⟨k₁, v₁⟩ := p
      obtain ⟨k₂, v₂⟩ := q
      have hk' : k₁ = k₂ ∧ akeys l₁ = akeys l₂ := by simpa [akeys] using hk
      obtain ⟨e, hkt⟩ := hk'
      subst e
      have hn := (nodup_cons k₁ v₁ l₁).mp h₁
      have hv : v₁ = v₂ := by
        have := hl k₁ (by simp [akeys])
        simpa [alookup_cons] using this
      subst hv
      congr 1
      apply ih l₂ hkt hn.2
      intro k hmem
      have hne : ¬ k₁ = k := fun e => hn.1 (e ▸ hmem)
      have := hl k (by simp only [akeys, List.map_cons, List.mem_cons]; exact Or.inr hmem)
      simpa [alookup_cons, hne] using this

theorem sizeOf_lt_of_alookup (k : String) (v : Cfg) (l : Dict) (h : alookup k l = some v) :
    sizeOf v < sizeOf l := by
  induction l with
  | nil => simp at h
  | cons p l ih =>
    obtain ⟨k', v'⟩ := p
    rw [alookup_cons] at h
    by_cases hk : k' = k
    · rw [if_pos hk] at h
      cases h
      simp
      omega
    · rw [if_neg hk] at h
      have := ih h
      simp
      omega

theorem sizeOf_dict_lt_of_alookup (k : String) (x : Dict) (l : Dict)
    (h : alookup k l = some (.dict x)) : sizeOf x < sizeOf l := by
  have := sizeOf_lt_of_alookup k _ l h
  simp at this
  omega

/-! ### the per-key value -/

theorem mergedValue_none_right (o : Option Cfg) : mergedValue o none = o := by
  cases o with
  | none => rfl
  | some v => cases v <;> rfl

theorem mergedValue_none_left (o : Option Cfg) : mergedValue none o = o := by
  cases o <;> rfl

theorem mergedValue_atom_right (o : Option Cfg) (x : Atom) :
    mergedValue o (some (.atom x)) = some (.atom x) := by
  cases o with
  | none => rfl
  | some v => cases v <;> rfl

theorem mergedValue_dict_dict (x y : Dict) :
    mergedValue (some (.dict x)) (some (.dict y)) = some (.dict (merge x y)) := rfl

theorem mergedValue_nodict_left (o : Option Cfg) (v : Cfg)
    (h : ∀ x, o ≠ some (.dict x)) : mergedValue o (some v) = some v := by
  cases o with
  | none => rfl
  | some c =>
    cases c with
    | atom a => rfl
    | dict x => exact absurd rfl (h x)

/-! ### an empty side -/

theorem merge_nil_left (b : Dict) (hb : NoDupKeys b) : merge [] b = b := by
  have := C17_none_left b hb
  simpa [mergeOpt] using this

/-! ### keys of repeated merges -/

theorem filter_not_mem_eq_nil (l m : List String) (h : ∀ k ∈ l, k ∈ m) :
    l.filter (fun k => decide (k ∉ m)) = [] := by
  rw [List.filter_eq_nil_iff]
  intro k hk
  simpa using h k hk

theorem akeys_merge_self (a : Dict) (ha : NoDupKeys a) : akeys (merge a a) = akeys a := by
  rw [C17_keys a a ha, filter_not_mem_eq_nil _ _ (fun _ h => h), List.append_nil]

theorem akeys_merge_again (a b : Dict) (hb : NoDupKeys b) :
    akeys (merge (merge a b) b) = akeys (merge a b) := by
  rw [C17_keys (merge a b) b hb,
    filter_not_mem_eq_nil _ _ (fun k h => (C17_mem_keys a b hb k).mpr (Or.inr h)), List.append_nil]

/-! ### the laws, one level at a time (the nested level is a hypothesis) -/

/-- Idempotence of one level, given idempotence of the nested dictionaries. -/
theorem merge_self_of (a : Dict) (ha : NoDupKeys a)
    (hrec : ∀ k x, alookup k a = some (.dict x) → merge x x = x) : merge a a = a := by
  apply assoc_ext _ _ (akeys_merge_self a ha) (C17_wf a a ha ha)
  intro k _
  rw [C17_lookup a a ha k]
  cases h : alookup k a with
  | none => rfl
  | some v =>
    cases v with
    | atom x => rfl
    | dict x => rw [mergedValue_dict_dict, hrec k x h]

/-- Absorption of one level, given idempotence / absorption of the nested dictionaries. -/
theorem merge_again_of (a b : Dict) (ha : NoDupKeys a) (hb : NoDupKeys b)
    (hidem : ∀ k y, alookup k b = some (.dict y) → merge y y = y)
    (hrec : ∀ k x y, alookup k a = some (.dict x) → alookup k b = some (.dict y) →
      merge (merge x y) y = merge x y) :
    merge (merge a b) b = merge a b := by
  apply assoc_ext _ _ (akeys_merge_again a b hb) (C17_wf _ b (C17_wf a b ha hb) hb)
  intro k _
  rw [C17_lookup (merge a b) b hb k, C17_lookup a b hb k]
  cases h : alookup k b with
  | none => rw [mergedValue_none_right, mergedValue_none_right]
  | some v =>
    cases v with
    | atom x => rw [mergedValue_atom_right, mergedValue_atom_right]
    | dict y =>
      cases h2 : alookup k a with
      | none =>
        rw [mergedValue_none_left, mergedValue_dict_dict, hidem k y h]
      | some w =>
        cases w with
        | atom z =>
          have e : mergedValue (some (.atom z)) (some (.dict y)) = some (.dict y) := rfl
          rw [e, mergedValue_dict_dict, hidem k y h]
        | dict x =>
          rw [mergedValue_dict_dict, mergedValue_dict_dict, hrec k x y h2 h]

/-- A property of all values survives one level of merging, given that it holds for the nested
merges. -/
theorem merge_forall_of (P : Cfg → Prop) (a b : Dict) (ha : NoDupKeys a) (hb : NoDupKeys b)
    (hPa : ∀ p ∈ a, P p.2) (hPb : ∀ p ∈ b, P p.2)
    (hrec : ∀ k x y, alookup k a = some (.dict x) → alookup k b = some (.dict y) →
      P (.dict (merge x y))) :
    ∀ p ∈ merge a b, P p.2 := by
  rintro ⟨k, v⟩ hp
  have hl := alookup_of_mem k v _ (C17_wf a b ha hb) hp
  rw [C17_lookup a b hb k] at hl
  show P v
  cases h : alookup k b with
  | none =>
    rw [h, mergedValue_none_right] at hl
    exact hPa _ (mem_of_alookup k v a hl)
  | some w =>
    have hw : P w := hPb _ (mem_of_alookup k w b h)
    rw [h] at hl
    cases h2 : alookup k a with
    | none =>
      rw [h2, mergedValue_none_left] at hl
      cases hl; exact hw
    | some u =>
      rw [h2] at hl
      cases u with
      | atom z =>
        rw [mergedValue_nodict_left _ _ (by intro x e; cases e)] at hl
        cases hl; exact hw
      | dict x =>
        cases w with
        | atom z =>
          rw [mergedValue_atom_right] at hl
          cases hl; exact hw
        | dict y =>
          rw [mergedValue_dict_dict] at hl
          cases hl
          exact hrec k x y h2 h

end ML
end Asphalt
