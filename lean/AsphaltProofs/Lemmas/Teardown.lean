/- Helper lemmas for C01: unfolding of `runTeardown`, the frame of callback bodies,
reading a context back after `setCtx` / `setCur` / `removeChild`. -/
import AsphaltModel.Context
import AsphaltProofs.Lemmas.Assoc
import AsphaltProofs.Lemmas.ExitWith
import AsphaltProofs.Lemmas.GetNow

namespace Asphalt

/-! ### unfolding -/

theorem runTeardown_nil (cid : CtxId) (cur : Option CtxId) (be : BlockEnd) (x : Ctx) :
    runTeardown cid cur be [] x = (x, [], []) := by
  rw [runTeardown]

theorem runTeardown_cons (cid : CtxId) (cur : Option CtxId) (be : BlockEnd) (id : Nat) (p a : Bool)
    (body : List BodyOp) (regs : List Cb) (r : Option Exc) (stack : List Cb) (x : Ctx) :
    runTeardown cid cur be (Cb.mk id p a body regs r :: stack) x =
      ((runTeardown cid cur be (regs.reverse ++ stack) (runBody cid cur x body).1).1,
       .tdStart id (if p then some be.exc else Option.none) ::
         (if (runBody cid cur x body).2.isEmpty then [] else [.body (runBody cid cur x body).2]) ++
           .tdEnd id r :: (runTeardown cid cur be (regs.reverse ++ stack) (runBody cid cur x body).1).2.1,
       (match r with
        | some e => e :: (runTeardown cid cur be (regs.reverse ++ stack) (runBody cid cur x body).1).2.2
        | Option.none => (runTeardown cid cur be (regs.reverse ++ stack) (runBody cid cur x body).1).2.2)) := by
  rw [runTeardown]
  rfl

/-- Strong induction over callback stacks along the recursion of `runTeardown`. -/
theorem stack_induction {motive : List Cb → Prop}
    (nil : motive [])
    (cons : ∀ id p a body regs r stack, motive (regs.reverse ++ stack) →
      motive (Cb.mk id p a body regs r :: stack))
    (st : List Cb) : motive st := by
  generalize hn : stackSize st = n
  induction n using Nat.strongRecOn generalizing st with
  | _ n ih =>
    match st with
    | [] => exact nil
    | Cb.mk id p a body regs r :: stack =>
      apply cons
      apply ih _ ?_ _ rfl
      subst hn
      simp only [stackSize_cons, stackSize_append, stackSize_reverse, Cb.size_mk]
      omega

/-! ### frame of callback bodies -/

/-- The part of a context that teardown callbacks cannot touch. -/
def SameFrame (x' x : Ctx) : Prop :=
  x'.state = x.state ∧ x'.parent = x.parent ∧ x'.children = x.children ∧ x'.token = x.token ∧
    x'.tds = x.tds

theorem SameFrame.refl (x : Ctx) : SameFrame x x := ⟨rfl, rfl, rfl, rfl, rfl⟩

theorem SameFrame.trans {a b c : Ctx} (h₁ : SameFrame a b) (h₂ : SameFrame b c) : SameFrame a c := by
  obtain ⟨a1, a2, a3, a4, a5⟩ := h₁
  obtain ⟨b1, b2, b3, b4, b5⟩ := h₂
  exact ⟨a1.trans b1, a2.trans b2, a3.trans b3, a4.trans b4, a5.trans b5⟩

theorem ctxAdd_frame (cid : CtxId) (x : Ctx) (a : AddArgs) (h : a.td = Option.none) :
    SameFrame (ctxAdd cid x a).1 x := by
  unfold ctxAdd SameFrame
  simp only [h]
  repeat' split
  all_goals simp

theorem ctxAddFactory_frame (cid : CtxId) (x : Ctx) (a : FacArgs) :
    SameFrame (ctxAddFactory cid x a).1 x := by
  unfold ctxAddFactory SameFrame
  repeat' split
  all_goals simp

theorem storeGenerated_frame (cid : CtxId) (x : Ctx) (f : Factory) (v : Val) :
    SameFrame (storeGenerated cid x f v).1 x := by
  unfold storeGenerated SameFrame
  simp only
  split <;> simp

theorem callFactory_frame (cid : CtxId) (x : Ctx) (f : Factory) :
    SameFrame (callFactory cid x f).1 x := by
  unfold callFactory SameFrame
  simp only
  split <;> simp

theorem ctxGetNowait_frame (cid : CtxId) (x : Ctx) (k : Key) (opt : Bool) :
    SameFrame (ctxGetNowait cid x k opt).1 x := by
  unfold ctxGetNowait
  split
  · exact SameFrame.refl x
  split
  · exact SameFrame.refl x
  split
  · split
    · exact SameFrame.refl x
    · have hc := callFactory_frame cid x ‹Factory›
      split
      · rename_i heq; rw [heq] at hc; exact hc
      · rename_i heq; rw [heq] at hc
        exact (storeGenerated_frame cid _ _ _).trans hc
  · exact SameFrame.refl x

theorem ctxGetNow_frame (cid : CtxId) (x : Ctx) (k : Key) (opt : Bool) :
    SameFrame (ctxGetNow cid x k opt).1 x := by
  unfold ctxGetNow
  split
  · exact SameFrame.refl x
  split
  · exact SameFrame.refl x
  split
  · split
    · exact SameFrame.refl x
    · have hc := callFactory_frame cid x ‹Factory›
      split
      · rename_i heq; rw [heq] at hc; exact hc
      · rename_i heq; rw [heq] at hc
        exact (storeGenerated_frame cid _ _ _).trans hc
  · exact SameFrame.refl x

theorem runBodyOp_frame (cid : CtxId) (cur : Option CtxId) (x : Ctx) (op : BodyOp) :
    SameFrame (runBodyOp cid cur x op).1 x := by
  cases op with
  | add types name v => exact ctxAdd_frame cid x _ rfl
  | addFactory types name fid => exact ctxAddFactory_frame cid x _
  | getNowait ty name opt => exact ctxGetNowait_frame cid x _ opt
  | get ty name opt => exact ctxGetNow_frame cid x _ opt
  | current => exact SameFrame.refl x

theorem runBody_frame (cid : CtxId) (cur : Option CtxId) (x : Ctx) (ops : List BodyOp) :
    SameFrame (runBody cid cur x ops).1 x := by
  induction ops generalizing x with
  | nil => exact SameFrame.refl x
  | cons op ops ih =>
    simp only [runBody]
    exact (ih _).trans (runBodyOp_frame cid cur x op)

theorem runTeardown_frame (cid : CtxId) (cur : Option CtxId) (be : BlockEnd) (st : List Cb) (x : Ctx) :
    SameFrame (runTeardown cid cur be st x).1 x := by
  induction st using stack_induction generalizing x with
  | nil => rw [runTeardown_nil]; exact SameFrame.refl x
  | cons id p a body regs r stack ih =>
    rw [runTeardown_cons]
    exact (ih _).trans (runBody_frame cid cur x body)

/-! ### reading a context back -/

theorem ctx?_setCtx_same (w : World) (c : CtxId) (x : Ctx) : (w.setCtx c x).ctx? c = some x := by
  simp [World.ctx?, World.setCtx, alookup_ainsert_same]

theorem ctx?_setCtx_other (w : World) (c c' : CtxId) (x : Ctx) (h : c' ≠ c) :
    (w.setCtx c' x).ctx? c = w.ctx? c := by
  simp [World.ctx?, World.setCtx, alookup_ainsert_other _ _ _ _ h]

theorem ctx?_setCur (w : World) (t : TaskId) (v : Option CtxId) (c : CtxId) :
    (w.setCur t v).ctx? c = w.ctx? c := rfl

/-- `removeChild` leaves every context's state and callback stack alone. -/
theorem ctx?_removeChild (w : World) (parent : Option CtxId) (c c' : CtxId) (x : Ctx)
    (h : w.ctx? c' = some x) :
    ∃ x', (removeChild w parent c).ctx? c' = some x' ∧ x'.state = x.state ∧ x'.tds = x.tds := by
  unfold removeChild
  split
  · exact ⟨x, h, rfl, rfl⟩
  · rename_i p
    split
    · exact ⟨x, h, rfl, rfl⟩
    · rename_i px hpx
      by_cases hp : p = c'
      · subst hp
        rw [h] at hpx
        cases hpx
        exact ⟨_, ctx?_setCtx_same _ _ _, rfl, rfl⟩
      · rw [ctx?_setCtx_other _ _ _ _ hp]
        exact ⟨x, h, rfl, rfl⟩

/-! ### cancellation -/

theorem effStack_of_not_cancel (be : BlockEnd) (st : List Cb) (h : be.isCancel = false) :
    effStack be st = st := by
  simp [effStack, h]

theorem underCancelList_nil : Cb.underCancel.underCancelList [] = [] := by
  rw [Cb.underCancel.underCancelList]

theorem underCancelList_cons (c : Cb) (cs : List Cb) :
    Cb.underCancel.underCancelList (c :: cs) = c.underCancel :: Cb.underCancel.underCancelList cs := by
  rw [Cb.underCancel.underCancelList]

theorem underCancelList_eq_map (st : List Cb) :
    Cb.underCancel.underCancelList st = st.map Cb.underCancel := by
  induction st with
  | nil => rw [underCancelList_nil]; rfl
  | cons c cs ih => rw [underCancelList_cons, ih]; rfl

theorem underCancel_sync (id : Nat) (p : Bool) (body : List BodyOp) (regs : List Cb) (r : Option Exc) :
    (Cb.mk id p false body regs r).underCancel =
      Cb.mk id p false body (regs.map Cb.underCancel) r := by
  rw [Cb.underCancel, underCancelList_eq_map]
  simp

theorem underCancel_async (id : Nat) (p : Bool) (body : List BodyOp) (regs : List Cb) (r : Option Exc) :
    (Cb.mk id p true body regs r).underCancel = Cb.mk id p true [] [] (some .cancelled) := by
  rw [Cb.underCancel]
  simp

/-! ### the `exit` step -/

/-- The outcome reported by `__aexit__`, as computed in the `exit` case of `step`. -/
def exitOutcome (be : BlockEnd) (isRoot : Bool) (children : List CtxId) (excs : List Exc) : Out :=
  if !excs.isEmpty then .exitGroup excs
  else match be with
    | .raised e =>
      if !isRoot && !children.isEmpty then .corruption
      else .exitOwn e (isRoot && (match e with | .exn _ => false | _ => true))
    | .ret => if !children.isEmpty then .corruption else .exitNormal

/-- Leaving the block of an open context, tearing down the stack `stk x.tds`. -/
theorem exitWith_opened (w : World) (t : TaskId) (c : CtxId) (be : BlockEnd)
    (stk : List Cb → List Cb) (x : Ctx) (hx : w.ctx? c = some x) (hs : x.state = .opened) :
    exitWith w t c be stk =
      (removeChild
        ((w.setCtx c { (runTeardown c (w.curOf t) be (stk x.tds) { x with state := .closing, tds := [] }).1 with
            state := .closed }).setCur t (x.token.getD Option.none)) x.parent c,
       (runTeardown c (w.curOf t) be (stk x.tds) { x with state := .closing, tds := [] }).2.1 ++
         [.closed, exitOutcome be x.parent.isNone x.children
            (runTeardown c (w.curOf t) be (stk x.tds) { x with state := .closing, tds := [] }).2.2]) := by
  have hch : (runTeardown c (w.curOf t) be (stk x.tds) { x with state := .closing, tds := [] }).1.children =
      x.children := (runTeardown_frame c (w.curOf t) be (stk x.tds) _).2.2.1
  simp only [exitWith, hx, hs, exitOutcome, ne_eq, not_true_eq_false, if_false]
  rw [hch]
  rfl

theorem step_exit (w : World) (t : TaskId) (c : CtxId) (be : BlockEnd) (x : Ctx)
    (hx : w.ctx? c = some x) (hs : x.state = .opened) :
    step w (.exit t c be) =
      (removeChild
        ((w.setCtx c { (runTeardown c (w.curOf t) be (effStack be x.tds) { x with state := .closing, tds := [] }).1 with
            state := .closed }).setCur t (x.token.getD Option.none)) x.parent c,
       (runTeardown c (w.curOf t) be (effStack be x.tds) { x with state := .closing, tds := [] }).2.1 ++
         [.closed, exitOutcome be x.parent.isNone x.children
            (runTeardown c (w.curOf t) be (effStack be x.tds) { x with state := .closing, tds := [] }).2.2]) := by
  rw [step_exit_exitWith]; exact exitWith_opened w t c be _ x hx hs

/-- The same for a block whose scope is cancelled during callback `k` of the teardown. -/
theorem step_exitMid (w : World) (t : TaskId) (c : CtxId) (be : BlockEnd) (k : Nat) (x : Ctx)
    (hx : w.ctx? c = some x) (hs : x.state = .opened) :
    step w (.exitMid t c be k) =
      (removeChild
        ((w.setCtx c { (runTeardown c (w.curOf t) be (midEff be k x.tds) { x with state := .closing, tds := [] }).1 with
            state := .closed }).setCur t (x.token.getD Option.none)) x.parent c,
       (runTeardown c (w.curOf t) be (midEff be k x.tds) { x with state := .closing, tds := [] }).2.1 ++
         [.closed, exitOutcome be x.parent.isNone x.children
            (runTeardown c (w.curOf t) be (midEff be k x.tds) { x with state := .closing, tds := [] }).2.2]) := by
  rw [step_exitMid_exitWith]; exact exitWith_opened w t c be _ x hx hs

end Asphalt
