/-
Helper lemmas about the context kernel (AsphaltModel/Context.lean): the tables only grow,
stay functional, and the lifecycle fields are touched by `enter` / `exit` only.
-/
import AsphaltModel.Context
import AsphaltProofs.Lemmas.Assoc
import AsphaltProofs.Lemmas.ExitWith
import AsphaltProofs.Lemmas.GetNow

namespace Asphalt

/-! ### association lists -/

section assoc
variable {κ α : Type} [DecidableEq κ]

/-- Re-assigning the value a key already has changes nothing. -/
theorem ainsert_self (k : κ) (v : α) (l : List (κ × α)) (h : alookup k l = some v) :
    ainsert k v l = l := by
  induction l with
  | nil => simp at h
  | cons p l ih =>
    obtain ⟨k', v'⟩ := p
    rw [alookup_cons] at h
    rw [ainsert_cons]
    by_cases hk : k' = k
    · rw [if_pos hk] at h
      rw [if_pos hk]
      cases h
      rfl
    · rw [if_neg hk] at h
      rw [if_neg hk, ih h]

omit [DecidableEq κ] in
theorem NoDupKeys_nil : NoDupKeys ([] : List (κ × α)) := by
  simp [NoDupKeys, akeys]

theorem NoDupKeys_ainsert (k : κ) (v : α) (l : List (κ × α)) (h : NoDupKeys l) :
    NoDupKeys (ainsert k v l) := by
  unfold NoDupKeys at *
  by_cases hk : k ∈ akeys l
  · rw [akeys_ainsert_mem k v l hk]; exact h
  · rw [akeys_ainsert_not_mem k v l hk]
    rw [List.nodup_append]
    refine ⟨h, by simp, ?_⟩
    intro a ha b hb
    simp only [List.mem_singleton] at hb
    subst hb
    intro e
    subst e
    exact hk ha

omit [DecidableEq κ] in
theorem NoDupKeys_filter (p : κ × α → Bool) (l : List (κ × α)) (h : NoDupKeys l) :
    NoDupKeys (l.filter p) := by
  unfold NoDupKeys akeys at *
  exact List.Nodup.sublist (List.Sublist.map _ List.filter_sublist) h

theorem acontains_false_iff (k : κ) (l : List (κ × α)) :
    acontains k l = false ↔ alookup k l = none := by
  unfold acontains
  cases alookup k l <;> simp

end assoc

/-! ### the store loops -/

theorem alookup_storeAll (cont : Container) (name : String) (ts : List TypeId)
    (r : List (Key × Container)) (k : Key) :
    alookup k (storeAll cont name ts r) =
      if k.name = name ∧ k.ty ∈ ts then some cont else alookup k r := by
  induction ts generalizing r with
  | nil => simp [storeAll]
  | cons t ts ih =>
    rw [storeAll, ih]
    obtain ⟨kt, kn⟩ := k
    by_cases h1 : kn = name ∧ kt ∈ ts
    · have h2 : kn = name ∧ kt ∈ t :: ts := ⟨h1.1, List.mem_cons_of_mem _ h1.2⟩
      simp only [h1, h2, and_self, if_true]
    · by_cases h3 : (⟨t, name⟩ : Key) = ⟨kt, kn⟩
      · have h4 : kn = name ∧ kt ∈ t :: ts := by
          cases h3; exact ⟨rfl, List.mem_cons_self⟩
        rw [if_neg h1, if_pos h4, ← h3, alookup_ainsert_same]
      · have h4 : ¬ (kn = name ∧ kt ∈ t :: ts) := by
          rintro ⟨e, hm⟩
          rcases List.mem_cons.mp hm with e2 | hm
          · exact h3 (by rw [e, e2])
          · exact h1 ⟨e, hm⟩
        rw [if_neg h1, if_neg h4, alookup_ainsert_other _ _ _ _ h3]

theorem alookup_storeFac (f : Factory) (name : String) (ts : List TypeId)
    (r : List (Key × Factory)) (k : Key) :
    alookup k (storeFac f name ts r) =
      if k.name = name ∧ k.ty ∈ ts then some f else alookup k r := by
  induction ts generalizing r with
  | nil => simp [storeFac]
  | cons t ts ih =>
    rw [storeFac, ih]
    obtain ⟨kt, kn⟩ := k
    by_cases h1 : kn = name ∧ kt ∈ ts
    · have h2 : kn = name ∧ kt ∈ t :: ts := ⟨h1.1, List.mem_cons_of_mem _ h1.2⟩
      simp only [h1, h2, and_self, if_true]
    · by_cases h3 : (⟨t, name⟩ : Key) = ⟨kt, kn⟩
      · have h4 : kn = name ∧ kt ∈ t :: ts := by
          cases h3; exact ⟨rfl, List.mem_cons_self⟩
        rw [if_neg h1, if_pos h4, ← h3, alookup_ainsert_same]
      · have h4 : ¬ (kn = name ∧ kt ∈ t :: ts) := by
          rintro ⟨e, hm⟩
          rcases List.mem_cons.mp hm with e2 | hm
          · exact h3 (by rw [e, e2])
          · exact h1 ⟨e, hm⟩
        rw [if_neg h1, if_neg h4, alookup_ainsert_other _ _ _ _ h3]

/-- Storing under pairs that are all free keeps every existing entry. -/
theorem alookup_storeAll_keep (cont : Container) (name : String) (ts : List TypeId)
    (r : List (Key × Container)) (k : Key) (c0 : Container) (hk : alookup k r = some c0)
    (hfree : ∀ t ∈ ts, acontains ⟨t, name⟩ r = false) :
    alookup k (storeAll cont name ts r) = some c0 := by
  rw [alookup_storeAll]
  by_cases h : k.name = name ∧ k.ty ∈ ts
  · exfalso
    have h2 := (acontains_false_iff _ _).mp (hfree k.ty h.2)
    obtain ⟨kt, kn⟩ := k
    simp only at h h2
    rw [← h.1, hk] at h2
    cases h2
  · rw [if_neg h, hk]

theorem alookup_storeFac_keep (f : Factory) (name : String) (ts : List TypeId)
    (r : List (Key × Factory)) (k : Key) (f0 : Factory) (hk : alookup k r = some f0)
    (hfree : ∀ t ∈ ts, acontains ⟨t, name⟩ r = false) :
    alookup k (storeFac f name ts r) = some f0 := by
  rw [alookup_storeFac]
  by_cases h : k.name = name ∧ k.ty ∈ ts
  · exfalso
    have h2 := (acontains_false_iff _ _).mp (hfree k.ty h.2)
    obtain ⟨kt, kn⟩ := k
    simp only at h h2
    rw [← h.1, hk] at h2
    cases h2
  · rw [if_neg h, hk]

theorem NoDupKeys_storeAll (cont : Container) (name : String) (ts : List TypeId)
    (r : List (Key × Container)) (h : NoDupKeys r) : NoDupKeys (storeAll cont name ts r) := by
  induction ts generalizing r with
  | nil => exact h
  | cons t ts ih => rw [storeAll]; exact ih _ (NoDupKeys_ainsert _ _ _ h)

theorem NoDupKeys_storeFac (f : Factory) (name : String) (ts : List TypeId)
    (r : List (Key × Factory)) (h : NoDupKeys r) : NoDupKeys (storeFac f name ts r) := by
  induction ts generalizing r with
  | nil => exact h
  | cons t ts ih => rw [storeFac]; exact ih _ (NoDupKeys_ainsert _ _ _ h)

/-- `any … = false` read as a statement about every element. -/
theorem free_of_any_false (name : String) (ts : List TypeId) {β : Type} (r : List (Key × β))
    (h : ¬ (ts.any (fun t => acontains ⟨t, name⟩ r)) = true) :
    ∀ t ∈ ts, acontains ⟨t, name⟩ r = false := by
  intro t ht
  cases hc : acontains ⟨t, name⟩ r with
  | false => rfl
  | true => exact absurd (List.any_eq_true.mpr ⟨t, ht, hc⟩) h

/-! ### what a context-local operation may change -/

/-- `x'` extends `x`: same lifecycle fields, tables only grow and stay functional. -/
structure Ext (x x' : Ctx) : Prop where
  state : x'.state = x.state
  parent : x'.parent = x.parent
  children : x'.children = x.children
  token : x'.token = x.token
  res : ∀ k c, alookup k x.res = some c → alookup k x'.res = some c
  fac : ∀ k f, alookup k x.fac = some f → alookup k x'.fac = some f
  ndr : NoDupKeys x.res → NoDupKeys x'.res
  ndf : NoDupKeys x.fac → NoDupKeys x'.fac

theorem Ext.refl (x : Ctx) : Ext x x :=
  ⟨rfl, rfl, rfl, rfl, fun _ _ h => h, fun _ _ h => h, id, id⟩

theorem Ext.trans {x y z : Ctx} (h1 : Ext x y) (h2 : Ext y z) : Ext x z :=
  ⟨h2.state.trans h1.state, h2.parent.trans h1.parent, h2.children.trans h1.children,
   h2.token.trans h1.token, fun k c h => h2.res k c (h1.res k c h),
   fun k f h => h2.fac k f (h1.fac k f h), fun h => h2.ndr (h1.ndr h), fun h => h2.ndf (h1.ndf h)⟩

/-- Changes to the fields no property here looks at. -/
theorem Ext.of_fields {x x' : Ctx} (h1 : x'.state = x.state) (h2 : x'.parent = x.parent)
    (h3 : x'.children = x.children) (h4 : x'.token = x.token) (h5 : x'.res = x.res)
    (h6 : x'.fac = x.fac) : Ext x x' :=
  ⟨h1, h2, h3, h4, fun _ _ h => by rw [h5]; exact h, fun _ _ h => by rw [h6]; exact h,
   fun h => by rw [h5]; exact h, fun h => by rw [h6]; exact h⟩

theorem ctxAdd_ext (cid : CtxId) (x : Ctx) (a : AddArgs) : Ext x (ctxAdd cid x a).1 := by
  unfold ctxAdd
  dsimp only
  repeat' split
  all_goals first
    | exact Ext.refl _
    | exact ⟨rfl, rfl, rfl, rfl,
        fun k c h => alookup_storeAll_keep _ _ _ _ k c h (free_of_any_false _ _ _ (by assumption)),
        fun _ _ h => h, fun h => NoDupKeys_storeAll _ _ _ _ h, id⟩

/-- Inversion of a successful `add_resource`. -/
theorem ctxAdd_ok_inv (cid : CtxId) (x : Ctx) (a : AddArgs) (e : REvent)
    (h : (ctxAdd cid x a).2 = [.ok, .ev cid e]) :
    ∃ v, a.val = some v ∧
      (ctxAdd cid x a).1.res =
        storeAll ⟨.static v, addTypes a, a.name, a.desc, false⟩ a.name (addTypes a) x.res := by
  revert h
  unfold ctxAdd
  dsimp only
  repeat' split
  all_goals
    intro h
    first
      | (simp at h; done)
      | exact ⟨_, by assumption, rfl⟩

theorem ctxAddFactory_ext (cid : CtxId) (x : Ctx) (a : FacArgs) :
    Ext x (ctxAddFactory cid x a).1 := by
  unfold ctxAddFactory
  dsimp only
  repeat' split
  all_goals first
    | exact Ext.refl _
    | exact ⟨rfl, rfl, rfl, rfl, fun _ _ h => h,
        fun k c h => alookup_storeFac_keep _ _ _ _ k c h (free_of_any_false _ _ _ (by assumption)),
        id, fun h => NoDupKeys_storeFac _ _ _ _ h⟩

theorem callFactory_ext (cid : CtxId) (x : Ctx) (f : Factory) : Ext x (callFactory cid x f).1 := by
  unfold callFactory
  simp only
  split <;> exact Ext.of_fields rfl rfl rfl rfl rfl rfl

theorem storeGenerated_ext (cid : CtxId) (x : Ctx) (f : Factory) (v : Val) :
    Ext x (storeGenerated cid x f v).1 := by
  have hfree : ∀ t ∈ f.types.filter (fun t => !acontains ⟨t, f.name⟩ x.res),
      acontains ⟨t, f.name⟩ x.res = false := by
    intro t ht
    have := (List.mem_filter.mp ht).2
    simpa using this
  unfold storeGenerated
  simp only
  split <;>
  exact ⟨rfl, rfl, rfl, rfl,
      fun k c h => alookup_storeAll_keep _ _ _ _ k c h hfree,
      fun _ _ h => h, fun h => NoDupKeys_storeAll _ _ _ _ h, id⟩

theorem ext_of_callFactory {cid : CtxId} {x x' : Ctx} {f : Factory} {r : Option Val}
    (h : callFactory cid x f = (x', r)) : Ext x x' := by
  have h2 := callFactory_ext cid x f
  rw [h] at h2
  exact h2

theorem ctxGetNowait_ext (cid : CtxId) (x : Ctx) (k : Key) (opt : Bool) :
    Ext x (ctxGetNowait cid x k opt).1 := by
  unfold ctxGetNowait
  dsimp only
  repeat' split
  all_goals first
    | exact Ext.refl _
    | exact ext_of_callFactory (by assumption)
    | exact (ext_of_callFactory (by assumption)).trans (storeGenerated_ext _ _ _ _)

theorem ctxGet_ext (cid : CtxId) (x : Ctx) (t : TaskId) (k : Key) (opt : Bool) :
    Ext x (ctxGet cid x t k opt).1 := by
  unfold ctxGet
  dsimp only
  repeat' split
  all_goals first
    | exact Ext.refl _
    | exact Ext.of_fields rfl rfl rfl rfl rfl rfl
    | exact ext_of_callFactory (by assumption)
    | exact (ext_of_callFactory (by assumption)).trans (storeGenerated_ext _ _ _ _)

theorem resumeWaiters_ext (cid : CtxId) (x : Ctx) (ws : List (TaskId × Key × Bool)) :
    Ext x (resumeWaiters cid x ws).1 := by
  induction ws generalizing x with
  | nil => exact Ext.refl _
  | cons w ws ih =>
    obtain ⟨t, k, opt⟩ := w
    unfold resumeWaiters
    exact (ctxGet_ext cid x t k opt).trans (ih _)

theorem ctxGenFinish_ext (cid : CtxId) (x : Ctx) (fid : Nat) (next : Option TaskId) :
    Ext x (ctxGenFinish cid x fid next).1 := by
  unfold ctxGenFinish
  dsimp only
  have h0 : Ext x { x with pending := x.pending.filter fun q => q.fid ≠ fid } :=
    Ext.of_fields rfl rfl rfl rfl rfl rfl
  repeat' split
  all_goals first
    | exact Ext.refl _
    | exact h0
    | exact h0.trans (resumeWaiters_ext _ _ _)
    | exact h0.trans ((storeGenerated_ext _ _ _ _).trans (resumeWaiters_ext _ _ _))

theorem ctxCancelGet_ext (cid : CtxId) (x : Ctx) (lid : TaskId) (next : Option TaskId) :
    Ext x (ctxCancelGet cid x lid next).1 := by
  unfold ctxCancelGet
  split
  · next p0 _ =>
    exact (Ext.of_fields (x := x)
        (x' := { x with pending := x.pending.filter fun q => q.fid ≠ p0.fid }) rfl rfl rfl rfl rfl rfl).trans
      (resumeWaiters_ext cid _ (wakeOrder next p0.waiters))
  · split
    · exact Ext.of_fields rfl rfl rfl rfl rfl rfl
    · exact Ext.refl _

theorem ctxGetNow_ext (cid : CtxId) (x : Ctx) (k : Key) (opt : Bool) :
    Ext x (ctxGetNow cid x k opt).1 :=
  ctxGetNow_transfer (Ext x) cid x k opt (Ext.refl _) (fun t => ctxGet_ext cid x t k opt)

theorem runBodyOp_ext (cid : CtxId) (cur : Option CtxId) (x : Ctx) (op : BodyOp) : Ext x (runBodyOp cid cur x op).1 := by
  cases op with
  | add types name v => exact ctxAdd_ext _ _ _
  | addFactory types name fid => exact ctxAddFactory_ext _ _ _
  | getNowait ty name opt => exact ctxGetNowait_ext _ _ _ _
  | get ty name opt => exact ctxGetNow_ext _ _ _ _
  | current => exact Ext.refl _

theorem runBody_ext (cid : CtxId) (cur : Option CtxId) (x : Ctx) (ops : List BodyOp) : Ext x (runBody cid cur x ops).1 := by
  induction ops generalizing x with
  | nil => exact Ext.refl _
  | cons op ops ih =>
    unfold runBody
    exact (runBodyOp_ext cid cur x op).trans (ih _)

theorem runTeardown_ext (cid : CtxId) (cur : Option CtxId) (be : BlockEnd) (st : List Cb) (x : Ctx) :
    Ext x (runTeardown cid cur be st x).1 := by
  fun_induction runTeardown cid cur be st x with
  | case1 x => exact Ext.refl _
  | case2 stack x id passExc isAsync body regs raises x' bodyOut hb stack' x'' tr excs ht ih =>
    have hb' : Ext x x' := by
      have h := runBody_ext cid cur x body
      rw [hb] at h
      exact h
    simp only [stack', List.unattach_reverse, List.unattach_attach] at ht ih
    dsimp only
    rw [ht] at ih ⊢
    exact hb'.trans ih

theorem resolveDeps_ext (cid : CtxId) (isAsync : Bool) (t : TaskId) (x : Ctx) (ds : List Dep) :
    Ext x (resolveDeps cid isAsync t x ds).1 := by
  induction ds generalizing x with
  | nil => exact Ext.refl _
  | cons d ds ih =>
    unfold resolveDeps
    have h1 : Ext x (if isAsync then ctxGet cid x t d.key d.optional
                     else ctxGetNowait cid x d.key d.optional).1 := by
      split
      · exact ctxGet_ext _ _ _ _ _
      · exact ctxGetNowait_ext _ _ _ _
    generalize (if isAsync then ctxGet cid x t d.key d.optional
                else ctxGetNowait cid x d.key d.optional) = p at h1 ⊢
    obtain ⟨x', o⟩ := p
    dsimp only at h1 ⊢
    split
    · exact h1.trans (ih _)
    · exact h1.trans (ih _)
    · exact h1

/-! ### worlds -/

theorem World.ctx?_setCtx_same (w : World) (c : CtxId) (x : Ctx) :
    (w.setCtx c x).ctx? c = some x := by
  simp only [World.ctx?, World.setCtx, alookup_ainsert_same]

theorem World.ctx?_setCtx_other (w : World) (c c' : CtxId) (x : Ctx) (h : c' ≠ c) :
    (w.setCtx c' x).ctx? c = w.ctx? c := by
  simp only [World.ctx?, World.setCtx, alookup_ainsert_other _ _ _ _ h]

theorem World.ctx?_setCur (w : World) (t : TaskId) (v : Option CtxId) (c : CtxId) :
    (w.setCur t v).ctx? c = w.ctx? c := rfl

/-- Writing back the record a context already has leaves the world literally unchanged. -/
theorem World.setCtx_self (w : World) (c : CtxId) (x : Ctx) (h : w.ctx? c = some x) :
    w.setCtx c x = w := by
  cases w with
  | mk ctxs cur =>
    simp only [World.ctx?] at h
    simp only [World.setCtx, ainsert_self c x ctxs h]

/-- The tables of `x'` contain those of `x` and stay functional. -/
structure Keeps (x x' : Ctx) : Prop where
  res : ∀ k c, alookup k x.res = some c → alookup k x'.res = some c
  fac : ∀ k f, alookup k x.fac = some f → alookup k x'.fac = some f
  ndr : NoDupKeys x.res → NoDupKeys x'.res
  ndf : NoDupKeys x.fac → NoDupKeys x'.fac

theorem Ext.keeps {x x' : Ctx} (h : Ext x x') : Keeps x x' := ⟨h.res, h.fac, h.ndr, h.ndf⟩

theorem Keeps.refl (x : Ctx) : Keeps x x := (Ext.refl x).keeps

theorem Keeps.trans {x y z : Ctx} (h1 : Keeps x y) (h2 : Keeps y z) : Keeps x z :=
  ⟨fun k c h => h2.res k c (h1.res k c h), fun k f h => h2.fac k f (h1.fac k f h),
   fun h => h2.ndr (h1.ndr h), fun h => h2.ndf (h1.ndf h)⟩

theorem Keeps.of_tables {x x' : Ctx} (h5 : x'.res = x.res) (h6 : x'.fac = x.fac) : Keeps x x' :=
  ⟨fun _ _ h => by rw [h5]; exact h, fun _ _ h => by rw [h6]; exact h,
   fun h => by rw [h5]; exact h, fun h => by rw [h6]; exact h⟩

/-- No context disappears or appears, and every context keeps its tables. -/
def WKeeps (w w' : World) : Prop :=
  ∀ c, (∀ x, w.ctx? c = some x → ∃ x', w'.ctx? c = some x' ∧ Keeps x x') ∧
       (w.ctx? c = none → w'.ctx? c = none)

theorem WKeeps.refl (w : World) : WKeeps w w :=
  fun _ => ⟨fun x h => ⟨x, h, Keeps.refl x⟩, id⟩

theorem WKeeps.trans {w1 w2 w3 : World} (h1 : WKeeps w1 w2) (h2 : WKeeps w2 w3) : WKeeps w1 w3 := by
  intro c
  refine ⟨fun x hx => ?_, fun hn => (h2 c).2 ((h1 c).2 hn)⟩
  obtain ⟨y, hy, k1⟩ := (h1 c).1 x hx
  obtain ⟨z, hz, k2⟩ := (h2 c).1 y hy
  exact ⟨z, hz, k1.trans k2⟩

theorem WKeeps.setCtx {w : World} {c : CtxId} {x x' : Ctx} (hx : w.ctx? c = some x)
    (hk : Keeps x x') : WKeeps w (w.setCtx c x') := by
  intro c2
  by_cases hc : c = c2
  · subst hc
    refine ⟨fun y hy => ⟨x', World.ctx?_setCtx_same _ _ _, ?_⟩, fun hn => ?_⟩
    · rw [hx] at hy; cases hy; exact hk
    · rw [hx] at hn; cases hn
  · rw [World.ctx?_setCtx_other _ _ _ _ hc]
    exact ⟨fun y hy => ⟨y, hy, Keeps.refl y⟩, id⟩

theorem WKeeps.setCur (w : World) (t : TaskId) (v : Option CtxId) : WKeeps w (w.setCur t v) :=
  fun _ => ⟨fun x h => ⟨x, h, Keeps.refl x⟩, id⟩

theorem WKeeps.removeChild (w : World) (p : Option CtxId) (c : CtxId) :
    WKeeps w (removeChild w p c) := by
  unfold Asphalt.removeChild
  split
  · exact WKeeps.refl _
  · split
    · exact WKeeps.refl _
    · next px hpx => exact WKeeps.setCtx hpx (Keeps.of_tables rfl rfl)

theorem WKeeps.onCtx (w : World) (c : CtxId) (f : Ctx → Ctx × List Out)
    (hf : ∀ x, Keeps x (f x).1) : WKeeps w (onCtx w c f).1 := by
  unfold Asphalt.onCtx
  split
  · exact WKeeps.refl _
  · next x hx => exact WKeeps.setCtx hx (hf x)

theorem step_enter_WKeeps (w : World) (t : TaskId) (c : CtxId) :
    WKeeps w (step w (.enter t c)).1 := by
  simp only [step]
  split
  · exact WKeeps.refl _
  · next x hx =>
    split
    · exact WKeeps.refl _
    · dsimp only
      refine WKeeps.trans ?_ (WKeeps.setCur _ _ _)
      have h1 : WKeeps w (w.setCtx c { x with state := .opened, token := some (w.curOf t) }) :=
        WKeeps.setCtx hx (Keeps.of_tables rfl rfl)
      split
      · exact h1
      · split
        · exact h1
        · next px hpx => exact h1.trans (WKeeps.setCtx hpx (Keeps.of_tables rfl rfl))

theorem exitWith_WKeeps (w : World) (t : TaskId) (c : CtxId) (be : BlockEnd)
    (stk : List Cb → List Cb) : WKeeps w (exitWith w t c be stk).1 := by
  simp only [exitWith]
  split
  · exact WKeeps.refl _
  · next x hx =>
    split
    · exact WKeeps.refl _
    · dsimp only
      refine WKeeps.trans ?_ (WKeeps.removeChild _ _ _)
      refine WKeeps.trans ?_ (WKeeps.setCur _ _ _)
      refine WKeeps.setCtx hx ?_
      have h1 : Keeps x { x with state := .closing, tds := [] } := Keeps.of_tables rfl rfl
      have h2 := (runTeardown_ext c (w.curOf t) be (stk x.tds) { x with state := .closing, tds := [] }).keeps
      exact (h1.trans h2).trans (Keeps.of_tables rfl rfl)

theorem step_exit_WKeeps (w : World) (t : TaskId) (c : CtxId) (be : BlockEnd) :
    WKeeps w (step w (.exit t c be)).1 := by
  rw [step_exit_exitWith]; exact exitWith_WKeeps w t c be _

theorem step_exitMid_WKeeps (w : World) (t : TaskId) (c : CtxId) (be : BlockEnd) (k : Nat) :
    WKeeps w (step w (.exitMid t c be k)).1 := by
  rw [step_exitMid_exitWith]; exact exitWith_WKeeps w t c be _

theorem step_inject_WKeeps (w : World) (t : TaskId) (isAsync : Bool) (deps : List Dep)
    (badUnion : Bool) : WKeeps w (step w (.inject t isAsync deps badUnion)).1 := by
  simp only [step]
  split
  · exact WKeeps.refl _
  · split
    · exact WKeeps.refl _
    · next c hc =>
      split
      · exact WKeeps.refl _
      · next x hx => exact WKeeps.setCtx hx (resolveDeps_ext c isAsync t x deps).keeps

theorem step_addTeardown_WKeeps (w : World) (c : CtxId) (cb : Cb) (callable : Bool) :
    WKeeps w (step w (.addTeardown c cb callable)).1 := by
  simp only [step]
  refine WKeeps.onCtx _ _ _ (fun x => ?_)
  repeat' split
  all_goals first
    | exact Keeps.refl _
    | exact Keeps.of_tables rfl rfl

/-- Every operation but `new` keeps the set of contexts and the tables of each of them. -/
theorem step_WKeeps (w : World) (op : Op) (hnew : ∀ t c p, op ≠ .new t c p) :
    WKeeps w (step w op).1 := by
  cases op with
  | new t c p => exact absurd rfl (hnew t c p)
  | enter t c => exact step_enter_WKeeps w t c
  | exit t c be => exact step_exit_WKeeps w t c be
  | exitMid t c be k => exact step_exitMid_WKeeps w t c be k
  | add c a => exact WKeeps.onCtx _ _ _ (fun x => (ctxAdd_ext c x a).keeps)
  | addFactory c a => exact WKeeps.onCtx _ _ _ (fun x => (ctxAddFactory_ext c x a).keeps)
  | getNowait c k opt => exact WKeeps.onCtx _ _ _ (fun x => (ctxGetNowait_ext c x k opt).keeps)
  | get t c k opt => exact WKeeps.onCtx _ _ _ (fun x => (ctxGet_ext c x t k opt).keeps)
  | genFinish c fid next =>
    exact WKeeps.onCtx _ _ _ (fun x => (ctxGenFinish_ext c x fid next).keeps)
  | cancelGet c lid next =>
    exact WKeeps.onCtx _ _ _ (fun x => (ctxCancelGet_ext c x lid next).keeps)
  | getAll c ty => simp only [step]; split <;> exact WKeeps.refl _
  | addTeardown c cb callable => exact step_addTeardown_WKeeps w c cb callable
  | current t => simp only [step]; split <;> exact WKeeps.refl _
  | parentOf c => simp only [step]; split <;> exact WKeeps.refl _
  | spawn t t' => exact WKeeps.setCur _ _ _
  | stateOf c => simp only [step]; split <;> exact WKeeps.refl _
  | inject t isAsync deps badUnion => exact step_inject_WKeeps w t isAsync deps badUnion
  | decorate ps => simp only [step]; repeat' split <;> exact WKeeps.refl _

/-- An existing context survives every operation, with its tables. -/
theorem step_some (w : World) (op : Op) (c : CtxId) (x : Ctx) (hx : w.ctx? c = some x) :
    ∃ x', (step w op).1.ctx? c = some x' ∧ Keeps x x' := by
  by_cases hnew : ∀ t c p, op ≠ .new t c p
  · exact ((step_WKeeps w op hnew) c).1 x hx
  · have : ∃ t c' p, op = .new t c' p := by
      apply Classical.byContradiction
      intro hn
      exact hnew (fun t c p e => hn ⟨t, c, p, e⟩)
    obtain ⟨t, c', p, rfl⟩ := this
    simp only [step]
    split
    · exact ⟨x, hx, Keeps.refl x⟩
    · next hn =>
      have hne : c' ≠ c := by
        intro e; subst e; rw [hx] at hn; cases hn
      exact ⟨x, by dsimp only; rw [World.ctx?_setCtx_other _ _ _ _ hne]; exact hx, Keeps.refl x⟩

/-- A context that appears was just created from its parent (or from nothing). -/
theorem step_none (w : World) (op : Op) (c : CtxId) (x' : Ctx) (hx : w.ctx? c = none)
    (h : (step w op).1.ctx? c = some x') : ∃ p, x' = freshCtx p (p.bind w.ctx?) := by
  by_cases hnew : ∀ t c p, op ≠ .new t c p
  · have := ((step_WKeeps w op hnew) c).2 hx
    rw [this] at h; cases h
  · have : ∃ t c' p, op = .new t c' p := by
      apply Classical.byContradiction
      intro hn
      exact hnew (fun t c p e => hn ⟨t, c, p, e⟩)
    obtain ⟨t, c', p, rfl⟩ := this
    simp only [step] at h
    split at h
    · rw [hx] at h; cases h
    · dsimp only at h
      by_cases hc : c' = c
      · subst hc
        rw [World.ctx?_setCtx_same] at h
        cases h
        exact ⟨_, rfl⟩
      · rw [World.ctx?_setCtx_other _ _ _ _ hc, hx] at h
        cases h

/-- All tables of all contexts are functional. -/
def WorldFunctional (w : World) : Prop :=
  ∀ c x, w.ctx? c = some x → NoDupKeys x.res ∧ NoDupKeys x.fac

theorem freshCtx_functional (w : World) (hw : WorldFunctional w) (p : Option CtxId) :
    NoDupKeys (freshCtx p (p.bind w.ctx?)).res ∧ NoDupKeys (freshCtx p (p.bind w.ctx?)).fac := by
  cases p with
  | none => exact ⟨NoDupKeys_nil, NoDupKeys_nil⟩
  | some p =>
    simp only [Option.bind_some]
    cases hp : w.ctx? p with
    | none => exact ⟨NoDupKeys_nil, NoDupKeys_nil⟩
    | some px =>
      have := hw p px hp
      exact ⟨NoDupKeys_filter _ _ this.1, this.2⟩

theorem step_functional (w : World) (op : Op) (hw : WorldFunctional w) :
    WorldFunctional (step w op).1 := by
  intro c x' h
  cases hx : w.ctx? c with
  | none =>
    obtain ⟨p, rfl⟩ := step_none w op c x' hx h
    exact freshCtx_functional w hw p
  | some x =>
    obtain ⟨y, hy, hk⟩ := step_some w op c x hx
    rw [hy] at h; cases h
    have := hw c x hx
    exact ⟨hk.ndr this.1, hk.ndf this.2⟩

theorem reachable_functional (w : World) (hr : Reachable w) : WorldFunctional w := by
  induction hr with
  | init => intro c x h; simp [World.ctx?, World.empty] at h
  | step w op _ ih => exact step_functional w op ih

end Asphalt
