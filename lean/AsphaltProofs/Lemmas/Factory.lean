/- Helper lemmas about the task-factory LTS (AsphaltModel/Factory.lean). -/
import AsphaltModel.Factory
import AsphaltProofs.Lemmas.Assoc

namespace Asphalt
namespace Fc

set_option linter.unusedSimpArgs false

theorem statusOf_setStatus (s : FSt) (h x : Nat) (st : BgStatus) :
    (s.setStatus h st).statusOf x = if h = x then some st else s.statusOf x := by
  unfold FSt.setStatus FSt.statusOf
  by_cases hx : h = x
  · subst hx; simp only [if_true]; exact alookup_ainsert_same _ _ _
  · simp only [hx, if_false]; exact alookup_ainsert_other _ _ _ _ hx

theorem ite_some_none {α : Type} {c : Prop} [Decidable c] {x y : α}
    (h : (if c then some x else none) = some y) : c ∧ x = y := by
  by_cases hc : c
  · simp only [hc, if_true] at h; exact ⟨hc, Option.some.inj h⟩
  · simp only [hc, if_false] at h; exact absurd h (by simp)

theorem ite_none_right {α : Type} {c : Prop} [Decidable c] {a : Option α} {y : α}
    (h : (if c then a else none) = some y) : c ∧ a = some y := by
  by_cases hc : c
  · simp only [hc, if_true] at h; exact ⟨hc, h⟩
  · simp only [hc, if_false] at h; exact absurd h (by simp)

/-- What a step does to the handle book-keeping. -/
inductive Eff (s : FSt) (l : FLab) : FSt → Prop
  | spawn (h : Nat) : l = .spawn h → h ∉ s.spawned →
      Eff s l { (s.setStatus h .running) with
        spawned := s.spawned ++ [h], live := s.live ++ [h], hist := s.hist ++ [l] }
  | set (h : Nat) (st st' : BgStatus) : s.statusOf h = some st → st ≠ .ended → st' ≠ .ended →
      (st' = .cancelAsked → l = .cancelReq h) → (∀ x e, l ≠ .handlerCalled x e) →
      Eff s l { s.setStatus h st' with hist := s.hist ++ [l] }
  | finish (h : Nat) (cr hc : List Nat) : s.statusOf h ≠ none →
      ((hc = s.handlerCalls ∧ ∀ x e, l ≠ .handlerCalled x e) ∨
        (∃ e, l = .handlerCalled h e ∧ h ∉ s.handlerCalls ∧ hc = h :: s.handlerCalls)) →
      Eff s l { s.finish h with crashed := cr, handlerCalls := hc, hist := s.hist ++ [l] }
  | same (b1 b2 b3 : Bool) : (∀ x e, l ≠ .handlerCalled x e) →
      Eff s l { s with exiting := b1, left := b2, reported := b3, hist := s.hist ++ [l] }

theorem fstep_eff (s s' : FSt) (l : FLab) (h : fstep? s l = some s') : Eff s l s' := by
  cases l with
  | spawn x =>
    unfold fstep? at h
    simp only [] at h
    split at h
    · exact absurd h (by simp)
    obtain ⟨hc, h⟩ := ite_some_none h
    subst h
    simp only [Bool.and_eq_true, Bool.not_eq_true', List.contains_eq_mem,
      decide_eq_false_iff_not] at hc
    exact Eff.spawn x rfl hc.1.2
  | taskBegan x ok saw =>
    unfold fstep? at h
    simp only [] at h
    split at h
    · exact absurd h (by simp)
    split at h
    · obtain ⟨hc, h⟩ := ite_some_none h
      subst h
      exact Eff.same s.exiting s.left s.reported (by intros; simp)
    · exact absurd h (by simp)
  | cancelReq x =>
    unfold fstep? at h
    simp only [] at h
    split at h
    · exact absurd h (by simp)
    split at h
    · rename_i hst
      injection h with h
      subst h
      exact Eff.set x _ _ hst (by simp) (by simp) (fun _ => rfl) (by intros; simp)
    · injection h with h
      subst h
      exact Eff.same s.exiting s.left s.reported (by intros; simp)
    · exact absurd h (by simp)
  | cancelSeen x =>
    unfold fstep? at h
    simp only [] at h
    split at h
    · exact absurd h (by simp)
    split at h
    · rename_i hst
      injection h with h
      subst h
      exact Eff.set x _ _ hst (by simp) (by simp) (by simp) (by intros; simp)
    · obtain ⟨hc, h⟩ := ite_some_none h
      subst h
      exact Eff.same s.exiting s.left s.reported (by intros; simp)
  | taskEnded x exc =>
    unfold fstep? at h
    simp only [] at h
    split at h
    · exact absurd h (by simp)
    cases hsp : s.spec? x with
    | none => simp [hsp] at h
    | some sp =>
      cases hst : s.statusOf x with
      | none => simp [hsp, hst] at h
      | some st =>
        simp only [hsp, hst] at h
        have hdom : s.statusOf x ≠ none := by rw [hst]; simp
        have hfin : Eff s (.taskEnded x exc) { s.finish x with hist := s.hist ++ [.taskEnded x exc] } :=
          Eff.finish (s := s) (l := .taskEnded x exc) x (s.finish x).crashed s.handlerCalls hdom
            (Or.inl ⟨rfl, by intros; simp⟩)
        have hfinE : ∀ e, Eff s (.taskEnded x exc)
            { s.finish x with crashed := s.crashed ++ [e], hist := s.hist ++ [.taskEnded x exc] } :=
          fun e => Eff.finish (s := s) (l := .taskEnded x exc) x (s.crashed ++ [e]) s.handlerCalls hdom
            (Or.inl ⟨rfl, by intros; simp⟩)
        have hok0 : ∀ st0 : BgStatus,
            (st0 == .cancelled || (!s.crashed.isEmpty && (st0 == .running || st0 == .cancelAsked))) = true →
            st0 ≠ .ended := by
          intro st0 hc
          simp only [Bool.or_eq_true, Bool.and_eq_true, beq_iff_eq] at hc
          rcases hc with h1 | ⟨_, h1 | h1⟩ <;> (rw [h1]; simp)
        split at h
        · injection h with h; subst h; exact hfin
        · injection h with h; subst h; exact hfin
        · obtain ⟨hc, h⟩ := ite_none_right h
          split at h
          · injection h with h; subst h; exact hfinE _
          · injection h with h; subst h
            exact Eff.set x _ _ hst (by simp) (by simp) (by simp) (by intros; simp)
        · obtain ⟨hc, h⟩ := ite_none_right h
          split at h
          · injection h with h; subst h; exact hfinE _
          · injection h with h; subst h
            exact Eff.set x _ _ hst (by simp) (by simp) (by simp) (by intros; simp)
        · obtain ⟨hc, h⟩ := ite_none_right h
          split at h
          · injection h with h; subst h; exact hfin
          · injection h with h; subst h
            exact Eff.set x _ _ hst (by simp) (by simp) (by simp) (by intros; simp)
        · obtain ⟨hc, h⟩ := ite_none_right h
          have hok := hok0 _ (Bool.and_eq_true _ _ ▸ hc).2
          split at h
          · injection h with h; subst h; exact hfinE _
          · injection h with h; subst h
            exact Eff.set x _ _ hst hok (by simp) (by simp) (by intros; simp)
        · obtain ⟨hc, h⟩ := ite_some_none h
          subst h; exact hfin
        · injection h with h; subst h; exact hfin
        · obtain ⟨hc, h⟩ := ite_some_none h
          subst h; exact hfin
  | handlerCalled x e =>
    unfold fstep? at h
    simp only [] at h
    split at h
    · exact absurd h (by simp)
    split at h
    · rename_i e' truthy hst hh
      obtain ⟨hc, h⟩ := ite_some_none h
      simp only [Bool.and_eq_true, Bool.not_eq_true', List.contains_eq_mem,
        decide_eq_false_iff_not] at hc
      subst h
      have hdom : s.statusOf x ≠ none := by rw [hst]; simp
      cases hb : (truthy || s.startFailure x) with
      | true => exact Eff.finish x _ _ hdom (Or.inr ⟨e, rfl, hc.2, rfl⟩)
      | false => exact Eff.finish x _ _ hdom (Or.inr ⟨e, rfl, hc.2, rfl⟩)
    · exact absurd h (by simp)
  | observed hs =>
    unfold fstep? at h
    simp only [] at h
    split at h
    · exact absurd h (by simp)
    obtain ⟨hc, h⟩ := ite_some_none h
    subst h
    exact Eff.same s.exiting s.left s.reported (by intros; simp)
  | waitReturned x =>
    unfold fstep? at h
    simp only [] at h
    split at h
    · exact absurd h (by simp)
    split at h
    · injection h with h
      subst h
      exact Eff.same s.exiting s.left s.reported (by intros; simp)
    · exact absurd h (by simp)
  | startFailed x =>
    unfold fstep? at h
    simp only [] at h
    split at h
    · exact absurd h (by simp)
    split at h
    · obtain ⟨hc, h⟩ := ite_some_none h
      subst h
      exact Eff.same s.exiting s.left s.reported (by intros; simp)
    · exact absurd h (by simp)
  | exitBegin =>
    unfold fstep? at h
    simp only [] at h
    split at h
    · exact absurd h (by simp)
    obtain ⟨hc, h⟩ := ite_some_none h
    subst h
    exact Eff.same true s.left s.reported (by intros; simp)
  | blockLeft =>
    unfold fstep? at h
    simp only [] at h
    split at h
    · exact absurd h (by simp)
    obtain ⟨hc, h⟩ := ite_some_none h
    subst h
    exact Eff.same s.exiting true s.reported (by intros; simp)
  | outcome leaves =>
    unfold fstep? at h
    simp only [] at h
    split at h
    · exact absurd h (by simp)
    obtain ⟨hc, h⟩ := ite_some_none h
    subst h
    exact Eff.same s.exiting s.left true (by intros; simp)

/-- Is the label a call of the exception handler for task `x`? -/
def isHC (x : Nat) : FLab → Bool
  | .handlerCalled y _ => y == x
  | _ => false

structure Inv (s : FSt) : Prop where
  handles : ∀ x, x ∈ s.live ↔ (x ∈ s.spawned ∧ s.statusOf x ≠ some .ended)
  asked : ∀ x, s.statusOf x = some .cancelAsked → FLab.cancelReq x ∈ s.hist
  once : ∀ x, (s.hist.filter (isHC x)).length ≤ 1 ∧
    (x ∉ s.handlerCalls → (s.hist.filter (isHC x)).length = 0)
  dom : ∀ x, s.statusOf x ≠ none → x ∈ s.spawned

theorem isHC_of_not (l : FLab) (hl : ∀ x e, l ≠ .handlerCalled x e) (x : Nat) : isHC x l = false := by
  cases l <;> first | rfl | exact absurd rfl (hl _ _)

theorem filter_snoc_false (hist : List FLab) (l : FLab) (x : Nat) (h : isHC x l = false) :
    (hist ++ [l]).filter (isHC x) = hist.filter (isHC x) := by
  rw [List.filter_append, List.filter_cons_of_neg (by simp [h])]; simp

theorem init_inv (specs : List BgSpec) (hd : Handler) (snap : List Nat) :
    Inv (FSt.init specs hd snap) := by
  refine ⟨?_, ?_, ?_, ?_⟩
  · intro x; simp [FSt.init]
  · intro x hx; simp [FSt.init, FSt.statusOf] at hx
  · intro x; simp [FSt.init]
  · intro x hx; exact absurd rfl hx

theorem Inv.step (s s' : FSt) (l : FLab) (hi : Inv s) (he : Eff s l s') : Inv s' := by
  obtain ⟨h1, h2, h3, h4⟩ := hi
  cases he with
  | spawn h hl hns =>
    subst hl
    refine ⟨?_, ?_, ?_, ?_⟩
    · intro x
      show x ∈ s.live ++ [h] ↔ (x ∈ s.spawned ++ [h] ∧ (s.setStatus h .running).statusOf x ≠ _)
      rw [statusOf_setStatus]
      by_cases hx : h = x
      · subst hx; simp
      · have hx' : ¬ x = h := fun e => hx e.symm
        simp only [List.mem_append, List.mem_singleton, hx, hx', or_false, if_false]
        exact h1 x
    · intro x hx
      have hx' : (s.setStatus h .running).statusOf x = some .cancelAsked := hx
      rw [statusOf_setStatus] at hx'
      by_cases hxe : h = x
      · simp [hxe] at hx'
      · simp only [hxe, if_false] at hx'
        exact List.mem_append_left _ (h2 x hx')
    · intro x
      show ((s.hist ++ [FLab.spawn h]).filter (isHC x)).length ≤ 1 ∧
        (x ∉ s.handlerCalls → ((s.hist ++ [FLab.spawn h]).filter (isHC x)).length = 0)
      rw [filter_snoc_false _ _ _ rfl]; exact h3 x
    · intro x hx
      have hx' : (s.setStatus h .running).statusOf x ≠ none := hx
      rw [statusOf_setStatus] at hx'
      show x ∈ s.spawned ++ [h]
      by_cases hxe : h = x
      · simp [hxe]
      · simp only [hxe, if_false] at hx'
        exact List.mem_append_left _ (h4 x hx')
  | set h st st' hst hne hne' hask hl =>
    refine ⟨?_, ?_, ?_, ?_⟩
    · intro x
      show x ∈ s.live ↔ (x ∈ s.spawned ∧ (s.setStatus h st').statusOf x ≠ _)
      rw [statusOf_setStatus, h1 x]
      by_cases hx : h = x
      · subst hx
        simp only [if_true, hst]
        constructor
        · intro hh; exact ⟨hh.1, fun e => hne' (Option.some.inj e)⟩
        · intro hh; exact ⟨hh.1, fun e => hne (Option.some.inj e)⟩
      · simp only [hx, if_false]
    · intro x hx
      have hx' : (s.setStatus h st').statusOf x = some .cancelAsked := hx
      rw [statusOf_setStatus] at hx'
      show _ ∈ s.hist ++ [l]
      by_cases hxe : h = x
      · subst hxe
        simp only [if_true] at hx'
        rw [hask (Option.some.inj hx')]; simp
      · simp only [hxe, if_false] at hx'
        exact List.mem_append_left _ (h2 x hx')
    · intro x
      show ((s.hist ++ [l]).filter (isHC x)).length ≤ 1 ∧
        (x ∉ s.handlerCalls → ((s.hist ++ [l]).filter (isHC x)).length = 0)
      rw [filter_snoc_false _ _ _ (isHC_of_not l hl x)]; exact h3 x
    · intro x hx
      have hx' : (s.setStatus h st').statusOf x ≠ none := hx
      rw [statusOf_setStatus] at hx'
      show x ∈ s.spawned
      by_cases hxe : h = x
      · subst hxe; exact h4 h (by rw [hst]; simp)
      · simp only [hxe, if_false] at hx'
        exact h4 x hx'
  | finish h cr hc hdom hcase =>
    refine ⟨?_, ?_, ?_, ?_⟩
    · intro x
      show x ∈ s.live.filter (· != h) ↔ (x ∈ s.spawned ∧ (s.setStatus h .ended).statusOf x ≠ _)
      rw [statusOf_setStatus, List.mem_filter, h1 x]
      by_cases hx : h = x
      · subst hx; simp
      · have hx' : ¬ x = h := fun e => hx e.symm
        simp [hx, hx']
    · intro x hx
      have hx' : (s.setStatus h .ended).statusOf x = some .cancelAsked := hx
      rw [statusOf_setStatus] at hx'
      show _ ∈ s.hist ++ [l]
      by_cases hxe : h = x
      · simp [hxe] at hx'
      · simp only [hxe, if_false] at hx'
        exact List.mem_append_left _ (h2 x hx')
    · intro x
      show ((s.hist ++ [l]).filter (isHC x)).length ≤ 1 ∧
        (x ∉ hc → ((s.hist ++ [l]).filter (isHC x)).length = 0)
      rcases hcase with ⟨hce, hl⟩ | ⟨e, hl, hnc, hce⟩
      · rw [filter_snoc_false _ _ _ (isHC_of_not l hl x), hce]; exact h3 x
      · subst hl
        subst hce
        by_cases hx : x = h
        · subst hx
          have h0 := (h3 x).2 hnc
          rw [List.filter_append, List.length_append, h0]
          simp [isHC]
        · have hf : isHC x (FLab.handlerCalled h e) = false := by
            simp only [isHC, beq_eq_false_iff_ne]; exact fun e => hx e.symm
          rw [filter_snoc_false _ _ _ hf]
          refine ⟨(h3 x).1, fun hn => (h3 x).2 (fun hm => hn (List.mem_cons_of_mem _ hm))⟩
    · intro x hx
      have hx' : (s.setStatus h .ended).statusOf x ≠ none := hx
      rw [statusOf_setStatus] at hx'
      show x ∈ s.spawned
      by_cases hxe : h = x
      · subst hxe; exact h4 h hdom
      · simp only [hxe, if_false] at hx'
        exact h4 x hx'
  | same b1 b2 b3 hl =>
    refine ⟨h1, ?_, ?_, h4⟩
    · intro x hx
      exact List.mem_append_left _ (h2 x hx)
    · intro x
      show ((s.hist ++ [l]).filter (isHC x)).length ≤ 1 ∧
        (x ∉ s.handlerCalls → ((s.hist ++ [l]).filter (isHC x)).length = 0)
      rw [filter_snoc_false _ _ _ (isHC_of_not l hl x)]; exact h3 x

theorem exec_inv (s0 s : FSt) (ls : List FLab) (h : FExec s0 ls s) (h0 : Inv s0) : Inv s := by
  induction h with
  | nil s => exact h0
  | cons s s' s'' l ls hstep _ ih => exact ih (Inv.step s s' l h0 (fstep_eff s s' l hstep))

theorem reach_inv (specs : List BgSpec) (hd : Handler) (snap : List Nat) (ls : List FLab) (s : FSt)
    (h : FExec (FSt.init specs hd snap) ls s) : Inv s :=
  exec_inv _ _ _ h (init_inv specs hd snap)

/-! ### Inversion lemmas, one per label kind -/

theorem fstep_observed (s s' : FSt) (hs : List Nat) (h : fstep? s (.observed hs) = some s') :
    hs = sortNat s.live ∧ s' = { s with hist := s.hist ++ [.observed hs] } := by
  unfold fstep? at h
  simp only [] at h
  split at h
  · exact absurd h (by simp)
  obtain ⟨hc, h⟩ := ite_some_none h
  exact ⟨by simpa using hc, h.symm⟩

theorem fstep_taskBegan (s s' : FSt) (x : Nat) (ok : Bool) (saw : List Nat)
    (h : fstep? s (.taskBegan x ok saw) = some s') : ok = true ∧ saw = s.snap := by
  unfold fstep? at h
  simp only [] at h
  split at h
  · exact absurd h (by simp)
  split at h
  · obtain ⟨hc, _⟩ := ite_some_none h
    simpa using hc
  · exact absurd h (by simp)

theorem fstep_cancelReq (s s' : FSt) (x : Nat) (h : fstep? s (.cancelReq x) = some s') :
    s' = { s.setStatus x .cancelAsked with hist := s.hist ++ [.cancelReq x] } ∨
      s' = { s with hist := s.hist ++ [.cancelReq x] } := by
  unfold fstep? at h
  simp only [] at h
  split at h
  · exact absurd h (by simp)
  split at h
  · injection h with h; exact Or.inl h.symm
  · injection h with h; exact Or.inr h.symm
  · exact absurd h (by simp)

theorem fstep_cancelSeen (s s' : FSt) (x : Nat) (h : fstep? s (.cancelSeen x) = some s') :
    s.statusOf x = some .cancelAsked ∨ s.crashed ≠ [] := by
  unfold fstep? at h
  simp only [] at h
  split at h
  · exact absurd h (by simp)
  split at h
  · rename_i hst; exact Or.inl hst
  · obtain ⟨hc, _⟩ := ite_some_none h
    refine Or.inr ?_
    intro h0
    rw [h0] at hc
    simp at hc

theorem fstep_waitReturned (s s' : FSt) (x : Nat) (h : fstep? s (.waitReturned x) = some s') :
    s.statusOf x = some .ended := by
  unfold fstep? at h
  simp only [] at h
  split at h
  · exact absurd h (by simp)
  split at h
  · rename_i hst; exact hst
  · exact absurd h (by simp)

theorem fstep_blockLeft (s s' : FSt) (h : fstep? s .blockLeft = some s') :
    (s.exiting = true ∧ s.live = []) ∨ s.crashed ≠ [] := by
  unfold fstep? at h
  simp only [] at h
  split at h
  · exact absurd h (by simp)
  obtain ⟨hc, _⟩ := ite_some_none h
  simp only [Bool.and_eq_true, Bool.or_eq_true, Bool.not_eq_true', List.isEmpty_iff,
    List.isEmpty_eq_false_iff] at hc
  exact hc.2

/-- `startFailure`, unfolded. -/
theorem startFailure_of_spec (s : FSt) (x e : Nat) (sp : BgSpec) (hsp : s.spec? x = some sp)
    (hb : sp.beh = .failsBeforeStarted e) : s.startFailure x = true := by
  unfold FSt.startFailure
  rw [hsp]
  cases sp with
  | mk h0 b => simp only at hb; subst hb; rfl

theorem spec_of_startFailure (s : FSt) (x : Nat) (h : s.startFailure x = true) :
    ∃ sp e, s.spec? x = some sp ∧ sp.beh = .failsBeforeStarted e := by
  unfold FSt.startFailure at h
  split at h
  · rename_i h0 e heq; exact ⟨_, e, heq, rfl⟩
  · exact absurd h (by simp)

/-- Inversion of a call of the handler: the task is finished; its exception is swallowed if the handler
returns a truthy value or the task had not started yet, and propagates otherwise. -/
theorem fstep_handlerCalled (s s' : FSt) (x e : Nat) (h : fstep? s (.handlerCalled x e) = some s') :
    ∃ truthy, s.handler = .returns truthy ∧ s.statusOf x = some (.raisedPending e) ∧
      s'.statusOf x = some .ended ∧
      ((truthy || s.startFailure x) = true → s'.crashed = s.crashed) ∧
      ((truthy || s.startFailure x) = false → s'.crashed = s.crashed ++ [e]) := by
  unfold fstep? at h
  simp only [] at h
  split at h
  · exact absurd h (by simp)
  split at h
  · rename_i e' truthy hst hh
    obtain ⟨hc, h2⟩ := ite_some_none h
    clear h
    simp only [Bool.and_eq_true, beq_iff_eq] at hc
    have he : e = e' := hc.1
    subst he
    subst h2
    have hend : ∀ t : FSt, t.status = (s.finish x).status → t.statusOf x = some .ended := by
      intro t ht
      show alookup x t.status = _
      rw [ht]
      show (s.setStatus x .ended).statusOf x = _
      rw [statusOf_setStatus]; simp
    refine ⟨truthy, hh, hst, ?_, ?_, ?_⟩
    · cases hb : (truthy || s.startFailure x) <;> exact hend _ (by simp only [hb]; rfl)
    · intro ht; simp only [ht]; rfl
    · intro ht; simp only [ht]; rfl
  · exact absurd h (by simp)

/-- Inversion of a task ending with an exception: whatever the task's status and behaviour — unless it
is a task that fails, still running, before it has started (`fstep_taskEnded_startFailure`) — the
exception propagates at once (no handler) or is left pending for the handler. -/
theorem fstep_taskEnded_some (s s' : FSt) (x e : Nat)
    (hns : s.startFailure x = false ∨ s.statusOf x ≠ some .running)
    (h : fstep? s (.taskEnded x (some e)) = some s') :
    (s.handler = .absent ∧ s'.crashed = s.crashed ++ [e]) ∨
      (∃ t, s.handler = .returns t ∧ s'.statusOf x = some (.raisedPending e)) := by
  have fin : ∀ e0 : Nat, (e0 == e) = true → ∀ t : FSt, t.crashed = s.crashed ++ [e0] →
      t.crashed = s.crashed ++ [e] := by
    intro e0 he0 t ht
    have : e0 = e := by simpa using he0
    subst this; exact ht
  have pend : ∀ e0 : Nat, (e0 == e) = true → ∀ hist : List FLab,
      FSt.statusOf { (s.setStatus x (.raisedPending e0)) with hist := hist } x =
        some (.raisedPending e) := by
    intro e0 he0 hist
    have : e0 = e := by simpa using he0
    subst this
    show (s.setStatus x (.raisedPending e0)).statusOf x = _
    rw [statusOf_setStatus]; simp
  unfold fstep? at h
  simp only [] at h
  split at h
  · exact absurd h (by simp)
  cases hsp : s.spec? x with
  | none => simp [hsp] at h
  | some sp =>
    cases hst : s.statusOf x with
    | none => simp [hsp, hst] at h
    | some st =>
      simp only [hsp, hst] at h
      split at h
      · exact absurd ‹some e = none› (by simp)
      · exact absurd ‹some e = none› (by simp)
      · rename_i e0 e1 hb heq
        obtain ⟨hc, h3⟩ := ite_none_right h
        have h2 : e = e1 := by simpa using heq
        subst h2
        split at h3
        · rename_i hh; injection h3 with h3; subst h3; exact Or.inl ⟨hh, fin e0 hc _ rfl⟩
        · rename_i t hh; injection h3 with h3; subst h3; exact Or.inr ⟨t, hh, pend e0 hc _⟩
      · rename_i e0 e1 hb heq
        obtain ⟨hc, h3⟩ := ite_none_right h
        have h2 : e = e1 := by simpa using heq
        subst h2
        split at h3
        · rename_i hh; injection h3 with h3; subst h3; exact Or.inl ⟨hh, fin e0 hc _ rfl⟩
        · rename_i t hh; injection h3 with h3; subst h3; exact Or.inr ⟨t, hh, pend e0 hc _⟩
      · rename_i e0 e1 hb heq
        have hsf := startFailure_of_spec s x e0 sp hsp hb
        rcases hns with hns | hns
        · rw [hsf] at hns; exact absurd hns (by simp)
        · exact absurd hst hns
      · rename_i e0 e1 hb heq
        obtain ⟨hc, h3⟩ := ite_none_right h
        have hc := (Bool.and_eq_true _ _ ▸ hc).1
        have h2 : e = e1 := by simpa using heq
        subst h2
        split at h3
        · rename_i hh; injection h3 with h3; subst h3; exact Or.inl ⟨hh, fin e0 hc _ rfl⟩
        · rename_i t hh; injection h3 with h3; subst h3; exact Or.inr ⟨t, hh, pend e0 hc _⟩
      · exact absurd ‹some e = none› (by simp)
      · exact absurd ‹some e = none› (by simp)
      · obtain ⟨hc, _⟩ := ite_some_none h
        simp at hc

theorem fstep_taskEnded_absent (s s' : FSt) (x e : Nat) (hh : s.handler = .absent)
    (hsf : s.startFailure x = false)
    (h : fstep? s (.taskEnded x (some e)) = some s') : s'.crashed = s.crashed ++ [e] := by
  rcases fstep_taskEnded_some s s' x e (Or.inl hsf) h with ⟨_, hc⟩ | ⟨t, ht, _⟩
  · exact hc
  · rw [hh] at ht; exact absurd ht (by simp)

/-- Inversion of the end of a task that fails before it has started: nothing escapes into the task
group, and (unless the application has been taken down, or the task was cancelled through its handle
before it ran) it ends while running, with its exception. -/
theorem fstep_taskEnded_startFailure (s s' : FSt) (x e : Nat) (exc : Option Nat) (sp : BgSpec)
    (hsp : s.spec? x = some sp) (hb : sp.beh = .failsBeforeStarted e)
    (h : fstep? s (.taskEnded x exc) = some s') :
    s'.crashed = s.crashed ∧
      ((s.statusOf x = some .running ∧ exc = some e) ∨
        (exc = none ∧ (s.statusOf x = some .cancelled ∨ s.crashed ≠ []))) := by
  unfold fstep? at h
  simp only [] at h
  split at h
  · exact absurd h (by simp)
  cases hst : s.statusOf x with
  | none => simp [hsp, hst] at h
  | some st =>
    simp only [hsp, hst, hb] at h
    split at h
    · rename_i heq; exact absurd heq (by simp)
    · rename_i heq; exact absurd heq (by simp)
    · rename_i heq; exact absurd heq (by simp)
    · rename_i heq; exact absurd heq (by simp)
    · rename_i e0 e1 heq
      injection heq with heq
      subst heq
      obtain ⟨hc, h3⟩ := ite_none_right h
      have h2 : e = e1 := by simpa using hc
      subst h2
      refine ⟨?_, Or.inl ⟨rfl, rfl⟩⟩
      split at h3
      · injection h3 with h3; subst h3; rfl
      · injection h3 with h3; subst h3; rfl
    · rename_i heq; exact absurd heq (by simp)
    · rename_i heq; exact absurd heq (by simp)
    · injection h with h; subst h
      exact ⟨rfl, Or.inr ⟨rfl, Or.inl rfl⟩⟩
    · obtain ⟨hc, h3⟩ := ite_some_none h
      subst h3
      simp only [Bool.and_eq_true, Bool.not_eq_true', List.isEmpty_eq_false_iff,
        Option.isNone_iff_eq_none] at hc
      exact ⟨rfl, Or.inr ⟨hc.2, Or.inr hc.1⟩⟩

theorem fstep_startFailed (s s' : FSt) (x : Nat) (h : fstep? s (.startFailed x) = some s') :
    s.startFailure x = true ∧ s.statusOf x = some .ended := by
  unfold fstep? at h
  simp only [] at h
  split at h
  · exact absurd h (by simp)
  split at h
  · rename_i hst
    obtain ⟨hc, _⟩ := ite_some_none h
    exact ⟨hc, hst⟩
  · exact absurd h (by simp)

theorem fstep_outcome (s s' : FSt) (leaves : List Nat) (h : fstep? s (.outcome leaves) = some s') :
    sortNat leaves = sortNat s.crashed ∧ s.left = true := by
  unfold fstep? at h
  simp only [] at h
  split at h
  · exact absurd h (by simp)
  obtain ⟨hc, _⟩ := ite_some_none h
  simp only [Bool.and_eq_true, beq_iff_eq] at hc
  exact ⟨hc.2, hc.1⟩

/-- An accepted trace is an execution. -/
theorem faccept_exec (ls : List FLab) : ∀ (s s' : FSt) (n : Nat), faccept s ls n = .ok s' → FExec s ls s' := by
  induction ls with
  | nil =>
    intro s s' n h
    simp only [faccept] at h
    injection h with h; subst h; exact FExec.nil s
  | cons l ls ih =>
    intro s s' n h
    simp only [faccept] at h
    split at h
    · rename_i s1 hs1; exact FExec.cons s s1 s' l ls hs1 (ih s1 s' (n + 1) h)
    · exact absurd h (by simp)

end Fc
end Asphalt
