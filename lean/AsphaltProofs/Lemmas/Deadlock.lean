/-
Lemmas for the no-deadlock theorem of the start-up LTS (C05, continued).

* a *remaining-work* measure `rem` of one phase of one node (`actsB`, `phaseB` are copies of the
  budgets of the Props file), the phase-local moves `PMove`, validity `ValidRun` of a phase
  with respect to its script, injectivity of `rem` on valid phases;
* coordinates: `runAt`, `setRun`;
* `QMove`: what one outcome-free step does (one coordinate moves by exactly one);
* `Good`: the invariant of outcome-free reachable states (validity, tables versus performed
  publications);
* `Adv a s` ("`s` is at least as advanced as `a`"), monotonicity of guards, and the enabledness
  transfer `transfer`;
* the first-difference argument `no_deadlock_core`, and the potential `pot` for the bound.
-/
import AsphaltModel.Startup
import AsphaltProofs.Lemmas.Assoc
import AsphaltProofs.Lemmas.Startup

namespace Asphalt
namespace Dl
open St

set_option linter.unusedSimpArgs false
set_option linter.unusedVariables false

/-! ### budgets and the remaining-work measure of one phase -/

def actsB : List Act → Nat
  | [] => 0
  | .await _ _ :: rest => 2 + actsB rest
  | _ :: rest => 1 + actsB rest

def phaseB : Option (List Act) → Nat
  | none => 0
  | some acts => 2 + actsB acts

def isAwait : Act → Bool
  | .await _ _ => true
  | _ => false

theorem actsB_cons (a : Act) (rest : List Act) :
    actsB (a :: rest) = (if isAwait a then 2 else 1) + actsB rest := by
  cases a <;> simp [actsB, isAwait]

theorem actsB_append (x y : List Act) : actsB (x ++ y) = actsB x + actsB y := by
  induction x with
  | nil => simp [actsB]
  | cons a x ih => simp only [List.cons_append, actsB_cons, ih]; omega

/-- Labels still to be produced by a phase. -/
def rem (sc : Option (List Act)) : Run → Nat
  | .notBegun => phaseB sc
  | .running rest b => actsB rest + (if b.isSome then 0 else 1)
  | .done => 0
  | .cancelled => 0

/-- A phase is consistent with its script. -/
def ValidRun (sc : Option (List Act)) : Run → Prop
  | .notBegun => True
  | .running rest b => ∃ acts pre, sc = some acts ∧ acts = pre ++ rest ∧
      ∀ k, b = some k → ∃ rest', rest = .await k.ty k.name :: rest'
  | .done => ∃ acts, sc = some acts
  | .cancelled => False

/-- The moves of one phase in an outcome-free step. -/
inductive PMove (sc : Option (List Act)) : Run → Run → Prop
  | begin (acts : List Act) : sc = some acts → PMove sc .notBegun (.running acts none)
  | act (a : Act) (rest : List Act) : isAwait a = false →
      PMove sc (.running (a :: rest) none) (.running rest none)
  | req (ty : TypeId) (name : String) (rest : List Act) :
      PMove sc (.running (.await ty name :: rest) none)
        (.running (.await ty name :: rest) (some ⟨ty, name⟩))
  | got (ty : TypeId) (name : String) (rest : List Act) (k : Key) :
      PMove sc (.running (.await ty name :: rest) (some k)) (.running rest none)
  | finish : PMove sc (.running [] none) .done

theorem PMove.rem_eq {sc : Option (List Act)} {r r' : Run} (h : PMove sc r r') :
    rem sc r' + 1 = rem sc r := by
  cases h with
  | begin acts e => subst e; simp [rem, phaseB]; omega
  | act a rest ha => simp [rem, actsB_cons, ha]; omega
  | req ty name rest => simp [rem, actsB]
  | got ty name rest k => simp [rem, actsB]; omega
  | finish => simp [rem, actsB]

theorem PMove.valid {sc : Option (List Act)} {r r' : Run} (h : PMove sc r r')
    (hv : ValidRun sc r) : ValidRun sc r' := by
  cases h with
  | begin acts e => exact ⟨acts, [], e, by simp, by intro k hk; cases hk⟩
  | act a rest ha =>
    obtain ⟨acts, pre, e1, e2, _⟩ := hv
    exact ⟨acts, pre ++ [a], e1, by simp [e2], by intro k hk; cases hk⟩
  | req ty name rest =>
    obtain ⟨acts, pre, e1, e2, _⟩ := hv
    refine ⟨acts, pre, e1, e2, ?_⟩
    intro k hk
    cases hk
    exact ⟨rest, rfl⟩
  | got ty name rest k =>
    obtain ⟨acts, pre, e1, e2, _⟩ := hv
    exact ⟨acts, pre ++ [.await ty name], e1, by simp [e2], by intro k hk; cases hk⟩
  | finish =>
    obtain ⟨acts, pre, e1, e2, _⟩ := hv
    exact ⟨acts, e1⟩

theorem rem_running_le {sc : Option (List Act)} {rest : List Act} {b : Option Key}
    (hv : ValidRun sc (.running rest b)) : rem sc (.running rest b) + 1 ≤ phaseB sc := by
  obtain ⟨acts, pre, e1, e2, _⟩ := hv
  subst e1 e2
  simp only [rem, phaseB, actsB_append]
  split <;> omega

theorem rem_le_phaseB {sc : Option (List Act)} {r : Run} (hv : ValidRun sc r) :
    rem sc r ≤ phaseB sc := by
  cases r with
  | notBegun => simp [rem]
  | running rest b => have := rem_running_le hv; omega
  | done => simp [rem]
  | cancelled => simp [rem]

theorem rem_running_pos {sc : Option (List Act)} {rest : List Act} {b : Option Key}
    (hv : ValidRun sc (.running rest b)) : 1 ≤ rem sc (.running rest b) := by
  obtain ⟨acts, pre, e1, e2, hb⟩ := hv
  cases b with
  | none => simp [rem]
  | some k =>
    obtain ⟨rest', rfl⟩ := hb k rfl
    simp [rem, actsB]
    omega

/-- Two suffixes of one script with the same measure are the same state. -/
theorem running_inj {sc : Option (List Act)} {r1 r2 : List Act} {b1 b2 : Option Key}
    (h1 : ValidRun sc (.running r1 b1)) (h2 : ValidRun sc (.running r2 b2))
    (he : rem sc (.running r1 b1) = rem sc (.running r2 b2)) : r1 = r2 ∧ b1 = b2 := by
  obtain ⟨acts, pre1, e1, f1, g1⟩ := h1
  obtain ⟨acts', pre2, e2, f2, g2⟩ := h2
  rw [e1] at e2
  cases e2
  have hsame : ∀ {r : List Act} {b b' : Option Key},
      (∀ k, b = some k → ∃ rest', r = .await k.ty k.name :: rest') →
      (∀ k, b' = some k → ∃ rest', r = .await k.ty k.name :: rest') →
      (actsB r + (if b.isSome then 0 else 1) = actsB r + (if b'.isSome then 0 else 1)) → b = b' := by
    intro r b b' g g' he
    cases b with
    | none =>
      cases b' with
      | none => rfl
      | some k' => simp at he
    | some k =>
      cases b' with
      | none => simp at he
      | some k' =>
        obtain ⟨x, hx⟩ := g k rfl
        obtain ⟨x', hx'⟩ := g' k' rfl
        rw [hx] at hx'
        simp only [List.cons.injEq, Act.await.injEq] at hx'
        obtain ⟨⟨ht, hn⟩, _⟩ := hx'
        cases k; cases k'
        simp_all
  have hlong : ∀ {x r r' : List Act} {b b' : Option Key}, x ≠ [] → r = x ++ r' →
      (∀ k, b = some k → ∃ rest', r = .await k.ty k.name :: rest') →
      actsB r + (if b.isSome then 0 else 1) = actsB r' + (if b'.isSome then 0 else 1) → False := by
    intro x r r' b b' hx hr g he
    cases x with
    | nil => exact hx rfl
    | cons y x' =>
      subst hr
      simp only [List.cons_append, actsB_cons, actsB_append] at he
      cases b with
      | none => simp at he; split at he <;> split at he <;> omega
      | some k =>
        obtain ⟨z, hz⟩ := g k rfl
        simp only [List.cons_append, List.cons.injEq] at hz
        obtain ⟨rfl, _⟩ := hz
        simp [isAwait] at he
        split at he <;> omega
  simp only [rem] at he
  rw [f1] at f2
  rcases List.append_eq_append_iff.mp f2 with ⟨x, hx1, hx2⟩ | ⟨x, hx1, hx2⟩
  · by_cases hx : x = []
    · subst hx
      simp at hx2
      subst hx2
      exact ⟨rfl, hsame g1 g2 he⟩
    · exact (hlong hx hx2 g1 he).elim
  · by_cases hx : x = []
    · subst hx
      simp at hx2
      subst hx2
      exact ⟨rfl, hsame g1 g2 he⟩
    · exact (hlong hx hx2 g2 he.symm).elim

theorem rem_inj {sc : Option (List Act)} {r1 r2 : Run} (h1 : ValidRun sc r1) (h2 : ValidRun sc r2)
    (he : rem sc r1 = rem sc r2) : r1 = r2 := by
  cases r1 with
  | notBegun =>
    cases r2 with
    | notBegun => rfl
    | running rest b => have := rem_running_le h2; simp only [rem] at he this; omega
    | done => obtain ⟨acts, e⟩ := h2; subst e; simp [rem, phaseB] at he
    | cancelled => exact h2.elim
  | running rest b =>
    cases r2 with
    | notBegun => have := rem_running_le h1; simp only [rem] at he this; omega
    | running rest' b' => obtain ⟨rfl, rfl⟩ := running_inj h1 h2 he; rfl
    | done => have := rem_running_pos h1; simp only [rem] at he this; omega
    | cancelled => exact h2.elim
  | done =>
    cases r2 with
    | notBegun => obtain ⟨acts, e⟩ := h1; subst e; simp [rem, phaseB] at he; omega
    | running rest b => have := rem_running_pos h2; simp only [rem] at he this; omega
    | done => rfl
    | cancelled => exact h2.elim
  | cancelled => exact h1.elim

theorem rem_head {sc : Option (List Act)} {x : Act} {rest : List Act} (hx : isAwait x = false) :
    rem sc (.running (x :: rest) none) = actsB rest + 2 := by
  simp [rem, actsB_cons, hx]; omega

/-- In a valid phase, no work left means `done` (or a phase that does not exist). -/
theorem rem_zero {sc : Option (List Act)} {r : Run} (hv : ValidRun sc r) (h0 : rem sc r = 0) :
    r = .done ∨ (sc = none ∧ r = .notBegun) := by
  cases r with
  | notBegun =>
    cases sc with
    | none => exact .inr ⟨rfl, rfl⟩
    | some acts => simp [rem, phaseB] at h0
  | running rest b => have := rem_running_pos hv; omega
  | done => exact .inl rfl
  | cancelled => exact hv.elim

/-! ### coordinates: one phase of one node -/

/-- The phase `p` (`true`: prepare, `false`: start) of node `i`. -/
def runAt (ns : List NodeSt) (i : Nat) (p : Bool) : Run := if p then prepL ns i else startL ns i

def scriptAt (c : CompSpec) (p : Bool) : Option (List Act) := if p then c.prepare else c.start

def phOf (p : Bool) : StartPhase := if p then .preparing else .starting

def setRun (ns : List NodeSt) (i : Nat) (p : Bool) (r : Run) : List NodeSt :=
  match ns[i]? with
  | some n => ns.set i (if p then { n with prep := r } else { n with start := r })
  | none => ns

theorem setRun_length (ns : List NodeSt) (i : Nat) (p : Bool) (r : Run) :
    (setRun ns i p r).length = ns.length := by
  unfold setRun; split <;> simp

theorem runAt_setRun {ns : List NodeSt} {i : Nat} (hi : i < ns.length) (p : Bool) (r : Run)
    (j : Nat) (q : Bool) :
    runAt (setRun ns i p r) j q = if j = i ∧ q = p then r else runAt ns j q := by
  have hn : ns[i]? = some ns[i] := List.getElem?_eq_getElem hi
  unfold setRun runAt
  rw [hn]
  simp only [prepL_set hi, startL_set hi]
  by_cases hji : j = i
  · subst hji
    cases p <;> cases q <;> simp [prepL_of_getElem? hn, startL_of_getElem? hn]
  · simp [hji]

theorem runAt_setRun_self {ns : List NodeSt} {i : Nat} (hi : i < ns.length) (p : Bool) (r : Run) :
    runAt (setRun ns i p r) i p = r := by
  rw [runAt_setRun hi]; simp

theorem set_prep_eq {ns : List NodeSt} {i : Nat} {n : NodeSt} (hn : ns[i]? = some n) (r : Run) :
    ns.set i { n with prep := r } = setRun ns i true r := by
  unfold setRun; rw [hn]; rfl

theorem set_start_eq {ns : List NodeSt} {i : Nat} {n : NodeSt} (hn : ns[i]? = some n) (r : Run) :
    ns.set i { n with start := r } = setRun ns i false r := by
  unfold setRun; rw [hn]; rfl

theorem runAt_prep {ns : List NodeSt} {i : Nat} {n : NodeSt} (hn : ns[i]? = some n) :
    runAt ns i true = n.prep := by
  simp [runAt, prepL_of_getElem? hn]

theorem runAt_start {ns : List NodeSt} {i : Nat} {n : NodeSt} (hn : ns[i]? = some n) :
    runAt ns i false = n.start := by
  simp [runAt, startL_of_getElem? hn]

/-- `SSt.current` in terms of coordinates. -/
theorem cur_runAt {s : SSt} {i : Nat} {ph : StartPhase} {rest : List Act} {b : Option Key}
    (h : s.current i = some (ph, rest, b)) :
    ∃ p, ph = phOf p ∧ i < s.nodes.length ∧ runAt s.nodes i p = .running rest b ∧
      ∀ r, setCurL s.nodes i ph r = setRun s.nodes i p r := by
  obtain ⟨n, hn, hph⟩ := current_some h
  have hi : i < s.nodes.length := (List.getElem?_eq_some_iff.mp hn).1
  rcases hph with ⟨rfl, hp⟩ | ⟨rfl, hs, _⟩
  · refine ⟨true, rfl, hi, by rw [runAt_prep hn, hp], ?_⟩
    intro r; unfold setCurL setRun; rw [hn]; rfl
  · refine ⟨false, rfl, hi, by rw [runAt_start hn, hs], ?_⟩
    intro r; unfold setCurL setRun; rw [hn]; simp

/-- The converse: a running coordinate is the current phase (for `start()` provided
`prepare()` is not running). -/
theorem cur_of_runAt {s : SSt} {i : Nat} {p : Bool} {rest : List Act} {b : Option Key}
    (h : runAt s.nodes i p = .running rest b)
    (hp : p = false → ∀ r b', prepL s.nodes i ≠ .running r b') :
    s.current i = some (phOf p, rest, b) := by
  unfold runAt at h
  unfold SSt.current SSt.node?
  cases hn : s.nodes[i]? with
  | none =>
    cases p <;> simp [prepL, startL, hn] at h
  | some n =>
    obtain ⟨pr, st⟩ := n
    cases p with
    | true =>
      simp [prepL, hn] at h
      subst h
      rfl
    | false =>
      simp [startL, hn] at h
      subst h
      have := hp rfl
      simp only [prepL, hn] at this
      cases pr with
      | running r b' => exact absurd rfl (this r b')
      | _ => rfl

/-! ### what one outcome-free step does -/

/-- The key a publication of phase `p` of component `c` goes under. -/
def pkey (c : CompSpec) (p : Bool) (ty : TypeId) (name : String) : Key :=
  ⟨ty, publishName (phaseOf (phOf p)) c.dflt name⟩

/-- The factory key the head action of a phase publishes (if it is a `publishFactory`). -/
def facKey (c : CompSpec) (p : Bool) : Run → Option Key
  | .running (.publishFactory ty name _ :: _) none => some (pkey c p ty name)
  | _ => none

/-- The resource key the head action of a phase publishes (if it is a `publish`). -/
def resKey (c : CompSpec) (p : Bool) : Run → Option Key
  | .running (.publish ty name _ :: _) none => some (pkey c p ty name)
  | _ => none

theorem lookup_cases {s s1 : SSt} {k : Key} {v : Val} (h : s.lookup k = some (v, s1)) :
    (s1.res = s.res ∧ k ∈ akeys s.res) ∨
      ((∃ ext, s1.res = s.res ++ ext ∧ ∀ k' ∈ akeys ext, k' ∈ akeys s.fac) ∧ k ∈ akeys s.fac) := by
  unfold SSt.lookup at h
  split at h
  · rename_i v' hv
    simp only [Option.some.injEq, Prod.mk.injEq] at h
    obtain ⟨rfl, rfl⟩ := h
    exact .inl ⟨rfl, (alookup_isSome_iff _ _).mp (by simp [hv])⟩
  · split at h
    · rename_i fid hf
      simp only [Option.some.injEq, Prod.mk.injEq] at h
      obtain ⟨rfl, rfl⟩ := h
      refine .inr ⟨⟨_, rfl, ?_⟩, (alookup_isSome_iff _ _).mp (by simp [hf])⟩
      intro k' hk'
      simp only [akeys, List.map_map, List.mem_map, Function.comp_apply] at hk'
      obtain ⟨k'', hm, rfl⟩ := hk'
      exact List.mem_map.mpr ⟨(k'', fid), (mem_genKeys.mp hm).1, rfl⟩
    · cases h

theorem lookup_some_of_avail {s : SSt} {k : Key} (h : k ∈ akeys s.res ∨ k ∈ akeys s.fac) :
    ∃ v s1, s.lookup k = some (v, s1) := by
  unfold SSt.lookup
  cases hr : alookup k s.res with
  | some v => exact ⟨v, s, rfl⟩
  | none =>
    have hnr : k ∉ akeys s.res := (alookup_none_iff _ _).mp hr
    have hf : k ∈ akeys s.fac := h.resolve_left hnr
    have := (alookup_isSome_iff k s.fac).mpr hf
    cases hfa : alookup k s.fac with
    | some fid => exact ⟨_, _, rfl⟩
    | none => simp [hfa] at this

theorem akeys_append {κ α : Type} (l₁ l₂ : List (κ × α)) : akeys (l₁ ++ l₂) = akeys l₁ ++ akeys l₂ := by
  simp [akeys]

/-- One outcome-free step that moves phase `p` of node `i` to `r'`. -/
structure QMove (prog : List CompSpec) (a a' : SSt) (i : Nat) (p : Bool) (c : CompSpec) (r' : Run) :
    Prop where
  hc : prog[i]? = some c
  hi : i < a.nodes.length
  nodes : a'.nodes = setRun a.nodes i p r'
  pm : PMove (scriptAt c p) (runAt a.nodes i p) r'
  ctor : a'.constructed = a.constructed
  fac_iff : ∀ k, k ∈ akeys a'.fac ↔ (k ∈ akeys a.fac ∨ facKey c p (runAt a.nodes i p) = some k)
  res_sub : ∀ k, k ∈ akeys a'.res →
    (k ∈ akeys a.res ∨ resKey c p (runAt a.nodes i p) = some k ∨ k ∈ akeys a.fac)
  res_add : ∀ k, (k ∈ akeys a.res ∨ resKey c p (runAt a.nodes i p) = some k) → k ∈ akeys a'.res

theorem spec_of_lt {prog : List CompSpec} {to : Bool} {a : SSt} (hinv : Inv prog to a) {i : Nat}
    (hi : i < a.nodes.length) : ∃ c, prog[i]? = some c := by
  rw [hinv.nodes_len] at hi
  exact ⟨prog[i], List.getElem?_eq_getElem hi⟩

theorem spec_eq {prog : List CompSpec} {to : Bool} {a : SSt} (hinv : Inv prog to a) {i : Nat}
    {c : CompSpec} (h : a.spec? i = some c) : prog[i]? = some c := by
  rw [← hinv.prog_eq]; exact h

/-- The guards of an outcome-free label `l` that moves phase `p` of node `i`, as a property of
the state (everything except "no outcome yet"). -/
def Guard (a : SSt) (i : Nat) (p : Bool) (c : CompSpec) : Lab → Prop
  | .prepBegin j => j = i ∧ p = true ∧ a.allConstructed = true ∧ a.reached a.fuel i = true ∧
      runAt a.nodes i p = .notBegun ∧ ∃ acts, c.prepare = some acts
  | .prepEnd j => j = i ∧ p = true ∧ runAt a.nodes i p = .running [] none
  | .startBegin j => j = i ∧ p = false ∧ a.allConstructed = true ∧ a.prepFinished i = true ∧
      a.reached a.fuel i = true ∧ c.children.all (fun ch => a.subtreeDone a.fuel ch) = true ∧
      runAt a.nodes i p = .notBegun ∧ ∃ acts, c.start = some acts
  | .startEnd j => j = i ∧ p = false ∧ runAt a.nodes i p = .running [] none
  | .pub j ty name v => j = i ∧ ∃ rest, runAt a.nodes i p = .running (.publish ty name v :: rest) none
  | .pubFac j ty name fid =>
      j = i ∧ ∃ rest, runAt a.nodes i p = .running (.publishFactory ty name fid :: rest) none
  | .req j k => j = i ∧ ∃ rest, runAt a.nodes i p = .running (.await k.ty k.name :: rest) none
  | .got j k _ => j = i ∧ (k ∈ akeys a.res ∨ k ∈ akeys a.fac) ∧
      ∃ ty name rest, runAt a.nodes i p = .running (.await ty name :: rest) (some k)
  | .gotOpt j k _ => j = i ∧ ∃ rest, runAt a.nodes i p = .running (.awaitOpt k.ty k.name :: rest) none
  | .tick j => j = i ∧ ∃ d rest, runAt a.nodes i p = .running (.tick d :: rest) none
  | .regTd j id => j = i ∧ ∃ rest, runAt a.nodes i p = .running (.regTd id :: rest) none
  | _ => False

/-- Case analysis of an outcome-free step, done once. -/
theorem step_move {prog : List CompSpec} {to : Bool} {a a' : SSt} {l : Lab} (hinv : Inv prog to a)
    (hrep : a.reported = false) (h : step? a l = some a') (hres : a'.result = none) :
    (a'.constructed = a.constructed + 1 ∧ a'.nodes = a.nodes ∧ a'.res = a.res ∧ a'.fac = a.fac ∧
        ∃ c, prog[a.constructed]? = some c ∧ c.ctorFails = false) ∨
      ∃ i p c r', Guard a i p c l ∧ QMove prog a a' i p c r' := by
  cases Step.of_step? h
  case construct i c h1 h2 h3 h4 h5 =>
    subst h4; exact .inl ⟨rfl, rfl, rfl, rfl, c, spec_eq hinv h2, h5⟩
  case ctorFailed => simp at hres
  case failed => simp at hres
  case timeoutFired => simp at hres
  case returned => simp at hres
  case cancelSeen h3 => simp at hres; simp [hres] at h3
  case raised h2 _ => simp at hres; simp [hres] at h2
  case tdRun h1 _ => simp [hrep] at h1
  case instantOver h1 => simp at hres; simp [hrep, hres] at h1
  case prepBegin i c n acts h1 h2 h3 h4 h5 h6 h7 h8 =>
    right
    have hi : i < a.nodes.length := (List.getElem?_eq_some_iff.mp h3).1
    have hr : runAt a.nodes i true = .notBegun := by rw [runAt_prep h3, h7]
    refine ⟨i, true, c, _, ?_, spec_eq hinv h2, hi, set_prep_eq h3 _, ?_, rfl, ?_, ?_, ?_⟩
    · exact ⟨rfl, rfl, h6, h8, hr, acts, h4⟩
    · rw [hr]; exact .begin acts (by simp [scriptAt, h4])
    all_goals (simp [hr, facKey, resKey] <;> (intro k hk; exact Or.inl hk))
  case prepEnd i n h1 h3 h5 h7 =>
    right
    have hi : i < a.nodes.length := (List.getElem?_eq_some_iff.mp h3).1
    obtain ⟨c, hc⟩ := spec_of_lt hinv hi
    have hr : runAt a.nodes i true = .running [] none := by rw [runAt_prep h3, h7]
    refine ⟨i, true, c, _, ?_, hc, hi, set_prep_eq h3 _, ?_, rfl, ?_, ?_, ?_⟩
    · exact ⟨rfl, rfl, hr⟩
    · rw [hr]; exact .finish
    all_goals (simp [hr, facKey, resKey] <;> (intro k hk; exact Or.inl hk))
  case startBegin i c n acts h1 h2 h3 h4 h5 h6 h7 h8 h9 h10 =>
    right
    have hi : i < a.nodes.length := (List.getElem?_eq_some_iff.mp h3).1
    have hr : runAt a.nodes i false = .notBegun := by rw [runAt_start h3, h7]
    refine ⟨i, false, c, _, ?_, spec_eq hinv h2, hi, set_start_eq h3 _, ?_, rfl, ?_, ?_, ?_⟩
    · exact ⟨rfl, rfl, h6, h8, h9, h10, hr, acts, h4⟩
    · rw [hr]; exact .begin acts (by simp [scriptAt, h4])
    all_goals (simp [hr, facKey, resKey] <;> (intro k hk; exact Or.inl hk))
  case startEnd i n h1 h3 h5 h7 =>
    right
    have hi : i < a.nodes.length := (List.getElem?_eq_some_iff.mp h3).1
    obtain ⟨c, hc⟩ := spec_of_lt hinv hi
    have hr : runAt a.nodes i false = .running [] none := by rw [runAt_start h3, h7]
    refine ⟨i, false, c, _, ?_, hc, hi, set_start_eq h3 _, ?_, rfl, ?_, ?_, ?_⟩
    · exact ⟨rfl, rfl, hr⟩
    · rw [hr]; exact .finish
    all_goals (simp [hr, facKey, resKey] <;> (intro k hk; exact Or.inl hk))
  case pub i ty name v c ph rest h1 h2 h3 h4 h5 =>
    right
    obtain ⟨p, rfl, hi, hr, hset⟩ := cur_runAt h3
    refine ⟨i, p, c, _, ?_, spec_eq hinv h2, hi, hset _, ?_, rfl, ?_, ?_, ?_⟩
    · exact ⟨rfl, _, hr⟩
    · rw [hr]; exact .act _ _ rfl
    all_goals simp [hr, facKey, resKey, akeys_append, akeys, pkey]
    · intro k hk; rcases hk with hk | hk
      · exact .inl hk
      · exact .inr (.inl hk.symm)
    · intro k hk; rcases hk with hk | hk
      · exact .inl hk
      · exact .inr hk.symm
  case pubFac i ty name fid c ph rest h1 h2 h3 h4 h5 =>
    right
    obtain ⟨p, rfl, hi, hr, hset⟩ := cur_runAt h3
    refine ⟨i, p, c, _, ?_, spec_eq hinv h2, hi, hset _, ?_, rfl, ?_, ?_, ?_⟩
    · exact ⟨rfl, _, hr⟩
    · rw [hr]; exact .act _ _ rfl
    · intro k
      simp only [hr, facKey, akeys_append, List.mem_append, pkey, Option.some.injEq]
      simp only [akeys, List.map_cons, List.map_nil, List.mem_singleton]
      constructor
      · intro hk; exact hk.imp id Eq.symm
      · intro hk; exact hk.imp id Eq.symm
    · intro k hk; exact .inl hk
    · intro k hk; simpa [hr, resKey] using hk
  case req i k ph rest h1 h3 h4 =>
    right
    obtain ⟨p, rfl, hi, hr, hset⟩ := cur_runAt h3
    obtain ⟨c, hc⟩ := spec_of_lt hinv hi
    refine ⟨i, p, c, _, ?_, hc, hi, hset _, ?_, rfl, ?_, ?_, ?_⟩
    · exact ⟨rfl, _, hr⟩
    · rw [hr]; exact .req _ _ _
    all_goals (simp [hr, facKey, resKey] <;> (intro k hk; exact Or.inl hk))
  case got i k v ph ty name rest s1 h1 h3 h4 h5 =>
    right
    obtain ⟨p, rfl, hi, hr, hset⟩ := cur_runAt h3
    obtain ⟨c, hc⟩ := spec_of_lt hinv hi
    refine ⟨i, p, c, _, ?_, hc, hi, hset _, ?_, rfl, ?_, ?_, ?_⟩
    · exact ⟨rfl, (lookup_cases h5).elim (fun x => .inl x.2) (fun x => .inr x.2), _, _, _, hr⟩
    · rw [hr]; exact .got _ _ _ _
    · simp [hr, facKey]
    · intro k' hk'
      rcases lookup_cases h5 with ⟨e, _⟩ | ⟨⟨ext, e, hext⟩, hf⟩
      · simp only [e] at hk'; exact .inl hk'
      · simp only [e, akeys_append, List.mem_append] at hk'
        rcases hk' with hk' | hk'
        · exact .inl hk'
        · exact .inr (.inr (hext _ hk'))
    · intro k' hk'
      simp only [hr, resKey, reduceCtorEq, or_false] at hk'
      rcases lookup_cases h5 with ⟨e, _⟩ | ⟨⟨ext, e, hext⟩, hf⟩
      · simp only [e]; exact hk'
      · simp only [e, akeys_append, List.mem_append]; exact .inl hk'
  case gotOptSome i k v ph rest s1 h1 h3 h4 h5 =>
    right
    obtain ⟨p, rfl, hi, hr, hset⟩ := cur_runAt h3
    obtain ⟨c, hc⟩ := spec_of_lt hinv hi
    refine ⟨i, p, c, _, ?_, hc, hi, hset _, ?_, rfl, ?_, ?_, ?_⟩
    · exact ⟨rfl, _, hr⟩
    · rw [hr]; exact .act _ _ rfl
    · simp [hr, facKey]
    · intro k' hk'
      rcases lookup_cases h5 with ⟨e, _⟩ | ⟨⟨ext, e, hext⟩, hf⟩
      · simp only [e] at hk'; exact .inl hk'
      · simp only [e, akeys_append, List.mem_append] at hk'
        rcases hk' with hk' | hk'
        · exact .inl hk'
        · exact .inr (.inr (hext _ hk'))
    · intro k' hk'
      simp only [hr, resKey, reduceCtorEq, or_false] at hk'
      rcases lookup_cases h5 with ⟨e, _⟩ | ⟨⟨ext, e, hext⟩, hf⟩
      · simp only [e]; exact hk'
      · simp only [e, akeys_append, List.mem_append]; exact .inl hk'
  case gotOptNone i k ph rest h1 h3 h4 h5 =>
    right
    obtain ⟨p, rfl, hi, hr, hset⟩ := cur_runAt h3
    obtain ⟨c, hc⟩ := spec_of_lt hinv hi
    refine ⟨i, p, c, _, ?_, hc, hi, hset _, ?_, rfl, ?_, ?_, ?_⟩
    · exact ⟨rfl, _, hr⟩
    · rw [hr]; exact .act _ _ rfl
    all_goals (simp [hr, facKey, resKey] <;> (intro k hk; exact Or.inl hk))
  case tick i ph d rest h1 h3 h4 =>
    right
    obtain ⟨p, rfl, hi, hr, hset⟩ := cur_runAt h3
    obtain ⟨c, hc⟩ := spec_of_lt hinv hi
    refine ⟨i, p, c, _, ?_, hc, hi, hset _, ?_, rfl, ?_, ?_, ?_⟩
    · exact ⟨rfl, _, _, hr⟩
    · rw [hr]; exact .act _ _ rfl
    all_goals (simp [hr, facKey, resKey] <;> (intro k hk; exact Or.inl hk))
  case regTd i id ph rest h1 h3 h4 =>
    right
    obtain ⟨p, rfl, hi, hr, hset⟩ := cur_runAt h3
    obtain ⟨c, hc⟩ := spec_of_lt hinv hi
    refine ⟨i, p, c, _, ?_, hc, hi, hset _, ?_, rfl, ?_, ?_, ?_⟩
    · exact ⟨rfl, _, hr⟩
    · rw [hr]; exact .act _ _ rfl
    all_goals (simp [hr, facKey, resKey] <;> (intro k hk; exact Or.inl hk))

theorem QMove.runAt' {prog : List CompSpec} {a a' : SSt} {i : Nat} {p : Bool} {c : CompSpec}
    {r' : Run} (m : QMove prog a a' i p c r') (j : Nat) (q : Bool) :
    runAt a'.nodes j q = if j = i ∧ q = p then r' else runAt a.nodes j q := by
  rw [m.nodes, runAt_setRun m.hi]

theorem QMove.runAt_self {prog : List CompSpec} {a a' : SSt} {i : Nat} {p : Bool} {c : CompSpec}
    {r' : Run} (m : QMove prog a a' i p c r') : runAt a'.nodes i p = r' := by
  rw [m.runAt']; simp

theorem QMove.nodes_len {prog : List CompSpec} {a a' : SSt} {i : Nat} {p : Bool} {c : CompSpec}
    {r' : Run} (m : QMove prog a a' i p c r') : a'.nodes.length = a.nodes.length := by
  rw [m.nodes, setRun_length]

/-- Remaining work never grows, and decreases by one at the moved coordinate. -/
theorem QMove.rem_le {prog : List CompSpec} {a a' : SSt} {i : Nat} {p : Bool} {c : CompSpec}
    {r' : Run} (m : QMove prog a a' i p c r') {j : Nat} {cj : CompSpec} (q : Bool)
    (hcj : prog[j]? = some cj) :
    rem (scriptAt cj q) (runAt a'.nodes j q) ≤ rem (scriptAt cj q) (runAt a.nodes j q) := by
  rw [m.runAt']
  by_cases hjq : j = i ∧ q = p
  · obtain ⟨rfl, rfl⟩ := hjq
    have : cj = c := by have := m.hc; rw [hcj] at this; exact Option.some.inj this
    subst this
    simp only [and_self, if_true]
    have := m.pm.rem_eq
    omega
  · simp [hjq]

theorem facKey_some {c : CompSpec} {p : Bool} {r : Run} {k : Key} (h : facKey c p r = some k) :
    ∃ ty name fid rest, r = .running (.publishFactory ty name fid :: rest) none ∧ k = pkey c p ty name := by
  unfold facKey at h
  split at h
  · simp only [Option.some.injEq] at h; exact ⟨_, _, _, _, rfl, h.symm⟩
  · cases h

theorem resKey_some {c : CompSpec} {p : Bool} {r : Run} {k : Key} (h : resKey c p r = some k) :
    ∃ ty name v rest, r = .running (.publish ty name v :: rest) none ∧ k = pkey c p ty name := by
  unfold resKey at h
  split at h
  · simp only [Option.some.injEq] at h; exact ⟨_, _, _, _, rfl, h.symm⟩
  · cases h

/-! ### the invariant of outcome-free reachable states -/

/-- The occurrence `pre ++ x :: post` of action `x` in phase `p` of node `i` has been performed. -/
def Perf (prog : List CompSpec) (ns : List NodeSt) (i : Nat) (c : CompSpec) (p : Bool)
    (pre : List Act) (x : Act) (post : List Act) : Prop :=
  prog[i]? = some c ∧ scriptAt c p = some (pre ++ x :: post) ∧
    rem (scriptAt c p) (runAt ns i p) ≤ actsB post + 1

structure Good (prog : List CompSpec) (s : SSt) : Prop where
  rep : s.reported = false
  valid : ∀ i c p, prog[i]? = some c → ValidRun (scriptAt c p) (runAt s.nodes i p)
  fac_occ : ∀ k, k ∈ akeys s.fac → ∃ i c p pre ty name fid post,
    Perf prog s.nodes i c p pre (.publishFactory ty name fid) post ∧ k = pkey c p ty name
  res_occ : ∀ k, k ∈ akeys s.res → (∃ i c p pre ty name v post,
    Perf prog s.nodes i c p pre (.publish ty name v) post ∧ k = pkey c p ty name) ∨ k ∈ akeys s.fac
  fac_perf : ∀ i c p pre ty name fid post,
    Perf prog s.nodes i c p pre (.publishFactory ty name fid) post → pkey c p ty name ∈ akeys s.fac
  res_perf : ∀ i c p pre ty name v post,
    Perf prog s.nodes i c p pre (.publish ty name v) post → pkey c p ty name ∈ akeys s.res

theorem Perf.mono {prog : List CompSpec} {a a' : SSt} {i : Nat} {p : Bool} {c : CompSpec} {r' : Run}
    (m : QMove prog a a' i p c r') {j : Nat} {cj : CompSpec} {q : Bool} {pre : List Act} {x : Act}
    {post : List Act} (h : Perf prog a.nodes j cj q pre x post) :
    Perf prog a'.nodes j cj q pre x post := by
  obtain ⟨h1, h2, h3⟩ := h
  exact ⟨h1, h2, Nat.le_trans (m.rem_le q h1) h3⟩

/-- A newly performed occurrence is the head action of the moved phase. -/
theorem Perf.new {prog : List CompSpec} {a a' : SSt} {i : Nat} {p : Bool} {c : CompSpec} {r' : Run}
    (m : QMove prog a a' i p c r') (hv : ValidRun (scriptAt c p) (runAt a.nodes i p))
    {j : Nat} {cj : CompSpec} {q : Bool} {pre : List Act} {x : Act}
    {post : List Act} (hx : isAwait x = false) (h : Perf prog a'.nodes j cj q pre x post) :
    Perf prog a.nodes j cj q pre x post ∨
      (j = i ∧ q = p ∧ cj = c ∧ runAt a.nodes i p = .running (x :: post) none) := by
  obtain ⟨h1, h2, h3⟩ := h
  rw [m.runAt'] at h3
  by_cases hjq : j = i ∧ q = p
  · obtain ⟨rfl, rfl⟩ := hjq
    have : cj = c := by have := m.hc; rw [h1] at this; exact Option.some.inj this
    subst this
    simp only [and_self, if_true] at h3
    have hr := m.pm.rem_eq
    by_cases hle : rem (scriptAt cj q) (runAt a.nodes j q) ≤ actsB post + 1
    · exact .inl ⟨h1, h2, hle⟩
    · right
      refine ⟨rfl, rfl, rfl, ?_⟩
      have hv' : ValidRun (scriptAt cj q) (.running (x :: post) none) :=
        ⟨_, pre, h2, rfl, by intro k hk; cases hk⟩
      apply rem_inj hv hv'
      rw [rem_head hx]
      omega
  · simp only [hjq, if_false] at h3
    exact .inl ⟨h1, h2, h3⟩

/-- After its head action was performed, the occurrence counts as performed. -/
theorem Perf.of_head {prog : List CompSpec} {a a' : SSt} {i : Nat} {p : Bool} {c : CompSpec}
    {r' : Run} (m : QMove prog a a' i p c r') (hv : ValidRun (scriptAt c p) (runAt a.nodes i p))
    {x : Act} {rest : List Act} (hx : isAwait x = false)
    (hr : runAt a.nodes i p = .running (x :: rest) none) :
    ∃ pre, Perf prog a'.nodes i c p pre x rest := by
  rw [hr] at hv
  obtain ⟨acts, pre, e1, e2, _⟩ := hv
  refine ⟨pre, m.hc, by rw [e1, e2], ?_⟩
  rw [m.runAt_self]
  have := m.pm.rem_eq
  rw [hr, rem_head hx] at this
  omega

theorem step_rep {a a' : SSt} {l : Lab} (hrep : a.reported = false) (h : step? a l = some a')
    (hres : a'.result = none) : a'.reported = false := by
  cases Step.of_step? h <;> simp_all

theorem good_move {prog : List CompSpec} {a a' : SSt} {i : Nat} {p : Bool} {c : CompSpec}
    {r' : Run} (g : Good prog a) (m : QMove prog a a' i p c r') (hrep : a'.reported = false) :
    Good prog a' where
  rep := hrep
  valid j cj q hcj := by
    rw [m.runAt']
    by_cases hjq : j = i ∧ q = p
    · obtain ⟨rfl, rfl⟩ := hjq
      have : cj = c := by have := m.hc; rw [hcj] at this; exact Option.some.inj this
      subst this
      simp only [and_self, if_true]
      exact m.pm.valid (g.valid _ _ _ hcj)
    · simp only [hjq, if_false]; exact g.valid _ _ _ hcj
  fac_occ k hk := by
    rcases (m.fac_iff k).mp hk with hk | hk
    · obtain ⟨j, cj, q, pre, ty, name, fid, post, hp, e⟩ := g.fac_occ k hk
      exact ⟨j, cj, q, pre, ty, name, fid, post, hp.mono m, e⟩
    · obtain ⟨ty, name, fid, rest, hr, e⟩ := facKey_some hk
      obtain ⟨pre, hp⟩ := Perf.of_head m (g.valid _ _ _ m.hc) (x := .publishFactory ty name fid) rfl hr
      exact ⟨i, c, p, pre, ty, name, fid, rest, hp, e⟩
  res_occ k hk := by
    rcases m.res_sub k hk with hk | hk | hk
    · rcases g.res_occ k hk with ⟨j, cj, q, pre, ty, name, v, post, hp, e⟩ | hf
      · exact .inl ⟨j, cj, q, pre, ty, name, v, post, hp.mono m, e⟩
      · exact .inr ((m.fac_iff k).mpr (.inl hf))
    · obtain ⟨ty, name, v, rest, hr, e⟩ := resKey_some hk
      obtain ⟨pre, hp⟩ := Perf.of_head m (g.valid _ _ _ m.hc) (x := .publish ty name v) rfl hr
      exact .inl ⟨i, c, p, pre, ty, name, v, rest, hp, e⟩
    · exact .inr ((m.fac_iff k).mpr (.inl hk))
  fac_perf j cj q pre ty name fid post hp := by
    rcases Perf.new m (g.valid _ _ _ m.hc) rfl hp with hp | ⟨rfl, rfl, rfl, hr⟩
    · exact (m.fac_iff _).mpr (.inl (g.fac_perf _ _ _ _ _ _ _ _ hp))
    · exact (m.fac_iff _).mpr (.inr (by rw [hr]; rfl))
  res_perf j cj q pre ty name v post hp := by
    rcases Perf.new m (g.valid _ _ _ m.hc) rfl hp with hp | ⟨rfl, rfl, rfl, hr⟩
    · exact m.res_add _ (.inl (g.res_perf _ _ _ _ _ _ _ _ hp))
    · exact m.res_add _ (.inr (by rw [hr]; rfl))

theorem good_step {prog : List CompSpec} {to : Bool} {a a' : SSt} {l : Lab} (hinv : Inv prog to a)
    (g : Good prog a) (h : step? a l = some a') (hres : a'.result = none) : Good prog a' := by
  have hrep := step_rep g.rep h hres
  rcases step_move hinv g.rep h hres with ⟨_, hn, hr, hf, _⟩ | ⟨i, p, c, r', _, m⟩
  · exact ⟨hrep, by rw [hn]; exact g.valid, by rw [hn, hf]; exact g.fac_occ,
      by rw [hn, hf, hr]; exact g.res_occ, by rw [hn, hf]; exact g.fac_perf,
      by rw [hn, hr]; exact g.res_perf⟩
  · exact good_move g m hrep

theorem runAt_init (prog : List CompSpec) (i : Nat) (p : Bool) :
    runAt (prog.map fun _ => (⟨.notBegun, .notBegun⟩ : NodeSt)) i p = .notBegun := by
  cases p <;> simp [runAt, prepL_init, startL_init]

theorem good_init (prog : List CompSpec) (to : Bool) : Good prog (SSt.init prog to) where
  rep := rfl
  valid i c p _ := by simp only [SSt.init, runAt_init]; trivial
  fac_occ k hk := by simp [SSt.init, akeys] at hk
  res_occ k hk := by simp [SSt.init, akeys] at hk
  fac_perf i c p pre ty name fid post hp := by
    obtain ⟨_, h2, h3⟩ := hp
    simp only [SSt.init, runAt_init, rem, h2, phaseB, actsB_append, actsB_cons] at h3
    omega
  res_perf i c p pre ty name v post hp := by
    obtain ⟨_, h2, h3⟩ := hp
    simp only [SSt.init, runAt_init, rem, h2, phaseB, actsB_append, actsB_cons] at h3
    omega

theorem result_none_of_step {a a' : SSt} {l : Lab} (h : step? a l = some a')
    (hres : a'.result = none) : a.result = none := by
  cases hr : a.result with
  | none => rfl
  | some r => rw [step?_result_stable h hr] at hres; cases hres

theorem result_none_of_exec {a a' : SSt} {ls : List Lab} (h : Exec a ls a')
    (hres : a'.result = none) : a.result = none := by
  cases hr : a.result with
  | none => rfl
  | some r => rw [exec_result_stable h hr] at hres; cases hres

/-- Every state reachable without an outcome is `Good`. -/
theorem good_of_exec {prog : List CompSpec} {to : Bool} {ls : List Lab} {s : SSt}
    (h : Exec (SSt.init prog to) ls s) (hres : s.result = none) : Good prog s := by
  refine exec_snoc_induction (motive := fun _ s => s.result = none → Good prog s)
    (fun _ => good_init prog to) ?_ h hres
  intro ls s l s' hex ih hs hres'
  exact good_step (inv_of_exec hex) (ih (result_none_of_step hs hres')) hs hres'

/-! ### comparing two outcome-free states -/

/-- `s` is at least as advanced as `a`, coordinate by coordinate. -/
structure Adv (prog : List CompSpec) (a s : SSt) : Prop where
  ctor : a.constructed ≤ s.constructed
  rem_le : ∀ i c p, prog[i]? = some c →
    rem (scriptAt c p) (runAt s.nodes i p) ≤ rem (scriptAt c p) (runAt a.nodes i p)

theorem Adv.refl (prog : List CompSpec) (s : SSt) : Adv prog s s :=
  ⟨Nat.le_refl _, fun _ _ _ _ => Nat.le_refl _⟩

theorem adv_init {prog : List CompSpec} {to : Bool} {s : SSt} (g : Good prog s) :
    Adv prog (SSt.init prog to) s where
  ctor := Nat.zero_le _
  rem_le i c p hc := by
    simp only [SSt.init, runAt_init, rem]
    exact rem_le_phaseB (g.valid i c p hc)

theorem Adv.perf {prog : List CompSpec} {a s : SSt} (h : Adv prog a s) {i : Nat} {c : CompSpec}
    {p : Bool} {pre : List Act} {x : Act} {post : List Act} (hp : Perf prog a.nodes i c p pre x post) :
    Perf prog s.nodes i c p pre x post :=
  ⟨hp.1, hp.2.1, Nat.le_trans (h.rem_le i c p hp.1) hp.2.2⟩

/-- Published keys stay available in more advanced states. -/
theorem Adv.avail {prog : List CompSpec} {a s : SSt} (h : Adv prog a s) (ga : Good prog a)
    (gs : Good prog s) {k : Key} (hk : k ∈ akeys a.res ∨ k ∈ akeys a.fac) :
    k ∈ akeys s.res ∨ k ∈ akeys s.fac := by
  have hfac : k ∈ akeys a.fac → k ∈ akeys s.fac := by
    intro hf
    obtain ⟨i, c, p, pre, ty, name, fid, post, hp, rfl⟩ := ga.fac_occ k hf
    exact gs.fac_perf _ _ _ _ _ _ _ _ (h.perf hp)
  rcases hk with hk | hk
  · rcases ga.res_occ k hk with ⟨i, c, p, pre, ty, name, v, post, hp, rfl⟩ | hf
    · exact .inl (gs.res_perf _ _ _ _ _ _ _ _ (h.perf hp))
    · exact .inr (hfac hf)
  · exact .inr (hfac hk)

theorem prepL_done_lt {ns : List NodeSt} {i : Nat} (h : prepL ns i = .done) : i < ns.length := by
  unfold prepL at h
  split at h
  · rename_i n hn; exact (List.getElem?_eq_some_iff.mp hn).1
  · cases h

theorem startL_done_lt {ns : List NodeSt} {i : Nat} (h : startL ns i = .done) : i < ns.length := by
  unfold startL at h
  split at h
  · rename_i n hn; exact (List.getElem?_eq_some_iff.mp hn).1
  · cases h

theorem Adv.done {prog : List CompSpec} {to : Bool} {a s : SSt} (h : Adv prog a s)
    (ia : Inv prog to a) (ga : Good prog a) (gs : Good prog s) {i : Nat} {p : Bool}
    (hi : i < a.nodes.length) (hd : runAt a.nodes i p = .done) : runAt s.nodes i p = .done := by
  obtain ⟨c, hc⟩ := spec_of_lt ia hi
  have h1 := h.rem_le i c p hc
  have hva := ga.valid i c p hc
  rw [hd] at h1 hva
  have h0 : rem (scriptAt c p) Run.done = 0 := rfl
  rcases rem_zero (gs.valid i c p hc) (by omega) with hdone | ⟨hn, _⟩
  · exact hdone
  · obtain ⟨acts, e⟩ := hva
    rw [hn] at e; cases e

/-- `Adv` implies the monotonicity order of the start-up lemmas. -/
theorem Adv.nodesLe {prog : List CompSpec} {to : Bool} {a s : SSt} (h : Adv prog a s)
    (ia : Inv prog to a) (is : Inv prog to s) (ga : Good prog a) (gs : Good prog s) :
    NodesLe a s where
  prog_eq := is.prog_eq.trans ia.prog_eq.symm
  len := is.nodes_len.trans ia.nodes_len.symm
  prep i hd := h.done (p := true) ia ga gs (prepL_done_lt hd) (by simpa [runAt] using hd)
  start i hd := h.done (p := false) ia ga gs (startL_done_lt hd) (by simpa [runAt] using hd)

/-- Either the successor of `a` is still below `s`, or `s` sits at the moved coordinate exactly
where `a` does. -/
theorem Adv.step {prog : List CompSpec} {a a' s : SSt} {i : Nat} {p : Bool} {c : CompSpec}
    {r' : Run} (h : Adv prog a s) (ga : Good prog a) (gs : Good prog s)
    (m : QMove prog a a' i p c r') :
    Adv prog a' s ∨ runAt s.nodes i p = runAt a.nodes i p := by
  have hr := m.pm.rem_eq
  have hle := h.rem_le i c p m.hc
  by_cases hlt : rem (scriptAt c p) (runAt s.nodes i p) ≤ rem (scriptAt c p) r'
  · left
    refine ⟨by rw [m.ctor]; exact h.ctor, ?_⟩
    intro j cj q hcj
    rw [m.runAt']
    by_cases hjq : j = i ∧ q = p
    · obtain ⟨rfl, rfl⟩ := hjq
      have : cj = c := by have := m.hc; rw [hcj] at this; exact Option.some.inj this
      subst this
      simpa using hlt
    · simp only [hjq, if_false]; exact h.rem_le j cj q hcj
  · right
    exact rem_inj (gs.valid i c p m.hc) (ga.valid i c p m.hc) (by omega)

/-! ### `start()` only begins after `prepare()` is out of the way -/

theorem start_prep {prog : List CompSpec} {to : Bool} {ls : List Lab} {s : SSt}
    (h : Exec (SSt.init prog to) ls s) :
    ∀ i, startL s.nodes i ≠ .notBegun → s.prepFinished i = true := by
  refine exec_invariant (P := fun s => ∀ i, startL s.nodes i ≠ .notBegun → s.prepFinished i = true)
    ?_ ?_ h
  · intro i hne; simp [SSt.init, startL_init] at hne
  · intro ls s l s' _ ih hs i hne
    by_cases h0 : startL s.nodes i = .notBegun
    · rcases (step?_runStep hs i).2.of_notBegun h0 with h1 | rfl
      · exact absurd h1 hne
      · obtain ⟨c, n, acts, _, _, _, _, _, _, _, hpf, _⟩ := step?_startBegin hs
        exact (NodesLe.of_step hs).prepFinished hpf
    · exact (NodesLe.of_step hs).prepFinished (ih i h0)

theorem prep_not_running {prog : List CompSpec} {to : Bool} {s : SSt} (is : Inv prog to s) {i : Nat}
    (h : s.prepFinished i = true) : ∀ r b, prepL s.nodes i ≠ .running r b := by
  intro r b he
  obtain ⟨c, hc, _, hd⟩ := St.prepFinished_iff.mp h
  rcases hd with hd | hd
  · rw [is.prog_eq] at hc
    rw [is.prep_notBegun_of_none hc hd] at he; cases he
  · rw [hd] at he; cases he

/-- In a reachable state a running coordinate is the current phase. -/
theorem cur_of_runAt' {prog : List CompSpec} {to : Bool} {s : SSt} (is : Inv prog to s)
    (sp : ∀ i, startL s.nodes i ≠ .notBegun → s.prepFinished i = true)
    {i : Nat} {p : Bool} {rest : List Act} {b : Option Key}
    (h : runAt s.nodes i p = .running rest b) : s.current i = some (phOf p, rest, b) := by
  apply cur_of_runAt h
  intro hp
  subst hp
  apply prep_not_running is
  apply sp
  simp [runAt] at h
  simp [h]

/-! ### enabledness: the converses of the inversion lemmas -/

def progLab : Lab → Bool
  | .timeoutFired | .cancelSeen _ | .instantOver | .tdRun _ | .failed _ _ | .ctorFailed _
  | .raised _ => false
  | _ => true

theorem live_of_none {s : SSt} (h : s.result = none) : s.live = true := by
  simp [SSt.live, h]

theorem en_construct {s : SSt} {c : CompSpec} (hr : s.reported = false) (hres : s.result = none)
    (hc : s.spec? s.constructed = some c) (hf : c.ctorFails = false) :
    ∃ s', step? s (.construct s.constructed) = some s' := by
  simp [step?, hr, hres, hc, hf]

theorem en_prepBegin {s : SSt} {i : Nat} {c : CompSpec} {n : NodeSt} {acts : List Act}
    (hr : s.reported = false) (hl : s.live = true) (hc : s.spec? i = some c)
    (hn : s.node? i = some n) (ha : c.prepare = some acts) (hac : s.allConstructed = true)
    (hp : n.prep = .notBegun) (hre : s.reached s.fuel i = true) :
    ∃ s', step? s (.prepBegin i) = some s' := by
  simp [step?, hr, hl, hc, hn, ha, hac, hp, hre]

theorem en_prepEnd {s : SSt} {i : Nat} {n : NodeSt}
    (hr : s.reported = false) (hl : s.live = true) (hn : s.node? i = some n)
    (hp : n.prep = .running [] none) : ∃ s', step? s (.prepEnd i) = some s' := by
  simp [step?, hr, hl, hn, hp]

theorem en_startBegin {s : SSt} {i : Nat} {c : CompSpec} {n : NodeSt} {acts : List Act}
    (hr : s.reported = false) (hl : s.live = true) (hc : s.spec? i = some c)
    (hn : s.node? i = some n) (ha : c.start = some acts) (hac : s.allConstructed = true)
    (hp : n.start = .notBegun) (hpf : s.prepFinished i = true) (hre : s.reached s.fuel i = true)
    (hch : c.children.all (fun ch => s.subtreeDone s.fuel ch) = true) :
    ∃ s', step? s (.startBegin i) = some s' := by
  simp only [List.all_eq_true] at hch
  simp [step?, hr, hl, hc, hn, ha, hac, hp, hpf, hre]
  exact hch

theorem en_startEnd {s : SSt} {i : Nat} {n : NodeSt}
    (hr : s.reported = false) (hl : s.live = true) (hn : s.node? i = some n)
    (hp : n.start = .running [] none) : ∃ s', step? s (.startEnd i) = some s' := by
  simp [step?, hr, hl, hn, hp]

theorem en_pub {s : SSt} {i : Nat} {c : CompSpec} {ph : StartPhase} {ty : TypeId} {name : String}
    {v : Nat} {rest : List Act} (hr : s.reported = false) (hl : s.live = true)
    (hc : s.spec? i = some c) (hcur : s.current i = some (ph, .publish ty name v :: rest, none))
    (hk : acontains ⟨ty, publishName (phaseOf ph) c.dflt name⟩ s.res = false) :
    ∃ s', step? s (.pub i ty name v) = some s' := by
  simp [step?, hr, hl, hc, hcur, hk]

theorem en_pubFac {s : SSt} {i : Nat} {c : CompSpec} {ph : StartPhase} {ty : TypeId} {name : String}
    {fid : Nat} {rest : List Act} (hr : s.reported = false) (hl : s.live = true)
    (hc : s.spec? i = some c) (hcur : s.current i = some (ph, .publishFactory ty name fid :: rest, none))
    (hk : acontains ⟨ty, publishName (phaseOf ph) c.dflt name⟩ s.fac = false) :
    ∃ s', step? s (.pubFac i ty name fid) = some s' := by
  simp [step?, hr, hl, hc, hcur, hk]

theorem en_req {s : SSt} {i : Nat} {ph : StartPhase} {k : Key} {rest : List Act}
    (hr : s.reported = false) (hl : s.live = true)
    (hcur : s.current i = some (ph, .await k.ty k.name :: rest, none)) :
    ∃ s', step? s (.req i k) = some s' := by
  simp [step?, hr, hl, hcur]

theorem en_got {s s1 : SSt} {i : Nat} {ph : StartPhase} {ty : TypeId} {name : String} {k : Key}
    {v : Val} {rest : List Act} (hr : s.reported = false) (hl : s.live = true)
    (hcur : s.current i = some (ph, .await ty name :: rest, some k))
    (hlk : s.lookup k = some (v, s1)) : ∃ s', step? s (.got i k v) = some s' := by
  simp [step?, hr, hl, hcur, hlk]

theorem en_gotOpt {s : SSt} {i : Nat} {ph : StartPhase} {k : Key} {rest : List Act}
    (hr : s.reported = false) (hl : s.live = true)
    (hcur : s.current i = some (ph, .awaitOpt k.ty k.name :: rest, none)) :
    ∃ v s', step? s (.gotOpt i k v) = some s' := by
  cases hlk : s.lookup k with
  | none => exact ⟨none, by simp [step?, hr, hl, hcur, hlk]⟩
  | some x => obtain ⟨v, s1⟩ := x; exact ⟨some v, by simp [step?, hr, hl, hcur, hlk]⟩

theorem en_tick {s : SSt} {i : Nat} {ph : StartPhase} {d : Nat} {rest : List Act}
    (hr : s.reported = false) (hl : s.live = true)
    (hcur : s.current i = some (ph, .tick d :: rest, none)) :
    ∃ s', step? s (.tick i) = some s' := by
  simp [step?, hr, hl, hcur]

theorem en_regTd {s : SSt} {i id : Nat} {ph : StartPhase} {rest : List Act}
    (hr : s.reported = false) (hl : s.live = true)
    (hcur : s.current i = some (ph, .regTd id :: rest, none)) :
    ∃ s', step? s (.regTd i id) = some s' := by
  simp [step?, hr, hl, hcur]

theorem en_returned {s : SSt} (hr : s.reported = false) (hres : s.result = none)
    (hac : s.allConstructed = true) (hd : s.subtreeDone s.fuel 0 = true) :
    ∃ s', step? s .returned = some s' := by
  simp [step?, hr, hres, hac, hd]

/-! ### publications never collide when all published keys are distinct -/

/-- The key an action publishes under. -/
def actKey (c : CompSpec) (p : Bool) : Act → Option Key
  | .publish ty name _ => some (pkey c p ty name)
  | .publishFactory ty name _ => some (pkey c p ty name)
  | _ => none

/-- Two occurrences of publications under the same key are the same occurrence. -/
def KeyUniq (prog : List CompSpec) : Prop :=
  ∀ (i j : Nat) (ci cj : CompSpec) (p q : Bool) (pre1 : List Act) (x1 : Act) (post1 pre2 : List Act)
    (x2 : Act) (post2 : List Act) (k : Key),
    prog[i]? = some ci → prog[j]? = some cj →
    scriptAt ci p = some (pre1 ++ x1 :: post1) → scriptAt cj q = some (pre2 ++ x2 :: post2) →
    actKey ci p x1 = some k → actKey cj q x2 = some k → i = j ∧ p = q ∧ pre1 = pre2

/-- The key of the head publication of a phase has not been used by a performed publication. -/
theorem head_free {prog : List CompSpec} (hu : KeyUniq prog) {s : SSt} (gs : Good prog s)
    {i : Nat} {c : CompSpec} {p : Bool} {x : Act} {rest : List Act} {k : Key}
    (hc : prog[i]? = some c) (hr : runAt s.nodes i p = .running (x :: rest) none)
    (hx : isAwait x = false) (hk : actKey c p x = some k)
    {j : Nat} {cj : CompSpec} {q : Bool} {pre' : List Act} {x' : Act} {post' : List Act}
    (hp : Perf prog s.nodes j cj q pre' x' post') (hk' : actKey cj q x' = some k) :
    x' = x ∧ False := by
  have hv := gs.valid i c p hc
  rw [hr] at hv
  obtain ⟨acts, pre, e1, e2, _⟩ := hv
  obtain ⟨h1, h2, h3⟩ := hp
  obtain ⟨rfl, rfl, rfl⟩ := hu i j c cj p q pre x rest pre' x' post' k hc h1 (by rw [e1, e2]) h2 hk hk'
  have : cj = c := by rw [hc] at h1; exact (Option.some.inj h1).symm
  subst this
  rw [e1, e2] at h2
  have h4 := List.append_cancel_left (Option.some.inj h2)
  simp only [List.cons.injEq] at h4
  obtain ⟨rfl, rfl⟩ := h4
  rw [hr, rem_head hx] at h3
  exact ⟨rfl, by omega⟩

theorem acontains_false_of_not_mem {κ α : Type} [DecidableEq κ] {k : κ} {l : List (κ × α)}
    (h : k ∉ akeys l) : acontains k l = false := by
  unfold acontains
  rw [(alookup_none_iff k l).mpr h]; rfl

/-! ### transferring an enabled label to a more advanced state -/

theorem node_of_lt {s : SSt} {i : Nat} (hi : i < s.nodes.length) :
    ∃ n, s.node? i = some n ∧ s.nodes[i]? = some n :=
  ⟨s.nodes[i], List.getElem?_eq_getElem hi, List.getElem?_eq_getElem hi⟩

/-- If `l` is enabled in `a` (apart from "no outcome"), `s` is at least as advanced as `a` and sits
at the coordinate moved by `l` exactly where `a` does, then a label of the same kind is enabled
in `s`. -/
theorem guard_enabled {prog : List CompSpec} {to : Bool} (hu : KeyUniq prog) {a s : SSt}
    (ia : Inv prog to a) (is : Inv prog to s) (ga : Good prog a) (gs : Good prog s)
    (sp : ∀ i, startL s.nodes i ≠ .notBegun → s.prepFinished i = true)
    (hres : s.result = none) (hadv : Adv prog a s) {i : Nat} {p : Bool} {c : CompSpec} {l : Lab}
    (hc : prog[i]? = some c) (hi : i < a.nodes.length) (hg : Guard a i p c l)
    (he : runAt s.nodes i p = runAt a.nodes i p) :
    ∃ l' s', progLab l' = true ∧ step? s l' = some s' := by
  have hrep := gs.rep
  have hl := live_of_none hres
  have hle := hadv.nodesLe ia is ga gs
  have his : i < s.nodes.length := by rw [hle.len]; exact hi
  have hcs : s.spec? i = some c := by unfold SSt.spec?; rw [is.prog_eq]; exact hc
  have hfuel : s.fuel = a.fuel := by unfold SSt.fuel; rw [hle.prog_eq]
  have hall : a.allConstructed = true → s.allConstructed = true := by
    intro h
    have h1 : a.constructed = a.prog.length := by simpa [SSt.allConstructed] using h
    have h2 := hadv.ctor
    have h3 := is.ctor_le
    have h4 := ia.prog_eq
    have h5 := is.prog_eq
    simp [SSt.allConstructed]
    rw [h5]; rw [h4] at h1; omega
  obtain ⟨n, hn, hn'⟩ := node_of_lt his
  cases l with
  | prepBegin j =>
    obtain ⟨rfl, rfl, h1, h2, h3, acts, h4⟩ := hg
    rw [h3, runAt_prep hn'] at he
    obtain ⟨s', hs⟩ := en_prepBegin hrep hl hcs hn h4 (hall h1) he (by rw [hfuel]; exact hle.reached h2)
    exact ⟨_, s', rfl, hs⟩
  | prepEnd j =>
    obtain ⟨rfl, rfl, h3⟩ := hg
    rw [h3, runAt_prep hn'] at he
    obtain ⟨s', hs⟩ := en_prepEnd hrep hl hn he
    exact ⟨_, s', rfl, hs⟩
  | startBegin j =>
    obtain ⟨rfl, rfl, h1, h2, h3, h4, h5, acts, h6⟩ := hg
    rw [h5, runAt_start hn'] at he
    have hch : c.children.all (fun ch => s.subtreeDone s.fuel ch) = true := by
      simp only [List.all_eq_true] at h4 ⊢
      intro ch hch
      rw [hfuel]; exact hle.subtreeDone (h4 ch hch)
    obtain ⟨s', hs⟩ := en_startBegin hrep hl hcs hn h6 (hall h1) he (hle.prepFinished h2)
      (by rw [hfuel]; exact hle.reached h3) hch
    exact ⟨_, s', rfl, hs⟩
  | startEnd j =>
    obtain ⟨rfl, rfl, h3⟩ := hg
    rw [h3, runAt_start hn'] at he
    obtain ⟨s', hs⟩ := en_startEnd hrep hl hn he
    exact ⟨_, s', rfl, hs⟩
  | pub j ty name v =>
    obtain ⟨rfl, rest, h3⟩ := hg
    rw [h3] at he
    have hcur := cur_of_runAt' is sp he
    have hfree : pkey c p ty name ∉ akeys s.res := by
      intro hm
      rcases gs.res_occ _ hm with ⟨j', cj, q, pre', ty', name', v', post', hp, e⟩ | hf
      · exact (head_free hu gs hc he rfl rfl hp (by simp [actKey, e])).2
      · obtain ⟨j', cj, q, pre', ty', name', fid', post', hp, e⟩ := gs.fac_occ _ hf
        exact (head_free hu gs hc he rfl rfl hp (by simp [actKey, e])).2
    obtain ⟨s', hs⟩ := en_pub hrep hl hcs hcur (acontains_false_of_not_mem hfree)
    exact ⟨_, s', rfl, hs⟩
  | pubFac j ty name fid =>
    obtain ⟨rfl, rest, h3⟩ := hg
    rw [h3] at he
    have hcur := cur_of_runAt' is sp he
    have hfree : pkey c p ty name ∉ akeys s.fac := by
      intro hf
      obtain ⟨j', cj, q, pre', ty', name', fid', post', hp, e⟩ := gs.fac_occ _ hf
      exact (head_free hu gs hc he rfl rfl hp (by simp [actKey, e])).2
    obtain ⟨s', hs⟩ := en_pubFac hrep hl hcs hcur (acontains_false_of_not_mem hfree)
    exact ⟨_, s', rfl, hs⟩
  | req j k =>
    obtain ⟨rfl, rest, h3⟩ := hg
    rw [h3] at he
    obtain ⟨s', hs⟩ := en_req hrep hl (cur_of_runAt' is sp he)
    exact ⟨_, s', rfl, hs⟩
  | got j k v =>
    obtain ⟨rfl, hav, ty, name, rest, h3⟩ := hg
    rw [h3] at he
    obtain ⟨v', s1, hlk⟩ := lookup_some_of_avail (hadv.avail ga gs hav)
    obtain ⟨s', hs⟩ := en_got hrep hl (cur_of_runAt' is sp he) hlk
    exact ⟨_, s', rfl, hs⟩
  | gotOpt j k v =>
    obtain ⟨rfl, rest, h3⟩ := hg
    rw [h3] at he
    obtain ⟨v', s', hs⟩ := en_gotOpt hrep hl (cur_of_runAt' is sp he)
    exact ⟨_, s', rfl, hs⟩
  | tick j =>
    obtain ⟨rfl, d, rest, h3⟩ := hg
    rw [h3] at he
    obtain ⟨s', hs⟩ := en_tick hrep hl (cur_of_runAt' is sp he)
    exact ⟨_, s', rfl, hs⟩
  | regTd j id =>
    obtain ⟨rfl, rest, h3⟩ := hg
    rw [h3] at he
    obtain ⟨s', hs⟩ := en_regTd hrep hl (cur_of_runAt' is sp he)
    exact ⟨_, s', rfl, hs⟩
  | _ => exact hg.elim

/-- One step of the completing run: either it stays below `s`, or it can be replayed in `s`. -/
theorem transfer {prog : List CompSpec} {to : Bool} (hu : KeyUniq prog) {a a' s : SSt} {l : Lab}
    (ia : Inv prog to a) (is : Inv prog to s) (ga : Good prog a) (gs : Good prog s)
    (sp : ∀ i, startL s.nodes i ≠ .notBegun → s.prepFinished i = true)
    (hres : s.result = none) (hadv : Adv prog a s) (h : step? a l = some a')
    (hres' : a'.result = none) :
    (∃ l' s', progLab l' = true ∧ step? s l' = some s') ∨ Adv prog a' s := by
  rcases step_move ia ga.rep h hres' with ⟨hc1, hn, _, _, c, hc, hcf⟩ | ⟨i, p, c, r', hg, m⟩
  · by_cases hlt : a.constructed + 1 ≤ s.constructed
    · right
      exact ⟨by rw [hc1]; exact hlt, by rw [hn]; exact hadv.rem_le⟩
    · left
      have he : s.constructed = a.constructed := by have := hadv.ctor; omega
      have hcs : s.spec? s.constructed = some c := by
        unfold SSt.spec?; rw [is.prog_eq, he]; exact hc
      obtain ⟨s', hs⟩ := en_construct gs.rep hres hcs hcf
      exact ⟨_, s', rfl, hs⟩
  · rcases hadv.step ga gs m with h1 | h1
    · exact .inr h1
    · exact .inl (guard_enabled hu ia is ga gs sp hres hadv m.hc m.hi hg h1)

/-- The first-difference argument along the completing run. -/
theorem core {prog : List CompSpec} {to : Bool} (hu : KeyUniq prog) {s : SSt}
    (is : Inv prog to s) (gs : Good prog s)
    (sp : ∀ i, startL s.nodes i ≠ .notBegun → s.prepFinished i = true) (hres : s.result = none)
    {a s1 : SSt} {suf : List Lab} (h : Exec a suf s1) :
    s1.result = none → ∀ pre, Exec (SSt.init prog to) pre a → Adv prog a s →
      (∃ l' s', progLab l' = true ∧ step? s l' = some s') ∨ Adv prog s1 s := by
  induction h with
  | nil a => intro _ _ _ hadv; exact .inr hadv
  | cons a a' s1 l ls hs hrest ih =>
    intro hres1 pre hpre hadv
    have hres' : a'.result = none := result_none_of_exec hrest hres1
    have hresa : a.result = none := result_none_of_step hs hres'
    rcases transfer hu (inv_of_exec hpre) is (good_of_exec hpre hresa) gs sp hres hadv hs hres' with
      h1 | h1
    · exact .inl h1
    · exact ih hres1 (pre ++ [l]) (exec_snoc hpre hs) h1

/-- A run that returns contains the step `returned`. -/
theorem returned_step {s0 : SSt} {ls : List Lab} {s : SSt} (h : Exec s0 ls s)
    (h0 : s0.result = none) (hr : s.result = some .returned) :
    ∃ ls1 s1 s2, Exec s0 ls1 s1 ∧ step? s1 .returned = some s2 := by
  refine exec_snoc_induction
    (motive := fun _ s => s.result = some .returned →
      ∃ ls1 s1 s2, Exec s0 ls1 s1 ∧ step? s1 .returned = some s2) ?_ ?_ h hr
  · intro hr; rw [h0] at hr; cases hr
  · intro ls s l s' hex ih hs hr'
    by_cases hne : s.result = some .returned
    · exact ih hne
    · have hs' := hs
      cases Step.of_step? hs
      case returned => exact ⟨ls, s, _, hex, hs'⟩
      all_goals first
        | (simp at hr'; done)
        | exact absurd (by simpa using hr') hne

theorem no_deadlock_core {prog : List CompSpec} {to : Bool} (hu : KeyUniq prog)
    (hcomplete : ∃ ls₀ s₀, Exec (SSt.init prog to) ls₀ s₀ ∧ s₀.result = some .returned)
    {ls : List Lab} {s : SSt} (h : Exec (SSt.init prog to) ls s) (hres : s.result = none) :
    ∃ l s', progLab l = true ∧ step? s l = some s' := by
  obtain ⟨ls0, s0, hex0, hr0⟩ := hcomplete
  obtain ⟨ls1, s1, s2, hex1, hret⟩ := returned_step hex0 rfl hr0
  obtain ⟨hrep1, hres1, hac1, hd1, _⟩ := step?_returned hret
  have is := inv_of_exec h
  have gs := good_of_exec h hres
  rcases core hu is gs (start_prep h) hres hex1 hres1 [] (.nil _) (adv_init gs) with h1 | hadv
  · exact h1
  · have i1 := inv_of_exec hex1
    have g1 := good_of_exec hex1 hres1
    have hle := hadv.nodesLe i1 is g1 gs
    have hfuel : s.fuel = s1.fuel := by unfold SSt.fuel; rw [hle.prog_eq]
    have hall : s.allConstructed = true := by
      have h1 : s1.constructed = s1.prog.length := by simpa [SSt.allConstructed] using hac1
      have h2 := hadv.ctor
      have h3 := is.ctor_le
      have h4 := i1.prog_eq
      have h5 := is.prog_eq
      simp [SSt.allConstructed]
      rw [h5]; rw [h4] at h1; omega
    obtain ⟨s', hs⟩ := en_returned gs.rep hres hall (by rw [hfuel]; exact hle.subtreeDone hd1)
    exact ⟨_, s', rfl, hs⟩

/-! ### `KeyUniq` from the distinctness of the list of published keys -/

def phaseKeys' (c : CompSpec) (p : Bool) : List Key :=
  match scriptAt c p with
  | none => []
  | some acts => acts.filterMap (actKey c p)

def pubKeys (prog : List CompSpec) : List Key :=
  prog.flatMap fun c => phaseKeys' c true ++ phaseKeys' c false

theorem nodup_flatMap_idx {α β : Type} {f : α → List β} {l : List α} (h : (l.flatMap f).Nodup)
    {i j : Nat} {x y : α} {k : β} (hi : l[i]? = some x) (hj : l[j]? = some y) (hx : k ∈ f x)
    (hy : k ∈ f y) : i = j := by
  induction l generalizing i j with
  | nil => simp at hi
  | cons a l ih =>
    rw [List.flatMap_cons, List.nodup_append] at h
    obtain ⟨_, h2, h3⟩ := h
    cases i with
    | zero =>
      cases j with
      | zero => rfl
      | succ j =>
        simp only [List.getElem?_cons_zero, Option.some.injEq] at hi
        simp only [List.getElem?_cons_succ] at hj
        subst hi
        exact absurd rfl (h3 k hx k (List.mem_flatMap.mpr ⟨y, List.mem_of_getElem? hj, hy⟩))
    | succ i =>
      cases j with
      | zero =>
        simp only [List.getElem?_cons_zero, Option.some.injEq] at hj
        simp only [List.getElem?_cons_succ] at hi
        subst hj
        exact absurd rfl (h3 k hy k (List.mem_flatMap.mpr ⟨x, List.mem_of_getElem? hi, hx⟩))
      | succ j =>
        simp only [List.getElem?_cons_succ] at hi hj
        rw [ih h2 hi hj]

theorem nodup_flatMap_elem {α β : Type} {f : α → List β} {l : List α} (h : (l.flatMap f).Nodup)
    {x : α} (hx : x ∈ l) : (f x).Nodup := by
  induction l with
  | nil => simp at hx
  | cons a l ih =>
    rw [List.flatMap_cons, List.nodup_append] at h
    rcases List.mem_cons.mp hx with rfl | hx
    · exact h.1
    · exact ih h.2.1 hx

theorem nodup_filterMap_pos {α β : Type} {g : α → Option β} {pre1 pre2 post1 post2 : List α}
    {x1 x2 : α} {k : β} (h : ((pre1 ++ x1 :: post1).filterMap g).Nodup)
    (e : pre1 ++ x1 :: post1 = pre2 ++ x2 :: post2) (h1 : g x1 = some k) (h2 : g x2 = some k) :
    pre1 = pre2 := by
  have key : ∀ {pre post post' : List α} {x x' y : α} {as : List α},
      ((pre ++ x :: post).filterMap g).Nodup → g x = some k → g x' = some k →
      x :: post = (y :: as) ++ x' :: post' → False := by
    intro pre post post' x x' y as hn hx hx' he
    simp only [List.cons_append, List.cons.injEq] at he
    obtain ⟨rfl, rfl⟩ := he
    simp only [List.filterMap_append, List.filterMap_cons, hx, hx', List.nodup_append,
      List.nodup_cons, List.mem_append, List.mem_cons] at hn
    simp at hn
  rcases List.append_eq_append_iff.mp e with ⟨as, ha1, ha2⟩ | ⟨bs, hb1, hb2⟩
  · cases as with
    | nil => simpa using ha1.symm
    | cons y as => exact (key (pre := pre1) h h1 h2 ha2).elim
  · cases bs with
    | nil => simpa using hb1
    | cons y bs =>
      rw [e] at h
      exact (key (pre := pre2) h h2 h1 hb2).elim

theorem mem_phaseKeys' {c : CompSpec} {p : Bool} {pre post : List Act} {x : Act} {k : Key}
    (hs : scriptAt c p = some (pre ++ x :: post)) (hk : actKey c p x = some k) :
    k ∈ phaseKeys' c p := by
  unfold phaseKeys'
  rw [hs]
  exact List.mem_filterMap.mpr ⟨x, by simp, hk⟩

theorem keyUniq_of_nodup {prog : List CompSpec} (h : (pubKeys prog).Nodup) : KeyUniq prog := by
  intro i j ci cj p q pre1 x1 post1 pre2 x2 post2 k hi hj hs1 hs2 hk1 hk2
  have m1 := mem_phaseKeys' hs1 hk1
  have m2 := mem_phaseKeys' hs2 hk2
  have hmem : ∀ {c : CompSpec} {p : Bool}, k ∈ phaseKeys' c p →
      k ∈ phaseKeys' c true ++ phaseKeys' c false := by
    intro c p hm
    cases p
    · exact List.mem_append.mpr (.inr hm)
    · exact List.mem_append.mpr (.inl hm)
  have hij : i = j := nodup_flatMap_idx (f := fun c => phaseKeys' c true ++ phaseKeys' c false)
    h hi hj (hmem m1) (hmem m2)
  subst hij
  have : cj = ci := by rw [hi] at hj; exact (Option.some.inj hj).symm
  subst this
  have hnd := nodup_flatMap_elem (f := fun c => phaseKeys' c true ++ phaseKeys' c false) h
    (List.mem_of_getElem? hi)
  simp only [List.nodup_append] at hnd
  obtain ⟨n1, n2, n3⟩ := hnd
  have hpq : p = q := by
    cases p <;> cases q
    · rfl
    · exact absurd rfl (n3 k m2 k m1)
    · exact absurd rfl (n3 k m1 k m2)
    · rfl
  subst hpq
  refine ⟨rfl, rfl, ?_⟩
  have hn : (phaseKeys' cj p).Nodup := by cases p <;> assumption
  unfold phaseKeys' at hn
  rw [hs1] at hs2
  rw [hs1] at hn
  exact nodup_filterMap_pos hn (Option.some.inj hs2) hk1 hk2

/-! ### the potential: outcome-free runs are bounded -/

def nodeRem (c : CompSpec) (n : NodeSt) : Nat := rem c.prepare n.prep + rem c.start n.start

def potL : List CompSpec → List NodeSt → Nat
  | c :: cs, n :: ns => nodeRem c n + potL cs ns
  | _, _ => 0

/-- Labels still to come before `returned`. -/
def pot (prog : List CompSpec) (s : SSt) : Nat := (prog.length - s.constructed) + potL prog s.nodes

def progB (prog : List CompSpec) : Nat :=
  (prog.map fun c => 1 + phaseB c.prepare + phaseB c.start).sum + 1

theorem potL_setRun {c : CompSpec} {p : Bool} {r' : Run} :
    ∀ (cs : List CompSpec) (ns : List NodeSt) (i : Nat), cs[i]? = some c → i < ns.length →
      rem (scriptAt c p) r' + 1 = rem (scriptAt c p) (runAt ns i p) →
      potL cs (setRun ns i p r') + 1 = potL cs ns := by
  intro cs
  induction cs with
  | nil => intro ns i h; simp at h
  | cons c0 cs ih =>
    intro ns i hc hi hr
    cases ns with
    | nil => simp at hi
    | cons n0 ns =>
      cases i with
      | zero =>
        simp only [List.getElem?_cons_zero, Option.some.injEq] at hc
        subst hc
        cases p
        · simp [setRun, runAt, startL, scriptAt] at hr ⊢
          simp only [potL, nodeRem]
          omega
        · simp [setRun, runAt, prepL, scriptAt] at hr ⊢
          simp only [potL, nodeRem]
          omega
      | succ i =>
        simp only [List.getElem?_cons_succ] at hc
        have hi' : i < ns.length := by simpa using hi
        have hr' : rem (scriptAt c p) r' + 1 = rem (scriptAt c p) (runAt ns i p) := by
          cases p <;> simpa [runAt, prepL, startL] using hr
        have hset : setRun (n0 :: ns) (i + 1) p r' = n0 :: setRun ns i p r' := by
          simp only [setRun, List.getElem?_cons_succ]
          cases hn : ns[i]? <;> simp
        rw [hset]
        simp only [potL]
        have := ih ns i hc hi' hr'
        omega

theorem pot_step {prog : List CompSpec} {to : Bool} {a a' : SSt} {l : Lab} (ia : Inv prog to a)
    (ga : Good prog a) (h : step? a l = some a') (hres : a'.result = none) :
    pot prog a' + 1 = pot prog a := by
  rcases step_move ia ga.rep h hres with ⟨hc1, hn, _, _, c, hc, _⟩ | ⟨i, p, c, r', _, m⟩
  · have hlt : a.constructed < prog.length := (List.getElem?_eq_some_iff.mp hc).1
    simp only [pot, hc1, hn]
    omega
  · have := potL_setRun prog a.nodes i m.hc m.hi m.pm.rem_eq
    simp only [pot, m.ctor, m.nodes]
    omega

theorem potL_init (prog : List CompSpec) :
    potL prog (prog.map fun _ => (⟨.notBegun, .notBegun⟩ : NodeSt)) + prog.length + 1 = progB prog := by
  unfold progB
  induction prog with
  | nil => simp [potL]
  | cons c cs ih =>
    simp only [List.map_cons, potL, nodeRem, rem, List.sum_cons, List.length_cons]
    omega

theorem pot_init (prog : List CompSpec) (to : Bool) : pot prog (SSt.init prog to) + 1 = progB prog := by
  have := potL_init prog
  simp only [pot, SSt.init]
  omega

/-- Every label of an outcome-free run uses up one unit of the potential. -/
theorem bounded_core {prog : List CompSpec} {to : Bool} {ls : List Lab} {s : SSt}
    (h : Exec (SSt.init prog to) ls s) (hres : s.result = none) :
    ls.length + pot prog s + 1 = progB prog := by
  refine exec_snoc_induction
    (motive := fun ls s => s.result = none → ls.length + pot prog s + 1 = progB prog) ?_ ?_ h hres
  · intro _; simpa using pot_init prog to
  · intro ls s l s' hex ih hs hres'
    have hr := result_none_of_step hs hres'
    have := pot_step (inv_of_exec hex) (good_of_exec hex hr) hs hres'
    have := ih hr
    simp only [List.length_append, List.length_singleton]
    omega

end Dl
end Asphalt
