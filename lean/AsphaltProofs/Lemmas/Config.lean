/-
Helper lemmas for the configuration properties C14 (`_init_component`) and C16
(`asphalt run`). The property theorems themselves are in `Props/C14.lean` and
`Props/C16.lean`.
-/
import AsphaltModel.Config
import AsphaltProofs.Lemmas.Assoc
import AsphaltProofs.Props.C17

namespace Asphalt

/-! ### `mergedValue` -/

theorem mergedValue_none_right (o : Option Cfg) : mergedValue o none = o := by
  cases o with
  | none => rfl
  | some c => cases c <;> rfl

theorem mergedValue_atom_right (o : Option Cfg) (a : Atom) :
    mergedValue o (some (.atom a)) = some (.atom a) := by
  cases o with
  | none => rfl
  | some c => cases c <;> rfl

/-! ### service names -/

theorem truthyName_some (o : String) (h : o ≠ "") : truthyName (some o) = some o := by
  unfold truthyName
  split
  · rename_i heq
    exact absurd (Option.some.inj heq) h
  · rfl

/-! ### `setPath` -/

/-- Inversion of a successful `setPath` along a path of at least two keys. -/
theorem setPath_cons_cons_ok (k k2 : String) (ks : List String) (v : Cfg) (d d' : Dict)
    (h : setPath (k :: k2 :: ks) v d = .ok d') :
    ∃ sub sub', (alookup k d = none ∧ sub = [] ∨ alookup k d = some (.dict sub)) ∧
      setPath (k2 :: ks) v sub = .ok sub' ∧ d' = ainsert k (.dict sub') d := by
  rw [setPath] at h
  split at h
  · rename_i hl
    cases hs : setPath (k2 :: ks) v [] with
    | error e => rw [hs] at h; cases h
    | ok sub' =>
      rw [hs] at h
      refine ⟨[], sub', Or.inl ⟨hl, rfl⟩, hs, ?_⟩
      cases h; rfl
  · rename_i sub hl
    cases hs : setPath (k2 :: ks) v sub with
    | error e => rw [hs] at h; cases h
    | ok sub' =>
      rw [hs] at h
      refine ⟨sub, sub', Or.inr hl, hs, ?_⟩
      cases h; rfl
  · cases h

/-! ### `initTree`: the `type` key -/

theorem componentsOf_ainsert_type (ty : Cfg) (config : Dict) :
    componentsOf (ainsert "type" ty config) = componentsOf config := by
  unfold componentsOf
  rw [alookup_ainsert_other _ _ _ _ (by decide)]

theorem alookup_type_erase_components_ainsert (ty : Cfg) (config : Dict) :
    alookup "type" (aerase "components" (ainsert "type" ty config)) = some ty := by
  rw [alookup_aerase_other _ _ _ (by decide), alookup_ainsert_same]

/-! ### `beforeSlash` / `afterSlash`: `takeWhile` / `dropWhile` up to a character -/

theorem takeWhile_append_of_not_mem (c : Char) (l r : List Char) (h : c ∉ l) :
    (l ++ c :: r).takeWhile (· ≠ c) = l := by
  induction l with
  | nil => simp only [List.nil_append, List.takeWhile_cons, ne_eq, not_true_eq_false,
      decide_false, Bool.false_eq_true, if_false]
  | cons x l ih =>
    have hx : decide (x ≠ c) = true := decide_eq_true fun e => h (e ▸ List.mem_cons_self)
    have hl : c ∉ l := fun hm => h (List.mem_cons_of_mem _ hm)
    simp only [List.cons_append, List.takeWhile_cons, hx, if_true, ih hl]

theorem dropWhile_append_of_not_mem (c : Char) (l r : List Char) (h : c ∉ l) :
    (l ++ c :: r).dropWhile (· ≠ c) = c :: r := by
  induction l with
  | nil => simp only [List.nil_append, List.dropWhile_cons, ne_eq, not_true_eq_false,
      decide_false, Bool.false_eq_true, if_false]
  | cons x l ih =>
    have hx : decide (x ≠ c) = true := decide_eq_true fun e => h (e ▸ List.mem_cons_self)
    have hl : c ∉ l := fun hm => h (List.mem_cons_of_mem _ hm)
    simp only [List.cons_append, List.dropWhile_cons, hx, if_true, ih hl]

theorem takeWhile_of_not_mem (c : Char) (l : List Char) (h : c ∉ l) :
    l.takeWhile (· ≠ c) = l := by
  induction l with
  | nil => rfl
  | cons x l ih =>
    have hx : decide (x ≠ c) = true := decide_eq_true fun e => h (e ▸ List.mem_cons_self)
    have hl : c ∉ l := fun hm => h (List.mem_cons_of_mem _ hm)
    simp only [List.takeWhile_cons, hx, if_true, ih hl]

theorem dropWhile_of_not_mem (c : Char) (l : List Char) (h : c ∉ l) :
    l.dropWhile (· ≠ c) = [] := by
  induction l with
  | nil => rfl
  | cons x l ih =>
    have hx : decide (x ≠ c) = true := decide_eq_true fun e => h (e ▸ List.mem_cons_self)
    have hl : c ∉ l := fun hm => h (List.mem_cons_of_mem _ hm)
    simp only [List.dropWhile_cons, hx, if_true, ih hl]

/-! ### Key splitting

The escaping and joining functions are defined next to the property that uses them
(`escapePart`, `joinParts` in `Props/C16.lean`); the lemmas here are stated for any
functions `esc`, `join` satisfying their defining equations. -/

section Split

variable (esc : List Char → List Char) (join : List (List Char) → List Char)
variable (esc_nil : esc [] = [])
variable (esc_dot : ∀ p, esc ('.' :: p) = '\\' :: '.' :: esc p)
variable (esc_ne : ∀ c p, c ≠ '.' → esc (c :: p) = c :: esc p)
variable (join_one : ∀ p, join [p] = p)
variable (join_cons : ∀ p q ps, join (p :: q :: ps) = p ++ '.' :: join (q :: ps))

include esc_nil esc_dot esc_ne

/-- Scanning an escaped part never splits: it all goes to the current part. -/
theorem splitDotsAux_esc (p rest cur : List Char) (hp : '\\' ∉ p) :
    splitDotsAux (esc p ++ rest) cur = splitDotsAux rest ((esc p).reverse ++ cur) := by
  induction p generalizing cur with
  | nil => rw [esc_nil]; rfl
  | cons c p ih =>
    have hp' : '\\' ∉ p := fun h => hp (List.mem_cons_of_mem _ h)
    by_cases hd : c = '.'
    · subst hd
      rw [esc_dot, List.cons_append, List.cons_append,
        splitDotsAux.eq_4 _ _ _ (by decide), splitDotsAux.eq_2, ih _ hp']
      simp only [List.reverse_cons, List.append_assoc, List.cons_append, List.nil_append]
    · rw [esc_ne c p hd, List.cons_append, splitDotsAux.eq_4 _ _ _ hd, ih _ hp']
      simp only [List.reverse_cons, List.append_assoc, List.cons_append, List.nil_append]

/-- The last character of an escaped part is never a backslash. -/
theorem esc_reverse_ne (p : List Char) (hp : '\\' ∉ p) (tail : List Char) :
    (esc p).reverse ≠ '\\' :: tail := by
  induction p generalizing tail with
  | nil => rw [esc_nil]; intro h; cases h
  | cons c p ih =>
    have hc : c ≠ '\\' := fun e => hp (e ▸ List.mem_cons_self)
    have hp' : '\\' ∉ p := fun h => hp (List.mem_cons_of_mem _ h)
    cases p with
    | nil =>
      by_cases hd : c = '.'
      · subst hd; rw [esc_dot, esc_nil]; intro h; cases h
      · rw [esc_ne c [] hd, esc_nil]
        intro h
        exact hc (List.cons.inj h).1
    | cons c2 p =>
      intro h
      have hpre : ∃ pre, esc (c :: c2 :: p) = pre ++ esc (c2 :: p) := by
        by_cases hd : c = '.'
        · subst hd; exact ⟨['\\', '.'], by rw [esc_dot]; rfl⟩
        · exact ⟨[c], by rw [esc_ne c _ hd]; rfl⟩
      obtain ⟨pre, hpre⟩ := hpre
      rw [hpre, List.reverse_append] at h
      cases hr : (esc (c2 :: p)).reverse with
      | nil =>
        have hnil : esc (c2 :: p) = [] := List.reverse_eq_nil_iff.mp hr
        by_cases hd : c2 = '.'
        · subst hd; rw [esc_dot] at hnil; cases hnil
        · rw [esc_ne c2 p hd] at hnil; cases hnil
      | cons x xs =>
        rw [hr, List.cons_append] at h
        have hx : x = '\\' := (List.cons.inj h).1
        exact ih hp' xs (hx ▸ hr)

theorem unescapeDots_esc (p : List Char) (hp : '\\' ∉ p) : unescapeDots (esc p) = p := by
  induction p with
  | nil => rw [esc_nil]; rfl
  | cons c p ih =>
    have hc : c ≠ '\\' := fun e => hp (e ▸ List.mem_cons_self)
    have hp' : '\\' ∉ p := fun h => hp (List.mem_cons_of_mem _ h)
    by_cases hd : c = '.'
    · subst hd
      rw [esc_dot, unescapeDots.eq_1, ih hp']
    · rw [esc_ne c p hd, unescapeDots.eq_2 _ _ (fun _ h _ => hc h), ih hp']

include join_one join_cons

/-- Splitting the joined escaped parts gives the escaped parts back. -/
theorem splitDotsAux_join (ps : List (List Char)) (hne : ps ≠ [])
    (hb : ∀ p ∈ ps, '\\' ∉ p) :
    splitDotsAux (join (ps.map esc)) [] = ps.map esc := by
  induction ps with
  | nil => exact absurd rfl hne
  | cons p ps ih =>
    have hp : '\\' ∉ p := hb p List.mem_cons_self
    cases ps with
    | nil =>
      have h := splitDotsAux_esc esc esc_nil esc_dot esc_ne p [] [] hp
      rw [List.append_nil, List.append_nil] at h
      rw [List.map_cons, List.map_nil, join_one, h, splitDotsAux.eq_1, List.reverse_reverse]
    | cons q ps =>
      have ih' := ih (List.cons_ne_nil _ _) (fun r hr => hb r (List.mem_cons_of_mem _ hr))
      rw [List.map_cons] at ih'
      rw [List.map_cons, List.map_cons, join_cons,
        splitDotsAux_esc esc esc_nil esc_dot esc_ne p _ [] hp, List.append_nil,
        splitDotsAux.eq_3 _ _ (fun tail h => esc_reverse_ne esc esc_nil esc_dot esc_ne p hp tail h),
        List.reverse_reverse, ih']

/-- The round trip at the level of `splitKey`. -/
theorem splitKey_join_esc (ps : List (List Char)) (hne : ps ≠ [])
    (hb : ∀ p ∈ ps, '\\' ∉ p) :
    splitKey (String.ofList (join (ps.map esc))) = ps.map String.ofList := by
  unfold splitKey
  rw [String.toList_ofList,
    splitDotsAux_join esc join esc_nil esc_dot esc_ne join_one join_cons ps hne hb, List.map_map]
  apply List.map_congr_left
  intro p hp
  show String.ofList (unescapeDots (esc p)) = String.ofList p
  rw [unescapeDots_esc esc esc_nil esc_dot esc_ne p (hb p hp)]

end Split

end Asphalt
