/- Helper lemmas about the service-task LTS (AsphaltModel/Tasks.lean). -/
import AsphaltModel.Tasks
import AsphaltProofs.Lemmas.Assoc

namespace Asphalt
namespace Tk

set_option linter.unusedSimpArgs false

/-! ### Status look-ups -/

theorem statusOf_setStatus (s : TSt) (tid t : Nat) (st : TStatus) :
    (s.setStatus tid st).statusOf t = if tid = t then some st else s.statusOf t := by
  unfold TSt.setStatus TSt.statusOf
  by_cases h : tid = t
  · subst h; simp only [if_true]; exact alookup_ainsert_same _ _ _
  · simp only [h, if_false]; exact alookup_ainsert_other _ _ _ _ h

/-! ### The silent moves: an induction principle for `normalize` -/

theorem normalize_induct (P : TSt → Prop)
    (hpop : ∀ (s : TSt) (tid : Nat) (e : Option Nat), s.exiting = true → s.crashed = [] →
        s.waitingFor = some tid → s.statusOf tid = some (.closed e) → P s →
        P { s with waitingFor := none, stack := s.stack.filter (· != Item.fin tid) })
    (hact : ∀ (s s1 : TSt) (tid : Nat) (rest : List Item) (sp : TaskSpec), s.exiting = true →
        s.crashed = [] → s.waitingFor = none → s.stack = .fin tid :: rest → s.spec? tid = some sp →
        (sp.action = .cancel ∨ sp.action = .none_) →
        (s1 = s ∨ (sp.action = .cancel ∧
          (s.statusOf tid = some .running ∨ s.statusOf tid = some .stopAsked) ∧
          s1 = s.setStatus tid .cancelAsked)) →
        P s → P { s1 with waitingFor := some tid, acted := tid :: s1.acted }) :
    ∀ (n : Nat) (s : TSt), P s → P (TSt.normalize n s) := by
  intro n
  induction n with
  | zero => intro s h; unfold TSt.normalize; exact h
  | succ n ih =>
    intro s h
    unfold TSt.normalize
    split
    · exact h
    · rename_i hcond
      have hex : s.exiting = true := by
        cases hx : s.exiting <;> simp [hx] at hcond ⊢
      have hcr : s.crashed = [] := by
        cases hx : s.crashed <;> simp [hx] at hcond ⊢
      split
      · rename_i tid hw
        split
        · rename_i e hst
          exact ih _ (hpop s tid e hex hcr hw hst h)
        · exact h
      · rename_i hw
        split
        · rename_i tid rest hstk
          split
          · rename_i sp hsp
            split
            · rename_i hact'
              apply ih
              apply hact s _ tid rest sp hex hcr hw hstk hsp (Or.inl hact') _ h
              split
              · rename_i hst; exact Or.inr ⟨hact', Or.inl hst, rfl⟩
              · rename_i hst; exact Or.inr ⟨hact', Or.inr hst, rfl⟩
              · exact Or.inl rfl
            · rename_i hact'
              apply ih
              exact hact s s tid rest sp hex hcr hw hstk hsp (Or.inr hact') (Or.inl rfl) h
            · exact h
          · exact h
        · exact h

/-- Fields the silent moves never touch. -/
theorem normalize_frame (n : Nat) (s : TSt) :
    (s.normalize n).hist = s.hist ∧ (s.normalize n).specs = s.specs ∧
    (s.normalize n).snaps = s.snaps ∧ (s.normalize n).crashed = s.crashed := by
  refine normalize_induct
    (fun t => t.hist = s.hist ∧ t.specs = s.specs ∧ t.snaps = s.snaps ∧ t.crashed = s.crashed)
    ?_ ?_ n s ⟨rfl, rfl, rfl, rfl⟩
  · intro t tid e _ _ _ _ h; exact h
  · intro t t1 tid rest sp _ _ _ _ _ _ h1 h
    rcases h1 with h1 | ⟨_, _, h1⟩ <;> subst h1 <;> exact h

/-! ### Inversion of `tstep?` in the normal (no crash) mode -/

/-- The visible part of a step in normal mode (before the silent moves). -/
inductive Core (s : TSt) : TLab → TSt → Prop
  | taskEnded (tid : Nat) (st : TStatus) : s.statusOf tid = some st → (∀ e, st ≠ .closed e) →
      Core s (.taskEnded tid none)
        { s.setStatus tid (.ended none) with hist := s.hist ++ [.taskEnded tid none] }
  | taskClosed (tid : Nat) (e : Option Nat) : s.statusOf tid = some (.ended e) →
      Core s (.taskClosed tid) { s.setStatus tid (.closed e) with hist := s.hist ++ [.taskClosed tid] }
  | exitBegin : s.exiting = false →
      Core s .exitBegin { s with exiting := true, hist := s.hist ++ [.exitBegin] }
  | cbRun (id : Nat) (r : Option Nat) (rest : List Item) (ex : List Nat) : s.exiting = true →
      s.waitingFor = none → s.stack = .cb id r :: rest →
      Core s (.cbRun id) { s with stack := rest, excs := ex, hist := s.hist ++ [.cbRun id] }
  | actionCalled (tid : Nat) (rest : List Item) (sp : TaskSpec) (raises : Bool) (s1 : TSt) :
      s.exiting = true → s.waitingFor = none → tid ∉ s.acted → s.stack = .fin tid :: rest →
      s.spec? tid = some sp → sp.action = .callable raises →
      (s1 = s ∨ (s.statusOf tid = some .running ∧
        s1 = s.setStatus tid (if raises then .cancelAsked else .stopAsked))) →
      Core s (.actionCalled tid)
        { s1 with waitingFor := some tid, acted := tid :: s1.acted, hist := s.hist ++ [.actionCalled tid] }
  | cancelSeen (tid : Nat) (sp : TaskSpec) (c : Nat) : s.spec? tid = some sp →
      s.statusOf tid = some .cancelAsked →
      Core s (.cancelSeen tid) { s.setStatus tid (.cancelling c) with hist := s.hist ++ [.cancelSeen tid] }
  | cleanupTick (tid : Nat) (n : Nat) : s.statusOf tid = some (.cancelling (n + 1)) →
      Core s (.cleanupTick tid) { s.setStatus tid (.cancelling n) with hist := s.hist ++ [.cleanupTick tid] }
  | blockLeft : s.exiting = true → s.stack = [] → s.waitingFor = none → s.left = false →
      Core s .blockLeft { s with left := true, hist := s.hist ++ [.blockLeft] }
  | taskSaw (tid : Nat) (vals : List Nat) : alookup tid s.snaps = some vals →
      Core s (.taskSaw tid vals) { s with hist := s.hist ++ [.taskSaw tid vals] }
  | outcome (leaves : List Nat) : s.left = true → leaves = s.excs →
      Core s (.outcome leaves) { s with reported := true, hist := s.hist ++ [.outcome leaves] }

theorem tstep_crashed_mode (s s' : TSt) (l : TLab) (hc : s.crashed ≠ [])
    (h : tstep? s l = some s') : s'.crashed ≠ [] := by
  have hne : s.crashed.isEmpty = false := by
    cases hx : s.crashed with
    | nil => exact absurd hx hc
    | cons a b => rfl
  unfold tstep? at h
  simp only [hne, Bool.not_false, if_true] at h
  split at h
  · exact absurd h (by simp)
  · have key : ∀ (n : Nat) (t : TSt), some (t.normalize n) = some s' → t.crashed ≠ [] →
        s'.crashed ≠ [] := by
      intro n t he ht
      injection he with he
      subst he
      rw [(normalize_frame n t).2.2.2]; exact ht
    split at h
    · split at h
      · exact key _ _ h hc
      · exact absurd h (by simp)
    · exact key _ _ h hc
    · exact key _ _ h (by simp)
    · exact key _ _ h hc

theorem ite_some_none {α : Type} {c : Prop} [Decidable c] {x y : α}
    (h : (if c then some x else none) = some y) : c ∧ x = y := by
  by_cases hc : c
  · simp only [hc, if_true] at h; exact ⟨hc, Option.some.inj h⟩
  · simp only [hc, if_false] at h; exact absurd h (by simp)

/-- Inversion of a step taken from a crash-free state. -/
theorem tstep_inv0 (s s' : TSt) (l : TLab) (h : tstep? s l = some s') (hcr : s.crashed = []) :
    s.reported = false ∧ ((∃ tid e, l = .taskEnded tid (some e) ∧ s'.crashed ≠ []) ∨
      ∃ s1 n, Core s l s1 ∧ s' = s1.normalize n) := by
  have hrep : s.reported = false := by
    cases hx : s.reported with
    | false => rfl
    | true => unfold tstep? at h; simp [hx] at h
  refine ⟨hrep, ?_⟩
  have hie : s.crashed.isEmpty = true := by rw [hcr]; rfl
  have hrep' : ¬ s.reported = true := by simp [hrep]
  cases l with
  | taskEnded tid exc =>
    cases exc with
    | none =>
      unfold tstep? at h
      simp only [hie, Bool.not_true, Bool.false_eq_true, if_false, if_true] at h
      split at h
      · exact absurd h (by simp)
      cases hsp : s.spec? tid with
      | none => simp [hsp] at h
      | some sp =>
        cases hst : s.statusOf tid with
        | none => simp [hsp, hst] at h
        | some st =>
          simp only [hsp, hst] at h
          obtain ⟨hok, h⟩ := ite_some_none h
          refine Or.inr ⟨_, _, Core.taskEnded tid st hst ?_, h.symm⟩
          intro e he
          subst he
          simp at hok
    | some e =>
      refine Or.inl ⟨tid, e, rfl, ?_⟩
      unfold tstep? at h
      simp only [hie, Bool.not_true, Bool.false_eq_true, if_false, if_true] at h
      split at h
      · exact absurd h (by simp)
      cases hsp : s.spec? tid with
      | none => simp [hsp] at h
      | some sp =>
        cases hst : s.statusOf tid with
        | none => simp [hsp, hst] at h
        | some st =>
          simp only [hsp, hst] at h
          obtain ⟨hok, h⟩ := ite_some_none h
          subst h
          rw [(normalize_frame _ _).2.2.2]
          simp
  | taskClosed tid =>
    unfold tstep? at h
    simp only [hie, Bool.not_true, Bool.false_eq_true, if_false, if_true] at h
    split at h
    · exact absurd h (by simp)
    split at h
    · rename_i e hst
      injection h with h
      exact Or.inr ⟨_, _, Core.taskClosed tid e hst, h.symm⟩
    · exact absurd h (by simp)
  | exitBegin =>
    unfold tstep? at h
    simp only [hie, Bool.not_true, Bool.false_eq_true, if_false, if_true] at h
    split at h
    · exact absurd h (by simp)
    split at h
    · rename_i hcond
      injection h with h
      refine Or.inr ⟨_, _, Core.exitBegin ?_, h.symm⟩
      simpa using hcond
    · exact absurd h (by simp)
  | cbRun id =>
    unfold tstep? at h
    simp only [hie, Bool.not_true, Bool.false_eq_true, if_false, if_true] at h
    split at h
    · exact absurd h (by simp)
    split at h
    · rename_i hcond
      simp only [Bool.and_eq_true, Option.isNone_iff_eq_none] at hcond
      split at h
      · rename_i id' r rest hstk
        split at h
        · rename_i hid
          have hid' : id = id' := by simpa using hid
          subst hid'
          injection h with h
          exact Or.inr ⟨_, _, Core.cbRun id r rest _ hcond.1 hcond.2 hstk, h.symm⟩
        · exact absurd h (by simp)
      · exact absurd h (by simp)
    · exact absurd h (by simp)
  | actionCalled tid =>
    unfold tstep? at h
    simp only [hie, Bool.not_true, Bool.false_eq_true, if_false, if_true] at h
    split at h
    · exact absurd h (by simp)
    split at h
    · rename_i hcond
      simp only [Bool.and_eq_true, Option.isNone_iff_eq_none, Bool.not_eq_true',
        List.contains_eq_mem, decide_eq_false_iff_not] at hcond
      split at h
      · rename_i tid' rest sp hstk hsp
        split at h
        · rename_i raises hact
          split at h
          · rename_i hid
            have hid' : tid = tid' := by simpa using hid
            subst hid'
            injection h with h
            refine Or.inr ⟨_, _, Core.actionCalled tid rest sp raises _ hcond.1.1 hcond.1.2 hcond.2 hstk hsp
              hact ?_, h.symm⟩
            split
            · rename_i hst; exact Or.inr ⟨hst, rfl⟩
            · exact Or.inl rfl
          · exact absurd h (by simp)
        · exact absurd h (by simp)
      · exact absurd h (by simp)
    · exact absurd h (by simp)
  | cancelSeen tid =>
    unfold tstep? at h
    simp only [hie, Bool.not_true, Bool.false_eq_true, if_false, if_true] at h
    split at h
    · exact absurd h (by simp)
    split at h
    · rename_i sp hsp hst
      injection h with h
      exact Or.inr ⟨_, _, Core.cancelSeen tid sp _ hsp hst, h.symm⟩
    · exact absurd h (by simp)
  | cleanupTick tid =>
    unfold tstep? at h
    simp only [hie, Bool.not_true, Bool.false_eq_true, if_false, if_true] at h
    split at h
    · exact absurd h (by simp)
    split at h
    · rename_i n hst
      injection h with h
      exact Or.inr ⟨_, _, Core.cleanupTick tid n hst, h.symm⟩
    · exact absurd h (by simp)
  | blockLeft =>
    unfold tstep? at h
    simp only [hie, Bool.not_true, Bool.false_eq_true, if_false, if_true] at h
    split at h
    · exact absurd h (by simp)
    split at h
    · rename_i hcond
      simp only [Bool.and_eq_true, Option.isNone_iff_eq_none, Bool.not_eq_true',
        List.isEmpty_iff] at hcond
      injection h with h
      exact Or.inr ⟨_, _, Core.blockLeft hcond.1.1.1 hcond.1.1.2 hcond.1.2 hcond.2, h.symm⟩
    · exact absurd h (by simp)
  | taskSaw tid vals =>
    unfold tstep? at h
    simp only [hie, Bool.not_true, Bool.false_eq_true, if_false, if_true] at h
    split at h
    · exact absurd h (by simp)
    split at h
    · rename_i want hw
      split at h
      · rename_i hv
        have hv' : vals = want := by simpa using hv
        subst hv'
        injection h with h
        exact Or.inr ⟨_, _, Core.taskSaw tid vals hw, h.symm⟩
      · exact absurd h (by simp)
    · exact absurd h (by simp)
  | outcome leaves =>
    unfold tstep? at h
    simp only [hie, Bool.not_true, Bool.false_eq_true, if_false, if_true] at h
    split at h
    · exact absurd h (by simp)
    split at h
    · exact absurd h (by simp)
    · rename_i hl
      obtain ⟨hv, h⟩ := ite_some_none h
      have hv' : leaves = s.excs := by simpa using hv
      exact Or.inr ⟨_, _, Core.outcome leaves (by simpa using hl) hv', h.symm⟩

theorem tstep_inv (s s' : TSt) (l : TLab) (h : tstep? s l = some s') (hc : s'.crashed = []) :
    s.crashed = [] ∧ s.reported = false ∧ ∃ s1 n, Core s l s1 ∧ s' = s1.normalize n := by
  have hcr : s.crashed = [] := by
    apply Classical.byContradiction
    intro hne
    exact tstep_crashed_mode s s' l hne h hc
  obtain ⟨hrep, h0⟩ := tstep_inv0 s s' l h hcr
  refine ⟨hcr, hrep, ?_⟩
  rcases h0 with ⟨_, _, _, hne⟩ | h0
  · exact absurd hc hne
  · exact h0

/-! ### Elementary moves -/

/-- One elementary move of the normal mode: both the visible steps and the silent moves are
sequences of these. -/
inductive Mv (s : TSt) : TSt → Prop
  | set (tid : Nat) (st st' : TStatus) (hh h : List TLab) :
      hh = s.hist ++ h → (∀ t, TLab.actionCalled t ∉ h) →
      s.statusOf tid = some st → (∀ e, st ≠ .closed e) →
      (st' = .cancelAsked → ∃ sp, s.spec? tid = some sp ∧
        (sp.action = .cancel ∨ sp.action = .callable true)) →
      Mv s { s.setStatus tid st' with hist := hh }
  | flags (b1 b2 b3 : Bool) (hh h : List TLab) :
      hh = s.hist ++ h → (∀ t, TLab.actionCalled t ∉ h) →
      Mv s { s with exiting := b1, left := b2, reported := b3, hist := hh }
  | popCb (id : Nat) (r : Option Nat) (rest : List Item) (ex : List Nat) (hh h : List TLab) :
      hh = s.hist ++ h → (∀ t, TLab.actionCalled t ∉ h) →
      s.waitingFor = none → s.stack = .cb id r :: rest →
      Mv s { s with stack := rest, excs := ex, hist := hh }
  | popFin (tid : Nat) (e : Option Nat) :
      s.waitingFor = some tid → s.statusOf tid = some (.closed e) →
      Mv s { s with waitingFor := none, stack := s.stack.filter (· != Item.fin tid) }
  | act (tid : Nat) (rest : List Item) (sp : TaskSpec) (hh : List TLab) :
      s.waitingFor = none → s.stack = .fin tid :: rest → s.spec? tid = some sp →
      (((sp.action = .cancel ∨ sp.action = .none_) ∧ hh = s.hist) ∨
        ((∃ r, sp.action = .callable r) ∧ tid ∉ s.acted ∧ hh = s.hist ++ [.actionCalled tid])) →
      Mv s { s with waitingFor := some tid, acted := tid :: s.acted, hist := hh }

theorem core_moves (P : TSt → Prop) (hP : ∀ s s', P s → Mv s s' → P s') (s s' : TSt) (l : TLab)
    (hc : Core s l s') (h : P s) : P s' := by
  cases hc with
  | taskEnded tid st hst hncl =>
    exact hP _ _ h (Mv.set tid st _ _ [_] rfl (by simp) hst hncl (by simp))
  | taskClosed tid e hst =>
    exact hP _ _ h (Mv.set tid _ _ _ [_] rfl (by simp) hst (by simp) (by simp))
  | exitBegin hex =>
    exact hP _ _ h (Mv.flags true s.left s.reported _ [_] rfl (by simp))
  | cbRun id r rest ex hex hw hstk =>
    exact hP _ _ h (Mv.popCb id r rest ex _ [_] rfl (by simp) hw hstk)
  | actionCalled tid rest sp raises s1 hex hw hna hstk hsp hact hs1 =>
    rcases hs1 with hs1 | ⟨hst, hs1⟩
    · subst hs1
      exact hP _ _ h (Mv.act tid rest sp _ hw hstk hsp (Or.inr ⟨⟨_, hact⟩, hna, rfl⟩))
    · subst hs1
      have h1 : P (s.setStatus tid (if raises then .cancelAsked else .stopAsked)) :=
        hP _ _ h (Mv.set tid _ _ s.hist [] (by simp) (by simp) hst (by simp)
          (by
            intro hca
            cases raises with
            | false => simp at hca
            | true => exact ⟨sp, hsp, Or.inr hact⟩))
      exact hP _ _ h1 (Mv.act tid rest sp _ hw hstk hsp (Or.inr ⟨⟨_, hact⟩, hna, rfl⟩))
  | cancelSeen tid sp c hsp hst =>
    exact hP _ _ h (Mv.set tid _ _ _ [_] rfl (by simp) hst (by simp) (by simp))
  | cleanupTick tid n hst =>
    exact hP _ _ h (Mv.set tid _ _ _ [_] rfl (by simp) hst (by simp) (by simp))
  | blockLeft =>
    exact hP _ _ h (Mv.flags s.exiting true s.reported _ [_] rfl (by simp))
  | taskSaw tid vals hv =>
    exact hP _ _ h (Mv.flags s.exiting s.left s.reported _ [_] rfl (by simp))
  | outcome leaves hl hv =>
    exact hP _ _ h (Mv.flags s.exiting s.left true _ [_] rfl (by simp))

theorem normalize_moves (P : TSt → Prop) (hP : ∀ s s', P s → Mv s s' → P s') (n : Nat) (s : TSt)
    (h : P s) : P (s.normalize n) := by
  refine normalize_induct P ?_ ?_ n s h
  · intro t tid e _ _ hw hst ht
    exact hP _ _ ht (Mv.popFin tid e hw hst)
  · intro t t1 tid rest sp _ _ hw hstk hsp hact h1 ht
    rcases h1 with h1 | ⟨hc, hst, h1⟩
    · subst h1
      exact hP _ _ ht (Mv.act tid rest sp _ hw hstk hsp (Or.inl ⟨hact, rfl⟩))
    · subst h1
      have h1 : P (t.setStatus tid .cancelAsked) := by
        rcases hst with hst | hst
        · exact hP _ _ ht (Mv.set tid _ _ t.hist [] (by simp) (by simp) hst (by simp)
            (fun _ => ⟨sp, hsp, Or.inl hc⟩))
        · exact hP _ _ ht (Mv.set tid _ _ t.hist [] (by simp) (by simp) hst (by simp)
            (fun _ => ⟨sp, hsp, Or.inl hc⟩))
      exact hP _ _ h1 (Mv.act tid rest sp _ hw hstk hsp (Or.inl ⟨hact, rfl⟩))

/-- Every accepted step that ends without a crash started without one and is a sequence of
elementary moves. -/
theorem tstep_moves (P : TSt → Prop) (hP : ∀ s s', P s → Mv s s' → P s') (s s' : TSt) (l : TLab)
    (h : tstep? s l = some s') (hc : s'.crashed = []) (hs : P s) : P s' := by
  obtain ⟨_, _, s1, n, hcore, rfl⟩ := tstep_inv s s' l h hc
  exact normalize_moves P hP n s1 (core_moves P hP s s1 l hcore hs)

theorem tstep_crashed_nil (s s' : TSt) (l : TLab) (h : tstep? s l = some s')
    (hc : s'.crashed = []) : s.crashed = [] := (tstep_inv s s' l h hc).1

theorem exec_crashed_nil (s s' : TSt) (ls : List TLab) (h : TExec s ls s')
    (hc : s'.crashed = []) : s.crashed = [] := by
  induction h with
  | nil s => exact hc
  | cons a b c l ls hs _ ih => exact tstep_crashed_nil _ _ _ hs (ih hc)

/-- Invariants of crash-free runs. -/
theorem exec_moves (P : TSt → Prop) (hP : ∀ s s', P s → Mv s s' → P s') (s0 s : TSt)
    (ls : List TLab) (h : TExec s0 ls s) (h0 : P s0) (hc : s.crashed = []) : P s := by
  induction h with
  | nil s => exact h0
  | cons s s' s'' l ls hstep _ ih =>
    rename_i hex
    have hc' : s'.crashed = [] := exec_crashed_nil _ _ _ hex hc
    exact ih (tstep_moves P hP s s' l hstep hc' h0) hc

/-! ### The invariants -/

/-- Invariants of crash-free runs that need no distinctness assumption. `I` is the initial stack. -/
structure Inv (I : List Item) (s : TSt) : Prop where
  wait_acted : ∀ tid, s.waitingFor = some tid → tid ∈ s.acted
  gone : ∀ tid, Item.fin tid ∈ I → Item.fin tid ∉ s.stack →
    (∃ e, s.statusOf tid = some (.closed e)) ∧ tid ∈ s.acted
  asked : ∀ tid, s.statusOf tid = some .cancelAsked →
    ∃ sp, s.spec? tid = some sp ∧ (sp.action = .cancel ∨ sp.action = .callable true)
  acted_called : ∀ tid sp r, tid ∈ s.acted → s.spec? tid = some sp → sp.action = .callable r →
    TLab.actionCalled tid ∈ s.hist
  called_acted : ∀ tid, TLab.actionCalled tid ∈ s.hist →
    tid ∈ s.acted ∧ ∃ sp r, s.spec? tid = some sp ∧ sp.action = .callable r
  count : ∀ tid, s.hist.count (TLab.actionCalled tid) ≤ 1

theorem count_append_not_mem (a : TLab) (l h : List TLab) (hn : a ∉ h) :
    (l ++ h).count a = l.count a := by
  rw [List.count_append, List.count_eq_zero.mpr hn, Nat.add_zero]

theorem Inv.move (I : List Item) (s s' : TSt) (hi : Inv I s) (hm : Mv s s') : Inv I s' := by
  obtain ⟨h1, h2, h3, h4, h5, h6⟩ := hi
  cases hm with
  | set tid st st' hh h hhe hnh hst hncl hask =>
    subst hhe
    refine ⟨h1, ?_, ?_, ?_, ?_, ?_⟩
    · intro t hI hns
      obtain ⟨⟨e, he⟩, ha⟩ := h2 t hI hns
      refine ⟨⟨e, ?_⟩, ha⟩
      show (s.setStatus tid st').statusOf t = _
      rw [statusOf_setStatus]
      by_cases htt : tid = t
      · subst htt; rw [hst] at he; exact absurd (Option.some.inj he) (hncl e)
      · simp only [htt, if_false]; exact he
    · intro t ht
      have ht' : (s.setStatus tid st').statusOf t = some .cancelAsked := ht
      rw [statusOf_setStatus] at ht'
      by_cases htt : tid = t
      · subst htt
        simp only [if_true] at ht'
        exact hask (Option.some.inj ht')
      · simp only [htt, if_false] at ht'
        exact h3 t ht'
    · intro t sp r ha hsp hact
      exact List.mem_append_left _ (h4 t sp r ha hsp hact)
    · intro t ht
      rcases List.mem_append.mp ht with ht | ht
      · exact h5 t ht
      · exact absurd ht (hnh t)
    · intro t
      show (s.hist ++ h).count _ ≤ 1
      rw [count_append_not_mem _ _ _ (hnh t)]; exact h6 t
  | flags b1 b2 b3 hh h hhe hnh =>
    subst hhe
    refine ⟨h1, h2, h3, ?_, ?_, ?_⟩
    · intro t sp r ha hsp hact
      exact List.mem_append_left _ (h4 t sp r ha hsp hact)
    · intro t ht
      rcases List.mem_append.mp ht with ht | ht
      · exact h5 t ht
      · exact absurd ht (hnh t)
    · intro t
      show (s.hist ++ h).count _ ≤ 1
      rw [count_append_not_mem _ _ _ (hnh t)]; exact h6 t
  | popCb id r rest ex hh h hhe hnh hw hstk =>
    subst hhe
    refine ⟨h1, ?_, h3, ?_, ?_, ?_⟩
    · intro t hI hns
      apply h2 t hI
      rw [hstk]
      intro hmem
      rcases List.mem_cons.mp hmem with hmem | hmem
      · exact absurd hmem (by simp)
      · exact hns hmem
    · intro t sp r ha hsp hact
      exact List.mem_append_left _ (h4 t sp r ha hsp hact)
    · intro t ht
      rcases List.mem_append.mp ht with ht | ht
      · exact h5 t ht
      · exact absurd ht (hnh t)
    · intro t
      show (s.hist ++ h).count _ ≤ 1
      rw [count_append_not_mem _ _ _ (hnh t)]; exact h6 t
  | popFin tid e hw hst =>
    refine ⟨?_, ?_, h3, h4, h5, h6⟩
    · intro t ht; exact absurd ht (by simp)
    · intro t hI hns
      by_cases htt : t = tid
      · subst htt; exact ⟨⟨e, hst⟩, h1 t hw⟩
      · apply h2 t hI
        intro hmem
        apply hns
        show Item.fin t ∈ s.stack.filter (· != Item.fin tid)
        rw [List.mem_filter]
        exact ⟨hmem, by simp [htt]⟩
  | act tid rest sp hh hw hstk hsp hcase =>
    refine ⟨?_, ?_, h3, ?_, ?_, ?_⟩
    · intro t ht
      have : tid = t := Option.some.inj ht
      subst this
      exact List.mem_cons_self
    · intro t hI hns
      obtain ⟨he, ha⟩ := h2 t hI hns
      exact ⟨he, List.mem_cons_of_mem _ ha⟩
    · intro t sp' r ha hsp' hact
      show TLab.actionCalled t ∈ hh
      rcases List.mem_cons.mp ha with ha | ha
      · subst ha
        have hsp'' : s.spec? t = some sp' := hsp'
        rw [hsp] at hsp''
        have := Option.some.inj hsp''
        subst this
        rcases hcase with ⟨hcn, _⟩ | ⟨_, _, hhe⟩
        · rcases hcn with hcn | hcn <;> rw [hcn] at hact <;> exact absurd hact (by simp)
        · rw [hhe]; simp
      · have := h4 t sp' r ha hsp' hact
        rcases hcase with ⟨_, hhe⟩ | ⟨_, _, hhe⟩
        · rw [hhe]; exact this
        · rw [hhe]; exact List.mem_append_left _ this
    · intro t ht
      have ht' : TLab.actionCalled t ∈ hh := ht
      show t ∈ tid :: s.acted ∧ _
      rcases hcase with ⟨_, hhe⟩ | ⟨⟨r, hr⟩, _, hhe⟩
      · rw [hhe] at ht'
        obtain ⟨ha, hx⟩ := h5 t ht'
        exact ⟨List.mem_cons_of_mem _ ha, hx⟩
      · rw [hhe] at ht'
        rcases List.mem_append.mp ht' with ht' | ht'
        · obtain ⟨ha, hx⟩ := h5 t ht'
          exact ⟨List.mem_cons_of_mem _ ha, hx⟩
        · have : t = tid := by simpa using ht'
          subst this
          exact ⟨List.mem_cons_self, sp, r, hsp, hr⟩
    · intro t
      show hh.count _ ≤ 1
      rcases hcase with ⟨_, hhe⟩ | ⟨_, hna, hhe⟩
      · rw [hhe]; exact h6 t
      · rw [hhe]
        by_cases htt : t = tid
        · subst htt
          have hnm : TLab.actionCalled t ∉ s.hist := fun hm => hna (h5 t hm).1
          rw [List.count_append, List.count_eq_zero.mpr hnm]
          simp
        · rw [count_append_not_mem _ _ _ (by simp [htt])]; exact h6 t

/-- Invariants that need the items of the initial stack `I` to be pairwise distinct. -/
structure Inv2 (I : List Item) (s : TSt) : Prop where
  suffix : ∃ popped, popped ++ s.stack = I
  wait_head : ∀ tid, s.waitingFor = some tid → s.stack.head? = some (.fin tid)

theorem Inv2.move (I : List Item) (hI : I.Nodup) (s s' : TSt) (hi : Inv2 I s) (hm : Mv s s') :
    Inv2 I s' := by
  obtain ⟨h1, h2⟩ := hi
  cases hm with
  | set tid st st' hh h hhe hnh hst hncl hask => exact ⟨h1, h2⟩
  | flags b1 b2 b3 hh h hhe hnh => exact ⟨h1, h2⟩
  | popCb id r rest ex hh h hhe hnh hw hstk =>
    refine ⟨?_, ?_⟩
    · obtain ⟨p, hp⟩ := h1
      refine ⟨p ++ [.cb id r], ?_⟩
      show (p ++ [.cb id r]) ++ rest = I
      rw [← hp, hstk]; simp
    · intro t ht
      have ht' : s.waitingFor = some t := ht
      rw [hw] at ht'; exact absurd ht' (by simp)
  | popFin tid e hw hst =>
    refine ⟨?_, ?_⟩
    · obtain ⟨p, hp⟩ := h1
      have hh := h2 tid hw
      cases hstk : s.stack with
      | nil => rw [hstk] at hh; exact absurd hh (by simp)
      | cons a rest =>
        rw [hstk] at hh
        have ha : a = .fin tid := by simpa using hh
        subst ha
        have hnd : (Item.fin tid :: rest).Nodup := by
          have : (p ++ s.stack).Nodup := hp ▸ hI
          rw [hstk] at this
          exact (List.nodup_append.mp this).2.1
        have hnm : Item.fin tid ∉ rest := (List.nodup_cons.mp hnd).1
        refine ⟨p ++ [.fin tid], ?_⟩
        show (p ++ [.fin tid]) ++ List.filter (· != Item.fin tid) (Item.fin tid :: rest) = I
        rw [List.filter_cons_of_neg (by simp)]
        rw [List.filter_eq_self.mpr]
        · rw [← hp, hstk]; simp
        · intro x hx
          have : x ≠ Item.fin tid := fun hxe => hnm (hxe ▸ hx)
          simpa using this
    · intro t ht; exact absurd ht (by simp)
  | act tid rest sp hh hw hstk hsp hcase =>
    refine ⟨h1, ?_⟩
    intro t ht
    have : tid = t := Option.some.inj ht
    subst this
    show s.stack.head? = _
    rw [hstk]; rfl

/-! ### The initial state -/

def itemOf : Setup → Option Item
  | .reg id r => some (.cb id r)
  | .start sp => some (.fin sp.tid)
  | .res _ => none

def specOf : Setup → Option TaskSpec
  | .start sp => some sp
  | _ => none

def tidOf : Setup → Option Nat
  | .start sp => some sp.tid
  | _ => none

def cbIdOf : Setup → Option Nat
  | .reg id _ => some id
  | _ => none

theorem init_specs (prog : List Setup) : (TSt.init prog).specs = prog.filterMap specOf := by
  show List.filterMap _ prog = _
  congr 1

theorem foldl_stack (prog : List Setup) (acc : List Item) :
    prog.foldl (fun st s => match s with
      | .reg id r => Item.cb id r :: st
      | .start sp => Item.fin sp.tid :: st
      | .res _ => st) acc = (prog.filterMap itemOf).reverse ++ acc := by
  induction prog generalizing acc with
  | nil => rfl
  | cons x rest ih =>
    cases x with
    | reg id r =>
      rw [List.foldl_cons, ih, List.filterMap_cons_some (rfl : itemOf (.reg id r) = some (.cb id r))]; simp
    | start sp =>
      rw [List.foldl_cons, ih, List.filterMap_cons_some (rfl : itemOf (.start sp) = some (.fin sp.tid))]; simp
    | res v =>
      rw [List.foldl_cons, ih, List.filterMap_cons_none (rfl : itemOf (.res v) = none)]

theorem init_stack (prog : List Setup) :
    (TSt.init prog).stack = (prog.filterMap itemOf).reverse := by
  exact (foldl_stack prog []).trans (by simp)

theorem init_stack_append (p q : List Setup) :
    (TSt.init (p ++ q)).stack = (TSt.init q).stack ++ (TSt.init p).stack := by
  simp [init_stack]

theorem mem_items_cb (prog : List Setup) (id : Nat) (r : Option Nat)
    (h : Item.cb id r ∈ prog.filterMap itemOf) : id ∈ prog.filterMap cbIdOf := by
  obtain ⟨a, ha, he⟩ := List.mem_filterMap.mp h
  refine List.mem_filterMap.mpr ⟨a, ha, ?_⟩
  cases a <;> simp [itemOf, cbIdOf] at he ⊢
  exact he.1

theorem mem_items_fin (prog : List Setup) (tid : Nat)
    (h : Item.fin tid ∈ prog.filterMap itemOf) : tid ∈ prog.filterMap tidOf := by
  obtain ⟨a, ha, he⟩ := List.mem_filterMap.mp h
  refine List.mem_filterMap.mpr ⟨a, ha, ?_⟩
  cases a <;> simp [itemOf, tidOf] at he ⊢
  exact he

theorem items_nodup (prog : List Setup) (h1 : (prog.filterMap tidOf).Nodup)
    (h2 : (prog.filterMap cbIdOf).Nodup) : (prog.filterMap itemOf).Nodup := by
  induction prog with
  | nil => simp
  | cons x rest ih =>
    cases x with
    | reg id r =>
      simp only [List.filterMap_cons, itemOf, cbIdOf, tidOf, List.nodup_cons] at h1 h2 ⊢
      exact ⟨fun hm => h2.1 (mem_items_cb rest id r hm), ih h1 h2.2⟩
    | start sp =>
      simp only [List.filterMap_cons, itemOf, cbIdOf, tidOf, List.nodup_cons] at h1 h2 ⊢
      exact ⟨fun hm => h1.1 (mem_items_fin rest sp.tid hm), ih h1.2 h2⟩
    | res v =>
      simp only [List.filterMap_cons, itemOf, cbIdOf, tidOf] at h1 h2 ⊢
      exact ih h1 h2

theorem items_cb_unique (prog : List Setup) (h2 : (prog.filterMap cbIdOf).Nodup) (id : Nat)
    (r r' : Option Nat) (h : Item.cb id r ∈ prog.filterMap itemOf)
    (h' : Item.cb id r' ∈ prog.filterMap itemOf) : r = r' := by
  induction prog with
  | nil => simp at h
  | cons x rest ih =>
    cases x with
    | reg id0 r0 =>
      simp only [List.filterMap_cons, itemOf, cbIdOf, List.nodup_cons, List.mem_cons,
        Item.cb.injEq] at h h' h2
      rcases h with ⟨hid, hr⟩ | h
      · rcases h' with ⟨_, hr'⟩ | h'
        · rw [hr, hr']
        · subst hid; exact absurd (mem_items_cb rest id r' h') h2.1
      · rcases h' with ⟨hid, hr'⟩ | h'
        · subst hid; exact absurd (mem_items_cb rest id r h) h2.1
        · exact ih h2.2 h h'
    | start sp =>
      simp only [List.filterMap_cons, itemOf, cbIdOf, List.mem_cons, reduceCtorEq, false_or] at h h' h2
      exact ih h2 h h'
    | res v =>
      simp only [List.filterMap_cons, itemOf, cbIdOf] at h h' h2
      exact ih h2 h h'

theorem init_stack_nodup (prog : List Setup) (h1 : (prog.filterMap tidOf).Nodup)
    (h2 : (prog.filterMap cbIdOf).Nodup) : (TSt.init prog).stack.Nodup := by
  rw [init_stack]
  exact List.Nodup.perm (items_nodup prog h1 h2) (List.reverse_perm _).symm

theorem init_stack_cb_unique (prog : List Setup) (h2 : (prog.filterMap cbIdOf).Nodup) (id : Nat)
    (r r' : Option Nat) (h : Item.cb id r ∈ (TSt.init prog).stack)
    (h' : Item.cb id r' ∈ (TSt.init prog).stack) : r = r' := by
  rw [init_stack, List.mem_reverse] at h h'
  exact items_cb_unique prog h2 id r r' h h'

theorem init_stack_mem_fin (prog : List Setup) (sp : TaskSpec) (h : Setup.start sp ∈ prog) :
    Item.fin sp.tid ∈ (TSt.init prog).stack := by
  rw [init_stack, List.mem_reverse]
  exact List.mem_filterMap.mpr ⟨_, h, rfl⟩

theorem find_spec_of_nodup (L : List TaskSpec) (hn : (L.map (·.tid)).Nodup) (sp : TaskSpec)
    (h : sp ∈ L) : L.find? (·.tid == sp.tid) = some sp := by
  induction L with
  | nil => simp at h
  | cons a rest ih =>
    simp only [List.map_cons, List.nodup_cons] at hn
    rcases List.mem_cons.mp h with h | h
    · subst h; simp
    · have hne : a.tid ≠ sp.tid := by
        intro he
        apply hn.1
        rw [he]
        exact List.mem_map.mpr ⟨sp, h, rfl⟩
      rw [List.find?_cons_of_neg (by simpa using hne)]
      exact ih hn.2 h

theorem init_spec (prog : List Setup) (h1 : (prog.filterMap tidOf).Nodup) (sp : TaskSpec)
    (h : Setup.start sp ∈ prog) : (TSt.init prog).spec? sp.tid = some sp := by
  unfold TSt.spec?
  rw [init_specs]
  apply find_spec_of_nodup
  · have : (prog.filterMap specOf).map (·.tid) = prog.filterMap tidOf := by
      rw [List.map_filterMap]
      congr 1
      funext x
      cases x <;> rfl
    rw [this]; exact h1
  · exact List.mem_filterMap.mpr ⟨_, h, rfl⟩

theorem alookup_map_const {α : Type} (f : α → Nat) (c v : TStatus) (L : List α) (k : Nat)
    (h : alookup k (L.map fun a => (f a, c)) = some v) : v = c := by
  induction L with
  | nil => simp at h
  | cons a rest ih =>
    rw [List.map_cons, alookup_cons] at h
    by_cases hk : f a = k
    · simp only [hk, if_true] at h; exact (Option.some.inj h).symm
    · simp only [hk, if_false] at h; exact ih h

theorem init_inv (prog : List Setup) : Inv (TSt.init prog).stack (TSt.init prog) := by
  refine ⟨?_, ?_, ?_, ?_, ?_, ?_⟩
  · intro t ht; exact absurd ht (by simp [TSt.init])
  · intro t hI hn; exact absurd hI hn
  · intro t ht
    have := alookup_map_const _ _ _ _ _ ht
    exact absurd this (by simp)
  · intro t sp r ha; exact absurd ha (by simp [TSt.init])
  · intro t ht; exact absurd ht (by simp [TSt.init])
  · intro t; simp [TSt.init]

theorem init_inv2 (prog : List Setup) : Inv2 (TSt.init prog).stack (TSt.init prog) := by
  refine ⟨⟨[], rfl⟩, ?_⟩
  intro t ht; exact absurd ht (by simp [TSt.init])

theorem Mv.frame (s s' : TSt) (h : Mv s s') : s'.specs = s.specs ∧ s'.snaps = s.snaps := by
  cases h <;> exact ⟨rfl, rfl⟩

/-! ### Reachable crash-free states -/

theorem reach_inv (prog : List Setup) (ls : List TLab) (s : TSt)
    (h : TExec (TSt.init prog) ls s) (hc : s.crashed = []) : Inv (TSt.init prog).stack s :=
  exec_moves (Inv (TSt.init prog).stack) (Inv.move _) _ _ _ h (init_inv prog) hc

theorem reach_inv2 (prog : List Setup) (h1 : (prog.filterMap tidOf).Nodup)
    (h2 : (prog.filterMap cbIdOf).Nodup) (ls : List TLab) (s : TSt)
    (h : TExec (TSt.init prog) ls s) (hc : s.crashed = []) : Inv2 (TSt.init prog).stack s :=
  exec_moves (Inv2 (TSt.init prog).stack) (Inv2.move _ (init_stack_nodup prog h1 h2)) _ _ _ h
    (init_inv2 prog) hc

theorem reach_frame (prog : List Setup) (ls : List TLab) (s : TSt)
    (h : TExec (TSt.init prog) ls s) (hc : s.crashed = []) :
    s.specs = (TSt.init prog).specs ∧ s.snaps = snapshots prog [] :=
  exec_moves (fun t => t.specs = (TSt.init prog).specs ∧ t.snaps = snapshots prog [])
    (fun a b hab hm => by
      obtain ⟨h1, h2⟩ := Mv.frame a b hm
      exact ⟨h1.trans hab.1, h2.trans hab.2⟩) _ _ _ h ⟨rfl, rfl⟩ hc

/-! ### Conveniences for the statements -/

theorem tstep_core (s s' : TSt) (l : TLab) (h : tstep? s l = some s') (hcr : s.crashed = [])
    (hl : ∀ tid e, l ≠ .taskEnded tid (some e)) : ∃ s1 n, Core s l s1 ∧ s' = s1.normalize n := by
  rcases (tstep_inv0 s s' l h hcr).2 with ⟨tid, e, he, _⟩ | h0
  · exact absurd he (hl tid e)
  · exact h0

theorem tstep_outcome_crashed (s s' : TSt) (leaves : List Nat) (hcr : s.crashed ≠ [])
    (h : tstep? s (.outcome leaves) = some s') :
    s.crashed.all (fun e => leaves.contains e) = true := by
  have hne : s.crashed.isEmpty = false := by
    cases hx : s.crashed with
    | nil => exact absurd hx hcr
    | cons a b => rfl
  unfold tstep? at h
  simp only [hne, Bool.not_false, if_true] at h
  split at h
  · exact absurd h (by simp)
  · obtain ⟨hc, _⟩ := ite_some_none h
    simp only [Bool.and_eq_true] at hc
    exact hc.2

/-- A task body ending with an exception, from a crash-free state, records that exception. -/
theorem tstep_taskEnded_exc (s s' : TSt) (tid e : Nat) (hcr : s.crashed = [])
    (h : tstep? s (.taskEnded tid (some e)) = some s') : e ∈ s'.crashed := by
  have hie : s.crashed.isEmpty = true := by rw [hcr]; rfl
  unfold tstep? at h
  simp only [hie, Bool.not_true, Bool.false_eq_true, if_false, if_true] at h
  split at h
  · exact absurd h (by simp)
  cases hsp : s.spec? tid with
  | none => simp [hsp] at h
  | some sp =>
    cases hst : s.statusOf tid with
    | none => simp [hsp, hst] at h
    | some st =>
      simp only [hsp, hst] at h
      obtain ⟨hok, h⟩ := ite_some_none h
      subst h
      rw [(normalize_frame _ _).2.2.2]
      simp

theorem init_stack_reg (id : Nat) (r : Option Nat) :
    (TSt.init [.reg id r]).stack = [.cb id r] := rfl

theorem init_stack_start (sp : TaskSpec) : (TSt.init [.start sp]).stack = [.fin sp.tid] := rfl

theorem nodup_split_unique {α : Type} (p q p' q' : List α) (x : α) (hn : (p ++ x :: q).Nodup)
    (he : p ++ x :: q = p' ++ x :: q') : p = p' ∧ q = q' := by
  induction p generalizing p' with
  | nil =>
    cases p' with
    | nil => exact ⟨rfl, (List.cons.inj he).2⟩
    | cons y p'' =>
      have h1 := List.cons.inj he
      have hx : x ∈ q := by rw [h1.2]; simp
      exact absurd hx (List.nodup_cons.mp hn).1
  | cons a p1 ih =>
    cases p' with
    | nil =>
      have h1 := List.cons.inj he
      have hx : a ∈ p1 ++ x :: q := by rw [h1.1]; simp
      exact absurd hx (List.nodup_cons.mp hn).1
    | cons b p1' =>
      have h1 := List.cons.inj he
      obtain ⟨h2, h3⟩ := ih p1' (List.nodup_cons.mp hn).2 h1.2
      exact ⟨by rw [h1.1, h2], h3⟩

theorem taccept_exec (ls : List TLab) (s s' : TSt) (n : Nat) (h : taccept s ls n = .ok s') :
    TExec s ls s' := by
  induction ls generalizing s n with
  | nil =>
    unfold taccept at h
    injection h with h
    subst h
    exact TExec.nil s
  | cons l ls ih =>
    unfold taccept at h
    split at h
    · rename_i s1 hs1
      exact TExec.cons s s1 s' l ls hs1 (ih s1 (n + 1) h)
    · exact absurd h (by simp)

end Tk
end Asphalt
