/- Helper lemmas about the service-task LTS (AsphaltModel/Tasks.lean). -/
import AsphaltModel.Tasks
import AsphaltProofs.Lemmas.Assoc

namespace Asphalt
namespace Tk

set_option linter.unusedSimpArgs false

/-! ### Status look-ups -/

theorem statusOf_setStatus (s : TSt) (tid t : Nat) (st : TStatus) :
    (s.setStatus tid st).statusOf t = if tid = t then some st else s.statusOf t := by
  unfold TSt.setStatus TSt.statusOf
  by_cases h : tid = t
  · subst h; simp only [if_true]; exact alookup_ainsert_same _ _ _
  · simp only [h, if_false]; exact alookup_ainsert_other _ _ _ _ h

/-! ### The silent moves: an induction principle for `normalize` -/

theorem normalize_induct (P : TSt → Prop)
    (hpop : ∀ (s : TSt) (tid : Nat) (e : Option Nat), s.exiting = true → s.crashed = [] →
        s.waitingFor = some tid → s.statusOf tid = some (.closed e) → P s →
        P { s with waitingFor := none, stack := s.stack.filter (· != Item.fin tid) })
    (hact : ∀ (s s1 : TSt) (tid : Nat) (rest : List Item) (sp : TaskSpec), s.exiting = true →
        s.crashed = [] → s.waitingFor = none → s.stack = .fin tid :: rest → s.spec? tid = some sp →
        (sp.action = .cancel ∨ sp.action = .none_) →
        (s1 = s ∨ (sp.action = .cancel ∧
          (s.statusOf tid = some .running ∨ s.statusOf tid = some .stopAsked) ∧
          s1 = s.setStatus tid .cancelAsked)) →
        P s → P { s1 with waitingFor := some tid, acted := tid :: s1.acted }) :
    ∀ (n : Nat) (s : TSt), P s → P (TSt.normalize n s) := by
  intro n
  induction n with
  | zero => intro s h; unfold TSt.normalize; exact h
  | succ n ih =>
    intro s h
    unfold TSt.normalize
    split
    · exact h
    · rename_i hcond
      have hex : s.exiting = true := by
        cases hx : s.exiting <;> simp [hx] at hcond ⊢
      have hcr : s.crashed = [] := by
        cases hx : s.crashed <;> simp [hx] at hcond ⊢
      split
      · rename_i tid hw
        split
        · rename_i e hst
          exact ih _ (hpop s tid e hex hcr hw hst h)
        · exact h
      · rename_i hw
        split
        · rename_i tid rest hstk
          split
          · rename_i sp hsp
            split
            · rename_i hact'
              apply ih
              apply hact s _ tid rest sp hex hcr hw hstk hsp (Or.inl hact') _ h
              split
              · rename_i hst; exact Or.inr ⟨hact', Or.inl hst, rfl⟩
              · rename_i hst; exact Or.inr ⟨hact', Or.inr hst, rfl⟩
              · exact Or.inl rfl
            · rename_i hact'
              apply ih
              exact hact s s tid rest sp hex hcr hw hstk hsp (Or.inr hact') (Or.inl rfl) h
            · exact h
          · exact h
        · exact h

/-- Fields the silent moves never touch. -/
theorem normalize_frame (n : Nat) (s : TSt) :
    (s.normalize n).hist = s.hist ∧ (s.normalize n).specs = s.specs ∧
    (s.normalize n).snaps = s.snaps ∧ (s.normalize n).crashed = s.crashed := by
  refine normalize_induct
    (fun t => t.hist = s.hist ∧ t.specs = s.specs ∧ t.snaps = s.snaps ∧ t.crashed = s.crashed)
    ?_ ?_ n s ⟨rfl, rfl, rfl, rfl⟩
  · intro t tid e _ _ _ _ h; exact h
  · intro t t1 tid rest sp _ _ _ _ _ _ h1 h
    rcases h1 with h1 | ⟨_, _, h1⟩ <;> subst h1 <;> exact h

/-! ### Inversion of `tstep?` in the normal (no crash) mode -/

/-- The visible part of a step in normal mode (before the silent moves). -/
inductive Core (s : TSt) : TLab → TSt → Prop
  | taskEnded (tid : Nat) (st : TStatus) : s.statusOf tid = some st → (∀ e, st ≠ .closed e) →
      Core s (.taskEnded tid none)
        { s.setStatus tid (.ended none) with hist := s.hist ++ [.taskEnded tid none] }
  | taskClosed (tid : Nat) (e : Option Nat) : s.statusOf tid = some (.ended e) →
      Core s (.taskClosed tid) { s.setStatus tid (.closed e) with hist := s.hist ++ [.taskClosed tid] }
  | exitBegin : s.exiting = false →
      Core s .exitBegin { s with exiting := true, hist := s.hist ++ [.exitBegin] }
  | cbRun (id : Nat) (r : Option Nat) (rest : List Item) (ex : List Nat) : s.exiting = true →
      s.waitingFor = none → s.stack = .cb id r :: rest →
      (alookup id s.lates = none ∨ ∃ tid st, alookup id s.lates = some tid ∧ s.statusOf tid = some st) →
      Core s (.cbRun id) { s with stack := rest, excs := ex, hist := s.hist ++ [.cbRun id] }
  | cbRunLate (id : Nat) (r : Option Nat) (rest : List Item) (ex : List Nat) (tid : Nat) :
      s.exiting = true → s.waitingFor = none → s.stack = .cb id r :: rest →
      alookup id s.lates = some tid → s.statusOf tid = none →
      Core s (.cbRun id) { s.setStatus tid .running with
        stack := .fin tid :: rest, excs := ex, hist := s.hist ++ [.cbRun id] }
  | lateStarted (tid : Nat) : s.exiting = true → s.statusOf tid ≠ none →
      (∃ cb, (cb, tid) ∈ s.lates) →
      Core s (.lateStarted tid) { s with hist := s.hist ++ [.lateStarted tid] }
  | actionCalled (tid : Nat) (rest : List Item) (sp : TaskSpec) (raises : Bool) (s1 : TSt) :
      s.exiting = true → s.waitingFor = none → tid ∉ s.acted → s.stack = .fin tid :: rest →
      s.spec? tid = some sp → sp.action = .callable raises →
      (s1 = s ∨ (s.statusOf tid = some .running ∧
        s1 = s.setStatus tid (if raises then .cancelAsked else .stopAsked))) →
      Core s (.actionCalled tid)
        { s1 with waitingFor := some tid, acted := tid :: s1.acted, hist := s.hist ++ [.actionCalled tid] }
  | cancelSeen (tid : Nat) (sp : TaskSpec) (c : Nat) : s.spec? tid = some sp →
      s.statusOf tid = some .cancelAsked →
      Core s (.cancelSeen tid) { s.setStatus tid (.cancelling c) with hist := s.hist ++ [.cancelSeen tid] }
  | cleanupTick (tid : Nat) (n : Nat) : s.statusOf tid = some (.cancelling (n + 1)) →
      Core s (.cleanupTick tid) { s.setStatus tid (.cancelling n) with hist := s.hist ++ [.cleanupTick tid] }
  | blockLeft : s.exiting = true → s.stack = [] → s.waitingFor = none → s.left = false →
      Core s .blockLeft { s with left := true, hist := s.hist ++ [.blockLeft] }
  | taskSaw (tid : Nat) (vals : List Nat) : alookup tid s.snaps = some vals →
      Core s (.taskSaw tid vals) { s with hist := s.hist ++ [.taskSaw tid vals] }
  | outcome (leaves : List Nat) : s.left = true → leaves = s.excs →
      Core s (.outcome leaves) { s with reported := true, hist := s.hist ++ [.outcome leaves] }

theorem tstep_crashed_mode (s s' : TSt) (l : TLab) (hc : s.crashed ≠ [])
    (h : tstep? s l = some s') : s'.crashed ≠ [] := by
  have hne : s.crashed.isEmpty = false := by
    cases hx : s.crashed with
    | nil => exact absurd hx hc
    | cons a b => rfl
  unfold tstep? at h
  simp only [hne, Bool.not_false, if_true] at h
  split at h
  · exact absurd h (by simp)
  · have key : ∀ (n : Nat) (t : TSt), some (t.normalize n) = some s' → t.crashed ≠ [] →
        s'.crashed ≠ [] := by
      intro n t he ht
      injection he with he
      subst he
      rw [(normalize_frame n t).2.2.2]; exact ht
    split at h
    · split at h
      · exact key _ _ h hc
      · exact absurd h (by simp)
    · exact key _ _ h hc
    · exact key _ _ h (by simp)
    · exact key _ _ h hc

theorem ite_some_none {α : Type} {c : Prop} [Decidable c] {x y : α}
    (h : (if c then some x else none) = some y) : c ∧ x = y := by
  by_cases hc : c
  · simp only [hc, if_true] at h; exact ⟨hc, Option.some.inj h⟩
  · simp only [hc, if_false] at h; exact absurd h (by simp)

/-- Inversion of a step taken from a crash-free state. -/
theorem tstep_inv0 (s s' : TSt) (l : TLab) (h : tstep? s l = some s') (hcr : s.crashed = []) :
    s.reported = false ∧ ((∃ tid e, l = .taskEnded tid (some e) ∧ s'.crashed ≠ []) ∨
      ∃ s1 n, Core s l s1 ∧ s' = s1.normalize n) := by
  have hrep : s.reported = false := by
    cases hx : s.reported with
    | false => rfl
    | true => unfold tstep? at h; simp [hx] at h
  refine ⟨hrep, ?_⟩
  have hie : s.crashed.isEmpty = true := by rw [hcr]; rfl
  have hrep' : ¬ s.reported = true := by simp [hrep]
  cases l with
  | taskEnded tid exc =>
    cases exc with
    | none =>
      unfold tstep? at h
      simp only [hie, Bool.not_true, Bool.false_eq_true, if_false, if_true] at h
      split at h
      · exact absurd h (by simp)
      cases hsp : s.spec? tid with
      | none => simp [hsp] at h
      | some sp =>
        cases hst : s.statusOf tid with
        | none => simp [hsp, hst] at h
        | some st =>
          simp only [hsp, hst] at h
          obtain ⟨hok, h⟩ := ite_some_none h
          refine Or.inr ⟨_, _, Core.taskEnded tid st hst ?_, h.symm⟩
          intro e he
          subst he
          simp at hok
    | some e =>
      refine Or.inl ⟨tid, e, rfl, ?_⟩
      unfold tstep? at h
      simp only [hie, Bool.not_true, Bool.false_eq_true, if_false, if_true] at h
      split at h
      · exact absurd h (by simp)
      cases hsp : s.spec? tid with
      | none => simp [hsp] at h
      | some sp =>
        cases hst : s.statusOf tid with
        | none => simp [hsp, hst] at h
        | some st =>
          simp only [hsp, hst] at h
          obtain ⟨hok, h⟩ := ite_some_none h
          subst h
          rw [(normalize_frame _ _).2.2.2]
          simp
  | taskClosed tid =>
    unfold tstep? at h
    simp only [hie, Bool.not_true, Bool.false_eq_true, if_false, if_true] at h
    split at h
    · exact absurd h (by simp)
    split at h
    · rename_i e hst
      injection h with h
      exact Or.inr ⟨_, _, Core.taskClosed tid e hst, h.symm⟩
    · exact absurd h (by simp)
  | exitBegin =>
    unfold tstep? at h
    simp only [hie, Bool.not_true, Bool.false_eq_true, if_false, if_true] at h
    split at h
    · exact absurd h (by simp)
    split at h
    · rename_i hcond
      injection h with h
      refine Or.inr ⟨_, _, Core.exitBegin ?_, h.symm⟩
      simpa using hcond
    · exact absurd h (by simp)
  | cbRun id =>
    unfold tstep? at h
    simp only [hie, Bool.not_true, Bool.false_eq_true, if_false, if_true] at h
    split at h
    · exact absurd h (by simp)
    split at h
    · rename_i hcond
      simp only [Bool.and_eq_true, Option.isNone_iff_eq_none] at hcond
      split at h
      · rename_i id' r rest hstk
        split at h
        · rename_i hid
          have hid' : id = id' := by simpa using hid
          subst hid'
          cases hla : alookup id s.lates with
          | none =>
            simp only [hla] at h
            injection h with h
            exact Or.inr ⟨_, _, Core.cbRun id r rest _ hcond.1 hcond.2 hstk (Or.inl hla), h.symm⟩
          | some tid =>
            cases hst : s.statusOf tid with
            | none =>
              simp only [hla, hst] at h
              injection h with h
              exact Or.inr ⟨_, _, Core.cbRunLate id r rest _ tid hcond.1 hcond.2 hstk hla hst, h.symm⟩
            | some st =>
              simp only [hla, hst] at h
              injection h with h
              exact Or.inr ⟨_, _, Core.cbRun id r rest _ hcond.1 hcond.2 hstk
                (Or.inr ⟨tid, st, hla, hst⟩), h.symm⟩
        · exact absurd h (by simp)
      · exact absurd h (by simp)
    · exact absurd h (by simp)
  | lateStarted tid =>
    unfold tstep? at h
    simp only [hie, Bool.not_true, Bool.false_eq_true, if_false, if_true] at h
    split at h
    · exact absurd h (by simp)
    split at h
    · rename_i hcond
      simp only [Bool.and_eq_true, List.any_eq_true, beq_iff_eq] at hcond
      injection h with h
      obtain ⟨⟨hexi, hsome⟩, ⟨cb, t⟩, hmem, ht⟩ := hcond
      have ht' : t = tid := ht
      subst ht'
      refine Or.inr ⟨_, _, Core.lateStarted t hexi ?_ ⟨cb, hmem⟩, h.symm⟩
      intro hn
      rw [hn] at hsome
      exact absurd hsome (by simp)
    · exact absurd h (by simp)
  | actionCalled tid =>
    unfold tstep? at h
    simp only [hie, Bool.not_true, Bool.false_eq_true, if_false, if_true] at h
    split at h
    · exact absurd h (by simp)
    split at h
    · rename_i hcond
      simp only [Bool.and_eq_true, Option.isNone_iff_eq_none, Bool.not_eq_true',
        List.contains_eq_mem, decide_eq_false_iff_not] at hcond
      split at h
      · rename_i tid' rest sp hstk hsp
        split at h
        · rename_i raises hact
          split at h
          · rename_i hid
            have hid' : tid = tid' := by simpa using hid
            subst hid'
            injection h with h
            refine Or.inr ⟨_, _, Core.actionCalled tid rest sp raises _ hcond.1.1 hcond.1.2 hcond.2 hstk hsp
              hact ?_, h.symm⟩
            split
            · rename_i hst; exact Or.inr ⟨hst, rfl⟩
            · exact Or.inl rfl
          · exact absurd h (by simp)
        · exact absurd h (by simp)
      · exact absurd h (by simp)
    · exact absurd h (by simp)
  | cancelSeen tid =>
    unfold tstep? at h
    simp only [hie, Bool.not_true, Bool.false_eq_true, if_false, if_true] at h
    split at h
    · exact absurd h (by simp)
    split at h
    · rename_i sp hsp hst
      injection h with h
      exact Or.inr ⟨_, _, Core.cancelSeen tid sp _ hsp hst, h.symm⟩
    · exact absurd h (by simp)
  | cleanupTick tid =>
    unfold tstep? at h
    simp only [hie, Bool.not_true, Bool.false_eq_true, if_false, if_true] at h
    split at h
    · exact absurd h (by simp)
    split at h
    · rename_i n hst
      injection h with h
      exact Or.inr ⟨_, _, Core.cleanupTick tid n hst, h.symm⟩
    · exact absurd h (by simp)
  | blockLeft =>
    unfold tstep? at h
    simp only [hie, Bool.not_true, Bool.false_eq_true, if_false, if_true] at h
    split at h
    · exact absurd h (by simp)
    split at h
    · rename_i hcond
      simp only [Bool.and_eq_true, Option.isNone_iff_eq_none, Bool.not_eq_true',
        List.isEmpty_iff] at hcond
      injection h with h
      exact Or.inr ⟨_, _, Core.blockLeft hcond.1.1.1 hcond.1.1.2 hcond.1.2 hcond.2, h.symm⟩
    · exact absurd h (by simp)
  | taskSaw tid vals =>
    unfold tstep? at h
    simp only [hie, Bool.not_true, Bool.false_eq_true, if_false, if_true] at h
    split at h
    · exact absurd h (by simp)
    split at h
    · rename_i want hw
      split at h
      · rename_i hv
        have hv' : vals = want := by simpa using hv
        subst hv'
        injection h with h
        exact Or.inr ⟨_, _, Core.taskSaw tid vals hw, h.symm⟩
      · exact absurd h (by simp)
    · exact absurd h (by simp)
  | outcome leaves =>
    unfold tstep? at h
    simp only [hie, Bool.not_true, Bool.false_eq_true, if_false, if_true] at h
    split at h
    · exact absurd h (by simp)
    split at h
    · exact absurd h (by simp)
    · rename_i hl
      obtain ⟨hv, h⟩ := ite_some_none h
      have hv' : leaves = s.excs := by simpa using hv
      exact Or.inr ⟨_, _, Core.outcome leaves (by simpa using hl) hv', h.symm⟩

theorem tstep_inv (s s' : TSt) (l : TLab) (h : tstep? s l = some s') (hc : s'.crashed = []) :
    s.crashed = [] ∧ s.reported = false ∧ ∃ s1 n, Core s l s1 ∧ s' = s1.normalize n := by
  have hcr : s.crashed = [] := by
    apply Classical.byContradiction
    intro hne
    exact tstep_crashed_mode s s' l hne h hc
  obtain ⟨hrep, h0⟩ := tstep_inv0 s s' l h hcr
  refine ⟨hcr, hrep, ?_⟩
  rcases h0 with ⟨_, _, _, hne⟩ | h0
  · exact absurd hc hne
  · exact h0

/-! ### Elementary moves -/

/-- One elementary move of the normal mode: both the visible steps and the silent moves are
sequences of these. -/
inductive Mv (s : TSt) : TSt → Prop
  | set (tid : Nat) (st st' : TStatus) (hh h : List TLab) :
      hh = s.hist ++ h → (∀ t, TLab.actionCalled t ∉ h) →
      s.statusOf tid = some st → (∀ e, st ≠ .closed e) →
      (st' = .cancelAsked → ∃ sp, s.spec? tid = some sp ∧
        (sp.action = .cancel ∨ sp.action = .callable true)) →
      Mv s { s.setStatus tid st' with hist := hh }
  | flags (b1 b2 b3 : Bool) (hh h : List TLab) :
      hh = s.hist ++ h → (∀ t, TLab.actionCalled t ∉ h) →
      Mv s { s with exiting := b1, left := b2, reported := b3, hist := hh }
  | popCb (id : Nat) (r : Option Nat) (rest : List Item) (ex : List Nat) (hh h : List TLab) :
      hh = s.hist ++ h → (∀ t, TLab.actionCalled t ∉ h) →
      s.waitingFor = none → s.stack = .cb id r :: rest →
      Mv s { s with stack := rest, excs := ex, hist := hh }
  | popCbLate (id : Nat) (r : Option Nat) (rest : List Item) (ex : List Nat) (tid : Nat) :
      s.waitingFor = none → s.stack = .cb id r :: rest →
      alookup id s.lates = some tid → s.statusOf tid = none →
      Mv s { s.setStatus tid .running with
        stack := .fin tid :: rest, excs := ex, hist := s.hist ++ [.cbRun id] }
  | popFin (tid : Nat) (e : Option Nat) :
      s.waitingFor = some tid → s.statusOf tid = some (.closed e) →
      Mv s { s with waitingFor := none, stack := s.stack.filter (· != Item.fin tid) }
  | act (tid : Nat) (rest : List Item) (sp : TaskSpec) (hh : List TLab) :
      s.waitingFor = none → s.stack = .fin tid :: rest → s.spec? tid = some sp →
      (((sp.action = .cancel ∨ sp.action = .none_) ∧ hh = s.hist) ∨
        ((∃ r, sp.action = .callable r) ∧ tid ∉ s.acted ∧ hh = s.hist ++ [.actionCalled tid])) →
      Mv s { s with waitingFor := some tid, acted := tid :: s.acted, hist := hh }

theorem core_moves (P : TSt → Prop) (hP : ∀ s s', P s → Mv s s' → P s') (s s' : TSt) (l : TLab)
    (hc : Core s l s') (h : P s) : P s' := by
  cases hc with
  | taskEnded tid st hst hncl =>
    exact hP _ _ h (Mv.set tid st _ _ [_] rfl (by simp) hst hncl (by simp))
  | taskClosed tid e hst =>
    exact hP _ _ h (Mv.set tid _ _ _ [_] rfl (by simp) hst (by simp) (by simp))
  | exitBegin hex =>
    exact hP _ _ h (Mv.flags true s.left s.reported _ [_] rfl (by simp))
  | cbRun id r rest ex hex hw hstk _ =>
    exact hP _ _ h (Mv.popCb id r rest ex _ [_] rfl (by simp) hw hstk)
  | cbRunLate id r rest ex tid hex hw hstk hla hst =>
    exact hP _ _ h (Mv.popCbLate id r rest ex tid hw hstk hla hst)
  | lateStarted tid hex hst hla =>
    exact hP _ _ h (Mv.flags s.exiting s.left s.reported _ [_] rfl (by simp))
  | actionCalled tid rest sp raises s1 hex hw hna hstk hsp hact hs1 =>
    rcases hs1 with hs1 | ⟨hst, hs1⟩
    · subst hs1
      exact hP _ _ h (Mv.act tid rest sp _ hw hstk hsp (Or.inr ⟨⟨_, hact⟩, hna, rfl⟩))
    · subst hs1
      have h1 : P (s.setStatus tid (if raises then .cancelAsked else .stopAsked)) :=
        hP _ _ h (Mv.set tid _ _ s.hist [] (by simp) (by simp) hst (by simp)
          (by
            intro hca
            cases raises with
            | false => simp at hca
            | true => exact ⟨sp, hsp, Or.inr hact⟩))
      exact hP _ _ h1 (Mv.act tid rest sp _ hw hstk hsp (Or.inr ⟨⟨_, hact⟩, hna, rfl⟩))
  | cancelSeen tid sp c hsp hst =>
    exact hP _ _ h (Mv.set tid _ _ _ [_] rfl (by simp) hst (by simp) (by simp))
  | cleanupTick tid n hst =>
    exact hP _ _ h (Mv.set tid _ _ _ [_] rfl (by simp) hst (by simp) (by simp))
  | blockLeft =>
    exact hP _ _ h (Mv.flags s.exiting true s.reported _ [_] rfl (by simp))
  | taskSaw tid vals hv =>
    exact hP _ _ h (Mv.flags s.exiting s.left s.reported _ [_] rfl (by simp))
  | outcome leaves hl hv =>
    exact hP _ _ h (Mv.flags s.exiting s.left true _ [_] rfl (by simp))

theorem normalize_moves (P : TSt → Prop) (hP : ∀ s s', P s → Mv s s' → P s') (n : Nat) (s : TSt)
    (h : P s) : P (s.normalize n) := by
  refine normalize_induct P ?_ ?_ n s h
  · intro t tid e _ _ hw hst ht
    exact hP _ _ ht (Mv.popFin tid e hw hst)
  · intro t t1 tid rest sp _ _ hw hstk hsp hact h1 ht
    rcases h1 with h1 | ⟨hc, hst, h1⟩
    · subst h1
      exact hP _ _ ht (Mv.act tid rest sp _ hw hstk hsp (Or.inl ⟨hact, rfl⟩))
    · subst h1
      have h1 : P (t.setStatus tid .cancelAsked) := by
        rcases hst with hst | hst
        · exact hP _ _ ht (Mv.set tid _ _ t.hist [] (by simp) (by simp) hst (by simp)
            (fun _ => ⟨sp, hsp, Or.inl hc⟩))
        · exact hP _ _ ht (Mv.set tid _ _ t.hist [] (by simp) (by simp) hst (by simp)
            (fun _ => ⟨sp, hsp, Or.inl hc⟩))
      exact hP _ _ h1 (Mv.act tid rest sp _ hw hstk hsp (Or.inl ⟨hact, rfl⟩))

/-- Every accepted step that ends without a crash started without one and is a sequence of
elementary moves. -/
theorem tstep_moves (P : TSt → Prop) (hP : ∀ s s', P s → Mv s s' → P s') (s s' : TSt) (l : TLab)
    (h : tstep? s l = some s') (hc : s'.crashed = []) (hs : P s) : P s' := by
  obtain ⟨_, _, s1, n, hcore, rfl⟩ := tstep_inv s s' l h hc
  exact normalize_moves P hP n s1 (core_moves P hP s s1 l hcore hs)

theorem tstep_crashed_nil (s s' : TSt) (l : TLab) (h : tstep? s l = some s')
    (hc : s'.crashed = []) : s.crashed = [] := (tstep_inv s s' l h hc).1

theorem exec_crashed_nil (s s' : TSt) (ls : List TLab) (h : TExec s ls s')
    (hc : s'.crashed = []) : s.crashed = [] := by
  induction h with
  | nil s => exact hc
  | cons a b c l ls hs _ ih => exact tstep_crashed_nil _ _ _ hs (ih hc)

/-- Invariants of crash-free runs. -/
theorem exec_moves (P : TSt → Prop) (hP : ∀ s s', P s → Mv s s' → P s') (s0 s : TSt)
    (ls : List TLab) (h : TExec s0 ls s) (h0 : P s0) (hc : s.crashed = []) : P s := by
  induction h with
  | nil s => exact h0
  | cons s s' s'' l ls hstep _ ih =>
    rename_i hex
    have hc' : s'.crashed = [] := exec_crashed_nil _ _ _ hex hc
    exact ih (tstep_moves P hP s s' l hstep hc' h0) hc

/-! ### The invariants -/

/-- Invariants of crash-free runs that need no distinctness assumption. `I` is the initial stack. -/
structure Inv (I : List Item) (s : TSt) : Prop where
  wait_acted : ∀ tid, s.waitingFor = some tid → tid ∈ s.acted
  gone : ∀ tid, Item.fin tid ∈ I → Item.fin tid ∉ s.stack →
    (∃ e, s.statusOf tid = some (.closed e)) ∧ tid ∈ s.acted
  asked : ∀ tid, s.statusOf tid = some .cancelAsked →
    ∃ sp, s.spec? tid = some sp ∧ (sp.action = .cancel ∨ sp.action = .callable true)
  acted_called : ∀ tid sp r, tid ∈ s.acted → s.spec? tid = some sp → sp.action = .callable r →
    TLab.actionCalled tid ∈ s.hist
  called_acted : ∀ tid, TLab.actionCalled tid ∈ s.hist →
    tid ∈ s.acted ∧ ∃ sp r, s.spec? tid = some sp ∧ sp.action = .callable r
  count : ∀ tid, s.hist.count (TLab.actionCalled tid) ≤ 1
  gone_st : ∀ tid, s.statusOf tid ≠ none → Item.fin tid ∉ s.stack →
    (∃ e, s.statusOf tid = some (.closed e)) ∧ tid ∈ s.acted

theorem count_append_not_mem (a : TLab) (l h : List TLab) (hn : a ∉ h) :
    (l ++ h).count a = l.count a := by
  rw [List.count_append, List.count_eq_zero.mpr hn, Nat.add_zero]

theorem Inv.move (I : List Item) (s s' : TSt) (hi : Inv I s) (hm : Mv s s') : Inv I s' := by
  obtain ⟨h1, h2, h3, h4, h5, h6, h7⟩ := hi
  cases hm with
  | set tid st st' hh h hhe hnh hst hncl hask =>
    subst hhe
    refine ⟨h1, ?_, ?_, ?_, ?_, ?_, ?_⟩
    · intro t hI hns
      obtain ⟨⟨e, he⟩, ha⟩ := h2 t hI hns
      refine ⟨⟨e, ?_⟩, ha⟩
      show (s.setStatus tid st').statusOf t = _
      rw [statusOf_setStatus]
      by_cases htt : tid = t
      · subst htt; rw [hst] at he; exact absurd (Option.some.inj he) (hncl e)
      · simp only [htt, if_false]; exact he
    · intro t ht
      have ht' : (s.setStatus tid st').statusOf t = some .cancelAsked := ht
      rw [statusOf_setStatus] at ht'
      by_cases htt : tid = t
      · subst htt
        simp only [if_true] at ht'
        exact hask (Option.some.inj ht')
      · simp only [htt, if_false] at ht'
        exact h3 t ht'
    · intro t sp r ha hsp hact
      exact List.mem_append_left _ (h4 t sp r ha hsp hact)
    · intro t ht
      rcases List.mem_append.mp ht with ht | ht
      · exact h5 t ht
      · exact absurd ht (hnh t)
    · intro t
      show (s.hist ++ h).count _ ≤ 1
      rw [count_append_not_mem _ _ _ (hnh t)]; exact h6 t
    · intro t hsn hns
      have hsn' : s.statusOf t ≠ none := by
        have hsn'' : (s.setStatus tid st').statusOf t ≠ none := hsn
        rw [statusOf_setStatus] at hsn''
        by_cases htt : tid = t
        · subst htt; rw [hst]; simp
        · simpa only [htt, if_false] using hsn''
      obtain ⟨⟨e, he⟩, ha⟩ := h7 t hsn' hns
      refine ⟨⟨e, ?_⟩, ha⟩
      show (s.setStatus tid st').statusOf t = _
      rw [statusOf_setStatus]
      by_cases htt : tid = t
      · subst htt; rw [hst] at he; exact absurd (Option.some.inj he) (hncl e)
      · simp only [htt, if_false]; exact he
  | flags b1 b2 b3 hh h hhe hnh =>
    subst hhe
    refine ⟨h1, h2, h3, ?_, ?_, ?_, h7⟩
    · intro t sp r ha hsp hact
      exact List.mem_append_left _ (h4 t sp r ha hsp hact)
    · intro t ht
      rcases List.mem_append.mp ht with ht | ht
      · exact h5 t ht
      · exact absurd ht (hnh t)
    · intro t
      show (s.hist ++ h).count _ ≤ 1
      rw [count_append_not_mem _ _ _ (hnh t)]; exact h6 t
  | popCb id r rest ex hh h hhe hnh hw hstk =>
    subst hhe
    refine ⟨h1, ?_, h3, ?_, ?_, ?_, ?_⟩
    · intro t hI hns
      apply h2 t hI
      rw [hstk]
      intro hmem
      rcases List.mem_cons.mp hmem with hmem | hmem
      · exact absurd hmem (by simp)
      · exact hns hmem
    rotate_left 3
    · intro t hsn hns
      apply h7 t hsn
      rw [hstk]
      intro hmem
      rcases List.mem_cons.mp hmem with hmem | hmem
      · exact absurd hmem (by simp)
      · exact hns hmem
    · intro t sp r ha hsp hact
      exact List.mem_append_left _ (h4 t sp r ha hsp hact)
    · intro t ht
      rcases List.mem_append.mp ht with ht | ht
      · exact h5 t ht
      · exact absurd ht (hnh t)
    · intro t
      show (s.hist ++ h).count _ ≤ 1
      rw [count_append_not_mem _ _ _ (hnh t)]; exact h6 t
  | popFin tid e hw hst =>
    refine ⟨?_, ?_, h3, h4, h5, h6, ?_⟩
    · intro t ht; exact absurd ht (by simp)
    · intro t hI hns
      by_cases htt : t = tid
      · subst htt; exact ⟨⟨e, hst⟩, h1 t hw⟩
      · apply h2 t hI
        intro hmem
        apply hns
        show Item.fin t ∈ s.stack.filter (· != Item.fin tid)
        rw [List.mem_filter]
        exact ⟨hmem, by simp [htt]⟩
    · intro t hsn hns
      by_cases htt : t = tid
      · subst htt; exact ⟨⟨e, hst⟩, h1 t hw⟩
      · apply h7 t hsn
        intro hmem
        apply hns
        show Item.fin t ∈ s.stack.filter (· != Item.fin tid)
        rw [List.mem_filter]
        exact ⟨hmem, by simp [htt]⟩
  | popCbLate id r rest ex tid hw hstk hla hst =>
    have hother : ∀ t, t ≠ tid → (s.setStatus tid .running).statusOf t = s.statusOf t := by
      intro t ht
      rw [statusOf_setStatus]
      have hne : ¬ tid = t := fun e => ht e.symm
      simp only [hne, if_false]
    have hstack : ∀ t, Item.fin t ∉ Item.fin tid :: rest → Item.fin t ∉ s.stack := by
      intro t hns hmem
      rw [hstk] at hmem
      rcases List.mem_cons.mp hmem with hmem | hmem
      · exact absurd hmem (by simp)
      · exact hns (List.mem_cons_of_mem _ hmem)
    refine ⟨h1, ?_, ?_, ?_, ?_, ?_, ?_⟩
    · intro t hI hns
      obtain ⟨⟨e, he⟩, ha⟩ := h2 t hI (hstack t hns)
      have htt : t ≠ tid := by
        intro htt; subst htt; rw [hst] at he; exact absurd he (by simp)
      exact ⟨⟨e, (hother t htt).trans he⟩, ha⟩
    · intro t ht
      have ht' : (s.setStatus tid .running).statusOf t = some .cancelAsked := ht
      by_cases htt : t = tid
      · subst htt
        rw [statusOf_setStatus] at ht'
        simp at ht'
      · rw [hother t htt] at ht'
        exact h3 t ht'
    · intro t sp r ha hsp hact
      exact List.mem_append_left _ (h4 t sp r ha hsp hact)
    · intro t ht
      rcases List.mem_append.mp ht with ht | ht
      · exact h5 t ht
      · exact absurd ht (by simp)
    · intro t
      show (s.hist ++ [TLab.cbRun id]).count _ ≤ 1
      rw [count_append_not_mem _ _ _ (by simp)]; exact h6 t
    · intro t hsn hns
      have hsn' : (s.setStatus tid .running).statusOf t ≠ none := hsn
      have htt : t ≠ tid := by
        intro htt; subst htt; exact hns List.mem_cons_self
      rw [hother t htt] at hsn'
      obtain ⟨⟨e, he⟩, ha⟩ := h7 t hsn' (hstack t hns)
      exact ⟨⟨e, (hother t htt).trans he⟩, ha⟩
  | act tid rest sp hh hw hstk hsp hcase =>
    refine ⟨?_, ?_, h3, ?_, ?_, ?_, ?_⟩
    · intro t ht
      have : tid = t := Option.some.inj ht
      subst this
      exact List.mem_cons_self
    · intro t hI hns
      obtain ⟨he, ha⟩ := h2 t hI hns
      exact ⟨he, List.mem_cons_of_mem _ ha⟩
    rotate_left 3
    · intro t hsn hns
      obtain ⟨he, ha⟩ := h7 t hsn hns
      exact ⟨he, List.mem_cons_of_mem _ ha⟩
    · intro t sp' r ha hsp' hact
      show TLab.actionCalled t ∈ hh
      rcases List.mem_cons.mp ha with ha | ha
      · subst ha
        have hsp'' : s.spec? t = some sp' := hsp'
        rw [hsp] at hsp''
        have := Option.some.inj hsp''
        subst this
        rcases hcase with ⟨hcn, _⟩ | ⟨_, _, hhe⟩
        · rcases hcn with hcn | hcn <;> rw [hcn] at hact <;> exact absurd hact (by simp)
        · rw [hhe]; simp
      · have := h4 t sp' r ha hsp' hact
        rcases hcase with ⟨_, hhe⟩ | ⟨_, _, hhe⟩
        · rw [hhe]; exact this
        · rw [hhe]; exact List.mem_append_left _ this
    · intro t ht
      have ht' : TLab.actionCalled t ∈ hh := ht
      show t ∈ tid :: s.acted ∧ _
      rcases hcase with ⟨_, hhe⟩ | ⟨⟨r, hr⟩, _, hhe⟩
      · rw [hhe] at ht'
        obtain ⟨ha, hx⟩ := h5 t ht'
        exact ⟨List.mem_cons_of_mem _ ha, hx⟩
      · rw [hhe] at ht'
        rcases List.mem_append.mp ht' with ht' | ht'
        · obtain ⟨ha, hx⟩ := h5 t ht'
          exact ⟨List.mem_cons_of_mem _ ha, hx⟩
        · have : t = tid := by simpa using ht'
          subst this
          exact ⟨List.mem_cons_self, sp, r, hsp, hr⟩
    · intro t
      show hh.count _ ≤ 1
      rcases hcase with ⟨_, hhe⟩ | ⟨_, hna, hhe⟩
      · rw [hhe]; exact h6 t
      · rw [hhe]
        by_cases htt : t = tid
        · subst htt
          have hnm : TLab.actionCalled t ∉ s.hist := fun hm => hna (h5 t hm).1
          rw [List.count_append, List.count_eq_zero.mpr hnm]
          simp
        · rw [count_append_not_mem _ _ _ (by simp [htt])]; exact h6 t

theorem alookup_mem {α : Type} (k : Nat) (v : α) (l : List (Nat × α)) (h : alookup k l = some v) :
    (k, v) ∈ l := by
  induction l with
  | nil => simp at h
  | cons p l ih =>
    obtain ⟨k', v'⟩ := p
    rw [alookup_cons] at h
    by_cases hk : k' = k
    · simp only [hk, if_true] at h
      have := Option.some.inj h
      subst this; subst hk; exact List.mem_cons_self
    · simp only [hk, if_false] at h
      exact List.mem_cons_of_mem _ (ih h)

/-- The shape of the owner's stack: a suffix `rest` of the initial stack `I`, possibly with the
finalizer of one late task (`L`: callback ↦ late task) whose callback has run on top of it. -/
def Shape (I : List Item) (L : List (Nat × Nat)) (stk : List Item) (hist : List TLab) : Prop :=
  ∃ popped rest, popped ++ rest = I ∧
    (stk = rest ∨ ∃ cb tid, (cb, tid) ∈ L ∧ TLab.cbRun cb ∈ hist ∧ stk = .fin tid :: rest)

theorem Shape.mono {I : List Item} {L : List (Nat × Nat)} {stk : List Item} {h h' : List TLab}
    (hs : Shape I L stk h) (hsub : ∀ x, x ∈ h → x ∈ h') : Shape I L stk h' := by
  obtain ⟨p, rest, hp, hs | ⟨cb, tid, hL, hh, hs⟩⟩ := hs
  · exact ⟨p, rest, hp, Or.inl hs⟩
  · exact ⟨p, rest, hp, Or.inr ⟨cb, tid, hL, hsub _ hh, hs⟩⟩

/-- Invariants that need distinctness: the items of the initial stack `I` are pairwise distinct,
the late tasks `L` have no finalizer in `I`, and no two callbacks start the same late task. -/
structure Inv2 (I : List Item) (L : List (Nat × Nat)) (s : TSt) : Prop where
  suffix : Shape I L s.stack s.hist
  wait_head : ∀ tid, s.waitingFor = some tid → s.stack.head? = some (.fin tid)
  lates_eq : s.lates = L
  late_ran : ∀ cb tid, (cb, tid) ∈ L → s.statusOf tid ≠ none → TLab.cbRun cb ∈ s.hist

theorem filter_ne_self (x : Item) (l : List Item) (h : x ∉ l) : l.filter (· != x) = l := by
  rw [List.filter_eq_self]
  intro y hy
  have : y ≠ x := fun hxe => h (hxe ▸ hy)
  simpa using this

theorem Inv2.move (I : List Item) (L : List (Nat × Nat)) (hI : I.Nodup)
    (hLI : ∀ cb tid, (cb, tid) ∈ L → Item.fin tid ∉ I)
    (hLn : ∀ cb cb' tid, (cb, tid) ∈ L → (cb', tid) ∈ L → cb = cb')
    (s s' : TSt) (hi : Inv2 I L s) (hm : Mv s s') : Inv2 I L s' := by
  obtain ⟨h1, h2, h3, h4⟩ := hi
  cases hm with
  | set tid st st' hh h hhe hnh hst hncl hask =>
    subst hhe
    refine ⟨h1.mono (fun x hx => List.mem_append_left _ hx), h2, h3, ?_⟩
    intro cb t hL hsn
    apply List.mem_append_left
    apply h4 cb t hL
    have hsn' : (s.setStatus tid st').statusOf t ≠ none := hsn
    rw [statusOf_setStatus] at hsn'
    by_cases htt : tid = t
    · subst htt; rw [hst]; simp
    · simpa only [htt, if_false] using hsn'
  | flags b1 b2 b3 hh h hhe hnh =>
    subst hhe
    exact ⟨h1.mono (fun x hx => List.mem_append_left _ hx), h2, h3,
      fun cb t hL hsn => List.mem_append_left _ (h4 cb t hL hsn)⟩
  | popCb id r rest ex hh h hhe hnh hw hstk =>
    subst hhe
    refine ⟨?_, ?_, h3, fun cb t hL hsn => List.mem_append_left _ (h4 cb t hL hsn)⟩
    · obtain ⟨p, rest0, hp, hs | ⟨cb, t, _, _, hs⟩⟩ := h1
      · refine ⟨p ++ [.cb id r], rest, ?_, Or.inl rfl⟩
        rw [← hp, ← hs, hstk]; simp
      · rw [hstk] at hs; exact absurd (List.cons.inj hs).1 (by simp)
    · intro t ht
      have ht' : s.waitingFor = some t := ht
      rw [hw] at ht'; exact absurd ht' (by simp)
  | popCbLate id r rest ex tid hw hstk hla hst =>
    have hmemL : (id, tid) ∈ L := h3 ▸ alookup_mem id tid s.lates hla
    refine ⟨?_, ?_, h3, ?_⟩
    · obtain ⟨p, rest0, hp, hs | ⟨cb, t, _, _, hs⟩⟩ := h1
      · refine ⟨p ++ [.cb id r], rest, ?_, Or.inr ⟨id, tid, hmemL, ?_, rfl⟩⟩
        · rw [← hp, ← hs, hstk]; simp
        · show TLab.cbRun id ∈ s.hist ++ [TLab.cbRun id]
          simp
      · rw [hstk] at hs; exact absurd (List.cons.inj hs).1 (by simp)
    · intro t ht
      have ht' : s.waitingFor = some t := ht
      rw [hw] at ht'; exact absurd ht' (by simp)
    · intro cb t hL hsn
      show TLab.cbRun cb ∈ s.hist ++ [TLab.cbRun id]
      by_cases htt : t = tid
      · subst htt
        rw [hLn cb id t hL hmemL]; simp
      · apply List.mem_append_left
        apply h4 cb t hL
        have hsn' : (s.setStatus tid .running).statusOf t ≠ none := hsn
        rw [statusOf_setStatus] at hsn'
        have hne : ¬ tid = t := fun e => htt e.symm
        simpa only [hne, if_false] using hsn'
  | popFin tid e hw hst =>
    refine ⟨?_, ?_, h3, h4⟩
    · have hh := h2 tid hw
      obtain ⟨p, rest0, hp, hs | ⟨cb, t, hL, hran, hs⟩⟩ := h1
      · cases hstk : s.stack with
        | nil => rw [hstk] at hh; exact absurd hh (by simp)
        | cons a rest =>
          rw [hstk] at hh
          have ha : a = .fin tid := by simpa using hh
          subst ha
          have hnd : (Item.fin tid :: rest).Nodup := by
            have : (p ++ rest0).Nodup := hp ▸ hI
            rw [← hs, hstk] at this
            exact (List.nodup_append.mp this).2.1
          have hnm : Item.fin tid ∉ rest := (List.nodup_cons.mp hnd).1
          refine ⟨p ++ [.fin tid], rest, ?_, Or.inl ?_⟩
          · rw [← hp, ← hs, hstk]; simp
          · show List.filter (· != Item.fin tid) (Item.fin tid :: rest) = rest
            rw [List.filter_cons_of_neg (by simp)]
            exact filter_ne_self _ _ hnm
      · rw [hs] at hh
        have ht : t = tid := by simpa using hh
        subst ht
        have hnm : Item.fin t ∉ rest0 :=
          fun hm => hLI cb t hL (hp ▸ List.mem_append_right _ hm)
        refine ⟨p, rest0, hp, Or.inl ?_⟩
        show List.filter (· != Item.fin t) s.stack = rest0
        rw [hs, List.filter_cons_of_neg (by simp)]
        exact filter_ne_self _ _ hnm
    · intro t ht; exact absurd ht (by simp)
  | act tid rest sp hh hw hstk hsp hcase =>
    have hsub : ∀ x, x ∈ s.hist → x ∈ hh := by
      intro x hx
      rcases hcase with ⟨_, hhe⟩ | ⟨_, _, hhe⟩
      · rw [hhe]; exact hx
      · rw [hhe]; exact List.mem_append_left _ hx
    refine ⟨h1.mono hsub, ?_, h3, fun cb t hL hsn => hsub _ (h4 cb t hL hsn)⟩
    intro t ht
    have : tid = t := Option.some.inj ht
    subst this
    show s.stack.head? = _
    rw [hstk]; rfl

/-- While an ordinary callback is on top, the whole stack is part of the initial one. -/
theorem Inv2.cb_top (I : List Item) (L : List (Nat × Nat)) (s : TSt) (hi : Inv2 I L s) (id : Nat)
    (r : Option Nat) (rest : List Item) (hstk : s.stack = .cb id r :: rest) :
    ∃ popped, popped ++ s.stack = I := by
  obtain ⟨p, rest0, hp, hs | ⟨cb, t, _, _, hs⟩⟩ := hi.suffix
  · exact ⟨p, hs ▸ hp⟩
  · rw [hstk] at hs; exact absurd (List.cons.inj hs).1 (by simp)

/-! ### The initial state -/

def itemOf : Setup → Option Item
  | .reg id r => some (.cb id r)
  | .start sp => some (.fin sp.tid)
  | .res _ => none
  | .late _ _ => none

/-- The specification of a task, started by the set-up program or late. -/
def specOf : Setup → Option TaskSpec
  | .start sp => some sp
  | .late _ sp => some sp
  | _ => none

/-- The id of a task started by the set-up program. -/
def tidOf : Setup → Option Nat
  | .start sp => some sp.tid
  | _ => none

/-- The id of a task, started by the set-up program or late. -/
def allTidOf : Setup → Option Nat
  | .start sp => some sp.tid
  | .late _ sp => some sp.tid
  | _ => none

def cbIdOf : Setup → Option Nat
  | .reg id _ => some id
  | _ => none

def lateOf : Setup → Option (Nat × Nat)
  | .late cb sp => some (cb, sp.tid)
  | _ => none

def lateCbOf : Setup → Option Nat
  | .late cb _ => some cb
  | _ => none

theorem init_specs (prog : List Setup) : (TSt.init prog).specs = prog.filterMap specOf := by
  show List.filterMap _ prog = _
  congr 1

theorem init_lates (prog : List Setup) : (TSt.init prog).lates = prog.filterMap lateOf := by
  show List.filterMap _ prog = _
  congr 1

theorem init_status (prog : List Setup) :
    akeys (TSt.init prog).status = prog.filterMap tidOf := by
  show List.map Prod.fst (List.map _ (List.filterMap _ prog)) = _
  rw [List.map_map, List.map_filterMap]
  congr 1
  funext x
  cases x <;> rfl

theorem init_statusOf_none (prog : List Setup) (tid : Nat) (h : tid ∉ prog.filterMap tidOf) :
    (TSt.init prog).statusOf tid = none := by
  unfold TSt.statusOf
  rw [alookup_none_iff, init_status]
  exact h

theorem foldl_stack (prog : List Setup) (acc : List Item) :
    prog.foldl (fun st s => match s with
      | .reg id r => Item.cb id r :: st
      | .start sp => Item.fin sp.tid :: st
      | .res _ => st
      | .late _ _ => st) acc = (prog.filterMap itemOf).reverse ++ acc := by
  induction prog generalizing acc with
  | nil => rfl
  | cons x rest ih =>
    cases x with
    | reg id r =>
      rw [List.foldl_cons, ih, List.filterMap_cons_some (rfl : itemOf (.reg id r) = some (.cb id r))]; simp
    | start sp =>
      rw [List.foldl_cons, ih, List.filterMap_cons_some (rfl : itemOf (.start sp) = some (.fin sp.tid))]; simp
    | res v =>
      rw [List.foldl_cons, ih, List.filterMap_cons_none (rfl : itemOf (.res v) = none)]
    | late cb sp =>
      rw [List.foldl_cons, ih, List.filterMap_cons_none (rfl : itemOf (.late cb sp) = none)]

theorem init_stack (prog : List Setup) :
    (TSt.init prog).stack = (prog.filterMap itemOf).reverse := by
  exact (foldl_stack prog []).trans (by simp)

theorem init_stack_append (p q : List Setup) :
    (TSt.init (p ++ q)).stack = (TSt.init q).stack ++ (TSt.init p).stack := by
  simp [init_stack]

theorem mem_items_cb (prog : List Setup) (id : Nat) (r : Option Nat)
    (h : Item.cb id r ∈ prog.filterMap itemOf) : id ∈ prog.filterMap cbIdOf := by
  obtain ⟨a, ha, he⟩ := List.mem_filterMap.mp h
  refine List.mem_filterMap.mpr ⟨a, ha, ?_⟩
  cases a <;> simp [itemOf, cbIdOf] at he ⊢
  exact he.1

theorem mem_items_fin (prog : List Setup) (tid : Nat)
    (h : Item.fin tid ∈ prog.filterMap itemOf) : tid ∈ prog.filterMap tidOf := by
  obtain ⟨a, ha, he⟩ := List.mem_filterMap.mp h
  refine List.mem_filterMap.mpr ⟨a, ha, ?_⟩
  cases a <;> simp [itemOf, tidOf] at he ⊢
  exact he

theorem items_nodup (prog : List Setup) (h1 : (prog.filterMap tidOf).Nodup)
    (h2 : (prog.filterMap cbIdOf).Nodup) : (prog.filterMap itemOf).Nodup := by
  induction prog with
  | nil => simp
  | cons x rest ih =>
    cases x with
    | reg id r =>
      simp only [List.filterMap_cons, itemOf, cbIdOf, tidOf, List.nodup_cons] at h1 h2 ⊢
      exact ⟨fun hm => h2.1 (mem_items_cb rest id r hm), ih h1 h2.2⟩
    | start sp =>
      simp only [List.filterMap_cons, itemOf, cbIdOf, tidOf, List.nodup_cons] at h1 h2 ⊢
      exact ⟨fun hm => h1.1 (mem_items_fin rest sp.tid hm), ih h1.2 h2⟩
    | res v =>
      simp only [List.filterMap_cons, itemOf, cbIdOf, tidOf] at h1 h2 ⊢
      exact ih h1 h2
    | late cb sp =>
      simp only [List.filterMap_cons, itemOf, cbIdOf, tidOf] at h1 h2 ⊢
      exact ih h1 h2

theorem items_cb_unique (prog : List Setup) (h2 : (prog.filterMap cbIdOf).Nodup) (id : Nat)
    (r r' : Option Nat) (h : Item.cb id r ∈ prog.filterMap itemOf)
    (h' : Item.cb id r' ∈ prog.filterMap itemOf) : r = r' := by
  induction prog with
  | nil => simp at h
  | cons x rest ih =>
    cases x with
    | reg id0 r0 =>
      simp only [List.filterMap_cons, itemOf, cbIdOf, List.nodup_cons, List.mem_cons,
        Item.cb.injEq] at h h' h2
      rcases h with ⟨hid, hr⟩ | h
      · rcases h' with ⟨_, hr'⟩ | h'
        · rw [hr, hr']
        · subst hid; exact absurd (mem_items_cb rest id r' h') h2.1
      · rcases h' with ⟨hid, hr'⟩ | h'
        · subst hid; exact absurd (mem_items_cb rest id r h) h2.1
        · exact ih h2.2 h h'
    | start sp =>
      simp only [List.filterMap_cons, itemOf, cbIdOf, List.mem_cons, reduceCtorEq, false_or] at h h' h2
      exact ih h2 h h'
    | res v =>
      simp only [List.filterMap_cons, itemOf, cbIdOf] at h h' h2
      exact ih h2 h h'
    | late cb sp =>
      simp only [List.filterMap_cons, itemOf, cbIdOf] at h h' h2
      exact ih h2 h h'

/-! #### Task ids: started by the set-up program, and late -/

theorem allTid_perm (prog : List Setup) :
    (prog.filterMap allTidOf).Perm
      (prog.filterMap tidOf ++ (prog.filterMap lateOf).map (·.2)) := by
  induction prog with
  | nil => simp
  | cons x rest ih =>
    cases x with
    | reg id r => simpa only [List.filterMap_cons, allTidOf, tidOf, lateOf] using ih
    | start sp =>
      simp only [List.filterMap_cons, allTidOf, tidOf, lateOf, List.cons_append]
      exact ih.cons _
    | res v => simpa only [List.filterMap_cons, allTidOf, tidOf, lateOf] using ih
    | late cb sp =>
      simp only [List.filterMap_cons, allTidOf, tidOf, lateOf, List.map_cons]
      exact (ih.cons _).trans List.perm_middle.symm

theorem tid_nodup (prog : List Setup) (h1 : (prog.filterMap allTidOf).Nodup) :
    (prog.filterMap tidOf).Nodup :=
  (List.nodup_append.mp ((allTid_perm prog).nodup_iff.mp h1)).1

theorem late_tid_nodup (prog : List Setup) (h1 : (prog.filterMap allTidOf).Nodup) :
    ((prog.filterMap lateOf).map (·.2)).Nodup :=
  (List.nodup_append.mp ((allTid_perm prog).nodup_iff.mp h1)).2.1

theorem late_not_started (prog : List Setup) (h1 : (prog.filterMap allTidOf).Nodup) (cb tid : Nat)
    (h : (cb, tid) ∈ prog.filterMap lateOf) : tid ∉ prog.filterMap tidOf := by
  intro hm
  exact (List.nodup_append.mp ((allTid_perm prog).nodup_iff.mp h1)).2.2 tid hm tid
    (List.mem_map.mpr ⟨(cb, tid), h, rfl⟩) rfl

theorem mem_lates (prog : List Setup) (cb tid : Nat) :
    (cb, tid) ∈ prog.filterMap lateOf ↔ ∃ sp, Setup.late cb sp ∈ prog ∧ sp.tid = tid := by
  constructor
  · intro h
    obtain ⟨a, ha, he⟩ := List.mem_filterMap.mp h
    cases a with
    | late cb' sp =>
      simp only [lateOf, Option.some.injEq, Prod.mk.injEq] at he
      obtain ⟨h1, h2⟩ := he
      subst h1
      exact ⟨sp, ha, h2⟩
    | reg id r => simp [lateOf] at he
    | start sp => simp [lateOf] at he
    | res v => simp [lateOf] at he
  · rintro ⟨sp, hm, rfl⟩
    exact List.mem_filterMap.mpr ⟨_, hm, rfl⟩

theorem pairs_snd_unique (L : List (Nat × Nat)) (hn : (L.map (·.2)).Nodup) (a b c : Nat)
    (ha : (a, c) ∈ L) (hb : (b, c) ∈ L) : a = b := by
  induction L with
  | nil => simp at ha
  | cons p rest ih =>
    simp only [List.map_cons, List.nodup_cons] at hn
    rcases List.mem_cons.mp ha with ha1 | ha1
    · rcases List.mem_cons.mp hb with hb1 | hb1
      · rw [← ha1] at hb1; exact ((Prod.mk.inj hb1).1).symm
      · have hc : c = p.2 := by rw [← ha1]
        exact absurd (List.mem_map.mpr ⟨(b, c), hb1, hc⟩) hn.1
    · rcases List.mem_cons.mp hb with hb1 | hb1
      · have hc : c = p.2 := by rw [← hb1]
        exact absurd (List.mem_map.mpr ⟨(a, c), ha1, hc⟩) hn.1
      · exact ih hn.2 ha1 hb1

theorem alookup_of_mem (L : List (Nat × Nat)) (hn : (L.map (·.1)).Nodup) (k v : Nat)
    (h : (k, v) ∈ L) : alookup k L = some v := by
  induction L with
  | nil => simp at h
  | cons p rest ih =>
    obtain ⟨k', v'⟩ := p
    simp only [List.map_cons, List.nodup_cons] at hn
    rw [alookup_cons]
    rcases List.mem_cons.mp h with h | h
    · obtain ⟨h1, h2⟩ := Prod.mk.inj h
      subst h1; subst h2; simp
    · have hne : ¬ k' = k := by
        intro he
        subst he
        exact hn.1 (List.mem_map.mpr ⟨(k', v), h, rfl⟩)
      simp only [hne, if_false]
      exact ih hn.2 h

/-- The callback of a late task starts that task (each callback starts at most one). -/
theorem init_lates_lookup (prog : List Setup) (h3 : (prog.filterMap lateCbOf).Nodup) (cb : Nat)
    (sp : TaskSpec) (h : Setup.late cb sp ∈ prog) :
    alookup cb (TSt.init prog).lates = some sp.tid := by
  rw [init_lates]
  apply alookup_of_mem
  · have : (prog.filterMap lateOf).map (·.1) = prog.filterMap lateCbOf := by
      rw [List.map_filterMap]
      congr 1
      funext x
      cases x <;> rfl
    rw [this]; exact h3
  · exact (mem_lates prog cb sp.tid).mpr ⟨sp, h, rfl⟩

theorem init_stack_nodup (prog : List Setup) (h1 : (prog.filterMap allTidOf).Nodup)
    (h2 : (prog.filterMap cbIdOf).Nodup) : (TSt.init prog).stack.Nodup := by
  rw [init_stack]
  exact List.Nodup.perm (items_nodup prog (tid_nodup prog h1) h2) (List.reverse_perm _).symm

theorem init_stack_cb_unique (prog : List Setup) (h2 : (prog.filterMap cbIdOf).Nodup) (id : Nat)
    (r r' : Option Nat) (h : Item.cb id r ∈ (TSt.init prog).stack)
    (h' : Item.cb id r' ∈ (TSt.init prog).stack) : r = r' := by
  rw [init_stack, List.mem_reverse] at h h'
  exact items_cb_unique prog h2 id r r' h h'

theorem init_stack_mem_fin (prog : List Setup) (sp : TaskSpec) (h : Setup.start sp ∈ prog) :
    Item.fin sp.tid ∈ (TSt.init prog).stack := by
  rw [init_stack, List.mem_reverse]
  exact List.mem_filterMap.mpr ⟨_, h, rfl⟩

/-- A late task has no finalizer on the stack the set-up program leaves. -/
theorem init_stack_no_late (prog : List Setup) (h1 : (prog.filterMap allTidOf).Nodup)
    (cb tid : Nat) (h : (cb, tid) ∈ (TSt.init prog).lates) :
    Item.fin tid ∉ (TSt.init prog).stack := by
  rw [init_lates] at h
  rw [init_stack, List.mem_reverse]
  exact fun hm => late_not_started prog h1 cb tid h (mem_items_fin prog tid hm)

theorem init_stack_no_late_fin (prog : List Setup) (h1 : (prog.filterMap allTidOf).Nodup)
    (cb : Nat) (sp : TaskSpec) (h : Setup.late cb sp ∈ prog) :
    Item.fin sp.tid ∉ (TSt.init prog).stack :=
  init_stack_no_late prog h1 cb sp.tid
    (by rw [init_lates]; exact (mem_lates prog cb sp.tid).mpr ⟨sp, h, rfl⟩)

/-- Until its callback has run a late task has no status. -/
theorem init_statusOf_late (prog : List Setup) (h1 : (prog.filterMap allTidOf).Nodup)
    (cb : Nat) (sp : TaskSpec) (h : Setup.late cb sp ∈ prog) :
    (TSt.init prog).statusOf sp.tid = none :=
  init_statusOf_none prog sp.tid
    (late_not_started prog h1 cb sp.tid ((mem_lates prog cb sp.tid).mpr ⟨sp, h, rfl⟩))

theorem find_spec_of_nodup (L : List TaskSpec) (hn : (L.map (·.tid)).Nodup) (sp : TaskSpec)
    (h : sp ∈ L) : L.find? (·.tid == sp.tid) = some sp := by
  induction L with
  | nil => simp at h
  | cons a rest ih =>
    simp only [List.map_cons, List.nodup_cons] at hn
    rcases List.mem_cons.mp h with h | h
    · subst h; simp
    · have hne : a.tid ≠ sp.tid := by
        intro he
        apply hn.1
        rw [he]
        exact List.mem_map.mpr ⟨sp, h, rfl⟩
      rw [List.find?_cons_of_neg (by simpa using hne)]
      exact ih hn.2 h

theorem init_spec_of (prog : List Setup) (h1 : (prog.filterMap allTidOf).Nodup) (x : Setup)
    (sp : TaskSpec) (hx : x ∈ prog) (hs : specOf x = some sp) :
    (TSt.init prog).spec? sp.tid = some sp := by
  unfold TSt.spec?
  rw [init_specs]
  apply find_spec_of_nodup
  · have : (prog.filterMap specOf).map (·.tid) = prog.filterMap allTidOf := by
      rw [List.map_filterMap]
      congr 1
      funext x
      cases x <;> rfl
    rw [this]; exact h1
  · exact List.mem_filterMap.mpr ⟨_, hx, hs⟩

theorem init_spec (prog : List Setup) (h1 : (prog.filterMap allTidOf).Nodup) (sp : TaskSpec)
    (h : Setup.start sp ∈ prog) : (TSt.init prog).spec? sp.tid = some sp :=
  init_spec_of prog h1 _ sp h rfl

theorem init_spec_late (prog : List Setup) (h1 : (prog.filterMap allTidOf).Nodup) (cb : Nat)
    (sp : TaskSpec) (h : Setup.late cb sp ∈ prog) : (TSt.init prog).spec? sp.tid = some sp :=
  init_spec_of prog h1 _ sp h rfl

theorem alookup_map_const {α : Type} (f : α → Nat) (c v : TStatus) (L : List α) (k : Nat)
    (h : alookup k (L.map fun a => (f a, c)) = some v) : v = c := by
  induction L with
  | nil => simp at h
  | cons a rest ih =>
    rw [List.map_cons, alookup_cons] at h
    by_cases hk : f a = k
    · simp only [hk, if_true] at h; exact (Option.some.inj h).symm
    · simp only [hk, if_false] at h; exact ih h

theorem init_inv (prog : List Setup) : Inv (TSt.init prog).stack (TSt.init prog) := by
  refine ⟨?_, ?_, ?_, ?_, ?_, ?_, ?_⟩
  · intro t ht; exact absurd ht (by simp [TSt.init])
  · intro t hI hn; exact absurd hI hn
  · intro t ht
    have := alookup_map_const _ _ _ _ _ ht
    exact absurd this (by simp)
  · intro t sp r ha; exact absurd ha (by simp [TSt.init])
  · intro t ht; exact absurd ht (by simp [TSt.init])
  · intro t; simp [TSt.init]
  · intro t hsn hns
    exfalso
    apply hns
    have hk : t ∈ akeys (TSt.init prog).status := by
      apply Classical.byContradiction
      intro hk
      exact hsn ((alookup_none_iff _ _).mpr hk)
    rw [init_status] at hk
    obtain ⟨a, ha, he⟩ := List.mem_filterMap.mp hk
    rw [init_stack, List.mem_reverse]
    refine List.mem_filterMap.mpr ⟨a, ha, ?_⟩
    cases a <;> simp [tidOf, itemOf] at he ⊢
    exact he

theorem init_inv2 (prog : List Setup) (h1 : (prog.filterMap allTidOf).Nodup) :
    Inv2 (TSt.init prog).stack (TSt.init prog).lates (TSt.init prog) := by
  refine ⟨⟨[], _, rfl, Or.inl rfl⟩, ?_, rfl, ?_⟩
  · intro t ht; exact absurd ht (by simp [TSt.init])
  · intro cb t hL hsn
    rw [init_lates] at hL
    exact absurd (init_statusOf_none prog t (late_not_started prog h1 cb t hL)) hsn

theorem Mv.frame (s s' : TSt) (h : Mv s s') :
    s'.specs = s.specs ∧ s'.snaps = s.snaps ∧ s'.lates = s.lates ∧ s'.crashed = s.crashed := by
  cases h <;> exact ⟨rfl, rfl, rfl, rfl⟩

theorem Mv.status_some (s s' : TSt) (h : Mv s s') (t : Nat) (hs : s.statusOf t ≠ none) :
    s'.statusOf t ≠ none := by
  have key : ∀ tid st, (s.setStatus tid st).statusOf t ≠ none := by
    intro tid st
    rw [statusOf_setStatus]
    by_cases htt : tid = t
    · simp [htt]
    · simpa only [htt, if_false] using hs
  cases h with
  | set tid st st' hh h hhe hnh hst hncl hask => exact key tid st'
  | flags b1 b2 b3 hh h hhe hnh => exact hs
  | popCb id r rest ex hh h hhe hnh hw hstk => exact hs
  | popCbLate id r rest ex tid hw hstk hla hst => exact key tid .running
  | popFin tid e hw hst => exact hs
  | act tid rest sp hh hw hstk hsp hcase => exact hs

/-! ### Reachable crash-free states -/

theorem reach_inv (prog : List Setup) (ls : List TLab) (s : TSt)
    (h : TExec (TSt.init prog) ls s) (hc : s.crashed = []) : Inv (TSt.init prog).stack s :=
  exec_moves (Inv (TSt.init prog).stack) (Inv.move _) _ _ _ h (init_inv prog) hc

theorem reach_inv2 (prog : List Setup) (h1 : (prog.filterMap allTidOf).Nodup)
    (h2 : (prog.filterMap cbIdOf).Nodup) (ls : List TLab) (s : TSt)
    (h : TExec (TSt.init prog) ls s) (hc : s.crashed = []) :
    Inv2 (TSt.init prog).stack (TSt.init prog).lates s :=
  exec_moves (Inv2 (TSt.init prog).stack (TSt.init prog).lates)
    (Inv2.move _ _ (init_stack_nodup prog h1 h2) (init_stack_no_late prog h1)
      (fun cb cb' tid ha hb => by
        rw [init_lates] at ha hb
        exact pairs_snd_unique _ (late_tid_nodup prog h1) cb cb' tid ha hb))
    _ _ _ h (init_inv2 prog h1) hc

theorem reach_frame (prog : List Setup) (ls : List TLab) (s : TSt)
    (h : TExec (TSt.init prog) ls s) (hc : s.crashed = []) :
    s.specs = (TSt.init prog).specs ∧ s.snaps = snapshots prog [] ∧
      s.lates = (TSt.init prog).lates :=
  exec_moves (fun t => t.specs = (TSt.init prog).specs ∧ t.snaps = snapshots prog [] ∧
      t.lates = (TSt.init prog).lates)
    (fun a b hab hm => by
      obtain ⟨h1, h2, h3, _⟩ := Mv.frame a b hm
      exact ⟨h1.trans hab.1, h2.trans hab.2.1, h3.trans hab.2.2⟩) _ _ _ h ⟨rfl, rfl, rfl⟩ hc

/-! ### Conveniences for the statements -/

theorem tstep_core (s s' : TSt) (l : TLab) (h : tstep? s l = some s') (hcr : s.crashed = [])
    (hl : ∀ tid e, l ≠ .taskEnded tid (some e)) : ∃ s1 n, Core s l s1 ∧ s' = s1.normalize n := by
  rcases (tstep_inv0 s s' l h hcr).2 with ⟨tid, e, he, _⟩ | h0
  · exact absurd he (hl tid e)
  · exact h0

theorem tstep_outcome_crashed (s s' : TSt) (leaves : List Nat) (hcr : s.crashed ≠ [])
    (h : tstep? s (.outcome leaves) = some s') :
    s.crashed.all (fun e => leaves.contains e) = true := by
  have hne : s.crashed.isEmpty = false := by
    cases hx : s.crashed with
    | nil => exact absurd hx hcr
    | cons a b => rfl
  unfold tstep? at h
  simp only [hne, Bool.not_false, if_true] at h
  split at h
  · exact absurd h (by simp)
  · obtain ⟨hc, _⟩ := ite_some_none h
    simp only [Bool.and_eq_true] at hc
    exact hc.2

/-- A task body ending with an exception, from a crash-free state, records that exception. -/
theorem tstep_taskEnded_exc (s s' : TSt) (tid e : Nat) (hcr : s.crashed = [])
    (h : tstep? s (.taskEnded tid (some e)) = some s') : e ∈ s'.crashed := by
  have hie : s.crashed.isEmpty = true := by rw [hcr]; rfl
  unfold tstep? at h
  simp only [hie, Bool.not_true, Bool.false_eq_true, if_false, if_true] at h
  split at h
  · exact absurd h (by simp)
  cases hsp : s.spec? tid with
  | none => simp [hsp] at h
  | some sp =>
    cases hst : s.statusOf tid with
    | none => simp [hsp, hst] at h
    | some st =>
      simp only [hsp, hst] at h
      obtain ⟨hok, h⟩ := ite_some_none h
      subst h
      rw [(normalize_frame _ _).2.2.2]
      simp

theorem init_stack_reg (id : Nat) (r : Option Nat) :
    (TSt.init [.reg id r]).stack = [.cb id r] := rfl

theorem init_stack_start (sp : TaskSpec) : (TSt.init [.start sp]).stack = [.fin sp.tid] := rfl

theorem nodup_split_unique {α : Type} (p q p' q' : List α) (x : α) (hn : (p ++ x :: q).Nodup)
    (he : p ++ x :: q = p' ++ x :: q') : p = p' ∧ q = q' := by
  induction p generalizing p' with
  | nil =>
    cases p' with
    | nil => exact ⟨rfl, (List.cons.inj he).2⟩
    | cons y p'' =>
      have h1 := List.cons.inj he
      have hx : x ∈ q := by rw [h1.2]; simp
      exact absurd hx (List.nodup_cons.mp hn).1
  | cons a p1 ih =>
    cases p' with
    | nil =>
      have h1 := List.cons.inj he
      have hx : a ∈ p1 ++ x :: q := by rw [h1.1]; simp
      exact absurd hx (List.nodup_cons.mp hn).1
    | cons b p1' =>
      have h1 := List.cons.inj he
      obtain ⟨h2, h3⟩ := ih p1' (List.nodup_cons.mp hn).2 h1.2
      exact ⟨by rw [h1.1, h2], h3⟩

theorem taccept_exec (ls : List TLab) (s s' : TSt) (n : Nat) (h : taccept s ls n = .ok s') :
    TExec s ls s' := by
  induction ls generalizing s n with
  | nil =>
    unfold taccept at h
    injection h with h
    subst h
    exact TExec.nil s
  | cons l ls ih =>
    unfold taccept at h
    split at h
    · rename_i s1 hs1
      exact TExec.cons s s1 s' l ls hs1 (ih s1 (n + 1) h)
    · exact absurd h (by simp)

end Tk
end Asphalt
