/- Helper lemmas for Props/C01_sync.lean (cancellation and synchronous teardown callbacks). -/
import AsphaltProofs.Props.C01
import AsphaltProofs.Props.C01_mid
import AsphaltProofs.Lemmas.Mid

namespace Asphalt
namespace Sy

/-! ### forests of synchronous callbacks are not affected by cancellation -/

/-- Bounded form (the bound is on the size of the forest, `Cb` being a nested inductive). -/
theorem map_underCancel_of_sync_aux (n : Nat) :
    ∀ st : List Cb, stackSize st ≤ n → (∀ cb ∈ allCbs st, cb.isAsync = false) →
      st.map Cb.underCancel = st := by
  induction n with
  | zero =>
    intro st hn _
    cases st with
    | nil => rfl
    | cons c cs =>
      obtain ⟨id, p, a, b, regs, r⟩ := c
      rw [stackSize_cons, Cb.size_mk] at hn
      omega
  | succ n ih =>
    intro st hn h
    cases st with
    | nil => rfl
    | cons c cs =>
      obtain ⟨id, p, a, b, regs, r⟩ := c
      rw [stackSize_cons, Cb.size_mk] at hn
      rw [allCbs_cons] at h
      have ha : a = false := h _ List.mem_cons_self
      subst ha
      have hregs : regs.map Cb.underCancel = regs :=
        ih regs (by omega)
          (fun d hd => h d (List.mem_cons_of_mem _ (List.mem_append_left _ hd)))
      have hcs : cs.map Cb.underCancel = cs :=
        ih cs (by omega)
          (fun d hd => h d (List.mem_cons_of_mem _ (List.mem_append_right _ hd)))
      rw [List.map_cons, underCancel_sync, hregs, hcs]

/-- A forest all of whose callbacks are synchronous is its own image in a cancelled scope. -/
theorem map_underCancel_of_sync (st : List Cb) (h : ∀ cb ∈ allCbs st, cb.isAsync = false) :
    st.map Cb.underCancel = st :=
  map_underCancel_of_sync_aux (stackSize st) st (Nat.le_refl _) h

/-- Everything directly on the stack belongs to the forest. -/
theorem mem_allCbs_of_mem (st : List Cb) (c : Cb) (hm : c ∈ st) : c ∈ allCbs st := by
  induction st with
  | nil => cases hm
  | cons d ds ih =>
    obtain ⟨id, p, a, b, regs, r⟩ := d
    rw [allCbs_cons]
    rcases List.mem_cons.1 hm with h | h
    · rw [h]; exact List.mem_cons_self
    · exact List.mem_cons_of_mem _ (List.mem_append_right _ (ih h))

/-- The forest of a member of the stack is part of the forest of the stack. -/
theorem allCbs_singleton_subset (st : List Cb) (c : Cb) (hm : c ∈ st) :
    ∀ d ∈ allCbs [c], d ∈ allCbs st := by
  induction st with
  | nil => cases hm
  | cons e es ih =>
    intro d hd
    have he : allCbs (e :: es) = allCbs [e] ++ allCbs es := by
      rw [← allCbs_append, List.singleton_append]
    rw [he]
    rcases List.mem_cons.1 hm with h | h
    · subst h; exact List.mem_append_left _ hd
    · exact List.mem_append_right _ (ih h d hd)

/-- A callback whose whole tree is synchronous is not affected by cancellation. -/
theorem underCancel_of_sync (st : List Cb) (h : ∀ cb ∈ allCbs st, cb.isAsync = false)
    (c : Cb) (hm : c ∈ st) : c.underCancel = c := by
  have h1 : [c].map Cb.underCancel = [c] :=
    map_underCancel_of_sync [c] (fun d hd => h d (allCbs_singleton_subset st c hm d hd))
  rw [List.map_cons, List.map_nil] at h1
  exact List.head_eq_of_cons_eq h1

/-! ### `effStack`, `midStack`, `midEff` on synchronous forests -/

theorem effStack_of_sync (be : BlockEnd) (st : List Cb)
    (h : ∀ cb ∈ allCbs st, cb.isAsync = false) : effStack be st = st :=
  Cn.effStack_of_fixed be st (underCancel_of_sync st h)

theorem midStack_of_sync (k : Nat) (st : List Cb)
    (h : ∀ cb ∈ allCbs st, cb.isAsync = false) : midStack k st = st := by
  induction st with
  | nil => rfl
  | cons c cs ih =>
    obtain ⟨id, p, a, b, regs, r⟩ := c
    rw [allCbs_cons] at h
    have ha : a = false := h _ List.mem_cons_self
    subst ha
    have hregs : ∀ d ∈ allCbs regs, d.isAsync = false :=
      fun d hd => h d (List.mem_cons_of_mem _ (List.mem_append_left _ hd))
    have hcs : ∀ d ∈ allCbs cs, d.isAsync = false :=
      fun d hd => h d (List.mem_cons_of_mem _ (List.mem_append_right _ hd))
    by_cases hk : id = k
    · subst hk
      rw [Mid.midStack_cons_hit, map_underCancel_of_sync regs hregs,
        map_underCancel_of_sync cs hcs]
      rfl
    · rw [Mid.midStack_cons_miss k (Cb.mk id p false b regs r) cs hk, ih hcs]

theorem midEff_of_sync (be : BlockEnd) (k : Nat) (st : List Cb)
    (h : ∀ cb ∈ allCbs st, cb.isAsync = false) : midEff be k st = st := by
  cases hb : be.isCancel with
  | true => rw [Mid.midEff_of_cancel be k st hb, effStack_of_sync be st h]
  | false => rw [Mid.midEff_of_not_cancel be k st hb, midStack_of_sync k st h]

/-- Leaving a context all of whose callbacks are synchronous: `exitMid` is `exit`. -/
theorem step_exitMid_of_sync (w : World) (t : TaskId) (c : CtxId) (be : BlockEnd) (k : Nat) (x : Ctx)
    (hx : w.ctx? c = some x) (h : ∀ cb ∈ allCbs x.tds, cb.isAsync = false) :
    step w (.exitMid t c be k) = step w (.exit t c be) := by
  simp only [step, hx, midEff_of_sync be k x.tds h, effStack_of_sync be x.tds h]

/-! ### a synchronous callback during which the scope is cancelled -/

/-- The stack: the synchronous callback `k` keeps its outcome. -/
theorem midStack_sync_hit (k : Nat) (above below : List Cb) (p : Bool) (body : List BodyOp)
    (regs : List Cb) (r : Option Exc) (hab : ∀ cb ∈ above, cb.id ≠ k) :
    midStack k (above ++ Cb.mk k p false body regs r :: below) =
      above ++ Cb.mk k p false body (regs.map Cb.underCancel) r :: below.map Cb.underCancel := by
  rw [Mid.midStack_append_hit k above below p false body regs r hab]
  rfl

theorem runOrder_midStack_sync (k : Nat) (above below : List Cb) (p : Bool) (body : List BodyOp)
    (regs : List Cb) (r : Option Exc) (hab : ∀ cb ∈ above, cb.id ≠ k) :
    runOrder (midStack k (above ++ Cb.mk k p false body regs r :: below)) =
      runOrder above ++ Cb.mk k p false body (regs.map Cb.underCancel) r ::
        runOrder ((regs.map Cb.underCancel).reverse ++ below.map Cb.underCancel) := by
  rw [midStack_sync_hit k above below p body regs r hab, Mid.runOrder_append, runOrder_cons]

/-- A directly registered synchronous callback in a cancelled scope. -/
theorem sync_survives (st : List Cb) (cb : Cb) (hm : cb ∈ st) (hs : cb.isAsync = false) :
    ∃ cb' ∈ st.map Cb.underCancel, cb'.id = cb.id ∧ cb'.passExc = cb.passExc ∧ cb'.isAsync = false ∧
      cb'.body = cb.body ∧ cb'.raises = cb.raises ∧
      cb'.registers = cb.registers.map Cb.underCancel := by
  refine ⟨cb.underCancel, List.mem_map_of_mem hm, ?_⟩
  obtain ⟨id, p, a, b, regs, r⟩ := cb
  change a = false at hs
  subst hs
  rw [underCancel_sync]
  exact ⟨rfl, rfl, rfl, rfl, rfl, rfl⟩

/-- Nothing asynchronous left to run: the stack is the registered one. -/
theorem midEff_sync_invisible (be : BlockEnd) (k : Nat) (above below : List Cb) (p : Bool)
    (body : List BodyOp) (regs : List Cb) (r : Option Exc)
    (hab : ∀ cb ∈ above, cb.id ≠ k) (hbe : be.isCancel = false)
    (hr : ∀ cb ∈ allCbs regs, cb.isAsync = false) (hb : ∀ cb ∈ allCbs below, cb.isAsync = false) :
    midEff be k (above ++ Cb.mk k p false body regs r :: below) =
      above ++ Cb.mk k p false body regs r :: below := by
  rw [Mid.midEff_of_not_cancel be k _ hbe, midStack_sync_hit k above below p body regs r hab,
    map_underCancel_of_sync regs hr, map_underCancel_of_sync below hb]

/-- The run of the non-vacuity example of Props/C01_sync.lean. -/
theorem example_run :
    runOrder (midStack 2 [Cb.mk 3 false true [] [] none,
        Cb.mk 2 true false [.current] [] (some (.exn 0)), Cb.mk 1 false true [] [] none]) =
      [Cb.mk 3 false true [] [] none, Cb.mk 2 true false [.current] [] (some (.exn 0)),
        Cb.mk 1 false true [] [] (some .cancelled)] := by
  rw [Mid.midStack_cons_miss 2 _ _ (by decide), Mid.midStack_cons_hit]
  simp only [List.map_cons, List.map_nil, underCancel_async, runOrder_cons, runOrder_nil,
    List.reverse_nil, List.nil_append]
  rfl

end Sy
end Asphalt
