/- The two ways of leaving a block (`Op.exit`, `Op.exitMid`) differ only in the stack that is torn
down (`effStack be x.tds` / `midEff be k x.tds`). `exitWith` is their common body, parametrised
by the function that gives that stack; lemmas about leaving a block are proved once, for
`exitWith`, and specialised through `step_exit_exitWith` / `step_exitMid_exitWith`. -/
import AsphaltModel.Context

namespace Asphalt

/-- The `exit` / `exitMid` case of `step`, with the stack to tear down given by `stk`. -/
def exitWith (w : World) (t : TaskId) (c : CtxId) (be : BlockEnd) (stk : List Cb → List Cb) :
    World × List Out :=
  match w.ctx? c with
  | Option.none => (w, [.badOp])
  | some x =>
    if x.state ≠ .opened then (w, [.badOp])
    else
      let x1 := { x with state := .closing, tds := [] }
      let (x2, tr, excs) := runTeardown c (w.curOf t) be (stk x.tds) x1
      let x3 := { x2 with state := .closed }
      let w1 := (w.setCtx c x3).setCur t (x.token.getD Option.none)
      let w2 := removeChild w1 x.parent c
      let isRoot := x.parent.isNone
      let outcome : Out :=
        if !excs.isEmpty then .exitGroup excs
        else match be with
          | .raised e =>
            if !isRoot && !x3.children.isEmpty then .corruption
            else .exitOwn e (isRoot && (match e with | .exn _ => false | _ => true))
          | .ret => if !x3.children.isEmpty then .corruption else .exitNormal
      (w2, tr ++ [.closed, outcome])

theorem step_exit_exitWith (w : World) (t : TaskId) (c : CtxId) (be : BlockEnd) :
    step w (.exit t c be) = exitWith w t c be (effStack be) := rfl

theorem step_exitMid_exitWith (w : World) (t : TaskId) (c : CtxId) (be : BlockEnd) (k : Nat) :
    step w (.exitMid t c be k) = exitWith w t c be (midEff be k) := rfl

end Asphalt
