/- Helper lemmas for cancellation of the block (`Cb.underCancel`, `effStack`): what the
effective stack keeps of the registered one, and what the run of a stack (any function that
follows the recursion of `runTeardown`, such as `runOrder` of Props/C01.lean) keeps of the
stack it started from. -/
import AsphaltModel.Context
import AsphaltProofs.Lemmas.Teardown

namespace Asphalt
namespace Cn

/-! ### `underCancel` keeps identity, flag and kind -/

theorem underCancel_id (c : Cb) : c.underCancel.id = c.id := by
  obtain ⟨id, p, a, b, regs, r⟩ := c
  cases a
  · rw [underCancel_sync]; rfl
  · rw [underCancel_async]; rfl

theorem underCancel_passExc (c : Cb) : c.underCancel.passExc = c.passExc := by
  obtain ⟨id, p, a, b, regs, r⟩ := c
  cases a
  · rw [underCancel_sync]; rfl
  · rw [underCancel_async]; rfl

theorem underCancel_isAsync (c : Cb) : c.underCancel.isAsync = c.isAsync := by
  obtain ⟨id, p, a, b, regs, r⟩ := c
  cases a
  · rw [underCancel_sync]; rfl
  · rw [underCancel_async]; rfl

/-- An asynchronous callback ends with the cancellation exception. -/
theorem underCancel_raises_of_async (c : Cb) (h : c.isAsync = true) :
    c.underCancel.raises = some .cancelled := by
  obtain ⟨id, p, a, b, regs, r⟩ := c
  change a = true at h
  subst h
  rw [underCancel_async]; rfl

/-- A synchronous callback that registers nothing is not affected. -/
theorem underCancel_sync_leaf (id : Nat) (p : Bool) (body : List BodyOp) (r : Option Exc) :
    (Cb.mk id p false body [] r).underCancel = Cb.mk id p false body [] r := by
  rw [underCancel_sync]; rfl

/-! ### `effStack` -/

theorem isCancel_eq_true (be : BlockEnd) : be.isCancel = true ↔ be = .raised .cancelled := by
  cases be with
  | ret => simp [BlockEnd.isCancel]
  | raised e => cases e <;> simp [BlockEnd.isCancel]

theorem isCancel_eq_false (be : BlockEnd) (h : be ≠ .raised .cancelled) : be.isCancel = false := by
  cases hb : be.isCancel with
  | false => rfl
  | true => exact absurd ((isCancel_eq_true be).1 hb) h

theorem effStack_cancelled (st : List Cb) :
    effStack (.raised .cancelled) st = st.map Cb.underCancel := by
  rw [← underCancelList_eq_map]
  rfl

/-- Either way of leaving the block, the effective stack is the registered one or its image
under `underCancel`. -/
theorem effStack_cases (be : BlockEnd) (st : List Cb) :
    effStack be st = st ∨ effStack be st = st.map Cb.underCancel := by
  cases hb : be.isCancel with
  | false => exact Or.inl (effStack_of_not_cancel be st hb)
  | true =>
    rw [(isCancel_eq_true be).1 hb]
    exact Or.inr (effStack_cancelled st)

/-- A stack of callbacks none of which is affected by cancellation runs as registered, however
the block was left. -/
theorem effStack_of_fixed (be : BlockEnd) (st : List Cb) (h : ∀ c ∈ st, c.underCancel = c) :
    effStack be st = st := by
  rcases effStack_cases be st with h' | h'
  · exact h'
  · rw [h']
    clear h'
    induction st with
    | nil => rfl
    | cons c cs ih =>
      rw [List.map_cons, h c (List.mem_cons_self), ih (fun d hd => h d (List.mem_cons_of_mem _ hd))]

theorem effStack_map_id (be : BlockEnd) (st : List Cb) :
    (effStack be st).map Cb.id = st.map Cb.id := by
  rcases effStack_cases be st with h | h
  · rw [h]
  · rw [h, List.map_map]
    exact List.map_congr_left (fun c _ => underCancel_id c)

/-- Every registered callback has a counterpart in the effective stack, with the same identity,
pass_exception flag and kind. -/
theorem effStack_counterpart (be : BlockEnd) (st : List Cb) (cb : Cb) (hm : cb ∈ st) :
    ∃ cb' ∈ effStack be st, cb'.id = cb.id ∧ cb'.passExc = cb.passExc ∧ cb'.isAsync = cb.isAsync := by
  rcases effStack_cases be st with h | h
  · rw [h]; exact ⟨cb, hm, rfl, rfl, rfl⟩
  · rw [h]
    exact ⟨cb.underCancel, List.mem_map_of_mem hm, underCancel_id cb, underCancel_passExc cb,
      underCancel_isAsync cb⟩

/-! ### runs of a stack -/

/-- A function that lists the callbacks of a stack along the recursion of `runTeardown`:
the top callback, then what it registered (last registered first), then the rest. -/
structure RunsLike (f : List Cb → List Cb) : Prop where
  nil : f [] = []
  cons : ∀ id p a b regs r stack,
    f (Cb.mk id p a b regs r :: stack) = Cb.mk id p a b regs r :: f (regs.reverse ++ stack)

/-- Everything on the stack is run. -/
theorem RunsLike.mem {f : List Cb → List Cb} (hf : RunsLike f) (st : List Cb) (c : Cb)
    (hm : c ∈ st) : c ∈ f st := by
  induction st using stack_induction with
  | nil => cases hm
  | cons id p a b regs r stack ih =>
    rw [hf.cons]
    rcases List.mem_cons.1 hm with h | h
    · rw [h]; exact List.mem_cons_self
    · exact List.mem_cons_of_mem _ (ih (List.mem_append_right _ h))

/-- What lies below on the stack runs in stack order, whatever is run (and registered) above it. -/
theorem RunsLike.sublist_ids {f : List Cb → List Cb} (hf : RunsLike f) (pre rest : List Cb) :
    (rest.map Cb.id).Sublist ((f (pre ++ rest)).map Cb.id) := by
  generalize hn : stackSize (pre ++ rest) = n
  induction n using Nat.strongRecOn generalizing pre rest with
  | _ n ih =>
    match pre, rest with
    | [], [] => rw [List.nil_append, hf.nil]; exact List.Sublist.slnil
    | [], Cb.mk id p a b regs r :: stack =>
      rw [List.nil_append, hf.cons, List.map_cons, List.map_cons]
      apply List.Sublist.cons_cons
      apply ih _ ?_ regs.reverse stack rfl
      subst hn
      simp only [List.nil_append, stackSize_cons, stackSize_append, stackSize_reverse, Cb.size_mk]
      omega
    | Cb.mk id p a b regs r :: pre', rest =>
      rw [List.cons_append, hf.cons, List.map_cons, ← List.append_assoc]
      apply List.Sublist.cons
      apply ih _ ?_ (regs.reverse ++ pre') rest rfl
      subst hn
      simp only [List.cons_append, stackSize_cons, stackSize_append, stackSize_reverse, Cb.size_mk]
      omega

/-- The directly registered callbacks keep their relative order in the run of the effective
stack. -/
theorem RunsLike.effStack_sublist {f : List Cb → List Cb} (hf : RunsLike f) (be : BlockEnd)
    (st : List Cb) : (st.map Cb.id).Sublist ((f (effStack be st)).map Cb.id) := by
  have h := hf.sublist_ids [] (effStack be st)
  rw [effStack_map_id, List.nil_append] at h
  exact h

/-- Every registered callback has a counterpart in the run of the effective stack. -/
theorem RunsLike.effStack_invoked {f : List Cb → List Cb} (hf : RunsLike f) (be : BlockEnd)
    (st : List Cb) (cb : Cb) (hm : cb ∈ st) :
    ∃ cb' ∈ f (effStack be st), cb'.id = cb.id ∧ cb'.passExc = cb.passExc ∧
      cb'.isAsync = cb.isAsync := by
  obtain ⟨cb', hm', h⟩ := effStack_counterpart be st cb hm
  exact ⟨cb', hf.mem _ _ hm', h⟩

/-! ### collected exceptions -/

/-- The exception of a raising callback on the stack is among the collected ones. -/
theorem raises_collected (cid : CtxId) (cur : Option CtxId) (be : BlockEnd) (st : List Cb) (x : Ctx) (c : Cb) (e : Exc)
    (hm : c ∈ st) (hr : c.raises = some e) : e ∈ (runTeardown cid cur be st x).2.2 := by
  induction st using stack_induction generalizing x with
  | nil => cases hm
  | cons id p a b regs r stack ih =>
    rw [runTeardown_cons]
    rcases List.mem_cons.1 hm with h | h
    · subst h
      change r = some e at hr
      subst hr
      exact List.mem_cons_self
    · have := ih (runBody cid cur x b).1 (List.mem_append_right _ h)
      cases r with
      | none => exact this
      | some e' => exact List.mem_cons_of_mem _ this

/-- Under cancellation, the cancellation of an asynchronous callback is collected. -/
theorem cancelled_collected (cid : CtxId) (cur : Option CtxId) (st : List Cb) (x : Ctx) (cb : Cb) (hm : cb ∈ st)
    (ha : cb.isAsync = true) :
    Exc.cancelled ∈
      (runTeardown cid cur (.raised .cancelled) (effStack (.raised .cancelled) st) x).2.2 := by
  rw [effStack_cancelled]
  exact raises_collected cid cur _ _ x cb.underCancel .cancelled (List.mem_map_of_mem hm)
    (underCancel_raises_of_async cb ha)

end Cn
end Asphalt
