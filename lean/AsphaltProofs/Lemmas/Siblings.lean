/- Helper lemmas for Props/C13_siblings.lean (several children of one parent). -/
import AsphaltProofs.Props.C13

namespace Asphalt
namespace Sib

/-! ### the world after leaving an open context -/

/-- The world after leaving the block of an open context, tearing down the stack `stk x.tds`. -/
theorem exitWith_world (w : World) (t : TaskId) (c : CtxId) (be : BlockEnd)
    (stk : List Cb → List Cb) (x : Ctx) (hx : w.ctx? c = some x) (hs : x.state = .opened) :
    (exitWith w t c be stk).1 =
      removeChild
        ((w.setCtx c { (runTeardown c (w.curOf t) be (stk x.tds) { x with state := .closing, tds := [] }).1 with
            state := .closed }).setCur t (x.token.getD Option.none)) x.parent c := by
  simp only [exitWith, hx, hs, ne_eq, not_true_eq_false, if_false]

/-- Leaving a child rewrites its parent's record to the same record without that child; every
other field of the parent is as it was. -/
theorem exitWith_parent (w : World) (t : TaskId) (c p : CtxId) (be : BlockEnd)
    (stk : List Cb → List Cb) (x px : Ctx) (hx : w.ctx? c = some x) (hs : x.state = .opened)
    (hp : x.parent = some p) (hne : p ≠ c) (hpx : w.ctx? p = some px) :
    (exitWith w t c be stk).1.ctx? p =
      some { px with children := px.children.filter (· ≠ c) } := by
  rw [exitWith_world w t c be stk x hx hs, hp]
  unfold removeChild
  simp only [World.ctx?_setCur, World.ctx?_setCtx_other _ _ _ _ hne.symm, hpx,
    World.ctx?_setCtx_same]

/-- Leaving a child does not touch a context that is neither the child nor its parent. -/
theorem exitWith_other (w : World) (t : TaskId) (c p d : CtxId) (be : BlockEnd)
    (stk : List Cb → List Cb) (x : Ctx) (hx : w.ctx? c = some x) (hs : x.state = .opened)
    (hp : x.parent = some p) (hdc : d ≠ c) (hdp : d ≠ p) :
    (exitWith w t c be stk).1.ctx? d = w.ctx? d := by
  rw [exitWith_world w t c be stk x hx hs, hp]
  unfold removeChild
  simp only [World.ctx?_setCur]
  split
  · rw [World.ctx?_setCur, World.ctx?_setCtx_other _ _ _ _ hdc.symm]
  · rw [World.ctx?_setCtx_other _ _ _ _ hdp.symm, World.ctx?_setCur,
      World.ctx?_setCtx_other _ _ _ _ hdc.symm]

theorem step_exit_parent (w : World) (t : TaskId) (c p : CtxId) (be : BlockEnd)
    (x px : Ctx) (hx : w.ctx? c = some x) (hs : x.state = .opened)
    (hp : x.parent = some p) (hne : p ≠ c) (hpx : w.ctx? p = some px) :
    (step w (.exit t c be)).1.ctx? p =
      some { px with children := px.children.filter (· ≠ c) } := by
  rw [step_exit_exitWith]; exact exitWith_parent w t c p be _ x px hx hs hp hne hpx

theorem step_exitMid_parent (w : World) (t : TaskId) (c p : CtxId) (be : BlockEnd) (k : Nat)
    (x px : Ctx) (hx : w.ctx? c = some x) (hs : x.state = .opened)
    (hp : x.parent = some p) (hne : p ≠ c) (hpx : w.ctx? p = some px) :
    (step w (.exitMid t c be k)).1.ctx? p =
      some { px with children := px.children.filter (· ≠ c) } := by
  rw [step_exitMid_exitWith]; exact exitWith_parent w t c p be _ x px hx hs hp hne hpx

theorem step_exit_other (w : World) (t : TaskId) (c p d : CtxId) (be : BlockEnd)
    (x : Ctx) (hx : w.ctx? c = some x) (hs : x.state = .opened)
    (hp : x.parent = some p) (hdc : d ≠ c) (hdp : d ≠ p) :
    (step w (.exit t c be)).1.ctx? d = w.ctx? d := by
  rw [step_exit_exitWith]; exact exitWith_other w t c p d be _ x hx hs hp hdc hdp

/-! ### the record -/

theorem mem_filter_ne {l : List CtxId} {c d : CtxId} (hd : d ∈ l) (hdc : d ≠ c) :
    d ∈ l.filter (· ≠ c) := by
  simp only [ne_eq, decide_not, List.mem_filter, Bool.not_eq_eq_eq_not, Bool.not_true,
    decide_eq_false_iff_not]
  exact ⟨hd, hdc⟩

theorem filter_filter_nil {l : List CtxId} {c d : CtxId} (hch : ∀ e ∈ l, e = c ∨ e = d) :
    (l.filter (· ≠ c)).filter (· ≠ d) = [] := by
  rw [List.filter_eq_nil_iff]
  intro e he
  rw [List.mem_filter] at he
  obtain ⟨hel, hec⟩ := he
  have hec' : e ≠ c := by simpa using hec
  rcases hch e hel with h | h
  · exact absurd h hec'
  · simp [h]

/-! ### nothing to tear down -/

theorem effStack_nil (be : BlockEnd) : effStack be [] = [] := by
  unfold effStack
  split
  · rw [Cb.underCancel.underCancelList]
  · rfl

theorem runTeardown_nil (cid : CtxId) (cur : Option CtxId) (be : BlockEnd) (x : Ctx) :
    runTeardown cid cur be [] x = (x, [], []) := by
  rw [runTeardown]

/-! ### the two-step histories -/

/-- A parent without teardown callbacks of its own, left normally while a child other than the one
that was just left is still on its record: reported. -/
theorem open_reported (w : World) (t t' : TaskId) (c p d : CtxId) (be : BlockEnd)
    (x px : Ctx) (hx : w.ctx? c = some x) (hs : x.state = .opened) (hp : x.parent = some p)
    (hne : p ≠ c) (hpx : w.ctx? p = some px) (hps : px.state = .opened) (hptd : px.tds = [])
    (hd : d ∈ px.children) (hdc : d ≠ c) :
    (step (step w (.exit t c be)).1 (.exit t' p .ret)).2.getLast? = some .corruption := by
  have hpx' := step_exit_parent w t c p be x px hx hs hp hne hpx
  refine C13_children_reported _ t' p .ret _ hpx' hps ?_ ?_ (Or.inl rfl)
  · exact List.ne_nil_of_mem (mem_filter_ne hd hdc)
  · show (runTeardown p _ .ret (effStack .ret px.tds) _).2.2 = []
    rw [hptd, effStack_nil, runTeardown_nil]

/-- Both children left: the record of a parent that had no other children is empty. -/
theorem all_left (w : World) (t t' : TaskId) (c p d : CtxId) (be be' : BlockEnd)
    (x y px : Ctx) (hx : w.ctx? c = some x) (hs : x.state = .opened) (hp : x.parent = some p)
    (hy : w.ctx? d = some y) (hys : y.state = .opened) (hyp : y.parent = some p)
    (hne : p ≠ c) (hne' : p ≠ d) (hcd : c ≠ d) (hpx : w.ctx? p = some px)
    (hch : ∀ e ∈ px.children, e = c ∨ e = d) :
    ((step (step w (.exit t c be)).1 (.exit t' d be')).1.ctx? p).map Ctx.children = some [] := by
  have hpx' := step_exit_parent w t c p be x px hx hs hp hne hpx
  have hy' : (step w (.exit t c be)).1.ctx? d = some y := by
    rw [step_exit_other w t c p d be x hx hs hp hcd.symm hne'.symm, hy]
  rw [step_exit_parent _ t' d p be' y _ hy' hys hyp hne' hpx']
  simp only [Option.map_some]
  rw [filter_filter_nil hch]

end Sib
end Asphalt
