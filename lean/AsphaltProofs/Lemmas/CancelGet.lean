/- Helper lemmas for Props/C04_cancel.lean (a suspended lookup is given up by its caller). -/
import AsphaltModel.Context
import AsphaltProofs.Lemmas.Assoc
import AsphaltProofs.Lemmas.Kernel
import AsphaltProofs.Lemmas.Kernel2
import AsphaltProofs.Props.C18

namespace Asphalt
namespace CG
open K2

/-! ### `wakeOrder` only reorders -/

theorem mem_wakeOrder (next : Option TaskId) (ws : List (TaskId × Key × Bool)) (w : TaskId × Key × Bool) :
    w ∈ wakeOrder next ws ↔ w ∈ ws := by
  cases next with
  | none => rfl
  | some t =>
    simp only [wakeOrder, List.mem_append, List.mem_filter, decide_eq_true_eq]
    by_cases h : w.1 = t <;> simp [h]

/-! ### one step of `resumeWaiters` -/

theorem resumeWaiters_cons_fst (cid : CtxId) (x : Ctx) (t : TaskId) (k : Key) (opt : Bool)
    (rest : List (TaskId × Key × Bool)) :
    (resumeWaiters cid x ((t, k, opt) :: rest)).1 =
      (resumeWaiters cid (ctxGet cid x t k opt).1 rest).1 := by
  simp only [resumeWaiters]

theorem resumeWaiters_cons_snd_blocked (cid : CtxId) (x : Ctx) (t : TaskId) (k : Key) (opt : Bool)
    (rest : List (TaskId × Key × Bool)) (h : (ctxGet cid x t k opt).2 = [.blocked]) :
    (resumeWaiters cid x ((t, k, opt) :: rest)).2 =
      (resumeWaiters cid (ctxGet cid x t k opt).1 rest).2 := by
  simp only [resumeWaiters, h, if_true]

theorem resumeWaiters_cons_snd_other (cid : CtxId) (x : Ctx) (t : TaskId) (k : Key) (opt : Bool)
    (rest : List (TaskId × Key × Bool)) (h : (ctxGet cid x t k opt).2 ≠ [.blocked]) :
    (resumeWaiters cid x ((t, k, opt) :: rest)).2 =
      .task t (ctxGet cid x t k opt).2 :: (resumeWaiters cid (ctxGet cid x t k opt).1 rest).2 := by
  simp only [resumeWaiters, Bool.false_eq_true, if_false]

/-! ### what a lookup does to the table of generations in flight -/

theorem registeredVal_ne_blocked (x : Ctx) (k : Key) : registeredVal x k ≠ .blocked := by
  unfold registeredVal; split <;> simp

/-- A lookup leaves `pending` alone and answers, or it answers `[.blocked]` and has joined the waiters of
a generation in flight, or has become the runner of a new one. -/
theorem ctxGet_pending (cid : CtxId) (x : Ctx) (t : TaskId) (k : Key) (opt : Bool) :
    ((ctxGet cid x t k opt).1.pending = x.pending ∧ (ctxGet cid x t k opt).2 ≠ [.blocked]) ∨
    (∃ fid p, x.pending.find? (fun p => p.fid = fid) = some p ∧
      (ctxGet cid x t k opt).1.pending = (addWaiter x fid (t, k, opt)).pending ∧
      (ctxGet cid x t k opt).2 = [.blocked]) ∨
    (∃ fid, (ctxGet cid x t k opt).1.pending = x.pending ++ [⟨fid, t, k, opt, []⟩] ∧
      (ctxGet cid x t k opt).2 = [.blocked]) := by
  apply ctxGet_cases (fun r => (r.1.pending = x.pending ∧ r.2 ≠ [.blocked]) ∨
    (∃ fid p, x.pending.find? (fun p => p.fid = fid) = some p ∧
      r.1.pending = (addWaiter x fid (t, k, opt)).pending ∧ r.2 = [.blocked]) ∨
    (∃ fid, r.1.pending = x.pending ++ [(⟨fid, t, k, opt, []⟩ : Pending)] ∧ r.2 = [.blocked]))
  · intro _; exact .inl ⟨rfl, by simp⟩
  · intro _ _ _; exact .inl ⟨rfl, by simp⟩
  · intro f p _ _ _ hp; exact .inr (.inl ⟨f.fid, p, hp, rfl, rfl⟩)
  · intro f _ _ _ _ _; exact .inr (.inr ⟨f.fid, rfl, rfl⟩)
  · intro f _ _ _ _ _ _; exact .inl ⟨rfl, by simp⟩
  · intro f _ _ _ _ _ _
    refine .inl ⟨(storeGenerated_fields cid (bumpCall x f) f _).2.1, ?_⟩
    intro h
    have := (List.cons.inj h).1
    exact registeredVal_ne_blocked _ _ this
  · intro _ _ _; exact .inl ⟨rfl, by cases opt <;> simp⟩

theorem mem_addWaiter (x : Ctx) (fid : Nat) (w : TaskId × Key × Bool) (q' : Pending) :
    q' ∈ (addWaiter x fid w).pending ↔
      ∃ q ∈ x.pending, q' = if q.fid = fid then { q with waiters := q.waiters ++ [w] } else q := by
  simp only [addWaiter, List.mem_map]
  constructor
  · rintro ⟨q, hq, rfl⟩; exact ⟨q, hq, rfl⟩
  · rintro ⟨q, hq, rfl⟩; exact ⟨q, hq, rfl⟩

/-- Task `t` is the runner of, or a waiter for, a generation in flight. -/
def Waits (x : Ctx) (t : TaskId) : Prop :=
  ∃ q ∈ x.pending, q.task = t ∨ ∃ w' ∈ q.waiters, w'.1 = t

/-- Later lookups only add to `pending` and to the waiter lists. -/
theorem ctxGet_waits_mono (cid : CtxId) (x : Ctx) (t : TaskId) (k : Key) (opt : Bool) (s : TaskId)
    (h : Waits x s) : Waits (ctxGet cid x t k opt).1 s := by
  obtain ⟨q, hq, hs⟩ := h
  rcases ctxGet_pending cid x t k opt with ⟨e, _⟩ | ⟨fid, p, _, e, _⟩ | ⟨fid, e, _⟩
  · exact ⟨q, by rw [e]; exact hq, hs⟩
  · refine ⟨_, by rw [e]; exact (mem_addWaiter _ _ _ _).mpr ⟨q, hq, rfl⟩, ?_⟩
    split
    · rcases hs with hs | ⟨w', hw', hs⟩
      · exact .inl hs
      · exact .inr ⟨w', List.mem_append_left _ hw', hs⟩
    · exact hs
  · exact ⟨q, by rw [e]; exact List.mem_append_left _ hq, hs⟩

/-- A lookup that answered `[.blocked]` has been recorded. -/
theorem ctxGet_blocked_waits (cid : CtxId) (x : Ctx) (t : TaskId) (k : Key) (opt : Bool)
    (h : (ctxGet cid x t k opt).2 = [.blocked]) : Waits (ctxGet cid x t k opt).1 t := by
  rcases ctxGet_pending cid x t k opt with ⟨_, hne⟩ | ⟨fid, p, hp, e, _⟩ | ⟨fid, e, _⟩
  · exact absurd h hne
  · have hpm : p ∈ x.pending := List.mem_of_find?_eq_some hp
    have hpf : p.fid = fid := by simpa using List.find?_some hp
    refine ⟨_, by rw [e]; exact (mem_addWaiter _ _ _ _).mpr ⟨p, hpm, rfl⟩, ?_⟩
    rw [if_pos hpf]
    exact .inr ⟨(t, k, opt), by simp, rfl⟩
  · exact ⟨⟨fid, t, k, opt, []⟩, by rw [e]; simp, .inl rfl⟩

theorem resumeWaiters_waits_mono (cid : CtxId) (ws : List (TaskId × Key × Bool)) (s : TaskId) :
    ∀ x, Waits x s → Waits (resumeWaiters cid x ws).1 s := by
  induction ws with
  | nil => intro x h; exact h
  | cons w ws ih =>
    intro x h
    obtain ⟨t, k, opt⟩ := w
    rw [resumeWaiters_cons_fst]
    exact ih _ (ctxGet_waits_mono cid x t k opt s h)

/-- No wake-up is lost: every resumed lookup has returned (a `.task` output carries its answer) or - its
`ctxGet` answered `[.blocked]` - it is the runner of a new pending entry or a waiter of an existing one;
later resumptions only add to `pending` and the waiter lists. -/
theorem resumeWaiters_accounted (cid : CtxId) (ws : List (TaskId × Key × Bool)) :
    ∀ x, ∀ w ∈ ws, (∃ o, Out.task w.1 o ∈ (resumeWaiters cid x ws).2) ∨
      Waits (resumeWaiters cid x ws).1 w.1 := by
  induction ws with
  | nil => intro x w hw; cases hw
  | cons w0 ws ih =>
    intro x w hw
    obtain ⟨t, k, opt⟩ := w0
    by_cases hb : (ctxGet cid x t k opt).2 = [.blocked]
    · rw [resumeWaiters_cons_fst, resumeWaiters_cons_snd_blocked _ _ _ _ _ _ hb]
      rcases List.mem_cons.mp hw with rfl | hw
      · exact .inr (resumeWaiters_waits_mono cid ws t _ (ctxGet_blocked_waits cid x t k opt hb))
      · exact ih _ w hw
    · rw [resumeWaiters_cons_fst, resumeWaiters_cons_snd_other _ _ _ _ _ _ hb]
      rcases List.mem_cons.mp hw with rfl | hw
      · exact .inl ⟨_, List.mem_cons_self⟩
      · rcases ih (ctxGet cid x t k opt).1 w hw with ⟨o, ho⟩ | h
        · exact .inl ⟨o, List.mem_cons_of_mem _ ho⟩
        · exact .inr h

/-! ### the label of the cancelled lookup does not come back -/

/-- `lid` is neither the runner of nor a waiter for any generation in flight. -/
def Clean (x : Ctx) (lid : TaskId) : Prop :=
  ∀ q ∈ x.pending, q.task ≠ lid ∧ ∀ w ∈ q.waiters, w.1 ≠ lid

theorem ctxGet_clean (cid : CtxId) (x : Ctx) (t : TaskId) (k : Key) (opt : Bool) (lid : TaskId)
    (ht : t ≠ lid) (h : Clean x lid) : Clean (ctxGet cid x t k opt).1 lid := by
  intro q' hq'
  rcases ctxGet_pending cid x t k opt with ⟨e, _⟩ | ⟨fid, p, _, e, _⟩ | ⟨fid, e, _⟩
  · rw [e] at hq'; exact h q' hq'
  · rw [e] at hq'
    obtain ⟨q, hq, rfl⟩ := (mem_addWaiter _ _ _ _).mp hq'
    split
    · refine ⟨(h q hq).1, ?_⟩
      intro w hw
      rcases List.mem_append.mp hw with hw | hw
      · exact (h q hq).2 w hw
      · rw [List.mem_singleton.mp hw]; exact ht
    · exact h q hq
  · rw [e] at hq'
    rcases List.mem_append.mp hq' with hq' | hq'
    · exact h q' hq'
    · rw [List.mem_singleton.mp hq']
      exact ⟨ht, fun w hw => by cases hw⟩

theorem resumeWaiters_clean (cid : CtxId) (ws : List (TaskId × Key × Bool)) (lid : TaskId) :
    ∀ x, (∀ w ∈ ws, w.1 ≠ lid) → Clean x lid → Clean (resumeWaiters cid x ws).1 lid := by
  induction ws with
  | nil => intro x _ h; exact h
  | cons w ws ih =>
    intro x hws h
    obtain ⟨t, k, opt⟩ := w
    rw [resumeWaiters_cons_fst]
    exact ih _ (fun w hw => hws w (List.mem_cons_of_mem _ hw))
      (ctxGet_clean cid x t k opt lid (hws _ List.mem_cons_self) h)

/-! ### the two ways `ctxCancelGet` can go -/

theorem ctxCancelGet_runner (cid : CtxId) (x : Ctx) (lid : TaskId) (next : Option TaskId) (p : Pending)
    (hp : x.pending.find? (fun q => q.task = lid) = some p) :
    ctxCancelGet cid x lid next =
      ((resumeWaiters cid (dropGen x p.fid) (wakeOrder next p.waiters)).1,
       .task lid [.raisedExc .cancelled] ::
         (resumeWaiters cid (dropGen x p.fid) (wakeOrder next p.waiters)).2) := by
  unfold ctxCancelGet
  rw [hp]
  rfl

theorem ctxCancelGet_waiter (cid : CtxId) (x : Ctx) (lid : TaskId) (next : Option TaskId)
    (hnp : x.pending.find? (fun q => q.task = lid) = none) :
    ctxCancelGet cid x lid next =
      if x.pending.any (fun p => p.waiters.any (fun w => w.1 = lid)) then
        (dropWaiter x lid, [.task lid [.raisedExc .cancelled]])
      else (x, [.badOp]) := by
  unfold ctxCancelGet
  rw [hnp]
  rfl

/-! ### the factories are never touched by lookups -/

theorem ctxGet_fac (cid : CtxId) (x : Ctx) (t : TaskId) (k : Key) (opt : Bool) :
    (ctxGet cid x t k opt).1.fac = x.fac := by
  apply ctxGet_cases (fun r => r.1.fac = x.fac) <;> intros
  all_goals first
    | rfl
    | exact (storeGenerated_fields cid _ _ _).1

theorem resumeWaiters_fac (cid : CtxId) (ws : List (TaskId × Key × Bool)) :
    ∀ x, (resumeWaiters cid x ws).1.fac = x.fac := by
  induction ws with
  | nil => intro x; rfl
  | cons w ws ih =>
    intro x
    obtain ⟨t, k, opt⟩ := w
    rw [resumeWaiters_cons_fst, ih, ctxGet_fac]

theorem ctxCancelGet_fac (cid : CtxId) (x : Ctx) (lid : TaskId) (next : Option TaskId) :
    (ctxCancelGet cid x lid next).1.fac = x.fac := by
  rcases ctxCancelGet_fst cid x lid next with e | ⟨p0, _, e⟩ | ⟨_, e⟩ <;> rw [e]
  · rw [resumeWaiters_fac]; rfl
  · rfl

/-! ### the event log -/

theorem evsOf_append (c : CtxId) (a b : List Out) : evsOf c (a ++ b) = evsOf c a ++ evsOf c b := by
  induction a with
  | nil => rfl
  | cons o a ih =>
    cases o
    case ev c' e =>
      rw [List.cons_append, evsOf_cons_ev, evsOf_cons_ev, ih]
      split <;> rfl
    all_goals
      rw [List.cons_append, evsOf_cons_nonev _ _ _ (by intros; simp),
        evsOf_cons_nonev _ _ _ (by intros; simp), ih]

/-- The outputs with the answers of the lookups that returned within the step (`.task t o`) spliced in:
what the listeners and callers see, in order, without the task labels. (`evsOf` reads the top level only.) -/
def unnest : List Out → List Out
  | [] => []
  | .task _ o :: rest => o ++ unnest rest
  | o :: rest => o :: unnest rest

theorem unnest_cons_task (t : TaskId) (o rest : List Out) :
    unnest (.task t o :: rest) = o ++ unnest rest := rfl

theorem unnest_cons_other (o : Out) (rest : List Out) (h : ∀ t os, o ≠ .task t os) :
    unnest (o :: rest) = o :: unnest rest := by
  cases o <;> first | rfl | exact absurd rfl (h _ _)

/-- At the top level `resumeWaiters` emits `.task` outputs only. -/
theorem resumeWaiters_out (cid : CtxId) (ws : List (TaskId × Key × Bool)) :
    ∀ x, ∀ o ∈ (resumeWaiters cid x ws).2, ∃ t os, o = .task t os := by
  induction ws with
  | nil => intro x o ho; simp [resumeWaiters] at ho
  | cons w ws ih =>
    intro x o ho
    obtain ⟨t, k, opt⟩ := w
    by_cases hb : (ctxGet cid x t k opt).2 = [.blocked]
    · rw [resumeWaiters_cons_snd_blocked _ _ _ _ _ _ hb] at ho
      exact ih _ o ho
    · rw [resumeWaiters_cons_snd_other _ _ _ _ _ _ hb] at ho
      rcases List.mem_cons.mp ho with rfl | ho
      · exact ⟨_, _, rfl⟩
      · exact ih _ o ho

theorem evsOf_tasks (c : CtxId) (l : List Out) (h : ∀ o ∈ l, ∃ t os, o = .task t os) : evsOf c l = [] := by
  induction l with
  | nil => rfl
  | cons o l ih =>
    obtain ⟨t, os, rfl⟩ := h o List.mem_cons_self
    rw [evsOf_cons_nonev _ _ _ (by intros; simp)]
    exact ih (fun o ho => h o (List.mem_cons_of_mem _ ho))

theorem ctxGet_log (cid : CtxId) (x : Ctx) (t : TaskId) (k : Key) (opt : Bool) :
    (ctxGet cid x t k opt).1.events = x.events ++ evsOf cid (ctxGet cid x t k opt).2 :=
  (ctxGet_shape cid x t k opt).log_sound.1

/-- The log grows by exactly the events in the answers of the lookups that looked again. -/
theorem resumeWaiters_log (cid : CtxId) (ws : List (TaskId × Key × Bool)) :
    ∀ x, (resumeWaiters cid x ws).1.events =
      x.events ++ evsOf cid (unnest (resumeWaiters cid x ws).2) := by
  induction ws with
  | nil => intro x; simp [resumeWaiters, unnest, evsOf]
  | cons w ws ih =>
    intro x
    obtain ⟨t, k, opt⟩ := w
    have hl := ctxGet_log cid x t k opt
    by_cases hb : (ctxGet cid x t k opt).2 = [.blocked]
    · rw [resumeWaiters_cons_fst, resumeWaiters_cons_snd_blocked _ _ _ _ _ _ hb, ih, hl, hb]
      simp [evsOf]
    · rw [resumeWaiters_cons_fst, resumeWaiters_cons_snd_other _ _ _ _ _ _ hb, ih, hl,
        unnest_cons_task, evsOf_append, List.append_assoc]

theorem ctxCancelGet_log (cid : CtxId) (x : Ctx) (lid : TaskId) (next : Option TaskId) :
    (ctxCancelGet cid x lid next).1.events =
      x.events ++ evsOf cid (unnest (ctxCancelGet cid x lid next).2) := by
  cases hp : x.pending.find? (fun q => q.task = lid) with
  | some p =>
    rw [ctxCancelGet_runner cid x lid next p hp]
    show (resumeWaiters cid (dropGen x p.fid) (wakeOrder next p.waiters)).1.events = _
    rw [resumeWaiters_log, unnest_cons_task, evsOf_append]
    simp [evsOf, dropGen]
  | none =>
    rw [ctxCancelGet_waiter cid x lid next hp]
    split <;> simp [evsOf, unnest, dropWaiter]

/-- A lookup through a gated asynchronous factory (or through none) dispatches nothing. -/
theorem ctxGet_events_gated (cid : CtxId) (x : Ctx) (t : TaskId) (k : Key) (opt : Bool)
    (hg : ∀ f, alookup k x.fac = some f → (f.isAsync && f.gated) = true) :
    (ctxGet cid x t k opt).1.events = x.events := by
  apply ctxGet_cases (fun r => r.1.events = x.events)
  · intro _; rfl
  · intro _ _ _; rfl
  · intro _ _ _ _ _ _; rfl
  · intro _ _ _ _ _ _; rfl
  · intro f _ _ hf _ hu _; rw [hg f hf] at hu; cases hu
  · intro f _ _ hf _ hu _; rw [hg f hf] at hu; cases hu
  · intro _ _ _; rfl

theorem resumeWaiters_events_gated (cid : CtxId) (ws : List (TaskId × Key × Bool)) :
    ∀ x, (∀ w ∈ ws, ∀ f, alookup w.2.1 x.fac = some f → (f.isAsync && f.gated) = true) →
      (resumeWaiters cid x ws).1.events = x.events := by
  induction ws with
  | nil => intro x _; rfl
  | cons w ws ih =>
    intro x hg
    obtain ⟨t, k, opt⟩ := w
    rw [resumeWaiters_cons_fst, ih, ctxGet_events_gated cid x t k opt (hg _ List.mem_cons_self)]
    intro w hw f hf
    rw [ctxGet_fac] at hf
    exact hg w (List.mem_cons_of_mem _ hw) f hf

/-- At its top level `ctxCancelGet` emits no event: the listener's view `evsOf` of the step is empty. -/
theorem ctxCancelGet_evsOf (cid : CtxId) (x : Ctx) (lid : TaskId) (next : Option TaskId) :
    evsOf cid (ctxCancelGet cid x lid next).2 = [] := by
  cases hp : x.pending.find? (fun q => q.task = lid) with
  | some p =>
    rw [ctxCancelGet_runner cid x lid next p hp]
    apply evsOf_tasks
    intro o ho
    rcases List.mem_cons.mp ho with rfl | ho
    · exact ⟨_, _, rfl⟩
    · exact resumeWaiters_out cid _ _ o ho
  | none =>
    rw [ctxCancelGet_waiter cid x lid next hp]
    split <;> simp [evsOf]

end CG
end Asphalt
