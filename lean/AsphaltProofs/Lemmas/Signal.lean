/-
Helper lemmas for the signal / event model (AsphaltModel/Signal.lean): the world invariant
`Inv`, its preservation by every operation, and the closed forms of `dispatchTo`, `pullBuf`,
`settleStream`, `settleAll` used by the C10 / C11 property files.
-/
import AsphaltModel.Signal

namespace Asphalt
namespace Sig

/-! ### Lookup by id -/

theorem stream?_some_id {w : SigWorld} {s : StreamId} {st : Stream}
    (h : w.stream? s = some st) : st.id = s := by
  have := List.find?_some h
  simpa using this

theorem stream?_some_mem {w : SigWorld} {s : StreamId} {st : Stream}
    (h : w.stream? s = some st) : st ∈ w.streams := List.mem_of_find?_eq_some h

theorem stream?_none {w : SigWorld} {s : StreamId} (h : w.stream? s = none) :
    ∀ x ∈ w.streams, x.id ≠ s := by
  intro x hx
  have := List.find?_eq_none.mp h x hx
  simpa using this

theorem chan?_some_id {w : SigWorld} {c : ChanId} {ch : Chan}
    (h : w.chan? c = some ch) : ch.id = c := by
  have := List.find?_some h
  simpa using this

theorem chan?_some_mem {w : SigWorld} {c : ChanId} {ch : Chan}
    (h : w.chan? c = some ch) : ch ∈ w.chans := List.mem_of_find?_eq_some h

theorem mem_unique_id {l : List Stream} (hnd : (l.map Stream.id).Nodup) {x y : Stream}
    (hx : x ∈ l) (hy : y ∈ l) (h : x.id = y.id) : x = y := by
  induction l with
  | nil => cases hx
  | cons a l ih =>
    simp only [List.map_cons, List.nodup_cons, List.mem_map, not_exists, not_and] at hnd
    rcases List.mem_cons.mp hx with rfl | hx'
    · rcases List.mem_cons.mp hy with rfl | hy'
      · rfl
      · exact absurd h.symm (hnd.1 y hy')
    · rcases List.mem_cons.mp hy with rfl | hy'
      · exact absurd h (hnd.1 x hx')
      · exact ih hnd.2 hx' hy'

theorem stream?_of_mem {w : SigWorld} (hnd : (w.streams.map Stream.id).Nodup) {x : Stream}
    (hx : x ∈ w.streams) : w.stream? x.id = some x := by
  cases h : w.stream? x.id with
  | none => exact absurd rfl (stream?_none h x hx)
  | some y =>
    have := mem_unique_id hnd (stream?_some_mem h) hx (stream?_some_id h)
    rw [this]

/-! ### `setStream` -/

/-- The replacement function of `setStream`. -/
def repl (st' : Stream) (x : Stream) : Stream := if x.id == st'.id then st' else x

theorem setStream_streams (w : SigWorld) (st' : Stream) :
    (w.setStream st').streams = w.streams.map (repl st') := rfl

@[simp] theorem repl_id (st' x : Stream) : (repl st' x).id = x.id := by
  unfold repl
  split
  · rename_i h; simpa using (beq_iff_eq.mp h).symm
  · rfl

theorem repl_of_ne {st' x : Stream} (h : x.id ≠ st'.id) : repl st' x = x := by
  unfold repl; simp [h]

theorem repl_of_eq {st' x : Stream} (h : x.id = st'.id) : repl st' x = st' := by
  unfold repl; simp [h]

theorem find?_id_map {F : Stream → Stream} (hF : ∀ x, (F x).id = x.id) (l : List Stream)
    (s : StreamId) :
    (l.map F).find? (·.id == s) = (l.find? (·.id == s)).map F := by
  rw [List.find?_map]
  have : ((fun x : Stream => x.id == s) ∘ F) = (fun x => x.id == s) := by
    funext x
    simp [Function.comp, hF]
  rw [this]

theorem setStream_stream? (w : SigWorld) (st' : Stream) (s : StreamId) :
    (w.setStream st').stream? s = (w.stream? s).map (repl st') :=
  find?_id_map (repl_id st') w.streams s

theorem setStream_stream?_ne (w : SigWorld) (st' : Stream) (s : StreamId) (h : s ≠ st'.id) :
    (w.setStream st').stream? s = w.stream? s := by
  rw [setStream_stream?]
  cases hs : w.stream? s with
  | none => rfl
  | some x =>
    have := stream?_some_id hs
    simp only [Option.map_some]
    rw [repl_of_ne (by rw [this]; exact h)]

theorem mem_setStream {w : SigWorld} {st' x : Stream} (hx : x ∈ (w.setStream st').streams) :
    x = st' ∨ (x ∈ w.streams ∧ x.id ≠ st'.id) := by
  rw [setStream_streams] at hx
  obtain ⟨y, hy, rfl⟩ := List.mem_map.mp hx
  by_cases h : y.id = st'.id
  · left; exact repl_of_eq h
  · right; rw [repl_of_ne h]; exact ⟨hy, h⟩

theorem setStream_ids (w : SigWorld) (st' : Stream) :
    (w.setStream st').streams.map Stream.id = w.streams.map Stream.id := by
  rw [setStream_streams, List.map_map]
  apply List.map_congr_left
  intro x _
  simp

/-! ### Invariants -/

/-- The predicate of `C10_offered_exact`. -/
def offeredPred (st : Stream) (e : Ev) : Bool :=
  st.chans.contains e.chan && decide (st.subAt ≤ e.seq) &&
    (match st.leftAt with | none => true | some n => decide (e.seq < n))

/-- Per-stream invariant, relative to the number of dispatched events and the dispatch log.
It also holds in the middle of a dispatch burst (when `handed` may be `some e`). -/
structure StInv (n : Nat) (log : List Ev) (st : Stream) : Prop where
  handedS : ∀ e, st.handed = some e → st.waiting = false ∧ st.opened = true
  waitBuf : st.waiting = true → st.buf = []
  bounded : st.buf.length ≤ st.cap
  queue : st.opened = true → st.taken ++ st.buf = st.accepted
  pre : st.taken <+: st.accepted
  perm : (st.accepted ++ st.lost).Perm st.offered
  accSub : st.accepted.Sublist st.offered
  lostSub : st.lost.Sublist st.offered
  deliv : st.delivered ++ st.handed.toList.filter st.filter.pass
            = st.taken.filter st.filter.pass
  onceLen : st.once = true → st.delivered.length ≤ 1
  closed : st.opened = false → st.waiting = false ∧ st.buf = []
  leftOpen : st.opened = true → st.leftAt = none
  leftClosed : st.opened = false → ∃ m, st.leftAt = some m ∧ m ≤ n
  subLe : st.subAt ≤ n
  offered : st.offered = log.filter (offeredPred st)

/-- A `wait_event` stream that has delivered its event has been left. -/
def OnceS (st : Stream) : Prop := st.once = true → st.delivered ≠ [] → st.opened = false

structure WInv (w : SigWorld) : Prop where
  sidNodup : (w.streams.map Stream.id).Nodup
  idLt : ∀ c ∈ w.chans, c.id < w.chans.length
  idInj : ∀ c1 ∈ w.chans, ∀ c2 ∈ w.chans, c1.id = c2.id → c1 = c2
  keyInj : ∀ c1 ∈ w.chans, ∀ c2 ∈ w.chans, c1.inst = c2.inst → c1.attr = c2.attr → c1 = c2
  subsNodup : ∀ ch ∈ w.chans, ch.subs.Nodup
  subsIff : ∀ ch ∈ w.chans, ∀ s, s ∈ ch.subs ↔
    ∃ st ∈ w.streams, st.id = s ∧ st.opened = true ∧ ch.id ∈ st.chans
  stChans : ∀ st ∈ w.streams, ∀ c ∈ st.chans, ∃ ch ∈ w.chans, ch.id = c
  logSeq : w.log.map Ev.seq = List.range w.nextSeq
  stamp : ∀ e ∈ w.log, ∃ ch ∈ w.chans, ch.id = e.chan ∧ e.source = ch.inst ∧ e.topic = ch.attr
  warn : w.warnings = (w.streams.map fun st => st.lost.length).sum
  st : ∀ st ∈ w.streams, StInv w.nextSeq w.log st

/-- The invariant that holds also inside a dispatch (between `burst` and `settleAll`). -/
def Good (w : SigWorld) : Prop := WInv w ∧ ∀ st ∈ w.streams, OnceS st

/-- The invariant of every reachable world. -/
def Inv (w : SigWorld) : Prop := Good w ∧ ∀ st ∈ w.streams, st.handed = none

theorem WInv.log_lt {w : SigWorld} (hw : WInv w) {e : Ev} (he : e ∈ w.log) : e.seq < w.nextSeq := by
  have : e.seq ∈ w.log.map Ev.seq := List.mem_map_of_mem he
  rw [hw.logSeq] at this
  exact List.mem_range.mp this

/-- Replacing the streams pointwise by streams with the same id, channel list and open flag
(and possibly extending the log). -/
theorem WInv.mapStreams {w w' : SigWorld} (hw : WInv w) (F : Stream → Stream)
    (hc : w'.chans = w.chans) (hs : w'.streams = w.streams.map F)
    (hF : ∀ x ∈ w.streams, (F x).id = x.id ∧ (F x).chans = x.chans ∧ (F x).opened = x.opened)
    (hlog : w'.log.map Ev.seq = List.range w'.nextSeq)
    (hstamp : ∀ e ∈ w'.log, ∃ ch ∈ w.chans, ch.id = e.chan ∧ e.source = ch.inst ∧ e.topic = ch.attr)
    (hwarn : w'.warnings = (w.streams.map fun x => (F x).lost.length).sum)
    (hst : ∀ x ∈ w.streams, StInv w'.nextSeq w'.log (F x)) : WInv w' := by
  have hids : w'.streams.map Stream.id = w.streams.map Stream.id := by
    rw [hs, List.map_map]
    exact List.map_congr_left fun x hx => (hF x hx).1
  refine ⟨?_, ?_, ?_, ?_, ?_, ?_, ?_, hlog, ?_, ?_, ?_⟩
  · rw [hids]; exact hw.sidNodup
  · rw [hc]; exact hw.idLt
  · rw [hc]; exact hw.idInj
  · rw [hc]; exact hw.keyInj
  · rw [hc]; exact hw.subsNodup
  · rw [hc, hs]
    intro ch hch s
    rw [hw.subsIff ch hch s]
    constructor
    · rintro ⟨x, hx, h1, h2, h3⟩
      obtain ⟨e1, e2, e3⟩ := hF x hx
      exact ⟨F x, List.mem_map_of_mem hx, e1.trans h1, e3.trans h2, e2 ▸ h3⟩
    · rintro ⟨y, hy, h1, h2, h3⟩
      obtain ⟨x, hx, rfl⟩ := List.mem_map.mp hy
      obtain ⟨e1, e2, e3⟩ := hF x hx
      exact ⟨x, hx, e1.symm.trans h1, e3.symm.trans h2, e2 ▸ h3⟩
  · rw [hc, hs]
    intro y hy c hcm
    obtain ⟨x, hx, rfl⟩ := List.mem_map.mp hy
    exact hw.stChans x hx c ((hF x hx).2.1 ▸ hcm)
  · rw [hc]; exact hstamp
  · rw [hwarn, hs, List.map_map]; rfl
  · rw [hs]
    intro y hy
    obtain ⟨x, hx, rfl⟩ := List.mem_map.mp hy
    exact hst x hx

/-- `setStream` with a stream that keeps id, channel list, open flag and `lost`. -/
theorem WInv.setStream {w : SigWorld} (hw : WInv w) {st st' : Stream} (hst : st ∈ w.streams)
    (hid : st'.id = st.id) (hch : st'.chans = st.chans) (hop : st'.opened = st.opened)
    (hlost : st'.lost = st.lost) (hinv : StInv w.nextSeq w.log st') : WInv (w.setStream st') := by
  have key : ∀ x ∈ w.streams, x.id = st'.id → x = st := fun x hx h =>
    mem_unique_id hw.sidNodup hx hst (h.trans hid)
  apply hw.mapStreams (w' := w.setStream st') (repl st') rfl rfl
  · intro x hx
    by_cases h : x.id = st'.id
    · have := key x hx h
      subst this
      rw [repl_of_eq h]; exact ⟨hid, hch, hop⟩
    · rw [repl_of_ne h]; exact ⟨rfl, rfl, rfl⟩
  · exact hw.logSeq
  · exact hw.stamp
  · show w.warnings = _
    rw [hw.warn]
    congr 1
    apply List.map_congr_left
    intro x hx
    by_cases h : x.id = st'.id
    · have := key x hx h
      subst this
      rw [repl_of_eq h, hlost]
    · rw [repl_of_ne h]
  · intro x hx
    by_cases h : x.id = st'.id
    · rw [repl_of_eq h]; exact hinv
    · rw [repl_of_ne h]; exact hw.st x hx

/-! ### `closeStream` -/

/-- The closed version of a stream. -/
def closedOf (n : Nat) (st : Stream) : Stream :=
  { st with opened := false, waiting := false, handed := none, buf := [], leftAt := some n }

/-- The channel update of `closeStream`. -/
def unsub (s : StreamId) (c : Chan) : Chan := { c with subs := c.subs.filter (· != s) }

theorem closeStream_eq (w : SigWorld) (st : Stream) :
    closeStream w st =
      { w with chans := w.chans.map (unsub st.id),
               streams := w.streams.map (repl (closedOf w.nextSeq st)) } := rfl

theorem StInv.closedOf {n : Nat} {log : List Ev} {st : Stream} (h : StInv n log st)
    (hlog : ∀ e ∈ log, e.seq < n) (hh : st.handed = none) (ho : st.opened = true) :
    StInv n log (closedOf n st) := by
  have hd := h.deliv
  rw [hh] at hd
  refine ⟨?_, ?_, ?_, ?_, h.pre, h.perm, h.accSub, h.lostSub, ?_, h.onceLen, ?_, ?_, ?_, h.subLe, ?_⟩
  · intro e he; simp [Sig.closedOf] at he
  · intro _; rfl
  · simp [Sig.closedOf]
  · intro hc; simp [Sig.closedOf] at hc
  · simpa [Sig.closedOf] using hd
  · intro _; exact ⟨rfl, rfl⟩
  · intro hc; simp [Sig.closedOf] at hc
  · intro _; exact ⟨n, rfl, Nat.le_refl n⟩
  · show st.offered = _
    rw [h.offered]
    apply List.filter_congr
    intro e he
    have := hlog e he
    simp only [offeredPred, Sig.closedOf, h.leftOpen ho, this, decide_true, Bool.and_true]
    rfl

theorem WInv.closeStream {w : SigWorld} (hw : WInv w) {st : Stream} (hst : st ∈ w.streams)
    (hh : st.handed = none) (ho : st.opened = true) : WInv (closeStream w st) := by
  rw [closeStream_eq]
  have hcid : (closedOf w.nextSeq st).id = st.id := rfl
  have key : ∀ x ∈ w.streams, x.id = st.id → x = st := fun x hx h =>
    mem_unique_id hw.sidNodup hx hst h
  refine ⟨?_, ?_, ?_, ?_, ?_, ?_, ?_, hw.logSeq, ?_, ?_, ?_⟩
  · show ((w.streams.map (repl _)).map Stream.id).Nodup
    rw [List.map_map]
    have : w.streams.map (Stream.id ∘ repl (closedOf w.nextSeq st)) = w.streams.map Stream.id :=
      List.map_congr_left fun x _ => by simp
    rw [this]; exact hw.sidNodup
  · intro c hc
    obtain ⟨c0, hc0, rfl⟩ := List.mem_map.mp hc
    simpa [unsub] using hw.idLt c0 hc0
  · intro c1 h1 c2 h2 he
    obtain ⟨a, ha, rfl⟩ := List.mem_map.mp h1
    obtain ⟨b, hb, rfl⟩ := List.mem_map.mp h2
    rw [hw.idInj a ha b hb he]
  · intro c1 h1 c2 h2 he he'
    obtain ⟨a, ha, rfl⟩ := List.mem_map.mp h1
    obtain ⟨b, hb, rfl⟩ := List.mem_map.mp h2
    rw [hw.keyInj a ha b hb he he']
  · intro c hc
    obtain ⟨c0, hc0, rfl⟩ := List.mem_map.mp hc
    exact List.Nodup.sublist List.filter_sublist (hw.subsNodup c0 hc0)
  · intro c hc s
    obtain ⟨c0, hc0, rfl⟩ := List.mem_map.mp hc
    show s ∈ c0.subs.filter (· != st.id) ↔
      ∃ y ∈ w.streams.map (repl (closedOf w.nextSeq st)), y.id = s ∧ y.opened = true ∧ c0.id ∈ y.chans
    simp only [List.mem_filter, bne_iff_ne, ne_eq]
    rw [hw.subsIff c0 hc0 s]
    constructor
    · rintro ⟨⟨x, hx, h1, h2, h3⟩, hne⟩
      refine ⟨x, ?_, h1, h2, h3⟩
      have : repl (closedOf w.nextSeq st) x = x := repl_of_ne (by rw [h1, hcid]; exact hne)
      rw [← this]; exact List.mem_map_of_mem hx
    · rintro ⟨y, hy, h1, h2, h3⟩
      obtain ⟨x, hx, rfl⟩ := List.mem_map.mp hy
      by_cases h : x.id = st.id
      · rw [repl_of_eq (h.trans hcid.symm)] at h2
        simp [Sig.closedOf] at h2
      · rw [repl_of_ne (by rw [hcid]; exact h)] at h1 h2 h3
        exact ⟨⟨x, hx, h1, h2, h3⟩, h1 ▸ h⟩
  · intro y hy c hc
    obtain ⟨x, hx, rfl⟩ := List.mem_map.mp hy
    have : ∃ ch ∈ w.chans, ch.id = c := by
      by_cases h : x.id = st.id
      · rw [repl_of_eq (h.trans hcid.symm)] at hc
        exact hw.stChans st hst c hc
      · rw [repl_of_ne (by rw [hcid]; exact h)] at hc
        exact hw.stChans x hx c hc
    obtain ⟨ch, hch, rfl⟩ := this
    exact ⟨unsub st.id ch, List.mem_map_of_mem hch, rfl⟩
  · intro e he
    obtain ⟨ch, hch, h⟩ := hw.stamp e he
    exact ⟨unsub st.id ch, List.mem_map_of_mem hch, h⟩
  · show w.warnings = ((w.streams.map (repl _)).map fun st => st.lost.length).sum
    rw [hw.warn, List.map_map]
    congr 1
    apply List.map_congr_left
    intro x hx
    by_cases h : x.id = st.id
    · have := key x hx h
      subst this
      simp only [Function.comp]
      rw [repl_of_eq (h.trans hcid.symm)]; rfl
    · simp only [Function.comp]
      rw [repl_of_ne (by rw [hcid]; exact h)]
  · intro y hy
    obtain ⟨x, hx, rfl⟩ := List.mem_map.mp hy
    by_cases h : x.id = st.id
    · rw [repl_of_eq (h.trans hcid.symm)]
      exact (hw.st st hst).closedOf (fun e he => hw.log_lt he) hh ho
    · rw [repl_of_ne (by rw [hcid]; exact h)]
      exact hw.st x hx

theorem mem_closeStream {w : SigWorld} {st x : Stream} (hx : x ∈ (closeStream w st).streams) :
    x = closedOf w.nextSeq st ∨ (x ∈ w.streams ∧ x.id ≠ st.id) := by
  rw [closeStream_eq] at hx
  obtain ⟨y, hy, rfl⟩ := List.mem_map.mp hx
  by_cases h : y.id = st.id
  · left; exact repl_of_eq (st' := closedOf w.nextSeq st) h
  · right; rw [repl_of_ne (st' := closedOf w.nextSeq st) h]; exact ⟨hy, h⟩

theorem closeStream_ids (w : SigWorld) (st : Stream) :
    (closeStream w st).streams.map Stream.id = w.streams.map Stream.id := by
  rw [closeStream_eq]
  show (w.streams.map (repl _)).map Stream.id = _
  rw [List.map_map]
  exact List.map_congr_left fun x _ => by simp

theorem closeStream_stream?_ne (w : SigWorld) (st : Stream) (s : StreamId) (h : s ≠ st.id) :
    (closeStream w st).stream? s = w.stream? s := by
  have := setStream_stream?_ne { w with chans := w.chans.map (unsub st.id) }
    (closedOf w.nextSeq st) s h
  exact this

/-! ### `offer` -/

theorem offer_waiting {st : Stream} (e : Ev) (h : st.waiting = true) :
    offer st e = ({ st with offered := st.offered ++ [e], waiting := false, handed := some e,
                            accepted := st.accepted ++ [e], taken := st.taken ++ [e] }, []) := by
  simp [offer, h]

theorem offer_room {st : Stream} (e : Ev) (h : st.waiting = false) (hr : st.buf.length < st.cap) :
    offer st e = ({ st with offered := st.offered ++ [e], buf := st.buf ++ [e],
                            accepted := st.accepted ++ [e] }, []) := by
  simp [offer, h, hr]

theorem offer_full {st : Stream} (e : Ev) (h : st.waiting = false) (hr : st.cap ≤ st.buf.length) :
    offer st e = ({ st with offered := st.offered ++ [e], lost := st.lost ++ [e] }, [.warn st.id]) := by
  simp [offer, h, Nat.not_lt.mpr hr]

theorem offer_cases (st : Stream) (e : Ev) :
    (st.waiting = true ∧ offer st e = ({ st with offered := st.offered ++ [e], waiting := false, handed := some e, accepted := st.accepted ++ [e], taken := st.taken ++ [e] }, [])) ∨
    (st.waiting = false ∧ st.buf.length < st.cap ∧ offer st e = ({ st with offered := st.offered ++ [e], buf := st.buf ++ [e], accepted := st.accepted ++ [e] }, [])) ∨
    (st.waiting = false ∧ st.cap ≤ st.buf.length ∧ offer st e = ({ st with offered := st.offered ++ [e], lost := st.lost ++ [e] }, [.warn st.id])) := by
  rcases Bool.eq_false_or_eq_true st.waiting with hw | hw
  · exact Or.inl ⟨hw, offer_waiting e hw⟩
  · by_cases hr : st.buf.length < st.cap
    · exact Or.inr (Or.inl ⟨hw, hr, offer_room e hw hr⟩)
    · exact Or.inr (Or.inr ⟨hw, Nat.not_lt.mp hr, offer_full e hw (Nat.not_lt.mp hr)⟩)

theorem offer_frame (st : Stream) (e : Ev) :
    (offer st e).1.id = st.id ∧ (offer st e).1.chans = st.chans ∧
      (offer st e).1.opened = st.opened ∧ (offer st e).1.once = st.once ∧
      (offer st e).1.delivered = st.delivered := by
  rcases offer_cases st e with ⟨_, h⟩ | ⟨_, _, h⟩ | ⟨_, _, h⟩ <;> rw [h] <;> exact ⟨rfl, rfl, rfl, rfl, rfl⟩

theorem offer_lost (st : Stream) (e : Ev) :
    (offer st e).1.lost.length = st.lost.length + (if (offer st e).2.isEmpty then 0 else 1) := by
  rcases offer_cases st e with ⟨_, h⟩ | ⟨_, _, h⟩ | ⟨_, _, h⟩ <;> rw [h] <;> simp

theorem offer_out (st : Stream) (e : Ev) : ∀ o ∈ (offer st e).2, ∃ s, o = SOut.warn s := by
  rcases offer_cases st e with ⟨_, h⟩ | ⟨_, _, h⟩ | ⟨_, _, h⟩ <;> rw [h] <;> simp

theorem OnceS.offer {st : Stream} (h : OnceS st) (e : Ev) : OnceS (offer st e).1 := by
  obtain ⟨_, _, h3, h4, h5⟩ := offer_frame st e
  unfold OnceS
  rw [h3, h4, h5]; exact h

theorem offeredPred_congr {a b : Stream} (h1 : a.chans = b.chans) (h2 : a.subAt = b.subAt)
    (h3 : a.leftAt = b.leftAt) : offeredPred a = offeredPred b := by
  funext e
  simp only [offeredPred, h1, h2, h3]

theorem filter_snoc_true {p : Ev → Bool} {l : List Ev} {e : Ev} (h : p e = true) :
    (l ++ [e]).filter p = l.filter p ++ [e] := by
  simp [List.filter_append, h]

theorem filter_snoc_false {p : Ev → Bool} {l : List Ev} {e : Ev} (h : p e = false) :
    (l ++ [e]).filter p = l.filter p := by
  simp [List.filter_append, h]

/-- A stream that is not subscribed to the channel is unaffected by a dispatch. -/
theorem StInv.skip {n : Nat} {log : List Ev} {st : Stream} (h : StInv n log st) {e : Ev}
    (hp : offeredPred st e = false) : StInv (n + 1) (log ++ [e]) st := by
  refine ⟨h.handedS, h.waitBuf, h.bounded, h.queue, h.pre, h.perm, h.accSub, h.lostSub, h.deliv,
    h.onceLen, h.closed, h.leftOpen, ?_, Nat.le_succ_of_le h.subLe, ?_⟩
  · intro hc
    obtain ⟨m, hm, hle⟩ := h.leftClosed hc
    exact ⟨m, hm, Nat.le_succ_of_le hle⟩
  · rw [filter_snoc_false hp]; exact h.offered

/-- A subscribed stream is offered the event. -/
theorem StInv.offer {n : Nat} {log : List Ev} {st : Stream} (h : StInv n log st) {e : Ev}
    (hp : offeredPred st e = true) (ho : st.opened = true) :
    StInv (n + 1) (log ++ [e]) (offer st e).1 := by
  have hoff : ∀ st' : Stream, st'.chans = st.chans → st'.subAt = st.subAt → st'.leftAt = st.leftAt →
      st'.offered = st.offered ++ [e] → st'.offered = (log ++ [e]).filter (offeredPred st') := by
    intro st' h1 h2 h3 h4
    rw [offeredPred_congr h1 h2 h3, filter_snoc_true hp, h4, h.offered]
  have hlc : st.opened = false → ∃ m, st.leftAt = some m ∧ m ≤ n + 1 := by
    intro hc; rw [ho] at hc; cases hc
  rcases offer_cases st e with ⟨hw, heq⟩ | ⟨hw, hr, heq⟩ | ⟨hw, hr, heq⟩ <;> rw [heq]
  · -- direct hand-over
    have hb := h.waitBuf hw
    have hq := h.queue ho
    rw [hb, List.append_nil] at hq
    have hnone : st.handed = none := by
      cases hh : st.handed with
      | none => rfl
      | some x => have := (h.handedS x hh).1; rw [hw] at this; cases this
    have hd := h.deliv
    rw [hnone] at hd
    refine ⟨?_, ?_, h.bounded, ?_, ?_, ?_, ?_, ?_, ?_, h.onceLen,
      fun hc => ⟨rfl, (h.closed hc).2⟩, h.leftOpen, hlc,
      Nat.le_succ_of_le h.subLe, hoff _ rfl rfl rfl rfl⟩
    · intro x _; exact ⟨rfl, ho⟩
    · intro hc; cases hc
    · intro _
      show st.taken ++ [e] ++ st.buf = st.accepted ++ [e]
      rw [hb, List.append_nil, hq]
    · show st.taken ++ [e] <+: st.accepted ++ [e]
      rw [hq]; exact List.prefix_refl _
    · show (st.accepted ++ [e] ++ st.lost).Perm (st.offered ++ [e])
      have : (st.accepted ++ [e] ++ st.lost).Perm (st.accepted ++ st.lost ++ [e]) := by
        rw [List.append_assoc, List.append_assoc]
        exact List.Perm.append_left _ List.perm_append_comm
      exact this.trans (h.perm.append_right _)
    · exact h.accSub.append (List.Sublist.refl _)
    · show st.lost.Sublist (st.offered ++ [e])
      exact h.lostSub.trans (List.sublist_append_left _ _)
    · show st.delivered ++ List.filter st.filter.pass [e] = List.filter st.filter.pass (st.taken ++ [e])
      rw [List.filter_append]
      simp only [Option.toList, List.filter_nil, List.append_nil] at hd
      rw [hd]
  · -- buffered
    refine ⟨h.handedS, ?_, ?_, ?_, ?_, ?_, ?_, ?_, h.deliv, h.onceLen, ?_, h.leftOpen, hlc,
      Nat.le_succ_of_le h.subLe, hoff _ rfl rfl rfl rfl⟩
    · intro hc; rw [hw] at hc; cases hc
    · show (st.buf ++ [e]).length ≤ st.cap
      rw [List.length_append]; exact hr
    · intro _
      show st.taken ++ (st.buf ++ [e]) = st.accepted ++ [e]
      rw [← List.append_assoc, h.queue ho]
    · show st.taken <+: st.accepted ++ [e]
      exact h.pre.trans (List.prefix_append _ _)
    · show (st.accepted ++ [e] ++ st.lost).Perm (st.offered ++ [e])
      have : (st.accepted ++ [e] ++ st.lost).Perm (st.accepted ++ st.lost ++ [e]) := by
        rw [List.append_assoc, List.append_assoc]
        exact List.Perm.append_left _ List.perm_append_comm
      exact this.trans (h.perm.append_right _)
    · exact h.accSub.append (List.Sublist.refl _)
    · show st.lost.Sublist (st.offered ++ [e])
      exact h.lostSub.trans (List.sublist_append_left _ _)
    · intro hc; rw [ho] at hc; cases hc
  · -- overflow
    refine ⟨h.handedS, h.waitBuf, h.bounded, h.queue, h.pre, ?_, ?_, ?_, h.deliv, h.onceLen,
      h.closed, h.leftOpen, hlc, Nat.le_succ_of_le h.subLe, hoff _ rfl rfl rfl rfl⟩
    · show (st.accepted ++ (st.lost ++ [e])).Perm (st.offered ++ [e])
      rw [← List.append_assoc]
      exact h.perm.append_right _
    · show st.accepted.Sublist (st.offered ++ [e])
      exact h.accSub.trans (List.sublist_append_left _ _)
    · exact h.lostSub.append (List.Sublist.refl _)

/-! ### `dispatchTo` -/

/-- One iteration of `dispatchTo`. -/
def dstep (e : Ev) (st : Stream) (w : SigWorld) : SigWorld :=
  if (offer st e).2.isEmpty then w.setStream (offer st e).1
  else { w.setStream (offer st e).1 with warnings := w.warnings + 1 }

theorem dispatchTo_nil (e : Ev) (w : SigWorld) : dispatchTo e [] w = (w, []) := rfl

theorem dispatchTo_cons_none {e : Ev} {s : StreamId} {rest : List StreamId} {w : SigWorld}
    (h : w.stream? s = none) : dispatchTo e (s :: rest) w = dispatchTo e rest w := by
  simp only [dispatchTo, h]

theorem dispatchTo_cons_some {e : Ev} {s : StreamId} {rest : List StreamId} {w : SigWorld}
    {st : Stream} (h : w.stream? s = some st) :
    dispatchTo e (s :: rest) w =
      ((dispatchTo e rest (dstep e st w)).1, (offer st e).2 ++ (dispatchTo e rest (dstep e st w)).2) := by
  simp only [dispatchTo, h, dstep]
  split <;> rfl

theorem dstep_streams (e : Ev) (st : Stream) (w : SigWorld) :
    (dstep e st w).streams = w.streams.map (repl (offer st e).1) := by
  unfold dstep; split <;> rfl

theorem dstep_frame (e : Ev) (st : Stream) (w : SigWorld) :
    (dstep e st w).chans = w.chans ∧ (dstep e st w).nextSeq = w.nextSeq ∧
      (dstep e st w).log = w.log ∧ (dstep e st w).parents = w.parents := by
  unfold dstep; split <;> exact ⟨rfl, rfl, rfl, rfl⟩

theorem dstep_warnings (e : Ev) (st : Stream) (w : SigWorld) :
    (dstep e st w).warnings = w.warnings + (if (offer st e).2.isEmpty then 0 else 1) := by
  unfold dstep; split <;> rfl

theorem dstep_stream? (e : Ev) (st : Stream) (w : SigWorld) (s : StreamId) :
    (dstep e st w).stream? s = (w.stream? s).map (repl (offer st e).1) := by
  have : (dstep e st w).stream? s = (w.setStream (offer st e).1).stream? s := by
    unfold dstep; split <;> rfl
  rw [this, setStream_stream?]

theorem dispatchTo_frame (e : Ev) (subs : List StreamId) (w : SigWorld) :
    (dispatchTo e subs w).1.chans = w.chans ∧ (dispatchTo e subs w).1.nextSeq = w.nextSeq ∧
      (dispatchTo e subs w).1.log = w.log ∧ (dispatchTo e subs w).1.parents = w.parents := by
  induction subs generalizing w with
  | nil => exact ⟨rfl, rfl, rfl, rfl⟩
  | cons s rest ih =>
    cases h : w.stream? s with
    | none => rw [dispatchTo_cons_none h]; exact ih w
    | some st =>
      rw [dispatchTo_cons_some h]
      obtain ⟨h1, h2, h3, h4⟩ := ih (dstep e st w)
      obtain ⟨g1, g2, g3, g4⟩ := dstep_frame e st w
      exact ⟨h1.trans g1, h2.trans g2, h3.trans g3, h4.trans g4⟩

theorem dispatchTo_out (e : Ev) (subs : List StreamId) (w : SigWorld) :
    ∀ o ∈ (dispatchTo e subs w).2, ∃ s, o = SOut.warn s := by
  induction subs generalizing w with
  | nil => intro o ho; cases ho
  | cons s rest ih =>
    cases h : w.stream? s with
    | none => rw [dispatchTo_cons_none h]; exact ih w
    | some st =>
      rw [dispatchTo_cons_some h]
      intro o ho
      rcases List.mem_append.mp ho with ho | ho
      · exact offer_out st e o ho
      · exact ih _ o ho

/-- What `dispatchTo` does to each stream. -/
def offerMap (e : Ev) (subs : List StreamId) (st : Stream) : Stream :=
  if st.id ∈ subs then (offer st e).1 else st

theorem offerMap_id (e : Ev) (subs : List StreamId) (st : Stream) :
    (offerMap e subs st).id = st.id := by
  unfold offerMap; split
  · exact (offer_frame st e).1
  · rfl

theorem dispatchTo_streams (e : Ev) (subs : List StreamId) (w : SigWorld) (hnd : subs.Nodup)
    (hids : (w.streams.map Stream.id).Nodup) :
    (dispatchTo e subs w).1.streams = w.streams.map (offerMap e subs) := by
  induction subs generalizing w with
  | nil =>
    rw [dispatchTo_nil]
    show w.streams = _
    have : w.streams.map (offerMap e []) = w.streams.map id :=
      List.map_congr_left fun x _ => by simp [offerMap]
    rw [this, List.map_id]
  | cons s rest ih =>
    obtain ⟨hs, hrest⟩ := List.nodup_cons.mp hnd
    cases h : w.stream? s with
    | none =>
      rw [dispatchTo_cons_none h, ih w hrest hids]
      apply List.map_congr_left
      intro x hx
      have := stream?_none h x hx
      simp [offerMap, this]
    | some st =>
      rw [dispatchTo_cons_some h]
      have hids' : ((dstep e st w).streams.map Stream.id).Nodup := by
        rw [dstep_streams, List.map_map]
        have : w.streams.map (Stream.id ∘ repl (offer st e).1) = w.streams.map Stream.id :=
          List.map_congr_left fun x _ => by simp
        rw [this]; exact hids
      show (dispatchTo e rest (dstep e st w)).1.streams = _
      rw [ih _ hrest hids', dstep_streams, List.map_map]
      apply List.map_congr_left
      intro x hx
      have hstid := stream?_some_id h
      have hoid := (offer_frame st e).1
      simp only [Function.comp]
      by_cases hx' : x.id = s
      · have : x = st := mem_unique_id hids hx (stream?_some_mem h) (hx'.trans hstid.symm)
        subst this
        rw [repl_of_eq hoid.symm]
        simp [offerMap, hoid, hx', hs]
      · rw [repl_of_ne (by rw [hoid, hstid]; exact hx')]
        simp [offerMap, hx']

theorem sum_repl (g : Stream → Nat) {l : List Stream} (hnd : (l.map Stream.id).Nodup)
    {st st' : Stream} (hst : st ∈ l) (hid : st'.id = st.id) :
    (l.map (g ∘ repl st')).sum + g st = (l.map g).sum + g st' := by
  induction l with
  | nil => cases hst
  | cons a l ih =>
    simp only [List.map_cons, List.nodup_cons, List.mem_map, not_exists, not_and] at hnd
    simp only [List.map_cons, List.sum_cons, Function.comp_apply]
    rcases List.mem_cons.mp hst with rfl | hst'
    · have : (l.map (g ∘ repl st')) = l.map g := by
        apply List.map_congr_left
        intro x hx
        show g (repl st' x) = g x
        rw [repl_of_ne]
        rw [hid]
        exact fun h => hnd.1 x hx h
      rw [this, repl_of_eq hid.symm]
      omega
    · have hne : a.id ≠ st'.id := by
        rw [hid]; exact fun h => hnd.1 st hst' h.symm
      rw [repl_of_ne hne]
      have := ih hnd.2 hst'
      omega

theorem dispatchTo_warnings (e : Ev) (subs : List StreamId) (w : SigWorld)
    (hids : (w.streams.map Stream.id).Nodup) :
    (dispatchTo e subs w).1.warnings + (w.streams.map fun x => x.lost.length).sum =
      w.warnings + ((dispatchTo e subs w).1.streams.map fun x => x.lost.length).sum := by
  induction subs generalizing w with
  | nil => rfl
  | cons s rest ih =>
    cases h : w.stream? s with
    | none => rw [dispatchTo_cons_none h]; exact ih w hids
    | some st =>
      rw [dispatchTo_cons_some h]
      have hids' : ((dstep e st w).streams.map Stream.id).Nodup := by
        rw [dstep_streams, List.map_map]
        have : w.streams.map (Stream.id ∘ repl (offer st e).1) = w.streams.map Stream.id :=
          List.map_congr_left fun x _ => by simp
        rw [this]; exact hids
      have h1 := ih (dstep e st w) hids'
      have h2 := sum_repl (fun x => x.lost.length) hids (stream?_some_mem h) (offer_frame st e).1
      have h3 := offer_lost st e
      rw [dstep_warnings, dstep_streams, List.map_map] at h1
      show (dispatchTo e rest (dstep e st w)).1.warnings + _ =
        w.warnings + ((dispatchTo e rest (dstep e st w)).1.streams.map fun x => x.lost.length).sum
      omega

/-! ### `burst` -/

theorem chan?_of_mem {w : SigWorld} (hw : WInv w) {ch : Chan} (hch : ch ∈ w.chans) :
    w.chan? ch.id = some ch := by
  cases h : w.chan? ch.id with
  | none =>
    have := List.find?_eq_none.mp h ch hch
    simp at this
  | some c =>
    rw [hw.idInj c (chan?_some_mem h) ch hch (chan?_some_id h)]

/-- The event created by one dispatch. -/
def mkEv (ch : Chan) (cls : ClsId) (w : SigWorld) : Ev := ⟨w.nextSeq, cls, ch.id, ch.inst, ch.attr⟩

/-- The world after logging the event, before delivering it. -/
def logged (ch : Chan) (cls : ClsId) (w : SigWorld) : SigWorld :=
  { w with nextSeq := w.nextSeq + 1, log := w.log ++ [mkEv ch cls w] }

/-- The subscriber list read by one dispatch. -/
def subsOf (ch : Chan) (w : SigWorld) : List StreamId :=
  match w.chan? ch.id with | some c => c.subs | none => []

/-- One dispatch of a burst. -/
def bstep (ch : Chan) (cls : ClsId) (w : SigWorld) : SigWorld × List SOut :=
  dispatchTo (mkEv ch cls w) (subsOf ch (logged ch cls w)) (logged ch cls w)

theorem burst_zero (ch : Chan) (cls : ClsId) (w : SigWorld) : burst ch cls 0 w = (w, []) := rfl

theorem burst_succ (ch : Chan) (cls : ClsId) (n : Nat) (w : SigWorld) :
    burst ch cls (n + 1) w =
      ((burst ch cls n (bstep ch cls w).1).1, (bstep ch cls w).2 ++ (burst ch cls n (bstep ch cls w).1).2) :=
  rfl

theorem subsOf_logged {w : SigWorld} (hw : WInv w) {ch : Chan} (hch : ch ∈ w.chans) (cls : ClsId) :
    subsOf ch (logged ch cls w) = ch.subs := by
  have : (logged ch cls w).chan? ch.id = w.chan? ch.id := rfl
  unfold subsOf
  rw [this, chan?_of_mem hw hch]

theorem offerMap_frame (e : Ev) (subs : List StreamId) (x : Stream) :
    (offerMap e subs x).id = x.id ∧ (offerMap e subs x).chans = x.chans ∧
      (offerMap e subs x).opened = x.opened := by
  unfold offerMap; split
  · obtain ⟨h1, h2, h3, _, _⟩ := offer_frame x e; exact ⟨h1, h2, h3⟩
  · exact ⟨rfl, rfl, rfl⟩

theorem Good.bstep {w : SigWorld} (hg : Good w) {ch : Chan} (hch : ch ∈ w.chans) (cls : ClsId) :
    Good (bstep ch cls w).1 ∧ (bstep ch cls w).1.chans = w.chans ∧
      (bstep ch cls w).1.parents = w.parents := by
  obtain ⟨hw, ho⟩ := hg
  have hsub := subsOf_logged hw hch cls
  unfold Sig.bstep
  rw [hsub]
  generalize he : mkEv ch cls w = e
  have hechan : e.chan = ch.id := by rw [← he]; rfl
  have heseq : e.seq = w.nextSeq := by rw [← he]; rfl
  obtain ⟨f1, f2, f3, f4⟩ := dispatchTo_frame e ch.subs (logged ch cls w)
  have hstr := dispatchTo_streams e ch.subs (logged ch cls w) (hw.subsNodup ch hch) hw.sidNodup
  have hwarn := dispatchTo_warnings e ch.subs (logged ch cls w) hw.sidNodup
  have hlog : (logged ch cls w).log = w.log ++ [e] := by rw [← he]; rfl
  refine ⟨⟨?_, ?_⟩, f1, f4⟩
  · apply hw.mapStreams (offerMap e ch.subs) f1 hstr
    · intro x _; exact offerMap_frame e ch.subs x
    · rw [f2, f3, hlog]
      show (w.log ++ [e]).map Ev.seq = List.range (w.nextSeq + 1)
      rw [List.map_append, hw.logSeq, List.range_succ, List.map_singleton, heseq]
    · rw [f3, hlog]
      intro e' he'
      rcases List.mem_append.mp he' with h | h
      · exact hw.stamp e' h
      · have : e' = e := by simpa using h
        subst this
        refine ⟨ch, hch, hechan.symm, ?_, ?_⟩ <;> rw [← he] <;> rfl
    · rw [hstr, List.map_map] at hwarn
      have h0 : (logged ch cls w).warnings = w.warnings := rfl
      have h1 : (logged ch cls w).streams = w.streams := rfl
      rw [h0, h1] at hwarn
      have := hw.warn
      simp only [Function.comp_def] at hwarn
      omega
    · intro x hx
      rw [f2, f3, hlog]
      show StInv (w.nextSeq + 1) (w.log ++ [e]) (offerMap e ch.subs x)
      have hsx := hw.st x hx
      unfold offerMap
      split
      · rename_i hmem
        obtain ⟨y, hy, h1, h2, h3⟩ := (hw.subsIff ch hch x.id).mp hmem
        have : y = x := mem_unique_id hw.sidNodup hy hx h1
        subst this
        apply hsx.offer _ h2
        simp only [offeredPred, hsx.leftOpen h2, hechan, heseq, Bool.and_true, Bool.and_eq_true,
          decide_eq_true_eq]
        exact ⟨by simpa using h3, hsx.subLe⟩
      · rename_i hmem
        apply hsx.skip
        rcases Bool.eq_false_or_eq_true x.opened with hop | hop
        · have : ch.id ∉ x.chans := fun h3 => hmem ((hw.subsIff ch hch x.id).mpr ⟨x, hx, rfl, hop, h3⟩)
          simp [offeredPred, hechan, this]
        · obtain ⟨m, hm, hle⟩ := hsx.leftClosed hop
          simp only [offeredPred, hm, heseq]
          have : ¬ w.nextSeq < m := Nat.not_lt.mpr hle
          simp [this]
  · intro y hy
    rw [hstr] at hy
    obtain ⟨x, hx, rfl⟩ := List.mem_map.mp hy
    unfold offerMap
    split
    · exact (ho x hx).offer e
    · exact ho x hx

theorem Good.burst {w : SigWorld} (hg : Good w) {ch : Chan} (hch : ch ∈ w.chans) (cls : ClsId)
    (n : Nat) : Good (burst ch cls n w).1 ∧ (burst ch cls n w).1.parents = w.parents := by
  induction n generalizing w with
  | zero => exact ⟨hg, rfl⟩
  | succ n ih =>
    rw [burst_succ]
    obtain ⟨h1, h2, h3⟩ := hg.bstep hch cls
    obtain ⟨g1, g2⟩ := ih h1 (h2 ▸ hch)
    exact ⟨g1, g2.trans h3⟩

theorem burst_out (ch : Chan) (cls : ClsId) (n : Nat) (w : SigWorld) :
    ∀ o ∈ (burst ch cls n w).2, ∃ s, o = SOut.warn s := by
  induction n generalizing w with
  | zero => intro o ho; cases ho
  | succ n ih =>
    rw [burst_succ]
    intro o ho
    rcases List.mem_append.mp ho with ho | ho
    · exact dispatchTo_out _ _ _ o ho
    · exact ih _ o ho

/-! ### `pullBuf` and `settleStream` -/

/-- The fields that consuming never changes. -/
structure SameCore (a b : Stream) : Prop where
  id : a.id = b.id
  chans : a.chans = b.chans
  filter : a.filter = b.filter
  cap : a.cap = b.cap
  once : a.once = b.once
  opened : a.opened = b.opened
  subAt : a.subAt = b.subAt
  leftAt : a.leftAt = b.leftAt
  offered : a.offered = b.offered
  accepted : a.accepted = b.accepted
  lost : a.lost = b.lost

theorem pullBuf_nil (st : Stream) :
    pullBuf st [] = ({ st with buf := [], waiting := true }, [.blocked st.id]) := rfl

theorem pullBuf_cons_pass {st : Stream} {e : Ev} (rest : List Ev) (h : st.filter.pass e = true) :
    pullBuf st (e :: rest) = ({ st with taken := st.taken ++ [e], buf := rest, delivered := st.delivered ++ [e] }, [.got st.id e]) := by
  simp [pullBuf, h]

theorem pullBuf_cons_fail {st : Stream} {e : Ev} (rest : List Ev) (h : st.filter.pass e = false) :
    pullBuf st (e :: rest) = pullBuf { st with taken := st.taken ++ [e] } rest := by
  simp [pullBuf, h]

theorem pullBuf_spec (st : Stream) (l : List Ev) :
    ∃ pre, (pullBuf st l).1.taken = st.taken ++ pre ∧ pre ++ (pullBuf st l).1.buf = l ∧
      (pullBuf st l).1.delivered = st.delivered ++ pre.filter st.filter.pass ∧
      (pre.filter st.filter.pass).length ≤ 1 ∧
      (((pullBuf st l).1.waiting = true ∧ (pullBuf st l).1.buf = []) ∨
        (pullBuf st l).1.waiting = st.waiting) ∧
      (pullBuf st l).1.handed = st.handed ∧ SameCore (pullBuf st l).1 st := by
  induction l generalizing st with
  | nil =>
    refine ⟨[], ?_⟩
    rw [pullBuf_nil]
    refine ⟨by simp, rfl, by simp, by simp, Or.inl ⟨rfl, rfl⟩, rfl, ?_⟩
    constructor <;> rfl
  | cons e rest ih =>
    rcases Bool.eq_false_or_eq_true (st.filter.pass e) with hp | hp
    · refine ⟨[e], ?_⟩
      rw [pullBuf_cons_pass rest hp]
      refine ⟨rfl, rfl, by simp [hp], by simp [hp], Or.inr rfl, rfl, ?_⟩
      constructor <;> rfl
    · rw [pullBuf_cons_fail rest hp]
      obtain ⟨pre, h1, h2, h3, h4, h5, h6, h7⟩ := ih { st with taken := st.taken ++ [e] }
      refine ⟨e :: pre, ?_, ?_, ?_, ?_, h5, h6, ?_⟩
      · rw [h1]; simp
      · rw [List.cons_append, h2]
      · rw [h3]; simp [hp]
      · simpa [hp] using h4
      · exact ⟨h7.id, h7.chans, h7.filter, h7.cap, h7.once, h7.opened, h7.subAt, h7.leftAt,
          h7.offered, h7.accepted, h7.lost⟩

theorem pullBuf_out (st : Stream) (l : List Ev) :
    ∀ o ∈ (pullBuf st l).2, (∃ s ev, o = SOut.got s ev) ∨ (∃ s, o = SOut.blocked s) := by
  induction l generalizing st with
  | nil => rw [pullBuf_nil]; intro o ho; simp at ho; exact Or.inr ⟨_, ho⟩
  | cons e rest ih =>
    rcases Bool.eq_false_or_eq_true (st.filter.pass e) with hp | hp
    · rw [pullBuf_cons_pass rest hp]; intro o ho; simp at ho; exact Or.inl ⟨_, _, ho⟩
    · rw [pullBuf_cons_fail rest hp]; exact ih _

/-- The consumer takes events out of its queue: the stream invariant is kept. -/
theorem StInv.pullBuf {n : Nat} {log : List Ev} {st : Stream} (h : StInv n log st)
    (hh : st.handed = none) (ho : st.opened = true) (hw : st.waiting = false)
    (hon : st.once = true → st.delivered = []) :
    StInv n log (pullBuf st st.buf).1 ∧ (pullBuf st st.buf).1.handed = none ∧
      SameCore (pullBuf st st.buf).1 st := by
  obtain ⟨pre, h1, h2, h3, h4, h5, h6, h7⟩ := pullBuf_spec st st.buf
  refine ⟨?_, h6.trans hh, h7⟩
  generalize Asphalt.pullBuf st st.buf = r at *
  have ho' : r.1.opened = true := h7.opened.trans ho
  have hq : r.1.taken ++ r.1.buf = r.1.accepted := by
    rw [h1, List.append_assoc, h2, h7.accepted]; exact h.queue ho
  have hd := h.deliv
  rw [hh] at hd
  simp only [Option.toList, List.filter_nil, List.append_nil] at hd
  refine ⟨?_, ?_, ?_, fun _ => hq, ?_, ?_, ?_, ?_, ?_, ?_, ?_, ?_, ?_, ?_, ?_⟩
  · intro e he; rw [h6, hh] at he; cases he
  · intro hwt
    rcases h5 with ⟨_, hb⟩ | hs
    · exact hb
    · rw [hs, hw] at hwt; cases hwt
  · have : r.1.buf.length ≤ st.buf.length := by
      rw [← h2, List.length_append]; omega
    rw [h7.cap]; exact Nat.le_trans this h.bounded
  · rw [← hq]; exact List.prefix_append _ _
  · rw [h7.accepted, h7.lost, h7.offered]; exact h.perm
  · rw [h7.accepted, h7.offered]; exact h.accSub
  · rw [h7.lost, h7.offered]; exact h.lostSub
  · rw [h6, hh, h3, h1, h7.filter, List.filter_append, hd]; simp
  · intro hone
    rw [h7.once] at hone
    rw [h3, hon hone]; simpa using h4
  · intro hc; rw [ho'] at hc; cases hc
  · intro _; rw [h7.leftAt]; exact h.leftOpen ho
  · intro hc; rw [ho'] at hc; cases hc
  · rw [h7.subAt]; exact h.subLe
  · rw [h7.offered, offeredPred_congr h7.chans h7.subAt h7.leftAt]; exact h.offered

theorem settle_none {st : Stream} (h : st.handed = none) : settleStream st = (st, []) := by
  simp [settleStream, h]

theorem settle_pass {st : Stream} {e : Ev} (h : st.handed = some e) (hp : st.filter.pass e = true) :
    settleStream st = ({ st with handed := none, delivered := st.delivered ++ [e] }, [.got st.id e]) := by
  simp [settleStream, h, hp]

theorem settle_fail {st : Stream} {e : Ev} (h : st.handed = some e) (hp : st.filter.pass e = false) :
    settleStream st = ((pullBuf { st with handed := none } st.buf).1,
      (pullBuf { st with handed := none } st.buf).2.filter
        fun x => match x with | .blocked _ => false | _ => true) := by
  simp [settleStream, h, hp]
  rfl

theorem settle_out (st : Stream) :
    ∀ o ∈ (settleStream st).2, ∃ s ev, o = SOut.got s ev := by
  cases h : st.handed with
  | none => rw [settle_none h]; intro o ho; cases ho
  | some e =>
    rcases Bool.eq_false_or_eq_true (st.filter.pass e) with hp | hp
    · rw [settle_pass h hp]; intro o ho; simp at ho; exact ⟨_, _, ho⟩
    · rw [settle_fail h hp]
      intro o ho
      obtain ⟨h1, h2⟩ := List.mem_filter.mp ho
      rcases pullBuf_out _ _ o h1 with h3 | ⟨s, rfl⟩
      · exact h3
      · simp at h2

/-- The consumer that was handed an event runs. -/
theorem StInv.settle {n : Nat} {log : List Ev} {st : Stream} (h : StInv n log st)
    (hon : OnceS st) :
    StInv n log (settleStream st).1 ∧ (settleStream st).1.handed = none ∧
      SameCore (settleStream st).1 st := by
  cases hh : st.handed with
  | none =>
    rw [settle_none hh]
    exact ⟨h, hh, by constructor <;> rfl⟩
  | some e =>
    obtain ⟨hw, ho⟩ := h.handedS e hh
    have hdel : st.once = true → st.delivered = [] := by
      intro h1
      cases hd : st.delivered with
      | nil => rfl
      | cons a l =>
        have := hon h1 (by rw [hd]; simp)
        rw [ho] at this; cases this
    have hd := h.deliv
    rw [hh] at hd
    rcases Bool.eq_false_or_eq_true (st.filter.pass e) with hp | hp
    · rw [settle_pass hh hp]
      refine ⟨?_, rfl, by constructor <;> rfl⟩
      refine ⟨?_, h.waitBuf, h.bounded, h.queue, h.pre, h.perm, h.accSub, h.lostSub, ?_, ?_,
        h.closed, h.leftOpen, h.leftClosed, h.subLe, h.offered⟩
      · intro x hx; cases hx
      · simpa [hp] using hd
      · intro h1
        show (st.delivered ++ [e]).length ≤ 1
        rw [hdel h1]; simp
    · rw [settle_fail hh hp]
      have h0 : StInv n log { st with handed := none } := by
        refine ⟨?_, h.waitBuf, h.bounded, h.queue, h.pre, h.perm, h.accSub, h.lostSub, ?_,
          h.onceLen, h.closed, h.leftOpen, h.leftClosed, h.subLe, h.offered⟩
        · intro x hx; cases hx
        · simpa [hp] using hd
      obtain ⟨g1, g2, g3⟩ := h0.pullBuf rfl ho hw hdel
      exact ⟨g1, g2, ⟨g3.id, g3.chans, g3.filter, g3.cap, g3.once, g3.opened, g3.subAt, g3.leftAt,
        g3.offered, g3.accepted, g3.lost⟩⟩

/-! ### `finishOnce` and `settleAll` -/

theorem finishOnce_fire {w : SigWorld} {st : Stream}
    (h : (st.once && !st.delivered.isEmpty && st.opened) = true) :
    finishOnce w st = (closeStream w st, [.left st.id]) := by
  simp only [finishOnce, h, if_true]

theorem finishOnce_skip {w : SigWorld} {st : Stream}
    (h : (st.once && !st.delivered.isEmpty && st.opened) = false) :
    finishOnce w st = (w, []) := by
  simp only [finishOnce, h, Bool.false_eq_true, if_false]

theorem finishOnce_out (w : SigWorld) (st : Stream) :
    ∀ o ∈ (finishOnce w st).2, ∃ s, o = SOut.left s := by
  rcases Bool.eq_false_or_eq_true (st.once && !st.delivered.isEmpty && st.opened) with h | h
  · rw [finishOnce_fire h]; intro o ho; simp at ho; exact ⟨_, ho⟩
  · rw [finishOnce_skip h]; intro o ho; cases ho

/-- A consumer step on one stream (`setStream` followed by `finishOnce`). -/
theorem finish_step {w : SigWorld} (hw : WInv w) {st st' : Stream} (hst : st ∈ w.streams)
    (hcore : SameCore st' st) (hinv : StInv w.nextSeq w.log st') (hh : st'.handed = none) :
    WInv (finishOnce (w.setStream st') st').1 ∧
      (∀ x ∈ (finishOnce (w.setStream st') st').1.streams,
        (x.id = st.id ∧ x.handed = none ∧ OnceS x) ∨ (x ∈ w.streams ∧ x.id ≠ st.id)) ∧
      (finishOnce (w.setStream st') st').1.streams.map Stream.id = w.streams.map Stream.id ∧
      (finishOnce (w.setStream st') st').1.parents = w.parents ∧
      (∀ s, s ≠ st.id → (finishOnce (w.setStream st') st').1.stream? s = w.stream? s) := by
  have hw1 : WInv (w.setStream st') :=
    hw.setStream hst hcore.id hcore.chans hcore.opened hcore.lost hinv
  have hmem : st' ∈ (w.setStream st').streams := by
    rw [setStream_streams]
    have : repl st' st = st' := repl_of_eq hcore.id.symm
    exact List.mem_map.mpr ⟨st, hst, this⟩
  rcases Bool.eq_false_or_eq_true (st'.once && !st'.delivered.isEmpty && st'.opened) with h | h
  · rw [finishOnce_fire h]
    have hop : st'.opened = true := by
      simp only [Bool.and_eq_true] at h; exact h.2
    refine ⟨hw1.closeStream hmem hh hop, ?_, ?_, rfl, ?_⟩
    · intro x hx
      rcases mem_closeStream hx with rfl | ⟨hx1, hne⟩
      · left; exact ⟨hcore.id, rfl, fun _ _ => rfl⟩
      · rcases mem_setStream hx1 with rfl | ⟨hx2, hne2⟩
        · exact absurd rfl hne
        · right; exact ⟨hx2, by rw [← hcore.id]; exact hne2⟩
    · rw [closeStream_ids, setStream_ids]
    · intro s hs
      rw [closeStream_stream?_ne _ _ _ (by rw [hcore.id]; exact hs),
        setStream_stream?_ne _ _ _ (by rw [hcore.id]; exact hs)]
  · rw [finishOnce_skip h]
    refine ⟨hw1, ?_, setStream_ids _ _, rfl, ?_⟩
    · intro x hx
      rcases mem_setStream hx with rfl | ⟨hx2, hne2⟩
      · left
        refine ⟨hcore.id, hh, ?_⟩
        intro h1 h2
        rcases Bool.eq_false_or_eq_true x.opened with h3 | h3
        · have : x.delivered.isEmpty = false := by
            cases hd : x.delivered with
            | nil => exact absurd hd h2
            | cons a l => rfl
          simp [h1, h3, this] at h
        · exact h3
      · right; exact ⟨hx2, by rw [← hcore.id]; exact hne2⟩
    · intro s hs
      rw [setStream_stream?_ne _ _ _ (by rw [hcore.id]; exact hs)]

/-- One iteration of `settleAll`. -/
def sone (w : SigWorld) (st : Stream) : SigWorld × List SOut :=
  finishOnce (w.setStream (settleStream st).1) (settleStream st).1

theorem settleAll_nil (w : SigWorld) : settleAll [] w = (w, []) := rfl

theorem settleAll_cons_none {s : StreamId} {rest : List StreamId} {w : SigWorld}
    (h : w.stream? s = none) : settleAll (s :: rest) w = settleAll rest w := by
  simp only [settleAll, h]

theorem settleAll_cons_some {s : StreamId} {rest : List StreamId} {w : SigWorld} {st : Stream}
    (h : w.stream? s = some st) :
    settleAll (s :: rest) w =
      ((settleAll rest (sone w st).1).1,
        (settleStream st).2 ++ (sone w st).2 ++ (settleAll rest (sone w st).1).2) := by
  simp only [settleAll, h, sone]

theorem Good.sone {w : SigWorld} (hg : Good w) {st : Stream} (hst : st ∈ w.streams) :
    Good (sone w st).1 ∧
      (∀ x ∈ (sone w st).1.streams, (x.id = st.id ∧ x.handed = none) ∨ (x ∈ w.streams ∧ x.id ≠ st.id)) ∧
      (sone w st).1.streams.map Stream.id = w.streams.map Stream.id ∧
      (sone w st).1.parents = w.parents ∧
      (∀ s, s ≠ st.id → (sone w st).1.stream? s = w.stream? s) := by
  obtain ⟨hw, ho⟩ := hg
  obtain ⟨h1, h2, h3⟩ := (hw.st st hst).settle (ho st hst)
  obtain ⟨g1, g2, g3, g4, g5⟩ := finish_step hw hst h3 h1 h2
  refine ⟨⟨g1, ?_⟩, ?_, g3, g4, g5⟩
  · intro x hx
    rcases g2 x hx with ⟨_, _, h⟩ | ⟨h, _⟩
    · exact h
    · exact ho x h
  · intro x hx
    rcases g2 x hx with ⟨h, h', _⟩ | h
    · exact Or.inl ⟨h, h'⟩
    · exact Or.inr h

theorem Good.settleAll (l : List StreamId) {w : SigWorld} (hg : Good w) :
    Good (settleAll l w).1 ∧
      (∀ x ∈ (settleAll l w).1.streams, x.handed = none ∨ (x ∈ w.streams ∧ x.id ∉ l)) ∧
      (settleAll l w).1.parents = w.parents := by
  induction l generalizing w with
  | nil => exact ⟨hg, fun x hx => Or.inr ⟨hx, by simp⟩, rfl⟩
  | cons s rest ih =>
    cases h : w.stream? s with
    | none =>
      rw [settleAll_cons_none h]
      obtain ⟨h1, h2, h3⟩ := ih hg
      refine ⟨h1, ?_, h3⟩
      intro x hx
      rcases h2 x hx with h' | ⟨h', h''⟩
      · exact Or.inl h'
      · refine Or.inr ⟨h', ?_⟩
        simp only [List.mem_cons, not_or]
        exact ⟨stream?_none h x h', h''⟩
    | some st =>
      rw [settleAll_cons_some h]
      have hid := stream?_some_id h
      obtain ⟨g1, g2, _, g4, _⟩ := hg.sone (stream?_some_mem h)
      obtain ⟨h1, h2, h3⟩ := ih g1
      refine ⟨h1, ?_, h3.trans g4⟩
      intro x hx
      rcases h2 x hx with h' | ⟨h', h''⟩
      · exact Or.inl h'
      · rcases g2 x h' with ⟨_, k⟩ | ⟨k1, k2⟩
        · exact Or.inl k
        · refine Or.inr ⟨k1, ?_⟩
          simp only [List.mem_cons, not_or]
          exact ⟨by rw [← hid]; exact k2, h''⟩

theorem settleAll_out (l : List StreamId) (w : SigWorld) :
    ∀ o ∈ (settleAll l w).2, (∃ s ev, o = SOut.got s ev) ∨ (∃ s, o = SOut.left s) := by
  induction l generalizing w with
  | nil => intro o ho; cases ho
  | cons s rest ih =>
    cases h : w.stream? s with
    | none => rw [settleAll_cons_none h]; exact ih w
    | some st =>
      rw [settleAll_cons_some h]
      intro o ho
      rcases List.mem_append.mp ho with ho | ho
      · rcases List.mem_append.mp ho with ho | ho
        · exact Or.inl (settle_out st o ho)
        · exact Or.inr (finishOnce_out _ _ o ho)
      · exact ih _ o ho

/-! ### The operations -/

theorem WInv.init (ps : List (ClsId × ClsId)) : WInv (SigWorld.empty ps) := by
  refine ⟨List.nodup_nil, ?_, ?_, ?_, ?_, ?_, ?_, rfl, ?_, rfl, ?_⟩ <;> intro x hx <;> cases hx

theorem Inv.init (ps : List (ClsId × ClsId)) : Inv (SigWorld.empty ps) :=
  ⟨⟨WInv.init ps, fun x hx => by cases hx⟩, fun x hx => by cases hx⟩

/-- The world after binding a new signal. -/
def withChan (w : SigWorld) (inst : InstId) (attr : String) (evCls : ClsId) : SigWorld :=
  { w with chans := w.chans ++ [⟨w.chans.length, inst, attr, evCls, []⟩] }

theorem sstep_access_found {w : SigWorld} {inst : InstId} {attr : String} (evCls : ClsId) {c : Chan}
    (h : w.chans.find? (fun c => c.inst == inst && c.attr == attr) = some c) :
    sstep w (.access inst attr evCls) = (w, [.chan c.id]) := by
  simp only [sstep, h]

theorem sstep_access_new {w : SigWorld} {inst : InstId} {attr : String} (evCls : ClsId)
    (h : w.chans.find? (fun c => c.inst == inst && c.attr == attr) = none) :
    sstep w (.access inst attr evCls) = (withChan w inst attr evCls, [.chan w.chans.length]) := by
  simp only [sstep, h, withChan]

theorem WInv.withChan {w : SigWorld} (hw : WInv w) {inst : InstId} {attr : String} (evCls : ClsId)
    (h : w.chans.find? (fun c => c.inst == inst && c.attr == attr) = none) :
    WInv (withChan w inst attr evCls) := by
  have hkey : ∀ c ∈ w.chans, ¬ (c.inst = inst ∧ c.attr = attr) := by
    intro c hc
    have := List.find?_eq_none.mp h c hc
    simpa using this
  refine ⟨hw.sidNodup, ?_, ?_, ?_, ?_, ?_, ?_, hw.logSeq, ?_, hw.warn, hw.st⟩
  · intro c hc
    show c.id < (w.chans ++ [_]).length
    rw [List.length_append]
    rcases List.mem_append.mp hc with hc | hc
    · exact Nat.lt_succ_of_lt (hw.idLt c hc)
    · have : c = ⟨w.chans.length, inst, attr, evCls, []⟩ := by simpa using hc
      rw [this]; exact Nat.lt_succ_self _
  · intro c1 h1 c2 h2 he
    rcases List.mem_append.mp h1 with h1 | h1 <;> rcases List.mem_append.mp h2 with h2 | h2
    · exact hw.idInj c1 h1 c2 h2 he
    · have : c2 = ⟨w.chans.length, inst, attr, evCls, []⟩ := by simpa using h2
      have := hw.idLt c1 h1
      subst c2
      exact absurd he (Nat.ne_of_lt this)
    · have : c1 = ⟨w.chans.length, inst, attr, evCls, []⟩ := by simpa using h1
      have := hw.idLt c2 h2
      subst c1
      exact absurd he.symm (Nat.ne_of_lt this)
    · have e1 : c1 = ⟨w.chans.length, inst, attr, evCls, []⟩ := by simpa using h1
      have e2 : c2 = ⟨w.chans.length, inst, attr, evCls, []⟩ := by simpa using h2
      rw [e1, e2]
  · intro c1 h1 c2 h2 he he'
    rcases List.mem_append.mp h1 with h1 | h1 <;> rcases List.mem_append.mp h2 with h2 | h2
    · exact hw.keyInj c1 h1 c2 h2 he he'
    · have : c2 = ⟨w.chans.length, inst, attr, evCls, []⟩ := by simpa using h2
      subst c2
      exact absurd ⟨he, he'⟩ (hkey c1 h1)
    · have : c1 = ⟨w.chans.length, inst, attr, evCls, []⟩ := by simpa using h1
      subst c1
      exact absurd ⟨he.symm, he'.symm⟩ (hkey c2 h2)
    · have e1 : c1 = ⟨w.chans.length, inst, attr, evCls, []⟩ := by simpa using h1
      have e2 : c2 = ⟨w.chans.length, inst, attr, evCls, []⟩ := by simpa using h2
      rw [e1, e2]
  · intro c hc
    rcases List.mem_append.mp hc with hc | hc
    · exact hw.subsNodup c hc
    · have : c = ⟨w.chans.length, inst, attr, evCls, []⟩ := by simpa using hc
      rw [this]; exact List.nodup_nil
  · intro c hc s
    rcases List.mem_append.mp hc with hc | hc
    · exact hw.subsIff c hc s
    · have : c = ⟨w.chans.length, inst, attr, evCls, []⟩ := by simpa using hc
      subst c
      constructor
      · intro hs; cases hs
      · rintro ⟨x, hx, _, _, h3⟩
        obtain ⟨ch, hch, hid⟩ := hw.stChans x hx _ h3
        have := hw.idLt ch hch
        exact absurd hid (Nat.ne_of_lt this)
  · intro x hx c hc
    obtain ⟨ch, hch, hid⟩ := hw.stChans x hx c hc
    exact ⟨ch, List.mem_append_left _ hch, hid⟩
  · intro e he
    obtain ⟨ch, hch, hid⟩ := hw.stamp e he
    exact ⟨ch, List.mem_append_left _ hch, hid⟩

/-- The stream created by `subscribe`. -/
def newStream (w : SigWorld) (s : StreamId) (chans : List ChanId) (filter : Filter) (cap : Nat)
    (once : Bool) : Stream :=
  { id := s, chans := chans, filter := filter, cap := cap, once := once,
    opened := true, waiting := false, handed := none, buf := [], subAt := w.nextSeq,
    leftAt := none, offered := [], accepted := [], lost := [], taken := [], delivered := [] }

/-- The channel update of `subscribe`. -/
def addSub (s : StreamId) (chans : List ChanId) (c : Chan) : Chan :=
  if chans.contains c.id then { c with subs := c.subs ++ [s] } else c

theorem addSub_frame (s : StreamId) (chans : List ChanId) (c : Chan) :
    (addSub s chans c).id = c.id ∧ (addSub s chans c).inst = c.inst ∧
      (addSub s chans c).attr = c.attr := by
  unfold addSub; split <;> exact ⟨rfl, rfl, rfl⟩

/-- The world after a successful `subscribe`. -/
def withStream (w : SigWorld) (s : StreamId) (chans : List ChanId) (filter : Filter) (cap : Nat)
    (once : Bool) : SigWorld :=
  { w with streams := w.streams ++ [newStream w s chans filter cap once],
           chans := w.chans.map (addSub s chans) }

theorem sstep_subscribe_ok {w : SigWorld} {s : StreamId} {chans : List ChanId} (filter : Filter)
    (cap : Nat) (once : Bool) (h1 : (w.stream? s).isSome = false)
    (h2 : chans.any (fun c => (w.chan? c).isNone) = false) :
    sstep w (.subscribe s chans filter cap once false) =
      (withStream w s chans filter cap once, [.ok]) := by
  simp only [sstep, h1, h2, Bool.false_eq_true, if_false]
  rfl

theorem WInv.withStream {w : SigWorld} (hw : WInv w) {s : StreamId} {chans : List ChanId}
    (filter : Filter) (cap : Nat) (once : Bool) (h1 : (w.stream? s).isSome = false)
    (h2 : chans.any (fun c => (w.chan? c).isNone) = false) :
    WInv (withStream w s chans filter cap once) := by
  have hfresh : ∀ x ∈ w.streams, x.id ≠ s := by
    apply stream?_none
    cases h : w.stream? s with
    | none => rfl
    | some x => rw [h] at h1; cases h1
  have hex : ∀ c ∈ chans, ∃ ch ∈ w.chans, ch.id = c := by
    intro c hc
    have := List.any_eq_false.mp h2 c hc
    cases h : w.chan? c with
    | none => rw [h] at this; simp at this
    | some ch => exact ⟨ch, chan?_some_mem h, chan?_some_id h⟩
  have hnotin : ∀ c ∈ w.chans, s ∉ c.subs := by
    intro c hc hs
    obtain ⟨x, hx, hid, _⟩ := (hw.subsIff c hc s).mp hs
    exact hfresh x hx hid
  refine ⟨?_, ?_, ?_, ?_, ?_, ?_, ?_, hw.logSeq, ?_, ?_, ?_⟩
  · show ((w.streams ++ [_]).map Stream.id).Nodup
    rw [List.map_append, List.nodup_append]
    refine ⟨hw.sidNodup, by simp, ?_⟩
    intro a ha b hb
    obtain ⟨x, hx, rfl⟩ := List.mem_map.mp ha
    have : b = s := by simpa [newStream] using hb
    rw [this]; exact hfresh x hx
  · intro c hc
    obtain ⟨c0, hc0, rfl⟩ := List.mem_map.mp hc
    show (addSub s chans c0).id < (w.chans.map _).length
    rw [(addSub_frame s chans c0).1, List.length_map]
    exact hw.idLt c0 hc0
  · intro c1 h1 c2 h2 he
    obtain ⟨a, ha, rfl⟩ := List.mem_map.mp h1
    obtain ⟨b, hb, rfl⟩ := List.mem_map.mp h2
    rw [(addSub_frame s chans a).1, (addSub_frame s chans b).1] at he
    rw [hw.idInj a ha b hb he]
  · intro c1 h1 c2 h2 he he'
    obtain ⟨a, ha, rfl⟩ := List.mem_map.mp h1
    obtain ⟨b, hb, rfl⟩ := List.mem_map.mp h2
    rw [(addSub_frame s chans a).2.1, (addSub_frame s chans b).2.1] at he
    rw [(addSub_frame s chans a).2.2, (addSub_frame s chans b).2.2] at he'
    rw [hw.keyInj a ha b hb he he']
  · intro c hc
    obtain ⟨c0, hc0, rfl⟩ := List.mem_map.mp hc
    unfold addSub
    split
    · show (c0.subs ++ [s]).Nodup
      rw [List.nodup_append]
      refine ⟨hw.subsNodup c0 hc0, by simp, ?_⟩
      intro a ha b hb
      have : b = s := by simpa using hb
      rw [this]; exact fun h => hnotin c0 hc0 (h ▸ ha)
    · exact hw.subsNodup c0 hc0
  · intro c hc s'
    obtain ⟨c0, hc0, rfl⟩ := List.mem_map.mp hc
    show s' ∈ (addSub s chans c0).subs ↔
      ∃ x ∈ w.streams ++ [newStream w s chans filter cap once],
        x.id = s' ∧ x.opened = true ∧ (addSub s chans c0).id ∈ x.chans
    rw [(addSub_frame s chans c0).1]
    have hiff := hw.subsIff c0 hc0 s'
    unfold addSub
    split
    · rename_i hcont
      have hcont' : c0.id ∈ chans := by simpa using hcont
      show s' ∈ c0.subs ++ [s] ↔ _
      rw [List.mem_append, hiff]
      constructor
      · rintro (⟨x, hx, h⟩ | hs)
        · exact ⟨x, List.mem_append_left _ hx, h⟩
        · have : s' = s := by simpa using hs
          exact ⟨_, List.mem_append_right _ (List.mem_singleton.mpr rfl), this.symm, rfl, hcont'⟩
      · rintro ⟨x, hx, h⟩
        rcases List.mem_append.mp hx with hx | hx
        · exact Or.inl ⟨x, hx, h⟩
        · have : x = newStream w s chans filter cap once := by simpa using hx
          subst this
          right
          simp only [List.mem_singleton]
          exact h.1.symm
    · rename_i hcont
      have hcont' : c0.id ∉ chans := by simpa using hcont
      rw [hiff]
      constructor
      · rintro ⟨x, hx, h⟩
        exact ⟨x, List.mem_append_left _ hx, h⟩
      · rintro ⟨x, hx, h⟩
        rcases List.mem_append.mp hx with hx | hx
        · exact ⟨x, hx, h⟩
        · have : x = newStream w s chans filter cap once := by simpa using hx
          subst this
          exact absurd h.2.2 hcont'
  · intro x hx c hc
    have : ∃ ch ∈ w.chans, ch.id = c := by
      rcases List.mem_append.mp hx with hx | hx
      · exact hw.stChans x hx c hc
      · have : x = newStream w s chans filter cap once := by simpa using hx
        subst this
        exact hex c hc
    obtain ⟨ch, hch, rfl⟩ := this
    exact ⟨addSub s chans ch, List.mem_map_of_mem hch, (addSub_frame s chans ch).1⟩
  · intro e he
    obtain ⟨ch, hch, h1, h2, h3⟩ := hw.stamp e he
    obtain ⟨f1, f2, f3⟩ := addSub_frame s chans ch
    exact ⟨addSub s chans ch, List.mem_map_of_mem hch, f1.trans h1, h2.trans f2.symm, h3.trans f3.symm⟩
  · show w.warnings = ((w.streams ++ [_]).map fun st : Stream => st.lost.length).sum
    rw [List.map_append, List.sum_append, ← hw.warn]
    simp [newStream]
  · intro x hx
    rcases List.mem_append.mp hx with hx | hx
    · exact hw.st x hx
    · have : x = newStream w s chans filter cap once := by simpa using hx
      subst this
      refine ⟨?_, ?_, ?_, ?_, ?_, ?_, ?_, ?_, ?_, ?_, ?_, ?_, ?_, ?_, ?_⟩
      · intro e he; cases he
      · intro _; rfl
      · exact Nat.zero_le _
      · intro _; rfl
      · exact List.prefix_refl _
      · exact List.Perm.refl _
      · exact List.Sublist.refl _
      · exact List.Sublist.refl _
      · rfl
      · intro _; exact Nat.zero_le _
      · intro hc; cases hc
      · intro _; rfl
      · intro hc; cases hc
      · exact Nat.le_refl _
      · show [] = w.log.filter _
        symm
        rw [List.filter_eq_nil_iff]
        intro e he
        have := hw.log_lt he
        have h3 : ¬ w.nextSeq ≤ e.seq := Nat.not_le.mpr this
        simp [offeredPred, newStream, h3]

theorem Inv.withStream {w : SigWorld} (hi : Inv w) {s : StreamId} {chans : List ChanId}
    (filter : Filter) (cap : Nat) (once : Bool) (h1 : (w.stream? s).isSome = false)
    (h2 : chans.any (fun c => (w.chan? c).isNone) = false) :
    Inv (withStream w s chans filter cap once) := by
  obtain ⟨⟨hw, ho⟩, hh⟩ := hi
  refine ⟨⟨hw.withStream filter cap once h1 h2, ?_⟩, ?_⟩
  · intro x hx
    rcases List.mem_append.mp hx with hx | hx
    · exact ho x hx
    · have : x = newStream w s chans filter cap once := by simpa using hx
      subst this
      intro _ h; exact absurd rfl h
  · intro x hx
    rcases List.mem_append.mp hx with hx | hx
    · exact hh x hx
    · have : x = newStream w s chans filter cap once := by simpa using hx
      subst this
      rfl

theorem sstep_dispatch_ok {w : SigWorld} {c : ChanId} {ch : Chan} {cls : ClsId} (n : Nat)
    (hc : w.chan? c = some ch) (hcls : isSubCls w.parents 16 cls ch.evCls = true) :
    sstep w (.dispatch (some c) cls n) =
      ((settleAll ((burst ch cls n w).1.streams.map (·.id)) (burst ch cls n w).1).1,
        .ok :: (burst ch cls n w).2 ++
          (settleAll ((burst ch cls n w).1.streams.map (·.id)) (burst ch cls n w).1).2) := by
  simp only [sstep, hc, hcls]
  rfl

theorem Inv.dispatch {w : SigWorld} (hi : Inv w) {ch : Chan} (hch : ch ∈ w.chans) (cls : ClsId)
    (n : Nat) :
    Inv (settleAll ((burst ch cls n w).1.streams.map (·.id)) (burst ch cls n w).1).1 := by
  obtain ⟨hb, _⟩ := hi.1.burst hch cls n
  obtain ⟨h1, h2, _⟩ := hb.settleAll ((burst ch cls n w).1.streams.map (·.id))
  refine ⟨h1, ?_⟩
  intro x hx
  rcases h2 x hx with h | ⟨h, h'⟩
  · exact h
  · exact absurd (List.mem_map_of_mem h) h'

theorem sstep_pull_ok {w : SigWorld} {s : StreamId} {st : Stream} (h : w.stream? s = some st)
    (h2 : (!st.opened || st.waiting) = false) :
    sstep w (.pull s) =
      ((finishOnce (w.setStream (pullBuf st st.buf).1) (pullBuf st st.buf).1).1,
        (pullBuf st st.buf).2 ++ (finishOnce (w.setStream (pullBuf st st.buf).1) (pullBuf st st.buf).1).2) := by
  simp only [sstep, h, h2, Bool.false_eq_true, if_false]

theorem Inv.pull {w : SigWorld} (hi : Inv w) {st : Stream} (hst : st ∈ w.streams)
    (h2 : (!st.opened || st.waiting) = false) :
    Inv (finishOnce (w.setStream (pullBuf st st.buf).1) (pullBuf st st.buf).1).1 := by
  obtain ⟨⟨hw, ho⟩, hh⟩ := hi
  have hop : st.opened = true := by
    rcases Bool.eq_false_or_eq_true st.opened with h | h
    · exact h
    · simp [h] at h2
  have hwt : st.waiting = false := by
    rcases Bool.eq_false_or_eq_true st.waiting with h | h
    · simp [h] at h2
    · exact h
  have hdel : st.once = true → st.delivered = [] := by
    intro h1
    cases hd : st.delivered with
    | nil => rfl
    | cons a l =>
      have := ho st hst h1 (by rw [hd]; simp)
      rw [hop] at this; cases this
  obtain ⟨g1, g2, g3⟩ := (hw.st st hst).pullBuf (hh st hst) hop hwt hdel
  obtain ⟨k1, k2, _⟩ := finish_step hw hst g3 g1 g2
  refine ⟨⟨k1, ?_⟩, ?_⟩
  · intro x hx
    rcases k2 x hx with ⟨_, _, h⟩ | ⟨h, _⟩
    · exact h
    · exact ho x h
  · intro x hx
    rcases k2 x hx with ⟨_, h, _⟩ | ⟨h, _⟩
    · exact h
    · exact hh x h

theorem sstep_leave_ok {w : SigWorld} {s : StreamId} {st : Stream} (h : w.stream? s = some st)
    (h2 : st.opened = true) : sstep w (.leave s) = (closeStream w st, [.ok]) := by
  simp only [sstep, h, h2, Bool.not_true, Bool.false_eq_true, if_false]

theorem Inv.leave {w : SigWorld} (hi : Inv w) {st : Stream} (hst : st ∈ w.streams)
    (hop : st.opened = true) : Inv (closeStream w st) := by
  obtain ⟨⟨hw, ho⟩, hh⟩ := hi
  refine ⟨⟨hw.closeStream hst (hh st hst) hop, ?_⟩, ?_⟩
  · intro x hx
    rcases mem_closeStream hx with rfl | ⟨h, _⟩
    · intro _ _; rfl
    · exact ho x h
  · intro x hx
    rcases mem_closeStream hx with rfl | ⟨h, _⟩
    · rfl
    · exact hh x h

/-- Every operation preserves the invariant. -/
theorem Inv.step {w : SigWorld} (hi : Inv w) (op : SOp) : Inv (sstep w op).1 := by
  cases op with
  | access inst attr evCls =>
    cases h : w.chans.find? (fun c => c.inst == inst && c.attr == attr) with
    | some c => rw [sstep_access_found evCls h]; exact hi
    | none =>
      rw [sstep_access_new evCls h]
      exact ⟨⟨hi.1.1.withChan evCls h, hi.1.2⟩, hi.2⟩
  | accessClass => exact hi
  | subscribe s chans filter cap once unboundAmong =>
    cases unboundAmong with
    | true => exact hi
    | false =>
      rcases Bool.eq_false_or_eq_true (w.stream? s).isSome with h1 | h1
      · have : sstep w (.subscribe s chans filter cap once false) = (w, [.badOp]) := by
          simp only [sstep, h1, Bool.false_eq_true, if_false, if_true]
        rw [this]; exact hi
      · rcases Bool.eq_false_or_eq_true (chans.any (fun c => (w.chan? c).isNone)) with h2 | h2
        · have : sstep w (.subscribe s chans filter cap once false) = (w, [.badOp]) := by
            simp only [sstep, h1, h2, Bool.false_eq_true, if_false, if_true]
          rw [this]; exact hi
        · rw [sstep_subscribe_ok filter cap once h1 h2]
          exact hi.withStream filter cap once h1 h2
  | dispatch c cls n =>
    cases c with
    | none => exact hi
    | some c =>
      cases hc : w.chan? c with
      | none =>
        have : sstep w (.dispatch (some c) cls n) = (w, [.badOp]) := by simp only [sstep, hc]
        rw [this]; exact hi
      | some ch =>
        rcases Bool.eq_false_or_eq_true (isSubCls w.parents 16 cls ch.evCls) with hcls | hcls
        · rw [sstep_dispatch_ok n hc hcls]
          exact hi.dispatch (chan?_some_mem hc) cls n
        · have : sstep w (.dispatch (some c) cls n) = (w, [.typeError]) := by
            simp only [sstep, hc, hcls, Bool.not_false, if_true]
          rw [this]; exact hi
  | pull s =>
    cases h : w.stream? s with
    | none =>
      have : sstep w (.pull s) = (w, [.badOp]) := by simp only [sstep, h]
      rw [this]; exact hi
    | some st =>
      rcases Bool.eq_false_or_eq_true (!st.opened || st.waiting) with h2 | h2
      · have : sstep w (.pull s) = (w, [.badOp]) := by simp only [sstep, h, h2, if_true]
        rw [this]; exact hi
      · rw [sstep_pull_ok h h2]
        exact hi.pull (stream?_some_mem h) h2
  | leave s =>
    cases h : w.stream? s with
    | none =>
      have : sstep w (.leave s) = (w, [.badOp]) := by simp only [sstep, h]
      rw [this]; exact hi
    | some st =>
      rcases Bool.eq_false_or_eq_true st.opened with h2 | h2
      · rw [sstep_leave_ok h h2]
        exact hi.leave (stream?_some_mem h) h2
      · have : sstep w (.leave s) = (w, [.badOp]) := by
          simp only [sstep, h, h2, Bool.not_false, if_true]
        rw [this]; exact hi

theorem Inv.of_reachable {ps : List (ClsId × ClsId)} {w : SigWorld} (hr : SReachable ps w) :
    Inv w := by
  induction hr with
  | init => exact Inv.init ps
  | step w op _ ih => exact ih.step op

/-! ### Consequences used by the property files -/

theorem StInv.offered_sorted {n : Nat} {log : List Ev} {st : Stream} (h : StInv n log st)
    (hlog : log.map Ev.seq = List.range n) : (st.offered.map Ev.seq).Pairwise (· < ·) := by
  have h1 : st.offered.Sublist log := by rw [h.offered]; exact List.filter_sublist
  have h2 := h1.map Ev.seq
  rw [hlog] at h2
  exact List.Pairwise.sublist h2 List.pairwise_lt_range

theorem StInv.delivered_sublist {n : Nat} {log : List Ev} {st : Stream} (h : StInv n log st)
    (hh : st.handed = none) : st.delivered.Sublist st.offered := by
  have hd := h.deliv
  rw [hh] at hd
  simp only [Option.toList, List.filter_nil, List.append_nil] at hd
  rw [hd]
  exact (List.filter_sublist.trans h.pre.sublist).trans h.accSub

theorem dispatchTo_stream?_notin (e : Ev) (subs : List StreamId) (w : SigWorld) (s : StreamId)
    (hs : s ∉ subs) : (dispatchTo e subs w).1.stream? s = w.stream? s := by
  induction subs generalizing w with
  | nil => rfl
  | cons s' rest ih =>
    simp only [List.mem_cons, not_or] at hs
    cases h : w.stream? s' with
    | none => rw [dispatchTo_cons_none h]; exact ih w hs.2
    | some st =>
      rw [dispatchTo_cons_some h]
      show (dispatchTo e rest (dstep e st w)).1.stream? s = _
      rw [ih _ hs.2, dstep_stream?]
      cases hs' : w.stream? s with
      | none => rfl
      | some x =>
        simp only [Option.map_some]
        rw [repl_of_ne]
        rw [stream?_some_id hs', (offer_frame st e).1, stream?_some_id h]
        exact hs.1

theorem dispatchTo_stream? (e : Ev) (subs : List StreamId) (w : SigWorld) (s : StreamId)
    (hnd : subs.Nodup) (hids : (w.streams.map Stream.id).Nodup) :
    (dispatchTo e subs w).1.stream? s =
      if s ∈ subs then (w.stream? s).map fun st => (offer st e).1 else w.stream? s := by
  unfold SigWorld.stream?
  rw [dispatchTo_streams e subs w hnd hids, find?_id_map (offerMap_id e subs)]
  cases h : w.streams.find? (·.id == s) with
  | none => simp
  | some x =>
    have hid : x.id = s := by simpa using List.find?_some h
    simp only [Option.map_some, offerMap, hid]
    split <;> rfl

theorem Good.burst_stream? {w : SigWorld} (hg : Good w) {ch : Chan} (hch : ch ∈ w.chans)
    (cls : ClsId) (n : Nat) (s : StreamId) (hs : s ∉ ch.subs) :
    (Asphalt.burst ch cls n w).1.stream? s = w.stream? s := by
  induction n generalizing w with
  | zero => rfl
  | succ n ih =>
    rw [burst_succ]
    obtain ⟨h1, h2, _⟩ := hg.bstep hch cls
    show (Asphalt.burst ch cls n (Sig.bstep ch cls w).1).1.stream? s = _
    rw [ih h1 (h2 ▸ hch)]
    unfold Sig.bstep
    rw [subsOf_logged hg.1 hch cls, dispatchTo_stream?_notin _ _ _ _ hs]
    rfl

theorem Good.settleAll_stream? (l : List StreamId) {w : SigWorld} (hg : Good w) (s : StreamId)
    (hs : ∀ st, w.stream? s = some st → st.handed = none) :
    (Asphalt.settleAll l w).1.stream? s = w.stream? s := by
  induction l generalizing w with
  | nil => rfl
  | cons s' rest ih =>
    cases h : w.stream? s' with
    | none => rw [settleAll_cons_none h]; exact ih hg hs
    | some st =>
      rw [settleAll_cons_some h]
      have hid := stream?_some_id h
      obtain ⟨g1, _, _, _, g5⟩ := hg.sone (stream?_some_mem h)
      have key : (Sig.sone w st).1.stream? s = w.stream? s := by
        by_cases hne : s = s'
        · subst hne
          have hh := hs st h
          have hon := hg.2 st (stream?_some_mem h)
          have hcond : (st.once && !st.delivered.isEmpty && st.opened) = false := by
            rcases Bool.eq_false_or_eq_true st.once with h1 | h1
            · cases hd : st.delivered with
              | nil => simp
              | cons a l =>
                have := hon h1 (by rw [hd]; simp)
                simp [this]
            · simp [h1]
          unfold Sig.sone
          rw [settle_none hh, finishOnce_skip hcond]
          show (w.setStream st).stream? s = _
          rw [setStream_stream?, h, Option.map_some, repl_of_eq rfl]
        · exact g5 s (by rw [hid]; exact hne)
      show (Asphalt.settleAll rest (Sig.sone w st).1).1.stream? s = _
      rw [ih g1 (by rw [key]; exact hs), key]

theorem Inv.dispatch_stream? {w : SigWorld} (hi : Inv w) {ch : Chan} (hch : ch ∈ w.chans)
    (cls : ClsId) (n : Nat) (s : StreamId) (hs : s ∉ ch.subs) :
    (settleAll ((burst ch cls n w).1.streams.map (·.id)) (burst ch cls n w).1).1.stream? s =
      w.stream? s := by
  have hb := hi.1.burst_stream? hch cls n s hs
  rw [(hi.1.burst hch cls n).1.settleAll_stream? _ s, hb]
  intro st hst
  rw [hb] at hst
  exact hi.2 st (stream?_some_mem hst)

theorem access_chans_mono (w : SigWorld) (i : InstId) (a : String) (k : ClsId) {ch : Chan}
    (h : ch ∈ w.chans) : ch ∈ (sstep w (.access i a k)).1.chans := by
  cases hf : w.chans.find? (fun c => c.inst == i && c.attr == a) with
  | some c => rw [sstep_access_found k hf]; exact h
  | none => rw [sstep_access_new k hf]; exact List.mem_append_left _ h

end Sig
end Asphalt
