/- Helper lemmas for Props/C01_mid.lean (cancellation arriving while the teardown is running). -/
import AsphaltProofs.Props.C01

namespace Asphalt
namespace Mid

/-! ### unfolding of `midStack` / `midEff` -/

theorem midStack_nil (k : Nat) : midStack k [] = [] := rfl

/-- The callback during which the cancellation arrives: it keeps its body, what it registers runs
in the cancelled scope, and it ends with the cancellation if it is asynchronous. -/
theorem midStack_cons_hit (k : Nat) (p a : Bool) (body : List BodyOp) (regs : List Cb)
    (r : Option Exc) (rest : List Cb) :
    midStack k (Cb.mk k p a body regs r :: rest) =
      Cb.mk k p a body (regs.map Cb.underCancel) (if a then some .cancelled else r) ::
        rest.map Cb.underCancel := by
  rw [midStack, if_pos (show (Cb.mk k p a body regs r).id = k from rfl),
    underCancelList_eq_map, underCancelList_eq_map]

theorem midStack_cons_miss (k : Nat) (cb : Cb) (rest : List Cb) (h : cb.id ≠ k) :
    midStack k (cb :: rest) = cb :: midStack k rest := by
  obtain ⟨id, p, a, body, regs, r⟩ := cb
  rw [midStack, if_neg h]

theorem midStack_append_hit (k : Nat) (above below : List Cb) (p a : Bool) (body : List BodyOp)
    (regs : List Cb) (r : Option Exc) (hab : ∀ cb ∈ above, cb.id ≠ k) :
    midStack k (above ++ Cb.mk k p a body regs r :: below) =
      above ++ Cb.mk k p a body (regs.map Cb.underCancel) (if a then some .cancelled else r) ::
        below.map Cb.underCancel := by
  induction above with
  | nil => exact midStack_cons_hit k p a body regs r below
  | cons c cs ih =>
    rw [List.cons_append, midStack_cons_miss k c _ (hab c List.mem_cons_self),
      ih (fun d hd => hab d (List.mem_cons_of_mem _ hd)), List.cons_append]

theorem midStack_absent (k : Nat) (st : List Cb) (h : ∀ cb ∈ st, cb.id ≠ k) :
    midStack k st = st := by
  induction st with
  | nil => rfl
  | cons c cs ih =>
    rw [midStack_cons_miss k c cs (h c List.mem_cons_self),
      ih (fun d hd => h d (List.mem_cons_of_mem _ hd))]

theorem midEff_of_cancel (be : BlockEnd) (k : Nat) (st : List Cb) (h : be.isCancel = true) :
    midEff be k st = effStack be st := by
  rw [midEff, if_pos h]

theorem midEff_of_not_cancel (be : BlockEnd) (k : Nat) (st : List Cb) (h : be.isCancel = false) :
    midEff be k st = midStack k st := by
  rw [midEff, if_neg (by rw [h]; exact Bool.false_ne_true)]

/-- A block left by cancellation is cancelled throughout. -/
theorem midEff_cancelled (k : Nat) : midEff (.raised .cancelled) k = effStack (.raised .cancelled) :=
  funext fun st => midEff_of_cancel _ k st rfl

/-- No directly registered callback `k`: the stack is the one of an ordinary `exit`. -/
theorem midEff_absent (be : BlockEnd) (k : Nat) (st : List Cb) (h : ∀ cb ∈ st, cb.id ≠ k) :
    midEff be k st = effStack be st := by
  cases hb : be.isCancel with
  | true => exact midEff_of_cancel be k st hb
  | false =>
    rw [midEff_of_not_cancel be k st hb, midStack_absent k st h, effStack_of_not_cancel be st hb]

/-! ### what `midStack` keeps of the registered stack -/

/-- The callback during which the cancellation arrives keeps identity, flag and kind. -/
theorem hit_keeps (k : Nat) (p a : Bool) (body : List BodyOp) (regs : List Cb) (r : Option Exc) :
    let c' := Cb.mk k p a body (regs.map Cb.underCancel) (if a then some Exc.cancelled else r)
    c'.id = (Cb.mk k p a body regs r).id ∧ c'.passExc = (Cb.mk k p a body regs r).passExc ∧
      c'.isAsync = (Cb.mk k p a body regs r).isAsync :=
  ⟨rfl, rfl, rfl⟩

theorem midStack_map_id (k : Nat) (st : List Cb) : (midStack k st).map Cb.id = st.map Cb.id := by
  induction st with
  | nil => rfl
  | cons c cs ih =>
    by_cases hc : c.id = k
    · obtain ⟨id, p, a, body, regs, r⟩ := c
      change id = k at hc
      subst hc
      rw [midStack_cons_hit, List.map_cons, List.map_cons, List.map_map]
      congr 1
      exact List.map_congr_left (fun d _ => Cn.underCancel_id d)
    · rw [midStack_cons_miss k c cs hc, List.map_cons, List.map_cons, ih]

theorem midEff_map_id (be : BlockEnd) (k : Nat) (st : List Cb) :
    (midEff be k st).map Cb.id = st.map Cb.id := by
  cases hb : be.isCancel with
  | true => rw [midEff_of_cancel be k st hb, Cn.effStack_map_id]
  | false => rw [midEff_of_not_cancel be k st hb, midStack_map_id]

/-- Every registered callback has a counterpart in `midStack`, with the same identity,
pass_exception flag and kind. -/
theorem midStack_counterpart (k : Nat) (st : List Cb) (cb : Cb) (hm : cb ∈ st) :
    ∃ cb' ∈ midStack k st, cb'.id = cb.id ∧ cb'.passExc = cb.passExc ∧ cb'.isAsync = cb.isAsync := by
  induction st with
  | nil => cases hm
  | cons c cs ih =>
    by_cases hc : c.id = k
    · obtain ⟨id, p, a, body, regs, r⟩ := c
      change id = k at hc
      subst hc
      rw [midStack_cons_hit]
      rcases List.mem_cons.1 hm with h | h
      · subst h
        exact ⟨_, List.mem_cons_self, rfl, rfl, rfl⟩
      · exact ⟨cb.underCancel, List.mem_cons_of_mem _ (List.mem_map_of_mem h),
          Cn.underCancel_id cb, Cn.underCancel_passExc cb, Cn.underCancel_isAsync cb⟩
    · rw [midStack_cons_miss k c cs hc]
      rcases List.mem_cons.1 hm with h | h
      · subst h
        exact ⟨cb, List.mem_cons_self, rfl, rfl, rfl⟩
      · obtain ⟨cb', hm', h'⟩ := ih h
        exact ⟨cb', List.mem_cons_of_mem _ hm', h'⟩

theorem midEff_counterpart (be : BlockEnd) (k : Nat) (st : List Cb) (cb : Cb) (hm : cb ∈ st) :
    ∃ cb' ∈ midEff be k st, cb'.id = cb.id ∧ cb'.passExc = cb.passExc ∧ cb'.isAsync = cb.isAsync := by
  cases hb : be.isCancel with
  | true => rw [midEff_of_cancel be k st hb]; exact Cn.effStack_counterpart be st cb hm
  | false => rw [midEff_of_not_cancel be k st hb]; exact midStack_counterpart k st cb hm

/-- An asynchronous callback `k` on the stack: some callback of `midStack` ends with the
cancellation (callback `k` itself, or - if a callback of the same id lies above it - its image in
the cancelled scope). -/
theorem midStack_cancelled (k : Nat) (st : List Cb) (cb : Cb) (hm : cb ∈ st) (hk : cb.id = k)
    (ha : cb.isAsync = true) : ∃ c' ∈ midStack k st, c'.raises = some .cancelled := by
  induction st with
  | nil => cases hm
  | cons c cs ih =>
    by_cases hc : c.id = k
    · obtain ⟨id, p, a, body, regs, r⟩ := c
      change id = k at hc
      subst hc
      rw [midStack_cons_hit]
      rcases List.mem_cons.1 hm with h | h
      · subst h
        change a = true at ha
        subst ha
        exact ⟨_, List.mem_cons_self, rfl⟩
      · exact ⟨cb.underCancel, List.mem_cons_of_mem _ (List.mem_map_of_mem h),
          Cn.underCancel_raises_of_async cb ha⟩
    · rw [midStack_cons_miss k c cs hc]
      rcases List.mem_cons.1 hm with h | h
      · subst h
        exact absurd hk hc
      · obtain ⟨c', hm', h'⟩ := ih h
        exact ⟨c', List.mem_cons_of_mem _ hm', h'⟩

theorem midEff_cancelled_mem (be : BlockEnd) (k : Nat) (st : List Cb) (cb : Cb) (hm : cb ∈ st)
    (hk : cb.id = k) (ha : cb.isAsync = true) :
    ∃ c' ∈ midEff be k st, c'.raises = some .cancelled := by
  cases hb : be.isCancel with
  | true =>
    rw [midEff_of_cancel be k st hb, (Cn.isCancel_eq_true be).1 hb, Cn.effStack_cancelled]
    exact ⟨cb.underCancel, List.mem_map_of_mem hm, Cn.underCancel_raises_of_async cb ha⟩
  | false => rw [midEff_of_not_cancel be k st hb]; exact midStack_cancelled k st cb hm hk ha

/-! ### runs -/

/-- What lies below on the stack runs after everything that the upper part runs and registers. -/
theorem RunsLike.append {f : List Cb → List Cb} (hf : Cn.RunsLike f) (above below : List Cb) :
    f (above ++ below) = f above ++ f below := by
  induction above using stack_induction with
  | nil => rw [List.nil_append, hf.nil, List.nil_append]
  | cons id p a b regs r stack ih =>
    rw [List.cons_append, hf.cons, hf.cons, ← List.append_assoc, ih, List.cons_append]

theorem runOrder_append (above below : List Cb) :
    runOrder (above ++ below) = runOrder above ++ runOrder below :=
  RunsLike.append runOrder_runsLike above below

/-! ### the `exitMid` step -/

/-- The last output of leaving a block when the teardown raised: the exception group. -/
theorem getLast?_exit_outputs (tr : List Out) (o : Out) :
    (tr ++ [Out.closed, o]).getLast? = some o := by
  rw [List.getLast?_append]
  rfl

end Mid
end Asphalt
