/- Helper lemmas for C15: `run` over appended operation lists, the root context after the
registrations of `runOps`, and the shape of the final `exit` step's outputs. -/
import AsphaltModel.Runner
import AsphaltProofs.Lemmas.Assoc
import AsphaltProofs.Lemmas.Teardown
import AsphaltProofs.Lemmas.Cancel

namespace Asphalt
namespace Rn

/-! ### `run` -/

theorem run_nil (w : World) : run w [] = (w, []) := rfl

theorem run_cons (w : World) (op : Op) (ops : List Op) :
    run w (op :: ops) =
      ((run (step w op).1 ops).1, (step w op).2 :: (run (step w op).1 ops).2) := rfl

theorem run_append (w : World) (a b : List Op) :
    run w (a ++ b) = ((run (run w a).1 b).1, (run w a).2 ++ (run (run w a).1 b).2) := by
  induction a generalizing w with
  | nil => rfl
  | cons op a ih =>
    rw [List.cons_append, run_cons, ih, run_cons]
    rfl

/-- The outputs of the last step of a non-empty run. -/
theorem run_snoc_getLast (w : World) (ops : List Op) (op : Op) :
    ((run w (ops ++ [op])).2.getLast?).getD [] = (step (run w ops).1 op).2 := by
  rw [run_append, run_cons, run_nil]
  simp

/-! ### the root context during the registrations -/

/-- Context 1 exists, is open, is a root without open children, has callback stack `tds`, and is
the current context of the host task 0. -/
def RootOpen (w : World) (tds : List Cb) : Prop :=
  w.curOf 0 = some 1 ∧ ∃ x, w.ctx? 1 = some x ∧ x.state = .opened ∧ x.parent = none ∧ x.children = [] ∧ x.tds = tds

theorem rootOpen_init : RootOpen (run World.empty [.new 0 1 none, .enter 0 1]).1 [] := by
  exact ⟨rfl, { freshCtx none none with state := .opened, token := some none }, rfl, rfl, rfl, rfl, rfl⟩

theorem rootOpen_addTeardown (w : World) (tds : List Cb) (cb : Cb) (h : RootOpen w tds) :
    RootOpen (step w (.addTeardown 1 cb true)).1 (cb :: tds) := by
  obtain ⟨hcur, x, hx, hs, hp, hc, ht⟩ := h
  refine ⟨?_, { x with tds := cb :: x.tds }, ?_, hs, hp, hc, by rw [ht]⟩
  · simp only [step, onCtx, hx, hs, CState.usable]
    exact hcur
  · simp only [step, onCtx, hx, hs, CState.usable]
    exact ctx?_setCtx_same _ _ _

theorem rootOpen_regs (regs : List RegSpec) (w : World) (tds : List Cb) (h : RootOpen w tds) :
    RootOpen (run w (regs.map fun r => Op.addTeardown 1 (regCb r) true)).1
      ((regs.map regCb).reverse ++ tds) := by
  induction regs generalizing w tds with
  | nil => exact h
  | cons r regs ih =>
    rw [List.map_cons, run_cons, List.map_cons, List.reverse_cons, List.append_assoc]
    exact ih _ _ (rootOpen_addTeardown w tds (regCb r) h)

/-- The world in which the final `exit` step of `runOps` is taken. -/
theorem rootOpen_runOps (c : RunCase) :
    RootOpen
      (run World.empty
        ([.new 0 1 none, .enter 0 1] ++ c.regs.map (fun r => Op.addTeardown 1 (regCb r) true))).1
      (c.regs.map regCb).reverse := by
  rw [run_append]
  have h := rootOpen_regs c.regs _ [] rootOpen_init
  rw [List.append_nil] at h
  exact h

/-! ### the final step -/

/-- What a callback registers while running is synchronous and registers nothing: cancellation
of the block does not affect it. -/
theorem lateCb_underCancel (r : Nat × Bool) : (lateCb r).underCancel = lateCb r :=
  Cn.underCancel_sync_leaf r.1 r.2 [] none

theorem map_lateCb_underCancel (l : List (Nat × Bool)) :
    (l.map lateCb).map Cb.underCancel = l.map lateCb := by
  rw [List.map_map]
  exact List.map_congr_left (fun r _ => lateCb_underCancel r)

/-- A registered callback is synchronous, and so is everything it registers. -/
theorem regCb_underCancel (r : RegSpec) : (regCb r).underCancel = regCb r := by
  unfold regCb
  rw [underCancel_sync, map_lateCb_underCancel]

/-- The callbacks of the runner model are synchronous (also those registered during the
teardown), so the stack runs as registered however the block is left (also when a crashing
service task cancels it). -/
theorem effStack_regs (be : BlockEnd) (regs : List RegSpec) :
    effStack be (regs.map regCb).reverse = (regs.map regCb).reverse := by
  apply Cn.effStack_of_fixed
  intro c hc
  obtain ⟨r, _, rfl⟩ := List.mem_map.1 (List.mem_reverse.1 hc)
  exact regCb_underCancel r

/-- The trace of `runApp`: the teardown of the registered stack, `closed`, the outcome. -/
theorem runApp_trace (c : RunCase) :
    ∃ x : Ctx, ∃ excs : List Exc,
      (runApp c).1 =
        (runTeardown 1 (some 1) (blockEndOf c.ending) (c.regs.map regCb).reverse x).2.1 ++
          [.closed, exitOutcome (blockEndOf c.ending) true [] excs] := by
  obtain ⟨hcur, x, hx, hs, hp, hc, ht⟩ := rootOpen_runOps c
  have h : (runApp c).1 =
      (runTeardown 1 (some 1) (blockEndOf c.ending) (c.regs.map regCb).reverse
          { x with state := .closing, tds := [] }).2.1 ++
        [.closed, exitOutcome (blockEndOf c.ending) true []
          (runTeardown 1 (some 1) (blockEndOf c.ending) (c.regs.map regCb).reverse
            { x with state := .closing, tds := [] }).2.2] := by
    unfold runApp runOps
    rw [run_snoc_getLast, step_exit _ 0 1 _ x hx hs, hcur, ht, hp, hc, effStack_regs]
    rfl
  exact ⟨_, _, h⟩

/-! ### the callbacks that run, as ids and flags -/

theorem flatMap_congr' {α β : Type} (l : List α) (f g : α → List β) (h : ∀ a ∈ l, f a = g a) :
    l.flatMap f = l.flatMap g := by
  induction l with
  | nil => rfl
  | cons a l ih =>
    rw [List.flatMap_cons, List.flatMap_cons, h a List.mem_cons_self,
      ih (fun b hb => h b (List.mem_cons_of_mem _ hb))]

theorem perm_flatMap_left {α β : Type} (l : List α) (f g : α → List β)
    (h : ∀ a ∈ l, (f a).Perm (g a)) : (l.flatMap f).Perm (l.flatMap g) := by
  induction l with
  | nil => exact List.Perm.refl _
  | cons a l ih =>
    rw [List.flatMap_cons, List.flatMap_cons]
    exact (h a List.mem_cons_self).append (ih (fun b hb => h b (List.mem_cons_of_mem _ hb)))

/-- Everything that runs, as callbacks: last registered first, what a callback registers while
running right after it, again last registered first. -/
def expectedCbs (regs : List RegSpec) : List Cb :=
  regs.reverse.flatMap fun r => regCb r :: (r.late.map lateCb).reverse

theorem expectedCbs_key (regs : List RegSpec) :
    (expectedCbs regs).map (fun cb => (cb.id, cb.passExc)) = expectedOrder regs := by
  unfold expectedCbs expectedOrder
  rw [List.map_flatMap]
  apply flatMap_congr'
  intro r _
  rw [List.map_cons, ← List.map_reverse, List.map_map]
  change (r.id, r.pass) :: r.late.reverse.map (fun q => (q.1, q.2)) = _
  rw [List.map_id']

/-- None of them raises. -/
theorem expectedCbs_raises (regs : List RegSpec) : ∀ cb ∈ expectedCbs regs, cb.raises = none := by
  intro cb h
  obtain ⟨r, _, h⟩ := List.mem_flatMap.1 h
  rcases List.mem_cons.1 h with h | h
  · rw [h]; rfl
  · obtain ⟨q, _, rfl⟩ := List.mem_map.1 (List.mem_reverse.1 h)
    rfl

/-- The ids in `expectedOrder` are those of everything registered, each once. -/
theorem expectedOrder_ids_perm (regs : List RegSpec) :
    ((expectedOrder regs).map Prod.fst).Perm (regs.flatMap fun r => r.id :: r.late.map Prod.fst) := by
  unfold expectedOrder
  rw [List.map_flatMap]
  refine (List.Perm.flatMap_right _ (List.reverse_perm regs)).trans ?_
  apply perm_flatMap_left
  intro r _
  rw [List.map_cons, List.map_reverse]
  exact List.Perm.cons _ (List.reverse_perm _)

theorem runApp_exit (c : RunCase) : (runApp c).2 = exitOf c.ending := rfl

end Rn
end Asphalt
