/- Helper lemmas for C15: `run` over appended operation lists, the root context after the
registrations of `runOps`, and the shape of the final `exit` step's outputs. -/
import AsphaltModel.Runner
import AsphaltProofs.Lemmas.Assoc
import AsphaltProofs.Lemmas.Teardown
import AsphaltProofs.Lemmas.Cancel

namespace Asphalt
namespace Rn

/-! ### `run` -/

theorem run_nil (w : World) : run w [] = (w, []) := rfl

theorem run_cons (w : World) (op : Op) (ops : List Op) :
    run w (op :: ops) =
      ((run (step w op).1 ops).1, (step w op).2 :: (run (step w op).1 ops).2) := rfl

theorem run_append (w : World) (a b : List Op) :
    run w (a ++ b) = ((run (run w a).1 b).1, (run w a).2 ++ (run (run w a).1 b).2) := by
  induction a generalizing w with
  | nil => rfl
  | cons op a ih =>
    rw [List.cons_append, run_cons, ih, run_cons]
    rfl

/-- The outputs of the last step of a non-empty run. -/
theorem run_snoc_getLast (w : World) (ops : List Op) (op : Op) :
    ((run w (ops ++ [op])).2.getLast?).getD [] = (step (run w ops).1 op).2 := by
  rw [run_append, run_cons, run_nil]
  simp

/-! ### the root context during the registrations -/

/-- Context 1 exists, is open, is a root without open children, and has callback stack `tds`. -/
def RootOpen (w : World) (tds : List Cb) : Prop :=
  ∃ x, w.ctx? 1 = some x ∧ x.state = .opened ∧ x.parent = none ∧ x.children = [] ∧ x.tds = tds

theorem rootOpen_init : RootOpen (run World.empty [.new 0 1 none, .enter 0 1]).1 [] := by
  exact ⟨{ freshCtx none none with state := .opened, token := some none }, rfl, rfl, rfl, rfl, rfl⟩

theorem rootOpen_addTeardown (w : World) (tds : List Cb) (cb : Cb) (h : RootOpen w tds) :
    RootOpen (step w (.addTeardown 1 cb true)).1 (cb :: tds) := by
  obtain ⟨x, hx, hs, hp, hc, ht⟩ := h
  refine ⟨{ x with tds := cb :: x.tds }, ?_, hs, hp, hc, by rw [ht]⟩
  simp only [step, onCtx, hx, hs, CState.usable]
  exact ctx?_setCtx_same _ _ _

theorem rootOpen_regs (regs : List (Nat × Bool)) (w : World) (tds : List Cb) (h : RootOpen w tds) :
    RootOpen (run w (regs.map fun r => Op.addTeardown 1 (regCb r) true)).1
      ((regs.map regCb).reverse ++ tds) := by
  induction regs generalizing w tds with
  | nil => exact h
  | cons r regs ih =>
    rw [List.map_cons, run_cons, List.map_cons, List.reverse_cons, List.append_assoc]
    exact ih _ _ (rootOpen_addTeardown w tds (regCb r) h)

/-- The world in which the final `exit` step of `runOps` is taken. -/
theorem rootOpen_runOps (c : RunCase) :
    RootOpen
      (run World.empty
        ([.new 0 1 none, .enter 0 1] ++ c.regs.map (fun r => Op.addTeardown 1 (regCb r) true))).1
      (c.regs.map regCb).reverse := by
  rw [run_append]
  have h := rootOpen_regs c.regs _ [] rootOpen_init
  rw [List.append_nil] at h
  exact h

/-! ### the final step -/

/-- The callbacks of the runner model are synchronous and register nothing, so the stack runs as
registered however the block is left (also when a crashing service task cancels it). -/
theorem effStack_regs (be : BlockEnd) (regs : List (Nat × Bool)) :
    effStack be (regs.map regCb).reverse = (regs.map regCb).reverse := by
  apply Cn.effStack_of_fixed
  intro c hc
  obtain ⟨r, _, rfl⟩ := List.mem_map.1 (List.mem_reverse.1 hc)
  exact Cn.underCancel_sync_leaf r.1 r.2 [] none

/-- The trace of `runApp`: the teardown of the registered stack, `closed`, the outcome. -/
theorem runApp_trace (c : RunCase) :
    ∃ x : Ctx, ∃ excs : List Exc,
      (runApp c).1 =
        (runTeardown 1 (blockEndOf c.ending) (c.regs.map regCb).reverse x).2.1 ++
          [.closed, exitOutcome (blockEndOf c.ending) true [] excs] := by
  obtain ⟨x, hx, hs, hp, hc, ht⟩ := rootOpen_runOps c
  have h : (runApp c).1 =
      (runTeardown 1 (blockEndOf c.ending) (c.regs.map regCb).reverse
          { x with state := .closing, tds := [] }).2.1 ++
        [.closed, exitOutcome (blockEndOf c.ending) true []
          (runTeardown 1 (blockEndOf c.ending) (c.regs.map regCb).reverse
            { x with state := .closing, tds := [] }).2.2] := by
    unfold runApp runOps
    rw [run_snoc_getLast, step_exit _ 0 1 _ x hx hs, ht, hp, hc, effStack_regs]
    rfl
  exact ⟨_, _, h⟩

theorem runApp_exit (c : RunCase) : (runApp c).2 = exitOf c.ending := rfl

end Rn
end Asphalt
