/- Helper lemmas about the context kernel (`AsphaltModel/Context.lean`). -/
import AsphaltModel.Context
import AsphaltProofs.Lemmas.Assoc
import AsphaltProofs.Lemmas.ExitWith
import AsphaltProofs.Lemmas.GetNow

namespace Asphalt
namespace K2

/-! ### association lists -/

section assoc
variable {κ α : Type} [DecidableEq κ]

theorem ainsert_self (k : κ) (v : α) (l : List (κ × α)) (h : alookup k l = some v) :
    ainsert k v l = l := by
  induction l with
  | nil => simp at h
  | cons p l ih =>
    obtain ⟨k', v'⟩ := p
    by_cases hk : k' = k
    · simp only [alookup_cons, hk, if_true, Option.some.injEq] at h
      simp [ainsert_cons, hk, h]
    · simp only [alookup_cons, hk, if_false] at h
      simp [ainsert_cons, hk, ih h]

theorem ainsert_ainsert (k : κ) (v v' : α) (l : List (κ × α)) :
    ainsert k v (ainsert k v' l) = ainsert k v l := by
  induction l with
  | nil => simp [ainsert]
  | cons p l ih =>
    obtain ⟨k', w⟩ := p
    by_cases hk : k' = k
    · simp [ainsert_cons, hk]
    · simp [ainsert_cons, hk, ih]

theorem alookup_ainsert (k k' : κ) (v : α) (l : List (κ × α)) :
    alookup k (ainsert k' v l) = if k' = k then some v else alookup k l := by
  by_cases h : k' = k
  · subst h; simp [alookup_ainsert_same]
  · simp [h, alookup_ainsert_other _ _ _ _ h]

end assoc

/-! ### worlds -/

theorem World.ext' {w w' : World} (h1 : w.ctxs = w'.ctxs) (h2 : w.cur = w'.cur) : w = w' := by
  cases w; cases w'; simp_all

@[simp] theorem World.setCtx_cur (w : World) (c : CtxId) (x : Ctx) : (w.setCtx c x).cur = w.cur := rfl
@[simp] theorem World.setCur_ctxs (w : World) (t : TaskId) (c : Option CtxId) :
    (w.setCur t c).ctxs = w.ctxs := rfl

@[simp] theorem World.curOf_setCtx (w : World) (c : CtxId) (x : Ctx) (t : TaskId) :
    (w.setCtx c x).curOf t = w.curOf t := rfl

@[simp] theorem World.ctx?_setCur (w : World) (t : TaskId) (c : Option CtxId) (d : CtxId) :
    (w.setCur t c).ctx? d = w.ctx? d := rfl

theorem World.ctx?_setCtx (w : World) (c d : CtxId) (x : Ctx) :
    (w.setCtx c x).ctx? d = if c = d then some x else w.ctx? d := by
  simp only [World.ctx?, World.setCtx, alookup_ainsert]

@[simp] theorem World.ctx?_setCtx_same (w : World) (c : CtxId) (x : Ctx) :
    (w.setCtx c x).ctx? c = some x := by
  simp [World.ctx?_setCtx]

theorem World.ctx?_setCtx_other (w : World) (c d : CtxId) (x : Ctx) (h : c ≠ d) :
    (w.setCtx c x).ctx? d = w.ctx? d := by
  simp [World.ctx?_setCtx, h]

theorem World.curOf_setCur (w : World) (t t' : TaskId) (c : Option CtxId) :
    (w.setCur t c).curOf t' = if t = t' then c else w.curOf t' := by
  simp only [World.curOf, World.setCur, alookup_ainsert]
  split <;> simp

@[simp] theorem World.curOf_setCur_same (w : World) (t : TaskId) (c : Option CtxId) :
    (w.setCur t c).curOf t = c := by
  simp [World.curOf_setCur]

theorem World.curOf_setCur_other (w : World) (t t' : TaskId) (c : Option CtxId) (h : t ≠ t') :
    (w.setCur t c).curOf t' = w.curOf t' := by
  simp [World.curOf_setCur, h]

theorem World.setCtx_setCtx (w : World) (c : CtxId) (x y : Ctx) :
    (w.setCtx c x).setCtx c y = w.setCtx c y := by
  simp [World.setCtx, ainsert_ainsert]

theorem World.setCtx_self (w : World) (c : CtxId) (x : Ctx) (h : w.ctx? c = some x) :
    w.setCtx c x = w := by
  cases w
  simp only [World.setCtx, World.ctx?] at *
  rw [ainsert_self _ _ _ h]

theorem onCtx_some (w : World) (c : CtxId) (f : Ctx → Ctx × List Out) (x : Ctx)
    (h : w.ctx? c = some x) : onCtx w c f = (w.setCtx c (f x).1, (f x).2) := by
  simp [onCtx, h]

theorem onCtx_none (w : World) (c : CtxId) (f : Ctx → Ctx × List Out)
    (h : w.ctx? c = none) : onCtx w c f = (w, [.badOp]) := by
  simp [onCtx, h]

theorem onCtx_cur (w : World) (c : CtxId) (f : Ctx → Ctx × List Out) :
    (onCtx w c f).1.cur = w.cur := by
  unfold onCtx; split <;> rfl

theorem onCtx_ctx?_other (w : World) (c d : CtxId) (f : Ctx → Ctx × List Out) (h : c ≠ d) :
    (onCtx w c f).1.ctx? d = w.ctx? d := by
  unfold onCtx; split
  · rfl
  · simp [World.ctx?_setCtx_other _ _ _ _ h]


theorem storeGenerated_out (cid : CtxId) (x : Ctx) (f : Factory) (v : Val) :
    ∀ o ∈ (storeGenerated cid x f v).2, ∃ e, o = .ev cid e := by
  intro o ho
  unfold storeGenerated at ho
  simp only at ho
  split at ho
  · simp at ho
  · simp at ho; exact ⟨_, ho⟩

/-- The context after one more call of factory `f` was counted. -/
def bumpCall (x : Ctx) (f : Factory) : Ctx :=
  { x with callCount := ainsert f.fid (countOf f.fid x.callCount + 1) x.callCount }

theorem callFactory_eq (cid : CtxId) (x : Ctx) (f : Factory) :
    callFactory cid x f = (bumpCall x f,
      if countOf f.fid x.callCount < f.failFirst then none
      else some (.gen cid f.fid (countOf f.fid x.callCount))) := by
  unfold callFactory bumpCall; simp only; split <;> rfl

/-- The synchronous generation path shared by `ctxGetNowait` and `ctxGet`. -/
theorem ctxGetNowait_gen (cid : CtxId) (x : Ctx) (k : Key) (opt : Bool) (f : Factory)
    (hs : x.state.usable = true) (hmiss : alookup k x.res = none) (hf : alookup k x.fac = some f)
    (hsync : f.isAsync = false) :
    ctxGetNowait cid x k opt =
      if countOf f.fid x.callCount < f.failFirst then (bumpCall x f, [.raisedExc (.exn 0)])
      else ((storeGenerated cid (bumpCall x f) f (.gen cid f.fid (countOf f.fid x.callCount))).1,
            .val (.gen cid f.fid (countOf f.fid x.callCount)) ::
              (storeGenerated cid (bumpCall x f) f (.gen cid f.fid (countOf f.fid x.callCount))).2) := by
  unfold ctxGetNowait
  simp only [hs, hmiss, hf, hsync, callFactory_eq]
  by_cases h : countOf f.fid x.callCount < f.failFirst <;> simp [h]

theorem ctxGet_gen (cid : CtxId) (x : Ctx) (t : TaskId) (k : Key) (opt : Bool) (f : Factory)
    (hs : x.state.usable = true) (hmiss : alookup k x.res = none) (hf : alookup k x.fac = some f)
    (hnp : x.pending.find? (fun p => p.fid = f.fid) = none)
    (hung : (f.isAsync && f.gated) = false) :
    ctxGet cid x t k opt =
      if countOf f.fid x.callCount < f.failFirst then (bumpCall x f, [.raisedExc (.exn 0)])
      else ((storeGenerated cid (bumpCall x f) f (.gen cid f.fid (countOf f.fid x.callCount))).1,
            registeredVal (storeGenerated cid (bumpCall x f) f (.gen cid f.fid (countOf f.fid x.callCount))).1 k ::
              (storeGenerated cid (bumpCall x f) f (.gen cid f.fid (countOf f.fid x.callCount))).2) := by
  unfold ctxGet
  simp only [hs, hmiss, hf, hnp, hung, callFactory_eq]
  by_cases h : countOf f.fid x.callCount < f.failFirst <;> simp [h]

/-- The same path taken by the lookup a teardown callback awaits. -/
theorem ctxGetNow_gen (cid : CtxId) (x : Ctx) (k : Key) (opt : Bool) (f : Factory)
    (hs : x.state.usable = true) (hmiss : alookup k x.res = none) (hf : alookup k x.fac = some f)
    (hnp : x.pending.find? (fun p => p.fid = f.fid) = none)
    (hung : (f.isAsync && f.gated) = false) :
    ctxGetNow cid x k opt =
      if countOf f.fid x.callCount < f.failFirst then (bumpCall x f, [.raisedExc (.exn 0)])
      else ((storeGenerated cid (bumpCall x f) f (.gen cid f.fid (countOf f.fid x.callCount))).1,
            registeredVal (storeGenerated cid (bumpCall x f) f (.gen cid f.fid (countOf f.fid x.callCount))).1 k ::
              (storeGenerated cid (bumpCall x f) f (.gen cid f.fid (countOf f.fid x.callCount))).2) := by
  unfold ctxGetNow
  simp only [hs, hmiss, hf, hnp, hung, callFactory_eq]
  by_cases h : countOf f.fid x.callCount < f.failFirst <;> simp [h]

theorem ctxGetNowait_cases (P : Ctx × List Out → Prop) (cid : CtxId) (x : Ctx) (k : Key) (opt : Bool)
    (h1 : x.state.usable = false → P (x, [.runtimeError x.state]))
    (h2 : ∀ cont, x.state.usable = true → alookup k x.res = some cont → P (x, [.val cont.val]))
    (h3 : ∀ f, x.state.usable = true → alookup k x.res = none → alookup k x.fac = some f →
      f.isAsync = true → P (x, [.asyncError]))
    (h4 : ∀ f, x.state.usable = true → alookup k x.res = none → alookup k x.fac = some f →
      f.isAsync = false → countOf f.fid x.callCount < f.failFirst →
      P (bumpCall x f, [.raisedExc (.exn 0)]))
    (h5 : ∀ f, x.state.usable = true → alookup k x.res = none → alookup k x.fac = some f →
      f.isAsync = false → ¬ countOf f.fid x.callCount < f.failFirst →
      P ((storeGenerated cid (bumpCall x f) f (.gen cid f.fid (countOf f.fid x.callCount))).1,
         .val (.gen cid f.fid (countOf f.fid x.callCount)) ::
           (storeGenerated cid (bumpCall x f) f (.gen cid f.fid (countOf f.fid x.callCount))).2))
    (h6 : x.state.usable = true → alookup k x.res = none → alookup k x.fac = none →
      P (x, [if opt then .none else .notFound])) :
    P (ctxGetNowait cid x k opt) := by
  cases hs : x.state.usable with
  | false => have := h1 hs; unfold ctxGetNowait; simpa [hs] using this
  | true =>
    cases hr : alookup k x.res with
    | some cont => have := h2 cont hs hr; unfold ctxGetNowait; simpa [hs, hr] using this
    | none =>
      cases hf : alookup k x.fac with
      | none => have := h6 hs hr hf; unfold ctxGetNowait; simpa [hs, hr, hf] using this
      | some f =>
        cases ha : f.isAsync with
        | true => have := h3 f hs hr hf ha; unfold ctxGetNowait; simpa [hs, hr, hf, ha] using this
        | false =>
          rw [ctxGetNowait_gen cid x k opt f hs hr hf ha]
          by_cases hc : countOf f.fid x.callCount < f.failFirst
          · simpa [hc] using h4 f hs hr hf ha hc
          · simpa [hc] using h5 f hs hr hf ha hc

/-- The pending table after task `t` joined the waiters of the generation of `fid`. -/
def addWaiter (x : Ctx) (fid : Nat) (w : TaskId × Key × Bool) : Ctx :=
  { x with pending := x.pending.map fun p =>
      if p.fid = fid then { p with waiters := p.waiters ++ [w] } else p }

/-- The context after a gated generation of `f` was started by task `t`. -/
def startGen (x : Ctx) (f : Factory) (t : TaskId) (k : Key) (opt : Bool) : Ctx :=
  { x with callCount := ainsert f.fid (countOf f.fid x.callCount + 1) x.callCount,
           pending := x.pending ++ [⟨f.fid, t, k, opt, []⟩] }

theorem ctxGet_cases (P : Ctx × List Out → Prop) (cid : CtxId) (x : Ctx) (t : TaskId) (k : Key)
    (opt : Bool)
    (h1 : x.state.usable = false → P (x, [.runtimeError x.state]))
    (h2 : ∀ cont, x.state.usable = true → alookup k x.res = some cont → P (x, [.val cont.val]))
    (h3 : ∀ f p, x.state.usable = true → alookup k x.res = none → alookup k x.fac = some f →
      x.pending.find? (fun p => p.fid = f.fid) = some p →
      P (addWaiter x f.fid (t, k, opt), [.blocked]))
    (h3' : ∀ f, x.state.usable = true → alookup k x.res = none → alookup k x.fac = some f →
      x.pending.find? (fun p => p.fid = f.fid) = none → (f.isAsync && f.gated) = true →
      P (startGen x f t k opt, [.blocked]))
    (h4 : ∀ f, x.state.usable = true → alookup k x.res = none → alookup k x.fac = some f →
      x.pending.find? (fun p => p.fid = f.fid) = none → (f.isAsync && f.gated) = false →
      countOf f.fid x.callCount < f.failFirst →
      P (bumpCall x f, [.raisedExc (.exn 0)]))
    (h5 : ∀ f, x.state.usable = true → alookup k x.res = none → alookup k x.fac = some f →
      x.pending.find? (fun p => p.fid = f.fid) = none → (f.isAsync && f.gated) = false →
      ¬ countOf f.fid x.callCount < f.failFirst →
      P ((storeGenerated cid (bumpCall x f) f (.gen cid f.fid (countOf f.fid x.callCount))).1,
         registeredVal (storeGenerated cid (bumpCall x f) f
             (.gen cid f.fid (countOf f.fid x.callCount))).1 k ::
           (storeGenerated cid (bumpCall x f) f (.gen cid f.fid (countOf f.fid x.callCount))).2))
    (h6 : x.state.usable = true → alookup k x.res = none → alookup k x.fac = none →
      P (x, [if opt then .none else .notFound])) :
    P (ctxGet cid x t k opt) := by
  cases hs : x.state.usable with
  | false => have := h1 hs; unfold ctxGet; simpa [hs] using this
  | true =>
    cases hr : alookup k x.res with
    | some cont => have := h2 cont hs hr; unfold ctxGet; simpa [hs, hr] using this
    | none =>
      cases hf : alookup k x.fac with
      | none => have := h6 hs hr hf; unfold ctxGet; simpa [hs, hr, hf] using this
      | some f =>
        cases hp : x.pending.find? (fun p => p.fid = f.fid) with
        | some p =>
          have := h3 f p hs hr hf hp; unfold ctxGet
          simpa only [hs, hr, hf, hp, addWaiter, Bool.not_true, Bool.false_eq_true, if_false] using this
        | none =>
          cases hg : (f.isAsync && f.gated) with
          | true =>
            have := h3' f hs hr hf hp hg; unfold ctxGet
            simpa only [hs, hr, hf, hp, hg, startGen, Bool.not_true, Bool.false_eq_true, if_false,
              if_true] using this
          | false =>
            rw [ctxGet_gen cid x t k opt f hs hr hf hp hg]
            by_cases hc : countOf f.fid x.callCount < f.failFirst
            · simpa [hc] using h4 f hs hr hf hp hg hc
            · simpa [hc] using h5 f hs hr hf hp hg hc


theorem registeredVal_ne_called (x : Ctx) (k : Key) : registeredVal x k ≠ .called := by
  unfold registeredVal; split <;> simp

theorem storeGenerated_no_called (cid : CtxId) (x : Ctx) (f : Factory) (v : Val) :
    Out.called ∉ (storeGenerated cid x f v).2 := by
  intro h
  obtain ⟨e, he⟩ := storeGenerated_out cid x f v _ h
  cases he

theorem ctxGetNowait_no_called (cid : CtxId) (x : Ctx) (k : Key) (opt : Bool) :
    Out.called ∉ (ctxGetNowait cid x k opt).2 := by
  apply ctxGetNowait_cases (fun r => Out.called ∉ r.2) <;> intros <;>
    simp [storeGenerated_no_called]
  cases opt <;> simp

theorem ctxGet_no_called (cid : CtxId) (x : Ctx) (t : TaskId) (k : Key) (opt : Bool) :
    Out.called ∉ (ctxGet cid x t k opt).2 := by
  apply ctxGet_cases (fun r => Out.called ∉ r.2) <;> intros <;>
    simp [storeGenerated_no_called, (registeredVal_ne_called _ _).symm]
  cases opt <;> simp

/-- The lookup an injected parameter stands for. -/
def depLookup (cid : CtxId) (isAsync : Bool) (t : TaskId) (x : Ctx) (d : Dep) : Ctx × List Out :=
  if isAsync then ctxGet cid x t d.key d.optional else ctxGetNowait cid x d.key d.optional

theorem depLookup_no_called (cid : CtxId) (isAsync : Bool) (t : TaskId) (x : Ctx) (d : Dep) :
    Out.called ∉ (depLookup cid isAsync t x d).2 := by
  unfold depLookup; split
  · exact ctxGet_no_called _ _ _ _ _
  · exact ctxGetNowait_no_called _ _ _ _

theorem resolveDeps_cons (cid : CtxId) (isAsync : Bool) (t : TaskId) (x : Ctx) (d : Dep)
    (ds : List Dep) :
    resolveDeps cid isAsync t x (d :: ds) =
      match (depLookup cid isAsync t x d).2 with
      | .val v :: evs =>
        ((resolveDeps cid isAsync t (depLookup cid isAsync t x d).1 ds).1,
          .arg d.param (some v) :: evs ++ (resolveDeps cid isAsync t (depLookup cid isAsync t x d).1 ds).2.1,
          (resolveDeps cid isAsync t (depLookup cid isAsync t x d).1 ds).2.2)
      | [.none] =>
        ((resolveDeps cid isAsync t (depLookup cid isAsync t x d).1 ds).1,
          .arg d.param none :: (resolveDeps cid isAsync t (depLookup cid isAsync t x d).1 ds).2.1,
          (resolveDeps cid isAsync t (depLookup cid isAsync t x d).1 ds).2.2)
      | other => ((depLookup cid isAsync t x d).1, other, false) := by
  rw [resolveDeps]
  simp only [depLookup]
  split <;> simp_all

theorem resolveDeps_no_called (cid : CtxId) (isAsync : Bool) (t : TaskId) (ds : List Dep) :
    ∀ x, Out.called ∉ (resolveDeps cid isAsync t x ds).2.1 := by
  induction ds with
  | nil => intro x; simp [resolveDeps]
  | cons d ds ih =>
    intro x
    rw [resolveDeps_cons]
    have hl := depLookup_no_called cid isAsync t x d
    have := ih (depLookup cid isAsync t x d).1
    split
    · rename_i h; rw [h] at hl; simp_all
    · simp_all
    · simpa using hl


theorem runBody_rel (R : Ctx → Ctx → Prop) (hrefl : ∀ x, R x x)
    (htrans : ∀ x y z, R x y → R y z → R x z) (cid : CtxId) (cur : Option CtxId)
    (hop : ∀ x op, R x (runBodyOp cid cur x op).1) :
    ∀ ops x, R x (runBody cid cur x ops).1 := by
  intro ops
  induction ops with
  | nil => intro x; exact hrefl x
  | cons op ops ih =>
    intro x
    simp only [runBody]
    exact htrans _ _ _ (hop x op) (ih _)

theorem runTeardown_rel (R : Ctx → Ctx → Prop) (hrefl : ∀ x, R x x)
    (htrans : ∀ x y z, R x y → R y z → R x z) (cid : CtxId) (cur : Option CtxId)
    (hop : ∀ x op, R x (runBodyOp cid cur x op).1) (be : BlockEnd) :
    ∀ st x, R x (runTeardown cid cur be st x).1 := by
  intro st x
  fun_induction runTeardown cid cur be st x with
  | case1 x => exact hrefl x
  | case2 st x id passExc isAsync body regs raises x' bodyOut hb stack' x'' tr excs hr ih =>
    have hs : stack' = regs.reverse ++ st := by simp [stack']
    rw [hs] at hr ih
    rw [hr] at ih
    simp only [hr]
    have h1 := runBody_rel R hrefl htrans cid cur hop body x
    rw [hb] at h1
    exact htrans _ _ _ h1 ih

/-! ### the frame of a context: fields no context-local operation touches -/

/-- `y` has the same lifecycle fields as `x`. -/
def Frame (x y : Ctx) : Prop :=
  y.parent = x.parent ∧ y.state = x.state ∧ y.token = x.token ∧ y.children = x.children

theorem Frame.refl (x : Ctx) : Frame x x := ⟨rfl, rfl, rfl, rfl⟩

theorem Frame.trans {x y z : Ctx} (h1 : Frame x y) (h2 : Frame y z) : Frame x z :=
  ⟨h2.1.trans h1.1, h2.2.1.trans h1.2.1, h2.2.2.1.trans h1.2.2.1, h2.2.2.2.trans h1.2.2.2⟩

theorem ctxAdd_fst (cid : CtxId) (x : Ctx) (a : AddArgs) :
    (ctxAdd cid x a).1 = x ∨
    ∃ v, a.val = some v ∧
      (addTypes a).any (fun t => acontains ⟨t, a.name⟩ x.res) = false ∧
      (ctxAdd cid x a).1 =
        { x with res := storeAll ⟨.static v, addTypes a, a.name, a.desc, false⟩ a.name (addTypes a) x.res,
                 tds := (match a.td with | some cb => cb :: x.tds | none => x.tds),
                 events := x.events ++ [⟨addTypes a, a.name, a.desc, false⟩] } := by
  unfold ctxAdd
  by_cases h1 : (!x.state.usable) = true
  · simp [h1]
  by_cases h2 : (!a.types.isEmpty && a.badType) = true
  · simp [h1, h2]
  cases hv : a.val with
  | none => simp [h1, h2]
  | some v =>
    by_cases h3 : (!validName a.name) = true
    · simp [h1, h2, h3]
    by_cases h4 : a.tdNotCallable = true
    · simp [h1, h2, h3, h4]
    by_cases h5 : (addTypes a).any (fun t => acontains ⟨t, a.name⟩ x.res) = true
    · simp [h1, h2, h3, h4, h5]
    · right
      refine ⟨v, rfl, by simpa using h5, ?_⟩
      cases htd : a.td <;> simp [h1, h2, h3, h4, h5]

theorem ctxAdd_frame (cid : CtxId) (x : Ctx) (a : AddArgs) : Frame x (ctxAdd cid x a).1 := by
  rcases ctxAdd_fst cid x a with h | ⟨v, _, _, h⟩ <;> rw [h]
  · exact Frame.refl x
  · exact ⟨rfl, rfl, rfl, rfl⟩

theorem ctxAddFactory_frame (cid : CtxId) (x : Ctx) (a : FacArgs) :
    Frame x (ctxAddFactory cid x a).1 := by
  unfold ctxAddFactory
  repeat' split
  all_goals exact ⟨rfl, rfl, rfl, rfl⟩

theorem storeGenerated_frame (cid : CtxId) (x : Ctx) (f : Factory) (v : Val) :
    Frame x (storeGenerated cid x f v).1 := by
  unfold storeGenerated
  simp only
  split <;> exact ⟨rfl, rfl, rfl, rfl⟩

theorem bumpCall_frame (x : Ctx) (f : Factory) : Frame x (bumpCall x f) := ⟨rfl, rfl, rfl, rfl⟩

theorem ctxGetNowait_frame (cid : CtxId) (x : Ctx) (k : Key) (opt : Bool) :
    Frame x (ctxGetNowait cid x k opt).1 := by
  apply ctxGetNowait_cases (fun r => Frame x r.1) <;> intros
  all_goals first
    | exact Frame.refl _
    | exact bumpCall_frame _ _
    | exact (bumpCall_frame _ _).trans (storeGenerated_frame _ _ _ _)

theorem ctxGet_frame (cid : CtxId) (x : Ctx) (t : TaskId) (k : Key) (opt : Bool) :
    Frame x (ctxGet cid x t k opt).1 := by
  apply ctxGet_cases (fun r => Frame x r.1) <;> intros
  all_goals first
    | exact Frame.refl _
    | exact bumpCall_frame _ _
    | exact ⟨rfl, rfl, rfl, rfl⟩
    | exact (bumpCall_frame _ _).trans (storeGenerated_frame _ _ _ _)

theorem resumeWaiters_frame (cid : CtxId) (ws : List (TaskId × Key × Bool)) :
    ∀ x, Frame x (resumeWaiters cid x ws).1 := by
  induction ws with
  | nil => intro x; exact Frame.refl x
  | cons w ws ih =>
    intro x
    obtain ⟨t, k, opt⟩ := w
    simp only [resumeWaiters]
    exact (ctxGet_frame cid x t k opt).trans (ih _)

theorem ctxGenFinish_frame (cid : CtxId) (x : Ctx) (fid : Nat) (next : Option TaskId) :
    Frame x (ctxGenFinish cid x fid next).1 := by
  unfold ctxGenFinish
  split
  · exact Frame.refl x
  · simp only
    split
    · exact ⟨rfl, rfl, rfl, rfl⟩
    · split
      · exact Frame.trans (y := { x with pending := x.pending.filter fun q => q.fid ≠ fid })
          ⟨rfl, rfl, rfl, rfl⟩ (resumeWaiters_frame _ _ _)
      · exact Frame.trans (y := { x with pending := x.pending.filter fun q => q.fid ≠ fid })
          ⟨rfl, rfl, rfl, rfl⟩ ((storeGenerated_frame _ _ _ _).trans (resumeWaiters_frame _ _ _))

/-- The context after the waiter `lid` left every queue it waited in. -/
def dropWaiter (x : Ctx) (lid : TaskId) : Ctx :=
  { x with pending := x.pending.map fun p => { p with waiters := p.waiters.filter (fun w => w.1 ≠ lid) } }

/-- The context after the generation of factory `fid` was abandoned (or has ended). -/
def dropGen (x : Ctx) (fid : Nat) : Ctx :=
  { x with pending := x.pending.filter fun q => q.fid ≠ fid }

/-- The possible resulting contexts of `ctxCancelGet`. -/
theorem ctxCancelGet_fst (cid : CtxId) (x : Ctx) (lid : TaskId) (next : Option TaskId) :
    (ctxCancelGet cid x lid next).1 = x ∨
    (∃ p0, x.pending.find? (fun p => p.task = lid) = some p0 ∧
      (ctxCancelGet cid x lid next).1 =
        (resumeWaiters cid (dropGen x p0.fid) (wakeOrder next p0.waiters)).1) ∨
    (x.pending.find? (fun p => p.task = lid) = none ∧
      (ctxCancelGet cid x lid next).1 = dropWaiter x lid) := by
  unfold ctxCancelGet
  cases hp : x.pending.find? (fun p => p.task = lid) with
  | some p0 => right; left; exact ⟨p0, rfl, rfl⟩
  | none =>
    simp only
    split
    · right; right; exact ⟨trivial, rfl⟩
    · left; rfl

theorem ctxCancelGet_frame (cid : CtxId) (x : Ctx) (lid : TaskId) (next : Option TaskId) :
    Frame x (ctxCancelGet cid x lid next).1 := by
  rcases ctxCancelGet_fst cid x lid next with e | ⟨p0, _, e⟩ | ⟨_, e⟩ <;> rw [e]
  · exact Frame.refl x
  · exact Frame.trans (y := dropGen x p0.fid) ⟨rfl, rfl, rfl, rfl⟩ (resumeWaiters_frame _ _ _)
  · exact ⟨rfl, rfl, rfl, rfl⟩

theorem registeredVal_ne_runtimeError (x : Ctx) (k : Key) (s : CState) :
    registeredVal x k ≠ .runtimeError s := by
  unfold registeredVal; split <;> simp

/-- A lookup in a usable context (open or closing) is not refused for the state of the context. -/
theorem ctxGet_usable_not_refused (cid : CtxId) (x : Ctx) (t : TaskId) (k : Key) (opt : Bool)
    (hu : x.state.usable = true) (s : CState) : (ctxGet cid x t k opt).2 ≠ [.runtimeError s] := by
  apply ctxGet_cases (fun r => r.2 ≠ [.runtimeError s])
  · intro h; rw [hu] at h; cases h
  · intros; simp
  · intros; simp
  · intros; simp
  · intros; simp
  · intros
    intro h
    exact registeredVal_ne_runtimeError _ _ _ (List.cons.inj h).1
  · intros; cases opt <;> simp

theorem ctxGetNow_frame (cid : CtxId) (x : Ctx) (k : Key) (opt : Bool) :
    Frame x (ctxGetNow cid x k opt).1 :=
  ctxGetNow_transfer (Frame x) cid x k opt (Frame.refl _) (fun t => ctxGet_frame cid x t k opt)

theorem runBodyOp_frame (cid : CtxId) (cur : Option CtxId) (x : Ctx) (op : BodyOp) : Frame x (runBodyOp cid cur x op).1 := by
  cases op with
  | add => exact ctxAdd_frame _ _ _
  | addFactory => exact ctxAddFactory_frame _ _ _
  | getNowait => exact ctxGetNowait_frame _ _ _ _
  | get => exact ctxGetNow_frame _ _ _ _
  | current => exact Frame.refl x

theorem runTeardown_frame (cid : CtxId) (cur : Option CtxId) (be : BlockEnd) (st : List Cb) (x : Ctx) :
    Frame x (runTeardown cid cur be st x).1 :=
  runTeardown_rel Frame Frame.refl (fun _ _ _ => Frame.trans) cid cur (runBodyOp_frame cid cur) be st x

theorem depLookup_frame (cid : CtxId) (isAsync : Bool) (t : TaskId) (x : Ctx) (d : Dep) :
    Frame x (depLookup cid isAsync t x d).1 := by
  unfold depLookup; split
  · exact ctxGet_frame _ _ _ _ _
  · exact ctxGetNowait_frame _ _ _ _

theorem resolveDeps_frame (cid : CtxId) (isAsync : Bool) (t : TaskId) (ds : List Dep) :
    ∀ x, Frame x (resolveDeps cid isAsync t x ds).1 := by
  induction ds with
  | nil => intro x; exact Frame.refl x
  | cons d ds ih =>
    intro x
    rw [resolveDeps_cons]
    have hl := depLookup_frame cid isAsync t x d
    split
    · exact hl.trans (ih _)
    · exact hl.trans (ih _)
    · exact hl


/-! ### how `step` acts on the context table -/

/-- `w2` is `w1` except possibly for the `children` of one context. -/
def ChildrenUpd (w1 w2 : World) : Prop :=
  w2 = w1 ∨ ∃ p px ch, w1.ctx? p = some px ∧ w2 = w1.setCtx p { px with children := ch }

theorem ChildrenUpd.cur {w1 w2 : World} (h : ChildrenUpd w1 w2) : w2.cur = w1.cur := by
  rcases h with rfl | ⟨p, px, ch, _, rfl⟩ <;> rfl

theorem ChildrenUpd.ctx?_none {w1 w2 : World} (h : ChildrenUpd w1 w2) (d : CtxId)
    (hd : w1.ctx? d = none) : w2.ctx? d = none := by
  rcases h with rfl | ⟨p, px, ch, hp, rfl⟩
  · exact hd
  · have : p ≠ d := by rintro rfl; rw [hd] at hp; cases hp
    rw [World.ctx?_setCtx_other _ _ _ _ this, hd]

theorem ChildrenUpd.ctx?_some {w1 w2 : World} (h : ChildrenUpd w1 w2) (d : CtxId) (y : Ctx)
    (hd : w1.ctx? d = some y) : ∃ ch, w2.ctx? d = some { y with children := ch } := by
  rcases h with rfl | ⟨p, px, ch, hp, rfl⟩
  · exact ⟨y.children, hd⟩
  · by_cases hpd : p = d
    · subst hpd
      rw [hd] at hp; cases hp
      exact ⟨_, World.ctx?_setCtx_same _ _ _⟩
    · rw [World.ctx?_setCtx_other _ _ _ _ hpd]
      exact ⟨y.children, hd⟩

theorem removeChild_upd (w : World) (p : Option CtxId) (c : CtxId) :
    ChildrenUpd w (removeChild w p c) := by
  unfold removeChild
  split
  · exact .inl rfl
  · split
    · exact .inl rfl
    · rename_i px hq
      exact .inr ⟨_, px, _, hq, rfl⟩

/-- The context `c` after it was entered by task `t`. -/
def enteredCtx (w : World) (t : TaskId) (x : Ctx) : Ctx :=
  { x with state := .opened, token := some (w.curOf t) }

theorem step_enter_eq (w : World) (t : TaskId) (c : CtxId) (x : Ctx)
    (hx : w.ctx? c = some x) (hs : x.state = .inactive) :
    ∃ w2, ChildrenUpd (w.setCtx c (enteredCtx w t x)) w2 ∧
      (step w (.enter t c)).1 = w2.setCur t (some c) := by
  cases hpar : x.parent with
  | none => exact ⟨_, .inl rfl, by simp [step, hx, hs, hpar, enteredCtx]⟩
  | some p =>
    cases hq : (w.setCtx c (enteredCtx w t x)).ctx? p with
    | none =>
      refine ⟨_, .inl rfl, ?_⟩
      simp only [enteredCtx, hpar] at hq
      simp [step, hx, hs, hpar, enteredCtx, hq]
    | some px =>
      refine ⟨_, .inr ⟨p, px, px.children ++ [c], hq, rfl⟩, ?_⟩
      simp only [enteredCtx, hpar] at hq
      simp [step, hx, hs, hpar, enteredCtx, hq]

/-- The context `c` after its block was left and the stack `st` was torn down: state `closed`. -/
def exitedWith (c : CtxId) (cur : Option CtxId) (be : BlockEnd) (st : List Cb) (x : Ctx) : Ctx :=
  { (runTeardown c cur be st { x with state := .closing, tds := [] }).1 with state := .closed }

/-- The context `c` after its block was left: teardown callbacks run, state `closed`. -/
def exitedCtx (c : CtxId) (cur : Option CtxId) (be : BlockEnd) (x : Ctx) : Ctx :=
  exitedWith c cur be (effStack be x.tds) x

/-- … and when the scope was cancelled during callback `k` of the teardown. -/
def exitedMidCtx (c : CtxId) (cur : Option CtxId) (be : BlockEnd) (k : Nat) (x : Ctx) : Ctx :=
  exitedWith c cur be (midEff be k x.tds) x

theorem exitWith_eq (w : World) (t : TaskId) (c : CtxId) (be : BlockEnd) (stk : List Cb → List Cb)
    (x : Ctx) (hx : w.ctx? c = some x) (hs : x.state = .opened) :
    ∃ w2, ChildrenUpd ((w.setCtx c (exitedWith c (w.curOf t) be (stk x.tds) x)).setCur t
        (x.token.getD none)) w2 ∧
      (exitWith w t c be stk).1 = w2 := by
  refine ⟨_, removeChild_upd _ x.parent c, ?_⟩
  simp [exitWith, hx, hs, exitedWith]

theorem step_exit_eq (w : World) (t : TaskId) (c : CtxId) (be : BlockEnd) (x : Ctx)
    (hx : w.ctx? c = some x) (hs : x.state = .opened) :
    ∃ w2, ChildrenUpd ((w.setCtx c (exitedCtx c (w.curOf t) be x)).setCur t (x.token.getD none)) w2 ∧
      (step w (.exit t c be)).1 = w2 := by
  rw [step_exit_exitWith]; exact exitWith_eq w t c be _ x hx hs

theorem step_exitMid_eq (w : World) (t : TaskId) (c : CtxId) (be : BlockEnd) (k : Nat) (x : Ctx)
    (hx : w.ctx? c = some x) (hs : x.state = .opened) :
    ∃ w2, ChildrenUpd ((w.setCtx c (exitedMidCtx c (w.curOf t) be k x)).setCur t (x.token.getD none)) w2 ∧
      (step w (.exitMid t c be k)).1 = w2 := by
  rw [step_exitMid_exitWith]; exact exitWith_eq w t c be _ x hx hs

/-- The effect on its context of an operation that is local to one context. -/
inductive LocalStep (c : CtxId) (x : Ctx) : Ctx → Prop
  | add (a : AddArgs) : LocalStep c x (ctxAdd c x a).1
  | addFactory (a : FacArgs) : LocalStep c x (ctxAddFactory c x a).1
  | getNowait (k : Key) (opt : Bool) : LocalStep c x (ctxGetNowait c x k opt).1
  | get (t : TaskId) (k : Key) (opt : Bool) : LocalStep c x (ctxGet c x t k opt).1
  | genFinish (fid : Nat) (next : Option TaskId) : LocalStep c x (ctxGenFinish c x fid next).1
  | cancelGet (lid : TaskId) (next : Option TaskId) : LocalStep c x (ctxCancelGet c x lid next).1
  | addTeardown (cb : Cb) : LocalStep c x { x with tds := cb :: x.tds }
  | inject (t : TaskId) (isAsync : Bool) (deps : List Dep) :
      LocalStep c x (resolveDeps c isAsync t x deps).1

theorem onCtx_cases (w : World) (c : CtxId) (f : Ctx → Ctx × List Out) :
    (onCtx w c f).1 = w ∨ ∃ x, w.ctx? c = some x ∧ (onCtx w c f).1 = w.setCtx c (f x).1 := by
  cases h : w.ctx? c with
  | none => left; rw [onCtx_none _ _ _ h]
  | some x => right; exact ⟨x, rfl, by rw [onCtx_some _ _ _ _ h]⟩

/-- Classification of the operations by what they do to the world. -/
theorem step_cases (w : World) (op : Op) :
    (step w op).1 = w ∨
    (∃ c x x', w.ctx? c = some x ∧ (step w op).1 = w.setCtx c x' ∧ LocalStep c x x') ∨
    (∃ t c p, op = .new t c p ∧ w.ctx? c = none ∧
      ∃ q : Option CtxId, (step w op).1 = w.setCtx c (freshCtx q (q.bind w.ctx?))) ∨
    (∃ t c x, op = .enter t c ∧ w.ctx? c = some x ∧ x.state = .inactive) ∨
    (∃ t c be x, op = .exit t c be ∧ w.ctx? c = some x ∧ x.state = .opened) ∨
    (∃ t c be k x, op = .exitMid t c be k ∧ w.ctx? c = some x ∧ x.state = .opened) ∨
    (∃ t t', op = .spawn t t') := by
  cases op with
  | new t c p =>
    cases h : w.ctx? c with
    | some x => left; simp [step, h]
    | none =>
      right; right; left
      refine ⟨t, c, p, rfl, h, ?_⟩
      cases p with
      | none => exact ⟨w.curOf t, by simp [step, h]⟩
      | some p => exact ⟨some p, by simp [step, h]⟩
  | enter t c =>
    cases h : w.ctx? c with
    | none => left; simp [step, h]
    | some x =>
      by_cases hs : x.state = .inactive
      · right; right; right; left; exact ⟨t, c, x, rfl, h, hs⟩
      · left; simp [step, h, hs]
  | exit t c be =>
    cases h : w.ctx? c with
    | none => left; simp [step, h]
    | some x =>
      by_cases hs : x.state = .opened
      · right; right; right; right; left; exact ⟨t, c, be, x, rfl, h, hs⟩
      · left; simp [step, h, hs]
  | exitMid t c be k =>
    cases h : w.ctx? c with
    | none => left; simp [step, h]
    | some x =>
      by_cases hs : x.state = .opened
      · right; right; right; right; right; left; exact ⟨t, c, be, k, x, rfl, h, hs⟩
      · left; simp [step, h, hs]
  | add c a =>
    rcases onCtx_cases w c (fun x => ctxAdd c x a) with h | ⟨x, hx, h⟩
    · left; exact h
    · right; left; exact ⟨c, x, _, hx, h, .add a⟩
  | addFactory c a =>
    rcases onCtx_cases w c (fun x => ctxAddFactory c x a) with h | ⟨x, hx, h⟩
    · left; exact h
    · right; left; exact ⟨c, x, _, hx, h, .addFactory a⟩
  | getNowait c k opt =>
    rcases onCtx_cases w c (fun x => ctxGetNowait c x k opt) with h | ⟨x, hx, h⟩
    · left; exact h
    · right; left; exact ⟨c, x, _, hx, h, .getNowait k opt⟩
  | get t c k opt =>
    rcases onCtx_cases w c (fun x => ctxGet c x t k opt) with h | ⟨x, hx, h⟩
    · left; exact h
    · right; left; exact ⟨c, x, _, hx, h, .get t k opt⟩
  | genFinish c fid next =>
    rcases onCtx_cases w c (fun x => ctxGenFinish c x fid next) with h | ⟨x, hx, h⟩
    · left; exact h
    · right; left; exact ⟨c, x, _, hx, h, .genFinish fid next⟩
  | cancelGet c lid next =>
    rcases onCtx_cases w c (fun x => ctxCancelGet c x lid next) with h | ⟨x, hx, h⟩
    · left; exact h
    · right; left; exact ⟨c, x, _, hx, h, .cancelGet lid next⟩
  | getAll c ty => left; simp only [step]; split <;> rfl
  | addTeardown c cb callable =>
    cases hx : w.ctx? c with
    | none => left; simp only [step]; rw [onCtx_none _ _ _ hx]
    | some x =>
      simp only [step]; rw [onCtx_some _ _ _ _ hx]
      by_cases h1 : (!x.state.usable) = true
      · left; simp only [h1, if_true]; exact World.setCtx_self _ _ _ hx
      · by_cases h2 : (!callable) = true
        · left; simp only [h1, h2, if_true]; exact World.setCtx_self _ _ _ hx
        · right; left
          refine ⟨c, x, _, hx, ?_, .addTeardown cb⟩
          simp [h1, h2]
  | current t => left; simp only [step]; split <;> rfl
  | parentOf c => left; simp only [step]; split <;> rfl
  | spawn t t' => right; right; right; right; right; right; exact ⟨t, t', rfl⟩
  | stateOf c => left; simp only [step]; split <;> rfl
  | inject t isAsync deps badUnion =>
    cases badUnion with
    | true => left; simp [step]
    | false =>
      cases hc : w.curOf t with
      | none => left; simp [step, hc]
      | some c =>
        cases hx : w.ctx? c with
        | none => left; simp [step, hc, hx]
        | some x =>
          right; left
          refine ⟨c, x, _, hx, ?_, .inject t isAsync deps⟩
          simp [step, hc, hx]
  | decorate ps => left; simp only [step]; split <;> rfl

theorem LocalStep.frame {c : CtxId} {x y : Ctx} (h : LocalStep c x y) : Frame x y := by
  cases h with
  | add => exact ctxAdd_frame _ _ _
  | addFactory => exact ctxAddFactory_frame _ _ _
  | getNowait => exact ctxGetNowait_frame _ _ _ _
  | get => exact ctxGet_frame _ _ _ _ _
  | genFinish => exact ctxGenFinish_frame _ _ _ _
  | cancelGet => exact ctxCancelGet_frame _ _ _ _
  | addTeardown => exact ⟨rfl, rfl, rfl, rfl⟩
  | inject => exact resolveDeps_frame _ _ _ _ _


theorem World.curOf_congr {w w' : World} (h : w'.cur = w.cur) (t : TaskId) :
    w'.curOf t = w.curOf t := by
  simp only [World.curOf, h]

theorem step_enter_ctx (w : World) (t : TaskId) (c : CtxId) (x : Ctx)
    (hx : w.ctx? c = some x) (hs : x.state = .inactive) :
    ∃ ch, (step w (.enter t c)).1.ctx? c = some { enteredCtx w t x with children := ch } := by
  obtain ⟨w2, hu, he⟩ := step_enter_eq w t c x hx hs
  rw [he, World.ctx?_setCur]
  exact hu.ctx?_some c _ (World.ctx?_setCtx_same _ _ _)

theorem step_exit_ctx (w : World) (t : TaskId) (c : CtxId) (be : BlockEnd) (x : Ctx)
    (hx : w.ctx? c = some x) (hs : x.state = .opened) :
    ∃ ch, (step w (.exit t c be)).1.ctx? c = some { exitedCtx c (w.curOf t) be x with children := ch } := by
  obtain ⟨w2, hu, he⟩ := step_exit_eq w t c be x hx hs
  rw [he]
  exact hu.ctx?_some c _ (by rw [World.ctx?_setCur]; exact World.ctx?_setCtx_same _ _ _)

theorem step_exitMid_ctx (w : World) (t : TaskId) (c : CtxId) (be : BlockEnd) (k : Nat) (x : Ctx)
    (hx : w.ctx? c = some x) (hs : x.state = .opened) :
    ∃ ch, (step w (.exitMid t c be k)).1.ctx? c =
      some { exitedMidCtx c (w.curOf t) be k x with children := ch } := by
  obtain ⟨w2, hu, he⟩ := step_exitMid_eq w t c be k x hx hs
  rw [he]
  exact hu.ctx?_some c _ (by rw [World.ctx?_setCur]; exact World.ctx?_setCtx_same _ _ _)

theorem exitedWith_token (c : CtxId) (cur : Option CtxId) (be : BlockEnd) (st : List Cb) (x : Ctx) :
    (exitedWith c cur be st x).token = x.token ∧ (exitedWith c cur be st x).parent = x.parent :=
  ⟨(runTeardown_frame c cur be st _).2.2.1, (runTeardown_frame c cur be st _).1⟩

theorem exitedCtx_token (c : CtxId) (cur : Option CtxId) (be : BlockEnd) (x : Ctx) :
    (exitedCtx c cur be x).token = x.token ∧ (exitedCtx c cur be x).parent = x.parent :=
  exitedWith_token c cur be _ x

theorem exitedMidCtx_token (c : CtxId) (cur : Option CtxId) (be : BlockEnd) (k : Nat) (x : Ctx) :
    (exitedMidCtx c cur be k x).token = x.token ∧ (exitedMidCtx c cur be k x).parent = x.parent :=
  exitedWith_token c cur be _ x

/-- Leaving the block of one context does not touch the parent, state or token of another. -/
theorem exitWith_ctx_other (w : World) (t : TaskId) (c' : CtxId) (be : BlockEnd)
    (stk : List Cb → List Cb) (x' : Ctx) (hx' : w.ctx? c' = some x') (hs' : x'.state = .opened)
    (c : CtxId) (x : Ctx) (hx : w.ctx? c = some x) (hcc : c' ≠ c) :
    ∃ y, (exitWith w t c' be stk).1.ctx? c = some y ∧ y.parent = x.parent ∧ y.state = x.state ∧
      y.token = x.token := by
  obtain ⟨w2, hu, he⟩ := exitWith_eq w t c' be stk x' hx' hs'
  obtain ⟨ch, hch⟩ := hu.ctx?_some c x
    (by rw [World.ctx?_setCur, World.ctx?_setCtx_other _ _ _ _ hcc]; exact hx)
  rw [he, hch]
  exact ⟨_, rfl, rfl, rfl, rfl⟩

/-- Apart from entering an inactive context and leaving an open one, no operation touches the
parent, state or token of an existing context. -/
theorem step_ctx_other (w : World) (op : Op) (c : CtxId) (x : Ctx) (hx : w.ctx? c = some x)
    (hent : ∀ t, op = .enter t c → x.state ≠ .inactive)
    (hexit : ∀ t be, op = .exit t c be → x.state ≠ .opened)
    (hexitMid : ∀ t be k, op = .exitMid t c be k → x.state ≠ .opened) :
    ∃ y, (step w op).1.ctx? c = some y ∧ y.parent = x.parent ∧ y.state = x.state ∧
      y.token = x.token := by
  rcases step_cases w op with h | ⟨c', x', y', hx', h, hl⟩ | ⟨t, c', p, rfl, hc', q, h⟩ |
      ⟨t, c', x', rfl, hx', hs'⟩ | ⟨t, c', be, x', rfl, hx', hs'⟩ |
      ⟨t, c', be, k, x', rfl, hx', hs'⟩ | ⟨t, t', rfl⟩
  · rw [h]; exact ⟨x, hx, rfl, rfl, rfl⟩
  · rw [h]
    by_cases hcc : c' = c
    · subst hcc
      rw [hx] at hx'; cases hx'
      have hf := hl.frame
      exact ⟨y', World.ctx?_setCtx_same _ _ _, hf.1, hf.2.1, hf.2.2.1⟩
    · rw [World.ctx?_setCtx_other _ _ _ _ hcc]; exact ⟨x, hx, rfl, rfl, rfl⟩
  · rw [h]
    have hcc : c' ≠ c := by rintro rfl; rw [hx] at hc'; cases hc'
    rw [World.ctx?_setCtx_other _ _ _ _ hcc]; exact ⟨x, hx, rfl, rfl, rfl⟩
  · have hcc : c' ≠ c := by
      rintro rfl; rw [hx] at hx'; cases hx'; exact hent t rfl hs'
    obtain ⟨w2, hu, he⟩ := step_enter_eq w t c' x' hx' hs'
    obtain ⟨ch, hch⟩ := hu.ctx?_some c x (by rw [World.ctx?_setCtx_other _ _ _ _ hcc]; exact hx)
    rw [he, World.ctx?_setCur, hch]
    exact ⟨_, rfl, rfl, rfl, rfl⟩
  · have hcc : c' ≠ c := by
      rintro rfl; rw [hx] at hx'; cases hx'; exact hexit t be rfl hs'
    rw [step_exit_exitWith]
    exact exitWith_ctx_other w t c' be _ x' hx' hs' c x hx hcc
  · have hcc : c' ≠ c := by
      rintro rfl; rw [hx] at hx'; cases hx'; exact hexitMid t be k rfl hs'
    rw [step_exitMid_exitWith]
    exact exitWith_ctx_other w t c' be _ x' hx' hs' c x hx hcc
  · exact ⟨x, by simpa [step] using hx, rfl, rfl, rfl⟩

/-- Only `.enter`, `.exit`, `.exitMid` and `.spawn` write a current-context variable. -/
theorem step_cur (w : World) (op : Op) :
    (step w op).1.cur = w.cur ∨
    (∃ t c, op = .enter t c ∧ (step w op).1.cur = ainsert t (some c) w.cur) ∨
    (∃ t c be v, op = .exit t c be ∧ (step w op).1.cur = ainsert t v w.cur) ∨
    (∃ t c be k v, op = .exitMid t c be k ∧ (step w op).1.cur = ainsert t v w.cur) ∨
    (∃ t t', op = .spawn t t' ∧ (step w op).1.cur = ainsert t' (w.curOf t) w.cur) := by
  rcases step_cases w op with h | ⟨c', x', y', hx', h, hl⟩ | ⟨t, c', p, rfl, hc', q, h⟩ |
      ⟨t, c', x', rfl, hx', hs'⟩ | ⟨t, c', be, x', rfl, hx', hs'⟩ |
      ⟨t, c', be, k, x', rfl, hx', hs'⟩ | ⟨t, t', rfl⟩
  · left; rw [h]
  · left; rw [h]; rfl
  · left; rw [h]; rfl
  · right; left
    obtain ⟨w2, hu, he⟩ := step_enter_eq w t c' x' hx' hs'
    refine ⟨t, c', rfl, ?_⟩
    rw [he]; simp only [World.setCur, hu.cur]; rfl
  · right; right; left
    obtain ⟨w2, hu, he⟩ := step_exit_eq w t c' be x' hx' hs'
    refine ⟨t, c', be, x'.token.getD none, rfl, ?_⟩
    rw [he, hu.cur]; rfl
  · right; right; right; left
    obtain ⟨w2, hu, he⟩ := step_exitMid_eq w t c' be k x' hx' hs'
    refine ⟨t, c', be, k, x'.token.getD none, rfl, ?_⟩
    rw [he, hu.cur]; rfl
  · right; right; right; right; exact ⟨t, t', rfl, rfl⟩

/-- An open context stays open, with its reset token, over any history that does not leave it. -/
theorem run_open_stable (c : CtxId) (tok : Option (Option CtxId)) (ops : List Op) :
    ∀ w' : World,
      (∀ op ∈ ops, (∀ t' be', op ≠ .exit t' c be') ∧ (∀ t' be' k, op ≠ .exitMid t' c be' k)) →
      (∃ y, w'.ctx? c = some y ∧ y.state = .opened ∧ y.token = tok) →
      ∃ y, (run w' ops).1.ctx? c = some y ∧ y.state = .opened ∧ y.token = tok := by
  induction ops with
  | nil => intro w' _ h; exact h
  | cons op ops ih =>
    intro w' hops' ⟨y, hy, hst, htok⟩
    have hop := hops' op List.mem_cons_self
    simp only [run]
    apply ih _ (fun o ho => hops' o (List.mem_cons_of_mem _ ho))
    obtain ⟨y', hy', _, hst', htok'⟩ := step_ctx_other w' op c y hy
      (fun t' _ => by rw [hst]; simp) (fun t' be' e => absurd e (hop.1 t' be'))
      (fun t' be' k e => absurd e (hop.2 t' be' k))
    exact ⟨y', hy', hst'.trans hst, htok'.trans htok⟩

/-! ### more association-list facts -/

section assoc2
variable {κ α : Type} [DecidableEq κ]

theorem alookup_mem (k : κ) (v : α) (l : List (κ × α)) (h : alookup k l = some v) : (k, v) ∈ l := by
  induction l with
  | nil => simp at h
  | cons p l ih =>
    obtain ⟨k', v'⟩ := p
    by_cases hk : k' = k
    · simp only [alookup_cons, hk, if_true, Option.some.injEq] at h
      simp [hk, h]
    · simp only [alookup_cons, hk, if_false] at h
      exact List.mem_cons_of_mem _ (ih h)

end assoc2

theorem Key.eq_iff (k : Key) (t : TypeId) (n : String) : (⟨t, n⟩ : Key) = k ↔ k.ty = t ∧ k.name = n := by
  cases k; simp [eq_comm]

theorem alookup_storeAll (cont : Container) (name : String) (ts : List TypeId) :
    ∀ (r : List (Key × Container)) (k : Key),
      alookup k (storeAll cont name ts r) =
        if k.name = name ∧ k.ty ∈ ts then some cont else alookup k r := by
  induction ts with
  | nil => intro r k; simp [storeAll]
  | cons t ts ih =>
    intro r k
    simp only [storeAll, ih, alookup_ainsert, Key.eq_iff, List.mem_cons]
    by_cases h1 : k.name = name <;> by_cases h2 : k.ty = t <;> by_cases h3 : k.ty ∈ ts <;> simp [h1, h2, h3]

theorem alookup_storeFac (f : Factory) (name : String) (ts : List TypeId) :
    ∀ (r : List (Key × Factory)) (k : Key),
      alookup k (storeFac f name ts r) =
        if k.name = name ∧ k.ty ∈ ts then some f else alookup k r := by
  induction ts with
  | nil => intro r k; simp [storeFac]
  | cons t ts ih =>
    intro r k
    simp only [storeFac, ih, alookup_ainsert, Key.eq_iff, List.mem_cons]
    by_cases h1 : k.name = name <;> by_cases h2 : k.ty = t <;> by_cases h3 : k.ty ∈ ts <;> simp [h1, h2, h3]

theorem storeAll_isSome_mono (cont : Container) (name : String) (ts : List TypeId)
    (r : List (Key × Container)) (k : Key) (h : (alookup k r).isSome = true) :
    (alookup k (storeAll cont name ts r)).isSome = true := by
  rw [alookup_storeAll]; split <;> simp [h]

theorem countOf_ainsert (fid fid' n : Nat) (l : List (Nat × Nat)) :
    countOf fid (ainsert fid' n l) = if fid' = fid then n else countOf fid l := by
  simp only [countOf, alookup_ainsert]; split <;> rfl

theorem countOf_nil (fid : Nat) : countOf fid [] = 0 := rfl


/-! ### the per-context invariant behind "at most one generation per factory" -/

/-- Invariant of every context of a reachable world. `facwf` and `gendone` are literally
`FacWF x.fac` and `GenDone x` of `Props/C04.lean`. -/
structure KInv (x : Ctx) : Prop where
  facwf : (∀ k f, alookup k x.fac = some f → f.name = k.name ∧ k.ty ∈ f.types ∧
      ∀ t ∈ f.types, alookup ⟨t, f.name⟩ x.fac = some f) ∧
    (∀ k k' f f', alookup k x.fac = some f → alookup k' x.fac = some f' → f.fid = f'.fid → f = f')
  gendone : ∀ k f, alookup k x.fac = some f → 1 ≤ countOf f.fid x.genCount →
    (alookup k x.res).isSome = true
  once : ∀ fid, countOf fid x.genCount ≤ 1
  known : ∀ fid, 1 ≤ countOf fid x.genCount → ∃ k f, alookup k x.fac = some f ∧ f.fid = fid
  pend : ∀ p ∈ x.pending, ∃ f, alookup p.key x.fac = some f ∧ f.fid = p.fid ∧ f.isAsync = true ∧
    countOf p.fid x.genCount = 0

theorem KInv.congr {x y : Ctx} (h : KInv x) (hf : y.fac = x.fac) (hr : y.res = x.res)
    (hg : y.genCount = x.genCount) (hp : y.pending = x.pending) : KInv y := by
  constructor
  · rw [hf]; exact h.facwf
  · rw [hf, hg, hr]; exact h.gendone
  · rw [hg]; exact h.once
  · rw [hf, hg]; exact h.known
  · rw [hf, hg, hp]; exact h.pend

theorem KInv.bumpCall {x : Ctx} (h : KInv x) (f : Factory) : KInv (bumpCall x f) :=
  h.congr rfl rfl rfl rfl

theorem KInv.ctxAdd {x : Ctx} (h : KInv x) (cid : CtxId) (a : AddArgs) : KInv (ctxAdd cid x a).1 := by
  rcases ctxAdd_fst cid x a with e | ⟨v, _, _, e⟩ <;> rw [e]
  · exact h
  · exact ⟨h.facwf, fun k f hk hc => storeAll_isSome_mono _ _ _ _ _ (h.gendone k f hk hc), h.once,
      h.known, h.pend⟩

theorem storeGenerated_fields (cid : CtxId) (x : Ctx) (f : Factory) (v : Val) :
    (storeGenerated cid x f v).1.fac = x.fac ∧ (storeGenerated cid x f v).1.pending = x.pending ∧
    (storeGenerated cid x f v).1.callCount = x.callCount ∧
    (storeGenerated cid x f v).1.genCount = ainsert f.fid (countOf f.fid x.genCount + 1) x.genCount ∧
    (storeGenerated cid x f v).1.res =
      storeAll ⟨v, f.types.filter fun t => !acontains ⟨t, f.name⟩ x.res, f.name, f.desc, true⟩ f.name
        (f.types.filter fun t => !acontains ⟨t, f.name⟩ x.res) x.res := by
  unfold storeGenerated
  simp only
  split <;> exact ⟨rfl, rfl, rfl, rfl, rfl⟩

/-- A generation stores the object under every key of the factory that was free. -/
theorem storeGenerated_lookup (cid : CtxId) (x : Ctx) (f : Factory) (v : Val) (ty : TypeId)
    (hty : ty ∈ f.types) (hmiss : alookup ⟨ty, f.name⟩ x.res = none) :
    ∃ cont, alookup ⟨ty, f.name⟩ (storeGenerated cid x f v).1.res = some cont ∧ cont.val = v := by
  obtain ⟨_, _, _, _, e⟩ := storeGenerated_fields cid x f v
  refine ⟨⟨v, f.types.filter fun t => !acontains ⟨t, f.name⟩ x.res, f.name, f.desc, true⟩, ?_, rfl⟩
  rw [e, alookup_storeAll, if_pos]
  refine ⟨rfl, List.mem_filter.mpr ⟨hty, ?_⟩⟩
  simp [acontains, hmiss]

/-- A first generation through the lookup awaited by a teardown callback: the answer starts with the new
object, which is then what the context holds under the key; the lifecycle state is untouched. -/
theorem ctxGetNow_generates (cid : CtxId) (x : Ctx) (ty : TypeId) (name : String) (opt : Bool) (f : Factory)
    (hs : x.state.usable = true)
    (hmiss : alookup ⟨ty, name⟩ x.res = none) (hf : alookup ⟨ty, name⟩ x.fac = some f)
    (hname : f.name = name) (hty : ty ∈ f.types)
    (hnp : x.pending.find? (fun p => p.fid = f.fid) = none) (hng : (f.isAsync && f.gated) = false)
    (hok : f.failFirst ≤ countOf f.fid x.callCount) :
    (ctxGetNow cid x ⟨ty, name⟩ opt).2.head? = some (.val (.gen cid f.fid (countOf f.fid x.callCount))) ∧
    (ctxGetNow cid x ⟨ty, name⟩ opt).1.state = x.state ∧
    ∃ cont, alookup ⟨ty, name⟩ (ctxGetNow cid x ⟨ty, name⟩ opt).1.res = some cont ∧
      cont.val = .gen cid f.fid (countOf f.fid x.callCount) := by
  subst hname
  have hmiss' : alookup ⟨ty, f.name⟩ (bumpCall x f).res = none := hmiss
  obtain ⟨cont, hc, hv⟩ := storeGenerated_lookup cid (bumpCall x f) f
    (.gen cid f.fid (countOf f.fid x.callCount)) ty hty hmiss'
  rw [ctxGetNow_gen cid x ⟨ty, f.name⟩ opt f hs hmiss hf hnp hng, if_neg (Nat.not_lt.mpr hok)]
  refine ⟨?_, ?_, cont, hc, hv⟩
  · simp only [registeredVal, hc, List.head?_cons, hv]
  · exact ((bumpCall_frame x f).trans (storeGenerated_frame cid _ f _)).2.1

theorem KInv.storeGenerated {x : Ctx} (h : KInv x) (cid : CtxId) (f : Factory) (v : Val) (k0 : Key)
    (hf : alookup k0 x.fac = some f) (h0 : countOf f.fid x.genCount = 0)
    (hp : ∀ p ∈ x.pending, p.fid ≠ f.fid) : KInv (storeGenerated cid x f v).1 := by
  obtain ⟨e1, e2, _, e3, e4⟩ := storeGenerated_fields cid x f v
  constructor
  · rw [e1]; exact h.facwf
  · rw [e1, e3, e4]
    intro k g hk hc
    rw [alookup_storeAll]
    by_cases hfid : f.fid = g.fid
    · have : f = g := h.facwf.2 k0 k f g hf hk hfid
      subst this
      obtain ⟨hn, hty, _⟩ := h.facwf.1 k f hk
      by_cases hfree : k.ty ∈ f.types.filter fun t => !acontains ⟨t, f.name⟩ x.res
      · rw [if_pos ⟨hn.symm, hfree⟩]; rfl
      · have hk' : k = ⟨k.ty, f.name⟩ := by cases k; simp_all
        have : acontains ⟨k.ty, f.name⟩ x.res = true := by
          simp only [List.mem_filter, hty, true_and] at hfree
          simpa using hfree
        rw [← hk'] at this
        simp only [hfree, and_false, if_false]
        exact this
    · rw [countOf_ainsert, if_neg hfid] at hc
      have := h.gendone k g hk hc
      split <;> simp [this]
  · rw [e3]; intro fid
    rw [countOf_ainsert]
    split
    · omega
    · exact h.once fid
  · rw [e1, e3]; intro fid hc
    by_cases hfid : f.fid = fid
    · exact ⟨k0, f, hf, hfid⟩
    · rw [countOf_ainsert, if_neg hfid] at hc
      exact h.known fid hc
  · rw [e1, e2, e3]; intro p hpm
    obtain ⟨g, hg1, hg2, hg3, hg4⟩ := h.pend p hpm
    refine ⟨g, hg1, hg2, hg3, ?_⟩
    rw [countOf_ainsert, if_neg (fun e => hp p hpm e.symm)]
    exact hg4


theorem ctxAddFactory_fst (cid : CtxId) (x : Ctx) (a : FacArgs) :
    (ctxAddFactory cid x a).1 = x ∨
    (a.types.any (fun t => acontains ⟨t, a.name⟩ x.fac) = false ∧
      x.fac.any (fun kf => kf.2.fid = a.fid) = false ∧
      (ctxAddFactory cid x a).1 =
        { x with fac := storeFac ⟨a.fid, a.types, a.name, a.desc, a.isAsync, a.gated, a.failFirst⟩
                   a.name a.types x.fac,
                 events := x.events ++ [⟨a.types, a.name, a.desc, true⟩] }) := by
  unfold ctxAddFactory
  by_cases h1 : x.state ≠ .opened
  · simp [h1]
  by_cases h2 : (!validName a.name) = true
  · simp [h1, h2]
  by_cases h3 : a.types.isEmpty = true
  · simp [h1, h2, h3]
  by_cases h4 : a.noneInTypes = true
  · simp [h1, h2, h3, h4]
  by_cases h5 : a.types.any (fun t => acontains ⟨t, a.name⟩ x.fac) = true
  · simp [h1, h2, h3, h4, h5]
  by_cases h6 : x.fac.any (fun kf => kf.2.fid = a.fid) = true
  · simp [h1, h2, h3, h4, h5, h6]
  · right
    refine ⟨by simpa using h5, by simpa using h6, ?_⟩
    simp [h1, h2, h3, h4, h5, h6]

theorem KInv.ctxAddFactory {x : Ctx} (h : KInv x) (cid : CtxId) (a : FacArgs) :
    KInv (ctxAddFactory cid x a).1 := by
  rcases ctxAddFactory_fst cid x a with e | ⟨hc1, hc2, e⟩ <;> rw [e]
  · exact h
  generalize hfdef : (⟨a.fid, a.types, a.name, a.desc, a.isAsync, a.gated, a.failFirst⟩ : Factory) = f
  have hfn : f.name = a.name := by subst hfdef; rfl
  have hft : f.types = a.types := by subst hfdef; rfl
  have hff : f.fid = a.fid := by subst hfdef; rfl
  -- the new keys were free, the new id was unused
  have N1 : ∀ k : Key, k.name = a.name → k.ty ∈ a.types → alookup k x.fac = none := by
    intro k hn ht
    have := List.any_eq_false.mp hc1 k.ty ht
    have hk : (⟨k.ty, a.name⟩ : Key) = k := by cases k; simp_all
    rw [hk] at this
    cases hl : alookup k x.fac with
    | none => rfl
    | some g => simp [acontains, hl] at this
  have N2 : ∀ k g, alookup k x.fac = some g → g.fid ≠ a.fid := by
    intro k g hk
    have := List.any_eq_false.mp hc2 (k, g) (alookup_mem _ _ _ hk)
    simpa using this
  have lk : ∀ k, alookup k (storeFac f a.name a.types x.fac) =
      if k.name = a.name ∧ k.ty ∈ a.types then some f else alookup k x.fac :=
    fun k => alookup_storeFac f a.name a.types x.fac k
  have lk_old : ∀ k g, alookup k x.fac = some g →
      alookup k (storeFac f a.name a.types x.fac) = some g := by
    intro k g hk
    rw [lk, if_neg]
    · exact hk
    · rintro ⟨hn, ht⟩; rw [N1 k hn ht] at hk; cases hk
  have lk_inv : ∀ k g, alookup k (storeFac f a.name a.types x.fac) = some g →
      (g = f ∧ k.name = a.name ∧ k.ty ∈ a.types) ∨ alookup k x.fac = some g := by
    intro k g hk
    rw [lk] at hk
    split at hk
    · rename_i hc; left; cases hk; exact ⟨rfl, hc⟩
    · right; exact hk
  constructor
  · show (∀ k g, alookup k (storeFac f a.name a.types x.fac) = some g → _) ∧
      (∀ k k' g g', alookup k (storeFac f a.name a.types x.fac) = some g →
        alookup k' (storeFac f a.name a.types x.fac) = some g' → _)
    constructor
    · intro k g hk
      rcases lk_inv k g hk with ⟨rfl, hn, ht⟩ | hold
      · refine ⟨hfn.trans hn.symm, hft ▸ ht, ?_⟩
        intro t ht'
        rw [lk, if_pos ⟨hfn, hft ▸ ht'⟩]
      · obtain ⟨h1, h2, h3⟩ := h.facwf.1 k g hold
        exact ⟨h1, h2, fun t ht => lk_old _ _ (h3 t ht)⟩
    · intro k k' g g' hk hk' hfid
      rcases lk_inv k g hk with ⟨rfl, _, _⟩ | hold <;>
        rcases lk_inv k' g' hk' with ⟨rfl, _, _⟩ | hold'
      · rfl
      · exact absurd (hfid.symm.trans hff) (N2 k' g' hold')
      · exact absurd (hfid.trans hff) (N2 k g hold)
      · exact h.facwf.2 k k' g g' hold hold' hfid
  · show ∀ k g, alookup k (storeFac f a.name a.types x.fac) = some g → _
    intro k g hk hc
    rcases lk_inv k g hk with ⟨rfl, _, _⟩ | hold
    · obtain ⟨k', g', hk', hg'⟩ := h.known _ hc
      exact absurd (hg'.trans hff) (N2 k' g' hk')
    · exact h.gendone k g hold hc
  · exact h.once
  · show ∀ fid, _ → ∃ k g, alookup k (storeFac f a.name a.types x.fac) = some g ∧ _
    intro fid hc
    obtain ⟨k, g, hk, hg⟩ := h.known fid hc
    exact ⟨k, g, lk_old k g hk, hg⟩
  · show ∀ p ∈ x.pending, ∃ g, alookup p.key (storeFac f a.name a.types x.fac) = some g ∧ _
    intro p hp
    obtain ⟨g, hg1, hg2⟩ := h.pend p hp
    exact ⟨g, lk_old _ _ hg1, hg2⟩


/-- A miss on one of the factory's keys means the factory has not generated here yet. -/
theorem KInv.count_zero_of_miss {x : Ctx} (h : KInv x) (k : Key) (f : Factory)
    (hmiss : alookup k x.res = none) (hf : alookup k x.fac = some f) :
    countOf f.fid x.genCount = 0 := by
  apply Nat.eq_zero_of_not_pos
  intro hc
  have := h.gendone k f hf hc
  rw [hmiss] at this
  cases this

theorem KInv.ctxGetNowait {x : Ctx} (h : KInv x) (cid : CtxId) (k : Key) (opt : Bool) :
    KInv (ctxGetNowait cid x k opt).1 := by
  apply ctxGetNowait_cases (fun r => KInv r.1)
  · intro _; exact h
  · intro _ _ _; exact h
  · intro _ _ _ _ _; exact h
  · intro f _ _ _ _ _; exact h.bumpCall f
  · intro f _ hmiss hf hsync _
    refine (h.bumpCall f).storeGenerated cid f _ k hf (h.count_zero_of_miss k f hmiss hf) ?_
    intro p hp hpf
    obtain ⟨g, hg1, hg2, hg3, _⟩ := h.pend p hp
    have : g = f := h.facwf.2 _ _ g f hg1 hf (hg2.trans hpf)
    subst this
    rw [hsync] at hg3; cases hg3
  · intro _ _ _; exact h

theorem KInv.ctxGet {x : Ctx} (h : KInv x) (cid : CtxId) (t : TaskId) (k : Key) (opt : Bool) :
    KInv (ctxGet cid x t k opt).1 := by
  apply ctxGet_cases (fun r => KInv r.1)
  · intro _; exact h
  · intro _ _ _; exact h
  · intro f p _ _ _ _
    refine ⟨h.facwf, h.gendone, h.once, h.known, ?_⟩
    intro q hq
    simp only [addWaiter, List.mem_map] at hq
    obtain ⟨q0, hq0, rfl⟩ := hq
    obtain ⟨g, hg⟩ := h.pend q0 hq0
    refine ⟨g, ?_⟩
    split <;> exact hg
  · intro f _ hmiss hf _ hg
    refine ⟨h.facwf, h.gendone, h.once, h.known, ?_⟩
    intro q hq
    simp only [startGen, List.mem_append, List.mem_singleton] at hq
    rcases hq with hq | rfl
    · exact h.pend q hq
    · refine ⟨f, hf, rfl, ?_, h.count_zero_of_miss k f hmiss hf⟩
      simp only [Bool.and_eq_true] at hg
      exact hg.1
  · intro f _ _ _ _ _ _; exact h.bumpCall f
  · intro f _ hmiss hf hnp _ _
    refine (h.bumpCall f).storeGenerated cid f _ k hf (h.count_zero_of_miss k f hmiss hf) ?_
    intro p hp hpf
    have := List.find?_eq_none.mp hnp p hp
    simp [hpf] at this
  · intro _ _ _; exact h

theorem KInv.resumeWaiters (cid : CtxId) (ws : List (TaskId × Key × Bool)) :
    ∀ {x : Ctx}, KInv x → KInv (resumeWaiters cid x ws).1 := by
  induction ws with
  | nil => intro x h; exact h
  | cons w ws ih =>
    intro x h
    obtain ⟨t, k, opt⟩ := w
    simp only [Asphalt.resumeWaiters]
    exact ih (h.ctxGet cid t k opt)

theorem ctxGenFinish_fst (cid : CtxId) (x : Ctx) (fid : Nat) (next : Option TaskId) :
    (ctxGenFinish cid x fid next).1 = x ∨
    ∃ p0, x.pending.find? (fun p => p.fid = fid) = some p0 ∧
      ((ctxGenFinish cid x fid next).1 = { x with pending := x.pending.filter fun q => q.fid ≠ fid } ∨
       ∃ f ws, alookup p0.key x.fac = some f ∧
        ((ctxGenFinish cid x fid next).1 =
          (resumeWaiters cid { x with pending := x.pending.filter fun q => q.fid ≠ fid } ws).1 ∨
         ∃ v, (ctxGenFinish cid x fid next).1 =
          (resumeWaiters cid (storeGenerated cid
            { x with pending := x.pending.filter fun q => q.fid ≠ fid } f v).1 ws).1)) := by
  unfold ctxGenFinish
  cases hp : x.pending.find? (fun p => p.fid = fid) with
  | none => left; rfl
  | some p0 =>
    right
    refine ⟨p0, rfl, ?_⟩
    simp only
    cases hf : alookup p0.key x.fac with
    | none => left; rfl
    | some f =>
      right
      refine ⟨f, wakeOrder next p0.waiters, rfl, ?_⟩
      simp only
      split
      · left; rfl
      · right; exact ⟨_, rfl⟩

theorem KInv.ctxGenFinish {x : Ctx} (h : KInv x) (cid : CtxId) (fid : Nat) (next : Option TaskId) :
    KInv (ctxGenFinish cid x fid next).1 := by
  have hfilt : KInv { x with pending := x.pending.filter fun q => q.fid ≠ fid } :=
    ⟨h.facwf, h.gendone, h.once, h.known, fun p hp => h.pend p (List.mem_filter.mp hp).1⟩
  rcases ctxGenFinish_fst cid x fid next with e | ⟨p0, hp0, e | ⟨f, ws, hf, e | ⟨v, e⟩⟩⟩ <;> rw [e]
  · exact h
  · exact hfilt
  · exact hfilt.resumeWaiters cid ws
  · refine KInv.resumeWaiters cid ws (hfilt.storeGenerated cid f v p0.key hf ?_ ?_)
    · obtain ⟨g, hg1, hg2, _, hg4⟩ := h.pend p0 (List.mem_of_find?_eq_some hp0)
      rw [hf] at hg1; cases hg1
      show countOf f.fid x.genCount = 0
      rw [hg2]; exact hg4
    · intro p hp hpf
      obtain ⟨g, hg1, hg2, _, _⟩ := h.pend p0 (List.mem_of_find?_eq_some hp0)
      rw [hf] at hg1; cases hg1
      have h0 : p0.fid = fid := by simpa using List.find?_some hp0
      have := (List.mem_filter.mp hp).2
      simp only [ne_eq, decide_not, Bool.not_eq_eq_eq_not, Bool.not_true, decide_eq_false_iff_not] at this
      exact this (hpf.trans (hg2.trans h0))

theorem KInv.ctxCancelGet {x : Ctx} (h : KInv x) (cid : CtxId) (lid : TaskId) (next : Option TaskId) :
    KInv (ctxCancelGet cid x lid next).1 := by
  rcases ctxCancelGet_fst cid x lid next with e | ⟨p0, _, e⟩ | ⟨_, e⟩ <;> rw [e]
  · exact h
  · have hfilt : KInv (dropGen x p0.fid) :=
      ⟨h.facwf, h.gendone, h.once, h.known, fun p hp => h.pend p (List.mem_filter.mp hp).1⟩
    exact hfilt.resumeWaiters cid _
  · refine ⟨h.facwf, h.gendone, h.once, h.known, ?_⟩
    intro q hq
    simp only [dropWaiter, List.mem_map] at hq
    obtain ⟨q0, hq0, rfl⟩ := hq
    exact h.pend q0 hq0

theorem KInv.ctxGetNow {x : Ctx} (h : KInv x) (cid : CtxId) (k : Key) (opt : Bool) :
    KInv (ctxGetNow cid x k opt).1 :=
  ctxGetNow_transfer KInv cid x k opt h (fun t => h.ctxGet cid t k opt)

theorem KInv.runBodyOp {x : Ctx} (h : KInv x) (cid : CtxId) (cur : Option CtxId) (op : BodyOp) :
    KInv (runBodyOp cid cur x op).1 := by
  cases op with
  | add => exact h.ctxAdd _ _
  | addFactory => exact h.ctxAddFactory _ _
  | getNowait => exact h.ctxGetNowait _ _ _
  | get => exact h.ctxGetNow _ _ _
  | current => exact h

theorem KInv.runTeardown {x : Ctx} (h : KInv x) (cid : CtxId) (cur : Option CtxId) (be : BlockEnd) (st : List Cb) :
    KInv (runTeardown cid cur be st x).1 :=
  runTeardown_rel (fun x y => KInv x → KInv y) (fun _ h => h) (fun _ _ _ h1 h2 h => h2 (h1 h)) cid cur
    (fun _ op h => h.runBodyOp cid cur op) be st x h

theorem KInv.resolveDeps (cid : CtxId) (isAsync : Bool) (t : TaskId) (ds : List Dep) :
    ∀ {x : Ctx}, KInv x → KInv (resolveDeps cid isAsync t x ds).1 := by
  induction ds with
  | nil => intro x h; exact h
  | cons d ds ih =>
    intro x h
    rw [resolveDeps_cons]
    have hl : KInv (depLookup cid isAsync t x d).1 := by
      unfold depLookup; split
      · exact h.ctxGet _ _ _ _
      · exact h.ctxGetNowait _ _ _
    split
    · exact ih hl
    · exact ih hl
    · exact hl

theorem LocalStep.kinv {c : CtxId} {x y : Ctx} (hl : LocalStep c x y) (h : KInv x) : KInv y := by
  cases hl with
  | add => exact h.ctxAdd _ _
  | addFactory => exact h.ctxAddFactory _ _
  | getNowait => exact h.ctxGetNowait _ _ _
  | get => exact h.ctxGet _ _ _ _
  | genFinish => exact h.ctxGenFinish _ _ _
  | cancelGet => exact h.ctxCancelGet _ _ _
  | addTeardown => exact h.congr rfl rfl rfl rfl
  | inject => exact KInv.resolveDeps _ _ _ _ h

theorem KInv.freshCtx (p : Option CtxId) (px : Option Ctx) (h : ∀ y, px = some y → KInv y) :
    KInv (freshCtx p px) := by
  cases px with
  | none =>
    refine ⟨⟨?_, ?_⟩, ?_, ?_, ?_, ?_⟩ <;> intros <;> simp_all [Asphalt.freshCtx, countOf]
  | some y =>
    have hy := h y rfl
    refine ⟨hy.facwf, ?_, ?_, ?_, ?_⟩ <;> intros <;> simp_all [Asphalt.freshCtx, countOf]

/-! ### the invariant holds in every context of every reachable world -/

def WInv (w : World) : Prop := ∀ c x, w.ctx? c = some x → KInv x

theorem WInv.setCtx {w : World} (h : WInv w) (c : CtxId) (x : Ctx) (hx : KInv x) :
    WInv (w.setCtx c x) := by
  intro d y hy
  rw [World.ctx?_setCtx] at hy
  split at hy
  · cases hy; exact hx
  · exact h d y hy

theorem WInv.childrenUpd {w1 w2 : World} (h : WInv w1) (hu : ChildrenUpd w1 w2) : WInv w2 := by
  intro d y hy
  cases hd : w1.ctx? d with
  | none => rw [hu.ctx?_none d hd] at hy; cases hy
  | some z =>
    obtain ⟨ch, hch⟩ := hu.ctx?_some d z hd
    rw [hch] at hy; cases hy
    exact (h d z hd).congr rfl rfl rfl rfl

theorem WInv.exitWith {w : World} (h : WInv w) (t : TaskId) (c : CtxId) (be : BlockEnd)
    (stk : List Cb → List Cb) (x : Ctx) (hx : w.ctx? c = some x) (hs : x.state = .opened) :
    WInv (exitWith w t c be stk).1 := by
  obtain ⟨w2, hu, he⟩ := exitWith_eq w t c be stk x hx hs
  rw [he]
  refine WInv.childrenUpd
    (w1 := (w.setCtx c (exitedWith c (w.curOf t) be (stk x.tds) x)).setCur t (x.token.getD none)) ?_ hu
  have hk : KInv (exitedWith c (w.curOf t) be (stk x.tds) x) :=
    (KInv.runTeardown (x := { x with state := .closing, tds := [] })
      ((h c x hx).congr rfl rfl rfl rfl) c (w.curOf t) be (stk x.tds)).congr rfl rfl rfl rfl
  exact h.setCtx c _ hk

theorem WInv.step {w : World} (h : WInv w) (op : Op) : WInv (step w op).1 := by
  rcases step_cases w op with e | ⟨c, x, y, hx, e, hl⟩ | ⟨t, c, p, rfl, hc, q, e⟩ |
      ⟨t, c, x, rfl, hx, hs⟩ | ⟨t, c, be, x, rfl, hx, hs⟩ | ⟨t, c, be, k, x, rfl, hx, hs⟩ |
      ⟨t, t', rfl⟩
  · rw [e]; exact h
  · rw [e]; exact h.setCtx c y (hl.kinv (h c x hx))
  · rw [e]
    apply h.setCtx
    apply KInv.freshCtx
    intro y hy
    cases q with
    | none => cases hy
    | some q => exact h q y hy
  · obtain ⟨w2, hu, he⟩ := step_enter_eq w t c x hx hs
    rw [he]
    have : WInv w2 := (h.setCtx c (enteredCtx w t x) ((h c x hx).congr rfl rfl rfl rfl)).childrenUpd hu
    exact this
  · rw [step_exit_exitWith]; exact h.exitWith t c be _ x hx hs
  · rw [step_exitMid_exitWith]; exact h.exitWith t c be _ x hx hs
  · exact h

theorem reachable_winv {w : World} (hr : Reachable w) : WInv w := by
  induction hr with
  | init => intro c x hx; simp [World.ctx?, World.empty] at hx
  | step w op _ ih => exact ih.step op

end K2
end Asphalt
