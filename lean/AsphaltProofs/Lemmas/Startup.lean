/-
Reusable lemmas about the start-up LTS (AsphaltModel/Startup.lean).

Contents
* list-level views of the node table (`prepL`, `startL`, `setCurL`) and of `SSt.current`;
* one inversion lemma per label kind (`step?_construct`, `step?_prepBegin`, …): what a
  successful `step?` tells about the guards and what the successor state is, written as an
  explicit structure update of `s`;
* frame lemmas for a single step (`step?_hist`, `step?_prog`, `step?_res`, `step?_tds`, …);
* `RunStep`: how the `prep` / `start` phase of one node moves in one step, and `RunInv`, the
  invariant that ties the phase of a node to the begin/end labels in the ghost history;
* `Exec` snoc-induction and the bundled reachable-state invariant `Inv` (`inv_of_exec`);
* monotonicity of `prepFinished`, `startFinished`, `reached`, `subtreeDone`;
* tree facts: `subtreeDone` along `Desc`, every index is `0` or a descendant of `0` (`wfProg`).
-/
import AsphaltModel.Startup
import AsphaltProofs.Lemmas.Assoc

namespace Asphalt
namespace St

set_option linter.unusedSimpArgs false

/-! ### list-level views of the node table -/

/-- `prepare()` phase of node `i` (`notBegun` outside the table). -/
def prepL (ns : List NodeSt) (i : Nat) : Run :=
  match ns[i]? with
  | some n => n.prep
  | none => .notBegun

/-- `start()` phase of node `i` (`notBegun` outside the table). -/
def startL (ns : List NodeSt) (i : Nat) : Run :=
  match ns[i]? with
  | some n => n.start
  | none => .notBegun

/-- `SSt.setCurrent` on the node table. -/
def setCurL (ns : List NodeSt) (i : Nat) (ph : StartPhase) (r : Run) : List NodeSt :=
  match ns[i]? with
  | some n => if ph = .preparing then ns.set i { n with prep := r } else ns.set i { n with start := r }
  | none => ns

theorem setCurrent_eq (s : SSt) (i : Nat) (ph : StartPhase) (r : Run) :
    s.setCurrent i ph r = { s with nodes := setCurL s.nodes i ph r } := by
  unfold SSt.setCurrent setCurL SSt.node? SSt.setNode
  cases s.nodes[i]? with
  | none => rfl
  | some n => by_cases hp : ph = .preparing <;> simp [hp]

/-! ### the keys a generated product is stored under (`SSt.genKeys`) -/

/-- The first pair with key `k` is a member of the list. -/
theorem alookup_mem_pair {κ α : Type} [DecidableEq κ] {k : κ} {v : α} {l : List (κ × α)}
    (h : alookup k l = some v) : (k, v) ∈ l := by
  induction l with
  | nil => simp at h
  | cons p l ih =>
    obtain ⟨k', v'⟩ := p
    rw [alookup_cons] at h
    by_cases hk : k' = k
    · rw [if_pos hk] at h
      cases h; subst hk; exact List.mem_cons_self
    · rw [if_neg hk] at h
      exact List.mem_cons_of_mem _ (ih h)

/-- Looking a key up in a list of keys that all carry the same value. -/
theorem alookup_map_const {κ α : Type} [DecidableEq κ] (k : κ) (v : α) (ks : List κ) :
    alookup k (ks.map (fun k' => (k', v))) = if k ∈ ks then some v else none := by
  induction ks with
  | nil => simp
  | cons a ks ih =>
    rw [List.map_cons, alookup_cons, ih]
    by_cases h : a = k
    · simp [h]
    · have h' : ¬ k = a := fun e => h e.symm
      simp [h, h']

/-- The keys of `genKeys fid`: registered for `fid` and not taken in `res`. -/
theorem mem_genKeys {s : SSt} {fid : Nat} {k : Key} :
    k ∈ s.genKeys fid ↔ (k, fid) ∈ s.fac ∧ alookup k s.res = none := by
  unfold SSt.genKeys acontains
  simp only [List.mem_filter, List.mem_map, beq_iff_eq, Prod.exists, exists_and_right,
    exists_eq_right, Bool.not_eq_true', Option.isSome_eq_false_iff, Option.isNone_iff_eq_none]

/-- The requested key is among the keys the product is stored under. -/
theorem self_mem_genKeys {s : SSt} {fid : Nat} {k : Key} (hres : alookup k s.res = none)
    (hfac : alookup k s.fac = some fid) : k ∈ s.genKeys fid :=
  mem_genKeys.mpr ⟨alookup_mem_pair hfac, hres⟩

/-- `res` after a generation by factory `fid`, looked up at any key. -/
theorem alookup_gen_res (s : SSt) (fid : Nat) (k' : Key) :
    alookup k' (s.res ++ (s.genKeys fid).map (fun k'' => (k'', Val.gen 0 fid 0))) =
      match alookup k' s.res with
      | some w => some w
      | none => if (k', fid) ∈ s.fac then some (.gen 0 fid 0) else none := by
  rw [alookup_append, alookup_map_const]
  cases hr : alookup k' s.res with
  | some w => simp
  | none =>
    simp only [Option.orElse_none]
    by_cases hm : (k', fid) ∈ s.fac
    · rw [if_pos (mem_genKeys.mpr ⟨hm, hr⟩), if_pos hm]
    · rw [if_neg (fun h => hm (mem_genKeys.mp h).1), if_neg hm]

/-- `SSt.lookup` only ever appends to `res`, and the value it returns is then stored. -/
theorem lookup_some {s s1 : SSt} {k : Key} {v : Val} (h : s.lookup k = some (v, s1)) :
    (∃ ext, s1 = { s with res := s.res ++ ext }) ∧ alookup k s1.res = some v := by
  unfold SSt.lookup at h
  split at h
  · rename_i v' hv
    simp only [Option.some.injEq, Prod.mk.injEq] at h
    obtain ⟨rfl, rfl⟩ := h
    exact ⟨⟨[], by simp⟩, hv⟩
  · rename_i hv
    split at h
    · rename_i fid hf
      simp only [Option.some.injEq, Prod.mk.injEq] at h
      obtain ⟨rfl, rfl⟩ := h
      refine ⟨⟨_, rfl⟩, ?_⟩
      show alookup k (s.res ++ _) = _
      rw [alookup_gen_res, hv]
      simp only [if_pos (alookup_mem_pair hf)]
    · cases h

theorem lookup_some_eq {s s1 : SSt} {k : Key} {v : Val} (h : s.lookup k = some (v, s1)) :
    s1 = { s with res := s1.res } := by
  obtain ⟨⟨ext, rfl⟩, _⟩ := lookup_some h
  rfl

/-! ### inversion of `step?`, one lemma per label kind -/

/-- closes an inversion goal once `step?` has been unfolded in hypothesis `h`. -/
macro "step_inv" h:ident : tactic =>
  `(tactic| (repeat' (split at $h:ident)) <;>
      (first
        | (cases $h:ident; done)
        | (simp only [Option.some.injEq] at $h:ident; subst $h:ident
           first | (simp_all; done) | grind | (simp_all; grind))))

theorem step?_construct {s s' : SSt} {i : Nat} (h : step? s (.construct i) = some s') :
    ∃ c, s.reported = false ∧ s.spec? i = some c ∧ s.result = none ∧ i = s.constructed ∧
      c.ctorFails = false ∧
      s' = { s with constructed := s.constructed + 1, hist := s.hist ++ [.construct i] } := by
  simp [step?, setCurrent_eq, SSt.setNode] at h
  obtain ⟨hr, h⟩ := h
  step_inv h

theorem step?_ctorFailed {s s' : SSt} {i : Nat} (h : step? s (.ctorFailed i) = some s') :
    ∃ c, s.reported = false ∧ s.spec? i = some c ∧ s.result = none ∧ i = s.constructed ∧
      c.ctorFails = true ∧
      s' = { s with result := some (.raised (.componentStart .creating i c.cls 0)),
                    hist := s.hist ++ [.ctorFailed i] } := by
  simp [step?, setCurrent_eq, SSt.setNode] at h
  obtain ⟨hr, h⟩ := h
  step_inv h

theorem step?_prepBegin {s s' : SSt} {i : Nat} (h : step? s (.prepBegin i) = some s') :
    ∃ c n acts, s.reported = false ∧ s.spec? i = some c ∧ s.node? i = some n ∧
      c.prepare = some acts ∧ s.live = true ∧ s.allConstructed = true ∧ n.prep = .notBegun ∧
      s.reached s.fuel i = true ∧
      s' = { s with nodes := s.nodes.set i { n with prep := .running acts none },
                    hist := s.hist ++ [.prepBegin i] } := by
  simp [step?, setCurrent_eq, SSt.setNode] at h
  obtain ⟨hr, h⟩ := h
  step_inv h

theorem step?_prepEnd {s s' : SSt} {i : Nat} (h : step? s (.prepEnd i) = some s') :
    ∃ n, s.reported = false ∧ s.node? i = some n ∧ s.live = true ∧ n.prep = .running [] none ∧
      s' = { s with nodes := s.nodes.set i { n with prep := .done },
                    hist := s.hist ++ [.prepEnd i] } := by
  simp [step?, setCurrent_eq, SSt.setNode] at h
  obtain ⟨hr, h⟩ := h
  step_inv h

theorem step?_startBegin {s s' : SSt} {i : Nat} (h : step? s (.startBegin i) = some s') :
    ∃ c n acts, s.reported = false ∧ s.spec? i = some c ∧ s.node? i = some n ∧
      c.start = some acts ∧ s.live = true ∧ s.allConstructed = true ∧ n.start = .notBegun ∧
      s.prepFinished i = true ∧ s.reached s.fuel i = true ∧
      c.children.all (fun ch => s.subtreeDone s.fuel ch) = true ∧
      s' = { s with nodes := s.nodes.set i { n with start := .running acts none },
                    hist := s.hist ++ [.startBegin i] } := by
  simp [step?, setCurrent_eq, SSt.setNode] at h
  obtain ⟨hr, h⟩ := h
  step_inv h

theorem step?_startEnd {s s' : SSt} {i : Nat} (h : step? s (.startEnd i) = some s') :
    ∃ n, s.reported = false ∧ s.node? i = some n ∧ s.live = true ∧ n.start = .running [] none ∧
      s' = { s with nodes := s.nodes.set i { n with start := .done },
                    hist := s.hist ++ [.startEnd i] } := by
  simp [step?, setCurrent_eq, SSt.setNode] at h
  obtain ⟨hr, h⟩ := h
  step_inv h

theorem step?_pub {s s' : SSt} {i : Nat} {ty : TypeId} {name : String} {v : Nat}
    (h : step? s (.pub i ty name v) = some s') :
    ∃ c ph rest, s.reported = false ∧ s.spec? i = some c ∧
      s.current i = some (ph, .publish ty name v :: rest, none) ∧ s.live = true ∧
      acontains ⟨ty, publishName (phaseOf ph) c.dflt name⟩ s.res = false ∧
      s' = { s with res := s.res ++ [(⟨ty, publishName (phaseOf ph) c.dflt name⟩, .static v)],
                    nodes := setCurL s.nodes i ph (.running rest none),
                    hist := s.hist ++ [.pub i ty name v] } := by
  simp [step?, setCurrent_eq, SSt.setNode] at h
  obtain ⟨hr, h⟩ := h
  step_inv h

theorem step?_pubFac {s s' : SSt} {i : Nat} {ty : TypeId} {name : String} {fid : Nat}
    (h : step? s (.pubFac i ty name fid) = some s') :
    ∃ c ph rest, s.reported = false ∧ s.spec? i = some c ∧
      s.current i = some (ph, .publishFactory ty name fid :: rest, none) ∧ s.live = true ∧
      acontains ⟨ty, publishName (phaseOf ph) c.dflt name⟩ s.fac = false ∧
      s' = { s with fac := s.fac ++ [(⟨ty, publishName (phaseOf ph) c.dflt name⟩, fid)],
                    nodes := setCurL s.nodes i ph (.running rest none),
                    hist := s.hist ++ [.pubFac i ty name fid] } := by
  simp [step?, setCurrent_eq, SSt.setNode] at h
  obtain ⟨hr, h⟩ := h
  step_inv h

theorem step?_req {s s' : SSt} {i : Nat} {k : Key} (h : step? s (.req i k) = some s') :
    ∃ ph rest, s.reported = false ∧
      s.current i = some (ph, .await k.ty k.name :: rest, none) ∧ s.live = true ∧
      s' = { s with nodes := setCurL s.nodes i ph (.running (.await k.ty k.name :: rest) (some k)),
                    hist := s.hist ++ [.req i k] } := by
  simp [step?, setCurrent_eq, SSt.setNode] at h
  obtain ⟨hr, h⟩ := h
  step_inv h

theorem step?_got {s s' : SSt} {i : Nat} {k : Key} {v : Val} (h : step? s (.got i k v) = some s') :
    ∃ ph ty name rest s1, s.reported = false ∧
      s.current i = some (ph, .await ty name :: rest, some k) ∧ s.live = true ∧
      s.lookup k = some (v, s1) ∧
      s' = { s with res := s1.res, nodes := setCurL s.nodes i ph (.running rest none),
                    hist := s.hist ++ [.got i k v] } := by
  simp [step?, setCurrent_eq, SSt.setNode] at h
  obtain ⟨hr, h⟩ := h
  split at h
  · rename_i ph ty name rest k' hcur
    split at h
    · rename_i hg
      obtain ⟨hl, rfl⟩ := hg
      split at h
      · rename_i v' s1 hlk
        split at h
        · rename_i hv
          subst hv
          simp only [Option.some.injEq] at h
          subst h
          refine ⟨ph, ty, name, rest, s1, hr, hcur, hl, hlk, ?_⟩
          obtain ⟨⟨ext, rfl⟩, _⟩ := lookup_some hlk
          rfl
        · cases h
      · cases h
    · cases h
  · cases h

theorem step?_gotOpt {s s' : SSt} {i : Nat} {k : Key} {v : Option Val}
    (h : step? s (.gotOpt i k v) = some s') :
    ∃ ph rest res', s.reported = false ∧
      s.current i = some (ph, .awaitOpt k.ty k.name :: rest, none) ∧ s.live = true ∧
      ((∃ v' s1, s.lookup k = some (v', s1) ∧ v = some v' ∧ res' = s1.res) ∨
        (s.lookup k = none ∧ v = none ∧ res' = s.res)) ∧
      s' = { s with res := res', nodes := setCurL s.nodes i ph (.running rest none),
                    hist := s.hist ++ [.gotOpt i k v] } := by
  simp [step?, setCurrent_eq, SSt.setNode] at h
  obtain ⟨hr, h⟩ := h
  split at h
  · rename_i ph ty name rest hcur
    split at h
    · rename_i hg
      obtain ⟨hl, rfl⟩ := hg
      split at h
      · rename_i v' s1 hlk
        split at h
        · rename_i hv
          subst hv
          simp only [Option.some.injEq] at h
          subst h
          refine ⟨ph, rest, s1.res, hr, hcur, hl, Or.inl ⟨v', s1, hlk, rfl, rfl⟩, ?_⟩
          obtain ⟨⟨ext, rfl⟩, _⟩ := lookup_some hlk
          rfl
        · cases h
      · rename_i hlk
        split at h
        · rename_i hv
          subst hv
          simp only [Option.some.injEq] at h
          subst h
          exact ⟨ph, rest, s.res, hr, hcur, hl, Or.inr ⟨hlk, rfl, rfl⟩, rfl⟩
        · cases h
    · cases h
  · cases h

theorem step?_tick {s s' : SSt} {i : Nat} (h : step? s (.tick i) = some s') :
    ∃ ph d rest, s.reported = false ∧ s.current i = some (ph, .tick d :: rest, none) ∧
      s.live = true ∧
      s' = { s with nodes := setCurL s.nodes i ph (.running rest none),
                    hist := s.hist ++ [.tick i] } := by
  simp [step?, setCurrent_eq, SSt.setNode] at h
  obtain ⟨hr, h⟩ := h
  step_inv h

theorem step?_regTd {s s' : SSt} {i id : Nat} (h : step? s (.regTd i id) = some s') :
    ∃ ph rest, s.reported = false ∧ s.current i = some (ph, .regTd id :: rest, none) ∧
      s.live = true ∧
      s' = { s with tds := id :: s.tds, nodes := setCurL s.nodes i ph (.running rest none),
                    hist := s.hist ++ [.regTd i id] } := by
  simp [step?, setCurrent_eq, SSt.setNode] at h
  obtain ⟨hr, h⟩ := h
  step_inv h

theorem step?_failed {s s' : SSt} {i e : Nat} (h : step? s (.failed i e) = some s') :
    ∃ c ph rest, s.reported = false ∧ s.spec? i = some c ∧
      s.current i = some (ph, .fail e :: rest, none) ∧ s.result = none ∧
      s' = { s with result := some (.raised (.componentStart ph i c.cls e)), grace := true,
                    nodes := setCurL s.nodes i ph .cancelled,
                    hist := s.hist ++ [.failed i e] } := by
  simp [step?, setCurrent_eq, SSt.setNode] at h
  obtain ⟨hr, h⟩ := h
  step_inv h

theorem step?_cancelSeen {s s' : SSt} {i : Nat} (h : step? s (.cancelSeen i) = some s') :
    ∃ ph rest b, s.reported = false ∧ s.current i = some (ph, rest, b) ∧ s.result.isSome = true ∧
      s' = { s with nodes := setCurL s.nodes i ph .cancelled,
                    hist := s.hist ++ [.cancelSeen i] } := by
  simp [step?, setCurrent_eq, SSt.setNode] at h
  obtain ⟨hr, h⟩ := h
  step_inv h

theorem step?_timeoutFired {s s' : SSt} (h : step? s .timeoutFired = some s') :
    s.reported = false ∧ s.hasTimeout = true ∧ s.result = none ∧ s.allConstructed = true ∧
      s.subtreeDone s.fuel 0 = false ∧
      s' = { s with result := some (.raised .timeout), grace := true,
                    hist := s.hist ++ [.timeoutFired] } := by
  simp [step?, setCurrent_eq, SSt.setNode] at h
  obtain ⟨hr, hg, rfl⟩ := h
  simp_all

theorem step?_returned {s s' : SSt} (h : step? s .returned = some s') :
    s.reported = false ∧ s.result = none ∧ s.allConstructed = true ∧
      s.subtreeDone s.fuel 0 = true ∧
      s' = { s with result := some .returned, reported := true,
                    hist := s.hist ++ [.returned] } := by
  simp [step?, setCurrent_eq, SSt.setNode] at h
  obtain ⟨hr, hg, rfl⟩ := h
  simp_all

theorem step?_raised {s s' : SSt} {e : StartErr} (h : step? s (.raised e) = some s') :
    s.reported = false ∧ s.result = some (.raised e) ∧
      (∀ i, i < s.prog.length → s.current i = none) ∧
      s' = { s with reported := true, hist := s.hist ++ [.raised e] } := by
  simp [step?, setCurrent_eq, SSt.setNode] at h
  obtain ⟨hr, hg, rfl⟩ := h
  simp_all

theorem step?_tdRun {s s' : SSt} {id : Nat} (h : step? s (.tdRun id) = some s') :
    s.reported = true ∧ ∃ rest, s.tds = id :: rest ∧
      s' = { s with tds := rest, hist := s.hist ++ [.tdRun id] } := by
  simp [step?, setCurrent_eq, SSt.setNode] at h
  obtain ⟨hr, h⟩ := h
  step_inv h

theorem step?_instantOver {s s' : SSt} (h : step? s .instantOver = some s') :
    (s.reported = true ∨ s.result.isSome = true) ∧
      s' = { s with grace := false, hist := s.hist ++ [.instantOver] } := by
  simp [step?, setCurrent_eq, SSt.setNode] at h
  step_inv h

/-! ### all inversions bundled: `Step s l s'` has one constructor per way a label can fire -/

/-- The transition relation of `step?` with the successor state written out as a structure
update. `cases St.Step.of_step? h` gives one goal per label kind with all guards as hypotheses. -/
inductive Step (s : SSt) : Lab → SSt → Prop
  | construct {i c} : s.reported = false → s.spec? i = some c → s.result = none →
      i = s.constructed → c.ctorFails = false →
      Step s (.construct i) { s with constructed := s.constructed + 1, hist := s.hist ++ [.construct i] }
  | ctorFailed {i c} : s.reported = false → s.spec? i = some c → s.result = none →
      i = s.constructed → c.ctorFails = true →
      Step s (.ctorFailed i) { s with result := some (.raised (.componentStart .creating i c.cls 0)),
                                      hist := s.hist ++ [.ctorFailed i] }
  | prepBegin {i c n acts} : s.reported = false → s.spec? i = some c → s.node? i = some n →
      c.prepare = some acts → s.live = true → s.allConstructed = true → n.prep = .notBegun →
      s.reached s.fuel i = true →
      Step s (.prepBegin i) { s with nodes := s.nodes.set i { n with prep := .running acts none },
                                     hist := s.hist ++ [.prepBegin i] }
  | prepEnd {i n} : s.reported = false → s.node? i = some n → s.live = true →
      n.prep = .running [] none →
      Step s (.prepEnd i) { s with nodes := s.nodes.set i { n with prep := .done },
                                   hist := s.hist ++ [.prepEnd i] }
  | startBegin {i c n acts} : s.reported = false → s.spec? i = some c → s.node? i = some n →
      c.start = some acts → s.live = true → s.allConstructed = true → n.start = .notBegun →
      s.prepFinished i = true → s.reached s.fuel i = true →
      c.children.all (fun ch => s.subtreeDone s.fuel ch) = true →
      Step s (.startBegin i) { s with nodes := s.nodes.set i { n with start := .running acts none },
                                      hist := s.hist ++ [.startBegin i] }
  | startEnd {i n} : s.reported = false → s.node? i = some n → s.live = true →
      n.start = .running [] none →
      Step s (.startEnd i) { s with nodes := s.nodes.set i { n with start := .done },
                                    hist := s.hist ++ [.startEnd i] }
  | pub {i ty name v c ph rest} : s.reported = false → s.spec? i = some c →
      s.current i = some (ph, .publish ty name v :: rest, none) → s.live = true →
      acontains ⟨ty, publishName (phaseOf ph) c.dflt name⟩ s.res = false →
      Step s (.pub i ty name v)
        { s with res := s.res ++ [(⟨ty, publishName (phaseOf ph) c.dflt name⟩, .static v)],
                 nodes := setCurL s.nodes i ph (.running rest none),
                 hist := s.hist ++ [.pub i ty name v] }
  | pubFac {i ty name fid c ph rest} : s.reported = false → s.spec? i = some c →
      s.current i = some (ph, .publishFactory ty name fid :: rest, none) → s.live = true →
      acontains ⟨ty, publishName (phaseOf ph) c.dflt name⟩ s.fac = false →
      Step s (.pubFac i ty name fid)
        { s with fac := s.fac ++ [(⟨ty, publishName (phaseOf ph) c.dflt name⟩, fid)],
                 nodes := setCurL s.nodes i ph (.running rest none),
                 hist := s.hist ++ [.pubFac i ty name fid] }
  | req {i k ph rest} : s.reported = false →
      s.current i = some (ph, .await k.ty k.name :: rest, none) → s.live = true →
      Step s (.req i k)
        { s with nodes := setCurL s.nodes i ph (.running (.await k.ty k.name :: rest) (some k)),
                 hist := s.hist ++ [.req i k] }
  | got {i k v ph ty name rest s1} : s.reported = false →
      s.current i = some (ph, .await ty name :: rest, some k) → s.live = true →
      s.lookup k = some (v, s1) →
      Step s (.got i k v)
        { s with res := s1.res, nodes := setCurL s.nodes i ph (.running rest none),
                 hist := s.hist ++ [.got i k v] }
  | gotOptSome {i k v ph rest s1} : s.reported = false →
      s.current i = some (ph, .awaitOpt k.ty k.name :: rest, none) → s.live = true →
      s.lookup k = some (v, s1) →
      Step s (.gotOpt i k (some v))
        { s with res := s1.res, nodes := setCurL s.nodes i ph (.running rest none),
                 hist := s.hist ++ [.gotOpt i k (some v)] }
  | gotOptNone {i k ph rest} : s.reported = false →
      s.current i = some (ph, .awaitOpt k.ty k.name :: rest, none) → s.live = true →
      s.lookup k = none →
      Step s (.gotOpt i k none)
        { s with nodes := setCurL s.nodes i ph (.running rest none),
                 hist := s.hist ++ [.gotOpt i k none] }
  | tick {i ph d rest} : s.reported = false → s.current i = some (ph, .tick d :: rest, none) →
      s.live = true →
      Step s (.tick i) { s with nodes := setCurL s.nodes i ph (.running rest none),
                                hist := s.hist ++ [.tick i] }
  | regTd {i id ph rest} : s.reported = false →
      s.current i = some (ph, .regTd id :: rest, none) → s.live = true →
      Step s (.regTd i id)
        { s with tds := id :: s.tds, nodes := setCurL s.nodes i ph (.running rest none),
                 hist := s.hist ++ [.regTd i id] }
  | failed {i e c ph rest} : s.reported = false → s.spec? i = some c →
      s.current i = some (ph, .fail e :: rest, none) → s.result = none →
      Step s (.failed i e)
        { s with result := some (.raised (.componentStart ph i c.cls e)), grace := true,
                 nodes := setCurL s.nodes i ph .cancelled, hist := s.hist ++ [.failed i e] }
  | cancelSeen {i ph rest b} : s.reported = false → s.current i = some (ph, rest, b) →
      s.result.isSome = true →
      Step s (.cancelSeen i)
        { s with nodes := setCurL s.nodes i ph .cancelled, hist := s.hist ++ [.cancelSeen i] }
  | timeoutFired : s.reported = false → s.hasTimeout = true → s.result = none →
      s.allConstructed = true → s.subtreeDone s.fuel 0 = false →
      Step s .timeoutFired { s with result := some (.raised .timeout), grace := true,
                                    hist := s.hist ++ [.timeoutFired] }
  | returned : s.reported = false → s.result = none → s.allConstructed = true →
      s.subtreeDone s.fuel 0 = true →
      Step s .returned { s with result := some .returned, reported := true,
                                hist := s.hist ++ [.returned] }
  | raised {e} : s.reported = false → s.result = some (.raised e) →
      (∀ i, i < s.prog.length → s.current i = none) →
      Step s (.raised e) { s with reported := true, hist := s.hist ++ [.raised e] }
  | tdRun {id rest} : s.reported = true → s.tds = id :: rest →
      Step s (.tdRun id) { s with tds := rest, hist := s.hist ++ [.tdRun id] }
  | instantOver : (s.reported = true ∨ s.result.isSome = true) →
      Step s .instantOver { s with grace := false, hist := s.hist ++ [.instantOver] }

theorem Step.of_step? {s s' : SSt} {l : Lab} (h : step? s l = some s') : Step s l s' := by
  cases l with
  | construct i => obtain ⟨c, h1, h2, h3, h4, h5, rfl⟩ := step?_construct h; exact .construct h1 h2 h3 h4 h5
  | ctorFailed i => obtain ⟨c, h1, h2, h3, h4, h5, rfl⟩ := step?_ctorFailed h; exact .ctorFailed h1 h2 h3 h4 h5
  | prepBegin i =>
    obtain ⟨c, n, acts, h1, h2, h3, h4, h5, h6, h7, h8, rfl⟩ := step?_prepBegin h
    exact .prepBegin h1 h2 h3 h4 h5 h6 h7 h8
  | prepEnd i => obtain ⟨n, h1, h2, h3, h4, rfl⟩ := step?_prepEnd h; exact .prepEnd h1 h2 h3 h4
  | startBegin i =>
    obtain ⟨c, n, acts, h1, h2, h3, h4, h5, h6, h7, h8, h9, h10, rfl⟩ := step?_startBegin h
    exact .startBegin h1 h2 h3 h4 h5 h6 h7 h8 h9 h10
  | startEnd i => obtain ⟨n, h1, h2, h3, h4, rfl⟩ := step?_startEnd h; exact .startEnd h1 h2 h3 h4
  | pub i ty name v =>
    obtain ⟨c, ph, rest, h1, h2, h3, h4, h5, rfl⟩ := step?_pub h; exact .pub h1 h2 h3 h4 h5
  | pubFac i ty name fid =>
    obtain ⟨c, ph, rest, h1, h2, h3, h4, h5, rfl⟩ := step?_pubFac h; exact .pubFac h1 h2 h3 h4 h5
  | req i k => obtain ⟨ph, rest, h1, h2, h3, rfl⟩ := step?_req h; exact .req h1 h2 h3
  | got i k v =>
    obtain ⟨ph, ty, name, rest, s1, h1, h2, h3, h4, rfl⟩ := step?_got h; exact .got h1 h2 h3 h4
  | gotOpt i k v =>
    obtain ⟨ph, rest, res', h1, h2, h3, h4, rfl⟩ := step?_gotOpt h
    rcases h4 with ⟨v', s1, h4, rfl, rfl⟩ | ⟨h4, rfl, rfl⟩
    · exact .gotOptSome h1 h2 h3 h4
    · exact .gotOptNone h1 h2 h3 h4
  | tick i => obtain ⟨ph, d, rest, h1, h2, h3, rfl⟩ := step?_tick h; exact .tick h1 h2 h3
  | regTd i id => obtain ⟨ph, rest, h1, h2, h3, rfl⟩ := step?_regTd h; exact .regTd h1 h2 h3
  | failed i e =>
    obtain ⟨c, ph, rest, h1, h2, h3, h4, rfl⟩ := step?_failed h; exact .failed h1 h2 h3 h4
  | cancelSeen i =>
    obtain ⟨ph, rest, b, h1, h2, h3, rfl⟩ := step?_cancelSeen h; exact .cancelSeen h1 h2 h3
  | timeoutFired => obtain ⟨h1, h2, h3, h4, h5, rfl⟩ := step?_timeoutFired h; exact .timeoutFired h1 h2 h3 h4 h5
  | returned => obtain ⟨h1, h2, h3, h4, rfl⟩ := step?_returned h; exact .returned h1 h2 h3 h4
  | raised e => obtain ⟨h1, h2, h3, rfl⟩ := step?_raised h; exact .raised h1 h2 h3
  | tdRun id => obtain ⟨h1, rest, h2, rfl⟩ := step?_tdRun h; exact .tdRun h1 h2
  | instantOver => obtain ⟨h1, rfl⟩ := step?_instantOver h; exact .instantOver h1

/-! ### frame lemmas for one step -/

theorem setCurL_length (ns : List NodeSt) (i : Nat) (ph : StartPhase) (r : Run) :
    (setCurL ns i ph r).length = ns.length := by
  unfold setCurL
  split
  · split <;> simp
  · rfl

theorem step?_hist {s s' : SSt} {l : Lab} (h : step? s l = some s') : s'.hist = s.hist ++ [l] := by
  cases Step.of_step? h <;> rfl

theorem step?_prog {s s' : SSt} {l : Lab} (h : step? s l = some s') : s'.prog = s.prog := by
  cases Step.of_step? h <;> rfl

theorem step?_hasTimeout {s s' : SSt} {l : Lab} (h : step? s l = some s') :
    s'.hasTimeout = s.hasTimeout := by
  cases Step.of_step? h <;> rfl

theorem step?_nodes_length {s s' : SSt} {l : Lab} (h : step? s l = some s') :
    s'.nodes.length = s.nodes.length := by
  cases Step.of_step? h <;> simp [setCurL_length]

/-- `res` only grows, at the end. -/
theorem step?_res {s s' : SSt} {l : Lab} (h : step? s l = some s') :
    ∃ ext, s'.res = s.res ++ ext := by
  cases Step.of_step? h
  case got hl => obtain ⟨⟨ext, rfl⟩, _⟩ := lookup_some hl; exact ⟨ext, rfl⟩
  case gotOptSome hl => obtain ⟨⟨ext, rfl⟩, _⟩ := lookup_some hl; exact ⟨ext, rfl⟩
  case pub => exact ⟨_, rfl⟩
  all_goals exact ⟨[], by simp⟩

/-- `fac` only grows, at the end. -/
theorem step?_fac {s s' : SSt} {l : Lab} (h : step? s l = some s') :
    ∃ ext, s'.fac = s.fac ++ ext := by
  cases Step.of_step? h
  case pubFac => exact ⟨_, rfl⟩
  all_goals exact ⟨[], by simp⟩

theorem step?_reported_mono {s s' : SSt} {l : Lab} (h : step? s l = some s')
    (hr : s.reported = true) : s'.reported = true := by
  cases Step.of_step? h <;> simp_all

/-- Once decided, the outcome never changes. -/
theorem step?_result_stable {s s' : SSt} {l : Lab} {r : StartResult} (h : step? s l = some s')
    (hr : s.result = some r) : s'.result = some r := by
  cases Step.of_step? h <;> simp_all

/-- The teardown id a label registers. -/
def regTdId : Lab → Option Nat
  | .regTd _ id => some id
  | _ => none

/-- The component index a label constructs. -/
def constructIdx : Lab → Option Nat
  | .construct i => some i
  | _ => none

theorem regTdId_eq : (fun l => match l with | Lab.regTd _ id => some id | _ => none) = regTdId := by
  funext l; cases l <;> rfl

theorem constructIdx_eq :
    (fun l => match l with | Lab.construct i => some i | _ => none) = constructIdx := by
  funext l; cases l <;> rfl

/-- Before the outcome is reported the teardown stack only grows, by the `regTd` labels. -/
theorem step?_tds {s s' : SSt} {l : Lab} (h : step? s l = some s') (hr : s'.reported = false) :
    s'.tds = (regTdId l).toList ++ s.tds := by
  cases Step.of_step? h <;> simp_all [regTdId]

theorem step?_constructed {s s' : SSt} {l : Lab} (h : step? s l = some s') :
    (constructIdx l = none ∧ s'.constructed = s.constructed) ∨
      (constructIdx l = some s.constructed ∧ s'.constructed = s.constructed + 1 ∧
        s.constructed < s.prog.length) := by
  cases Step.of_step? h
  case construct i c h1 h2 h3 h4 h5 =>
    right
    subst h4
    refine ⟨rfl, rfl, ?_⟩
    unfold SSt.spec? at h2
    exact (List.getElem?_eq_some_iff.mp h2).1
  all_goals exact Or.inl ⟨rfl, rfl⟩

/-! ### how the phase of one node moves in one step -/

/-- One step seen from one phase (`prepare()` or `start()`) of one node: `lb` / `le` are the
begin / end labels of that phase, `l` the label of the step. -/
inductive RunStep (lb le l : Lab) : Run → Run → Prop
  | same (r : Run) : l ≠ lb → l ≠ le → RunStep lb le l r r
  | begin (acts : List Act) : l = lb → RunStep lb le l .notBegun (.running acts none)
  | finish : l = le → RunStep lb le l (.running [] none) .done
  | work (rest : List Act) (b : Option Key) (rest' : List Act) (b' : Option Key) :
      l ≠ lb → l ≠ le → RunStep lb le l (.running rest b) (.running rest' b')
  | cancel (rest : List Act) (b : Option Key) :
      l ≠ lb → l ≠ le → RunStep lb le l (.running rest b) .cancelled

/-- The four begin/end labels. -/
def isPhaseLab : Lab → Bool
  | .prepBegin _ | .prepEnd _ | .startBegin _ | .startEnd _ => true
  | _ => false

theorem RunStep.done_stable {lb le l : Lab} {r r' : Run} (h : RunStep lb le l r r')
    (hd : r = .done) : r' = .done := by
  cases h <;> first | exact hd | cases hd

theorem RunStep.notBegun_of {lb le l : Lab} {r r' : Run} (h : RunStep lb le l r r')
    (hd : r' = .notBegun) : r = .notBegun := by
  cases h <;> first | exact hd | cases hd

theorem RunStep.of_notBegun {lb le l : Lab} {r r' : Run} (h : RunStep lb le l r r')
    (hd : r = .notBegun) : r' = .notBegun ∨ l = lb := by
  cases h <;> first | exact .inl hd | (right; assumption) | cases hd

theorem RunStep.cancelled_stable {lb le l : Lab} {r r' : Run} (h : RunStep lb le l r r')
    (hd : r = .cancelled) : r' = .cancelled := by
  cases h <;> first | exact hd | cases hd

theorem prepL_set {ns : List NodeSt} {i : Nat} {m : NodeSt} (hi : i < ns.length) (j : Nat) :
    prepL (ns.set i m) j = if j = i then m.prep else prepL ns j := by
  unfold prepL
  rw [List.getElem?_set]
  by_cases hji : j = i
  · subst hji; simp [hi]
  · have : ¬ i = j := fun e => hji e.symm
    simp [hji, this]

theorem startL_set {ns : List NodeSt} {i : Nat} {m : NodeSt} (hi : i < ns.length) (j : Nat) :
    startL (ns.set i m) j = if j = i then m.start else startL ns j := by
  unfold startL
  rw [List.getElem?_set]
  by_cases hji : j = i
  · subst hji; simp [hi]
  · have : ¬ i = j := fun e => hji e.symm
    simp [hji, this]

theorem prepL_of_getElem? {ns : List NodeSt} {i : Nat} {n : NodeSt} (h : ns[i]? = some n) :
    prepL ns i = n.prep := by
  simp [prepL, h]

theorem startL_of_getElem? {ns : List NodeSt} {i : Nat} {n : NodeSt} (h : ns[i]? = some n) :
    startL ns i = n.start := by
  simp [startL, h]

/-- What `SSt.current` being defined says about the node. -/
theorem current_some {s : SSt} {i : Nat} {ph : StartPhase} {rest : List Act} {b : Option Key}
    (h : s.current i = some (ph, rest, b)) :
    ∃ n, s.nodes[i]? = some n ∧
      ((ph = .preparing ∧ n.prep = .running rest b) ∨
        (ph = .starting ∧ n.start = .running rest b ∧ ∀ r b', n.prep ≠ .running r b')) := by
  unfold SSt.current SSt.node? at h
  split at h
  · rename_i r b' st hn
    simp only [Option.some.injEq, Prod.mk.injEq] at h
    obtain ⟨rfl, rfl, rfl⟩ := h
    exact ⟨_, hn, Or.inl ⟨rfl, rfl⟩⟩
  · rename_i pr r b' hnot hn
    simp only [Option.some.injEq, Prod.mk.injEq] at h
    obtain ⟨rfl, rfl, rfl⟩ := h
    refine ⟨_, hn, Or.inr ⟨rfl, rfl, ?_⟩⟩
    intro r0 b0 he
    exact hnot _ _ he
  · cases h

theorem current_none_iff {s : SSt} {i : Nat} :
    s.current i = none ↔ (∀ r b, prepL s.nodes i ≠ .running r b) ∧ (∀ r b, startL s.nodes i ≠ .running r b) := by
  unfold SSt.current SSt.node? prepL startL
  cases hn : s.nodes[i]? with
  | none => simp
  | some n =>
    obtain ⟨p, st⟩ := n
    cases p <;> cases st <;> simp

/-- A step that rewrites the current phase of node `i` (an action, a failure, a cancellation),
seen from every node `j`. -/
theorem runStep_setCur {s : SSt} {l : Lab} {i : Nat} {ph : StartPhase} {rest : List Act}
    {b : Option Key} {r' : Run} (hcur : s.current i = some (ph, rest, b))
    (hl : isPhaseLab l = false) (hr' : (∃ rest' b', r' = .running rest' b') ∨ r' = .cancelled)
    (j : Nat) :
    RunStep (.prepBegin j) (.prepEnd j) l (prepL s.nodes j) (prepL (setCurL s.nodes i ph r') j) ∧
    RunStep (.startBegin j) (.startEnd j) l (startL s.nodes j) (startL (setCurL s.nodes i ph r') j) := by
  have n1 : l ≠ .prepBegin j := by rintro rfl; cases hl
  have n2 : l ≠ .prepEnd j := by rintro rfl; cases hl
  have n3 : l ≠ .startBegin j := by rintro rfl; cases hl
  have n4 : l ≠ .startEnd j := by rintro rfl; cases hl
  obtain ⟨n, hn, hph⟩ := current_some hcur
  have hi : i < s.nodes.length := (List.getElem?_eq_some_iff.mp hn).1
  unfold setCurL
  rw [hn]
  by_cases hji : j = i
  · subst hji
    rcases hph with ⟨rfl, hp⟩ | ⟨rfl, hs, _⟩
    · simp only [if_true, prepL_set hi, startL_set hi, prepL_of_getElem? hn, startL_of_getElem? hn, hp]
      refine ⟨?_, .same _ n3 n4⟩
      rcases hr' with ⟨rest', b', rfl⟩ | rfl
      · exact .work _ _ _ _ n1 n2
      · exact .cancel _ _ n1 n2
    · simp only [if_true, prepL_set hi, startL_set hi, prepL_of_getElem? hn, startL_of_getElem? hn, hs,
        reduceCtorEq, if_false]
      refine ⟨.same _ n1 n2, ?_⟩
      rcases hr' with ⟨rest', b', rfl⟩ | rfl
      · exact .work _ _ _ _ n3 n4
      · exact .cancel _ _ n3 n4
  · by_cases hp : ph = .preparing <;>
      simp only [hp, if_true, if_false, prepL_set hi, startL_set hi, hji] <;>
      exact ⟨.same _ n1 n2, .same _ n3 n4⟩

/-- Every step moves every phase of every node according to `RunStep`. -/
theorem step?_runStep {s s' : SSt} {l : Lab} (h : step? s l = some s') (j : Nat) :
    RunStep (.prepBegin j) (.prepEnd j) l (prepL s.nodes j) (prepL s'.nodes j) ∧
    RunStep (.startBegin j) (.startEnd j) l (startL s.nodes j) (startL s'.nodes j) := by
  have hsame : ∀ {l : Lab}, isPhaseLab l = false →
      RunStep (.prepBegin j) (.prepEnd j) l (prepL s.nodes j) (prepL s.nodes j) ∧
      RunStep (.startBegin j) (.startEnd j) l (startL s.nodes j) (startL s.nodes j) := by
    intro l hl
    exact ⟨.same _ (by rintro rfl; cases hl) (by rintro rfl; cases hl),
      .same _ (by rintro rfl; cases hl) (by rintro rfl; cases hl)⟩
  cases Step.of_step? h
  case prepBegin i c n acts h1 h2 h3 h4 h5 h6 h7 h8 =>
    have hi : i < s.nodes.length := (List.getElem?_eq_some_iff.mp h3).1
    simp only [prepL_set hi, startL_set hi]
    by_cases hji : j = i
    · subst hji
      simp only [if_true, prepL_of_getElem? h3, startL_of_getElem? h3, h7]
      exact ⟨.begin _ rfl, .same _ (by simp) (by simp)⟩
    · simp only [hji, if_false]
      exact ⟨.same _ (by simp; omega) (by simp), .same _ (by simp) (by simp)⟩
  case prepEnd i n h1 h3 h5 h7 =>
    have hi : i < s.nodes.length := (List.getElem?_eq_some_iff.mp h3).1
    simp only [prepL_set hi, startL_set hi]
    by_cases hji : j = i
    · subst hji
      simp only [if_true, prepL_of_getElem? h3, startL_of_getElem? h3, h7]
      exact ⟨.finish rfl, .same _ (by simp) (by simp)⟩
    · simp only [hji, if_false]
      exact ⟨.same _ (by simp) (by simp; omega), .same _ (by simp) (by simp)⟩
  case startBegin i c n acts h1 h2 h3 h4 h5 h6 h7 h8 h9 h10 =>
    have hi : i < s.nodes.length := (List.getElem?_eq_some_iff.mp h3).1
    simp only [prepL_set hi, startL_set hi]
    by_cases hji : j = i
    · subst hji
      simp only [if_true, prepL_of_getElem? h3, startL_of_getElem? h3, h7]
      exact ⟨.same _ (by simp) (by simp), .begin _ rfl⟩
    · simp only [hji, if_false]
      exact ⟨.same _ (by simp) (by simp), .same _ (by simp; omega) (by simp)⟩
  case startEnd i n h1 h3 h5 h7 =>
    have hi : i < s.nodes.length := (List.getElem?_eq_some_iff.mp h3).1
    simp only [prepL_set hi, startL_set hi]
    by_cases hji : j = i
    · subst hji
      simp only [if_true, prepL_of_getElem? h3, startL_of_getElem? h3, h7]
      exact ⟨.same _ (by simp) (by simp), .finish rfl⟩
    · simp only [hji, if_false]
      exact ⟨.same _ (by simp) (by simp), .same _ (by simp) (by simp; omega)⟩
  case pub hc _ _ => exact runStep_setCur hc rfl (.inl ⟨_, _, rfl⟩) j
  case pubFac hc _ _ => exact runStep_setCur hc rfl (.inl ⟨_, _, rfl⟩) j
  case req hc _ => exact runStep_setCur hc rfl (.inl ⟨_, _, rfl⟩) j
  case got hc _ _ => exact runStep_setCur hc rfl (.inl ⟨_, _, rfl⟩) j
  case gotOptSome hc _ _ => exact runStep_setCur hc rfl (.inl ⟨_, _, rfl⟩) j
  case gotOptNone hc _ _ => exact runStep_setCur hc rfl (.inl ⟨_, _, rfl⟩) j
  case tick hc _ => exact runStep_setCur hc rfl (.inl ⟨_, _, rfl⟩) j
  case regTd hc _ => exact runStep_setCur hc rfl (.inl ⟨_, _, rfl⟩) j
  case failed hc _ => exact runStep_setCur hc rfl (.inr rfl) j
  case cancelSeen hc _ => exact runStep_setCur hc rfl (.inr rfl) j
  all_goals exact hsame rfl

/-! ### the phase of a node versus the begin/end labels in the history -/

/-- Invariant tying a phase `r` of a node to the occurrences of its begin label `lb` and end
label `le` in the history. -/
structure RunInv (lb le : Lab) (hist : List Lab) (r : Run) : Prop where
  notBegun_iff : r = .notBegun ↔ hist.count lb = 0
  begin_le : hist.count lb ≤ 1
  done_iff : r = .done ↔ hist.count le = 1
  end_le : hist.count le ≤ 1

theorem RunInv.init (lb le : Lab) : RunInv lb le [] .notBegun :=
  ⟨by simp, by simp, by simp, by simp⟩

theorem RunInv.step {lb le l : Lab} {hist : List Lab} {r r' : Run} (hne : lb ≠ le)
    (hi : RunInv lb le hist r) (hs : RunStep lb le l r r') : RunInv lb le (hist ++ [l]) r' := by
  obtain ⟨h1, h2, h3, h4⟩ := hi
  have hne' : le ≠ lb := fun e => hne e.symm
  cases hs with
  | same r n1 n2 =>
    refine ⟨?_, ?_, ?_, ?_⟩ <;> simp [List.count_append, List.count_singleton, n1, n2] <;> assumption
  | begin acts e =>
    subst e
    have h0 : hist.count l = 0 := h1.mp rfl
    have hd : ¬ hist.count le = 1 := fun e => by have := h3.mpr e; cases this
    refine ⟨?_, ?_, ?_, ?_⟩ <;> simp [List.count_append, List.count_singleton, hne, h0, hd, h4]
  | finish e =>
    subst e
    have h0 : ¬ hist.count lb = 0 := fun e => by have := h1.mpr e; cases this
    have hd : ¬ hist.count l = 1 := fun e => by have := h3.mpr e; cases this
    have hz : hist.count l = 0 := by omega
    refine ⟨?_, ?_, ?_, ?_⟩ <;> simp [List.count_append, List.count_singleton, hne', h0, hz, h2]
  | work rest b rest' b' n1 n2 =>
    have h0 : ¬ hist.count lb = 0 := fun e => by have := h1.mpr e; cases this
    have hd : ¬ hist.count le = 1 := fun e => by have := h3.mpr e; cases this
    refine ⟨?_, ?_, ?_, ?_⟩ <;> simp [List.count_append, List.count_singleton, n1, n2, h0, hd, h2, h4]
  | cancel rest b n1 n2 =>
    have h0 : ¬ hist.count lb = 0 := fun e => by have := h1.mpr e; cases this
    have hd : ¬ hist.count le = 1 := fun e => by have := h3.mpr e; cases this
    refine ⟨?_, ?_, ?_, ?_⟩ <;> simp [List.count_append, List.count_singleton, n1, n2, h0, hd, h2, h4]

theorem RunInv.begin_mem_iff {lb le : Lab} {hist : List Lab} {r : Run} (h : RunInv lb le hist r) :
    lb ∈ hist ↔ r ≠ .notBegun := by
  rw [Ne, h.notBegun_iff, List.count_eq_zero]; simp

theorem RunInv.end_mem_iff {lb le : Lab} {hist : List Lab} {r : Run} (h : RunInv lb le hist r) :
    le ∈ hist ↔ r = .done := by
  rw [h.done_iff, ← List.one_le_count_iff]
  have := h.end_le
  omega

theorem RunInv.count_begin_of_ne {lb le : Lab} {hist : List Lab} {r : Run} (h : RunInv lb le hist r)
    (hr : r ≠ .notBegun) : hist.count lb = 1 := by
  have := h.begin_le
  have h0 : ¬ hist.count lb = 0 := fun e => hr (h.notBegun_iff.mpr e)
  omega

theorem RunInv.count_of_done {lb le : Lab} {hist : List Lab} {r : Run} (h : RunInv lb le hist r)
    (hr : r = .done) : hist.count lb = 1 ∧ hist.count le = 1 :=
  ⟨h.count_begin_of_ne (by rw [hr]; simp), h.done_iff.mp hr⟩

/-! ### runs: snoc, append, induction peeling the last label -/

theorem exec_snoc {s s' s'' : SSt} {ls : List Lab} {l : Lab} (h : Exec s ls s')
    (hs : step? s' l = some s'') : Exec s (ls ++ [l]) s'' := by
  induction h with
  | nil s => exact .cons _ _ _ _ _ hs (.nil _)
  | cons s s1 s2 l' ls' h1 _ ih => exact .cons _ _ _ _ _ h1 (ih hs)

theorem exec_append {s s' s'' : SSt} {ls ls' : List Lab} (h : Exec s ls s')
    (h' : Exec s' ls' s'') : Exec s (ls ++ ls') s'' := by
  induction h with
  | nil s => exact h'
  | cons s s1 s2 l' ls1 h1 _ ih => exact .cons _ _ _ _ _ h1 (ih h')

/-- Induction over a run from a fixed start state, peeling the LAST label. -/
theorem exec_snoc_induction {s0 : SSt} {motive : List Lab → SSt → Prop}
    (nil : motive [] s0)
    (snoc : ∀ ls s l s', Exec s0 ls s → motive ls s → step? s l = some s' → motive (ls ++ [l]) s')
    {ls : List Lab} {s : SSt} (h : Exec s0 ls s) : motive ls s := by
  suffices H : ∀ {a ls s}, Exec a ls s → ∀ pre, Exec s0 pre a → motive pre a → motive (pre ++ ls) s by
    simpa using H h [] (.nil _) nil
  intro a ls s h
  induction h with
  | nil s => intro pre _ hm; simpa using hm
  | cons a s1 s2 l ls' h1 _ ih =>
    intro pre hpre hm
    have := ih (pre ++ [l]) (exec_snoc hpre h1) (snoc _ _ _ _ hpre hm h1)
    simpa using this

/-- State invariants: true initially and preserved by every step from a reachable state. -/
theorem exec_invariant {s0 : SSt} {P : SSt → Prop} (h0 : P s0)
    (hstep : ∀ ls s l s', Exec s0 ls s → P s → step? s l = some s' → P s')
    {ls : List Lab} {s : SSt} (h : Exec s0 ls s) : P s :=
  exec_snoc_induction (motive := fun _ s => P s) h0 hstep h

theorem accept_ok_iff {s s' : SSt} {ls : List Lab} {n : Nat} :
    accept s ls n = .ok s' ↔ Exec s ls s' := by
  induction ls generalizing s n with
  | nil =>
    simp only [accept]
    constructor
    · intro h; cases h; exact .nil _
    · intro h; cases h; rfl
  | cons l ls ih =>
    simp only [accept]
    constructor
    · intro h
      split at h
      · rename_i s1 hs; exact .cons _ _ _ _ _ hs (ih.mp h)
      · cases h
    · intro h
      cases h with
      | cons _ s1 _ _ _ hs hr => rw [hs]; exact ih.mpr hr

/-! ### the bundled invariant of reachable states -/

/-- What holds in every state reachable from `SSt.init prog to`. -/
structure Inv (prog : List CompSpec) (to : Bool) (s : SSt) : Prop where
  prog_eq : s.prog = prog
  to_eq : s.hasTimeout = to
  nodes_len : s.nodes.length = prog.length
  prep : ∀ i, RunInv (.prepBegin i) (.prepEnd i) s.hist (prepL s.nodes i)
  start : ∀ i, RunInv (.startBegin i) (.startEnd i) s.hist (startL s.nodes i)
  /-- a phase only ever begins when the spec overrides it -/
  prep_spec : ∀ i, prepL s.nodes i ≠ .notBegun → ∃ c acts, prog[i]? = some c ∧ c.prepare = some acts
  start_spec : ∀ i, startL s.nodes i ≠ .notBegun → ∃ c acts, prog[i]? = some c ∧ c.start = some acts
  ctor : s.hist.filterMap constructIdx = List.range s.constructed
  ctor_le : s.constructed ≤ prog.length
  tds : s.reported = false → s.tds = (s.hist.filterMap regTdId).reverse

theorem prepL_init (prog : List CompSpec) (i : Nat) :
    prepL (prog.map fun _ => (⟨.notBegun, .notBegun⟩ : NodeSt)) i = .notBegun := by
  unfold prepL
  split
  · rename_i n hn
    simp only [List.getElem?_map, Option.map_eq_some_iff] at hn
    obtain ⟨_, _, rfl⟩ := hn
    rfl
  · rfl

theorem startL_init (prog : List CompSpec) (i : Nat) :
    startL (prog.map fun _ => (⟨.notBegun, .notBegun⟩ : NodeSt)) i = .notBegun := by
  unfold startL
  split
  · rename_i n hn
    simp only [List.getElem?_map, Option.map_eq_some_iff] at hn
    obtain ⟨_, _, rfl⟩ := hn
    rfl
  · rfl

theorem inv_init (prog : List CompSpec) (to : Bool) : Inv prog to (SSt.init prog to) where
  prog_eq := rfl
  to_eq := rfl
  nodes_len := by simp [SSt.init]
  prep i := by simp only [SSt.init, prepL_init]; exact RunInv.init _ _
  start i := by simp only [SSt.init, startL_init]; exact RunInv.init _ _
  prep_spec i h := by simp [SSt.init, prepL_init] at h
  start_spec i h := by simp [SSt.init, startL_init] at h
  ctor := by simp [SSt.init]
  ctor_le := by simp [SSt.init]
  tds _ := by simp [SSt.init]

theorem inv_step {prog : List CompSpec} {to : Bool} {s s' : SSt} {l : Lab} (hi : Inv prog to s)
    (h : step? s l = some s') : Inv prog to s' where
  prog_eq := (step?_prog h).trans hi.prog_eq
  to_eq := (step?_hasTimeout h).trans hi.to_eq
  nodes_len := (step?_nodes_length h).trans hi.nodes_len
  prep i := by
    rw [step?_hist h]
    exact (hi.prep i).step (by simp) (step?_runStep h i).1
  start i := by
    rw [step?_hist h]
    exact (hi.start i).step (by simp) (step?_runStep h i).2
  prep_spec i hne := by
    by_cases h0 : prepL s.nodes i = .notBegun
    · rcases (step?_runStep h i).1.of_notBegun h0 with h1 | rfl
      · exact absurd h1 hne
      · obtain ⟨c, n, acts, _, hc, _, ha, _⟩ := step?_prepBegin h
        exact ⟨c, acts, by rw [← hi.prog_eq]; exact hc, ha⟩
    · exact hi.prep_spec i h0
  start_spec i hne := by
    by_cases h0 : startL s.nodes i = .notBegun
    · rcases (step?_runStep h i).2.of_notBegun h0 with h1 | rfl
      · exact absurd h1 hne
      · obtain ⟨c, n, acts, _, hc, _, ha, _⟩ := step?_startBegin h
        exact ⟨c, acts, by rw [← hi.prog_eq]; exact hc, ha⟩
    · exact hi.start_spec i h0
  ctor := by
    rw [step?_hist h, List.filterMap_append]
    rcases step?_constructed h with ⟨h1, h2⟩ | ⟨h1, h2, _⟩
    · simp [h1, h2, hi.ctor]
    · simp [h1, h2, hi.ctor, List.range_succ]
  ctor_le := by
    rcases step?_constructed h with ⟨_, h2⟩ | ⟨_, h2, h3⟩
    · rw [h2]; exact hi.ctor_le
    · rw [h2, ← hi.prog_eq]; exact h3
  tds hr := by
    have hr0 : s.reported = false := by
      cases hs : s.reported with
      | false => rfl
      | true => rw [step?_reported_mono h hs] at hr; cases hr
    rw [step?_tds h hr, step?_hist h, List.filterMap_append, hi.tds hr0]
    cases hreg : regTdId l <;> simp [hreg]

/-- Every state of every run from `SSt.init prog to` satisfies `Inv`. -/
theorem inv_of_exec {prog : List CompSpec} {to : Bool} {ls : List Lab} {s : SSt}
    (h : Exec (SSt.init prog to) ls s) : Inv prog to s :=
  exec_invariant (inv_init prog to) (fun _ _ _ _ _ hi hs => inv_step hi hs) h

/-- The ghost history is the run (from any start state). -/
theorem exec_hist {s0 s : SSt} {ls : List Lab} (h : Exec s0 ls s) : s.hist = s0.hist ++ ls :=
  exec_snoc_induction (motive := fun ls s => s.hist = s0.hist ++ ls) (by simp)
    (fun _ _ _ _ _ ih hs => by rw [step?_hist hs, ih, List.append_assoc]) h

/-! ### `prepFinished`, `startFinished`, `reached`, `subtreeDone`: characterisation, monotonicity -/

theorem prepFinished_iff {s : SSt} {i : Nat} :
    s.prepFinished i = true ↔
      ∃ c, s.prog[i]? = some c ∧ i < s.nodes.length ∧ (c.prepare = none ∨ prepL s.nodes i = .done) := by
  unfold SSt.prepFinished SSt.spec? SSt.node? prepL
  cases hc : s.prog[i]? with
  | none => simp
  | some c =>
    cases hn : s.nodes[i]? with
    | none =>
      have : ¬ i < s.nodes.length := by simpa using hn
      simp [this]
    | some n =>
      have : i < s.nodes.length := (List.getElem?_eq_some_iff.mp hn).1
      simp [this]

theorem startFinished_iff {s : SSt} {i : Nat} :
    s.startFinished i = true ↔
      ∃ c, s.prog[i]? = some c ∧ i < s.nodes.length ∧ (c.start = none ∨ startL s.nodes i = .done) := by
  unfold SSt.startFinished SSt.spec? SSt.node? startL
  cases hc : s.prog[i]? with
  | none => simp
  | some c =>
    cases hn : s.nodes[i]? with
    | none =>
      have : ¬ i < s.nodes.length := by simpa using hn
      simp [this]
    | some n =>
      have : i < s.nodes.length := (List.getElem?_eq_some_iff.mp hn).1
      simp [this]

theorem reached_succ {s : SSt} {f i : Nat} :
    s.reached (f + 1) i = true ↔
      ∃ c, s.prog[i]? = some c ∧
        (c.parent = none ∨ ∃ p, c.parent = some p ∧ s.prepFinished p = true ∧ s.reached f p = true) := by
  rw [SSt.reached]
  unfold SSt.spec?
  cases hc : s.prog[i]? with
  | none => simp
  | some c => cases hp : c.parent <;> simp [hp]

theorem subtreeDone_succ {s : SSt} {f i : Nat} :
    s.subtreeDone (f + 1) i = true ↔
      ∃ c, s.prog[i]? = some c ∧ s.prepFinished i = true ∧
        (∀ ch ∈ c.children, s.subtreeDone f ch = true) ∧ s.startFinished i = true := by
  rw [SSt.subtreeDone]
  unfold SSt.spec?
  cases hc : s.prog[i]? with
  | none => simp
  | some c => simp [List.all_eq_true, and_assoc]

theorem subtreeDone_zero {s : SSt} {i : Nat} : s.subtreeDone 0 i = false := by
  rw [SSt.subtreeDone]

/-- `subtreeDone` with any fuel is genuine information about the node itself. -/
theorem subtreeDone_fin {s : SSt} {f i : Nat} (h : s.subtreeDone f i = true) :
    s.prepFinished i = true ∧ s.startFinished i = true := by
  cases f with
  | zero => rw [subtreeDone_zero] at h; cases h
  | succ f => obtain ⟨c, _, h1, _, h2⟩ := subtreeDone_succ.mp h; exact ⟨h1, h2⟩

/-- `s'` is later than `s`: same program, and the phases that were `done` still are. -/
structure NodesLe (s s' : SSt) : Prop where
  prog_eq : s'.prog = s.prog
  len : s'.nodes.length = s.nodes.length
  prep : ∀ i, prepL s.nodes i = .done → prepL s'.nodes i = .done
  start : ∀ i, startL s.nodes i = .done → startL s'.nodes i = .done

theorem NodesLe.refl (s : SSt) : NodesLe s s := ⟨rfl, rfl, fun _ h => h, fun _ h => h⟩

theorem NodesLe.trans {a b c : SSt} (h1 : NodesLe a b) (h2 : NodesLe b c) : NodesLe a c :=
  ⟨h2.prog_eq.trans h1.prog_eq, h2.len.trans h1.len, fun i h => h2.prep i (h1.prep i h),
    fun i h => h2.start i (h1.start i h)⟩

theorem NodesLe.of_step {s s' : SSt} {l : Lab} (h : step? s l = some s') : NodesLe s s' :=
  ⟨step?_prog h, step?_nodes_length h, fun i hd => (step?_runStep h i).1.done_stable hd,
    fun i hd => (step?_runStep h i).2.done_stable hd⟩

theorem NodesLe.of_exec {s s' : SSt} {ls : List Lab} (h : Exec s ls s') : NodesLe s s' := by
  induction h with
  | nil s => exact .refl s
  | cons s s1 s2 l ls hs _ ih => exact (NodesLe.of_step hs).trans ih

theorem NodesLe.prepFinished {s s' : SSt} (h : NodesLe s s') {i : Nat}
    (hf : s.prepFinished i = true) : s'.prepFinished i = true := by
  rw [prepFinished_iff] at hf ⊢
  obtain ⟨c, hc, hi, hd⟩ := hf
  exact ⟨c, by rw [h.prog_eq]; exact hc, by rw [h.len]; exact hi, hd.imp id (h.prep i)⟩

theorem NodesLe.startFinished {s s' : SSt} (h : NodesLe s s') {i : Nat}
    (hf : s.startFinished i = true) : s'.startFinished i = true := by
  rw [startFinished_iff] at hf ⊢
  obtain ⟨c, hc, hi, hd⟩ := hf
  exact ⟨c, by rw [h.prog_eq]; exact hc, by rw [h.len]; exact hi, hd.imp id (h.start i)⟩

theorem NodesLe.reached {s s' : SSt} (h : NodesLe s s') {f i : Nat}
    (hf : s.reached f i = true) : s'.reached f i = true := by
  induction f generalizing i with
  | zero => rw [SSt.reached] at hf; cases hf
  | succ f ih =>
    rw [reached_succ] at hf ⊢
    obtain ⟨c, hc, hp⟩ := hf
    refine ⟨c, by rw [h.prog_eq]; exact hc, ?_⟩
    rcases hp with hp | ⟨p, hp, h1, h2⟩
    · exact .inl hp
    · exact .inr ⟨p, hp, h.prepFinished h1, ih h2⟩

theorem NodesLe.subtreeDone {s s' : SSt} (h : NodesLe s s') {f i : Nat}
    (hf : s.subtreeDone f i = true) : s'.subtreeDone f i = true := by
  induction f generalizing i with
  | zero => rw [subtreeDone_zero] at hf; cases hf
  | succ f ih =>
    rw [subtreeDone_succ] at hf ⊢
    obtain ⟨c, hc, h1, h2, h3⟩ := hf
    exact ⟨c, by rw [h.prog_eq]; exact hc, h.prepFinished h1, fun ch hch => ih (h2 ch hch),
      h.startFinished h3⟩

/-! ### the component tree -/

/-- If all children of `a` have finished their subtrees then so has every descendant of `a`. -/
theorem subtreeDone_desc {s : SSt} {prog : List CompSpec} (hp : s.prog = prog) {d a : Nat}
    (h : Desc prog d a) :
    ∀ (f : Nat) (c : CompSpec), prog[a]? = some c →
      (∀ ch ∈ c.children, s.subtreeDone f ch = true) → ∃ f', s.subtreeDone f' d = true := by
  induction h with
  | child a d c' hc' hmem =>
    intro f c hc hall
    rw [hc'] at hc
    cases hc
    exact ⟨f, hall d hmem⟩
  | trans a m d _ _ ih1 ih2 =>
    intro f c hc hall
    obtain ⟨f', hm⟩ := ih1 f c hc hall
    cases f' with
    | zero => rw [subtreeDone_zero] at hm; cases hm
    | succ f0 =>
      obtain ⟨cm, hcm, _, hall', _⟩ := subtreeDone_succ.mp hm
      exact ih2 f0 cm (by rw [← hp]; exact hcm) hall'

/-- A finished subtree contains only finished descendants. -/
theorem subtreeDone_desc_self {s : SSt} {prog : List CompSpec} (hp : s.prog = prog) {d a f : Nat}
    (h : Desc prog d a) (ha : s.subtreeDone f a = true) : ∃ f', s.subtreeDone f' d = true := by
  cases f with
  | zero => rw [subtreeDone_zero] at ha; cases ha
  | succ f0 =>
    obtain ⟨c, hc, _, hall, _⟩ := subtreeDone_succ.mp ha
    exact subtreeDone_desc hp h f0 c (by rw [← hp]; exact hc) hall

/-- Unfolding of `wfProg` at one index. -/
theorem wf_node {prog : List CompSpec} (hwf : wfProg prog = true) {i : Nat} (hi : i < prog.length) :
    ∃ c, prog[i]? = some c ∧
      (i = 0 → c.parent = none) ∧
      (i ≠ 0 → ∃ p pc, c.parent = some p ∧ p < i ∧ prog[p]? = some pc ∧ i ∈ pc.children) ∧
      (∀ ch ∈ c.children, i < ch ∧ ch < prog.length ∧ ∃ cc, prog[ch]? = some cc ∧ cc.parent = some i) ∧
      c.children.eraseDups.length = c.children.length := by
  unfold wfProg at hwf
  simp only [Bool.and_eq_true, decide_eq_true_eq, List.all_eq_true, List.mem_range] at hwf
  have hn := hwf.2 i hi
  cases hc : prog[i]? with
  | none => rw [hc] at hn; cases hn
  | some c =>
    rw [hc] at hn
    simp only [Bool.and_eq_true, decide_eq_true_eq, List.all_eq_true] at hn
    obtain ⟨⟨hpar, hch⟩, hnd⟩ := hn
    refine ⟨c, rfl, ?_, ?_, ?_, hnd⟩
    · intro h0
      simpa [h0] using hpar
    · intro h0
      simp only [h0, if_false] at hpar
      cases hp : c.parent with
      | none => rw [hp] at hpar; cases hpar
      | some p =>
        rw [hp] at hpar
        simp only [Bool.and_eq_true, decide_eq_true_eq] at hpar
        obtain ⟨hlt, hmem⟩ := hpar
        cases hpc : prog[p]? with
        | none => rw [hpc] at hmem; cases hmem
        | some pc =>
          rw [hpc] at hmem
          exact ⟨p, pc, rfl, hlt, hpc, by simpa using hmem⟩
    · intro ch hmem
      obtain ⟨⟨h1, h2⟩, h3⟩ := hch ch hmem
      refine ⟨h1, h2, ?_⟩
      cases hcc : prog[ch]? with
      | none => rw [hcc] at h3; cases h3
      | some cc => rw [hcc] at h3; exact ⟨cc, rfl, by simpa using h3⟩

theorem wf_pos {prog : List CompSpec} (hwf : wfProg prog = true) : 0 < prog.length := by
  unfold wfProg at hwf
  simp only [Bool.and_eq_true, decide_eq_true_eq] at hwf
  exact hwf.1

/-- In a well-formed program every component other than the root is a descendant of the root. -/
theorem wf_desc_root {prog : List CompSpec} (hwf : wfProg prog = true) {i : Nat}
    (hi : i < prog.length) : i = 0 ∨ Desc prog i 0 := by
  induction i using Nat.strongRecOn with
  | ind i ih =>
    by_cases h0 : i = 0
    · exact .inl h0
    · right
      obtain ⟨c, hc, _, hpar, _, _⟩ := wf_node hwf hi
      obtain ⟨p, pc, hp, hlt, hpc, hmem⟩ := hpar h0
      have hd : Desc prog i p := .child p i pc hpc hmem
      rcases ih p hlt (by omega) with rfl | hp0
      · exact hd
      · exact .trans 0 p i hp0 hd

/-! ### facts along whole runs -/

theorem step?_res_stable {s s' : SSt} {l : Lab} {k : Key} {v : Val} (h : step? s l = some s')
    (hk : alookup k s.res = some v) : alookup k s'.res = some v := by
  obtain ⟨ext, he⟩ := step?_res h
  rw [he, alookup_append, hk]
  rfl

theorem step?_fac_stable {s s' : SSt} {l : Lab} {k : Key} {fid : Nat} (h : step? s l = some s')
    (hk : alookup k s.fac = some fid) : alookup k s'.fac = some fid := by
  obtain ⟨ext, he⟩ := step?_fac h
  rw [he, alookup_append, hk]
  rfl

/-- A published resource stays, with the same value, for the rest of the run. -/
theorem exec_res_stable {s s' : SSt} {ls : List Lab} {k : Key} {v : Val} (h : Exec s ls s')
    (hk : alookup k s.res = some v) : alookup k s'.res = some v := by
  induction h with
  | nil s => exact hk
  | cons s s1 s2 l ls hs _ ih => exact ih (step?_res_stable hs hk)

theorem exec_result_stable {s s' : SSt} {ls : List Lab} {r : StartResult} (h : Exec s ls s')
    (hr : s.result = some r) : s'.result = some r := by
  induction h with
  | nil s => exact hr
  | cons s s1 s2 l ls hs _ ih => exact ih (step?_result_stable hs hr)

theorem exec_reported_mono {s s' : SSt} {ls : List Lab} (h : Exec s ls s')
    (hr : s.reported = true) : s'.reported = true := by
  induction h with
  | nil s => exact hr
  | cons s s1 s2 l ls hs _ ih => exact ih (step?_reported_mono hs hr)

/-- A phase that the spec does not override never leaves `notBegun`. -/
theorem Inv.prep_notBegun_of_none {prog : List CompSpec} {to : Bool} {s : SSt} (hi : Inv prog to s)
    {i : Nat} {c : CompSpec} (hc : prog[i]? = some c) (hn : c.prepare = none) :
    prepL s.nodes i = .notBegun := by
  apply Classical.byContradiction
  intro hne
  obtain ⟨c', acts, hc', ha⟩ := hi.prep_spec i hne
  rw [hc] at hc'
  cases hc'
  rw [hn] at ha
  cases ha

theorem Inv.start_notBegun_of_none {prog : List CompSpec} {to : Bool} {s : SSt} (hi : Inv prog to s)
    {i : Nat} {c : CompSpec} (hc : prog[i]? = some c) (hn : c.start = none) :
    startL s.nodes i = .notBegun := by
  apply Classical.byContradiction
  intro hne
  obtain ⟨c', acts, hc', ha⟩ := hi.start_spec i hne
  rw [hc] at hc'
  cases hc'
  rw [hn] at ha
  cases ha

/-- `prepFinished` in a reachable state, in terms of the history. -/
theorem Inv.prepFinished_iff {prog : List CompSpec} {to : Bool} {s : SSt} (hi : Inv prog to s)
    {i : Nat} {c : CompSpec} (hc : prog[i]? = some c) :
    s.prepFinished i = true ↔ (c.prepare = none ∨ Lab.prepEnd i ∈ s.hist) := by
  have hlt : i < s.nodes.length := by rw [hi.nodes_len]; exact (List.getElem?_eq_some_iff.mp hc).1
  rw [St.prepFinished_iff, (hi.prep i).end_mem_iff, hi.prog_eq]
  constructor
  · rintro ⟨c', hc', _, hd⟩
    rw [hc] at hc'; cases hc'; exact hd
  · intro hd; exact ⟨c, hc, hlt, hd⟩

theorem Inv.startFinished_iff {prog : List CompSpec} {to : Bool} {s : SSt} (hi : Inv prog to s)
    {i : Nat} {c : CompSpec} (hc : prog[i]? = some c) :
    s.startFinished i = true ↔ (c.start = none ∨ Lab.startEnd i ∈ s.hist) := by
  have hlt : i < s.nodes.length := by rw [hi.nodes_len]; exact (List.getElem?_eq_some_iff.mp hc).1
  rw [St.startFinished_iff, (hi.start i).end_mem_iff, hi.prog_eq]
  constructor
  · rintro ⟨c', hc', _, hd⟩
    rw [hc] at hc'; cases hc'; exact hd
  · intro hd; exact ⟨c, hc, hlt, hd⟩

end St
end Asphalt
