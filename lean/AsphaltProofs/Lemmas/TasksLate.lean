/- Helper lemmas about service tasks started while the owner is being torn down (`Setup.late`). -/
import AsphaltModel.Tasks
import AsphaltProofs.Lemmas.Assoc
import AsphaltProofs.Lemmas.Tasks

namespace Asphalt
namespace Tk

set_option linter.unusedSimpArgs false

/-! ### Steps -/

/-- An accepted `cbRun id` (normal mode) finds callback `id` on top of the stack, whether or not the
callback starts a late task. -/
theorem core_cbRun_stack (s s1 : TSt) (id : Nat) (h : Core s (.cbRun id) s1) :
    s.exiting = true ∧ s.waitingFor = none ∧ ∃ r rest, s.stack = .cb id r :: rest := by
  cases h with
  | cbRun _ r rest ex hexi hw hstk _ => exact ⟨hexi, hw, r, rest, hstk⟩
  | cbRunLate _ r rest ex tid hexi hw hstk _ _ => exact ⟨hexi, hw, r, rest, hstk⟩

theorem normalize_status_some (n : Nat) (s : TSt) (t : Nat) (h : s.statusOf t ≠ none) :
    (s.normalize n).statusOf t ≠ none :=
  normalize_moves (fun x => x.statusOf t ≠ none) (fun a b ha hm => Mv.status_some a b hm t ha) n s h

/-- A step other than a task ending with an exception keeps a crash-free state crash-free. -/
theorem tstep_crashed_keep (s s' : TSt) (l : TLab) (h : tstep? s l = some s') (hcr : s.crashed = [])
    (hl : ∀ tid e, l ≠ .taskEnded tid (some e)) : s'.crashed = [] := by
  obtain ⟨s1, n, hcore, rfl⟩ := tstep_core s s' l h hcr hl
  have hP : ∀ a b : TSt, a.crashed = [] → Mv a b → b.crashed = [] :=
    fun a b ha hm => (Mv.frame a b hm).2.2.2.trans ha
  exact normalize_moves (fun x => x.crashed = []) hP n s1
    (core_moves (fun x => x.crashed = []) hP s s1 l hcore hcr)

theorem exec_snoc (a b c : TSt) (ls : List TLab) (l : TLab) (h : TExec a ls b)
    (hs : tstep? b l = some c) : TExec a (ls ++ [l]) c := by
  induction h with
  | nil s => exact TExec.cons s c c l [] hs (TExec.nil c)
  | cons s s' s'' l' ls' hstep _ ih => exact TExec.cons s s' c l' (ls' ++ [l]) hstep (ih hs)

/-- Running the callback of a late task: afterwards the task exists. -/
theorem cbRun_late_status (s s' : TSt) (cb tid : Nat) (hstep : tstep? s (.cbRun cb) = some s')
    (hcr : s.crashed = []) (hla : alookup cb s.lates = some tid) : s'.statusOf tid ≠ none := by
  obtain ⟨s1, n, hcore, rfl⟩ := tstep_core s s' _ hstep hcr (by intros; simp)
  apply normalize_status_some
  cases hcore with
  | cbRun _ r rest ex hexi hw hstk hcase =>
    rcases hcase with hn | ⟨t, st, ht, hst⟩
    · rw [hn] at hla; exact absurd hla (by simp)
    · rw [ht] at hla
      have : t = tid := Option.some.inj hla
      subst this
      show s.statusOf t ≠ none
      rw [hst]; simp
  | cbRunLate _ r rest ex t hexi hw hstk ht hst =>
    rw [ht] at hla
    have : t = tid := Option.some.inj hla
    subst this
    show (s.setStatus t .running).statusOf t ≠ none
    rw [statusOf_setStatus]; simp

/-! ### Reachable states, in terms of the set-up program -/

/-- The stack of a reachable crash-free state: a suffix of the stack the set-up program left, with
at most one finalizer on top of it, that of a late task whose callback has run. -/
theorem reach_shape (prog : List Setup) (h1 : (prog.filterMap allTidOf).Nodup)
    (h2 : (prog.filterMap cbIdOf).Nodup) (ls : List TLab) (s : TSt)
    (h : TExec (TSt.init prog) ls s) (hc : s.crashed = []) :
    ∃ popped lateFins rest, popped ++ rest = (TSt.init prog).stack ∧ s.stack = lateFins ++ rest ∧
      lateFins.length ≤ 1 ∧
      ∀ i, i ∈ lateFins → ∃ cb sp, Setup.late cb sp ∈ prog ∧ i = .fin sp.tid ∧
        TLab.cbRun cb ∈ s.hist := by
  obtain ⟨p, rest, hp, hs | ⟨cb, tid, hL, hran, hs⟩⟩ := (reach_inv2 prog h1 h2 ls s h hc).suffix
  · exact ⟨p, [], rest, hp, hs, by simp, by simp⟩
  · rw [init_lates] at hL
    obtain ⟨sp, hsp, htid⟩ := (mem_lates prog cb tid).mp hL
    refine ⟨p, [.fin tid], rest, hp, hs, by simp, ?_⟩
    intro i hi
    have hi' : i = .fin tid := by simpa using hi
    exact ⟨cb, sp, hsp, by rw [hi', htid], hran⟩

/-- A late task that exists has been started by its callback. -/
theorem reach_late_ran (prog : List Setup) (h1 : (prog.filterMap allTidOf).Nodup)
    (h2 : (prog.filterMap cbIdOf).Nodup) (ls : List TLab) (s : TSt)
    (h : TExec (TSt.init prog) ls s) (hc : s.crashed = []) (tid : Nat) (hst : s.statusOf tid ≠ none)
    (hl : ∃ cb, (cb, tid) ∈ s.lates) :
    ∃ cb sp, Setup.late cb sp ∈ prog ∧ sp.tid = tid ∧ TLab.cbRun cb ∈ s.hist := by
  have hinv2 := reach_inv2 prog h1 h2 ls s h hc
  obtain ⟨cb, hl⟩ := hl
  rw [hinv2.lates_eq] at hl
  have hran := hinv2.late_ran cb tid hl hst
  rw [init_lates] at hl
  obtain ⟨sp, hsp, htid⟩ := (mem_lates prog cb tid).mp hl
  exact ⟨cb, sp, hsp, htid, hran⟩

/-! ### Snapshots -/

theorem mem_allTid_late (prog : List Setup) (cb : Nat) (sp : TaskSpec) (h : Setup.late cb sp ∈ prog) :
    sp.tid ∈ prog.filterMap allTidOf :=
  List.mem_filterMap.mpr ⟨_, h, rfl⟩

/-- A late task's context snapshots everything the set-up program adds to the owner. -/
theorem snapshots_late (prog : List Setup) (h1 : (prog.filterMap allTidOf).Nodup) (cb : Nat)
    (sp : TaskSpec) (h : Setup.late cb sp ∈ prog) (seen : List Nat) :
    alookup sp.tid (snapshots prog seen) = some (seen ++ resOf prog) := by
  induction prog generalizing seen with
  | nil => simp at h
  | cons x rest ih =>
    cases x with
    | reg id r =>
      simp only [List.filterMap_cons, allTidOf] at h1
      have h' : Setup.late cb sp ∈ rest := by simpa using h
      exact ih h1 h' seen
    | res v =>
      simp only [List.filterMap_cons, allTidOf] at h1
      have h' : Setup.late cb sp ∈ rest := by simpa using h
      show alookup sp.tid (snapshots rest (seen ++ [v])) = some (seen ++ v :: resOf rest)
      rw [ih h1 h' (seen ++ [v])]
      simp
    | start sp' =>
      simp only [List.filterMap_cons, allTidOf, List.nodup_cons] at h1
      have h' : Setup.late cb sp ∈ rest := by simpa using h
      have hne : ¬ sp'.tid = sp.tid := fun he => h1.1 (he ▸ mem_allTid_late rest cb sp h')
      show alookup sp.tid ((sp'.tid, seen) :: snapshots rest seen) = some (seen ++ resOf rest)
      rw [alookup_cons]
      simp only [hne, if_false]
      exact ih h1.2 h' seen
    | late cb' sp' =>
      simp only [List.filterMap_cons, allTidOf, List.nodup_cons] at h1
      show alookup sp.tid ((sp'.tid, seen ++ resOf rest) :: snapshots rest seen) =
        some (seen ++ resOf rest)
      rw [alookup_cons]
      rcases List.mem_cons.mp h with h' | h'
      · have : sp = sp' := by injection h'
        subst this
        simp
      · have hne : ¬ sp'.tid = sp.tid := fun he => h1.1 (he ▸ mem_allTid_late rest cb sp h')
        simp only [hne, if_false]
        exact ih h1.2 h' seen

end Tk
end Asphalt
