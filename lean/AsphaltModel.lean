import AsphaltModel.Basic
import AsphaltModel.Config
