import AsphaltModel.Basic
import AsphaltModel.Config
import AsphaltModel.Context
import AsphaltModel.Signal
import AsphaltModel.Startup
import AsphaltModel.Waiter
import AsphaltModel.Tasks
import AsphaltModel.Factory
