/- JSON glue for the signal model (outside the theorems). -/
import Lean.Data.Json
import AsphaltModel
import DriverLib.Ctx

open Lean Asphalt

namespace Drv

def filterOfJson (j : Json) : Except String Filter := do
  match ← jstr j "k" with
  | "all" => pure .all
  | "seqMod" => pure (.seqMod (← jnat j "m") (← jnat j "r"))
  | "clsIs" => pure (.clsIs (← jnat j "c"))
  | "clsNot" => pure (.clsNot (← jnat j "c"))
  | "chanIs" => pure (.chanIs (← jnat j "c"))
  | "none" => pure .none_
  | k => throw s!"bad filter {k}"

/-- One harness operation may stand for several model operations (`wait` = subscribe + pull). -/
def sopsOfJson (j : Json) : Except String (List SOp) := do
  match ← jstr j "op" with
  | "access" => pure [.access (← jnat j "inst") (← jstr j "attr") (← jnat j "evcls")]
  | "accessClass" => pure [.accessClass]
  | "subscribe" =>
    pure [.subscribe (← jnat j "s") (← jnats j "chans") (← filterOfJson (← j.getObjVal? "filter"))
            (← jnat j "cap") false (jboolD j "unbound" false)]
  | "wait" =>
    let s ← jnat j "s"
    if jboolD j "unbound" false then
      pure [.subscribe s (← jnats j "chans") (← filterOfJson (← j.getObjVal? "filter")) 50 true true]
    else
      pure [.subscribe s (← jnats j "chans") (← filterOfJson (← j.getObjVal? "filter")) 50 true false, .pull s]
  | "dispatch" => pure [.dispatch (joptNat j "chan") (← jnat j "cls") (jnatD j "n" 1)]
  | "pull" => pure [.pull (← jnat j "s")]
  | "leave" => pure [.leave (← jnat j "s")]
  | o => throw s!"bad signal op {o}"

def soutStr : SOut → String
  | .chan c => s!"chan {c}"
  | .ok => "ok"
  | .unbound => "unbound"
  | .typeError => "typeError"
  | .got s e => s!"got {s} {e.seq}"
  | .blocked s => s!"blocked {s}"
  | .warn _ => "warn"
  | .left s => s!"left {s}"
  | .badOp => "badOp"

def isHead (s : String) : Bool :=
  s == "ok" || s == "unbound" || s == "typeError" || s == "badOp" || s.startsWith "chan " || s == "warn"

/-- Head outputs (result, warnings) keep their order; what consumers report is sorted. -/
def canonSig (ss : List String) : List String :=
  ss.filter isHead ++ ((ss.filter (fun s => !isHead s)).toArray.qsort (· < ·)).toList

def runSig (j : Json) : Except String Json := do
  let parents ← (← jarr j "evparents").mapM fun p => do
    let a ← p.getArr?
    pure ((← a[0]!.getNat?), (← a[1]!.getNat?))
  let groups ← (← jarr j "ops").mapM sopsOfJson
  let mut w := SigWorld.empty parents
  let mut outs : Array Json := #[]
  for g in groups do
    let mut acc : List String := []
    for op in g do
      let (w', o) := sstep w op
      w := w'
      -- the `ok` of the subscribe half of a `wait` is not observable separately
      acc := acc ++ o.map soutStr
    let acc2 := if g.length > 1 then acc.filter (· != "ok") else acc
    outs := outs.push (toJson (canonSig acc2))
  let streams := w.streams.map fun st => Json.mkObj [
    ("id", toJson st.id), ("delivered", toJson (st.delivered.map (·.seq))),
    ("lost", toJson (st.lost.map (·.seq))), ("offered", toJson (st.offered.map (·.seq)))]
  pure (Json.mkObj [("out", .arr outs), ("warnings", toJson w.warnings), ("streams", .arr streams.toArray)])

end Drv
