/- JSON glue for the start-up LTS (outside the theorems). -/
import Lean.Data.Json
import AsphaltModel
import DriverLib.Ctx

open Lean Asphalt

namespace Drv

def actOfJson (j : Json) : Except String Act := do
  match ← jstr j "a" with
  | "publish" => pure (.publish (← jnat j "ty") (← jstr j "name") (← jnat j "v"))
  | "publishFactory" => pure (.publishFactory (← jnat j "ty") (← jstr j "name") (← jnat j "fid"))
  | "await" => pure (.await (← jnat j "ty") (← jstr j "name"))
  | "awaitOpt" => pure (.awaitOpt (← jnat j "ty") (← jstr j "name"))
  | "tick" => pure (.tick (← jnat j "d"))
  | "regTd" => pure (.regTd (← jnat j "id"))
  | "fail" => pure (.fail (← jnat j "e"))
  | a => throw s!"bad act {a}"

def actsOpt (j : Json) (k : String) : Except String (Option (List Act)) :=
  match jopt j k with
  | none => pure none
  | some v => do pure (some (← (← v.getArr?).toList.mapM actOfJson))

def specOfJson (j : Json) : Except String CompSpec := do
  pure { path := ← jstr j "path", parent := joptNat j "parent", cls := ← jnat j "cls",
         ctorFails := jboolD j "ctorFails" false, dflt := ← jstr j "dflt",
         prepare := ← actsOpt j "prepare", start := ← actsOpt j "start", children := ← jnats j "children" }

def phaseOfStr : String → StartPhase
  | "creating" => .creating | "preparing" => .preparing | _ => .starting

def errOfJson (j : Json) : Except String StartErr := do
  match ← jstr j "k" with
  | "timeout" => pure .timeout
  | _ => pure (.componentStart (phaseOfStr (← jstr j "phase")) (← jnat j "i") (← jnat j "cls") (← jnat j "cause"))

def valOfStr (s : String) : Val :=
  if s.startsWith "g" then .gen 0 ((s.drop 1).toString.toNat!) 0 else .static ((s.drop 1).toString.toNat!)

def labOfJson (j : Json) : Except String Lab := do
  let a ← j.getArr?
  let tag ← a[0]!.getStr?
  let nat (i : Nat) : Except String Nat := a[i]!.getNat?
  let str (i : Nat) : Except String String := a[i]!.getStr?
  match tag with
  | "construct" => pure (.construct (← nat 1))
  | "ctorFailed" => pure (.ctorFailed (← nat 1))
  | "prepBegin" => pure (.prepBegin (← nat 1))
  | "prepEnd" => pure (.prepEnd (← nat 1))
  | "startBegin" => pure (.startBegin (← nat 1))
  | "startEnd" => pure (.startEnd (← nat 1))
  | "pub" => pure (.pub (← nat 1) (← nat 2) (← str 3) (← nat 4))
  | "pubFac" => pure (.pubFac (← nat 1) (← nat 2) (← str 3) (← nat 4))
  | "req" => pure (.req (← nat 1) ⟨← nat 2, ← str 3⟩)
  | "got" => pure (.got (← nat 1) ⟨← nat 2, ← str 3⟩ (valOfStr (← str 4)))
  | "gotOpt" =>
    let v := match a[4]! with | .str s => some (valOfStr s) | _ => none
    pure (.gotOpt (← nat 1) ⟨← nat 2, ← str 3⟩ v)
  | "tick" => pure (.tick (← nat 1))
  | "regTd" => pure (.regTd (← nat 1) (← nat 2))
  | "failed" => pure (.failed (← nat 1) (← nat 2))
  | "cancelSeen" => pure (.cancelSeen (← nat 1))
  | "timeoutFired" => pure .timeoutFired
  | "returned" => pure .returned
  | "raised" => pure (.raised (← errOfJson a[1]!))
  | "tdRun" => pure (.tdRun (← nat 1))
  | "instantOver" => pure .instantOver
  | t => throw s!"bad label {t}"

def startValStr : Val → String
  | .static v => s!"s{v}"
  | .gen _ f _ => s!"g{f}"

def resultJson : Option StartResult → Json
  | none => .null
  | some .returned => Json.mkObj [("k", "returned")]
  | some (.raised .timeout) => Json.mkObj [("k", "timeout")]
  | some (.raised (.componentStart ph i cls cause)) =>
    Json.mkObj [("k", "cse"), ("phase", .str (match ph with | .creating => "creating" | .preparing => "preparing" | .starting => "starting")),
                ("i", toJson i), ("cls", toJson cls), ("cause", toJson cause)]

def runStartup (j : Json) : Except String Json := do
  let prog ← (← jarr j "prog").mapM specOfJson
  let trace ← (← jarr j "trace").mapM labOfJson
  if !wfProg prog then throw "startup program is not a well-formed flattened tree"
  let s0 := SSt.init prog (jboolD j "timeout" true)
  match accept s0 trace 0 with
  | .error (n, _) =>
    pure (Json.mkObj [("accepted", .bool false), ("at", toJson n)])
  | .ok s =>
    pure (Json.mkObj [("accepted", .bool true), ("result", resultJson s.result), ("reported", .bool s.reported),
      ("res", .arr (s.res.map fun (k, v) => Json.arr #[toJson k.ty, .str k.name, .str (startValStr v)]).toArray),
      ("fac", .arr (s.fac.map fun (k, f) => Json.arr #[toJson k.ty, .str k.name, toJson f]).toArray),
      ("tds", toJson s.tds),
      ("running", toJson ((List.range prog.length).filter fun i => (s.current i).isSome))])

end Drv
