/- JSON glue for the task-factory LTS (outside the theorems). -/
import Lean.Data.Json
import AsphaltModel
import DriverLib.Ctx

open Lean Asphalt

namespace Drv

def bgSpecOfJson (j : Json) : Except String BgSpec := do
  let b ← j.getObjVal? "beh"
  let beh := match joptNat j "startFails" with
    | some e => BgBeh.failsBeforeStarted e
    | none => match jopt b "ends" with
    | some d => BgBeh.endsAfter (d.getNat?.toOption.getD 0) (joptNat b "exc")
    | none => match joptNat b "excOnCancel" with
      | some e => BgBeh.failsWhenCancelled e
      | none => BgBeh.forever
  pure ⟨← jnat j "h", beh⟩

def flabOfJson (j : Json) : Except String FLab := do
  let a ← j.getArr?
  let tag ← a[0]!.getStr?
  let nat (i : Nat) : Except String Nat := a[i]!.getNat?
  let nats (i : Nat) : Except String (List Nat) := do (← a[i]!.getArr?).toList.mapM fun x => x.getNat?
  match tag with
  | "spawn" => pure (.spawn (← nat 1))
  | "taskBegan" => pure (.taskBegan (← nat 1) (← a[2]!.getBool?) (← nats 3))
  | "cancelReq" => pure (.cancelReq (← nat 1))
  | "cancelSeen" => pure (.cancelSeen (← nat 1))
  | "taskEnded" => pure (.taskEnded (← nat 1) (a[2]!.getNat?.toOption))
  | "handlerCalled" => pure (.handlerCalled (← nat 1) (← nat 2))
  | "observed" => pure (.observed (← nats 1))
  | "waitReturned" => pure (.waitReturned (← nat 1))
  | "exitBegin" => pure .exitBegin
  | "blockLeft" => pure .blockLeft
  | "outcome" => pure (.outcome (← nats 1))
  | "startFailed" => pure (.startFailed (← nat 1))
  | t => throw s!"bad factory label {t}"

def runFactory (j : Json) : Except String Json := do
  let specs ← (← jarr j "specs").mapM bgSpecOfJson
  let handler := match jopt j "handler" with
    | some (.bool b) => Handler.returns b
    | _ => Handler.absent
  let snap ← jnats j "snap"
  let trace ← (← jarr j "trace").mapM flabOfJson
  match faccept (FSt.init specs handler snap) trace 0 with
  | .error (n, _) => pure (Json.mkObj [("accepted", .bool false), ("at", toJson n)])
  | .ok s =>
    pure (Json.mkObj [("accepted", .bool true), ("reported", .bool s.reported), ("live", toJson s.live),
                      ("crashed", toJson s.crashed), ("handlerCalls", toJson s.handlerCalls)])

end Drv
