/- JSON glue for the Context kernel (outside the theorems; see DESIGN.md section 7). -/
import Lean.Data.Json
import AsphaltModel

open Lean Asphalt

namespace Drv

def jstr (j : Json) (k : String) : Except String String := do (← j.getObjVal? k).getStr?
def jnat (j : Json) (k : String) : Except String Nat := do (← j.getObjVal? k).getNat?
def jbool (j : Json) (k : String) : Except String Bool := do (← j.getObjVal? k).getBool?
def jboolD (j : Json) (k : String) (d : Bool) : Bool := (jbool j k).toOption.getD d
def jnatD (j : Json) (k : String) (d : Nat) : Nat := (jnat j k).toOption.getD d
def jarr (j : Json) (k : String) : Except String (List Json) := do pure (← (← j.getObjVal? k).getArr?).toList
def jnats (j : Json) (k : String) : Except String (List Nat) := do (← jarr j k).mapM fun x => x.getNat?
def joptStr (j : Json) (k : String) : Option String :=
  match j.getObjVal? k with | .ok (.str s) => some s | _ => none
def joptNat (j : Json) (k : String) : Option Nat :=
  match j.getObjVal? k with
  | .ok v => v.getNat?.toOption
  | _ => none
def jopt (j : Json) (k : String) : Option Json :=
  match j.getObjVal? k with | .ok .null => none | .ok v => some v | _ => none

def excOfJson (j : Json) : Except String Exc := do
  let k ← jstr j "k"
  match k with
  | "exn" => pure (.exn (← jnat j "n"))
  | "base" => pure (.base (← jnat j "n"))
  | "cancelled" => pure .cancelled
  | _ => throw s!"bad exc {k}"

def blockEndOfJson (j : Json) : Except String BlockEnd := do
  let k ← jstr j "k"
  if k == "ret" then pure .ret else do pure (.raised (← excOfJson j))

def bodyOpOfJson (j : Json) : Except String BodyOp := do
  match ← jstr j "op" with
  | "add" => pure (.add (← jnats j "types") (← jstr j "name") (← jnat j "v"))
  | "addf" => pure (.addFactory (← jnats j "types") (← jstr j "name") (← jnat j "fid"))
  | "getnw" => pure (.getNowait (← jnat j "ty") (← jstr j "name") (← jbool j "opt"))
  | "get" => pure (.get (← jnat j "ty") (← jstr j "name") (← jbool j "opt"))
  | "current" => pure .current
  | o => throw s!"bad body op {o}"

partial def cbOfJson (j : Json) : Except String Cb := do
  let regs ← (← jarr j "regs").mapM cbOfJson
  let body ← (← jarr j "body").mapM bodyOpOfJson
  let raises ← match jopt j "raises" with
    | none => pure none
    | some e => do pure (some (← excOfJson e))
  pure (.mk (← jnat j "id") (← jbool j "pass") (← jbool j "async") body regs raises)

def opOfJson (j : Json) : Except String Op := do
  let t := jnatD j "t" 0
  match ← jstr j "op" with
  | "new" => pure (.new t (← jnat j "c") (joptNat j "parent"))
  | "enter" => pure (.enter t (← jnat j "c"))
  | "exit" =>
    match joptNat j "cancelAt" with
    | none => pure (.exit t (← jnat j "c") (← blockEndOfJson (← j.getObjVal? "end")))
    | some k => pure (.exitMid t (← jnat j "c") (← blockEndOfJson (← j.getObjVal? "end")) k)
  | "add" =>
    let td ← match jopt j "td" with
      | none => pure none
      | some c => do pure (some (← cbOfJson c))
    pure (.add (← jnat j "c") {
      types := ← jnats j "types", valType := jnatD j "vt" 0, name := ← jstr j "name",
      val := joptNat j "val", desc := joptStr j "desc", badType := jboolD j "badType" false,
      td := td, tdNotCallable := jboolD j "tdBad" false })
  | "addf" =>
    pure (.addFactory (← jnat j "c") {
      types := ← jnats j "types", name := ← jstr j "name", fid := ← jnat j "fid",
      desc := joptStr j "desc", isAsync := jboolD j "async" false, gated := jboolD j "gated" false,
      failFirst := jnatD j "failFirst" 0, noneInTypes := jboolD j "noneIn" false })
  | "getnw" => pure (.getNowait (← jnat j "c") ⟨← jnat j "ty", ← jstr j "name"⟩ (← jbool j "opt"))
  | "get" => pure (.get t (← jnat j "c") ⟨← jnat j "ty", ← jstr j "name"⟩ (← jbool j "opt"))
  | "finish" => pure (.genFinish (← jnat j "c") (← jnat j "fid") (joptNat j "next"))
  | "cancelget" => pure (.cancelGet (← jnat j "c") (← jnat j "lid") (joptNat j "next"))
  | "getall" => pure (.getAll (← jnat j "c") (← jnat j "ty"))
  | "addtd" => pure (.addTeardown (← jnat j "c") (← cbOfJson (← j.getObjVal? "cb")) (jboolD j "callable" true))
  | "current" => pure (.current t)
  | "parent" => pure (.parentOf (← jnat j "c"))
  | "spawn" => pure (.spawn t (← jnat j "t2"))
  | "state" => pure (.stateOf (← jnat j "c"))
  | "inject" =>
    let deps ← (← jarr j "deps").mapM fun d => do
      pure ({ param := ← jstr d "param", key := ⟨← jnat d "ty", ← jstr d "name"⟩,
              optional := ← jbool d "opt" } : Dep)
    pure (.inject t (← jbool j "async") deps (jboolD j "badUnion" false))
  | "decorate" =>
    let ps ← (← jarr j "params").mapM fun d => do
      let kind := match (jstr d "kind").toOption.getD "normal" with
        | "posonly" => PKind.posOnly | "kwonly" => PKind.kwOnly | _ => PKind.normal
      let dflt := match (jstr d "dflt").toOption.getD "none" with
        | "value" => PDefault.value | "uncalled" => PDefault.uncalled
        | "marker" => PDefault.marker ((jstr d "mname").toOption.getD "default")
        | _ => PDefault.noDefault
      pure ({ name := ← jstr d "name", kind := kind, dflt := dflt, annotated := (jopt d "annot").isSome } : Param)
    pure (.decorate ps)
  | o => throw s!"bad op {o}"

def valStr : Val → String
  | .static v => s!"s{v}"
  | .gen c f n => s!"g{c}.{f}.{n}"

def excStr : Exc → String
  | .exn n => s!"exn{n}"
  | .base n => s!"base{n}"
  | .cancelled => "cancelled"

def optCtxStr : Option CtxId → String
  | none => "None"
  | some c => toString c

def stateStr : CState → String
  | .inactive => "inactive" | .opened => "open" | .closing => "closing" | .closed => "closed"

def evStr (c : CtxId) (e : REvent) : String :=
  let types := ",".intercalate (e.types.map toString)
  s!"ev {c} [{types}] {e.name} {e.desc.getD "-"} {if e.isFactory then "f" else "r"}"

mutual
/-- Non-event outputs as strings. -/
partial def outStrs : List Out → List String
  | [] => []
  | o :: os => (match outStr o with | some s => [s] | none => []) ++ outStrs os

partial def outStr : Out → Option String
  | .ok => some "ok"
  | .val v => some s!"val {valStr v}"
  | .none => some "none"
  | .conflict => some "conflict"
  | .valueError => some "valueError"
  | .typeError => some "typeError"
  -- which lifecycle state the message names is wording, not behaviour: the class of the error is compared
  | .runtimeError _ => some "runtimeError"
  | .notFound => some "notFound"
  | .asyncError => some "asyncError"
  | .noCurrent => some "noCurrent"
  | .blocked => some "blocked"
  | .badOp => some "badOp"
  | .raisedExc e => some s!"raisedExc {excStr e}"
  | .ev _ _ => none
  | .tdStart id arg =>
    let a := match arg with
      | none => "-"
      | some none => "None"
      | some (some e) => excStr e
    some s!"td+ {id} {a}"
  | .tdEnd id r => some s!"td- {id} {match r with | none => "ok" | some e => excStr e}"
  | .body o =>
    let ss := outStrs o
    if ss.isEmpty then none else some ("body [" ++ ", ".intercalate ss ++ "]")
  | .closed => some "closed"
  | .corruption => some "corruption"
  | .exitNormal => some "exitNormal"
  -- how many cancellation exceptions reach the caller, and in what nesting, is the back-end's
  -- business (trio collapses them, asyncio nests the groups): compared as one token
  | .exitOwn .cancelled _ => some "raised cancelledOnly"
  | .exitOwn e g => some s!"raised [{excStr e}] {if g then "grouped" else "bare"} leafgroups={if g then 1 else 0}"
  | .exitGroup excs =>
    if excs.all (fun e => match e with | .cancelled => true | _ => false) then some "raised cancelledOnly"
    else some s!"raised [{", ".intercalate (excs.map excStr)}] grouped leafgroups=1"
  | .cur c => some s!"cur {optCtxStr c}"
  | .parent c => some s!"parent {optCtxStr c}"
  | .task t o => some s!"task {t} [{", ".intercalate (outStrs o)}]"
  | .all items => some ("all [" ++ ", ".intercalate (items.map fun (n, v) => s!"{n}={valStr v}") ++ "]")
  | .stateIs _ f => some s!"state {if f then "True" else "False"}"
  | .arg p v => some s!"arg {p}={match v with | none => "none" | some v => valStr v}"
  | .called => some "called"
  | .warnNoInject => some "warnNoInject"
end

/-- Events in dispatch order, including those produced inside callback bodies and resumed lookups. -/
partial def outEvents : List Out → List String
  | [] => []
  | .ev c e :: os => evStr c e :: outEvents os
  | .body o :: os => outEvents o ++ outEvents os
  | .task _ o :: os => outEvents o ++ outEvents os
  | _ :: os => outEvents os

def isTaskStr (s : String) : Bool := s.startsWith "task "

/-- `task …` entries are reported sorted (wake-up order of suspended lookups is not compared). -/
def canonRes (ss : List String) : List String :=
  let tasks := (ss.filter isTaskStr).toArray.qsort (· < ·) |>.toList
  ss.filter (fun s => !isTaskStr s) ++ tasks

def runCtx (j : Json) : Except String Json := do
  let ops ← (← jarr j "ops").mapM opOfJson
  let (_, outs) := run World.empty ops
  let items := outs.map fun o =>
    Json.mkObj [("res", toJson (canonRes (outStrs o))), ("ev", toJson (outEvents o))]
  pure (Json.mkObj [("out", .arr items.toArray)])

end Drv
