/- JSON glue for the service-task LTS (outside the theorems). -/
import Lean.Data.Json
import AsphaltModel
import DriverLib.Ctx

open Lean Asphalt

namespace Drv

def setupOfJson (j : Json) : Except String (Option Setup) := do
  match ← jstr j "op" with
  | "reg" => pure (some (.reg (← jnat j "id") (joptNat j "raises")))
  | "res" => pure (some (.res (← jnat j "v")))
  | "tick" => pure none
  | "start" =>
    let action ← match ← j.getObjVal? "action" with
      | .str "cancel" => pure TdAction.cancel
      | .str "none" => pure TdAction.none_
      | a => do pure (TdAction.callable (← jbool a "raises"))
    let b ← j.getObjVal? "beh"
    let beh ← match jopt b "until" with
      | some u => do
        match joptNat b "excOnCancel" with
        | some e => pure (Behaviour.failsWhenCancelled (← u.getNat?) e)
        | none => pure (Behaviour.untilStopped (← u.getNat?))
      | none => do pure (Behaviour.endsAfter (← jnat b "ends") (joptNat b "exc"))
    if jboolD j "late" false then pure (some (.late (← jnat j "cb") ⟨← jnat j "tid", action, beh⟩))
    else pure (some (.start ⟨← jnat j "tid", action, beh⟩))
  | o => throw s!"bad setup op {o}"

def tlabOfJson (j : Json) : Except String TLab := do
  let a ← j.getArr?
  let tag ← a[0]!.getStr?
  let nat (i : Nat) : Except String Nat := a[i]!.getNat?
  match tag with
  | "taskEnded" => pure (.taskEnded (← nat 1) (a[2]!.getNat?.toOption))
  | "taskClosed" => pure (.taskClosed (← nat 1))
  | "exitBegin" => pure .exitBegin
  | "cbRun" => pure (.cbRun (← nat 1))
  | "actionCalled" => pure (.actionCalled (← nat 1))
  | "cancelSeen" => pure (.cancelSeen (← nat 1))
  | "cleanupTick" => pure (.cleanupTick (← nat 1))
  | "blockLeft" => pure .blockLeft
  | "outcome" => pure (.outcome (← (← a[1]!.getArr?).toList.mapM fun x => x.getNat?))
  | "lateStarted" => pure (.lateStarted (← nat 1))
  | "taskSaw" => pure (.taskSaw (← nat 1) (← (← a[2]!.getArr?).toList.mapM fun x => x.getNat?))
  | t => throw s!"bad task label {t}"

def runTasks (j : Json) : Except String Json := do
  let prog := (← (← jarr j "prog").mapM setupOfJson).filterMap id
  let trace ← (← jarr j "trace").mapM tlabOfJson
  match taccept (TSt.init prog) trace 0 with
  | .error (n, _) => pure (Json.mkObj [("accepted", .bool false), ("at", toJson n)])
  | .ok s =>
    pure (Json.mkObj [("accepted", .bool true), ("reported", .bool s.reported), ("left", .bool s.left),
      ("stack", toJson s.stack.length), ("crashed", toJson s.crashed),
      ("open", toJson ((s.status.filter fun (_, st) => !st.isClosed).map (·.1)))])

end Drv
