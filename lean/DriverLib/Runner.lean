/- JSON glue for the runner model (outside the theorems). -/
import Lean.Data.Json
import AsphaltModel
import DriverLib.Ctx

open Lean Asphalt

namespace Drv

def endingOfJson (j : Json) : Except String Ending := do
  match ← jstr j "k" with
  | "cliReturn" =>
    match ← jstr j "r" with
    | "none" => pure (.cliReturn .none_)
    | "other" => pure (.cliReturn .other)
    | _ => do pure (.cliReturn (.int (← (← j.getObjVal? "n").getInt?)))
  | "cliRaise" => pure (.cliRaise (← jnat j "e"))
  | "startupFail" => pure .startupFail
  | "startupTimeout" => pure .startupTimeout
  | "signalDuringStartup" => pure .signalDuringStartup
  | "signalAfterStartup" => pure .signalAfterStartup
  | "crashAfterStartup" => pure (.crashAfterStartup (← jnat j "e"))
  | k => throw s!"bad ending {k}"

def exitJson : Exit → Json
  | .returned => Json.mkObj [("k", "returned")]
  | .systemExit n => Json.mkObj [("k", "systemExit"), ("n", toJson n)]
  | .propagated e => Json.mkObj [("k", "propagated"), ("e", toJson e)]

def runRunner (j : Json) : Except String Json := do
  let regs ← (← jarr j "regs").mapM fun r => do
    let a ← r.getArr?
    let late ← (← a[2]!.getArr?).toList.mapM fun l => do
      let b ← l.getArr?
      pure ((← b[0]!.getNat?), (← b[1]!.getBool?))
    pure (⟨(← a[0]!.getNat?), (← a[1]!.getBool?), late⟩ : RegSpec)
  let ending ← endingOfJson (← j.getObjVal? "ending")
  let (outs, ex) := runApp ⟨regs, ending⟩
  let starts := (outStrs outs).filter (·.startsWith "td+")
  pure (Json.mkObj [("starts", toJson starts), ("exit", exitJson ex)])

end Drv
