/-
JSON-lines driver: reads one case per line on stdin, runs the executable model on it
and prints one JSON line per case. Imports the model only (no proofs, no Mathlib), so it
links as a native executable. The parsing/printing glue here is outside the theorems
(trusted base, see DESIGN.md section 7).
-/
import Lean.Data.Json
import AsphaltModel
import DriverLib.Ctx
import DriverLib.Sig
import DriverLib.Start
import DriverLib.Tasks
import DriverLib.Factory
import DriverLib.Runner

open Lean Asphalt

namespace Drv

def str! (j : Json) (k : String) : Except String String := do (← j.getObjVal? k).getStr?
def nat! (j : Json) (k : String) : Except String Nat := do (← j.getObjVal? k).getNat?
def bool! (j : Json) (k : String) : Except String Bool := do (← j.getObjVal? k).getBool?
def arr! (j : Json) (k : String) : Except String (Array Json) := do (← j.getObjVal? k).getArr?
def optStr (j : Json) (k : String) : Option String :=
  match j.getObjVal? k with
  | .ok (.str s) => some s
  | _ => none
def optNat (j : Json) (k : String) : Option Nat :=
  match j.getObjVal? k with
  | .ok v => match v.getNat? with | .ok n => some n | _ => none
  | _ => none
def has (j : Json) (k : String) : Bool :=
  match j.getObjVal? k with
  | .ok .null => false
  | .ok _ => true
  | _ => false

/-! ## Cfg -/

partial def cfgOfJson (j : Json) : Except String Cfg := do
  if let .ok d := j.getObjVal? "d" then
    let items ← d.getArr?
    let kvs ← items.toList.mapM fun it => do
      let pair ← it.getArr?
      if pair.size != 2 then throw "bad pair"
      let k ← pair[0]!.getStr?
      let v ← cfgOfJson pair[1]!
      pure (k, v)
    pure (.dict kvs)
  else if let .ok s := j.getObjVal? "s" then
    pure (.atom (.str (← s.getStr?)))
  else if let .ok c := j.getObjVal? "c" then
    pure (.atom (.cls (← c.getNat?)))
  else if let .ok o := j.getObjVal? "o" then
    pure (.atom (.other (← o.getStr?)))
  else if let .ok _ := j.getObjVal? "n" then
    pure (.atom .none)
  else throw s!"bad cfg {j.compress}"

partial def cfgToJson : Cfg → Json
  | .atom .none => Json.mkObj [("n", .null)]
  | .atom (.str s) => Json.mkObj [("s", .str s)]
  | .atom (.cls n) => Json.mkObj [("c", toJson n)]
  | .atom (.other r) => Json.mkObj [("o", .str r)]
  | .dict kvs => Json.mkObj [("d", .arr (kvs.map fun (k, v) => Json.arr #[.str k, cfgToJson v]).toArray)]

def dictOfJson (j : Json) : Except String Dict := do
  match ← cfgOfJson j with
  | .dict d => pure d
  | _ => throw "expected dict"

def optDictOfJson (j : Json) (k : String) : Except String (Option Dict) :=
  match j.getObjVal? k with
  | .ok .null => pure none
  | .ok v => do pure (some (← dictOfJson v))
  | .error _ => pure none

def runMerge (j : Json) : Except String Json := do
  let a ← optDictOfJson j "a"
  let b ← optDictOfJson j "b"
  pure (Json.mkObj [("out", cfgToJson (.dict (mergeOpt a b)))])

def cliErrName : CliErr → String
  | .noEquals => "noEquals" | .notMapping => "notMapping"
  | .servicesNotDict => "servicesNotDict" | .noServices => "noServices"
  | .serviceNotFound => "serviceNotFound" | .ambiguous => "ambiguous"
  | .noComponent => "noComponent" | .noType => "noType" | .crash => "crash"

def runCli (j : Json) : Except String Json := do
  let files ← (← arr! j "files").toList.mapM dictOfJson
  let sets ← (← arr! j "sets").toList.mapM fun it => do
    let pair ← it.getArr?
    let k ← pair[0]!.getStr?
    let v ← match pair[1]! with
      | .null => pure none
      | v => do pure (some (← cfgOfJson v))
    pure (k, v)
  match cliConfig files sets (optStr j "svc") (optStr j "env") with
  | .error e => pure (Json.mkObj [("err", .str (cliErrName e))])
  | .ok r => pure (Json.mkObj [("ok", Json.mkObj [
      ("type", cfgToJson r.type), ("component", cfgToJson (.dict r.component)),
      ("backend", cfgToJson r.backend), ("backend_options", cfgToJson r.backendOptions),
      ("kwargs", cfgToJson (.dict r.kwargs))])])

def runSplit (j : Json) : Except String Json := do
  let k ← str! j "key"
  pure (Json.mkObj [("out", toJson (splitKey k))])

partial def treeToJson (env : InitEnv) : CompTree → Json
  | .node path cls kwargs dflt kids => Json.mkObj [
      ("path", .str path), ("cls", toJson cls), ("kwargs", cfgToJson (.dict kwargs)),
      ("default", .str dflt),
      ("published", toJson (match env.classes cls with
        | some c => publishedNames c dflt
        | none => [])),
      ("children", .arr (kids.map (treeToJson env)).toArray)]

def initErrToJson : InitErr → Json
  | .lookupError p => Json.mkObj [("err", "lookupError"), ("path", .str p)]
  | .notComponent p => Json.mkObj [("err", "notComponent"), ("path", .str p)]
  | .creating p c => Json.mkObj [("err", "creating"), ("path", .str p), ("cls", toJson c)]
  | .badChildConfig p => Json.mkObj [("err", "badChildConfig"), ("path", .str p)]
  | .noType p => Json.mkObj [("err", "noType"), ("path", .str p)]

def runInit (j : Json) : Except String Json := do
  let classes ← (← arr! j "classes").toList.mapM fun it => do
    let id ← nat! it "id"
    let kids ← dictOfJson (← it.getObjVal? "children")
    let fails := (bool! it "fails").toOption.getD false
    let strs (k : String) : List String := match arr! it k with
      | .ok a => a.toList.filterMap fun x => x.getStr?.toOption
      | .error _ => []
    pure (id, ({ children := kids, ctorFails := fails, prepareAdds := strs "prepare_adds",
                 startAdds := strs "start_adds" } : ClassDef))
  let resolve ← (← arr! j "resolve").toList.mapM fun it => do
    let pair ← it.getArr?
    pure ((← pair[0]!.getStr?), (← pair[1]!.getNat?))
  let cfg ← dictOfJson (← j.getObjVal? "cfg")
  let env : InitEnv := { classes := fun n => alookup n classes, resolveStr := fun s => alookup s resolve }
  match initTree env 64 "" cfg "default" with
  | .error e => pure (initErrToJson e)
  | .ok t => pure (Json.mkObj [("tree", treeToJson env t)])

def runPublishName (j : Json) : Except String Json := do
  let ph ← str! j "phase"
  let phase := if ph == "starting" then CompPhase.starting else CompPhase.preparing
  pure (Json.mkObj [("out", .str (publishName phase (← str! j "default") (← str! j "name")))])

def dispatch (j : Json) : Except String Json := do
  let kind ← str! j "kind"
  match kind with
  | "merge" => runMerge j
  | "cli" => runCli j
  | "split" => runSplit j
  | "init" => runInit j
  | "publishName" => runPublishName j
  | "ctx" => runCtx j
  | "sig" => runSig j
  | "startup" => runStartup j
  | "tasks" => runTasks j
  | "factory" => runFactory j
  | "runner" => runRunner j
  | _ => throw s!"unknown kind {kind}"

end Drv

partial def loop (h : IO.FS.Stream) (out : IO.FS.Stream) : IO Unit := do
  let line ← h.getLine
  if line.isEmpty then return ()
  let line := line.trimAscii.toString
  if line.isEmpty then loop h out else
  let res := match Json.parse line with
    | .error e => Json.mkObj [("driver_error", .str s!"parse: {e}")]
    | .ok j => match Drv.dispatch j with
      | .ok r => r
      | .error e => Json.mkObj [("driver_error", .str e)]
  out.putStrLn res.compress
  loop h out

def main : IO Unit := do
  let stdin ← IO.getStdin
  let stdout ← IO.getStdout
  loop stdin stdout
