import AsphaltProofs.Lemmas.Assoc
import AsphaltProofs.Props.C17
import AsphaltProofs.Lemmas.Config
import AsphaltProofs.Props.C16
import AsphaltProofs.Props.C14
