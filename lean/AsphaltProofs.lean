import AsphaltProofs.Lemmas.Assoc
import AsphaltProofs.Props.C17
