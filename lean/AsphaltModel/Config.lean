/-
Configuration layer: `merge_config` (_utils.py), the `asphalt run` command's
configuration pipeline (_cli.py) and `_init_component` (_component.py).

Python values are modelled as a tree `Cfg`: a `dict` is an insertion-ordered
association list, everything else is an opaque atom (the property statements never
look inside non-dict values).
-/
import AsphaltModel.Basic

namespace Asphalt

/-- Non-dict configuration values. `str` and `cls` are distinguished because
`_init_component` inspects them (string types may carry a `/name` suffix, class
objects are used as they are); everything else is opaque text (its canonical JSON). -/
inductive Atom
  | none
  | str (s : String)
  | cls (n : Nat)        -- a Python class object (identity `n`)
  | other (repr : String)
  deriving DecidableEq, Repr, Inhabited

inductive Cfg
  | atom (a : Atom)
  | dict (kvs : List (String × Cfg))
  deriving Repr, Inhabited

abbrev Dict := List (String × Cfg)

def Cfg.isDict : Cfg → Bool
  | .dict _ => true
  | .atom _ => false

/-! ### merge_config -/

mutual
/-- `merge_config(original, overrides)` for two dictionaries: copy `original`, then for
every item of `overrides` in order assign the merged value (Python `copied[key] = …`). -/
def merge : Dict → Dict → Dict
  | a, [] => a
  | a, (k, v) :: rest => merge (ainsert k (mergeVal (alookup k a) v) a) rest
termination_by _ b => sizeOf b
decreasing_by
  all_goals simp_wf
  all_goals omega

/-- The value stored for one key: dict/dict → recursive merge, else the override. -/
def mergeVal : Option Cfg → Cfg → Cfg
  | some (.dict x), .dict y => .dict (merge x y)
  | _, v => v
termination_by _ v => sizeOf v
decreasing_by
  all_goals simp_wf
  all_goals omega
end

/-- `merge_config` with its `None` / falsy handling (`dict(original) if original else {}`,
`if overrides:`). -/
def mergeOpt (a b : Option Dict) : Dict :=
  merge (a.getD []) (b.getD [])

/-! ### key paths -/

/-- Follow a key path through nested dictionaries. -/
def getPath : List String → Cfg → Option Cfg
  | [], c => some c
  | k :: ks, .dict kvs => (alookup k kvs).bind (getPath ks)
  | _ :: _, .atom _ => none

/-! ### `asphalt run`: --set handling -/

/-- Split on dots that are not preceded by a backslash (`re.split(r"(?<!\\)\.", key)`),
working on the character list. `cur` accumulates the current part in reverse. -/
def splitDotsAux : List Char → List Char → List (List Char)
  | [], cur => [cur.reverse]
  | '.' :: rest, cur =>
    match cur with
    | '\\' :: _ => splitDotsAux rest ('.' :: cur)       -- escaped: stays inside the part
    | _ => cur.reverse :: splitDotsAux rest []
  | c :: rest, cur => splitDotsAux rest (c :: cur)

/-- `k.replace(r"\.", ".")` on a character list. -/
def unescapeDots : List Char → List Char
  | '\\' :: '.' :: rest => '.' :: unescapeDots rest
  | c :: rest => c :: unescapeDots rest
  | [] => []

/-- `[k.replace(r"\.", ".") for k in re.split(r"(?<!\\)\.", key)]` -/
def splitKey (key : String) : List String :=
  (splitDotsAux key.toList []).map fun part => String.ofList (unescapeDots part)

inductive CliErr
  | noEquals            -- `--set` without '='
  | notMapping          -- `--set a.b=…` where `a` is not a mapping
  | servicesNotDict
  | noServices
  | serviceNotFound
  | ambiguous           -- several services, none selected, no `default`
  | noComponent
  | noType
  | crash               -- a non-click exception (outside the documented behaviour)
  deriving DecidableEq, Repr

/-- Python truthiness of a non-dict value (`if overrides:` in `merge_config`). -/
def Atom.truthy : Atom → Bool
  | .none => false
  | .str s => s ≠ ""
  | .cls _ => true
  | .other r => !(r = "0" || r = "false" || r = "[]" || r = "0.0" || r = "-0.0" || r = "{}")

/-- `section = section.setdefault(part, {})` along `keys[:-1]`, then `section[last] = v`. -/
def setPath : List String → Cfg → Dict → Except CliErr Dict
  | [], _, d => .ok d                                   -- unreachable: split never returns []
  | [k], v, d => .ok (ainsert k v d)
  | k :: k2 :: ks, v, d =>
    match alookup k d with
    | none => do
      let sub ← setPath (k2 :: ks) v []
      .ok (ainsert k (.dict sub) d)
    | some (.dict sub) => do
      let sub' ← setPath (k2 :: ks) v sub
      .ok (ainsert k (.dict sub') d)
    | some (.atom _) => .error .notMapping

/-- One `--set` argument: `none` for the value means there was no '=' in it. -/
def applySet (d : Dict) (s : String × Option Cfg) : Except CliErr Dict :=
  match s.2 with
  | none => .error .noEquals
  | some v => setPath (splitKey s.1) v d

def applySets : Dict → List (String × Option Cfg) → Except CliErr Dict
  | d, [] => .ok d
  | d, s :: rest => do
    let d' ← applySet d s
    applySets d' rest

/-! ### `asphalt run`: service selection and final hand-over -/

structure RunArgs where
  type : Cfg                -- root component type
  component : Dict          -- root component configuration (without `type`)
  backend : Cfg
  backendOptions : Cfg
  kwargs : Dict             -- remaining top-level keys, passed as `**config`
  deriving Repr

/-- The service-selection ladder (`service` is `--service or $ASPHALT_SERVICE`, empty
strings being falsy). -/
def selectService (services : Dict) (service : Option String) : Except CliErr Cfg :=
  if services.isEmpty then .error .noServices
  else match service with
    | some s =>
      match alookup s services with
      | some c => .ok c
      | none => .error .serviceNotFound
    | none =>
      match services with
      | [(_, c)] => .ok c
      | _ =>
        match alookup "default" services with
        | some c => .ok c
        | none => .error .ambiguous

def truthyName (s : Option String) : Option String :=
  match s with
  | some "" => none
  | other => other

/-- Stage 1: merge the files in order, then apply the `--set` overrides in order. -/
def loadConfig (files : List Dict) (sets : List (String × Option Cfg)) : Except CliErr Dict :=
  applySets (files.foldl merge []) sets

/-- Stage 2: `services = config.pop("services", {})`; a top-level `component` becomes
service `default` unless one is defined. Returns (top-level config, services). -/
def splitServices (config : Dict) : Except CliErr (Dict × Dict) := do
  let services ← match alookup "services" config with
    | none => pure ([] : Dict)
    | some (.dict s) => pure s
    | some (.atom _) => throw CliErr.servicesNotDict
  let config := aerase "services" config
  match alookup "component" config with
  | some comp =>
    pure (aerase "component" config,
          if acontains "default" services then services
          else services ++ [("default", Cfg.dict [("component", comp)])])
  | none => pure (config, services)

/-- `--service or $ASPHALT_SERVICE` (empty strings are falsy). -/
def serviceName (svcOpt envSvc : Option String) : Option String :=
  (truthyName svcOpt).orElse fun _ => truthyName envSvc

/-- Stage 4: `merge_config(config, service_config)`: falsy sections behave like an empty
one, truthy non-dict sections crash in `.items()`. -/
def finalConfig (config : Dict) (svcCfg : Cfg) : Except CliErr Dict :=
  match svcCfg with
  | .dict d => pure (merge config d)
  | .atom a => if a.truthy then throw CliErr.crash else pure config

/-- Stage 5: extract the root component, its type, and the backend options. -/
def extractRunArgs (config : Dict) : Except CliErr RunArgs := do
  let comp ← match alookup "component" config with
    | some (.dict c) => pure c
    | some (.atom _) => throw CliErr.crash    -- `.pop("type")` on a non-dict
    | none => throw CliErr.noComponent
  let config := aerase "component" config
  let ty ← match alookup "type" comp with
    | some t => pure t
    | none => throw CliErr.noType
  let comp := aerase "type" comp
  let backend := (alookup "backend" config).getD (.atom (.str "asyncio"))
  let config := aerase "backend" config
  let backendOptions := (alookup "backend_options" config).getD (.dict [])
  let config := aerase "backend_options" config
  pure { type := ty, component := comp, backend := backend,
         backendOptions := backendOptions, kwargs := config }

/-- Everything `run()` does between parsing and `run_application(...)`.
`files` are the parsed YAML documents in command-line order. -/
def cliConfig (files : List Dict) (sets : List (String × Option Cfg))
    (svcOpt envSvc : Option String) : Except CliErr RunArgs := do
  let config ← loadConfig files sets
  let (config, services) ← splitServices config
  let svcCfg ← selectService services (serviceName svcOpt envSvc)
  let config ← finalConfig config svcCfg
  extractRunArgs config

/-! ### `_init_component` -/

/-- A component class as far as `_init_component` is concerned: the `add_component`
calls its constructor makes (alias ↦ `{"type": type or alias, **config}`), and whether
the constructor raises. -/
structure ClassDef where
  children : Dict
  ctorFails : Bool := false
  prepareAdds : List String := []     -- names passed to add_resource() in prepare()
  startAdds : List String := []       -- names passed to add_resource() in start()
  deriving Repr

/-- `ComponentContext.add_resource`: `default` is remapped to the alias-derived name
only while the component is in its `start()` phase. -/
inductive CompPhase | preparing | starting
  deriving DecidableEq, Repr

def publishName (phase : CompPhase) (dflt name : String) : String :=
  if name = "default" ∧ phase = .starting then dflt else name

/-- Names under which a component with default resource name `dflt` publishes. -/
def publishedNames (c : ClassDef) (dflt : String) : List String :=
  c.prepareAdds.map (publishName .preparing dflt) ++ c.startAdds.map (publishName .starting dflt)

inductive InitErr
  | lookupError (path : String)        -- type could not be resolved
  | notComponent (path : String)
  | creating (path : String) (cls : Nat)
  | badChildConfig (path : String)
  | noType (path : String)
  deriving DecidableEq, Repr

/-- The instantiated component tree: what each constructor received and in which
order constructors ran (pre-order of this tree). -/
inductive CompTree
  | node (path : String) (cls : Nat) (kwargs : Dict) (defaultName : String)
         (children : List CompTree)
  deriving Repr

/-- Text before the first `/` (the `type` part of a `kind/name` alias). -/
def beforeSlash (s : String) : String :=
  String.ofList (s.toList.takeWhile (· ≠ '/'))

/-- Text after the first `/`, if there is one. -/
def afterSlash (s : String) : Option String :=
  match s.toList.dropWhile (· ≠ '/') with
  | [] => none
  | _ :: rest => some (String.ofList rest)

/-- The environment of `_init_component`: the class table and the plugin container's
resolution of string references (entry-point names and `module:attr`). -/
structure InitEnv where
  classes : Nat → Option ClassDef
  resolveStr : String → Option Nat

def resolveType (env : InitEnv) (path : String) : Cfg → Except InitErr Nat
  | .atom (.cls n) => .ok n
  | .atom (.str s) =>
    match env.resolveStr s with
    | some n => .ok n
    | none => .error (.lookupError path)
  | _ => .error (.notComponent path)

/-- The per-child normalisation done in the loop of `_init_component`:
`None` → `{}`, copy, `setdefault("type", alias)`, strip `/…` from string types. -/
def normaliseChild (childPath alias : String) : Cfg → Except InitErr Dict
  | .atom .none => .ok [("type", .atom (.str (beforeSlash alias)))]
  | .atom _ => .error (.badChildConfig childPath)
  | .dict d =>
    let d := if acontains "type" d then d else d ++ [("type", .atom (.str alias))]
    match alookup "type" d with
    | some (.atom (.str s)) => .ok (ainsert "type" (.atom (.str (beforeSlash s))) d)
    | _ => .ok d

/-- `config.pop("components", {})` as far as it is a dictionary (`None` counts as absent). -/
def componentsOf (config : Dict) : Option Dict :=
  match alookup "components" config with
  | some (.dict d) => some d
  | _ => none

/-- `f"{path}.{alias}" if path else alias` -/
def childPath (path alias : String) : String :=
  if path.isEmpty then alias else path ++ "." ++ alias

mutual
/-- `_init_component(path, config, default_resource_name)`; `fuel` bounds the depth
(class tables may be cyclic — Python then recurses until `RecursionError`). -/
def initTree (env : InitEnv) : Nat → String → Dict → String → Except InitErr CompTree
  | 0, path, _, _ => .error (.noType path)
  | fuel + 1, path, config, dflt => do
    let childCfg : Option Dict := componentsOf config
    let config := aerase "components" config
    let ty ← match alookup "type" config with
      | some t => pure t
      | none => throw (InitErr.noType path)
    let config := aerase "type" config
    let cid ← resolveType env path ty
    let cdef ← match env.classes cid with
      | some c => pure c
      | none => throw (InitErr.notComponent path)
    if cdef.ctorFails then throw (InitErr.creating path cid)
    let merged := mergeOpt (some cdef.children) childCfg
    let kids ← initChildren env fuel path merged
    pure (.node path cid config dflt kids)

def initChildren (env : InitEnv) : Nat → String → Dict → Except InitErr (List CompTree)
  | _, _, [] => .ok []
  | fuel, path, (alias, c) :: rest => do
    let d ← normaliseChild (childPath path alias) alias c
    let dflt := (afterSlash alias).getD "default"
    let t ← initTree env fuel (childPath path alias) d dflt
    let ts ← initChildren env fuel path rest
    pure (t :: ts)
end

end Asphalt
