/-
The signal / event system (_event.py): bound signals per (instance, attribute), subscriber
lists, bounded queues (anyio memory object streams), `stream_events` and `wait_event`.

Every operation is atomic: `dispatch` is a plain function, and subscribing / unsubscribing
have no checkpoint between the list update and the return, so "all interleavings of
dispatching and consuming tasks" is "all operation sequences".
-/
import AsphaltModel.Basic

namespace Asphalt

abbrev InstId := Nat
abbrev ChanId := Nat
abbrev StreamId := Nat
abbrev ClsId := Nat

/-- A dispatched event: unique sequence number, event class, and the stamp put on it by
`dispatch` (source instance, topic = attribute name). -/
structure Ev where
  seq : Nat
  cls : ClsId
  chan : ChanId
  source : InstId
  topic : String
  deriving DecidableEq, Repr

/-- The filters the harness can pass (arbitrary total predicates on events). -/
inductive Filter
  | all
  | seqMod (m r : Nat)        -- seq % m == r
  | clsIs (k : ClsId)
  | clsNot (k : ClsId)
  | chanIs (c : ChanId)
  | none_                     -- rejects everything
  deriving DecidableEq, Repr

def Filter.pass : Filter → Ev → Bool
  | .all, _ => true
  | .seqMod m r, e => e.seq % m == r
  | .clsIs k, e => e.cls == k
  | .clsNot k, e => e.cls != k
  | .chanIs c, e => e.chan == c
  | .none_, _ => false

/-- A bound signal: the channel of one (instance, attribute) pair. -/
structure Chan where
  id : ChanId
  inst : InstId
  attr : String
  evCls : ClsId
  subs : List StreamId          -- `_send_streams`, in subscription order
  deriving Repr

/-- One `stream_events` / `wait_event` subscription with its consumer. -/
structure Stream where
  id : StreamId
  chans : List ChanId
  filter : Filter
  cap : Nat
  once : Bool                   -- wait_event: leave after the first delivered event
  opened : Bool                 -- between entering and leaving the stream
  waiting : Bool                -- the consumer is blocked in `__anext__`
  handed : Option Ev            -- item handed to the waiting consumer, which has not run yet
  buf : List Ev                 -- the memory stream's buffer
  -- ghost history
  subAt : Nat                   -- number of events dispatched before the stream was entered
  leftAt : Option Nat           -- number of events dispatched before it was left
  offered : List Ev             -- everything dispatched on its signals while subscribed
  accepted : List Ev            -- offered minus overflow
  lost : List Ev                -- dropped on overflow
  taken : List Ev               -- taken out by the consumer (handed over directly or from the buffer)
  delivered : List Ev           -- yielded to the consumer's code
  deriving Repr

structure SigWorld where
  chans : List Chan
  streams : List Stream
  nextSeq : Nat
  warnings : Nat
  log : List Ev                 -- ghost: every successful dispatch
  parents : List (ClsId × ClsId)   -- event class hierarchy: (class, direct base)
  deriving Repr

def SigWorld.empty (parents : List (ClsId × ClsId)) : SigWorld :=
  { chans := [], streams := [], nextSeq := 0, warnings := 0, log := [], parents := parents }

/-- `issubclass(k, base)` along single-inheritance chains (`fuel` bounds the chain length). -/
def isSubCls (parents : List (ClsId × ClsId)) : Nat → ClsId → ClsId → Bool
  | 0, k, base => k == base
  | fuel + 1, k, base =>
    k == base || match alookup k parents with
      | some p => isSubCls parents fuel p base
      | none => false

def SigWorld.chan? (w : SigWorld) (c : ChanId) : Option Chan := w.chans.find? (·.id == c)
def SigWorld.stream? (w : SigWorld) (s : StreamId) : Option Stream := w.streams.find? (·.id == s)

def SigWorld.setStream (w : SigWorld) (s : Stream) : SigWorld :=
  { w with streams := w.streams.map fun x => if x.id == s.id then s else x }

def SigWorld.setChan (w : SigWorld) (c : Chan) : SigWorld :=
  { w with chans := w.chans.map fun x => if x.id == c.id then c else x }

inductive SOut
  | chan (c : ChanId)                  -- the bound signal an attribute access returned
  | ok
  | unbound
  | typeError
  | got (s : StreamId) (e : Ev)        -- the consumer of stream s was handed event e by its stream
  | blocked (s : StreamId)             -- the consumer of s is now waiting
  | warn (s : StreamId)                -- SignalQueueFull for subscriber s
  | left (s : StreamId)                -- stream s was left (wait_event returned)
  | badOp
  deriving DecidableEq, Repr

inductive SOp
  | access (inst : InstId) (attr : String) (evCls : ClsId)   -- `instance.attr` (evCls: the declaration found by Python)
  | accessClass                                              -- `Class.attr`: the unbound declaration
  | subscribe (s : StreamId) (chans : List ChanId) (filter : Filter) (cap : Nat) (once : Bool) (unboundAmong : Bool)
  | dispatch (c : Option ChanId) (cls : ClsId) (n : Nat)     -- `none`: through the class (unbound); n ≥ 1 events in one atomic section
  | pull (s : StreamId)                                      -- the consumer asks for the next event
  | leave (s : StreamId)                                     -- leaves the `async with` (or is cancelled while waiting)
  deriving Repr

/-- `send_nowait` on one subscribed stream: direct hand-over to a waiting receiver, else
buffer if there is room, else drop with a warning (`WouldBlock`). The consumer does not run
before the dispatching code reaches a checkpoint. -/
def offer (st : Stream) (e : Ev) : Stream × List SOut :=
  let st := { st with offered := st.offered ++ [e] }
  if st.waiting then
    ({ st with waiting := false, handed := some e, accepted := st.accepted ++ [e],
               taken := st.taken ++ [e] }, [])
  else if st.buf.length < st.cap then
    ({ st with buf := st.buf ++ [e], accepted := st.accepted ++ [e] }, [])
  else
    ({ st with lost := st.lost ++ [e] }, [.warn st.id])

/-- Unsubscribe a stream from all its signals and close it. -/
def closeStream (w : SigWorld) (st : Stream) : SigWorld :=
  let w : SigWorld := { w with chans := w.chans.map fun (c : Chan) => { c with subs := c.subs.filter (· != st.id) } }
  w.setStream { st with opened := false, waiting := false, handed := none, buf := [],
                        leftAt := some w.nextSeq }

/-- Deliver one event to every subscriber of the channel, in subscription order. -/
def dispatchTo (e : Ev) : List StreamId → SigWorld → SigWorld × List SOut
  | [], w => (w, [])
  | s :: rest, w =>
    match w.stream? s with
    | none => dispatchTo e rest w
    | some st =>
      let (st', o) := offer st e
      let w1 := w.setStream st'
      let w2 := if o.isEmpty then w1 else { w1 with warnings := w1.warnings + 1 }
      let (w3, os) := dispatchTo e rest w2
      (w3, o ++ os)

/-- The consumer takes events out of the buffer until one passes the filter. -/
def pullBuf (st : Stream) : List Ev → Stream × List SOut
  | [] => ({ st with buf := [], waiting := true }, [.blocked st.id])
  | e :: rest =>
    let st := { st with taken := st.taken ++ [e] }
    if st.filter.pass e then
      ({ st with buf := rest, delivered := st.delivered ++ [e] }, [.got st.id e])
    else pullBuf st rest

/-- The dispatching code reached a checkpoint: a consumer that was handed an item runs. It
applies its filter; an event that does not pass is dropped and the consumer continues with
the buffer (and goes back to waiting when that is empty). -/
def settleStream (st : Stream) : Stream × List SOut :=
  match st.handed with
  | none => (st, [])
  | some e =>
    let st := { st with handed := none }
    if st.filter.pass e then ({ st with delivered := st.delivered ++ [e] }, [.got st.id e])
    else
      let (st', o) := pullBuf st st.buf
      (st', o.filter fun x => match x with | .blocked _ => false | _ => true)

/-- wait_event: the consumer returns with its first event and leaves the stream. -/
def finishOnce (w : SigWorld) (st : Stream) : SigWorld × List SOut :=
  if st.once && !st.delivered.isEmpty && st.opened then (closeStream w st, [.left st.id])
  else (w, [])

def settleAll : List StreamId → SigWorld → SigWorld × List SOut
  | [], w => (w, [])
  | s :: rest, w =>
    match w.stream? s with
    | none => settleAll rest w
    | some st =>
      let (st', o) := settleStream st
      let w1 := w.setStream st'
      let (w2, o2) := finishOnce w1 st'
      let (w3, os) := settleAll rest w2
      (w3, o ++ o2 ++ os)

/-- A burst of `n` dispatches of class `cls` on channel `ch` without a checkpoint in between. -/
def burst (ch : Chan) (cls : ClsId) : Nat → SigWorld → SigWorld × List SOut
  | 0, w => (w, [])
  | n + 1, w =>
    let e : Ev := ⟨w.nextSeq, cls, ch.id, ch.inst, ch.attr⟩
    let w := { w with nextSeq := w.nextSeq + 1, log := w.log ++ [e] }
    -- the subscriber list is read afresh for every dispatch (`list(self._send_streams)`)
    let subs := match w.chan? ch.id with | some c => c.subs | none => []
    let (w1, o) := dispatchTo e subs w
    let (w2, os) := burst ch cls n w1
    (w2, o ++ os)

def sstep (w : SigWorld) : SOp → SigWorld × List SOut
  | .access inst attr evCls =>
    match w.chans.find? (fun c => c.inst == inst && c.attr == attr) with
    | some c => (w, [.chan c.id])
    | none =>
      let id := w.chans.length
      ({ w with chans := w.chans ++ [⟨id, inst, attr, evCls, []⟩] }, [.chan id])
  | .accessClass => (w, [.unbound])
  | .subscribe s chans filter cap once unboundAmong =>
    if unboundAmong then (w, [.unbound])
    else if (w.stream? s).isSome then (w, [.badOp])
    else if chans.any (fun c => (w.chan? c).isNone) then (w, [.badOp])
    else
      let st : Stream := { id := s, chans := chans, filter := filter, cap := cap, once := once,
                           opened := true, waiting := false, handed := none, buf := [], subAt := w.nextSeq,
                           leftAt := none, offered := [],
                           accepted := [], lost := [], taken := [], delivered := [] }
      let w := { w with streams := w.streams ++ [st],
                        chans := w.chans.map fun c =>
                          if chans.contains c.id then { c with subs := c.subs ++ [s] } else c }
      (w, [.ok])
  | .dispatch none _ _ => (w, [.unbound])
  | .dispatch (some c) cls n =>
    match w.chan? c with
    | none => (w, [.badOp])
    | some ch =>
      if !isSubCls w.parents 16 cls ch.evCls then (w, [.typeError])
      else
        let (w1, o) := burst ch cls n w
        let (w2, o2) := settleAll (w1.streams.map (·.id)) w1
        (w2, .ok :: o ++ o2)
  | .pull s =>
    match w.stream? s with
    | none => (w, [.badOp])
    | some st =>
      if !st.opened || st.waiting then (w, [.badOp])
      else
        let (st', o) := pullBuf st st.buf
        let w1 := w.setStream st'
        let (w2, o2) := finishOnce w1 st'
        (w2, o ++ o2)
  | .leave s =>
    match w.stream? s with
    | none => (w, [.badOp])
    | some st =>
      if !st.opened then (w, [.badOp]) else (closeStream w st, [.ok])

def srun : SigWorld → List SOp → SigWorld × List (List SOut)
  | w, [] => (w, [])
  | w, op :: ops =>
    let (w', o) := sstep w op
    let (w'', os) := srun w' ops
    (w'', o :: os)

inductive SReachable (parents : List (ClsId × ClsId)) : SigWorld → Prop
  | init : SReachable parents (SigWorld.empty parents)
  | step (w : SigWorld) (op : SOp) : SReachable parents w → SReachable parents (sstep w op).1

end Asphalt
