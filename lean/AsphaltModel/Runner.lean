/-
run_application (_runner.py): how an application ends, what the process exits with, and the
teardown of the root context. The endings and the exit mapping mirror the
try/except/return ladder of `_run_application_async` and the `sys.exit` in
`run_application`; the teardown is the kernel's (Context.lean): the components' callbacks are
registered on the root context, the block inside `_run_application_async` ends the way the
ending dictates, and `step … (.exit …)` runs them.
-/
import AsphaltModel.Context

namespace Asphalt

/-- What a CLI component's run() returned. -/
inductive RunRes
  | none_
  | int (n : Int)
  | other                       -- neither None nor an int
  deriving DecidableEq, Repr

inductive Ending
  | cliReturn (r : RunRes)
  | cliRaise (e : Nat)          -- run() raised an Exception
  | startupFail                 -- a component failed while being created / prepared / started
  | startupTimeout
  | signalDuringStartup         -- SIGINT / SIGTERM before start-up finished
  | signalAfterStartup          -- … while a non-CLI application was running
  | crashAfterStartup (e : Nat) -- an exception escaped a service task after start-up
  deriving DecidableEq, Repr

inductive Exit
  | returned                    -- run_application returns normally (status 0)
  | systemExit (n : Nat)
  | propagated (e : Nat)        -- the original exception
  deriving DecidableEq, Repr

def exitOfRunRes : RunRes → Exit
  | .none_ => .returned
  | .int n => if n = 0 then .returned else if 0 ≤ n ∧ n ≤ 127 then .systemExit n.toNat else .systemExit 1
  | .other => .systemExit 1

def exitOf : Ending → Exit
  | .cliReturn r => exitOfRunRes r
  | .cliRaise e => .propagated e
  | .startupFail => .systemExit 1
  | .startupTimeout => .systemExit 1
  | .signalDuringStartup => .systemExit 1
  | .signalAfterStartup => .returned
  | .crashAfterStartup e => .propagated e

/-- How the `async with Context()` block of `_run_application_async` is left: start-up problems
and signals are turned into a plain `return` inside the block; an exception from run()
propagates; a crashing service task cancels the host task through the root task group. -/
def blockEndOf : Ending → BlockEnd
  | .cliRaise e => .raised (.exn e)
  | .crashAfterStartup _ => .raised .cancelled
  | _ => .ret

/-- A teardown callback registered on the root context by a component: its id, whether it asked
for the exception, and the callbacks it registers itself when it runs (clean-up that is only
known at shutdown, e.g. closing what a lazily created resource opened). -/
structure RegSpec where
  id : Nat
  pass : Bool
  late : List (Nat × Bool)
  deriving Repr

structure RunCase where
  regs : List RegSpec           -- in registration order
  ending : Ending
  deriving Repr

def lateCb (r : Nat × Bool) : Cb := .mk r.1 r.2 false [] [] none

def regCb (r : RegSpec) : Cb := .mk r.id r.pass false [] (r.late.map lateCb) none

/-- The order in which everything registered must run: last registered first; what a callback
registers while running comes right after it, again last registered first. -/
def expectedOrder (regs : List RegSpec) : List (Nat × Bool) :=
  regs.reverse.flatMap fun r => (r.id, r.pass) :: r.late.reverse

/-- The root context's life inside run_application, as kernel operations. -/
def runOps (c : RunCase) : List Op :=
  [.new 0 1 none, .enter 0 1] ++ c.regs.map (fun r => Op.addTeardown 1 (regCb r) true) ++
    [.exit 0 1 (blockEndOf c.ending)]

/-- Teardown trace (outputs of the final exit step) and the process exit. -/
def runApp (c : RunCase) : List Out × Exit :=
  (((run World.empty (runOps c)).2.getLast?).getD [], exitOf c.ending)

end Asphalt
