/-
Component start-up (_component.py: start_component, _init_component, _start_component,
the watchdog) as a labelled transition system.

A component tree is data: every component has a constructor flag and optional `prepare` /
`start` programs (lists of actions). The labels are the events user code can observe
(constructor ran, prepare()/start() began/ended, a resource was published, a lookup
returned, …). `step? s l` says whether label `l` can happen in state `s` and what the state
is afterwards; the runs of the system are the label sequences accepted from `init`. The
scheduler's freedom (which runnable component goes next) is the freedom to pick any enabled
label, so a theorem over all accepted sequences is a theorem over all interleavings.
-/
import AsphaltModel.Basic
import AsphaltModel.Context
import AsphaltModel.Config

namespace Asphalt

/-- Actions of a `prepare()` / `start()` body. -/
inductive Act
  | publish (ty : TypeId) (name : String) (v : Nat)     -- add_resource(value, name, types=[ty])
  | publishFactory (ty : TypeId) (name : String) (fid : Nat)
  | await (ty : TypeId) (name : String)                 -- await get_resource(ty, name)
  | awaitOpt (ty : TypeId) (name : String)              -- await get_resource(ty, name, optional=True)
  | tick (d : Nat)                                      -- a checkpoint / sleep of d virtual ticks
  | regTd (id : Nat)                                    -- add_teardown_callback
  | fail (e : Nat)                                      -- raise an Exception subclass
  deriving DecidableEq, Repr

/-- One component of the (flattened, pre-order) tree. `parent` and `children` are indices
into the program; a parent's index is smaller than its children's. -/
structure CompSpec where
  path : String
  parent : Option Nat
  cls : Nat
  ctorFails : Bool
  dflt : String                       -- default resource name (from the alias, see C14)
  prepare : Option (List Act)         -- `none`: prepare() not overridden
  start : Option (List Act)
  children : List Nat
  deriving Repr

inductive Run
  | notBegun
  | running (rest : List Act) (blocked : Option Key)   -- blocked: inside get_resource(k), not yet returned
  | done
  | cancelled
  deriving DecidableEq, Repr

structure NodeSt where
  prep : Run
  start : Run
  deriving DecidableEq, Repr

inductive StartPhase | creating | preparing | starting
  deriving DecidableEq, Repr

inductive StartErr
  | componentStart (phase : StartPhase) (i : Nat) (cls : Nat) (cause : Nat)
  | timeout
  deriving DecidableEq, Repr

inductive StartResult
  | returned
  | raised (e : StartErr)
  deriving DecidableEq, Repr

inductive Lab
  | construct (i : Nat)
  | ctorFailed (i : Nat)
  | prepBegin (i : Nat)
  | prepEnd (i : Nat)
  | startBegin (i : Nat)
  | startEnd (i : Nat)
  | pub (i : Nat) (ty : TypeId) (name : String) (v : Nat)       -- add_resource(v, name, [ty]) as called
  | pubFac (i : Nat) (ty : TypeId) (name : String) (fid : Nat)
  | req (i : Nat) (k : Key)                   -- about to call get_resource(k)
  | got (i : Nat) (k : Key) (v : Val)         -- get_resource(k) returned v
  | gotOpt (i : Nat) (k : Key) (v : Option Val)
  | tick (i : Nat)
  | regTd (i : Nat) (id : Nat)
  | failed (i : Nat) (e : Nat)                -- the running phase of component i raised
  | cancelSeen (i : Nat)                      -- component i observed cancellation
  | timeoutFired
  | returned                                  -- start_component returned the root instance
  | raised (e : StartErr)                     -- start_component raised
  | tdRun (id : Nat)                          -- a teardown callback ran (surrounding context left)
  | instantOver                               -- virtual time moved on after the outcome was decided
  deriving DecidableEq, Repr

structure SSt where
  prog : List CompSpec
  hasTimeout : Bool
  constructed : Nat                     -- constructors run so far (a pre-order prefix)
  nodes : List NodeSt
  res : List (Key × Val)                -- resources published in the surrounding context
  fac : List (Key × Nat)
  tds : List Nat                        -- its teardown stack, most recent first
  result : Option StartResult           -- decided outcome of start_component
  grace : Bool                          -- still within the virtual instant in which the outcome was decided
  reported : Bool                       -- start_component has returned / raised to its caller
  hist : List Lab                       -- ghost: the labels so far
  deriving Repr

def SSt.init (prog : List CompSpec) (hasTimeout : Bool) : SSt :=
  { prog := prog, hasTimeout := hasTimeout, constructed := 0,
    nodes := prog.map fun _ => ⟨.notBegun, .notBegun⟩,
    res := [], fac := [], tds := [], result := none, grace := false, reported := false, hist := [] }

def SSt.spec? (s : SSt) (i : Nat) : Option CompSpec := s.prog[i]?
def SSt.node? (s : SSt) (i : Nat) : Option NodeSt := s.nodes[i]?
def SSt.setNode (s : SSt) (i : Nat) (n : NodeSt) : SSt := { s with nodes := s.nodes.set i n }

def SSt.allConstructed (s : SSt) : Bool := s.constructed == s.prog.length

/-- Start-up work may go on: no outcome yet, or still within the instant in which it was decided
(cancellation is delivered through the event loop: components that were already runnable in
that instant — woken by a publication, a timer or a bare checkpoint — run on to their next
checkpoint; once virtual time moves on, everything left has been cancelled). -/
def SSt.live (s : SSt) : Bool := s.result.isNone || s.grace

/-- prepare() of component i is out of the way: not overridden, or returned. -/
def SSt.prepFinished (s : SSt) (i : Nat) : Bool :=
  match s.spec? i, s.node? i with
  | some c, some n => c.prepare.isNone || n.prep == .done
  | _, _ => false

def SSt.startFinished (s : SSt) (i : Nat) : Bool :=
  match s.spec? i, s.node? i with
  | some c, some n => c.start.isNone || n.start == .done
  | _, _ => false

/-- Component i has been reached by the recursive start: it is the root, or its parent has
been reached and has got past its prepare(). `fuel` bounds the length of the ancestor chain. -/
def SSt.reached (s : SSt) : Nat → Nat → Bool
  | 0, _ => false
  | fuel + 1, i =>
    match s.spec? i with
    | none => false
    | some c =>
      match c.parent with
      | none => true
      | some p => s.prepFinished p && s.reached fuel p

/-- The whole subtree of component i has finished starting. -/
def SSt.subtreeDone (s : SSt) : Nat → Nat → Bool
  | 0, _ => false
  | fuel + 1, i =>
    match s.spec? i with
    | none => false
    | some c => s.prepFinished i && c.children.all (fun ch => s.subtreeDone fuel ch) && s.startFinished i

def SSt.fuel (s : SSt) : Nat := s.prog.length + 1

/-- The phase component i is currently executing, with its remaining actions. -/
def SSt.current (s : SSt) (i : Nat) : Option (StartPhase × List Act × Option Key) :=
  match s.node? i with
  | some ⟨.running rest b, _⟩ => some (.preparing, rest, b)
  | some ⟨_, .running rest b⟩ => some (.starting, rest, b)
  | _ => none

def SSt.setCurrent (s : SSt) (i : Nat) (ph : StartPhase) (r : Run) : SSt :=
  match s.node? i with
  | some n => if ph = .preparing then s.setNode i { n with prep := r } else s.setNode i { n with start := r }
  | none => s

def phaseOf : StartPhase → CompPhase
  | .starting => .starting
  | _ => .preparing

/-- The keys a factory's product is stored under when it is generated: every (type, name) pair the factory
was registered for that is still free (C04_generates_all_types), in registration order. -/
def SSt.genKeys (s : SSt) (fid : Nat) : List Key :=
  ((s.fac.filter (fun p => p.2 == fid)).map (·.1)).filter (fun k' => !acontains k' s.res)

/-- Look a key up in the surrounding context during start-up: static table first, then
factories (the product is generated once, stored under all the free pairs of its factory, and cached,
see C04). -/
def SSt.lookup (s : SSt) (k : Key) : Option (Val × SSt) :=
  match alookup k s.res with
  | some v => some (v, s)
  | none =>
    match alookup k s.fac with
    | some fid => some (.gen 0 fid 0, { s with res := s.res ++ (s.genKeys fid).map (fun k' => (k', .gen 0 fid 0)) })
    | none => none

/-- Enabledness and effect of a label. -/
def step? (s : SSt) (l : Lab) : Option SSt :=
  if s.reported then
    -- after start_component has returned / raised only the teardown of the surrounding context happens
    match l with
    | .tdRun id =>
      match s.tds with
      | t :: rest => if t = id then some { s with tds := rest, hist := s.hist ++ [l] } else none
      | [] => none
    | .instantOver => some { s with grace := false, hist := s.hist ++ [l] }
    | _ => none
  else
  let log (s' : SSt) : Option SSt := some { s' with hist := s.hist ++ [l] }
  match l with
  | .construct i =>
    match s.spec? i with
    | some c =>
      if s.result.isNone && i == s.constructed && !c.ctorFails then log { s with constructed := s.constructed + 1 }
      else none
    | none => none
  | .ctorFailed i =>
    match s.spec? i with
    | some c =>
      if s.result.isNone && i == s.constructed && c.ctorFails then
        log { s with result := some (.raised (.componentStart .creating i c.cls 0)) }
      else none
    | none => none
  | .prepBegin i =>
    match s.spec? i, s.node? i with
    | some c, some n =>
      match c.prepare with
      | some acts =>
        if s.live && s.allConstructed && n.prep == .notBegun && s.reached s.fuel i then
          log (s.setNode i { n with prep := .running acts none })
        else none
      | none => none
    | _, _ => none
  | .prepEnd i =>
    match s.node? i with
    | some n =>
      if s.live && n.prep == .running [] none then log (s.setNode i { n with prep := .done }) else none
    | none => none
  | .startBegin i =>
    match s.spec? i, s.node? i with
    | some c, some n =>
      match c.start with
      | some acts =>
        if s.live && s.allConstructed && n.start == .notBegun && s.prepFinished i &&
            s.reached s.fuel i && c.children.all (fun ch => s.subtreeDone s.fuel ch) then
          log (s.setNode i { n with start := .running acts none })
        else none
      | none => none
    | _, _ => none
  | .startEnd i =>
    match s.node? i with
    | some n =>
      if s.live && n.start == .running [] none then log (s.setNode i { n with start := .done }) else none
    | none => none
  | .pub i ty name v =>
    match s.spec? i, s.current i with
    | some c, some (ph, .publish ty' name' v' :: rest, none) =>
      -- published in the surrounding context; `default` is remapped in start() (C14)
      let k : Key := ⟨ty, publishName (phaseOf ph) c.dflt name⟩
      if s.live && v == v' && ty == ty' && name == name' && !acontains k s.res then
        log ({ s with res := s.res ++ [(k, Val.static v)] }.setCurrent i ph (.running rest none))
      else none
    | _, _ => none
  | .pubFac i ty name fid =>
    match s.spec? i, s.current i with
    | some c, some (ph, .publishFactory ty' name' fid' :: rest, none) =>
      let k : Key := ⟨ty, publishName (phaseOf ph) c.dflt name⟩
      if s.live && fid == fid' && ty == ty' && name == name' && !acontains k s.fac then
        log ({ s with fac := s.fac ++ [(k, fid)] }.setCurrent i ph (.running rest none))
      else none
    | _, _ => none
  | .req i k =>
    match s.current i with
    | some (ph, .await ty name :: rest, none) =>
      if s.live && k == ⟨ty, name⟩ then log (s.setCurrent i ph (.running (.await ty name :: rest) (some k)))
      else none
    | _ => none
  | .got i k v =>
    match s.current i with
    | some (ph, .await _ _ :: rest, some k') =>
      if s.live && k == k' then
        match s.lookup k with
        | some (v', s') => if v == v' then log (s'.setCurrent i ph (.running rest none)) else none
        | none => none                      -- nothing published yet: the lookup cannot return
      else none
    | _ => none
  | .gotOpt i k v =>
    match s.current i with
    | some (ph, .awaitOpt ty name :: rest, none) =>
      if s.live && k == ⟨ty, name⟩ then
        match s.lookup k with
        | some (v', s') => if v == some v' then log (s'.setCurrent i ph (.running rest none)) else none
        | none => if v == none then log (s.setCurrent i ph (.running rest none)) else none
      else none
    | _ => none
  | .tick i =>
    match s.current i with
    | some (ph, .tick _ :: rest, none) =>
      if s.live then log (s.setCurrent i ph (.running rest none)) else none
    | _ => none
  | .regTd i id =>
    match s.current i with
    | some (ph, .regTd id' :: rest, none) =>
      if s.live && id == id' then log ({ s with tds := id :: s.tds }.setCurrent i ph (.running rest none))
      else none
    | _ => none
  | .failed i e =>
    match s.spec? i, s.current i with
    | some c, some (ph, .fail e' :: _, none) =>
      if s.result.isNone && e == e' then
        log ({ s with result := some (.raised (.componentStart ph i c.cls e)), grace := true }.setCurrent i ph .cancelled)
      else none
    | _, _ => none
  | .cancelSeen i =>
    match s.current i with
    | some (ph, _, _) => if s.result.isSome then log (s.setCurrent i ph .cancelled) else none
    | none => none
  | .timeoutFired =>
    if s.hasTimeout && s.result.isNone && s.allConstructed && !s.subtreeDone s.fuel 0 then
      log { s with result := some (.raised .timeout), grace := true }
    else none
  | .returned =>
    if s.result.isNone && s.allConstructed && s.subtreeDone s.fuel 0 then
      log { s with result := some .returned, reported := true }
    else none
  | .raised e =>
    -- the error surfaces only after every component that was still running has been stopped
    if s.result == some (.raised e) &&
        (List.range s.prog.length).all (fun i => (s.current i).isNone) then
      log { s with reported := true }
    else none
  | .tdRun _ => none
  | .instantOver => if s.result.isSome then log { s with grace := false } else none

/-- `d` is a proper descendant of `a` in the component tree. -/
inductive Desc (prog : List CompSpec) : Nat → Nat → Prop
  | child (a d : Nat) (c : CompSpec) : prog[a]? = some c → d ∈ c.children → Desc prog d a
  | trans (a m d : Nat) : Desc prog m a → Desc prog d m → Desc prog d a

/-- Well-formed flattened tree: component 0 is the root, every other component's parent has a
smaller index and lists it among its children, children lists are duplicate-free and point to
later components whose parent is this one. -/
def wfProg (prog : List CompSpec) : Bool :=
  decide (0 < prog.length) &&
  (List.range prog.length).all fun i =>
    match prog[i]? with
    | none => false
    | some c =>
      (if i = 0 then c.parent.isNone
       else match c.parent with
         | some p => decide (p < i) && ((prog[p]?.map fun pc => pc.children.contains i).getD false)
         | none => false) &&
      c.children.all (fun ch => decide (i < ch) && decide (ch < prog.length) &&
        ((prog[ch]?.map fun cc => cc.parent == some i).getD false)) &&
      decide (c.children.eraseDups.length = c.children.length)

/-- Accept a trace: fold `step?`; `none` with the index of the first label that is not enabled. -/
def accept : SSt → List Lab → Nat → Except (Nat × Lab) SSt
  | s, [], _ => .ok s
  | s, l :: ls, n =>
    match step? s l with
    | some s' => accept s' ls (n + 1)
    | none => .error (n, l)

/-- `Exec s ls s'`: the label sequence `ls` is a run from `s` to `s'`. -/
inductive Exec : SSt → List Lab → SSt → Prop
  | nil (s : SSt) : Exec s [] s
  | cons (s s' s'' : SSt) (l : Lab) (ls : List Lab) :
      step? s l = some s' → Exec s' ls s'' → Exec s (l :: ls) s''

end Asphalt
