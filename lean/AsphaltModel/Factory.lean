/-
Task factories (TaskFactory, run_background_task; Context.start_background_task_factory) as a
labelled transition system: the set of live task handles, the fate of each task, the
exception handler, and the teardown of the factory's owning context (which waits for — does
not cancel — the running tasks).
-/
import AsphaltModel.Basic

namespace Asphalt

inductive BgBeh
  | endsAfter (d : Nat) (exc : Option Nat)     -- runs d ticks, then returns or raises Exception `exc`
  | forever                                    -- runs until cancelled through its handle
  | failsWhenCancelled (e : Nat)               -- runs until cancelled; its clean-up then raises Exception `e`
  | failsBeforeStarted (e : Nat)               -- started with `start_task`, takes `task_status`, and raises Exception
                                               -- `e` before it has reported `started()`: the exception goes to the
                                               -- caller of `start_task`, not into the factory's task group
  deriving DecidableEq, Repr

structure BgSpec where
  h : Nat
  beh : BgBeh
  deriving DecidableEq, Repr

/-- What the factory's exception handler does. -/
inductive Handler
  | absent
  | returns (truthy : Bool)
  deriving DecidableEq, Repr

inductive BgStatus
  | running
  | cancelAsked
  | cancelled                 -- observed its cancellation (body left by the cancellation)
  | raisedPending (e : Nat)   -- body raised; the handler has not been consulted yet
  | ended
  deriving DecidableEq, Repr

inductive FLab
  | spawn (h : Nat)                                        -- start_task / start_task_soon returned a handle
  | taskBegan (h : Nat) (parentIsFactoryCtx : Bool) (saw : List Nat)
  | cancelReq (h : Nat)                                    -- handle.cancel()
  | cancelSeen (h : Nat)
  | taskEnded (h : Nat) (exc : Option Nat)                 -- body returned (none) / raised
  | handlerCalled (h : Nat) (e : Nat)
  | observed (hs : List Nat)                               -- all_task_handles(), sorted
  | waitReturned (h : Nat)                                 -- handle.wait_finished() returned
  | exitBegin
  | blockLeft
  | outcome (leaves : List Nat)
  | startFailed (h : Nat)                                  -- `start_task` raised in its caller: the task ended before `started()`
  deriving DecidableEq, Repr

structure FSt where
  specs : List BgSpec
  handler : Handler
  snap : List Nat                 -- resources of the owner when the factory was started
  spawned : List Nat
  live : List Nat                 -- handles of tasks that have not finished
  status : List (Nat × BgStatus)
  handlerCalls : List Nat         -- tasks for which the handler has been called
  exiting : Bool
  crashed : List Nat
  left : Bool
  reported : Bool
  hist : List FLab
  deriving Repr

def FSt.init (specs : List BgSpec) (handler : Handler) (snap : List Nat) : FSt :=
  { specs := specs, handler := handler, snap := snap, spawned := [], live := [], status := [],
    handlerCalls := [], exiting := false, crashed := [], left := false, reported := false, hist := [] }

def FSt.spec? (s : FSt) (h : Nat) : Option BgSpec := s.specs.find? (·.h == h)
def FSt.statusOf (s : FSt) (h : Nat) : Option BgStatus := alookup h s.status
def FSt.setStatus (s : FSt) (h : Nat) (st : BgStatus) : FSt := { s with status := ainsert h st s.status }
/-- Did task `h` fail before reporting that it had started? -/
def FSt.startFailure (s : FSt) (h : Nat) : Bool :=
  match s.spec? h with
  | some ⟨_, .failsBeforeStarted _⟩ => true
  | _ => false

def FSt.finish (s : FSt) (h : Nat) : FSt :=
  { (s.setStatus h .ended) with live := s.live.filter (· != h) }

/-- Insertion sort, to compare handle sets. -/
def sortNat (l : List Nat) : List Nat :=
  l.foldr (fun x acc => (acc.takeWhile (· < x)) ++ x :: acc.dropWhile (· < x)) []

def fstep? (s : FSt) (l : FLab) : Option FSt :=
  let log (s' : FSt) : Option FSt := some { s' with hist := s.hist ++ [l] }
  if s.reported then none else
  match l with
  | .spawn h =>
    if !s.left && !s.spawned.contains h && (s.spec? h).isSome then
      log { (s.setStatus h .running) with spawned := s.spawned ++ [h], live := s.live ++ [h] }
    else none
  | .taskBegan h parentOk saw =>
    match s.statusOf h with
    | some _ => if parentOk && saw == s.snap then log s else none
    | none => none
  | .cancelReq h =>
    match s.statusOf h with
    | some .running => log (s.setStatus h .cancelAsked)
    | some _ => log s                      -- cancelling a finished task does nothing
    | none => none
  | .cancelSeen h =>
    match s.statusOf h with
    | some .cancelAsked => log (s.setStatus h .cancelled)
    | _ => if !s.crashed.isEmpty then log s else none     -- otherwise only after a crash took the application down
  | .taskEnded h exc =>
    match s.spec? h, s.statusOf h with
    | some sp, some st =>
      match st, sp.beh, exc with
      | .running, .endsAfter _ none, none => log (s.finish h)
      | .cancelAsked, .endsAfter _ none, none => log (s.finish h)       -- natural end in the instant of the cancel
      | .running, .endsAfter _ (some e), some e' =>
        if e == e' then
          match s.handler with
          | .absent => log { (s.finish h) with crashed := s.crashed ++ [e] }
          | .returns _ => log (s.setStatus h (.raisedPending e))
        else none
      | .cancelAsked, .endsAfter _ (some e), some e' =>
        if e == e' then
          match s.handler with
          | .absent => log { (s.finish h) with crashed := s.crashed ++ [e] }
          | .returns _ => log (s.setStatus h (.raisedPending e))
        else none
      | .running, .failsBeforeStarted e, some e' =>
        -- the handler is consulted as for any exception; whatever it says, nothing escapes into the task group
        if e == e' then
          match s.handler with
          | .absent => log (s.finish h)
          | .returns _ => log (s.setStatus h (.raisedPending e))
        else none
      | st', .failsWhenCancelled e, some e' =>
        -- an exception escaping a task that was cancelled through its handle is an exception like any other
        -- (after a crash took the application down every task still running is cancelled, asked or not)
        if e == e' && (st' == .cancelled || (!s.crashed.isEmpty && (st' == .running || st' == .cancelAsked))) then
          match s.handler with
          | .absent => log { (s.finish h) with crashed := s.crashed ++ [e] }
          | .returns _ => log (s.setStatus h (.raisedPending e))
        else none
      | .cancelled, .failsWhenCancelled _, none => if !s.crashed.isEmpty then log (s.finish h) else none
      | .cancelled, _, none => log (s.finish h)
      | _, _, _ => if !s.crashed.isEmpty && exc.isNone then log (s.finish h) else none
    | _, _ => none
  | .handlerCalled h e =>
    match s.statusOf h, s.handler with
    | some (.raisedPending e'), .returns truthy =>
      if e == e' && !s.handlerCalls.contains h then
        let s1 := { (s.finish h) with handlerCalls := h :: s.handlerCalls }
        log (if truthy || s.startFailure h then s1 else { s1 with crashed := s1.crashed ++ [e] })
      else none
    | _, _ => none
  | .observed hs =>
    if hs == sortNat s.live then log s else none
  | .waitReturned h =>
    match s.statusOf h with
    | some .ended => log s
    | _ => none
  | .startFailed h =>
    match s.statusOf h with
    | some .ended => if s.startFailure h then log s else none
    | _ => none
  | .exitBegin => if !s.exiting then log { s with exiting := true } else none
  | .blockLeft =>
    -- teardown waits for every running task (it does not cancel them)
    -- (after an exception took the application down nothing is required of the remaining tasks)
    if !s.left && ((s.exiting && s.live.isEmpty) || !s.crashed.isEmpty) then log { s with left := true } else none
  | .outcome leaves =>
    if s.left && sortNat leaves == sortNat s.crashed then log { s with reported := true } else none

def faccept : FSt → List FLab → Nat → Except (Nat × FLab) FSt
  | s, [], _ => .ok s
  | s, l :: ls, n =>
    match fstep? s l with
    | some s' => faccept s' ls (n + 1)
    | none => .error (n, l)

inductive FExec : FSt → List FLab → FSt → Prop
  | nil (s : FSt) : FExec s [] s
  | cons (s s' s'' : FSt) (l : FLab) (ls : List FLab) :
      fstep? s l = some s' → FExec s' ls s'' → FExec s (l :: ls) s''

end Asphalt
