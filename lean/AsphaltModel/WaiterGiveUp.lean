/-
The waiter protocol of `ComponentContext.get_resource` (Waiter.lean) with a caller that gives a wait
up and may ask again later:

    with move_on_after(t):                       -- or any other cancellation of the component's wait
        await ctx.get_resource(type, name)

The cancellation is delivered at the waiter's checkpoint or while it is blocked in the stream's receive,
i.e. inside `async with ctx.resource_added.stream_events() as events:` - leaving that block closes the
waiter's stream and takes it off the signal's subscriber list (`Signal._subscribe`: `try: yield / finally:
remove`), with whatever was queued in it. Afterwards the component is where it was before it asked: it is
not subscribed, publications only change the table, and a later `get_resource` starts the protocol afresh
with a stream of its own.
-/
import AsphaltModel.Waiter

namespace Asphalt

inductive WOp2
  | base (op : WOp)     -- request / publish / run, as in Waiter.lean
  | giveUp              -- the waiting get_resource() is cancelled by its caller
  deriving DecidableEq, Repr

def wstep2 (s : WSt) : WOp2 → WSt
  | .base op => wstep s op
  | .giveUp =>
    match s.phase with
    | .armed | .waiting => { s with phase := .idle, buf := 0, handed := false }   -- unsubscribed, queue gone
    | _ => s                                                                       -- nothing to give up

def wrun2 : WSt → List WOp2 → WSt
  | s, [] => s
  | s, op :: ops => wrun2 (wstep2 s op) ops

end Asphalt
