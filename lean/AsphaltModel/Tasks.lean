/-
Service tasks at teardown (Context.start_service_task, run_background_task) as a labelled
transition system over the owning context's teardown stack.

Set-up (before the block is left) is sequential: teardown callbacks and service tasks are
registered in program order, each service task pushing its finalizer right after it has
started. A teardown callback may itself start a service task (`Setup.late`, label `lateStarted`):
its finalizer lands on top of what is still to run. The labels are what user code can observe afterwards: a task body ending (by itself,
after its stop signal, or after cancellation and clean-up), its own context having been
closed, the owner's teardown callbacks running, a teardown-action callable being invoked,
the `async with` block having been left, and the exception leaves the caller sees.
-/
import AsphaltModel.Basic

namespace Asphalt

inductive TdAction
  | cancel                          -- teardown_action="cancel"
  | none_                           -- teardown_action=None: the task must finish by itself
  | callable (raises : Bool)        -- a (sync or async) callable; `raises`: it raises an Exception
  deriving DecidableEq, Repr

/-- What the task body does. -/
inductive Behaviour
  | endsAfter (d : Nat) (exc : Option Nat)      -- runs for d ticks, then returns / raises exception `exc`
  | untilStopped (cleanup : Nat)                -- runs until its stop event is set (returns at once) or it is
                                                -- cancelled (then needs `cleanup` shielded ticks to finish)
  | failsWhenCancelled (cleanup : Nat) (e : Nat) -- the same, but its clean-up after a cancellation ends by raising
                                                -- Exception `e` (an exception escaping the task)
  deriving DecidableEq, Repr

structure TaskSpec where
  tid : Nat
  action : TdAction
  beh : Behaviour
  deriving DecidableEq, Repr

inductive Item
  | cb (id : Nat) (raises : Option Nat)         -- an ordinary teardown callback
  | fin (tid : Nat)                             -- the finalizer of service task tid
  deriving DecidableEq, Repr

inductive TStatus
  | running
  | stopAsked                                   -- its stop event has been set
  | cancelAsked                                 -- its cancel scope has been cancelled
  | cancelling (left : Nat)                     -- saw the cancellation; `left` clean-up ticks to go
  | ended (exc : Option Nat)                    -- body finished
  | closed (exc : Option Nat)                   -- its own context has been torn down: "finished"
  deriving DecidableEq, Repr

inductive TLab
  | taskEnded (tid : Nat) (exc : Option Nat)
  | taskClosed (tid : Nat)
  | exitBegin                                   -- the owner's block is left (normally)
  | cbRun (id : Nat)
  | actionCalled (tid : Nat)
  | cancelSeen (tid : Nat)
  | cleanupTick (tid : Nat)
  | blockLeft                                   -- `async with` of the owning context has been left
  | outcome (leaves : List Nat)                 -- exception leaves seen by the caller (empty: none)
  | taskSaw (tid : Nat) (vals : List Nat)       -- resources the task sees through its own context
  | lateStarted (tid : Nat)                     -- start_service_task, called while the owner is being torn down
                                                -- (from one of its teardown callbacks), has returned
  deriving DecidableEq, Repr

structure TSt where
  specs : List TaskSpec
  snaps : List (Nat × List Nat)     -- what each task's context inherited when it was started
  status : List (Nat × TStatus)
  stack : List Item                 -- owner's teardown stack, most recent first
  exiting : Bool
  waitingFor : Option Nat           -- the host is inside the finalizer of this task, waiting for it
  acted : List Nat                  -- tasks whose teardown action has been performed
  excs : List Nat                   -- exceptions raised so far by teardown callbacks
  crashed : List Nat                -- exceptions that escaped service tasks
  left : Bool
  reported : Bool
  hist : List TLab
  lates : List (Nat × Nat)          -- (teardown callback, the service task it starts when it runs)
  deriving Repr

/-- One step of the set-up program. -/
inductive Setup
  | reg (id : Nat) (raises : Option Nat)        -- add_teardown_callback / add_resource(teardown_callback=)
  | start (spec : TaskSpec)                     -- start_service_task
  | res (v : Nat)                               -- add_resource (without teardown callback) on the owner
  | late (cb : Nat) (spec : TaskSpec)           -- teardown callback `cb` of the owner will start this service task
                                                -- when it runs, i.e. while the owner is already being torn down
  deriving DecidableEq, Repr

/-- The resources a set-up program adds to the owner. -/
def resOf : List Setup → List Nat
  | [] => []
  | .res v :: rest => v :: resOf rest
  | _ :: rest => resOf rest

/-- The resources present in the owner when each task was started (its context's snapshot). -/
def snapshots : List Setup → List Nat → List (Nat × List Nat)
  | [], _ => []
  | .res v :: rest, seen => snapshots rest (seen ++ [v])
  | .start sp :: rest, seen => (sp.tid, seen) :: snapshots rest seen
  | .reg _ _ :: rest, seen => snapshots rest seen
  | .late _ sp :: rest, seen => (sp.tid, seen ++ resOf rest) :: snapshots rest seen   -- started after the whole set-up

def TSt.init (prog : List Setup) : TSt :=
  let stack := prog.foldl (fun st s => match s with
    | .reg id r => Item.cb id r :: st
    | .start sp => Item.fin sp.tid :: st
    | .res _ => st
    | .late _ _ => st) []
  let specs := prog.filterMap fun s => match s with | .start sp => some sp | .late _ sp => some sp | _ => none
  let started := prog.filterMap fun s => match s with | .start sp => some sp | _ => none
  { specs := specs, snaps := snapshots prog [], status := started.map fun sp => (sp.tid, TStatus.running), stack := stack,
    exiting := false, waitingFor := none, acted := [], excs := [], crashed := [], left := false,
    reported := false, hist := [],
    lates := prog.filterMap fun s => match s with | .late cb sp => some (cb, sp.tid) | _ => none }

def TSt.spec? (s : TSt) (tid : Nat) : Option TaskSpec := s.specs.find? (·.tid == tid)
def TSt.statusOf (s : TSt) (tid : Nat) : Option TStatus := alookup tid s.status
def TSt.setStatus (s : TSt) (tid : Nat) (st : TStatus) : TSt := { s with status := ainsert tid st s.status }

def TStatus.isClosed : TStatus → Bool
  | .closed _ => true
  | _ => false

/-- The host's silent moves during teardown: when a finalizer is on top of the stack and its
teardown action needs no user code (`cancel` / `None`), perform it and start waiting; when
the task being waited for is finished, pop the finalizer and go on. `fuel` bounds the loop. -/
def TSt.normalize : Nat → TSt → TSt
  | 0, s => s
  | fuel + 1, s =>
    if !s.exiting || !s.crashed.isEmpty then s else
    match s.waitingFor with
    | some tid =>
      match s.statusOf tid with
      | some (.closed _) =>
        TSt.normalize fuel { s with waitingFor := none, stack := s.stack.filter (· != Item.fin tid) }
      | _ => s
    | none =>
      match s.stack with
      | .fin tid :: _ =>
        match s.spec? tid with
        | some sp =>
          match sp.action with
          | .cancel =>
            let s1 := match s.statusOf tid with
              | some .running => s.setStatus tid .cancelAsked
              | some .stopAsked => s.setStatus tid .cancelAsked
              | _ => s
            TSt.normalize fuel { s1 with waitingFor := some tid, acted := tid :: s1.acted }
          | .none_ => TSt.normalize fuel { s with waitingFor := some tid, acted := tid :: s.acted }
          | .callable _ => s          -- needs the observable `actionCalled`
        | none => s
      | _ => s

def tstep? (s : TSt) (l : TLab) : Option TSt :=
  let fin (s' : TSt) : Option TSt :=
    let s'' := { s' with hist := s.hist ++ [l] }
    some (s''.normalize (2 * s''.stack.length + 2))
  if s.reported then none else
  -- An exception that escaped a service task cancels the whole application through the root task
  -- group; the teardown then runs under cancellation, which the statement excludes. From here on
  -- only one thing is required: the exception reaches the caller.
  if !s.crashed.isEmpty then
    match l with
    | .outcome leaves =>
      if s.left && s.crashed.all (fun e => leaves.contains e) then fin { s with reported := true } else none
    | .blockLeft => fin { s with left := true }
    | .taskEnded _ (some e) => fin { s with crashed := s.crashed ++ [e] }
    | _ => fin s
  else
  match l with
  | .taskEnded tid exc =>
    match s.spec? tid, s.statusOf tid with
    | some sp, some st =>
      let ok : Bool := match st, sp.beh with
        | .running, .endsAfter _ e => exc == e                 -- ends by itself (returns or raises)
        | .stopAsked, .untilStopped _ => exc == none           -- its stop event was set: returns at once
        | .stopAsked, .failsWhenCancelled _ _ => exc == none
        | .cancelling 0, .failsWhenCancelled _ e => exc == some e   -- cancelled: its clean-up raises
        | .stopAsked, .endsAfter _ e => exc == e
        | .cancelAsked, .endsAfter _ e => exc == e             -- reached its natural end in the instant of the cancel
        | .cancelling 0, _ => exc == none                      -- cancelled: the scope swallows it
        | _, _ => false
      if ok then
        let s1 := s.setStatus tid (.ended exc)
        fin (match exc with | some e => { s1 with crashed := s1.crashed ++ [e] } | none => s1)
      else none
    | _, _ => none
  | .taskClosed tid =>
    match s.statusOf tid with
    | some (.ended e) => fin (s.setStatus tid (.closed e))
    | _ => none
  | .exitBegin => if !s.exiting && s.crashed.isEmpty then fin { s with exiting := true } else none
  | .cbRun id =>
    if !s.crashed.isEmpty then fin s       -- after a crash the teardown runs under cancellation: not constrained
    else if s.exiting && s.waitingFor.isNone then
      match s.stack with
      | .cb id' r :: rest =>
        if id == id' then
          let s1 := { s with stack := rest, excs := (match r with | some e => s.excs ++ [e] | none => s.excs) }
          -- a callback that starts a service task: the task runs, and its finalizer is registered on top of
          -- whatever is still to run, so nothing registered earlier runs before this task has finished
          fin (match alookup id s.lates with
            | some tid =>
              (match s.statusOf tid with
               | none => { (s1.setStatus tid .running) with stack := .fin tid :: rest }
               | some _ => s1)
            | none => s1)
        else none
      | _ => none
    else none
  | .actionCalled tid =>
    if !s.crashed.isEmpty then fin s
    else if s.exiting && s.waitingFor.isNone && !s.acted.contains tid then
      match s.stack, s.spec? tid with
      | .fin tid' :: _, some sp =>
        match sp.action with
        | .callable raises =>
          if tid == tid' then
            let s1 := match s.statusOf tid with
              | some .running => s.setStatus tid (if raises then .cancelAsked else .stopAsked)
              | _ => s
            fin { s1 with waitingFor := some tid, acted := tid :: s1.acted }
          else none
        | _ => none
      | _, _ => none
    else none
  | .cancelSeen tid =>
    if !s.crashed.isEmpty then fin s
    else match s.spec? tid, s.statusOf tid with
      | some sp, some .cancelAsked =>
        fin (s.setStatus tid (.cancelling (match sp.beh with
          | .untilStopped c => c | .failsWhenCancelled c _ => c | .endsAfter _ _ => 0)))
      | _, _ => none
  | .cleanupTick tid =>
    match s.statusOf tid with
    | some (.cancelling (n + 1)) => fin (s.setStatus tid (.cancelling n))
    | _ => if !s.crashed.isEmpty then fin s else none
  | .blockLeft =>
    if !s.crashed.isEmpty then fin { s with left := true }
    else if s.exiting && s.stack.isEmpty && s.waitingFor.isNone && !s.left then fin { s with left := true }
    else none
  | .lateStarted tid =>
    -- start_service_task, called by a teardown callback, has returned: that task was started by `cbRun`
    if s.exiting && (s.statusOf tid).isSome && s.lates.any (fun p => p.2 == tid) then fin s else none
  | .taskSaw tid vals =>
    match alookup tid s.snaps with
    | some want => if vals == want then fin s else none
    | none => none
  | .outcome leaves =>
    if !s.left then none
    else if s.crashed.isEmpty then
      if leaves == s.excs then fin { s with reported := true } else none
    else
      -- an exception escaping a service task takes the application down: it is among the leaves
      if s.crashed.all (fun e => leaves.contains e) then fin { s with reported := true } else none

def taccept : TSt → List TLab → Nat → Except (Nat × TLab) TSt
  | s, [], _ => .ok s
  | s, l :: ls, n =>
    match tstep? s l with
    | some s' => taccept s' ls (n + 1)
    | none => .error (n, l)

inductive TExec : TSt → List TLab → TSt → Prop
  | nil (s : TSt) : TExec s [] s
  | cons (s s' s'' : TSt) (l : TLab) (ls : List TLab) :
      tstep? s l = some s' → TExec s' ls s'' → TExec s (l :: ls) s''

end Asphalt
