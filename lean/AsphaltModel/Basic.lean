/-
Basic vocabulary shared by all model files: insertion-ordered association lists
(the model of a Python `dict`), identifiers, exception classes.

No imports: model files stay Mathlib-free so that the driver links as an executable.
-/
namespace Asphalt

/-- Look a key up in an association list (first match). -/
def alookup {κ α : Type} [DecidableEq κ] (k : κ) : List (κ × α) → Option α
  | [] => none
  | (k', v) :: rest => if k' = k then some v else alookup k rest

/-- Python `d[k] = v`: replace in place when the key exists, else append at the end. -/
def ainsert {κ α : Type} [DecidableEq κ] (k : κ) (v : α) : List (κ × α) → List (κ × α)
  | [] => [(k, v)]
  | (k', v') :: rest => if k' = k then (k', v) :: rest else (k', v') :: ainsert k v rest

/-- Python `del d[k]` / `d.pop(k)` (first match; well-formed maps have at most one). -/
def aerase {κ α : Type} [DecidableEq κ] (k : κ) : List (κ × α) → List (κ × α)
  | [] => []
  | (k', v') :: rest => if k' = k then rest else (k', v') :: aerase k rest

def akeys {κ α : Type} (l : List (κ × α)) : List κ := l.map Prod.fst

def acontains {κ α : Type} [DecidableEq κ] (k : κ) (l : List (κ × α)) : Bool :=
  (alookup k l).isSome

/-- No key occurs twice: the well-formedness of a modelled `dict`. -/
def NoDupKeys {κ α : Type} (l : List (κ × α)) : Prop := (akeys l).Nodup

end Asphalt
