/-
The waiter protocol of `ComponentContext.get_resource` (_component.py), on top of the
facts established for the context tables (C03: a registered pair is never removed, the table
is updated before the event is dispatched) and for event streams (C10: an event dispatched
while subscribed is handed to a waiting receiver, queued while there is room, or dropped
only when the queue is full).

    try: return await ctx.get_resource(type, name)            -- (1) look
    except ResourceNotFound:
        async with ctx.resource_added.stream_events() as events:   -- (2) subscribe (queue of `cap`)
            while True:
                try: return await ctx.get_resource(type, name)      -- (3) look again
                except ResourceNotFound: await events.__anext__()   -- (4) checkpoint, then take an
                                                                    --     event or wait for one
Steps (1)-(3) contain no checkpoint; (4) begins with one.
-/
import AsphaltModel.Basic

namespace Asphalt

inductive WPhase
  | idle        -- get_resource not called yet
  | armed       -- subscribed, last look missed, about to take an event (at the checkpoint of (4))
  | waiting     -- blocked in the stream's receive (queue was empty)
  | done        -- returned the resource
  deriving DecidableEq, Repr

structure WSt where
  present : Bool        -- the wanted (type, name) is in the context (resource or factory)
  phase : WPhase
  buf : Nat             -- events queued in the waiter's stream
  handed : Bool         -- an event was handed directly to the blocked waiter, which has not run yet
  cap : Nat             -- queue size (50 in asphalt)
  deriving DecidableEq, Repr

def WSt.init (cap : Nat) (present : Bool) : WSt :=
  { present := present, phase := .idle, buf := 0, handed := false, cap := cap }

inductive WOp
  | request                    -- the component calls get_resource
  | publish (matching : Bool)  -- another component publishes a resource / factory (matching or not)
  | run                        -- the waiter task gets to run its next atomic section
  deriving DecidableEq, Repr

def wstep (s : WSt) : WOp → WSt
  | .request =>
    if s.phase ≠ .idle then s
    else if s.present then { s with phase := .done }
    else { s with phase := .armed }                     -- subscribe, look again (same atomic section), miss
  | .publish m =>
    -- the table is updated first, then the event is dispatched to the subscribers
    let s := { s with present := s.present || m }
    match s.phase with
    | .waiting => if !s.handed then { s with handed := true }
                  else if s.buf < s.cap then { s with buf := s.buf + 1 } else s
    | .armed => if s.buf < s.cap then { s with buf := s.buf + 1 } else s
    | _ => s                                            -- not subscribed
  | .run =>
    match s.phase with
    | .armed =>
      if s.buf = 0 then { s with phase := .waiting }
      else
        let s := { s with buf := s.buf - 1 }
        if s.present then { s with phase := .done, buf := 0 } else s
    | .waiting =>
      if s.handed then
        let s := { s with handed := false }
        if s.present then { s with phase := .done, buf := 0 } else { s with phase := .armed }
      else s                                            -- still blocked: nothing to do
    | _ => s

def wrun : WSt → List WOp → WSt
  | s, [] => s
  | s, op :: ops => wrun (wstep s op) ops

/-- The waiter can make a step of its own (it is not blocked). -/
def WSt.runnable (s : WSt) : Bool :=
  match s.phase with
  | .armed => true
  | .waiting => s.handed
  | _ => false

end Asphalt
