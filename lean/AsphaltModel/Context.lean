/-
The sequential kernel of `asphalt.core.Context` (_context.py): resource and factory
tables, lifecycle states, teardown, the `resource_added` event log, the per-task current
context, `@inject`.

Python objects whose only relevant attribute is identity are numeric ids. A step of the
model is one atomic section of the implementation (code between two checkpoints); the
only operation that spans a checkpoint is a lookup through an *asynchronous* factory,
which is split into `get` (begin, leaves a pending generation) and `genFinish`.
A block can also be left by cancellation (`BlockEnd.raised .cancelled`): the teardown then
runs inside a cancelled scope (`effStack`); the cancellation may also arrive while the teardown
is already running (`exitMid`, `midStack`).
-/
import AsphaltModel.Basic

namespace Asphalt

abbrev CtxId := Nat
abbrev TaskId := Nat
abbrev TypeId := Nat

structure Key where
  ty : TypeId
  name : String
  deriving DecidableEq, Repr

/-- Identity of a resource object: given by the user, or the `n`-th product of factory
`fid` generated in context `c`. -/
inductive Val
  | static (v : Nat)
  | gen (c : CtxId) (fid : Nat) (n : Nat)
  deriving DecidableEq, Repr

structure Container where
  val : Val
  types : List TypeId
  name : String
  desc : Option String
  generated : Bool
  deriving DecidableEq, Repr

structure Factory where
  fid : Nat
  types : List TypeId
  name : String
  desc : Option String
  isAsync : Bool          -- `async def` factory: the sync API refuses it
  gated : Bool            -- async factory that suspends (the harness holds it on a gate)
  failFirst : Nat         -- how many of its first calls (per context) raise
  deriving DecidableEq, Repr

/-- `ResourceEvent(types, name, description, is_factory)` -/
structure REvent where
  types : List TypeId
  name : String
  desc : Option String
  isFactory : Bool
  deriving DecidableEq, Repr

inductive CState | inactive | opened | closing | closed
  deriving DecidableEq, Repr

/-- Exception classes as far as the properties distinguish them. -/
inductive Exc
  | exn (n : Nat)        -- an `Exception` subclass
  | base (n : Nat)       -- a `BaseException` subclass that is not an `Exception`
  | cancelled            -- the back-end's cancellation exception
  deriving DecidableEq, Repr

/-- How the `async with` block ended. -/
inductive BlockEnd
  | ret
  | raised (e : Exc)
  deriving DecidableEq, Repr

def BlockEnd.exc : BlockEnd → Option Exc
  | .ret => none
  | .raised e => some e

/-- Operations a teardown callback body may perform on its own context (the context is
`closing` at that point). -/
inductive BodyOp
  | add (types : List TypeId) (name : String) (v : Nat)
  | addFactory (types : List TypeId) (name : String) (fid : Nat)
  | getNowait (ty : TypeId) (name : String) (optional : Bool)
  | get (ty : TypeId) (name : String) (optional : Bool)      -- `await get_resource()` (asynchronous callbacks)
  | current
  deriving DecidableEq, Repr

/-- A teardown callback as a finite program: run `body`, register `registers` (in order),
then raise `raises` if set. Async callbacks suspend once before doing anything. -/
inductive Cb
  | mk (id : Nat) (passExc isAsync : Bool) (body : List BodyOp) (registers : List Cb)
       (raises : Option Exc)
  deriving Repr

def Cb.id : Cb → Nat | .mk i _ _ _ _ _ => i
def Cb.passExc : Cb → Bool | .mk _ p _ _ _ _ => p
def Cb.isAsync : Cb → Bool | .mk _ _ a _ _ _ => a
def Cb.body : Cb → List BodyOp | .mk _ _ _ b _ _ => b
def Cb.registers : Cb → List Cb | .mk _ _ _ _ r _ => r
def Cb.raises : Cb → Option Exc | .mk _ _ _ _ _ e => e

/-- A generation of an asynchronous factory that is in flight in a context. -/
structure Pending where
  fid : Nat
  task : TaskId                                  -- the lookup that called the factory
  key : Key                                      -- the key it asked for
  optional : Bool
  waiters : List (TaskId × Key × Bool)           -- later lookups waiting for it (FIFO)
  deriving Repr

structure Ctx where
  parent : Option CtxId
  state : CState
  res : List (Key × Container)
  fac : List (Key × Factory)
  tds : List Cb                                  -- teardown stack, most recent first
  children : List CtxId                          -- entered and not yet left child contexts
  token : Option (Option CtxId)                  -- `_reset_token`: the previous current context
  events : List REvent                           -- ghost: everything dispatched on resource_added
  pending : List Pending
  genCount : List (Nat × Nat)                    -- ghost: factory id ↦ completed generations here
  callCount : List (Nat × Nat)                   -- factory id ↦ calls made here (for `failFirst`)
  deriving Repr

structure World where
  ctxs : List (CtxId × Ctx)
  cur : List (TaskId × Option CtxId)             -- the `_current_context` variable, per task
  deriving Repr

def World.empty : World := { ctxs := [], cur := [] }

def World.ctx? (w : World) (c : CtxId) : Option Ctx := alookup c w.ctxs
def World.setCtx (w : World) (c : CtxId) (x : Ctx) : World := { w with ctxs := ainsert c x w.ctxs }
def World.curOf (w : World) (t : TaskId) : Option CtxId := (alookup t w.cur).getD none
def World.setCur (w : World) (t : TaskId) (c : Option CtxId) : World :=
  { w with cur := ainsert t c w.cur }

/-! ### outputs -/

inductive Out
  | ok
  | val (v : Val)
  | none
  | conflict
  | valueError
  | typeError
  | runtimeError (s : CState)
  | notFound
  | asyncError
  | noCurrent
  | blocked
  | badOp                                            -- an op the harness must never send
  | raisedExc (e : Exc)                              -- a factory raised
  | ev (c : CtxId) (e : REvent)                      -- event seen by the listener of context c
  | tdStart (id : Nat) (arg : Option (Option Exc))   -- callback called (with the block's exception)
  | tdEnd (id : Nat) (r : Option Exc)
  | body (o : List Out)                              -- outputs of a callback body
  | closed
  | corruption                                       -- "Context stack corruption detected"
  | exitNormal
  | exitOwn (e : Exc) (grouped : Bool)               -- the block's own exception propagates
  | exitGroup (excs : List Exc)                      -- teardown raised: one group with these leaves
  | cur (c : Option CtxId)
  | parent (c : Option CtxId)
  | task (t : TaskId) (o : List Out)                 -- a suspended lookup of task t returned
  | all (items : List (String × Val))                -- get_resources
  | stateIs (s : CState) (closedFlag : Bool)
  | arg (param : String) (v : Option Val)            -- @inject: value bound to an injected parameter
  | called                                           -- @inject: the wrapped function was called
  | warnNoInject                                     -- @inject: nothing to inject (warning, function returned as is)
  deriving Repr

/-! ### names -/

def isWordChar (c : Char) : Bool :=
  c.isAlphanum || c = '_'

/-- `resource_name_re.fullmatch(name)` for ASCII names: non-empty, `\w` only. -/
def validName (s : String) : Bool :=
  !s.toList.isEmpty && s.toList.all isWordChar

/-! ### state guard -/

def CState.usable : CState → Bool          -- open or closing
  | .opened => true
  | .closing => true
  | _ => false

def closedFlag : CState → Bool
  | .closing => true
  | .closed => true
  | _ => false

/-! ### add_resource / add_resource_factory -/

structure AddArgs where
  types : List TypeId           -- explicit `types=` (empty: use the type of the value)
  valType : TypeId
  name : String
  val : Option Nat              -- `none`: the value is `None`
  desc : Option String
  badType : Bool                -- a non-type inside `types`
  td : Option Cb                -- teardown_callback
  tdNotCallable : Bool          -- teardown_callback given but not callable
  deriving Repr

def addTypes (a : AddArgs) : List TypeId := if a.types.isEmpty then [a.valType] else a.types

/-- Store a container under each of `types` (Python: `for t in types: d[(t, name)] = c`). -/
def storeAll (c : Container) (name : String) : List TypeId → List (Key × Container) → List (Key × Container)
  | [], r => r
  | t :: ts, r => storeAll c name ts (ainsert ⟨t, name⟩ c r)

def storeFac (f : Factory) (name : String) : List TypeId → List (Key × Factory) → List (Key × Factory)
  | [], r => r
  | t :: ts, r => storeFac f name ts (ainsert ⟨t, name⟩ f r)

/-- `Context.add_resource` on context `c` (identified by `cid`). -/
def ctxAdd (cid : CtxId) (x : Ctx) (a : AddArgs) : Ctx × List Out :=
  if !x.state.usable then (x, [.runtimeError x.state])
  else if !a.types.isEmpty && a.badType then (x, [.typeError])
  else match a.val with
    | none => (x, [.valueError])
    | some v =>
      if !validName a.name then (x, [.valueError])
      else if a.tdNotCallable then (x, [.typeError])
      else
        let types := addTypes a
        if types.any (fun t => acontains ⟨t, a.name⟩ x.res) then (x, [.conflict])
        else
          let cont : Container := ⟨.static v, types, a.name, a.desc, false⟩
          let e : REvent := ⟨types, a.name, a.desc, false⟩
          ({ x with res := storeAll cont a.name types x.res,
                    tds := (match a.td with | some cb => cb :: x.tds | none => x.tds),
                    events := x.events ++ [e] },
           [.ok, .ev cid e])

structure FacArgs where
  types : List TypeId           -- explicit or from the return annotation; empty: neither given
  name : String
  fid : Nat
  desc : Option String
  isAsync : Bool
  gated : Bool
  failFirst : Nat
  noneInTypes : Bool            -- `None` among the types
  deriving Repr

/-- `Context.add_resource_factory`. -/
def ctxAddFactory (cid : CtxId) (x : Ctx) (a : FacArgs) : Ctx × List Out :=
  if x.state ≠ .opened then (x, [.runtimeError x.state])
  else if !validName a.name then (x, [.valueError])
  else if a.types.isEmpty then (x, [.valueError])
  else if a.noneInTypes then (x, [.typeError])
  else if a.types.any (fun t => acontains ⟨t, a.name⟩ x.fac) then (x, [.conflict])
  else if x.fac.any (fun kf => kf.2.fid = a.fid) then (x, [.badOp])   -- harness contract: factory ids are unique
  else
    let f : Factory := ⟨a.fid, a.types, a.name, a.desc, a.isAsync, a.gated, a.failFirst⟩
    let e : REvent := ⟨a.types, a.name, a.desc, true⟩
    ({ x with fac := storeFac f a.name a.types x.fac, events := x.events ++ [e] }, [.ok, .ev cid e])

/-! ### lookups -/

def countOf (fid : Nat) (l : List (Nat × Nat)) : Nat := (alookup fid l).getD 0

/-- Store a freshly generated value under those of the factory's types that are still free;
dispatch the event if any were. Returns the new context and the outputs. -/
def storeGenerated (cid : CtxId) (x : Ctx) (f : Factory) (v : Val) : Ctx × List Out :=
  let free := f.types.filter fun t => !acontains ⟨t, f.name⟩ x.res
  let cont : Container := ⟨v, free, f.name, f.desc, true⟩
  let e : REvent := ⟨free, f.name, f.desc, false⟩
  let x' := { x with res := storeAll cont f.name free x.res,
                     genCount := ainsert f.fid (countOf f.fid x.genCount + 1) x.genCount }
  if free.isEmpty then (x', []) else ({ x' with events := x'.events ++ [e] }, [.ev cid e])

/-- Call the factory once in this context: `none` if this call raises. -/
def callFactory (cid : CtxId) (x : Ctx) (f : Factory) : Ctx × Option Val :=
  let n := countOf f.fid x.callCount
  let x' := { x with callCount := ainsert f.fid (n + 1) x.callCount }
  if n < f.failFirst then (x', Option.none) else (x', some (.gen cid f.fid n))

/-- `Context.get_resource_nowait`. -/
def ctxGetNowait (cid : CtxId) (x : Ctx) (k : Key) (optional : Bool) : Ctx × List Out :=
  if !x.state.usable then (x, [.runtimeError x.state])
  else match alookup k x.res with
    | some cont => (x, [.val cont.val])
    | Option.none =>
      match alookup k x.fac with
      | some f =>
        if f.isAsync then (x, [.asyncError])       -- coroutine closed, nothing stored
        else
          match callFactory cid x f with
          | (x', Option.none) => (x', [.raisedExc (.exn 0)])
          | (x', some v) =>
            let (x'', evs) := storeGenerated cid x' f v
            (x'', .val v :: evs)
      | Option.none => (x, [if optional then .none else .notFound])

/-- The value now registered under `k` (after a generation finished). -/
def registeredVal (x : Ctx) (k : Key) : Out :=
  match alookup k x.res with
  | some cont => .val cont.val
  | Option.none => .badOp

/-- `Context.get_resource` by task `t`. Lookups through a gated asynchronous factory
suspend: the result is `blocked` and a pending generation (or a waiter) is recorded. -/
def ctxGet (cid : CtxId) (x : Ctx) (t : TaskId) (k : Key) (optional : Bool) : Ctx × List Out :=
  if !x.state.usable then (x, [.runtimeError x.state])
  else match alookup k x.res with
    | some cont => (x, [.val cont.val])
    | Option.none =>
      match alookup k x.fac with
      | some f =>
        match x.pending.find? (fun p => p.fid = f.fid) with
        | some _ =>
          -- wait for the generation in progress, then look again
          ({ x with pending := x.pending.map fun p =>
               if p.fid = f.fid then { p with waiters := p.waiters ++ [(t, k, optional)] } else p },
           [.blocked])
        | Option.none =>
          if f.isAsync && f.gated then
            let n := countOf f.fid x.callCount
            ({ x with callCount := ainsert f.fid (n + 1) x.callCount,
                      pending := x.pending ++ [⟨f.fid, t, k, optional, []⟩] }, [.blocked])
          else
            match callFactory cid x f with
            | (x', Option.none) => (x', [.raisedExc (.exn 0)])
            | (x', some v) =>
              let (x'', evs) := storeGenerated cid x' f v
              (x'', registeredVal x'' k :: evs)
      | Option.none => (x, [if optional then .none else .notFound])

/-- `await Context.get_resource()` made by a teardown callback, which runs to completion before the next
callback is taken: the lookup of `ctxGet` where that one does not suspend. Where it would (a generation of the
factory is in flight, or the factory is gated) the teardown itself would be suspended in the middle of a
callback; that is outside what `runTeardown` describes, the answer is `blocked` and nothing changes (the
harness does not generate it). -/
def ctxGetNow (cid : CtxId) (x : Ctx) (k : Key) (optional : Bool) : Ctx × List Out :=
  if !x.state.usable then (x, [.runtimeError x.state])
  else match alookup k x.res with
    | some cont => (x, [.val cont.val])
    | Option.none =>
      match alookup k x.fac with
      | some f =>
        if (x.pending.find? (fun p => p.fid = f.fid)).isSome || (f.isAsync && f.gated) then (x, [.blocked])
        else
          match callFactory cid x f with
          | (x', Option.none) => (x', [.raisedExc (.exn 0)])
          | (x', some v) =>
            let (x'', evs) := storeGenerated cid x' f v
            (x'', registeredVal x'' k :: evs)
      | Option.none => (x, [if optional then .none else .notFound])

/-- Re-run the lookups of the tasks that waited for a generation (FIFO). A waiter that
misses again calls the factory itself; gated factories then leave a new pending entry. -/
def resumeWaiters (cid : CtxId) : Ctx → List (TaskId × Key × Bool) → Ctx × List Out
  | x, [] => (x, [])
  | x, (t, k, opt) :: rest =>
    let (x', o) := ctxGet cid x t k opt
    let (x'', os) := resumeWaiters cid x' rest
    (x'', (if o matches [.blocked] then os else .task t o :: os))

/-- Wake-up order of the waiters is the scheduler's choice; the only thing it decides is
which waiter runs first (and so calls the factory again after a failed generation).
`next` names that task (observed on the implementation); the rest keep FIFO order. -/
def wakeOrder (next : Option TaskId) (ws : List (TaskId × Key × Bool)) : List (TaskId × Key × Bool) :=
  match next with
  | Option.none => ws
  | some t => ws.filter (fun w => w.1 = t) ++ ws.filter (fun w => w.1 ≠ t)

/-- The gated factory `fid` pending in this context finishes (returns or raises). -/
def ctxGenFinish (cid : CtxId) (x : Ctx) (fid : Nat) (next : Option TaskId) : Ctx × List Out :=
  match x.pending.find? (fun p => p.fid = fid) with
  | Option.none => (x, [.badOp])
  | some p0 =>
    let p := { p0 with waiters := wakeOrder next p0.waiters }
    let x := { x with pending := x.pending.filter fun q => q.fid ≠ fid }
    match alookup p.key x.fac with
    | Option.none => (x, [.badOp])
    | some f =>
      let n := countOf f.fid x.callCount - 1       -- the call made when the lookup began
      if n < f.failFirst then
        let (x', os) := resumeWaiters cid x p.waiters
        (x', .task p.task [.raisedExc (.exn 0)] :: os)
      else
        let (x', evs) := storeGenerated cid x f (.gen cid f.fid n)
        let (x'', os) := resumeWaiters cid x' p.waiters
        (x'', .task p.task [registeredVal x' p.key] :: (evs ++ os))

/-- A suspended `get_resource` call (identified by its task label `lid`) is cancelled by its caller.
If it is the lookup that called the factory, the generation is abandoned: the entry is removed and
the lookups that waited for it look again (the first to run calls the factory itself; `next` as in
`ctxGenFinish`). If it is one of the waiting lookups, it just leaves the queue. Either way the
cancelled call ends with the cancellation and changes nothing else. -/
def ctxCancelGet (cid : CtxId) (x : Ctx) (lid : TaskId) (next : Option TaskId) : Ctx × List Out :=
  match x.pending.find? (fun p => p.task = lid) with
  | some p0 =>
    let ws := wakeOrder next p0.waiters
    let x := { x with pending := x.pending.filter fun q => q.fid ≠ p0.fid }
    let (x', os) := resumeWaiters cid x ws
    (x', .task lid [.raisedExc .cancelled] :: os)
  | Option.none =>
    if x.pending.any (fun p => p.waiters.any (fun w => w.1 = lid)) then
      ({ x with pending := x.pending.map fun p => { p with waiters := p.waiters.filter (fun w => w.1 ≠ lid) } },
       [.task lid [.raisedExc .cancelled]])
    else (x, [.badOp])

/-- `Context.get_resources(type)`: static table only, keyed by name (later entries of the
same name win, as in the dict comprehension). -/
def ctxGetAll (x : Ctx) (ty : TypeId) : List (String × Val) :=
  x.res.foldl (fun acc (kc : Key × Container) =>
    if kc.2.types.contains ty then ainsert kc.2.name kc.2.val acc else acc) []

/-! ### teardown -/

/-- Size of a callback tree (for termination of the pop-until-empty loop). -/
def Cb.size : Cb → Nat
  | .mk _ _ _ _ regs _ => 1 + sizeList regs
where sizeList : List Cb → Nat
  | [] => 0
  | c :: cs => c.size + sizeList cs

def stackSize (l : List Cb) : Nat := Cb.size.sizeList l

theorem stackSize_cons (c : Cb) (cs : List Cb) : stackSize (c :: cs) = c.size + stackSize cs := by
  simp [stackSize, Cb.size.sizeList]

theorem stackSize_append (a b : List Cb) : stackSize (a ++ b) = stackSize a + stackSize b := by
  induction a with
  | nil => simp [stackSize, Cb.size.sizeList]
  | cons c cs ih => simp [stackSize_cons, ih, Nat.add_assoc]

theorem stackSize_reverse (a : List Cb) : stackSize a.reverse = stackSize a := by
  induction a with
  | nil => rfl
  | cons c cs ih =>
    rw [List.reverse_cons, stackSize_append, ih, stackSize_cons, stackSize_cons]
    have : stackSize [] = 0 := rfl
    omega

theorem Cb.size_mk (i : Nat) (p a : Bool) (b : List BodyOp) (regs : List Cb) (e : Option Exc) :
    (Cb.mk i p a b regs e).size = 1 + stackSize regs := by
  simp [Cb.size, stackSize]

def runBodyOp (cid : CtxId) (cur : Option CtxId) (x : Ctx) : BodyOp → Ctx × List Out
  | .add types name v =>
    ctxAdd cid x ⟨types, 0, name, some v, Option.none, false, Option.none, false⟩
  | .addFactory types name fid =>
    ctxAddFactory cid x ⟨types, name, fid, Option.none, false, false, 0, false⟩
  | .getNowait ty name opt => ctxGetNowait cid x ⟨ty, name⟩ opt
  | .get ty name opt => ctxGetNow cid x ⟨ty, name⟩ opt
  | .current => (x, [.cur cur])         -- current_context() of the task that is leaving the block

def runBody (cid : CtxId) (cur : Option CtxId) : Ctx → List BodyOp → Ctx × List Out
  | x, [] => (x, [])
  | x, op :: ops =>
    let (x', o) := runBodyOp cid cur x op
    let (x'', os) := runBody cid cur x' ops
    (x'', o ++ os)

/-- `_run_teardown_callbacks`: pop until empty; every callback runs to completion (body,
registrations, optional raise) before the next is popped; exceptions are collected.
Operates on the context with its stack taken out (`stack`), registrations are pushed
onto it. `cur` is the current context of the task that is leaving the block: the context itself
in disciplined use, another one if a context entered by hand inside the block was never left.
Returns the context, the trace and the collected exceptions. -/
def runTeardown (cid : CtxId) (cur : Option CtxId) (be : BlockEnd) : List Cb → Ctx → Ctx × List Out × List Exc
  | [], x => (x, [], [])
  | cb :: stack, x =>
    match cb with
    | .mk id passExc _ body regs raises =>
      let (x', bodyOut) := runBody cid cur x body
      let stack' := regs.reverse ++ stack
      let (x'', tr, excs) := runTeardown cid cur be stack' x'
      (x'',
       .tdStart id (if passExc then some be.exc else Option.none) ::
         (if bodyOut.isEmpty then [] else [.body bodyOut]) ++ .tdEnd id raises :: tr,
       (match raises with | some e => e :: excs | Option.none => excs))
termination_by st _ => stackSize st
decreasing_by
  simp only [List.unattach_reverse, List.unattach_attach, stackSize_cons, stackSize_append,
    stackSize_reverse, Cb.size_mk]
  omega

/-! ### cancellation of the block -/

def BlockEnd.isCancel : BlockEnd → Bool
  | .raised .cancelled => true
  | _ => false

/-- What a callback amounts to when the teardown runs because the block was *cancelled*: the
host task is inside a cancelled scope, so the awaitable returned by an asynchronous callback
is cancelled at its first checkpoint, which (for the callbacks of this model: "suspend once
before doing anything") is before its body, its registrations and its own raise: it is
invoked, does nothing, and ends with the cancellation exception. Synchronous callbacks run
as usual, and so do the (synchronous) callbacks they register. -/
def Cb.underCancel : Cb → Cb
  | .mk id p a body regs r =>
    if a then .mk id p a [] [] (some .cancelled)
    else .mk id p a body (underCancelList regs) r
where underCancelList : List Cb → List Cb
  | [] => []
  | c :: cs => c.underCancel :: underCancelList cs

/-- The teardown stack as it will behave, given how the block ended. -/
def effStack (be : BlockEnd) (st : List Cb) : List Cb :=
  if be.isCancel then Cb.underCancel.underCancelList st else st

/-- Cancellation that arrives while the teardown is already running (the block itself was left
normally or by an exception): `k` identifies the directly registered callback during which the
enclosing scope is cancelled. Everything popped before it (with whatever that registers) has
run as usual. Callback `k` runs its body and its registrations; if it is asynchronous it is then
cancelled at its next checkpoint and ends with the cancellation exception instead of its own
outcome (a synchronous one has no checkpoint and ends as written). Everything that is still to
run - what `k` registered and the rest of the stack - runs in the cancelled scope
(`Cb.underCancel`). No callback with that id directly on the stack: nothing happens. -/
def midStack (k : Nat) : List Cb → List Cb
  | [] => []
  | cb :: rest =>
    if cb.id = k then
      (match cb with
       | .mk id p a body regs r =>
         Cb.mk id p a body (Cb.underCancel.underCancelList regs) (if a then some .cancelled else r))
        :: Cb.underCancel.underCancelList rest
    else cb :: midStack k rest

/-- The stack as it will behave when the block ended with `be` and the scope is (also) cancelled
during callback `k`: a block that was itself left by cancellation is cancelled throughout. -/
def midEff (be : BlockEnd) (k : Nat) (st : List Cb) : List Cb :=
  if be.isCancel then effStack be st else midStack k st

/-! ### @inject -/

/-- An injected parameter after annotation resolution: `param: T = resource(name)`
(`optional` for `Optional[T]` / `T | None`). -/
structure Dep where
  param : String
  key : Key
  optional : Bool
  deriving Repr

/-- Resolve the dependencies left to right through the lookup API that matches the
function (async API for coroutine functions, sync API for plain ones); the first failing
lookup ends the call (its exception propagates, the body is not run). -/
def resolveDeps (cid : CtxId) (isAsync : Bool) (t : TaskId) : Ctx → List Dep → Ctx × List Out × Bool
  | x, [] => (x, [], true)
  | x, d :: ds =>
    let (x', o) := if isAsync then ctxGet cid x t d.key d.optional
                   else ctxGetNowait cid x d.key d.optional
    match o with
    | .val v :: evs =>
      let (x'', os, ok) := resolveDeps cid isAsync t x' ds
      (x'', .arg d.param (some v) :: evs ++ os, ok)
    | [.none] =>
      let (x'', os, ok) := resolveDeps cid isAsync t x' ds
      (x'', .arg d.param Option.none :: os, ok)
    | other => (x', other, false)

inductive PKind | posOnly | normal | kwOnly
  deriving DecidableEq, Repr

inductive PDefault
  | noDefault
  | value                       -- an ordinary default value
  | marker (name : String)      -- `resource(name)`
  | uncalled                    -- `resource` without the parentheses
  deriving DecidableEq, Repr

structure Param where
  name : String
  kind : PKind
  dflt : PDefault
  annotated : Bool
  deriving Repr

/-- Decoration-time scan of the signature: `none` = `TypeError`; otherwise the names of
the injected parameters in signature order. -/
def decorate : List Param → Option (List String)
  | [] => some []
  | p :: ps =>
    match p.dflt with
    | .marker _ =>
      if p.kind = .posOnly then Option.none
      else if !p.annotated then Option.none
      else (decorate ps).map (p.name :: ·)
    | .uncalled => Option.none
    | _ => decorate ps

/-! ### the kernel's operations -/

inductive Op
  | new (t : TaskId) (c : CtxId) (parent : Option CtxId)
  | enter (t : TaskId) (c : CtxId)
  | exit (t : TaskId) (c : CtxId) (be : BlockEnd)
  | exitMid (t : TaskId) (c : CtxId) (be : BlockEnd) (k : Nat)   -- … and cancelled during callback `k`
  | add (c : CtxId) (a : AddArgs)
  | addFactory (c : CtxId) (a : FacArgs)
  | getNowait (c : CtxId) (k : Key) (optional : Bool)
  | get (t : TaskId) (c : CtxId) (k : Key) (optional : Bool)
  | genFinish (c : CtxId) (fid : Nat) (next : Option TaskId)
  | cancelGet (c : CtxId) (lid : TaskId) (next : Option TaskId)   -- a suspended lookup is cancelled by its caller
  | getAll (c : CtxId) (ty : TypeId)
  | addTeardown (c : CtxId) (cb : Cb) (callable : Bool)
  | current (t : TaskId)
  | parentOf (c : CtxId)
  | spawn (t t' : TaskId)
  | stateOf (c : CtxId)
  | inject (t : TaskId) (isAsync : Bool) (deps : List Dep) (badUnion : Bool)
  | decorate (ps : List Param)
  deriving Repr

def freshCtx (parent : Option CtxId) (p : Option Ctx) : Ctx :=
  { parent := parent, state := .inactive,
    res := match p with | some px => px.res.filter (fun kc => !kc.2.generated) | Option.none => [],
    fac := match p with | some px => px.fac | Option.none => [],
    tds := [], children := [], token := Option.none, events := [], pending := [], genCount := [],
    callCount := [] }

/-- Apply a context-local operation to context `c`. -/
def onCtx (w : World) (c : CtxId) (f : Ctx → Ctx × List Out) : World × List Out :=
  match w.ctx? c with
  | Option.none => (w, [.badOp])
  | some x => let (x', o) := f x; (w.setCtx c x', o)

def removeChild (w : World) (parent : Option CtxId) (c : CtxId) : World :=
  match parent with
  | Option.none => w
  | some p =>
    match w.ctx? p with
    | Option.none => w
    | some px => w.setCtx p { px with children := px.children.filter (· ≠ c) }

def step (w : World) : Op → World × List Out
  | .new t c parent =>
    match w.ctx? c with
    | some _ => (w, [.badOp])
    | Option.none =>
      let p := match parent with | some p => some p | Option.none => w.curOf t
      (w.setCtx c (freshCtx p (p.bind w.ctx?)), [.ok])
  | .enter t c =>
    match w.ctx? c with
    | Option.none => (w, [.badOp])
    | some x =>
      if x.state ≠ .inactive then (w, [.runtimeError x.state])
      else
        let w1 := w.setCtx c { x with state := .opened, token := some (w.curOf t) }
        let w2 := match x.parent with
          | Option.none => w1
          | some p => match w1.ctx? p with
            | Option.none => w1
            | some px => w1.setCtx p { px with children := px.children ++ [c] }
        (w2.setCur t (some c), [.ok])
  | .exit t c be =>
    match w.ctx? c with
    | Option.none => (w, [.badOp])
    | some x =>
      if x.state ≠ .opened then (w, [.badOp])
      else
        let x1 := { x with state := .closing, tds := [] }
        let (x2, tr, excs) := runTeardown c (w.curOf t) be (effStack be x.tds) x1
        let x3 := { x2 with state := .closed }
        let w1 := (w.setCtx c x3).setCur t (x.token.getD Option.none)
        let w2 := removeChild w1 x.parent c
        let isRoot := x.parent.isNone
        let outcome : Out :=
          if !excs.isEmpty then .exitGroup excs
          else match be with
            | .raised e =>
              if !isRoot && !x3.children.isEmpty then .corruption
              else .exitOwn e (isRoot && (match e with | .exn _ => false | _ => true))
            | .ret => if !x3.children.isEmpty then .corruption else .exitNormal
        (w2, tr ++ [.closed, outcome])
  | .exitMid t c be k =>
    match w.ctx? c with
    | Option.none => (w, [.badOp])
    | some x =>
      if x.state ≠ .opened then (w, [.badOp])
      else
        let x1 := { x with state := .closing, tds := [] }
        let (x2, tr, excs) := runTeardown c (w.curOf t) be (midEff be k x.tds) x1
        let x3 := { x2 with state := .closed }
        let w1 := (w.setCtx c x3).setCur t (x.token.getD Option.none)
        let w2 := removeChild w1 x.parent c
        let isRoot := x.parent.isNone
        let outcome : Out :=
          if !excs.isEmpty then .exitGroup excs
          else match be with
            | .raised e =>
              if !isRoot && !x3.children.isEmpty then .corruption
              else .exitOwn e (isRoot && (match e with | .exn _ => false | _ => true))
            | .ret => if !x3.children.isEmpty then .corruption else .exitNormal
        (w2, tr ++ [.closed, outcome])
  | .add c a => onCtx w c (fun x => ctxAdd c x a)
  | .addFactory c a => onCtx w c (fun x => ctxAddFactory c x a)
  | .getNowait c k opt => onCtx w c (fun x => ctxGetNowait c x k opt)
  | .get t c k opt => onCtx w c (fun x => ctxGet c x t k opt)
  | .genFinish c fid next => onCtx w c (fun x => ctxGenFinish c x fid next)
  | .cancelGet c lid next => onCtx w c (fun x => ctxCancelGet c x lid next)
  | .getAll c ty =>
    match w.ctx? c with
    | Option.none => (w, [.badOp])
    | some x => (w, [.all (ctxGetAll x ty)])
  | .addTeardown c cb callable =>
    onCtx w c (fun x =>
      if !x.state.usable then (x, [.runtimeError x.state])
      else if !callable then (x, [.typeError])
      else ({ x with tds := cb :: x.tds }, [.ok]))
  | .current t =>
    match w.curOf t with
    | Option.none => (w, [.noCurrent])
    | some c => (w, [.cur (some c)])
  | .parentOf c =>
    match w.ctx? c with
    | Option.none => (w, [.badOp])
    | some x => (w, [.parent x.parent])
  | .spawn t t' => (w.setCur t' (w.curOf t), [.ok])
  | .stateOf c =>
    match w.ctx? c with
    | Option.none => (w, [.badOp])
    | some x => (w, [.stateIs x.state (closedFlag x.state)])
  | .inject t isAsync deps badUnion =>
    if badUnion then (w, [.typeError])            -- raised when the annotations are resolved
    else match w.curOf t with
      | Option.none => (w, [.noCurrent])
      | some c =>
        match w.ctx? c with
        | Option.none => (w, [.badOp])
        | some x =>
          let (x', os, ok) := resolveDeps c isAsync t x deps
          -- on failure the function is not called: the bound values are unobservable
          (w.setCtx c x', if ok then os ++ [.called]
                          else os.filter (fun o => match o with | .arg _ _ => false | _ => true))
  | .decorate ps =>
    match decorate ps with
    | Option.none => (w, [.typeError])
    | some [] => (w, [.warnNoInject])
    | some _ => (w, [.ok])

/-- Run a list of operations, collecting the outputs of each. -/
def run : World → List Op → World × List (List Out)
  | w, [] => (w, [])
  | w, op :: ops =>
    let (w', o) := step w op
    let (w'', os) := run w' ops
    (w'', o :: os)

/-- The worlds reachable from the empty one. -/
inductive Reachable : World → Prop
  | init : Reachable World.empty
  | step (w : World) (op : Op) : Reachable w → Reachable (step w op).1

end Asphalt
