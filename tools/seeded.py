#!/usr/bin/env python3
"""
Dev tool for the seeded-defect catalogue (/verif/seeded/<id>/{patch.diff,demo.py,meta.json}).

  seeded.py confirm <dir-with-patch.diff+demo.py> <worktree>   # tests stay at baseline, demo PASS/FAIL as claimed
  seeded.py run [<id> ...]                                      # apply each patch to /repo, run the property's
                                                                # quick check, undo; writes seeded/results.json
Patches are applied with `git -C /repo apply` and undone with `git -C /repo checkout -- .` straight afterwards;
nothing is ever committed to /repo.
"""
import json
import subprocess
import sys
from pathlib import Path

VERIF = Path(__file__).resolve().parent.parent
PY = "/venv/bin/python"


def sh(cmd: str, timeout: int = 1200) -> tuple[int, str]:
    r = subprocess.run(cmd, shell=True, capture_output=True, text=True, timeout=timeout)
    out = "\n".join(l for l in (r.stdout + r.stderr).splitlines() if "conda.cli.condarc" not in l)
    return r.returncode, out


def tests(tree: str) -> str:
    _, out = sh(f"cd {tree} && PYTHONPATH={tree}/src {PY} -m pytest -q -p no:cacheprovider 2>&1 | tail -1")
    return out.strip().splitlines()[-1] if out.strip() else ""


def confirm(src: str, wt: str) -> dict:
    src_p = Path(src)
    res = {"dir": src}
    assert sh(f"git -C {wt} status --short")[1].strip() == "", "worktree not clean"
    rc, out = sh(f"cd {wt} && PYTHONPATH={wt}/src {PY} {src_p}/demo.py")
    res["demo_clean"] = (rc, out.strip().splitlines()[-1:] )
    rc, out = sh(f"git -C {wt} apply {src_p}/patch.diff")
    res["apply"] = rc
    try:
        res["tests_patched"] = tests(wt)
        rc, out = sh(f"cd {wt} && PYTHONPATH={wt}/src {PY} {src_p}/demo.py")
        res["demo_patched"] = (rc, out.strip().splitlines()[-1:])
    finally:
        sh(f"git -C {wt} checkout -- .")
    res["ok"] = (res["demo_clean"][0] == 0 and res["apply"] == 0 and res["demo_patched"][0] != 0
                 and "287 passed" in res["tests_patched"] and "4 failed" in res["tests_patched"])
    return res


def run(ids: list[str]) -> None:
    seeded = VERIF / "seeded"
    results_p = seeded / "results.json"
    results = json.loads(results_p.read_text()) if results_p.exists() else {}
    dirs = [seeded / i for i in ids] if ids else sorted(d for d in seeded.iterdir() if d.is_dir())
    for d in dirs:
        meta = json.loads((d / "meta.json").read_text())
        props = meta.get("checks") or [meta["property"]]
        assert sh("git -C /repo status --short")[1].strip() == "", "/repo not clean"
        rc, out = sh(f"git -C /repo apply {d}/patch.diff")
        entry = {"property": meta["property"], "checks": {}}
        try:
            if rc != 0:
                entry["error"] = "patch does not apply: " + out[-300:]
            else:
                for p in props:
                    # (the evidence of a run against a patched tree is kept out of evidence/, which is for the tree as it is)
                    rc, out = sh(f"cd {VERIF} && VERIF_EVIDENCE_DIR=/tmp/seed/evidence_run timeout 900 ./check {p} --tier quick", timeout=1000)
                    line = next((l for l in out.splitlines() if l.startswith(("VIOLATION", "OK ", "INFRASTRUCTURE"))), out[-200:])
                    entry["checks"][p] = {"exit": rc, "line": line}
        finally:
            sh("git -C /repo checkout -- .")
        results[d.name] = entry
        print(d.name, json.dumps(entry))
        results_p.write_text(json.dumps(results, indent=1))
    sh(f"rm -rf {VERIF}/replays")


def runwt(ids: list[str]) -> None:
    """Development aid: like `run`, but in the scratch worktree /tmp/seed/<Cxx> instead of /repo, all seeds in
    parallel (the worktree is checked out at /repo's HEAD first). Results go to seeded/results_wt.json only."""
    from concurrent.futures import ThreadPoolExecutor

    seeded = VERIF / "seeded"
    head = sh("git -C /repo rev-parse HEAD")[1].strip()

    def one(name: str) -> tuple[str, dict]:
        d = seeded / name
        meta = json.loads((d / "meta.json").read_text())
        p = meta["property"]
        wt = f"/tmp/seed/{p}"
        sh(f"git -C {wt} checkout -- .")
        sh(f"git -C {wt} checkout -q --detach {head}")
        rc, out = sh(f"git -C {wt} apply {d}/patch.diff")
        entry: dict = {"property": p}
        try:
            if rc != 0:
                entry["error"] = "patch does not apply: " + out[-200:]
            else:
                try:
                    rc, out = sh(f"cd {VERIF} && VERIF_REPO={wt} VERIF_EVIDENCE_DIR=/tmp/seed/evidence_wt timeout 900 ./check {p} --tier quick --no-lean", timeout=1000)
                except subprocess.TimeoutExpired:
                    rc, out = 2, "TIMEOUT (the check did not finish)"
                entry["line"] = next((l for l in out.splitlines() if l.startswith(("VIOLATION", "OK ", "INFRASTRUCTURE"))), out[-200:])
        finally:
            sh(f"git -C {wt} checkout -- .")
        return name, entry

    # one seed per property at a time (they share the property's worktree)
    by_prop: dict[str, list[str]] = {}
    for i in ids:
        by_prop.setdefault(i.split("-")[0], []).append(i)
    results = {}

    def chain(names: list[str]) -> list[tuple[str, dict]]:
        return [one(n) for n in names]

    with ThreadPoolExecutor(max_workers=6) as ex:
        for res in ex.map(chain, by_prop.values()):
            for name, entry in res:
                results[name] = entry
                print(name, json.dumps(entry))
    (seeded / "results_wt.json").write_text(json.dumps(results, indent=1))


if __name__ == "__main__":
    if sys.argv[1] == "runwt":
        runwt(sys.argv[2:])
    elif sys.argv[1] == "confirm":
        print(json.dumps(confirm(sys.argv[2], sys.argv[3]), indent=1))
    else:
        run(sys.argv[2:])
