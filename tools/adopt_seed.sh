#!/bin/bash
# adopt_seed.sh Cxx [a|b] [norun]: confirm the sub-agent's output (/tmp/seed/Cxx_out for round a, Cxx_outb for
# round b) in the scratch worktree /tmp/seed/Cxx, copy it to /verif/seeded/Cxx-<round>/, run the check unless norun
P=$1; N=${2:-a}; NORUN=$3
SRC=/tmp/seed/${P}_out; [ "$N" != a ] && SRC=/tmp/seed/${P}_out$N
cd /verif
python3 tools/seeded.py confirm $SRC /tmp/seed/$P 2>&1 | grep -v conda > /tmp/seed/${P}_confirm$N.json
grep '"ok"' /tmp/seed/${P}_confirm$N.json
if grep -q '"ok": true' /tmp/seed/${P}_confirm$N.json; then
  mkdir -p seeded/$P-$N && cp $SRC/patch.diff $SRC/demo.py $SRC/meta.json seeded/$P-$N/
  python3 - <<PY
import json
p='/verif/seeded/$P-$N/meta.json'
m=json.load(open(p)); m['confirmed']=json.load(open('/tmp/seed/${P}_confirm$N.json')); m.setdefault('property','$P')
json.dump(m,open(p,'w'),indent=1)
PY
  [ -z "$NORUN" ] && python3 tools/seeded.py run $P-$N 2>&1 | grep -v conda
fi
