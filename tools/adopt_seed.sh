#!/bin/bash
# adopt_seed.sh Cxx : confirm /tmp/seed/Cxx_out in the scratch worktree, copy it to /verif/seeded/Cxx-a/, run the check
P=$1; N=${2:-a}
cd /verif
python3 tools/seeded.py confirm /tmp/seed/${P}_out /tmp/seed/$P 2>&1 | grep -v conda > /tmp/seed/${P}_confirm.json
grep '"ok"' /tmp/seed/${P}_confirm.json
if grep -q '"ok": true' /tmp/seed/${P}_confirm.json; then
  mkdir -p seeded/$P-$N && cp /tmp/seed/${P}_out/patch.diff /tmp/seed/${P}_out/demo.py /tmp/seed/${P}_out/meta.json seeded/$P-$N/
  python3 - <<PY
import json
p='/verif/seeded/$P-$N/meta.json'
m=json.load(open(p)); m['confirmed']=json.load(open('/tmp/seed/${P}_confirm.json')); m.setdefault('property','$P')
json.dump(m,open(p,'w'),indent=1)
PY
  python3 tools/seeded.py run $P-$N 2>&1 | grep -v conda
fi
