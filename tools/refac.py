#!/usr/bin/env python3
"""Dev tool: run every check against a behaviour-preserving refactoring of asphalt (refactorings/R<N>/patch.diff,
produced by a sub-agent that saw nothing of /verif) in a scratch worktree /tmp/refac/w<N> that is created here and
removed afterwards; every check must stay quiet. usage: refac.py <N> [<N> ...]"""
import json
import subprocess
import sys
from concurrent.futures import ThreadPoolExecutor
from pathlib import Path

VERIF = Path(__file__).resolve().parent.parent
PROPS = [f"C{n:02d}" for n in range(1, 20)]


def sh(cmd: str, timeout: int = 1500) -> tuple[int, str]:
    r = subprocess.run(cmd, shell=True, capture_output=True, text=True, timeout=timeout)
    return r.returncode, "\n".join(l for l in (r.stdout + r.stderr).splitlines() if "conda.cli.condarc" not in l)


def one(n: str) -> dict:
    # "3" -> refactorings/R3 (behaviour-preserving rewrite); "B2" -> refactorings/B2 (observable change that is none of
    # the properties' business)
    wt, out = f"/tmp/refac/w{n}", f"{VERIF}/refactorings/{n if n[0].isalpha() else 'R' + n}"
    head = sh("git -C /repo rev-parse HEAD")[1].strip()
    sh(f"git -C /repo worktree remove --force {wt}; mkdir -p /tmp/refac && git -C /repo worktree add -q --detach {wt} {head}")
    rc, o = sh(f"git -C {wt} apply {out}/patch.diff")
    res: dict = {"refactoring": n, "apply": rc, "alarms": []}
    try:
        if rc == 0:
            def chk(p: str) -> str:
                _, o2 = sh(f"cd {VERIF} && VERIF_REPO={wt} VERIF_EVIDENCE_DIR=/tmp/refac/evidence timeout 1200 ./check {p} --tier quick --no-lean")
                return next((l for l in o2.splitlines() if l.startswith(("VIOLATION", "OK ", "INFRASTRUCTURE"))), o2[-200:])
            with ThreadPoolExecutor(max_workers=4) as ex:
                for p, line in zip(PROPS, ex.map(chk, PROPS)):
                    if not line.startswith("OK "):
                        res["alarms"].append(line)
    finally:
        sh(f"git -C /repo worktree remove --force {wt}")
    return res


if __name__ == "__main__":
    for n in sys.argv[1:]:
        print(json.dumps(one(n)))
