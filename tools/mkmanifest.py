#!/usr/bin/env python3
"""Regenerate MANIFEST.json from the table below (run after adding a property check)."""
import json
from pathlib import Path

VERIF = Path(__file__).resolve().parent.parent
props = [json.loads(l)["id"] for l in (VERIF / "properties.jsonl").read_text().splitlines() if l.strip()]

LEVEL_NOTE_COMMON = (
    "Trusted base: Lean 4.33 kernel; axioms ⊆ {propext, Classical.choice, Quot.sound} (audited each run; no sorry, "
    "native_decide, bv_decide or own axioms); the hand-written model lean/AsphaltModel and the Python harness "
    "(generators, directors, virtual clocks, canonicalisation, monitors, JSON glue in Driver.lean). The theorems are "
    "about the model; the model is tied to /repo's working tree on every run only by the correspondence cases of that "
    "run (differential testing, bounded by the generators). "
)

# property -> (claim text, partial clauses / what is implementation-side only, design ref)
KERNEL_NOTE = ("The kernel model (lean/AsphaltModel/Context.lean) treats the code between two checkpoints as one atomic step; "
               "the only operation spanning a checkpoint (a lookup through a suspended async factory) is split into begin/finish "
               "steps, and which waiting lookup runs first is taken from the observation (the model accepts any waiter). "
               "Correspondence: a director executes generated operation sequences (several tasks, both anyio back-ends, "
               "virtual clocks) on the real asphalt one atomic step at a time and requires the same outputs, events and "
               "teardown traces as the model after every step. ")

STARTUP_NOTE = ("Start-up is modelled as a labelled transition system (lean/AsphaltModel/Startup.lean): component trees and "
                "their prepare()/start() scripts are data, labels are the events user code observes, `step?` gives enabledness "
                "and effect, and the theorems hold for every label sequence the system accepts (= every interleaving). "
                "Correspondence (mode T): generated trees run on the real start_component() under a virtual clock on both "
                "back-ends; the observed trace must be a run of the model ending in the same outcome, resources and teardown "
                "order; the direct monitors compare every event's virtual time with an independent reference run of the "
                "documented discipline and demand completion where the discipline completes. ")

CLAIMS = {
    "C08": (
        "Theorems over every run of the service-task LTS (lean/AsphaltModel/Tasks.lean: the owner's teardown stack of "
        "callbacks and finalizers, task life cycles, the host's silent moves): C08_before_earlier (a callback registered "
        "before a task was started runs only after the task and its context have finished), C08_none_left, "
        "C08_cancel_only_when_told, C08_action_once, C08_action_called, C08_snapshot, C08_crash_surfaces, C08_outcome_exact, "
        "C08_stack_suffix. Service tasks started by a teardown callback while the owner is already being torn down "
        "(`Setup.late`, label lateStarted): C08_late_not_before, _started (its finalizer goes on top of what is still to "
        "run), _before_earlier (whenever another callback runs, every late task started so far has completely finished), "
        "_none_left, _observed, _snapshot. Correspondence (mode T): generated set-up programs (0-4 service tasks x 0-6 callbacks, all three "
        "teardown actions, tasks ending by themselves / needing clean-up / crashing, root and nested owners, tasks started "
        "while another context is current) run on the real asphalt under a virtual clock on both back-ends; the observed "
        "trace must be a run of the model.",
        "Hypothesis kept explicit: the teardown is not itself cancelled (no task crashed); after a crash only 'the exception "
        "reaches the caller' is required (C08_crash_surfaces). Delivery of cancellation and TaskGroup.start are anyio's. "
        "Task and callback ids are distinct and a callback starts at most one task (DistinctIds, true of every "
        "generated program).",
        "8/C08",
    ),
    "C09": (
        "Theorems over every run of the task-factory LTS (lean/AsphaltModel/Factory.lean): C09_handles (live handles = "
        "spawned and not finished, at every point), C09_observed, C09_parent, C09_cancel_local, C09_cancel_only_requested "
        "(teardown never cancels), C09_wait, C09_teardown_waits, C09_handler_once, C09_handler_verdict, C09_no_handler, "
        "C09_outcome, C09_cancelled_exception (the exception of a task that was cancelled through its handle and whose "
        "clean-up raises goes to the handler or propagates like any other), C09_handles_sound; tasks that fail before "
        "task_status.started() (`failsBeforeStarted`, label startFailed): C09_start_failure_contained, _handler (the handler is "
        "consulted, nothing escapes into the task group), C09_start_failed (the caller of start_task learns of it, the handle "
        "is gone), C09_start_failure_only. Correspondence (mode T): "
        "timed scripts of start_task / start_task_soon from the owner, a nested context, another service task and other "
        "background tasks (incl. tasks cancelled in the instant they are spawned, tasks that call started() late or fail before that or whose caller gives up "
        "waiting for it, tasks whose clean-up raises), cancel / wait_finished / all_task_handles() sampled at x.5 ticks, handler absent / truthy "
        "/ falsy / a callable object, on both back-ends under a virtual clock; the observed trace must be a run of the "
        "model.",
        "BaseExceptions escaping a task bypass the handler (by design, not judged). After an exception took the application "
        "down nothing more is required of the remaining tasks. The factory's own context is identified as the common parent "
        "of the task contexts whose parent is the owner.",
        "8/C09",
    ),
    "C15": (
        "Theorems C15_exit_zero, C15_exit_code, C15_exit_invalid, C15_exit_startup, C15_exit_crash (the documented exit for "
        "every ending, as a decision table over lean/AsphaltModel/Runner.lean) and C15_teardown, C15_teardown_once, "
        "C15_teardown_complete, C15_exit_independent (for every list of registered callbacks - each possibly registering "
        "further callbacks while it runs - and every ending the root context's callbacks run each once, in reverse order of "
        "registration (`expectedOrder`), with the block's exception where asked, to completion, and the "
        "context closes — by running the root context's life through the kernel model and the C01 theorems). "
        "Correspondence: the real run_application() is called in-process with generated applications (1-5 components, "
        "callbacks incl. ones registered during the teardown, nine kinds of non-int run() results, service tasks, CLI / non-CLI) for every ending incl. real SIGINT / SIGTERM, on both back-ends under a "
        "virtual clock; teardown order, callback arguments and exit must equal the model's. The whole decision table is "
        "enumerated in both tiers.",
        "Partial: OS signal delivery and sys.exit are implementation-side; the order in which sibling components register "
        "callbacks is taken from the observation; a service-task crash during start-up is not generated (the statement "
        "fixes neither outcome); how the block ends per ending (`blockEndOf`) is part of the hand-written model.",
        "8/C15",
    ),
    "C05": (
        "Theorems C05_hist, C05_construct_first, C05_construct_order, C05_prepare_first, C05_own_prepare_first, "
        "C05_start_last (over all descendants), C05_at_most_once, C05_bracketed, C05_return_last, C05_nothing_after_return, "
        "C05_publish_lands, C05_resources_stay, C05_teardown_owned, C05_teardown_lifo (and, when present in "
        "Props/C05_deadlock.lean, C05_no_deadlock / C05_bounded: if some schedule completes no schedule gets stuck). "
        + STARTUP_NOTE,
        "Partial: 'all children are started concurrently' is a timing fact outside the LTS: decided on the implementation by "
        "the exact virtual-time comparison with the reference run. Atomicity of code between checkpoints is an assumption.",
        "8/C05",
    ),
    "C06": (
        "LTS level: C06_no_false, C06_answers_request, C06_enabled_when_published (a blocked lookup can return as soon as a "
        "matching resource or factory is there), C06_not_released_by_others, C06_other_publication, C06_published_stays, "
        "C06_optional_immediate; a factory registered for several types: C06_multi_answers, _all_types (one product, stored under "
        "every pair of the factory that is still free), _frame. Mechanism level (lean/AsphaltModel/Waiter.lean, the protocol of "
        "ComponentContext.get_resource over a bounded event queue): C06_waiter_invariant, C06_waiter_no_lost (for every "
        "interleaving of publications and waiter steps, with any queue size >= 1), C06_waiter_no_false, C06_waiter_monotone, "
        "C06_waiter_cap_needed; with a caller that gives its wait up and may ask again (lean/AsphaltModel/WaiterGiveUp.lean: the "
        "cancelled wait leaves the stream_events() block, which closes the stream and unsubscribes): C06_giveup_invariant, "
        "_fresh, _forgets (the component is a fresh waiter again), _noop, _publish, _no_lost, _no_false - for every interleaving "
        "of requests, publications, waiter steps and give-ups; the start-up harness generates such waits (three ticks in ten "
        "are a get_resource() under move_on_after for a resource nobody publishes). " + STARTUP_NOTE,
        "The waiter protocol model is tied to the code only through the start-up runs (bursts of 10-120 publications inside "
        "one atomic section, the D6 class), not step by step; 'miss -> subscribe -> look again contains no checkpoint' is an "
        "assumption. 'As soon as' is decided on the implementation (virtual time of the return = max(request, publication)). "
        "Written for the behaviour after the fix commit for D6.",
        "8/C06",
    ),
    "C07": (
        "Theorems C07_error, C07_error_creating, C07_outcome_final, C07_raises_decided, C07_all_stopped, C07_quiescent, "
        "C07_after_instant, C07_ancestors, C07_no_return_after_failure, C07_timeout, C07_in_time, C07_registered_stays, "
        "C07_cleanup_order. " + STARTUP_NOTE,
        "Hypothesis kept explicit: exactly one component fails, with an Exception. Within the virtual instant of the failure "
        "components that were already runnable may still run to their next checkpoint (anyio delivers cancellation through the "
        "event loop): the model's `grace` flag, told by the observation that virtual time moved on. A zero time-out ties with "
        "the first instant and is judged by the monitor only. That cancellation stops a sibling's Python code is anyio's. "
        "Written for the behaviour after the fix commit for D9.",
        "8/C07",
    ),
    "C10": (
        "Refinement of every stream's queue state to its ghost history, for every reachable world of the signal model "
        "(lean/AsphaltModel/Signal.lean; all operations atomic, so all reachable worlds = all interleavings): C10_settled, "
        "C10_queue (taken ++ buffered = accepted), C10_bounded, C10_accepted_or_lost, C10_deliver (yielded = taken filtered), "
        "C10_once_in_order, C10_offered_exact (offered = dispatched on its signals between entering and leaving), C10_stamp, "
        "C10_overflow / C10_accept / C10_independent (a full, slow, finished or gone subscriber affects nobody else), "
        "C10_total (dispatch never raises because of subscribers), C10_warnings (one warning per lost event), C10_wait_once, "
        "C10_left_unsubscribed. Correspondence: a director with one consumer task per stream (pulling on command, leaving, "
        "cancelled while waiting), dispatch bursts inside one atomic section, wait_event callers, on both back-ends; outputs, "
        "warning counts and per-stream deliveries must equal the model's.",
        "anyio memory object stream semantics (direct hand-over to a waiting receiver, WouldBlock) are modelled, not "
        "verified. Which subscriber overflowed is not observable (only the warning count is compared). event.time is only "
        "checked to be a float; 'never blocks' is immediate (dispatch is a plain function). Two parts of the check have no "
        "model side (implementation only): subscribers coming and going while another task dispatches (churn), and "
        "Context.resource_added looked at through a component's own context and through the real context in either order "
        "(a listener on the real one gets every event, stamped with the real context, also after start-up).",
        "8/C10",
    ),
    "C11": (
        "Theorems C11_same, C11_carries, C11_distinct, C11_distinct_access, C11_isolated, C11_subscribers, C11_type, "
        "C11_unbound about the bound-signal table keyed by (instance, attribute) in every reachable world of the signal model. "
        "Correspondence: generated owner classes (2-4 signals, inheritance, overriding), instances, every order of first "
        "access; channel identities, deliveries, TypeError / UnboundSignal must equal the model's.",
        "Partial: 'binding never keeps the owner alive' is a garbage-collector fact decided on the implementation only "
        "(weakref dead after del + gc.collect() with bound signals and streams around). Known finding D8 (instances comparing "
        "equal share a bound signal) is reported as KNOWN-FINDING from a corpus case; written for the behaviour after the fix "
        "commit for D4.",
        "8/C11",
    ),
    "C01": (
        "Theorems C01_exactly_once, C01_lifo_and_argument, C01_all_finish, C01_one_at_a_time, C01_all_collected, C01_frame, "
        "C01_route_add/_direct, C01_outcome_group/_normal/_own/_cancelled, C01_closed_afterwards hold for all callback stacks "
        "(any number, any nesting of registrations during teardown, any subset raising any exception class, sync/async, "
        "with/without pass_exception) and all block endings - return, exception, cancellation - about the Lean function "
        "`runTeardown` and the exit step. Cancellation of the block is the model's `effStack`: the teardown runs in a cancelled "
        "scope, so an asynchronous callback is invoked and its awaitable cancelled at its first checkpoint (C01_cancel_only, "
        "_shape, _all_invoked, _lifo, _collected: every registered callback is still invoked once, in LIFO order, and each "
        "cancellation is collected like any other exception). Cancellation that arrives while the teardown is already running "
        "(block left normally or by an exception, scope cancelled during the directly registered asynchronous callback k) is "
        "`midStack`/`exitMid` (C01_midcancel_shape, _absent, _of_cancelled, _absent_exit, _all_invoked, _lifo, _before, "
        "_collected, _outcome_group, _surfaces, _closed_afterwards: what ran before ran as registered, k ends cancelled, "
        "everything after it runs in the cancelled scope, nothing is lost, the cancellation surfaces in the group). If k is "
        "synchronous (it cancels the scope itself) it cannot be interrupted: C01_sync_midcancel_as_written (it ends as written), "
        "_survives_cancel, _midcancel_invisible (no asynchronous callback left: the caller sees no cancellation), "
        "_cancel_unaffected / _midcancel_unaffected / _midcancel_exit (a purely synchronous teardown is indifferent to "
        "cancellation); generated by the harness as a synchronous callback calling scope.cancel(). " + KERNEL_NOTE,
        "Partial: a cancellation arriving during a callback that was itself registered during the teardown, shielded callbacks, and "
        "callbacks that work before their first checkpoint are not in the model: not generated, not claimed. When every "
        "exception reaching the caller is a cancellation, their number and nesting are the back-end's (compared as one "
        "token). The Python class of the exception group and sys.exc_info() inside __aexit__ are implementation-side.",
        "8/C01",
    ),
    "C02": (
        "Theorems C02_snapshot, C02_frame, C02_frame_run, C02_inherits_static, C02_inherits_nothing_else, C02_reswf, "
        "C02_get_all_agrees hold for all worlds / histories / context trees about the kernel model: a new context starts "
        "with the parent's static resources and factories, and no operation changes the content of any context other than "
        "the one it works on. " + KERNEL_NOTE,
        "Partial: ComponentContext delegation is covered by the start-up checks (C05/C06/C14), not by the kernel model.",
        "8/C02",
    ),
    "C03": (
        "Theorems C03_functional (tables functional in every reachable world), C03_stable / C03_stable_factory (nothing is "
        "ever replaced or removed, for every operation in every world), C03_lookup_registered, C03_conflict(_factory), "
        "C03_failed_add(_factory)_noop, C03_failed_add_world, C03_add_registers, C03_generation_keeps_existing. " + KERNEL_NOTE,
        "Written for the behaviour after the fix: commits for D3 and D5 (known_findings.json).",
        "8/C03",
    ),
    "C04": (
        "Theorems C04_once (at most one completed generation per (context, factory) in every reachable world, by the invariant "
        "KInv), C04_facwf, C04_async_via_sync, C04_generates_all_types(_async), C04_not_inherited, C04_child_has_factory, "
        "C04_distinct_objects, C04_race_waits, C04_scoped. A suspended lookup given up by its caller (`cancelGet`: the lookup "
        "running the factory - the generation is abandoned, the waiting lookups look again - or one that only waited): "
        "C04_cancel_no_lost_waiter (every waiter has returned or is again runner/waiter of a generation in flight), _removes, "
        "_answer, _waiter_only, _keeps_existing, _fac, _log_sound(_gated), _scoped. Lookups awaited by teardown callbacks "
        "(Props/C04_body.lean): C04_body_get_existing (what the context holds is returned, no factory is called), "
        "C04_body_get_then_same (a first generation made there is stored; a second lookup of either kind returns the same "
        "object). " + KERNEL_NOTE,
        "Written for the behaviour after the fix: commits for D1, D2, D3. Lookups still suspended when their context is closed "
        "are outside the statement and only compared with the model.",
        "8/C04",
    ),
    "C12": (
        "Theorems C12_enter, C12_exit, C12_current, C12_noninterference, C12_token_stable, C12_open_stable, C12_restore (over "
        "any history of other tasks' operations), C12_nested, C12_parent_default, C12_inherit; for service / factory tasks "
        "(Props/C12_task.lean) C12_task_own_context (spawn + new + enter: the task's current context is its own, a child of what "
        "was current where it was started) and C12_task_explicit_parent. " + KERNEL_NOTE,
        "Partial: task-locality is contextvars' semantics; in the model it holds by construction, so the weight is on the "
        "correspondence (several worker tasks sampling current_context(); blocks left by cancellation, or cancelled while "
        "their teardown runs - twins C12_exit_mid, _restore_mid, _nested_mid, _current_in_teardown_disciplined_mid). The "
        "component-context clause is checked by the start-up part of the check (one case in seven).",
        "8/C12",
    ),
    "C13": (
        "The state x operation matrix as theorems: C13_guard_add / _get_nowait / _get / _teardown_callback / _add_factory, "
        "C13_closing_allowed, C13_enter_once, C13_enter_opens, C13_closed_flag, C13_state_during_teardown, "
        "C13_closed_after_exit, C13_children_reported, C13_child_registered; for lookups *awaited* by teardown callbacks "
        "(Props/C13_body.lean) C13_closing_get_allowed, C13_body_get_is_get, C13_body_get_blocks_iff (it is get_resource "
        "where that does not suspend); C13_closed_flag_in_callback / _during_teardown (the flag a teardown callback reads is "
        "true); several children of one parent (Props/C13_siblings.lean): C13_sibling_exit_removes_only_itself (+_mid), "
        "_sibling_stays, _sibling_open_reported, _siblings_all_left (a child's exit removes that child and nothing else from "
        "the parent's record). The correspondence enumerates the whole matrix, incl. two children of one parent coming and "
        "going in every order, "
        "on both back-ends in both tiers. " + KERNEL_NOTE,
        "The roll-back to inactive after a failing __aenter__ has no trigger from the public API: not exercised. Three parts of "
        "the check have no model side (implementation only): lookups by service tasks while the root waits for them, children "
        "entered by teardown callbacks and never left, and a context whose parent is given as the context object a component "
        "kept from start() (it is a child of the real context: reported when left open).",
        "8/C13",
    ),
    "C18": (
        "Theorems C18_add, C18_add_factory, C18_lookup_silent, C18_generation, C18_log_sound_get, C18_generated_event, "
        "C18_elsewhere, C18_outputs_local about the ghost log of every context's resource_added signal. The correspondence "
        "attaches a listener to every context from its creation. " + KERNEL_NOTE,
        "That a dispatched event reaches the listeners is C10's statement.",
        "8/C18",
    ),
    "C19": (
        "Theorems C19_equiv_world (an injected call leaves the world exactly as the explicit lookups would), C19_called_iff, "
        "C19_binds_lookup_result, C19_optional_none, C19_missing, C19_no_current, C19_reject_posonly / _unannotated / "
        "_uncalled, C19_accept. The correspondence generates functions as source text (all annotation forms, sync/async) and "
        "calls them through the real @inject. " + KERNEL_NOTE,
        "Partial: annotation resolution (get_type_hints, forward references, PEP 604) is Python's; the model receives the "
        "resolved (type, name, optional) triples.",
        "8/C19",
    ),
    "C14": (
        "Theorems C14_root_inv / C14_children_inv (what every constructor receives and in which order), C14_child_config / "
        "C14_child_order / C14_no_external (hard-coded add_component kwargs deep-merged with and overridden by the external "
        "configuration, config-only children created, via C17), C14_type_* / C14_type_equiv (class, reference and "
        "entry-point spellings of a type are interchangeable; default from the alias), C14_alias_* and C14_publish_* "
        "(kind/name aliases; default remapped in start() only) hold for all class tables and configuration trees about the "
        "Lean function `initTree`; the correspondence starts generated component trees on the real start_component() and "
        "requires the same constructor order, kwargs, published resource names and errors.",
        "Partial: 'leaves the configuration object unmodified' and 'equal configurations give equal trees' are object "
        "mutation / determinism facts decided on the implementation only (deep snapshot, second start with the same object). "
        "Type resolution (import_module, importlib.metadata entry points) is a parameter of the model.",
        "8/C14",
    ),
    "C16": (
        "Theorems C16_no_services / C16_named / C16_only / C16_default / C16_option_over_env / C16_env_fallback (the selection "
        "ladder as a decision table), C16_files_lookup / C16_later_file_* / C16_set_get / C16_set_frame / C16_set_not_mapping / "
        "C16_service_lookup / C16_component_is_default_service / C16_extract / C16_pipeline (precedence: later file > earlier "
        "file, --set > files, service section > top level, via C17), C16_split_roundtrip (dots split keys unless escaped) and "
        "C16_error_starts_nothing, C16_files_left_to_right hold for all file lists, override lists and service layouts about the Lean function "
        "`cliConfig`; the correspondence runs the real click command in-process with run_application replaced by a recorder "
        "and requires the same arguments or the same error.",
        "Partial: YAML parsing (incl. !Env/!TextFile/!BinaryFile), click and os.environ are implementation-side only; the "
        "model receives the parsed documents. Layouts with both a top-level component and services are compared with the "
        "model but not judged against the statement.",
        "8/C16",
    ),
    "C17": (
        "Theorems C17_lookup / C17_keys / C17_mem_keys / C17_wf / C17_none_* state the right-biased deep merge for all "
        "pairs of nested dictionaries (unbounded depth and width) about the Lean function `merge`; C17_not_associative is a "
        "machine-checked witness that deep merging is not associative (why files are merged strictly in order); Props/C17_laws.lean "
        "adds the laws callers lean on, for dictionaries well-formed at every depth (`Dict.DeepWF`): C17_idempotent "
        "(merge a a = a), C17_absorb (the same overrides a second time change nothing), C17_empty_left / _empty_right, "
        "C17_scalar_override_wins, C17_one_sided, C17_deep_wf; one generated case in ten is an instance of one of them "
        "(b = a; a = an earlier merge with b). The correspondence "
        "runs merge_config and `merge` on the same generated pairs and requires identical results (order included).",
        "Partial: 'neither argument is modified' and 'returns a new dict' are object-identity facts a pure model "
        "cannot express; they are decided on the implementation only (deep snapshot before/after on every case; after every "
        "call the harness writes into the result and calls again on equal arguments: results share no state).",
        "8/C17",
    ),
}

checks = []
for pid in props:
    if pid not in CLAIMS:
        continue
    text, partial, ref = CLAIMS[pid]
    checks.append({
        "property_id": pid,
        "quick_cmd": f"./check {pid} --tier quick",
        "thorough_cmd": f"./check {pid} --tier thorough",
        "evidence_file": f"evidence/{pid}.json",
        "replay_cmd_template": f"./check {pid} --replay {{path}}",
        "engine": "lean4-model+correspondence",
        "level_claimed": {"category": "proof", "text": text, "design_ref": f"DESIGN.md section {ref}"},
        "level_note": LEVEL_NOTE_COMMON + partial,
        "technique": "machine-checked proof in Lean 4 about a hand-written executable model, tied to the code by a differential correspondence check (model vs real asphalt on generated cases) with direct property monitors",
    })

manifest = {
    "version": 1,
    "setup_cmd": "cd lean && lake build",
    "hooks": {
        "guard": "ASPHALT_VERIF",
        "enable": "no source hooks are needed: every observation goes through asphalt's public API and harness-supplied user code; ./check sets ASPHALT_VERIF=1 and puts /repo/src first on PYTHONPATH",
        "baseline_off_cmd": "cd /repo && /venv/bin/python -m pytest -ra -q -p no:cacheprovider --timeout=900 --continue-on-collection-errors",
        "source_commits": [],
        "add_only": True,
    },
    "engines": [{
        "name": "lean4-model+correspondence",
        "path": "lean/ (model, proofs, driver) + harness/ (Python correspondence harness) + check",
        "serves_properties": [c["property_id"] for c in checks],
        "kind_free_text": "Lean 4 theorems about an executable model; JSON-lines driver compared against the real implementation",
    }],
    "checks": checks,
    "notes": "fix: commits in /repo repair defects D1-D7, D9 found by this machinery (see known_findings.json, DESIGN.md section 9). D8 is a known finding.",
    "not_applicable": [
        {"property_id": p, "reason": "check not built yet (work in progress, DESIGN.md section 13 build order); will be claimed at level proof"}
        for p in props if p not in CLAIMS
    ],
}
(VERIF / "MANIFEST.json").write_text(json.dumps(manifest, indent=1, ensure_ascii=False) + "\n")
print("checks:", [c["property_id"] for c in checks])
